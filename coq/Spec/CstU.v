(* Spec/CstU.v -- the fragment of Spec/Cst.v over UNICODE (C03/C13 "non-ASCII names and values").
   An abstract document has the same shape as in Spec/Cst.v (the types [attr], [item], [doc] are
   reused), but names, attribute values, text, comment bodies, PI targets and PI values are lists
   of Unicode scalar values instead of lists of bytes; the whitespace fields stay ASCII.  The
   document is rendered by encoding every such field in UTF-8 and rendering the result as in
   Spec/Cst.v; its meaning is the meaning of the encoded document (names and contents as UTF-8
   byte strings).  Character classes are those of Spec/Chars.v.  Independent of the model. *)
From Coq Require Import List NArith Bool.
From RX.Spec Require Import Cst Chars.
Import ListNotations.
Open Scope N_scope.

Definition scalars := list N.

(* ---- UTF-8 (RFC 3629) ---- *)
Definition utf8 (c : N) : bytes :=
  if c <? 128 then [c]
  else if c <? 2048 then [192 + c / 64; 128 + c mod 64]
  else if c <? 65536 then [224 + c / 4096; 128 + (c / 64) mod 64; 128 + c mod 64]
  else [240 + c / 262144; 128 + (c / 4096) mod 64; 128 + (c / 64) mod 64; 128 + c mod 64].
Definition utf8s (l : scalars) : bytes := flat_map utf8 l.

(* ---- encoding a document field by field ---- *)
Definition enc_attr (a : attr) : attr :=
  {| a_ws := a_ws a; a_name := utf8s (a_name a); a_ws1 := a_ws1 a; a_ws2 := a_ws2 a;
     a_quote := a_quote a; a_value := utf8s (a_value a) |}.

Fixpoint enc_item (i : item) : item :=
  match i with
  | IElem name attrs ws_end body =>
    IElem (utf8s name) (map enc_attr attrs) ws_end
          (match body with
           | None => None
           | Some (children, ws2) =>
             Some ((fix go (l : list item) : list item :=
                      match l with [] => [] | c :: r => enc_item c :: go r end) children, ws2)
           end)
  | IText bs => IText (utf8s bs)
  | IComment bs => IComment (utf8s bs)
  | IPI target sep value => IPI (utf8s target) sep (utf8s value)
  end.

Definition enc_doc (d : doc) : doc :=
  {| d_before := map (fun p => (enc_item (fst p), snd p)) (d_before d);
     d_ws0 := d_ws0 d;
     d_root := enc_item (d_root d);
     d_after := map (fun p => (fst p, enc_item (snd p))) (d_after d);
     d_ws_end := d_ws_end d |}.

Definition render (d : doc) : bytes := Cst.render (enc_doc d).
Definition sem (d : doc) : list vnode := Cst.sem (enc_doc d).

(* ---- character classes (Spec/Chars.v, Fifth Edition) ---- *)
Definition is_name_start (c : N) : bool := xml_NameStartChar c && negb (c =? 58).   (* no ':' *)
Definition is_name_char (c : N) : bool := xml_NameChar c && negb (c =? 58).
Definition is_char (c : N) : bool := xml_Char c && negb (c =? 13).                   (* no CR *)

Definition wf_name (n : scalars) : bool :=
  match n with
  | [] => false
  | x :: r => is_name_start x && forallb is_name_char r
  end.

(* ---- well-formedness: the conditions of Spec/Cst.v with the Unicode classes ---- *)
Definition wf_attr (a : attr) : bool :=
  wf_ws1 (a_ws a) && wf_name (a_name a) && wf_ws (a_ws1 a) && wf_ws (a_ws2 a) &&
  ((a_quote a =? 39) || (a_quote a =? 34)) &&
  forallb (fun x => is_char x && negb (x =? 60) && negb (x =? 38) && negb (x =? a_quote a)
                    && negb (x =? 9) && negb (x =? 10)) (a_value a).

Fixpoint wf_item (i : item) : bool :=
  match i with
  | IElem name attrs ws_end body =>
    wf_name name && negb (if list_eq_dec N.eq_dec name [120; 109; 108; 110; 115] then true else false)
    && forallb wf_attr attrs
    && forallb (fun a => negb (if list_eq_dec N.eq_dec (a_name a) [120; 109; 108; 110; 115] then true else false)) attrs
    && names_distinct (map a_name attrs) && wf_ws ws_end &&
    match body with
    | None => true
    | Some (children, ws2) =>
      wf_ws ws2 && no_adjacent_text children &&
      (fix all (l : list item) : bool := match l with [] => true | c :: r => wf_item c && all r end) children
    end
  | IText bs =>
    match bs with [] => false | _ => true end &&
    forallb (fun x => is_char x && negb (x =? 60) && negb (x =? 38)) bs && negb (contains [93; 93; 62] bs)
  | IComment bs =>
    forallb is_char bs && negb (contains [45; 45] bs) &&
    match rev bs with x :: _ => negb (x =? 45) | [] => true end
  | IPI target sep value =>
    wf_name target && wf_ws sep && forallb is_char value && negb (contains [63; 62] value) &&
    negb (prefix_is_xml target) &&
    match value with
    | [] => true
    | x :: _ => negb (is_ws x) && match sep with [] => false | _ => true end
    end
  end.

Definition wf_doc (d : doc) : bool :=
  wf_ws (d_ws0 d) && wf_ws (d_ws_end d) &&
  forallb (fun p => is_misc (fst p) && wf_item (fst p) && wf_ws (snd p)) (d_before d) &&
  match d_root d with IElem _ _ _ _ => wf_item (d_root d) | _ => false end &&
  forallb (fun p => wf_ws (fst p) && is_misc (snd p) && wf_item (snd p)) (d_after d).
