(* Spec/CstFullS7.v -- the capstone fragment, stage S7: Spec/CstFullS6.v with two lexical exclusions removed.

   The documents, their rendering and their MEANING are those of Spec/CstFullS6.v (nothing is redefined: [S7.doc] is
   [S6.doc]); only the well-formedness conditions are wider:

   (1) a comment body and the value of a processing instruction may contain CR (any Char of XML 1.0).  The crate
       stores the raw source slice: no line-end normalisation applies to them (XML 1.0 2.11 would normalise; the
       difference is observable only through CR, and it is the documented behaviour of the crate), so the meaning
       [VComment] / [VPI] carries the CR as written -- which is what Spec/CstNs.v [sem_item] already says;
   (2) the name of the DOCTYPE and the target of a processing instruction are Names of XML 1.0 (production [5]):
       ':' is a name character like any other, in any position and any number of times (the crate reads them with
       skip_name / consume_name; only element and attribute names are qualified names).

   Still excluded, each for a stated reason: ':' in the names of ENTITIES (the crate accepts it, declaration and
   reference alike; (F): the character-data machinery of stage S3 is stated for colon-free names);
   '%' in an entity literal ((F): not XML either way; the crate keeps it verbatim).  The body of a skipped declaration (ELEMENT / ATTLIST / NOTATION) is
   that of Spec/CstFullS5.v as it is ([decl_body_ok]: '>' may occur inside a quoted literal).  Independent of the model. *)
From Coq Require Import List NArith Bool.
From RX.Spec Require Import Scope.
From RX.Spec Require Cst CstNs CstU CstText CstEnt Chars Detector.
From RX.Spec Require Import CstFull.
From RX.Spec Require CstFullS4 CstFullS5.
From RX.Spec Require Import CstFullS6.
Import ListNotations.
Open Scope N_scope.

(* ------------------------------------------------------------------------------------------ *)
(* names, comments, processing instructions                                                   *)
(* ------------------------------------------------------------------------------------------ *)
(* Name ::= NameStartChar (NameChar)*   -- ':' included *)
Definition wf_name7 (n : scalars) : bool :=
  match n with
  | [] => false
  | x :: r => Chars.xml_NameStartChar x && forallb Chars.xml_NameChar r
  end.

(* (R) no "--" inside, no '-' at the end *)
Definition wf_comment7 (cs : scalars) : bool :=
  forallb Chars.xml_Char cs && negb (Cst.contains [45; 45] cs) &&
  match rev cs with x :: _ => negb (x =? 45) | [] => true end.

Definition wf_pi7 (t : scalars) (sep : bytes) (v : scalars) : bool :=
  wf_name7 t && wf_s sep && forallb Chars.xml_Char v && negb (Cst.contains [63; 62] v) &&
  negb (Cst.prefix_is_xml t) &&                            (* (R) "<?xml " is the XML declaration *)
  match v with
  | [] => true
  | x :: _ => negb (Chars.xml_S x) && match sep with [] => false | _ => true end
  end.

Definition wf_misc7 {S : syntax} (i : item S) : bool :=
  match i with
  | IComment cs => wf_comment7 cs
  | IPI t s v => wf_pi7 t s v
  | _ => false
  end.

(* ------------------------------------------------------------------------------------------ *)
(* Spec/CstFullS6.v's conditions with these                                                   *)
(* ------------------------------------------------------------------------------------------ *)
Fixpoint wf_uitem7 (in_value : bool) (i : uitem) : bool :=
  match i with
  | IElem name es ws_end body =>
    wf_qname name && forallb (wf_uentry_s in_value) es && wf_s ws_end &&
    match body with
    | None => true
    | Some (children, ws2) =>
      wf_s ws2 && no_adjacent_text epieces children &&
      (fix all (l : list uitem) : bool := match l with [] => true | c :: r => wf_uitem7 in_value c && all r end) children
    end
  | IText ps => match ps with [] => false | _ => true end && wf_uepieces 60 true true in_value ps
  | IComment _ | IPI _ _ _ => wf_misc7 i
  end.

Definition wf_xvalue7 (q : N) (v : X4.xvalue) : bool :=
  forallb (fun x => negb (x =? q) && negb (x =? 37)) (X4.r_xvalue v) &&
  match v with
  | X4.XText ps => wf_uepieces q false true true ps
  | X4.XContent its => forallb (wf_uitem7 true) its && no_adjacent_text epieces its
  end.
Definition wf_xdecl7 (e : X4.xdecl) : bool :=
  wf_s (X4.x_ws0 e) && wf_s1 (X4.x_ws1 e) && CstU.wf_name (X4.x_name e) && wf_s1 (X4.x_ws2 e) &&
  X5.is_quote (X4.x_quote e) && wf_xvalue7 (X4.x_quote e) (X4.x_value e) && wf_s (X4.x_ws3 e).

(* the other items of the subset: Spec/CstFullS5.v, a comment / PI as above *)
Definition wf_other7 (s : X5.sdecl) : bool :=
  match s with
  | X5.SMisc ws0 i => wf_s ws0 && wf_misc7 i
  | _ => X5.wf_sdecl s
  end.
Definition wf_sdecl7 (s : sdecl6) : bool :=
  match s with XEntity e => wf_xdecl7 e | XOther s => negb (is_sentity s) && wf_other7 s end.
Definition wf_subset7 (u : subset6) : bool :=
  forallb wf_sdecl7 (zu_decls u) && wf_s (zu_ws3 u) && wf_s (zu_ws4 u).
Definition wf_doctype7 (t : doctype6) : bool :=
  wf_s1 (z_ws1 t) && wf_name7 (z_name t) && wf_s (z_ws2 t) &&
  match z_ext t with
  | Some (x, w) => wf_s1 (z_ws2 t) && X5.wf_extid x && wf_s w
  | None => true
  end && X5.wf_opt wf_subset7 (z_subset t).

Module S7.
  Definition doc := S6.doc.
  Definition render (d : doc) : bytes := S6.render d.
  Definition sem (d : doc) : list CstNs.vnode := S6.sem d.
  Definition has_dtd (d : doc) : bool := S6.has_dtd d.
  Definition distinct_decls_le (d : doc) (n : nat) : Prop := S6.distinct_decls_le d n.
  Definition ns_cost (d : doc) : nat := S6.ns_cost d.
  Definition nattrs (d : doc) : nat := S6.nattrs d.

  Definition wf_dtd_part (g : S6.dtd_part) : bool :=
    wf_s (S6.g_ws0 g) && forallb (fun p => wf_misc7 (fst p) && wf_s (snd p)) (S6.g_before g) && wf_doctype7 (S6.g_dtd g).
  (* [S6.wf_doc] with the conditions above *)
  Definition wf_doc (d : doc) : bool :=
    X5.wf_opt X5.wf_xmldecl (S6.x_decl d) && X5.wf_opt wf_dtd_part (S6.x_dtd d) &&
    wf_s (d_ws0 (S6.x_main d)) && wf_s (d_ws_end (S6.x_main d)) &&
    forallb (fun p => wf_misc7 (fst p) && wf_s (snd p)) (d_before (S6.x_main d)) &&
    match d_root (S6.x_main d) with IElem _ _ _ _ => wf_uitem7 false (d_root (S6.x_main d)) | _ => false end &&
    forallb (fun p => wf_s (fst p) && wf_misc7 (snd p)) (d_after (S6.x_main d)) &&
    match X4.S4.inline (S6.core d) with
    | None => false
    | Some (c, tr) =>
      limits_ok tr && X4.provisos_item (d_root c) && forallb (ns_ok []) (den X4.bmeaning (d_root c))
    end.
End S7.
