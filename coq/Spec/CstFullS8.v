(* Spec/CstFullS8.v -- the capstone fragment, stage S8: Spec/CstFullS7.v with one more lexical exclusion removed.

   The documents, their rendering and their MEANING are those of Spec/CstFullS6.v (nothing is redefined: [S8.doc] is
   [S6.doc]); only the well-formedness condition on the literal of a general internal entity is wider:

   (4) the literal may contain a bare '%'.  In XML 1.0 a '%' in an EntityValue starts a parameter-entity reference
       (production [9]; in the internal subset such a reference is not even allowed inside a markup declaration, WFC
       "PEs in Internal Subset"), so a document with it is not well-formed XML; the crate never looks at '%' inside
       a general-entity literal: it is an ordinary character of the replacement text, wherever the entity is
       referenced (character data, attribute value, namespace URI), and that is what the meaning says here.

   Still excluded: ':' in the names of ENTITIES (the crate accepts it, declaration and reference alike; (F): the
   character-data machinery of stage S3 -- references included -- is stated for colon-free names).
   Independent of the model. *)
From Coq Require Import List NArith Bool.
From RX.Spec Require Import Scope.
From RX.Spec Require Cst CstNs CstU CstText CstEnt Chars Detector.
From RX.Spec Require Import CstFull.
From RX.Spec Require CstFullS4 CstFullS5.
From RX.Spec Require Import CstFullS6 CstFullS7.
Import ListNotations.
Open Scope N_scope.

(* the value of a declaration quoted by q: (R) the quote ends the literal -- nothing else *)
Definition wf_xvalue8 (q : N) (v : X4.xvalue) : bool :=
  forallb (fun x => negb (x =? q)) (X4.r_xvalue v) &&
  match v with
  | X4.XText ps => wf_uepieces q false true true ps
  | X4.XContent its => forallb (wf_uitem7 true) its && no_adjacent_text epieces its
  end.
Definition wf_xdecl8 (e : X4.xdecl) : bool :=
  wf_s (X4.x_ws0 e) && wf_s1 (X4.x_ws1 e) && CstU.wf_name (X4.x_name e) && wf_s1 (X4.x_ws2 e) &&
  X5.is_quote (X4.x_quote e) && wf_xvalue8 (X4.x_quote e) (X4.x_value e) && wf_s (X4.x_ws3 e).

Definition wf_sdecl8 (s : sdecl6) : bool :=
  match s with XEntity e => wf_xdecl8 e | XOther s => negb (is_sentity s) && wf_other7 s end.
Definition wf_subset8 (u : subset6) : bool :=
  forallb wf_sdecl8 (zu_decls u) && wf_s (zu_ws3 u) && wf_s (zu_ws4 u).
Definition wf_doctype8 (t : doctype6) : bool :=
  wf_s1 (z_ws1 t) && wf_name7 (z_name t) && wf_s (z_ws2 t) &&
  match z_ext t with
  | Some (x, w) => wf_s1 (z_ws2 t) && X5.wf_extid x && wf_s w
  | None => true
  end && X5.wf_opt wf_subset8 (z_subset t).

Module S8.
  Definition doc := S6.doc.
  Definition render (d : doc) : bytes := S6.render d.
  Definition sem (d : doc) : list CstNs.vnode := S6.sem d.
  Definition has_dtd (d : doc) : bool := S6.has_dtd d.
  Definition distinct_decls_le (d : doc) (n : nat) : Prop := S6.distinct_decls_le d n.
  Definition ns_cost (d : doc) : nat := S6.ns_cost d.
  Definition nattrs (d : doc) : nat := S6.nattrs d.

  Definition wf_dtd_part (g : S6.dtd_part) : bool :=
    wf_s (S6.g_ws0 g) && forallb (fun p => wf_misc7 (fst p) && wf_s (snd p)) (S6.g_before g) && wf_doctype8 (S6.g_dtd g).
  (* [S7.wf_doc] with the condition above *)
  Definition wf_doc (d : doc) : bool :=
    X5.wf_opt X5.wf_xmldecl (S6.x_decl d) && X5.wf_opt wf_dtd_part (S6.x_dtd d) &&
    wf_s (d_ws0 (S6.x_main d)) && wf_s (d_ws_end (S6.x_main d)) &&
    forallb (fun p => wf_misc7 (fst p) && wf_s (snd p)) (d_before (S6.x_main d)) &&
    match d_root (S6.x_main d) with IElem _ _ _ _ => wf_uitem7 false (d_root (S6.x_main d)) | _ => false end &&
    forallb (fun p => wf_s (fst p) && wf_misc7 (snd p)) (d_after (S6.x_main d)) &&
    match X4.S4.inline (S6.core d) with
    | None => false
    | Some (c, tr) =>
      limits_ok tr && X4.provisos_item (d_root c) && forallb (ns_ok []) (den X4.bmeaning (d_root c))
    end.
End S8.
