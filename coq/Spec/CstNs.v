(* Spec/CstNs.v -- abstract documents WITH namespaces, their rendering and their meaning (C06).
   Same fragment as Spec/Cst.v (ASCII, no DOCTYPE, no references, no CR) except that element and
   attribute names are qualified names and that start tags carry namespace declarations.  The
   meaning is computed with the functions of Spec/Scope.v only.  Independent of the model. *)
From Coq Require Import List NArith Bool.
From RX.Spec Require Import Cst Scope.
Import ListNotations.
Open Scope N_scope.

(* ---- names ---- *)
Record qname := { q_prefix : bytes; q_local : bytes }.          (* prefix [] : unprefixed *)
Definition r_qname (q : qname) : bytes :=
  match q_prefix q with [] => q_local q | p => p ++ [58] ++ q_local q end.
Definition wf_qname (q : qname) : bool :=                       (* both parts are NCNames *)
  match q_prefix q with [] => true | p => wf_name p end && wf_name (q_local q).

Definition xmlns_b : bytes := [120; 109; 108; 110; 115].                                   (* "xmlns" *)
Definition xmlns_uri : bytes :=                                   (* "http://www.w3.org/2000/xmlns/" *)
  [104; 116; 116; 112; 58; 47; 47; 119; 119; 119; 46; 119; 51; 46; 111; 114; 103; 47; 50; 48; 48;
   48; 47; 120; 109; 108; 110; 115; 47].

(* ---- abstract syntax with layout ---- *)
Record layout := {
  l_ws : bytes;          (* whitespace before the entry (>= 1) *)
  l_ws1 : bytes;         (* whitespace before '=' *)
  l_ws2 : bytes;         (* whitespace after '=' *)
  l_quote : N            (* 39 or 34 *)
}.
(* what a start tag carries after the name, in source order *)
Inductive entry :=
| EAttr (l : layout) (name : qname) (value : bytes)              (* an ordinary attribute *)
| EDecl (l : layout) (prefix : bytes) (uri : bytes).             (* xmlns="uri" (prefix []) or xmlns:prefix="uri" *)

Inductive item :=
| IElem (name : qname) (entries : list entry) (ws_end : bytes) (body : option (list item * bytes))
| IText (bs : bytes)
| IComment (bs : bytes)
| IPI (target : bytes) (sep : bytes) (value : bytes).

Record doc := {
  d_before : list (item * bytes);
  d_ws0 : bytes;
  d_root : item;
  d_after : list (bytes * item);
  d_ws_end : bytes
}.

(* ---- rendering ---- *)
Definition e_layout (e : entry) : layout := match e with EAttr l _ _ | EDecl l _ _ => l end.
Definition e_name (e : entry) : bytes :=
  match e with
  | EAttr _ n _ => r_qname n
  | EDecl _ [] _ => xmlns_b
  | EDecl _ p _ => xmlns_b ++ [58] ++ p
  end.
Definition e_value (e : entry) : bytes := match e with EAttr _ _ v | EDecl _ _ v => v end.
Definition r_entry (e : entry) : bytes :=
  let l := e_layout e in
  l_ws l ++ e_name e ++ l_ws1 l ++ [61] ++ l_ws2 l ++ [l_quote l] ++ e_value e ++ [l_quote l].

Fixpoint r_item (i : item) : bytes :=
  match i with
  | IElem name es ws_end body =>
    [60] ++ r_qname name ++ flat_map r_entry es ++ ws_end ++
    match body with
    | None => [47; 62]
    | Some (children, ws2) =>
      [62] ++ (fix go (l : list item) : bytes := match l with [] => [] | c :: r => r_item c ++ go r end) children
      ++ [60; 47] ++ r_qname name ++ ws2 ++ [62]
    end
  | IText bs => bs
  | IComment bs => [60; 33; 45; 45] ++ bs ++ [45; 45; 62]
  | IPI target sep value => [60; 63] ++ target ++ sep ++ value ++ [63; 62]
  end.

Definition render (d : doc) : bytes :=
  d_ws0 d ++ flat_map (fun p => r_item (fst p) ++ snd p) (d_before d) ++ r_item (d_root d)
  ++ flat_map (fun p => fst p ++ r_item (snd p)) (d_after d) ++ d_ws_end d.

(* ---- scopes (Spec/Scope.v) ---- *)
(* the bindings an element declares, in source order.  xmlns:xml="<the xml URI>" is legal and
   binds nothing: the xml prefix is built in and never appears in a scope. *)
Definition own_bindings (es : list entry) : list binding :=
  flat_map (fun e => match e with
                     | EDecl _ p u => if bytes_eqb p xml_prefix then []
                                      else [(match p with [] => None | _ => Some p end, u)]
                     | EAttr _ _ _ => []
                     end) es.
Definition ns_of (r : resolved) : option bytes := match r with InNamespace u => Some u | _ => None end.
Definition is_bound (r : resolved) : bool := match r with Unbound => false | _ => true end.
(* the ordinary attributes of a start tag: (namespace, local name, value), in source order *)
Definition sem_attrs (sc : list binding) (es : list entry) : list (option bytes * bytes * bytes) :=
  flat_map (fun e => match e with
                     | EAttr _ n v => [(ns_of (resolve_attr sc (q_prefix n)), q_local n, v)]
                     | EDecl _ _ _ => []
                     end) es.

(* ---- well-formedness ---- *)
Definition wf_layout (l : layout) : bool :=
  wf_ws1 (l_ws l) && wf_ws (l_ws1 l) && wf_ws (l_ws2 l) && ((l_quote l =? 39) || (l_quote l =? 34)).
Definition wf_value (q : N) (v : bytes) : bool :=      (* as Cst.wf_attr: stored without a copy *)
  forallb (fun x => is_plain x && negb (x =? 60) && negb (x =? 38) && negb (x =? q)
                    && negb (x =? 9) && negb (x =? 10)) v.

(* Namespace conditions (N1-N7).  Each one excludes exactly what the parser rejects by the rules
   of Namespaces in XML 1.0:
   N1  the prefix of an element name is not "xmlns"                  (InvalidElementNamePrefix)
   N2  every prefix used by an element or attribute name is bound     (UnknownNamespace);
       "xml" is always bound, an unprefixed attribute needs no binding
   N3  the prefix "xmlns" is never declared (xmlns:xmlns=...)         (InvalidElementNamePrefix)
   N4  the URI "http://www.w3.org/2000/xmlns/" is never bound         (UnexpectedXmlnsUri)
   N5  "xml" is declared only with the xml URI (InvalidXmlPrefixUri) and the xml URI is bound
       to no other prefix and is not the default namespace             (UnexpectedXmlUri)
   N6  one start tag does not declare the same prefix (or the default) twice
                                                      (DuplicatedNamespace / DuplicatedAttribute)
   N7  the attributes of one start tag are distinct by EXPANDED name (namespace, local): p:a and
       q:a with p and q bound to one URI are excluded, a and p:a are fine  (DuplicatedAttribute)
   Syntax (not a rule, what the two constructors mean): an EAttr is not named "xmlns" and has
   not the prefix "xmlns" -- such an entry IS a declaration.  p:xmlns is an ordinary attribute.
   The empty URI is NOT excluded: the parser accepts xmlns="" and xmlns:p="" and treats "" as a
   URI like any other (an element in the default namespace "" has namespace Some []), which is
   also what Spec/Scope.v computes.
   The two resource limits of the parser (at most 65535 distinct declared (prefix, URI) pairs;
   the namespace table has at most u32::MAX entries) are not part of wf_doc: see [doc_decls]
   and [ns_cost] below. *)
Definition wf_entry (e : entry) : bool :=
  wf_layout (e_layout e) && wf_value (l_quote (e_layout e)) (e_value e) &&
  match e with
  | EAttr _ n _ =>
    wf_qname n && negb (bytes_eqb (q_prefix n) xmlns_b)
    && negb (match q_prefix n with [] => bytes_eqb (q_local n) xmlns_b | _ => false end)
  | EDecl _ p u =>
    match p with [] => true | _ => wf_name p end
    && negb (bytes_eqb p xmlns_b)                                                       (* N3 *)
    && negb (bytes_eqb u xmlns_uri)                                                     (* N4 *)
    && (if bytes_eqb p xml_prefix then bytes_eqb u xml_uri else negb (bytes_eqb u xml_uri))  (* N5 *)
  end.

Definition ename_eqb (x y : option bytes * bytes) : bool :=
  prefix_eqb (fst x) (fst y) && bytes_eqb (snd x) (snd y).
Fixpoint enames_distinct (l : list (option bytes * bytes)) : bool :=
  match l with
  | [] => true
  | n :: r => negb (existsb (ename_eqb n) r) && enames_distinct r
  end.

(* inh: the scope of the parent element ([] at the top) *)
Fixpoint wf_item (inh : list binding) (i : item) : bool :=
  match i with
  | IElem name es ws_end body =>
    let sc := scope_of (own_bindings es) inh in
    wf_qname name && negb (bytes_eqb (q_prefix name) xmlns_b)                           (* N1 *)
    && forallb wf_entry es
    && prefixes_unique (own_bindings es)                                                (* N6 *)
    && is_bound (resolve_elem sc (q_prefix name))                                       (* N2 *)
    && forallb (fun e => match e with EAttr _ n _ => is_bound (resolve_attr sc (q_prefix n))
                                     | EDecl _ _ _ => true end) es                      (* N2 *)
    && enames_distinct (map (fun a => (fst (fst a), snd (fst a))) (sem_attrs sc es))    (* N7 *)
    && wf_ws ws_end &&
    match body with
    | None => true
    | Some (children, ws2) =>
      wf_ws ws2 &&
      (fix adj (l : list item) : bool :=          (* no two adjacent text items *)
         match l with
         | a :: ((c :: _) as r) =>
           negb (match a, c with IText _, IText _ => true | _, _ => false end) && adj r
         | _ => true
         end) children &&
      (fix all (l : list item) : bool := match l with [] => true | c :: r => wf_item sc c && all r end) children
    end
  | IText bs => Cst.wf_item (Cst.IText bs)
  | IComment bs => Cst.wf_item (Cst.IComment bs)
  | IPI t s v => Cst.wf_item (Cst.IPI t s v)
  end.

Definition is_misc (i : item) : bool := match i with IComment _ | IPI _ _ _ => true | _ => false end.

Definition wf_doc (d : doc) : bool :=
  wf_ws (d_ws0 d) && wf_ws (d_ws_end d) &&
  forallb (fun p => is_misc (fst p) && wf_item [] (fst p) && wf_ws (snd p)) (d_before d) &&
  match d_root d with IElem _ _ _ _ => wf_item [] (d_root d) | _ => false end &&
  forallb (fun p => wf_ws (fst p) && is_misc (snd p) && wf_item [] (snd p)) (d_after d).

(* ---- meaning: the tree the document denotes, in pre-order ---- *)
Inductive vnode :=
| VElem (ns : option bytes) (local : bytes)          (* the expanded name of the tag *)
        (attrs : list (option bytes * bytes * bytes)) (* (namespace, local, value), source order *)
        (scope : list binding)                       (* Node::namespaces() *)
        (nchildren : nat)
| VText (bs : bytes)
| VComment (bs : bytes)
| VPI (target : bytes) (value : option bytes).

Fixpoint sem_item (inh : list binding) (i : item) : list vnode :=
  match i with
  | IElem name es _ body =>
    let sc := scope_of (own_bindings es) inh in
    let v := VElem (ns_of (resolve_elem sc (q_prefix name))) (q_local name) (sem_attrs sc es) sc in
    match body with
    | None => [v 0%nat]
    | Some (children, _) =>
      v (length children)
      :: (fix go (l : list item) : list vnode := match l with [] => [] | c :: r => sem_item sc c ++ go r end) children
    end
  | IText bs => [VText bs]
  | IComment bs => [VComment bs]
  | IPI target _ value => [VPI target (match value with [] => None | _ => Some value end)]
  end.

(* the scope above the root element is empty: the xml binding is built in, not inherited *)
Definition sem (d : doc) : list vnode :=
  flat_map (fun p => sem_item [] (fst p)) (d_before d) ++ sem_item [] (d_root d)
  ++ flat_map (fun p => sem_item [] (snd p)) (d_after d).

(* ---- what the two resource limits of the parser count ---- *)
(* all declared bindings, in document order *)
Fixpoint item_decls (i : item) : list binding :=
  match i with
  | IElem _ es _ body =>
    own_bindings es ++
    match body with
    | None => []
    | Some (children, _) =>
      (fix go (l : list item) : list binding := match l with [] => [] | c :: r => item_decls c ++ go r end) children
    end
  | _ => []
  end.
(* the parser stores at most 65535 distinct declared (prefix, URI) pairs *)
Definition distinct_decls_le (i : item) (n : nat) : Prop :=
  forall l, NoDup l -> incl l (item_decls i) -> (length l <= n)%nat.
(* entries of the namespace table: an element that declares something stores its whole scope,
   an element that declares nothing shares the table entries of its parent *)
Fixpoint ns_cost (inh : list binding) (i : item) : nat :=
  match i with
  | IElem _ es _ body =>
    let sc := scope_of (own_bindings es) inh in
    (match own_bindings es with [] => 0 | _ => length sc end +
     match body with
     | None => 0
     | Some (children, _) =>
       (fix go (l : list item) : nat := match l with [] => 0 | c :: r => ns_cost sc c + go r end) children
     end)%nat
  | _ => 0%nat
  end.
