(* Spec/CstFullS11.v -- the capstone fragment, stage S11: Spec/CstFullS10.v with character references to TAB and LF
   admitted in the literal of a general internal entity, where the crate's behaviour allows it: in the CHARACTER DATA
   of an entity that is used as content.

   The documents, their rendering and their MEANING are those of Spec/CstFullS6.v (nothing is redefined: [S11.doc] is
   [S6.doc]); only the well-formedness conditions are wider.  The meaning of a reference to an entity stays the
   INLINING of its value on the abstract syntax: a character-reference piece denotes its character, so "&#9;" in an
   entity literal is a TAB and "&#10;" a LF wherever the entity is referenced.  At entity depth > 0 the crate sends a
   referenced character through the line-end pairing of literal text when it goes to character data (TAB and LF are
   pushed as they are, a LF pairs with a pending CR), and through the attribute-value normalisation when it goes to
   an attribute value (TAB, LF, CR become a space).  Stage S10 excluded the three references altogether; the
   Examples [tab_text_agrees] / [lf_text_agrees] of Proofs/CstFullS10Example.v showed that in character data the crate
   agrees with the inlining.  This stage admits exactly that:

   (7) the CHARACTER DATA of a content entity -- the runs [IText] of a value [X4.XContent], directly in the value or
       inside the elements written in it, at any depth of nesting -- may contain character references to TAB (&#9;
       &#x9;) and to LF (&#10; &#xA;); [charref_ok11] only refuses the references to CR.  Two provisos, each a
       boolean condition on the abstract document, each necessary (closed Examples in Proofs/CstFullS11Example.v: a
       document that fails only this condition, on which the crate's tree differs from the meaning by inlining):

       (P1) the referenced TAB / LF never reaches an attribute value or a namespace URI.  The abstract syntax
            already separates the two kinds of entity: a value [X4.XText] (character data, may be referenced from
            character data AND from attribute values / namespace URIs / other [XText] values) and a value
            [X4.XContent] (content: may be referenced from character data only -- a reference to it from an
            attribute value, from a namespace URI or from an [XText] value has no inlining, [X4.S4.inline] is None and
            the document is not well formed; the same holds transitively, an entity whose value refers to a content
            entity being a content entity itself).  One and the same declaration <!ENTITY e "x&#9;y"> is the rendering
            of [XText [x; &#9;; y]] and of [XContent [IText [x; &#9;; y]]]: the references to TAB / LF are admitted in
            the second reading only, that is, when every reference to e -- directly or through other entities --
            stands in element content.  Values [XText] keep the condition of stage S10 ([charref_ok10]), and so do the
            attribute values and namespace URIs written INSIDE a content entity ([wf_uentry10]): there the crate
            turns the referenced TAB / LF into a space ([nec_tab_attr], [nec_lf_attr], [nec_tab_nsuri],
            [nec_tab_attr_markup], [nec_lf_attr_markup]; [nec_content_in_attr]: what the crate does with a
            reference to a content entity from an attribute value).
       (P2) a reference to LF does not directly follow, in the same run of the same literal, a literal piece that
            ends in CR ([lf_ok]): the crate pairs the two into ONE line end (D30), inlined they are two
            ([nec_lf_after_cr]).  No other adjacency matters ([adjacency_agrees]): a literal "CR LF" before the
            reference, a reference to TAB after the CR, a CDATA section ending in CR before the reference, another
            reference between the CR and the reference to LF, an entity whose value ends in CR referenced just
            before it (the crate flushes its buffer at every entity reference, a pending CR never crosses an entity
            boundary), a CR that ends the character data BEFORE the reference to the entity whose value starts with
            the reference to LF.

   What stays excluded:
   (F-CR)  a reference to CR (&#13;) in an entity literal, as in stage S10: at depth > 0 the crate turns it into LF
           (character data) or into a space (attribute value); inlined it is a CR ([nec_cr_text], [nec_cr_attr] of
           Proofs/CstFullS10Example.v, [nec_cr_content] here).
   (F-LF) (F-TAB) references to LF / TAB in a value [XText] and in the attribute values / namespace URIs inside a
           content entity: (P1).
   [s10_in_s11] (Proofs/CstFullS11Main.v): the documents of stage S10 are documents of this stage.  [content_reading]
   (same file): a non-empty literal of character data that satisfies the conditions of a run ([wf_uepieces11], (P2)
   included) is the rendering of a well-formed value [XContent [IText ps]] -- so (P1) asks nothing of the declaration,
   only of the places where the entity is referenced.  Independent of the model. *)
From Coq Require Import List NArith Bool.
From RX.Spec Require Import Scope.
From RX.Spec Require Cst CstNs CstU CstText CstEnt Chars Detector.
From RX.Spec Require Import CstFull.
From RX.Spec Require CstFullS4 CstFullS5.
From RX.Spec Require Import CstFullS6 CstFullS7 CstFullS8 CstFullS9 CstFullS10.
Import ListNotations.
Open Scope N_scope.

(* ------------------------------------------------------------------------------------------ *)
(* (F-CR): Spec/CstFullS10.v [charref_ok10] without the tests for TAB (9) and LF (10)          *)
(* ------------------------------------------------------------------------------------------ *)
Definition charref_ok11 (p : T.piece) : bool :=
  match p with
  | T.PCharRef hex ds => negb (T.ref_val hex ds =? 13)
  | _ => true
  end.

(* ------------------------------------------------------------------------------------------ *)
(* (P2): no reference to LF directly after a literal piece that ends in CR                    *)
(* ------------------------------------------------------------------------------------------ *)
Definition is_lf_ref (p : E.epiece) : bool :=
  match p with E.EP (T.PCharRef hex ds) => T.ref_val hex ds =? 10 | _ => false end.
Definition lit_ends_cr (p : E.epiece) : bool :=
  match p with E.EP q => E.ends_cr q | E.ERef _ => false end.
(* [pend]: the piece before is a literal that ends in CR *)
Fixpoint lf_ok (pend : bool) (ps : list E.epiece) : bool :=
  match ps with
  | [] => true
  | p :: r => negb (pend && is_lf_ref p) && lf_ok (lit_ends_cr p) r
  end.

(* ------------------------------------------------------------------------------------------ *)
(* the pieces of a run of character data: Spec/CstFullS10.v [wf_uepiece10] with these          *)
(* ------------------------------------------------------------------------------------------ *)
Definition wf_uepiece11 (q : N) (cdata chardata in_value : bool) (p : E.epiece) : bool :=
  match p with
  | E.EP (T.PCData cs) => cdata && wf_utpiece (T.PCData cs)
  | E.EP p' => (if chardata then wf_utpiece p' else true) && wf_uvpiece q p'
               && (if in_value then charref_ok11 p' else true)
  | E.ERef n => wf_name7 n && negb (E.is_predef_name n)   (* (F) &lt; etc. are the predefined entities *)
  end.
Definition wf_uepieces11 (q : N) (cdata chardata in_value : bool) (ps : list E.epiece) : bool :=
  forallb (wf_uepiece11 q cdata chardata in_value) ps && E.no_adjacent_elit ps &&
  (if in_value then lf_ok false ps else true).                                            (* (P2) *)

(* ------------------------------------------------------------------------------------------ *)
(* items: the runs of character data with the conditions above; the attribute values and the  *)
(* namespace URIs with those of stage S10 ([wf_uentry10]): (P1)                               *)
(* ------------------------------------------------------------------------------------------ *)
Fixpoint wf_uitem11 (in_value : bool) (i : uitem) : bool :=
  match i with
  | IElem name es ws_end body =>
    wf_qname name && forallb (wf_uentry10 in_value) es && wf_s ws_end &&
    match body with
    | None => true
    | Some (children, ws2) =>
      wf_s ws2 && no_adjacent_text epieces children &&
      (fix all (l : list uitem) : bool := match l with [] => true | c :: r => wf_uitem11 in_value c && all r end) children
    end
  | IText ps => match ps with [] => false | _ => true end && wf_uepieces11 60 true true in_value ps
  | IComment _ | IPI _ _ _ => wf_misc7 i
  end.

(* a value [XText] (usable in attribute values) keeps the condition of stage S10: (P1) *)
Definition wf_xvalue11 (q : N) (v : X4.xvalue) : bool :=
  forallb (fun x => negb (x =? q)) (X4.r_xvalue v) &&
  match v with
  | X4.XText ps => wf_uepieces10 q false true true ps
  | X4.XContent its => forallb (wf_uitem11 true) its && no_adjacent_text epieces its
  end.
Definition wf_xdecl11 (e : X4.xdecl) : bool :=
  wf_s (X4.x_ws0 e) && wf_s1 (X4.x_ws1 e) && wf_name7 (X4.x_name e) && wf_s1 (X4.x_ws2 e) &&
  X5.is_quote (X4.x_quote e) && wf_xvalue11 (X4.x_quote e) (X4.x_value e) && wf_s (X4.x_ws3 e).

Definition wf_sdecl11 (s : sdecl6) : bool :=
  match s with XEntity e => wf_xdecl11 e | XOther s => negb (is_sentity s) && wf_other7 s end.
Definition wf_subset11 (u : subset6) : bool :=
  forallb wf_sdecl11 (zu_decls u) && wf_s (zu_ws3 u) && wf_s (zu_ws4 u).
Definition wf_doctype11 (t : doctype6) : bool :=
  wf_s1 (z_ws1 t) && wf_name7 (z_name t) && wf_s (z_ws2 t) &&
  match z_ext t with
  | Some (x, w) => wf_s1 (z_ws2 t) && X5.wf_extid x && wf_s w
  | None => true
  end && X5.wf_opt wf_subset11 (z_subset t).

Module S11.
  Definition doc := S6.doc.
  Definition render (d : doc) : bytes := S6.render d.
  Definition sem (d : doc) : list CstNs.vnode := S6.sem d.
  Definition has_dtd (d : doc) : bool := S6.has_dtd d.
  Definition distinct_decls_le (d : doc) (n : nat) : Prop := S6.distinct_decls_le d n.
  Definition ns_cost (d : doc) : nat := S6.ns_cost d.
  Definition nattrs (d : doc) : nat := S6.nattrs d.

  Definition wf_dtd_part (g : S6.dtd_part) : bool :=
    wf_s (S6.g_ws0 g) && forallb (fun p => wf_misc7 (fst p) && wf_s (snd p)) (S6.g_before g) && wf_doctype11 (S6.g_dtd g).
  (* [S10.wf_doc] with the conditions above *)
  Definition wf_doc (d : doc) : bool :=
    X5.wf_opt X5.wf_xmldecl (S6.x_decl d) && X5.wf_opt wf_dtd_part (S6.x_dtd d) &&
    wf_s (d_ws0 (S6.x_main d)) && wf_s (d_ws_end (S6.x_main d)) &&
    forallb (fun p => wf_misc7 (fst p) && wf_s (snd p)) (d_before (S6.x_main d)) &&
    match d_root (S6.x_main d) with IElem _ _ _ _ => wf_uitem11 false (d_root (S6.x_main d)) | _ => false end &&
    forallb (fun p => wf_s (fst p) && wf_misc7 (snd p)) (d_after (S6.x_main d)) &&
    match X4.S4.inline (S6.core d) with
    | None => false
    | Some (c, tr) =>
      limits_ok tr && X4.provisos_item (d_root c) && forallb (ns_ok []) (den X4.bmeaning (d_root c))
    end.
End S11.
