(* Spec/Deque.v -- what a double-ended, exact-size iterator over a list must do (C11). *)
From Coq Require Import List NArith.
Import ListNotations.

Inductive dop := DNext | DNextBack | DNth (k : nat) | DLen.
Inductive dout (A : Type) := OItem (o : option A) | OLen (n : nat).
Arguments OItem {A} o.
Arguments OLen {A} n.

(* the remaining items are a list; next takes from the front, next_back from the back,
   nth k drops k items and takes the next (dropping everything when there are not enough),
   len reports the number of remaining items *)
Fixpoint deque_run {A} (ops : list dop) (l : list A) : list (dout A) :=
  match ops with
  | [] => []
  | DNext :: r =>
    match l with
    | [] => OItem None :: deque_run r []
    | x :: l' => OItem (Some x) :: deque_run r l'
    end
  | DNextBack :: r =>
    match rev l with
    | [] => OItem None :: deque_run r []
    | x :: l' => OItem (Some x) :: deque_run r (rev l')
    end
  | DNth k :: r =>
    match skipn k l with
    | [] => OItem None :: deque_run r []
    | x :: l' => OItem (Some x) :: deque_run r l'
    end
  | DLen :: r => OLen (length l) :: deque_run r l
  end.
