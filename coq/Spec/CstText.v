(* Spec/CstText.v -- the abstract documents of Spec/Cst.v with DECODED character data and
   attribute values (C04, C05): a text run is a list of pieces (literal bytes, character
   references, predefined entity references, CDATA sections), an attribute value a list of pieces
   (literals and references).  Rendering to bytes, well-formedness of the fragment, and the
   meaning, computed by Spec/Text.v ([decode_chunks], [norm_attr_chunks]) on the chunk list of the
   pieces.  Everything that is not text (names, white space, comments, PIs, the document frame) is
   taken from Spec/Cst.v.  Still ASCII source text (a character reference may DENOTE any Char: its
   UTF-8 encoding appears in the meaning), no DOCTYPE / entities / namespaces.
   Independent of the model. *)
From Coq Require Import List NArith Bool.
Import ListNotations.
From RX.Spec Require Cst.
From RX.Spec Require Import Text Chars.
Open Scope N_scope.

(* ---- pieces ---- *)
Inductive predef := Amp | Lt | Gt | Apos | Quot.

Inductive piece :=
| PLit (bs : bytes)                       (* literal source bytes *)
| PCharRef (hex : bool) (digits : bytes)  (* &#digits;  /  &#xdigits;  (the digit string as written) *)
| PPredef (e : predef)                    (* &amp; &lt; &gt; &apos; &quot; *)
| PCData (bs : bytes).                    (* <![CDATA[bs]]>  (text runs only) *)

(* printable ASCII, TAB, LF and -- unlike Cst.is_plain -- CR *)
Definition is_tplain (x : N) : bool := ((32 <=? x) && (x <? 127)) || (x =? 9) || (x =? 10) || (x =? 13).

Definition predef_name (e : predef) : bytes :=
  match e with
  | Amp => [97; 109; 112] | Lt => [108; 116] | Gt => [103; 116]
  | Apos => [97; 112; 111; 115] | Quot => [113; 117; 111; 116]
  end.
Definition predef_char (e : predef) : N :=
  match e with Amp => 38 | Lt => 60 | Gt => 62 | Apos => 39 | Quot => 34 end.

Definition cdata_open : bytes := [60; 33; 91; 67; 68; 65; 84; 65; 91].   (* <![CDATA[ *)
Definition cdata_close : bytes := [93; 93; 62].                          (* ]]> *)

Definition r_piece (p : piece) : bytes :=
  match p with
  | PLit bs => bs
  | PCharRef hex ds => [38; 35] ++ (if hex then [120] else []) ++ ds ++ [59]
  | PPredef e => [38] ++ predef_name e ++ [59]
  | PCData bs => cdata_open ++ bs ++ cdata_close
  end.

(* ---- what a reference denotes ---- *)
Definition is_digit (hex : bool) (x : N) : bool :=
  ((48 <=? x) && (x <=? 57)) || (hex && (((65 <=? x) && (x <=? 70)) || ((97 <=? x) && (x <=? 102)))).
Definition digit_val (x : N) : N := if x <? 58 then x - 48 else if x <? 97 then x - 55 else x - 87.
Definition ref_val (hex : bool) (ds : bytes) : N :=
  fold_left (fun acc x => acc * (if hex then 16 else 10) + digit_val x) ds 0.

(* UTF-8 (RFC 3629) of a scalar value *)
Definition utf8 (c : N) : bytes :=
  if c <? 128 then [c]
  else if c <? 2048 then [192 + c / 64; 128 + c mod 64]
  else if c <? 65536 then [224 + c / 4096; 128 + (c / 64) mod 64; 128 + c mod 64]
  else [240 + c / 262144; 128 + (c / 4096) mod 64; 128 + (c / 64) mod 64; 128 + c mod 64].

(* ---- the chunk list of a piece (Spec/Text.v): literal bytes are source bytes, a reference is
   the referenced character.  A CDATA section is literal source text as well (line ends are
   normalised in it), but its delimiters stand between its content and the neighbouring
   pieces: in "a CR ]]> LF" the CR is followed by ']' and the LF preceded by '>', so NO CR LF pair
   is formed across a CDATA boundary.  The empty reference chunk [CRef []] says exactly this to
   [decode_chunks]: it contributes nothing and ends the literal stretch. *)
Definition piece_chunks (p : piece) : list chunk :=
  match p with
  | PLit bs => map CLit bs
  | PCharRef hex ds => [CRef (utf8 (ref_val hex ds))]
  | PPredef e => [CRef [predef_char e]]
  | PCData bs => CRef [] :: map CLit bs ++ [CRef []]
  end.

(* 2.11 + 4.1 + 4.6: the character data a text run denotes *)
Definition text_sem (ps : list piece) : bytes := decode_chunks (flat_map piece_chunks ps).
(* 3.3.3: the normalised value of an attribute *)
Definition value_sem (ps : list piece) : bytes := norm_attr_chunks (flat_map piece_chunks ps).

(* ---- abstract syntax with layout (as Spec/Cst.v) ---- *)
Record attr := {
  a_ws : bytes; a_name : bytes; a_ws1 : bytes; a_ws2 : bytes;
  a_quote : N;                 (* 39 or 34 *)
  a_value : list piece         (* no PCData *)
}.

Inductive item :=
| IElem (name : bytes) (attrs : list attr) (ws_end : bytes) (body : option (list item * bytes))
| IText (ps : list piece)      (* a maximal run of character data: non-empty *)
| IComment (bs : bytes)
| IPI (target : bytes) (sep : bytes) (value : bytes).

Record doc := {
  d_before : list (item * bytes); d_ws0 : bytes; d_root : item;
  d_after : list (bytes * item); d_ws_end : bytes
}.

(* ---- rendering ---- *)
Definition r_pieces (ps : list piece) : bytes := flat_map r_piece ps.

Definition r_attr (a : attr) : bytes :=
  a_ws a ++ a_name a ++ a_ws1 a ++ [61] ++ a_ws2 a ++ [a_quote a] ++ r_pieces (a_value a) ++ [a_quote a].

Fixpoint r_item (i : item) : bytes :=
  match i with
  | IElem name attrs ws_end body =>
    [60] ++ name ++ flat_map r_attr attrs ++ ws_end ++
    match body with
    | None => [47; 62]
    | Some (children, ws2) =>
      [62] ++ (fix go (l : list item) : bytes := match l with [] => [] | c :: r => r_item c ++ go r end) children
      ++ [60; 47] ++ name ++ ws2 ++ [62]
    end
  | IText ps => r_pieces ps
  | IComment bs => Cst.r_item (Cst.IComment bs)
  | IPI target sep value => Cst.r_item (Cst.IPI target sep value)
  end.

Definition render (d : doc) : bytes :=
  d_ws0 d ++ flat_map (fun p => r_item (fst p) ++ snd p) (d_before d) ++ r_item (d_root d)
  ++ flat_map (fun p => fst p ++ r_item (snd p)) (d_after d) ++ d_ws_end d.

(* ---- well-formedness of the fragment.  Each condition either keeps the document inside the
   fragment (F) or excludes something the parser rejects (R). ---- *)

(* a reference to a character: (R) at least one digit, digits of the right radix;
   (R) the number is a Char of XML 1.0 (4.1 WFC Legal Character) *)
Definition wf_charref (hex : bool) (ds : bytes) : bool :=
  match ds with [] => false | _ => true end && forallb (is_digit hex) ds && xml_Char (ref_val hex ds).

(* [q]: the byte that may not occur literally (the quote of an attribute value; 60 for text) *)
Definition wf_lit (q : N) (bs : bytes) : bool :=
  match bs with [] => false | _ => true end                          (* (F) no empty literal piece *)
  && forallb (fun x => is_tplain x                                   (* (F) ASCII source, (R) Chars only *)
                       && negb (x =? 60) && negb (x =? 38)           (* (R) '<' and '&' are markup *)
                       && negb (x =? q)) bs.                         (* (R) the closing quote *)

Definition wf_tpiece (p : piece) : bool :=
  match p with
  | PLit bs => wf_lit 60 bs && negb (Cst.contains cdata_close bs)    (* (R) "]]>" in character data *)
  | PCharRef hex ds => wf_charref hex ds
  | PPredef _ => true
  | PCData bs => forallb is_tplain bs && negb (Cst.contains cdata_close bs)  (* the first "]]>" ends the section *)
  end.
Definition wf_vpiece (q : N) (p : piece) : bool :=
  match p with
  | PLit bs => wf_lit q bs
  | PCharRef hex ds => wf_charref hex ds
  | PPredef _ => true
  | PCData _ => false                                                (* (R) no CDATA in attribute values *)
  end.

Definition is_lit (p : piece) : bool := match p with PLit _ => true | _ => false end.
(* (F) two adjacent literals are one literal (this also keeps "]]>" from arising across pieces) *)
Fixpoint no_adjacent_lit (ps : list piece) : bool :=
  match ps with
  | a :: ((c :: _) as r) => negb (is_lit a && is_lit c) && no_adjacent_lit r
  | _ => true
  end.

Definition wf_text (ps : list piece) : bool :=
  match ps with [] => false | _ => true end                          (* (F) a run has at least one piece *)
  && forallb wf_tpiece ps && no_adjacent_lit ps.
Definition wf_value (q : N) (ps : list piece) : bool := forallb (wf_vpiece q) ps && no_adjacent_lit ps.

Definition wf_attr (a : attr) : bool :=
  Cst.wf_ws1 (a_ws a) && Cst.wf_name (a_name a) && Cst.wf_ws (a_ws1 a) && Cst.wf_ws (a_ws2 a) &&
  ((a_quote a =? 39) || (a_quote a =? 34)) && wf_value (a_quote a) (a_value a).

Definition is_misc (i : item) : bool := match i with IComment _ | IPI _ _ _ => true | _ => false end.
Definition is_text (i : item) : bool := match i with IText _ => true | _ => false end.
(* (F) a run is maximal: adjacent character data belongs to one run (one Text node) *)
Fixpoint no_adjacent_text (l : list item) : bool :=
  match l with
  | a :: ((c :: _) as r) => negb (is_text a && is_text c) && no_adjacent_text r
  | _ => true
  end.

Definition is_xmlns (n : bytes) : bool := if list_eq_dec N.eq_dec n [120; 109; 108; 110; 115] then true else false.

Fixpoint wf_item (i : item) : bool :=
  match i with
  | IElem name attrs ws_end body =>
    Cst.wf_name name && negb (is_xmlns name)                         (* (F) ASCII names without ':'; no namespaces *)
    && forallb wf_attr attrs && forallb (fun a => negb (is_xmlns (a_name a))) attrs
    && Cst.names_distinct (map a_name attrs)                         (* (R) duplicated attribute *)
    && Cst.wf_ws ws_end &&
    match body with
    | None => true
    | Some (children, ws2) =>
      Cst.wf_ws ws2 && no_adjacent_text children &&
      (fix all (l : list item) : bool := match l with [] => true | c :: r => wf_item c && all r end) children
    end
  | IText ps => wf_text ps
  | IComment bs => Cst.wf_item (Cst.IComment bs)                     (* as in Spec/Cst.v *)
  | IPI target sep value => Cst.wf_item (Cst.IPI target sep value)   (* as in Spec/Cst.v *)
  end.

Definition wf_doc (d : doc) : bool :=
  Cst.wf_ws (d_ws0 d) && Cst.wf_ws (d_ws_end d) &&
  forallb (fun p => is_misc (fst p) && wf_item (fst p) && Cst.wf_ws (snd p)) (d_before d) &&
  match d_root d with IElem _ _ _ _ => wf_item (d_root d) | _ => false end &&
  forallb (fun p => Cst.wf_ws (fst p) && is_misc (snd p) && wf_item (snd p)) (d_after d).

(* ---- meaning: the nodes below the Root in document order (the vnodes of Spec/Cst.v) ---- *)
Definition eattrs (attrs : list attr) : list (bytes * bytes) :=
  map (fun a => (a_name a, value_sem (a_value a))) attrs.

Fixpoint sem_item (i : item) : list Cst.vnode :=
  match i with
  | IElem name attrs _ body =>
    match body with
    | None => [Cst.VElem name (eattrs attrs) 0]
    | Some (children, _) =>
      Cst.VElem name (eattrs attrs) (length children)
      :: (fix go (l : list item) : list Cst.vnode := match l with [] => [] | c :: r => sem_item c ++ go r end) children
    end
  | IText ps => [Cst.VText (text_sem ps)]          (* ONE text node per run, also when it is empty: <![CDATA[]]> *)
  | IComment bs => [Cst.VComment bs]
  | IPI target _ value => [Cst.VPI target (match value with [] => None | _ => Some value end)]
  end.

Definition sem (d : doc) : list Cst.vnode :=
  flat_map (fun p => sem_item (fst p)) (d_before d) ++ sem_item (d_root d)
  ++ flat_map (fun p => sem_item (snd p)) (d_after d).
