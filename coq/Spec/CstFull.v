(* Spec/CstFull.v -- the capstone fragment (C03..C07 in ONE whole-document statement).

   THE FRAME is stated once: a document is a tree of elements with QUALIFIED Unicode names, start
   tags carrying ordinary attributes and namespace declarations, comments, processing instructions
   and runs of character data, in the document layout of Spec/Cst.v (prolog, root, epilog, white
   space).  Names, comments and PIs are lists of Unicode scalar values with the classes of
   Spec/Chars.v (as in Spec/CstU.v); everything is rendered in UTF-8.

   WHAT A STAGE PLUGS IN is the syntax of (a) the VALUE of an attribute or of a namespace
   declaration (what stands between the quotes) and (b) a RUN of character data, together with
   their rendering, their well-formedness and what they denote:
     S1  plain Unicode strings                                   (Spec/CstNs.v over Unicode)
     S2  piece lists of Spec/CstText.v over Unicode literals     (references, CDATA, CR)
     S3  piece lists with references to the entities of an internal DTD subset (Spec/CstEnt.v)
   The value of a namespace declaration is a value like any other: its URI is what the value
   denotes (the NORMALISED value).

   MEANING.  An item DENOTES items of Spec/CstNs.v whose strings are the decoded ones (names in
   UTF-8, normalised attribute values and URIs, decoded character data): [den].  The meaning of
   the document is the Spec/CstNs.v meaning of what it denotes, hence computed with Spec/Scope.v
   only.  The namespace rules N1-N7 of Spec/CstNs.v are conditions on the denotation ([ns_ok]),
   so the reserved prefixes / URIs are tested on normalised URIs.  Independent of the model. *)
From Coq Require Import List NArith Bool.
From RX.Spec Require Import Scope.
From RX.Spec Require Cst CstNs CstU CstText CstEnt Chars Detector.
Import ListNotations.
Open Scope N_scope.

Definition scalars := CstU.scalars.            (* Unicode scalar values *)
Notation utf8s := CstU.utf8s.
Notation layout := CstNs.layout.

(* ------------------------------------------------------------------------------------------ *)
(* what a stage plugs into the frame                                                          *)
(* ------------------------------------------------------------------------------------------ *)
Record syntax := {
  val : Type;                       (* the value of an attribute / of a namespace declaration *)
  run : Type;                       (* a maximal run of character data *)
  r_val : val -> bytes;             (* what is written between the quotes *)
  r_run : run -> bytes
}.
Record meaning (S : syntax) := {
  wf_val : N -> val S -> bool;      (* the argument is the quote: 39 or 34 *)
  wf_run : run S -> bool;
  val_sem : val S -> bytes;         (* the normalised value *)
  run_sem : run S -> option bytes   (* the character data; None: the run denotes no node at all *)
}.
Arguments wf_val {S}. Arguments wf_run {S}. Arguments val_sem {S}. Arguments run_sem {S}.

(* ------------------------------------------------------------------------------------------ *)
(* the frame                                                                                  *)
(* ------------------------------------------------------------------------------------------ *)
Section Frame.
Variable S : syntax.

Record qname := { q_prefix : scalars; q_local : scalars }.      (* prefix [] : unprefixed *)

Inductive entry :=                 (* what a start tag carries after the name, in source order *)
| EAttr (l : layout) (name : qname) (value : val S)             (* an ordinary attribute *)
| EDecl (l : layout) (prefix : scalars) (value : val S).        (* xmlns="..." (prefix []) or xmlns:prefix="..." *)

Inductive item :=
| IElem (name : qname) (entries : list entry) (ws_end : bytes) (body : option (list item * bytes))
| IText (r : run S)
| IComment (cs : scalars)
| IPI (target : scalars) (sep : bytes) (value : scalars).

Record doc := {
  d_before : list (item * bytes);  (* comments / PIs before the root, each followed by whitespace *)
  d_ws0 : bytes;
  d_root : item;
  d_after : list (bytes * item);
  d_ws_end : bytes
}.

(* ---- translation to Spec/CstNs.v, given what to put for values and runs ---- *)
Definition x_qname (q : qname) : CstNs.qname :=
  {| CstNs.q_prefix := utf8s (q_prefix q); CstNs.q_local := utf8s (q_local q) |}.
Definition x_entry (fv : val S -> bytes) (e : entry) : CstNs.entry :=
  match e with
  | EAttr l n v => CstNs.EAttr l (x_qname n) (fv v)
  | EDecl l p v => CstNs.EDecl l (utf8s p) (fv v)
  end.

(* ---- rendering: as in Spec/CstNs.v, every field in UTF-8, values and runs as written ---- *)
Definition r_qname (q : qname) : bytes := CstNs.r_qname (x_qname q).
Definition r_entry (e : entry) : bytes := CstNs.r_entry (x_entry (r_val S) e).

Fixpoint r_item (i : item) : bytes :=
  match i with
  | IElem name es ws_end body =>
    [60] ++ r_qname name ++ flat_map r_entry es ++ ws_end ++
    match body with
    | None => [47; 62]
    | Some (children, ws2) =>
      [62] ++ (fix go (l : list item) : bytes := match l with [] => [] | c :: r => r_item c ++ go r end) children
      ++ [60; 47] ++ r_qname name ++ ws2 ++ [62]
    end
  | IText r => r_run S r
  | IComment cs => Cst.r_item (Cst.IComment (utf8s cs))
  | IPI target sep value => Cst.r_item (Cst.IPI (utf8s target) sep (utf8s value))
  end.

Definition render (d : doc) : bytes :=
  d_ws0 d ++ flat_map (fun p => r_item (fst p) ++ snd p) (d_before d) ++ r_item (d_root d)
  ++ flat_map (fun p => fst p ++ r_item (snd p)) (d_after d) ++ d_ws_end d.

(* ---- syntactic well-formedness (names, layout, values, runs, comments, PIs) ---- *)
Definition wf_qname (q : qname) : bool :=                       (* both parts are NCNames *)
  match q_prefix q with [] => true | p => CstU.wf_name p end && CstU.wf_name (q_local q).
Definition e_layout (e : entry) : layout := match e with EAttr l _ _ | EDecl l _ _ => l end.
Definition e_value (e : entry) : val S := match e with EAttr _ _ v | EDecl _ _ v => v end.
Definition is_text (i : item) : bool := match i with IText _ => true | _ => false end.
Definition is_misc (i : item) : bool := match i with IComment _ | IPI _ _ _ => true | _ => false end.
Fixpoint no_adjacent_text (l : list item) : bool :=             (* a run is maximal *)
  match l with
  | a :: ((c :: _) as r) => negb (is_text a && is_text c) && no_adjacent_text r
  | _ => true
  end.

Variable M : meaning S.

Definition wf_entry (e : entry) : bool :=
  CstNs.wf_layout (e_layout e) && wf_val M (CstNs.l_quote (e_layout e)) (e_value e) &&
  match e with
  | EAttr _ n _ => wf_qname n
  | EDecl _ p _ => match p with [] => true | _ => CstU.wf_name p end
  end.

Fixpoint wf_item (i : item) : bool :=
  match i with
  | IElem name es ws_end body =>
    wf_qname name && forallb wf_entry es && Cst.wf_ws ws_end &&
    match body with
    | None => true
    | Some (children, ws2) =>
      Cst.wf_ws ws2 && no_adjacent_text children &&
      (fix all (l : list item) : bool := match l with [] => true | c :: r => wf_item c && all r end) children
    end
  | IText r => wf_run M r
  | IComment cs => CstU.wf_item (Cst.IComment cs)                (* as in Spec/CstU.v *)
  | IPI t s v => CstU.wf_item (Cst.IPI t s v)                    (* as in Spec/CstU.v *)
  end.

(* ---- what an item denotes: items of Spec/CstNs.v with decoded strings ---- *)
Fixpoint den (i : item) : list CstNs.item :=
  match i with
  | IElem name es ws_end body =>
    [CstNs.IElem (x_qname name) (map (x_entry (val_sem M)) es) ws_end
       (match body with
        | None => None
        | Some (children, ws2) =>
          Some ((fix go (l : list item) : list CstNs.item :=
                   match l with [] => [] | c :: r => den c ++ go r end) children, ws2)
        end)]
  | IText r => match run_sem M r with Some bs => [CstNs.IText bs] | None => [] end
  | IComment cs => [CstNs.IComment (utf8s cs)]
  | IPI t s v => [CstNs.IPI (utf8s t) s (utf8s v)]
  end.

Definition doc_items (d : doc) : list item := map fst (d_before d) ++ d_root d :: map snd (d_after d).

(* the meaning of the document: the Spec/CstNs.v meaning of what it denotes (the scope above the
   root element is empty) *)
Definition sem (d : doc) : list CstNs.vnode :=
  flat_map (CstNs.sem_item []) (flat_map den (doc_items d)).

(* ---- the namespace rules of Spec/CstNs.v (see N1-N7 there), on the denotation ---- *)
Definition ns_entry_ok (e : CstNs.entry) : bool :=
  match e with
  | CstNs.EAttr _ n _ =>        (* syntax: an entry named xmlns or xmlns:p IS a declaration *)
    negb (bytes_eqb (CstNs.q_prefix n) CstNs.xmlns_b)
    && negb (match CstNs.q_prefix n with [] => bytes_eqb (CstNs.q_local n) CstNs.xmlns_b | _ => false end)
  | CstNs.EDecl _ p u =>
    negb (bytes_eqb p CstNs.xmlns_b)                                                    (* N3 *)
    && negb (bytes_eqb u CstNs.xmlns_uri)                                               (* N4 *)
    && (if bytes_eqb p xml_prefix then bytes_eqb u xml_uri else negb (bytes_eqb u xml_uri))  (* N5 *)
  end.

Fixpoint ns_ok (inh : list binding) (i : CstNs.item) : bool :=
  match i with
  | CstNs.IElem name es _ body =>
    let sc := scope_of (CstNs.own_bindings es) inh in
    negb (bytes_eqb (CstNs.q_prefix name) CstNs.xmlns_b)                                (* N1 *)
    && forallb ns_entry_ok es                                                           (* N3-N5 *)
    && prefixes_unique (CstNs.own_bindings es)                                          (* N6 *)
    && CstNs.is_bound (resolve_elem sc (CstNs.q_prefix name))                           (* N2 *)
    && forallb (fun e => match e with
                         | CstNs.EAttr _ n _ => CstNs.is_bound (resolve_attr sc (CstNs.q_prefix n))
                         | CstNs.EDecl _ _ _ => true end) es                            (* N2 *)
    && CstNs.enames_distinct (map (fun a => (fst (fst a), snd (fst a))) (CstNs.sem_attrs sc es))   (* N7 *)
    && match body with
       | None => true
       | Some (children, _) =>
         (fix all (l : list CstNs.item) : bool := match l with [] => true | c :: r => ns_ok sc c && all r end) children
       end
  | _ => true
  end.

Definition wf_doc (d : doc) : bool :=
  Cst.wf_ws (d_ws0 d) && Cst.wf_ws (d_ws_end d) &&
  forallb (fun p => is_misc (fst p) && wf_item (fst p) && Cst.wf_ws (snd p)) (d_before d) &&
  match d_root d with IElem _ _ _ _ => wf_item (d_root d) | _ => false end &&
  forallb (fun p => Cst.wf_ws (fst p) && is_misc (snd p) && wf_item (snd p)) (d_after d) &&
  forallb (ns_ok []) (den (d_root d)).

(* ---- what the two resource limits of the parser count (see Spec/CstNs.v) ---- *)
Definition doc_decls (d : doc) : list binding := flat_map CstNs.item_decls (den (d_root d)).
(* the parser stores at most 65535 distinct declared (prefix, URI) pairs *)
Definition distinct_decls_le (d : doc) (n : nat) : Prop :=
  forall l, NoDup l -> incl l (doc_decls d) -> (length l <= n)%nat.
(* entries of the namespace table *)
Definition ns_cost (d : doc) : nat := list_sum (map (CstNs.ns_cost []) (den (d_root d))).

End Frame.

Arguments EAttr {S}. Arguments EDecl {S}.
Arguments IElem {S}. Arguments IText {S}. Arguments IComment {S}. Arguments IPI {S}.
Arguments d_before {S}. Arguments d_ws0 {S}. Arguments d_root {S}. Arguments d_after {S}. Arguments d_ws_end {S}.
Arguments render {S}. Arguments r_item {S}. Arguments r_entry {S}.
Arguments wf_doc {S}. Arguments wf_item {S}. Arguments wf_entry {S}.
Arguments den {S}. Arguments sem {S}. Arguments doc_items {S}.
Arguments doc_decls {S}. Arguments distinct_decls_le {S}. Arguments ns_cost {S}.

(* ------------------------------------------------------------------------------------------ *)
(* S1: values and runs are plain Unicode strings (Spec/CstNs.v over Unicode)                   *)
(* ------------------------------------------------------------------------------------------ *)
Definition plain : syntax := {| val := scalars; run := scalars; r_val := utf8s; r_run := utf8s |}.

(* no references, no CR, no TAB / LF in a value (it is stored without a copy), as Spec/CstU.v *)
Definition plain_wf_val (q : N) (v : scalars) : bool :=
  forallb (fun x => CstU.is_char x && negb (x =? 60) && negb (x =? 38) && negb (x =? q)
                    && negb (x =? 9) && negb (x =? 10)) v.
Definition plain_wf_run (r : scalars) : bool := CstU.wf_item (Cst.IText r).

Definition plain_meaning : meaning plain :=
  Build_meaning plain
    plain_wf_val                      (* wf_val *)
    plain_wf_run                      (* wf_run *)
    utf8s                             (* val_sem: the value itself *)
    (fun r => Some (utf8s r)).        (* run_sem: the run itself *)

Module S1.
  Definition doc := doc plain.
  Definition render (d : doc) : bytes := render d.
  Definition wf_doc (d : doc) : bool := wf_doc plain_meaning d.
  Definition sem (d : doc) : list CstNs.vnode := sem plain_meaning d.
  Definition distinct_decls_le (d : doc) (n : nat) : Prop := distinct_decls_le plain_meaning d n.
  Definition ns_cost (d : doc) : nat := ns_cost plain_meaning d.
End S1.

(* ------------------------------------------------------------------------------------------ *)
(* S2: values and runs are the piece lists of Spec/CstText.v, over Unicode literals            *)
(* ------------------------------------------------------------------------------------------ *)
(* A piece is a piece of Spec/CstText.v whose literal ([PLit]) and CDATA ([PCData]) contents are
   lists of Unicode scalar values: any Char of XML 1.0, CR / LF / TAB included.  The digits of a
   character reference and the predefined entities are as in Spec/CstText.v.  A value (of an
   attribute or of a namespace declaration) is a list of pieces without CDATA; what it denotes is
   the NORMALISED value [T.value_sem] (3.3.3) of the UTF-8 encoded pieces -- for a declaration this
   is the namespace URI, so xmlns:p='&#117;rn:x' declares "urn:x".  A run denotes [T.text_sem]
   (2.11 + 4.1 + 4.6) of the encoded pieces. *)
Module T := CstText.

Definition enc_piece (p : T.piece) : T.piece :=
  match p with
  | T.PLit cs => T.PLit (utf8s cs)
  | T.PCData cs => T.PCData (utf8s cs)
  | _ => p
  end.
Definition enc_pieces (ps : list T.piece) : list T.piece := map enc_piece ps.

(* a literal: (F) not empty; (R) Chars only; '<' and '&' are markup; [q] is the closing quote
   (60 for character data) *)
Definition wf_ulit (q : N) (cs : scalars) : bool :=
  match cs with [] => false | _ => true end
  && forallb (fun x => Chars.xml_Char x && negb (x =? 60) && negb (x =? 38) && negb (x =? q)) cs.

Definition wf_utpiece (p : T.piece) : bool :=          (* a piece of character data *)
  match p with
  | T.PLit cs => wf_ulit 60 cs && negb (Cst.contains T.cdata_close cs)       (* (R) "]]>" in character data *)
  | T.PCharRef hex ds => T.wf_charref hex ds
  | T.PPredef _ => true
  | T.PCData cs => forallb Chars.xml_Char cs && negb (Cst.contains T.cdata_close cs)
  end.
Definition wf_uvpiece (q : N) (p : T.piece) : bool :=  (* a piece of a value *)
  match p with
  | T.PLit cs => wf_ulit q cs
  | T.PCharRef hex ds => T.wf_charref hex ds
  | T.PPredef _ => true
  | T.PCData _ => false                                                        (* (R) no CDATA in values *)
  end.

Definition wf_utext (ps : list T.piece) : bool :=
  match ps with [] => false | _ => true end && forallb wf_utpiece ps && T.no_adjacent_lit ps.
Definition wf_uvalue (q : N) (ps : list T.piece) : bool := forallb (wf_uvpiece q) ps && T.no_adjacent_lit ps.

Definition pieces : syntax :=
  {| val := list T.piece; run := list T.piece;
     r_val := fun ps => T.r_pieces (enc_pieces ps); r_run := fun ps => T.r_pieces (enc_pieces ps) |}.

Definition pieces_meaning : meaning pieces :=
  Build_meaning pieces
    wf_uvalue                                          (* wf_val *)
    wf_utext                                           (* wf_run *)
    (fun ps => T.value_sem (enc_pieces ps))            (* val_sem: the normalised value *)
    (fun ps => Some (T.text_sem (enc_pieces ps))).     (* run_sem: the decoded character data *)

Module S2.
  Definition doc := doc pieces.
  Definition render (d : doc) : bytes := render d.
  Definition wf_doc (d : doc) : bool := wf_doc pieces_meaning d.
  Definition sem (d : doc) : list CstNs.vnode := sem pieces_meaning d.
  Definition distinct_decls_le (d : doc) (n : nat) : Prop := distinct_decls_le pieces_meaning d n.
  Definition ns_cost (d : doc) : nat := ns_cost pieces_meaning d.
End S2.

(* S1 inside S2: a plain string is one literal piece (none if it is empty) *)
Definition lit_pieces (cs : scalars) : list T.piece := match cs with [] => [] | _ => [T.PLit cs] end.

(* ------------------------------------------------------------------------------------------ *)
(* S3: an internal DTD subset declares character-data entities (Spec/CstEnt.v, EText), which    *)
(* may be referred to in character data, in attribute values and in the values of namespace    *)
(* declarations, and may refer to each other                                                   *)
(* ------------------------------------------------------------------------------------------ *)
(* The pieces are those of Spec/CstEnt.v ([E.epiece]: a piece of S2 or a reference &n;) with Unicode
   literals and Unicode entity names; the declarations and the DOCTYPE are the records of
   Spec/CstEnt.v with Unicode names and values.  What a value or a run denotes is defined by
   INLINING as in Spec/CstEnt.v: the references are replaced by what they stand for
   ([E.inline_ps] on the table [E.level] of the declarations, the first declaration of a name
   being the binding one), and the result is given the meaning of S2.  The limits of the crate
   ([Detector.within_limits] on the trace of the inlining) and the line-end proviso
   ([E.crlf_split_ok]) of Spec/CstEnt.v are part of the well-formedness of each value / run. *)
Module E := CstEnt.

Definition enc_epiece (p : E.epiece) : E.epiece :=
  match p with E.EP q => E.EP (enc_piece q) | E.ERef n => E.ERef (utf8s n) end.
Definition enc_epieces (ps : list E.epiece) : list E.epiece := map enc_epiece ps.

Definition enc_decl (d : E.edecl) : E.edecl :=
  {| E.e_ws0 := E.e_ws0 d; E.e_ws1 := E.e_ws1 d; E.e_name := utf8s (E.e_name d); E.e_ws2 := E.e_ws2 d;
     E.e_quote := E.e_quote d;
     E.e_value := match E.e_value d with
                  | E.EText ps => E.EText (enc_epieces ps)
                  | E.EContent _ => E.EContent []            (* not in this fragment: see wf_udecl *)
                  end;
     E.e_ws3 := E.e_ws3 d |}.
Definition enc_dtd (t : E.dtd) : E.dtd :=
  {| E.t_ws1 := E.t_ws1 t; E.t_name := utf8s (E.t_name t); E.t_ws2 := E.t_ws2 t;
     E.t_decls := map enc_decl (E.t_decls t); E.t_ws3 := E.t_ws3 t; E.t_ws4 := E.t_ws4 t |}.

(* the table of the declared entities, with all references inside the values inlined *)
Definition table_of (t : E.dtd) : E.table := E.level (E.t_decls (enc_dtd t)) E.max_level.

(* ---- well-formedness of pieces: Spec/CstEnt.v [wf_epiece] with the Unicode classes of S2 ---- *)
Definition wf_uepiece (q : N) (cdata chardata in_value : bool) (p : E.epiece) : bool :=
  match p with
  | E.EP (T.PCData cs) => cdata && wf_utpiece (T.PCData cs)
  | E.EP p' => (if chardata then wf_utpiece p' else true) && wf_uvpiece q p'
               && (if in_value then E.charref_ok_in_value p' else true)
  | E.ERef n => CstU.wf_name n && negb (E.is_predef_name n)   (* (F) &lt; etc. are the predefined entities *)
  end.
Definition wf_uepieces (q : N) (cdata chardata in_value : bool) (ps : list E.epiece) : bool :=
  forallb (wf_uepiece q cdata chardata in_value) ps && E.no_adjacent_elit ps.

Definition limits_ok (tr : list Detector.lop) : bool := Detector.within_limits 10 255 0 0 tr.   (* (L) *)

Definition epieces : syntax :=
  {| val := list E.epiece; run := list E.epiece;
     r_val := fun ps => E.r_epieces (enc_epieces ps); r_run := fun ps => E.r_epieces (enc_epieces ps) |}.

Section Ents.
Variable tb : E.table.

Definition wf_eval (q : N) (ps : list E.epiece) : bool :=
  wf_uepieces q false false false ps &&
  match E.inline_ps tb true false (enc_epieces ps) with
  | None => false         (* (R) undeclared entity, '<' through an entity (incl. D15); (L) more than 10 levels *)
  | Some (Q, tr) => limits_ok tr && E.crlf_split_ok Q                                             (* (L), (P) *)
  end.
Definition wf_erun (ps : list E.epiece) : bool :=
  match ps with [] => false | _ => true end && wf_uepieces 60 true true false ps &&
  match E.inline_ps tb false false (enc_epieces ps) with
  | None => false
  | Some (Q, tr) => limits_ok tr && E.crlf_split_ok Q
  end.
Definition eval_sem (ps : list E.epiece) : bytes :=
  match E.inline_ps tb true false (enc_epieces ps) with Some (Q, _) => T.value_sem Q | None => [] end.
(* a run in which nothing is left after inlining (references to empty entities only) is no run *)
Definition erun_sem (ps : list E.epiece) : option bytes :=
  match E.inline_ps tb false false (enc_epieces ps) with
  | Some (Q, _) => if forallb E.is_mark Q then None else Some (T.text_sem Q)
  | None => None
  end.

Definition ents_meaning : meaning epieces := Build_meaning epieces wf_eval wf_erun eval_sem erun_sem.
End Ents.

(* ---- the DOCTYPE ---- *)
Definition wf_udecl (e : E.edecl) : bool :=
  Cst.wf_ws (E.e_ws0 e) && Cst.wf_ws1 (E.e_ws1 e) && CstU.wf_name (E.e_name e) && Cst.wf_ws1 (E.e_ws2 e) &&
  ((E.e_quote e =? 39) || (E.e_quote e =? 34)) &&
  match E.e_value e with
  | E.EText ps =>          (* (R) the quote ends the literal; (F) '%' would be a parameter-entity reference *)
    forallb (fun x => negb (x =? E.e_quote e) && negb (x =? 37)) (E.r_epieces (enc_epieces ps))
    && wf_uepieces (E.e_quote e) false true true ps
  | E.EContent _ => false  (* (F) character-data entities only *)
  end && Cst.wf_ws (E.e_ws3 e).
Definition wf_udtd (t : E.dtd) : bool :=
  Cst.wf_ws1 (E.t_ws1 t) && CstU.wf_name (E.t_name t) && Cst.wf_ws (E.t_ws2 t) && forallb wf_udecl (E.t_decls t) &&
  Cst.wf_ws (E.t_ws3 t) && Cst.wf_ws (E.t_ws4 t).

(* ---- documents: white space, comments / PIs, the DOCTYPE, then a document of the frame ---- *)
Module S3.
  Record doc := {
    x_ws0 : bytes;
    x_before : list (item epieces * bytes);    (* comments / PIs before the DOCTYPE, each followed by white space *)
    x_dtd : E.dtd;
    x_main : CstFull.doc epieces               (* what follows the DOCTYPE *)
  }.
  Definition meaning_of (d : doc) : meaning epieces := ents_meaning (table_of (x_dtd d)).
  Definition render (d : doc) : bytes :=
    x_ws0 d ++ flat_map (fun p => r_item (fst p) ++ snd p) (x_before d) ++ E.r_dtd (enc_dtd (x_dtd d))
    ++ CstFull.render (x_main d).
  Definition wf_doc (d : doc) : bool :=
    Cst.wf_ws (x_ws0 d) &&
    forallb (fun p => is_misc epieces (fst p) && wf_item (meaning_of d) (fst p) && Cst.wf_ws (snd p)) (x_before d) &&
    wf_udtd (x_dtd d) && CstFull.wf_doc (meaning_of d) (x_main d).
  (* the DOCTYPE itself denotes no node *)
  Definition sem (d : doc) : list CstNs.vnode :=
    flat_map (CstNs.sem_item []) (flat_map (den (meaning_of d)) (map fst (x_before d))) ++ CstFull.sem (meaning_of d) (x_main d).
  Definition distinct_decls_le (d : doc) (n : nat) : Prop := CstFull.distinct_decls_le (meaning_of d) (x_main d) n.
  Definition ns_cost (d : doc) : nat := CstFull.ns_cost (meaning_of d) (x_main d).
End S3.
