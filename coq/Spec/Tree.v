(* Spec/Tree.v -- ordered trees and their arena (pre-order) encoding.  Independent of the model.
   C02 / C10 / C11 / C17 are stated against these definitions. *)
From Coq Require Import List NArith Bool.
Import ListNotations.
Open Scope N_scope.

Inductive kind := KdRoot | KdElem | KdPI | KdComment | KdText.

Definition kind_eqb (a b : kind) : bool :=
  match a, b with
  | KdRoot, KdRoot | KdElem, KdElem | KdPI, KdPI | KdComment, KdComment | KdText, KdText => true
  | _, _ => false
  end.

Inductive tree := T (k : kind) (cs : list tree).

Definition tkind (t : tree) : kind := match t with T k _ => k end.
Definition tchildren (t : tree) : list tree := match t with T _ cs => cs end.

Fixpoint size (t : tree) : N :=
  match t with
  | T _ cs => 1 + (fix sizes (l : list tree) : N :=
                     match l with [] => 0 | c :: r => size c + sizes r end) cs
  end.
Definition sizes (l : list tree) : N := fold_right (fun c a => size c + a) 0 l.

(* one row of the arena *)
Record links := {
  l_kind : kind;
  l_parent : option N;
  l_prev : option N;
  l_last : option N;           (* last child *)
  l_next_subtree : option N    (* first id after the subtree, if any *)
}.

(* id of the last child of a node with id [id] and children [cs] *)
Fixpoint last_child_id (first : N) (cs : list tree) : option N :=
  match cs with
  | [] => None
  | [c] => Some first
  | c :: r => last_child_id (first + size c) r
  end.

(* enc n par prev id t: the rows of t's subtree when t gets id [id] in an arena of [n] rows *)
Fixpoint enc (n : N) (par prev : option N) (id : N) (t : tree) : list links :=
  match t with
  | T k cs =>
    {| l_kind := k; l_parent := par; l_prev := prev;
       l_last := last_child_id (id + 1) cs;
       l_next_subtree := if id + size t <? n then Some (id + size t) else None |}
    :: (fix enc_children (prev : option N) (cid : N) (l : list tree) : list links :=
          match l with
          | [] => []
          | c :: r => enc n (Some id) prev cid c ++ enc_children (Some cid) (cid + size c) r
          end) None (id + 1) cs
  end.

Fixpoint enc_children (n : N) (par prev : option N) (cid : N) (l : list tree) : list links :=
  match l with
  | [] => []
  | c :: r => enc n par prev cid c ++ enc_children n par (Some cid) (cid + size c) r
  end.

Definition encode (t : tree) : list links := enc (size t) None None 0 t.

(* ---- well-formedness of a document tree (C02) ---- *)
Definition is_container (k : kind) : bool := match k with KdRoot | KdElem => true | _ => false end.

Fixpoint only_containers_have_children (t : tree) : bool :=
  match t with
  | T k cs => (is_container k || match cs with [] => true | _ => false end)
              && forallb only_containers_have_children cs
  end.

Fixpoint no_adjacent_text_list (l : list tree) : bool :=
  match l with
  | a :: ((b :: _) as r) => negb (kind_eqb (tkind a) KdText && kind_eqb (tkind b) KdText)
                            && no_adjacent_text_list r
  | _ => true
  end.
Fixpoint no_adjacent_text (t : tree) : bool :=
  match t with T _ cs => no_adjacent_text_list cs && forallb no_adjacent_text cs end.

Fixpoint no_root_below (t : tree) : bool :=
  match t with T _ cs => forallb (fun c => negb (kind_eqb (tkind c) KdRoot) && no_root_below c) cs end.

Definition count_kind (k : kind) (l : list tree) : nat :=
  length (filter (fun c => kind_eqb (tkind c) k) l).

Definition wf_doc_tree (t : tree) : Prop :=
  tkind t = KdRoot /\
  no_root_below t = true /\
  only_containers_have_children t = true /\
  count_kind KdElem (tchildren t) = 1%nat /\
  count_kind KdText (tchildren t) = 0%nat /\
  no_adjacent_text t = true.

(* ---- the tree functions the navigation API is specified by (C11) ---- *)

(* subtree with pre-order index i (0 = t itself) *)
Fixpoint subtree_at (fuel : nat) (t : tree) (i : N) : option tree :=
  match fuel with
  | O => None
  | S fu =>
    if i =? 0 then Some t
    else
      (fix go (l : list tree) (i : N) : option tree :=
         match l with
         | [] => None
         | c :: r => if i <? size c then subtree_at fu c i else go r (i - size c)
         end) (tchildren t) (i - 1)
  end.

(* ids of the children of the node with id [id], whose children are [cs] *)
Fixpoint child_ids (first : N) (cs : list tree) : list N :=
  match cs with
  | [] => []
  | c :: r => first :: child_ids (first + size c) r
  end.

(* pre-order list of (id, parent id, tree) *)
Fixpoint nodes_of (par : option N) (id : N) (t : tree) : list (N * option N * tree) :=
  match t with
  | T _ cs =>
    (id, par, t) ::
    (fix go (cid : N) (l : list tree) : list (N * option N * tree) :=
       match l with
       | [] => []
       | c :: r => nodes_of (Some id) cid c ++ go (cid + size c) r
       end) (id + 1) cs
  end.
