(* Spec/Text.v -- XML 1.0 decoding of character data (2.11, 4.1, 4.6) and normalisation of
   attribute values (3.3.3), stated over piece lists.  Independent of the model. *)
From Coq Require Import List NArith Bool.
Import ListNotations.
Open Scope N_scope.

Definition bytes := list N.

(* 2.11: on the source text, CR LF and a CR not followed by LF become LF *)
Fixpoint norm_eol (src : bytes) : bytes :=
  match src with
  | [] => []
  | x :: r =>
    if x =? 13 then
      match r with
      | y :: r' => if y =? 10 then 10 :: norm_eol r' else 10 :: norm_eol r
      | [] => [10]
      end
    else x :: norm_eol r
  end.

(* A run of character data as the tokenizer's text machine sees it: literal source bytes and
   already-decoded characters (character / predefined references), in source order.
   [from_entity] says whether the run is the replacement text of an entity. *)
Inductive chunk :=
| CLit (x : N)             (* one literal source byte *)
| CRef (bs : bytes).       (* the UTF-8 bytes of a referenced character *)

(* maximal literal stretches are normalised as source text; a referenced character is kept as
   written (a CR that is the last literal byte before a reference is followed by '&' in the
   source, so it becomes LF) *)
Fixpoint lits_prefix (cs : list chunk) : bytes * list chunk :=
  match cs with
  | CLit x :: r => let '(l, rest) := lits_prefix r in (x :: l, rest)
  | _ => ([], cs)
  end.

Fixpoint decode_chunks_fuel (fuel : nat) (cs : list chunk) : bytes :=
  match fuel with
  | O => []
  | S fu =>
    match cs with
    | [] => []
    | CRef bs :: r => bs ++ decode_chunks_fuel fu r
    | CLit _ :: _ =>
      let '(l, rest) := lits_prefix cs in norm_eol l ++ decode_chunks_fuel fu rest
    end
  end.
Definition decode_chunks (cs : list chunk) : bytes := decode_chunks_fuel (S (length cs)) cs.

(* 3.3.3 for one stretch of literal source bytes: line ends first, then TAB / LF / CR -> space *)
Definition ws_to_space (x : N) : N := if (x =? 9) || (x =? 10) || (x =? 13) then 32 else x.
Definition norm_attr_lit (src : bytes) : bytes := map ws_to_space (norm_eol src).

(* top level of an attribute value: literals normalised, referenced characters unchanged *)
Fixpoint norm_attr_chunks_fuel (fuel : nat) (cs : list chunk) : bytes :=
  match fuel with
  | O => []
  | S fu =>
    match cs with
    | [] => []
    | CRef bs :: r => bs ++ norm_attr_chunks_fuel fu r
    | CLit _ :: _ =>
      let '(l, rest) := lits_prefix cs in norm_attr_lit l ++ norm_attr_chunks_fuel fu rest
    end
  end.
Definition norm_attr_chunks (cs : list chunk) : bytes := norm_attr_chunks_fuel (S (length cs)) cs.

(* inside the replacement text of an entity (XML 1.0 4.5: a character reference in an entity
   literal has already become a literal character), referenced characters are normalised too *)
Fixpoint norm_attr_chunks_in_entity_fuel (fuel : nat) (cs : list chunk) : bytes :=
  match fuel with
  | O => []
  | S fu =>
    match cs with
    | [] => []
    | CRef bs :: r => map ws_to_space bs ++ norm_attr_chunks_in_entity_fuel fu r
    | CLit _ :: _ =>
      let '(l, rest) := lits_prefix cs in norm_attr_lit l ++ norm_attr_chunks_in_entity_fuel fu rest
    end
  end.
Definition norm_attr_chunks_in_entity (cs : list chunk) : bytes :=
  norm_attr_chunks_in_entity_fuel (S (length cs)) cs.

Definition chunk_bytes (c : chunk) : bytes := match c with CLit x => [x] | CRef bs => bs end.
