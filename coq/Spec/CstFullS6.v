(* Spec/CstFullS6.v -- the capstone fragment, stage S6 = the entities of S4 inside the prolog of S5:
   ONE statement for the whole supported subset.

   A document is: an optional byte order mark, an optional XML declaration, optionally [white
   space, comments / PIs, a DOCTYPE] and the body (comments / PIs, the root element, the epilog)
   -- Spec/CstFullS5.v -- where the DOCTYPE may have an external identifier and an internal subset
   whose items are those of Spec/CstFullS5.v (parameter entities, external / unparsed entities,
   ELEMENT / ATTLIST / NOTATION declarations, comments, PIs) and the general internal entity
   declarations of Spec/CstFullS4.v: the value is character data or MARKUP (items of the frame
   with qualified Unicode names, attributes, namespace declarations, references).  Markup white
   space is the production S (SP TAB CR LF) everywhere, also in the tags inside an entity value.

   MEANING.  Nothing is redefined: the body has the meaning of Spec/CstFullS4.v (inline the
   references on the abstract syntax, then resolve the namespaces at the place of the reference)
   under the declarations of the subset ([core]: the Spec/CstFullS4.v document made of these
   declarations and the body); the prolog contributes its comments and PIs in document order,
   those of the internal subset included (Spec/CstFullS5.v); everything else in the prolog
   denotes no node and binds no name.  Independent of the model. *)
From Coq Require Import List NArith Bool.
From RX.Spec Require Import Scope.
From RX.Spec Require Cst CstNs CstU CstText CstEnt Chars Detector.
From RX.Spec Require Import CstFull.
From RX.Spec Require CstFullS4 CstFullS5.
Import ListNotations.
Open Scope N_scope.

Module X4 := CstFullS4.
Module X5 := CstFullS5.
Notation uitem := (item epieces).
Notation uentry := (entry epieces).
Notation wf_s := X5.wf_s.
Notation wf_s1 := X5.wf_s1.

(* ------------------------------------------------------------------------------------------ *)
(* the syntactic conditions of Spec/CstFullS4.v with S for white space (Spec/CstFullS5.v)      *)
(* ------------------------------------------------------------------------------------------ *)
(* [in_value]: inside the value of an entity, where (F) restricts the character references *)
Definition wf_uentry_s (in_value : bool) (e : uentry) : bool :=
  X5.wf_layout_s (e_layout epieces e) &&
  wf_uepieces (CstNs.l_quote (e_layout epieces e)) false false in_value (e_value epieces e) &&
  match e with
  | EAttr _ n _ => wf_qname n
  | EDecl _ p _ => match p with [] => true | _ => CstU.wf_name p end
  end.

Fixpoint wf_uitem_s (in_value : bool) (i : uitem) : bool :=
  match i with
  | IElem name es ws_end body =>
    wf_qname name && forallb (wf_uentry_s in_value) es && wf_s ws_end &&
    match body with
    | None => true
    | Some (children, ws2) =>
      wf_s ws2 && no_adjacent_text epieces children &&
      (fix all (l : list uitem) : bool := match l with [] => true | c :: r => wf_uitem_s in_value c && all r end) children
    end
  | IText ps => match ps with [] => false | _ => true end && wf_uepieces 60 true true in_value ps
  | IComment _ | IPI _ _ _ => X5.wf_misc_s i
  end.

(* the value of a declaration quoted by q: (R) the quote ends the literal; (F) '%' would be a
   parameter-entity reference *)
Definition wf_xvalue_s (q : N) (v : X4.xvalue) : bool :=
  forallb (fun x => negb (x =? q) && negb (x =? 37)) (X4.r_xvalue v) &&
  match v with
  | X4.XText ps => wf_uepieces q false true true ps
  | X4.XContent its => forallb (wf_uitem_s true) its && no_adjacent_text epieces its
  end.
Definition wf_xdecl_s (e : X4.xdecl) : bool :=
  wf_s (X4.x_ws0 e) && wf_s1 (X4.x_ws1 e) && CstU.wf_name (X4.x_name e) && wf_s1 (X4.x_ws2 e) &&
  X5.is_quote (X4.x_quote e) && wf_xvalue_s (X4.x_quote e) (X4.x_value e) && wf_s (X4.x_ws3 e).

(* ------------------------------------------------------------------------------------------ *)
(* the DOCTYPE                                                                                *)
(* ------------------------------------------------------------------------------------------ *)
(* an item of the internal subset: a general internal entity declaration of Spec/CstFullS4.v, or any
   OTHER item of Spec/CstFullS5.v *)
Inductive sdecl6 :=
| XEntity (e : X4.xdecl)
| XOther (s : X5.sdecl).

Definition is_sentity (s : X5.sdecl) : bool := match s with X5.SEntity _ => true | _ => false end.
Definition r_sdecl6 (s : sdecl6) : bytes :=
  match s with XEntity e => X4.r_xdecl e | XOther s => X5.r_sdecl s end.
Definition wf_sdecl6 (s : sdecl6) : bool :=
  match s with XEntity e => wf_xdecl_s e | XOther s => negb (is_sentity s) && X5.wf_sdecl s end.

Record subset6 := {
  zu_decls : list sdecl6;
  zu_ws3 : bytes;         (* before ']' *)
  zu_ws4 : bytes          (* between ']' and '>' *)
}.
Record doctype6 := {
  z_ws1 : bytes;                         (* after "<!DOCTYPE" (>= 1) *)
  z_name : scalars;
  z_ws2 : bytes;                         (* after the name *)
  z_ext : option (X5.extid * bytes);     (* the external identifier and the white space after it *)
  z_subset : option subset6              (* None: <!DOCTYPE n> *)
}.
Definition r_subset6 (u : subset6) : bytes :=
  [91] ++ flat_map r_sdecl6 (zu_decls u) ++ zu_ws3 u ++ [93] ++ zu_ws4 u.
Definition r_doctype6 (t : doctype6) : bytes :=
  E.kw_doctype ++ z_ws1 t ++ utf8s (z_name t) ++ z_ws2 t ++ X5.r_opt (fun p => X5.r_extid (fst p) ++ snd p) (z_ext t)
  ++ X5.r_opt r_subset6 (z_subset t) ++ [62].

Definition wf_subset6 (u : subset6) : bool :=
  forallb wf_sdecl6 (zu_decls u) && wf_s (zu_ws3 u) && wf_s (zu_ws4 u).
Definition wf_doctype6 (t : doctype6) : bool :=
  wf_s1 (z_ws1 t) && CstU.wf_name (z_name t) && wf_s (z_ws2 t) &&
  match z_ext t with
  | Some (x, w) => wf_s1 (z_ws2 t) && X5.wf_extid x && wf_s w
  | None => true
  end && X5.wf_opt wf_subset6 (z_subset t).

Definition subset_decls6 (t : doctype6) : list sdecl6 :=
  match z_subset t with Some u => zu_decls u | None => [] end.
(* the general internal entity declarations, in order: the first one of a name binds it *)
Definition ge_decls6 (t : doctype6) : list X4.xdecl :=
  flat_map (fun s => match s with XEntity e => [e] | _ => [] end) (subset_decls6 t).
(* the comments and PIs of the internal subset, in order *)
Definition subset_misc6 (t : doctype6) : list uitem :=
  flat_map (fun s => match s with XOther (X5.SMisc _ i) => [i] | _ => [] end) (subset_decls6 t).

(* ------------------------------------------------------------------------------------------ *)
(* documents                                                                                  *)
(* ------------------------------------------------------------------------------------------ *)
Module S6.
  Record dtd_part := {
    g_ws0 : bytes;
    g_before : list (uitem * bytes);          (* comments / PIs, each followed by white space *)
    g_dtd : doctype6
  }.
  Record doc := {
    x_bom : bool;                             (* EF BB BF *)
    x_decl : option X5.xmldecl;
    x_dtd : option dtd_part;
    x_main : CstFull.doc epieces              (* white space, comments / PIs, the root element, the epilog *)
  }.
  Definition has_dtd (d : doc) : bool := match x_dtd d with Some _ => true | None => false end.

  Definition r_dtd_part (g : dtd_part) : bytes :=
    g_ws0 g ++ flat_map (fun p => r_item (fst p) ++ snd p) (g_before g) ++ r_doctype6 (g_dtd g).
  Definition render (d : doc) : bytes :=
    (if x_bom d then X5.S5.bom else []) ++ X5.r_opt X5.r_xmldecl (x_decl d) ++ X5.r_opt r_dtd_part (x_dtd d)
    ++ CstFull.render (x_main d).

  (* the declared general internal entities (none without a DOCTYPE) *)
  Definition decls (d : doc) : list X4.xdecl :=
    match x_dtd d with Some g => ge_decls6 (g_dtd g) | None => [] end.
  (* the body under these declarations, as a document of Spec/CstFullS4.v: its layout fields are
     irrelevant for what follows ([X4.S4.inline], [X4.S4.sem] ... look at the declarations and the body only) *)
  Definition core (d : doc) : X4.S4.doc :=
    {| X4.S4.x_ws0 := []; X4.S4.x_before := [];
       X4.S4.x_dtd := {| X4.t_ws1 := []; X4.t_name := []; X4.t_ws2 := []; X4.t_decls := decls d; X4.t_ws3 := []; X4.t_ws4 := [] |};
       X4.S4.x_main := x_main d |}.

  (* the comments and PIs of the prolog up to the DOCTYPE's '>', in document order *)
  Definition prolog_items (d : doc) : list uitem :=
    match x_dtd d with Some g => map fst (g_before g) ++ subset_misc6 (g_dtd g) | None => [] end.

  Definition wf_dtd_part (g : dtd_part) : bool :=
    wf_s (g_ws0 g) && forallb (fun p => X5.wf_misc_s (fst p) && wf_s (snd p)) (g_before g) && wf_doctype6 (g_dtd g).
  Definition wf_doc (d : doc) : bool :=
    X5.wf_opt X5.wf_xmldecl (x_decl d) && X5.wf_opt wf_dtd_part (x_dtd d) &&
    (* the body: Spec/CstFullS4.v [S4.wf_doc] with S *)
    wf_s (d_ws0 (x_main d)) && wf_s (d_ws_end (x_main d)) &&
    forallb (fun p => X5.wf_misc_s (fst p) && wf_s (snd p)) (d_before (x_main d)) &&
    match d_root (x_main d) with IElem _ _ _ _ => wf_uitem_s false (d_root (x_main d)) | _ => false end &&
    forallb (fun p => wf_s (fst p) && X5.wf_misc_s (snd p)) (d_after (x_main d)) &&
    match X4.S4.inline (core d) with
    | None => false         (* (R) undeclared entity, markup or '<' into a value through an entity (incl. D15);
                               (L) more than 10 levels (recursion included) *)
    | Some (c, tr) =>
      limits_ok tr                                         (* (L) *)
      && X4.provisos_item (d_root c)                       (* (P) no CR LF pair split by an entity boundary *)
      && forallb (ns_ok []) (den X4.bmeaning (d_root c))   (* N1-N7, AFTER inlining *)
    end.

  Definition sem (d : doc) : list CstNs.vnode :=
    flat_map (CstNs.sem_item []) (flat_map (den X4.bmeaning) (map X4.S4.misc_item (prolog_items d)))
    ++ X4.S4.sem (core d).
  (* what the resource limits count: the INLINED body *)
  Definition distinct_decls_le (d : doc) (n : nat) : Prop := X4.S4.distinct_decls_le (core d) n.
  Definition ns_cost (d : doc) : nat := X4.S4.ns_cost (core d).
  Definition nattrs (d : doc) : nat :=
    list_sum (map (fun v => match v with CstNs.VElem _ _ attrs _ _ => length attrs | _ => O end) (sem d)).

  (* ---- the earlier stages inside S6 ---- *)
  Definition of_s4 (d : X4.S4.doc) : doc :=
    {| x_bom := false; x_decl := None;
       x_dtd := Some {| g_ws0 := X4.S4.x_ws0 d; g_before := X4.S4.x_before d;
                        g_dtd := {| z_ws1 := X4.t_ws1 (X4.S4.x_dtd d); z_name := X4.t_name (X4.S4.x_dtd d);
                                    z_ws2 := X4.t_ws2 (X4.S4.x_dtd d); z_ext := None;
                                    z_subset := Some {| zu_decls := map XEntity (X4.t_decls (X4.S4.x_dtd d));
                                                        zu_ws3 := X4.t_ws3 (X4.S4.x_dtd d);
                                                        zu_ws4 := X4.t_ws4 (X4.S4.x_dtd d) |} |} |};
       x_main := X4.S4.x_main d |}.

  (* a declaration of S3 / S5 is a declaration of S4 whose value is character data *)
  Definition xdecl_of (e : E.edecl) : X4.xdecl :=
    {| X4.x_ws0 := E.e_ws0 e; X4.x_ws1 := E.e_ws1 e; X4.x_name := E.e_name e; X4.x_ws2 := E.e_ws2 e;
       X4.x_quote := E.e_quote e;
       X4.x_value := match E.e_value e with E.EText ps => X4.XText ps | E.EContent _ => X4.XText [] end;
       X4.x_ws3 := E.e_ws3 e |}.
  Definition sdecl_of (s : X5.sdecl) : sdecl6 :=
    match s with X5.SEntity e => XEntity (xdecl_of e) | _ => XOther s end.
  Definition doctype_of (t : X5.doctype) : doctype6 :=
    {| z_ws1 := X5.t_ws1 t; z_name := X5.t_name t; z_ws2 := X5.t_ws2 t; z_ext := X5.t_ext t;
       z_subset := match X5.t_subset t with
                   | Some u => Some {| zu_decls := map sdecl_of (X5.u_decls u); zu_ws3 := X5.u_ws3 u; zu_ws4 := X5.u_ws4 u |}
                   | None => None
                   end |}.
  Definition of_s5 (d : X5.S5.doc) : doc :=
    {| x_bom := X5.S5.x_bom d; x_decl := X5.S5.x_decl d;
       x_dtd := match X5.S5.x_dtd d with
                | Some g => Some {| g_ws0 := X5.S5.g_ws0 g; g_before := X5.S5.g_before g; g_dtd := doctype_of (X5.S5.g_dtd g) |}
                | None => None
                end;
       x_main := X5.S5.x_main d |}.
End S6.
