(* Spec/CstFullS10.v -- the capstone fragment, stage S10: Spec/CstFullS9.v with the exclusion on character references
   inside the literal of a general internal entity ([CstEnt.charref_ok_in_value]) narrowed to what the crate's
   behaviour forces.

   The documents, their rendering and their MEANING are those of Spec/CstFullS6.v (nothing is redefined: [S10.doc] is
   [S6.doc]); only the well-formedness conditions are wider.  The meaning of a reference to an entity stays the
   INLINING of its value on the abstract syntax, where a character-reference piece denotes its character wherever
   the entity is referenced.  XML 1.0 (4.4.5, 4.5) replaces the character references of an entity literal when the
   entity is DECLARED, so that the character then takes part in the parse of the replacement text (an '&' starts a
   reference, a '<' starts markup, TAB / LF / CR are white space to normalise in an attribute value); the crate
   replaces them when the entity is USED, and the character is data -- it is never looked at again (known finding
   D29, pinned by the crate's own test entity_012).  As stage S8 did for '%', this stage SPECIFIES that behaviour:

   (6) the literal of a general internal entity -- character data or markup, at any depth of nesting, in text and in
       the attribute values / namespace URIs written inside a markup value -- may contain character references to
       '&' (&#38; &#x26;) and to '<' (&#60; &#x3C;).  Wherever the entity is referenced (character data, attribute
       value, namespace URI, another entity's value) the reference stands for the one character: "&#38;lt;" in an
       entity literal means the four characters "&lt;", "&#60;b/>" the four characters "<b/>" (character data, no
       element), "&#38;#60;" the five characters "&#60;".  A '<' that reaches an ATTRIBUTE value through an entity
       is refused by the crate however it is written (D15 / D15b); that was already part of the meaning: the
       inlining of Spec/CstEnt.v [inline_ps] has no value for it ([is_lt_ref] covers the character references),
       so such a document is not well formed here either.

   What stays excluded, and why (each with a closed Example in Proofs/CstFullS10Example.v: a document that fails only
   this condition, on which the crate's tree differs from the meaning by inlining):

   (F-CR)  a reference to CR (&#13;) in an entity literal.  At entity depth > 0 the crate sends referenced characters
           through the line-end pairing of literal text (so that entity_012's "&#xD;&#xA;" is one line end): the
           referenced CR becomes LF in character data, and a space in an attribute value; inlined, a referenced CR
           is a CR ([nec_cr_text], [nec_cr_attr]).
   (F-LF)  a reference to LF (&#10;) in an entity literal.  In character data it is a LF as the inlining says, except
           directly after a literal CR of the same literal, with which it pairs into ONE line end (D30,
           [nec_lf_after_cr]); in an attribute value (the entity is referenced there, or the reference is written in
           an attribute value inside a markup entity) it becomes a space -- which is what XML says, the replacement
           text containing a literal LF -- while the inlined reference is a LF ([nec_lf_attr], [nec_lf_attr_markup]).
   (F-TAB) a reference to TAB (&#9;) in an entity literal: in character data it is a TAB as the inlining says; in an
           attribute value it becomes a space, as for LF ([nec_tab_attr], [nec_tab_nsuri]).
   In character data a referenced TAB, and a referenced LF that does not directly follow a literal CR, do behave as
   the inlining says ([tab_text_agrees], [lf_text_agrees]); to accept them there one would have to add a proviso on
   every place where the entity is referenced (not from an attribute value or a namespace URI, directly or through
   other entities).  They are left out: a literal TAB or line end in the entity literal has the same meaning in
   character data, is normalised to a space in an attribute value by the crate and by the inlining alike, and is in
   the fragment since stage S3.  [charref_ok10_spec] (Proofs/CstFullS10Main.v): the condition below is
   [CstEnt.charref_ok_in_value] or-ed with "the character is '&' or '<'".  Independent of the model. *)
From Coq Require Import List NArith Bool.
From RX.Spec Require Import Scope.
From RX.Spec Require Cst CstNs CstU CstText CstEnt Chars Detector.
From RX.Spec Require Import CstFull.
From RX.Spec Require CstFullS4 CstFullS5.
From RX.Spec Require Import CstFullS6 CstFullS7 CstFullS8 CstFullS9.
Import ListNotations.
Open Scope N_scope.

(* ------------------------------------------------------------------------------------------ *)
(* (F-CR) (F-LF) (F-TAB): Spec/CstEnt.v [charref_ok_in_value] without the tests for '&' (38) and '<' (60) *)
(* ------------------------------------------------------------------------------------------ *)
Definition charref_ok10 (p : T.piece) : bool :=
  match p with
  | T.PCharRef hex ds =>
    let c := T.ref_val hex ds in negb ((c =? 9) || (c =? 10) || (c =? 13))
  | _ => true
  end.

(* ------------------------------------------------------------------------------------------ *)
(* pieces: Spec/CstFullS9.v [wf_uepiece9] with it                                             *)
(* ------------------------------------------------------------------------------------------ *)
Definition wf_uepiece10 (q : N) (cdata chardata in_value : bool) (p : E.epiece) : bool :=
  match p with
  | E.EP (T.PCData cs) => cdata && wf_utpiece (T.PCData cs)
  | E.EP p' => (if chardata then wf_utpiece p' else true) && wf_uvpiece q p'
               && (if in_value then charref_ok10 p' else true)
  | E.ERef n => wf_name7 n && negb (E.is_predef_name n)   (* (F) &lt; etc. are the predefined entities *)
  end.
Definition wf_uepieces10 (q : N) (cdata chardata in_value : bool) (ps : list E.epiece) : bool :=
  forallb (wf_uepiece10 q cdata chardata in_value) ps && E.no_adjacent_elit ps.

(* ------------------------------------------------------------------------------------------ *)
(* Spec/CstFullS6.v .. S9.v's conditions with these                                           *)
(* ------------------------------------------------------------------------------------------ *)
Definition wf_uentry10 (in_value : bool) (e : uentry) : bool :=
  X5.wf_layout_s (e_layout epieces e) &&
  wf_uepieces10 (CstNs.l_quote (e_layout epieces e)) false false in_value (e_value epieces e) &&
  match e with
  | EAttr _ n _ => wf_qname n
  | EDecl _ p _ => match p with [] => true | _ => CstU.wf_name p end
  end.

Fixpoint wf_uitem10 (in_value : bool) (i : uitem) : bool :=
  match i with
  | IElem name es ws_end body =>
    wf_qname name && forallb (wf_uentry10 in_value) es && wf_s ws_end &&
    match body with
    | None => true
    | Some (children, ws2) =>
      wf_s ws2 && no_adjacent_text epieces children &&
      (fix all (l : list uitem) : bool := match l with [] => true | c :: r => wf_uitem10 in_value c && all r end) children
    end
  | IText ps => match ps with [] => false | _ => true end && wf_uepieces10 60 true true in_value ps
  | IComment _ | IPI _ _ _ => wf_misc7 i
  end.

Definition wf_xvalue10 (q : N) (v : X4.xvalue) : bool :=
  forallb (fun x => negb (x =? q)) (X4.r_xvalue v) &&
  match v with
  | X4.XText ps => wf_uepieces10 q false true true ps
  | X4.XContent its => forallb (wf_uitem10 true) its && no_adjacent_text epieces its
  end.
Definition wf_xdecl10 (e : X4.xdecl) : bool :=
  wf_s (X4.x_ws0 e) && wf_s1 (X4.x_ws1 e) && wf_name7 (X4.x_name e) && wf_s1 (X4.x_ws2 e) &&
  X5.is_quote (X4.x_quote e) && wf_xvalue10 (X4.x_quote e) (X4.x_value e) && wf_s (X4.x_ws3 e).

Definition wf_sdecl10 (s : sdecl6) : bool :=
  match s with XEntity e => wf_xdecl10 e | XOther s => negb (is_sentity s) && wf_other7 s end.
Definition wf_subset10 (u : subset6) : bool :=
  forallb wf_sdecl10 (zu_decls u) && wf_s (zu_ws3 u) && wf_s (zu_ws4 u).
Definition wf_doctype10 (t : doctype6) : bool :=
  wf_s1 (z_ws1 t) && wf_name7 (z_name t) && wf_s (z_ws2 t) &&
  match z_ext t with
  | Some (x, w) => wf_s1 (z_ws2 t) && X5.wf_extid x && wf_s w
  | None => true
  end && X5.wf_opt wf_subset10 (z_subset t).

Module S10.
  Definition doc := S6.doc.
  Definition render (d : doc) : bytes := S6.render d.
  Definition sem (d : doc) : list CstNs.vnode := S6.sem d.
  Definition has_dtd (d : doc) : bool := S6.has_dtd d.
  Definition distinct_decls_le (d : doc) (n : nat) : Prop := S6.distinct_decls_le d n.
  Definition ns_cost (d : doc) : nat := S6.ns_cost d.
  Definition nattrs (d : doc) : nat := S6.nattrs d.

  Definition wf_dtd_part (g : S6.dtd_part) : bool :=
    wf_s (S6.g_ws0 g) && forallb (fun p => wf_misc7 (fst p) && wf_s (snd p)) (S6.g_before g) && wf_doctype10 (S6.g_dtd g).
  (* [S9.wf_doc] with the conditions above *)
  Definition wf_doc (d : doc) : bool :=
    X5.wf_opt X5.wf_xmldecl (S6.x_decl d) && X5.wf_opt wf_dtd_part (S6.x_dtd d) &&
    wf_s (d_ws0 (S6.x_main d)) && wf_s (d_ws_end (S6.x_main d)) &&
    forallb (fun p => wf_misc7 (fst p) && wf_s (snd p)) (d_before (S6.x_main d)) &&
    match d_root (S6.x_main d) with IElem _ _ _ _ => wf_uitem10 false (d_root (S6.x_main d)) | _ => false end &&
    forallb (fun p => wf_s (fst p) && wf_misc7 (snd p)) (d_after (S6.x_main d)) &&
    match X4.S4.inline (S6.core d) with
    | None => false
    | Some (c, tr) =>
      limits_ok tr && X4.provisos_item (d_root c) && forallb (ns_ok []) (den X4.bmeaning (d_root c))
    end.
End S10.
