(* Spec/CstEnt.v -- the abstract documents of Spec/CstText.v with an internal DTD subset that
   declares general entities, and references to them in character data and attribute values
   (C07: "a reference behaves exactly as if the replacement text stood in its place").
   Rendering, well-formedness of the fragment, and the meaning: the references are INLINED on the
   abstract syntax (first declaration wins), adjacent character data is re-grouped into runs, and
   the result is given the meaning of Spec/CstText.v.  The limits of the crate are stated with
   Spec/Detector.v on the trace of the inlining.  Independent of the model. *)
From Coq Require Import List NArith Bool.
Import ListNotations.
From RX.Spec Require Cst CstText Detector.
From RX.Spec Require Import Text Chars.
Open Scope N_scope.

Module T := CstText.

(* ---- abstract syntax ---- *)
(* a piece of a text run or of an attribute value: a piece of Spec/CstText.v or a reference &n;
   (the tokenizer never sees a reference on its own: it is always part of a text token, so a
   reference is a piece of a run, also when it stands alone between two tags) *)
Inductive epiece := EP (p : T.piece) | ERef (n : bytes).

Record attr := {
  a_ws : bytes; a_name : bytes; a_ws1 : bytes; a_ws2 : bytes; a_quote : N; a_value : list epiece
}.

Inductive item :=
| IElem (name : bytes) (attrs : list attr) (ws_end : bytes) (body : option (list item * bytes))
| IText (ps : list epiece)
| IComment (bs : bytes)
| IPI (target : bytes) (sep : bytes) (value : bytes).

(* the value of an entity: character data with references (usable in content and in attribute
   values), or content with markup (usable in content only) *)
Inductive evalue := EText (ps : list epiece) | EContent (its : list item).

Record edecl := {
  e_ws0 : bytes;        (* before "<!ENTITY" *)
  e_ws1 : bytes;        (* after "<!ENTITY" (>= 1) *)
  e_name : bytes;
  e_ws2 : bytes;        (* after the name (>= 1) *)
  e_quote : N;          (* 39 or 34 *)
  e_value : evalue;
  e_ws3 : bytes         (* before '>' *)
}.

Record dtd := {
  t_ws1 : bytes;        (* after "<!DOCTYPE" (>= 1) *)
  t_name : bytes;
  t_ws2 : bytes;        (* before '[' *)
  t_decls : list edecl;
  t_ws3 : bytes;        (* before ']' *)
  t_ws4 : bytes         (* between ']' and '>' *)
}.

Record doc := {
  d_ws0 : bytes;
  d_before : list (item * bytes);    (* comments / PIs before the DOCTYPE, each followed by whitespace *)
  d_dtd : dtd;
  d_mid : list (bytes * item);       (* whitespace, then a comment / PI, between the DOCTYPE and the root *)
  d_ws1 : bytes;
  d_root : item;
  d_after : list (bytes * item);
  d_ws_end : bytes
}.

(* ---- rendering ---- *)
Definition r_epiece (p : epiece) : bytes :=
  match p with EP q => T.r_piece q | ERef n => [38] ++ n ++ [59] end.
Definition r_epieces (ps : list epiece) : bytes := flat_map r_epiece ps.

Definition r_attr (a : attr) : bytes :=
  a_ws a ++ a_name a ++ a_ws1 a ++ [61] ++ a_ws2 a ++ [a_quote a] ++ r_epieces (a_value a) ++ [a_quote a].

Fixpoint r_item (i : item) : bytes :=
  match i with
  | IElem name attrs ws_end body =>
    [60] ++ name ++ flat_map r_attr attrs ++ ws_end ++
    match body with
    | None => [47; 62]
    | Some (children, ws2) =>
      [62] ++ (fix go (l : list item) : bytes := match l with [] => [] | c :: r => r_item c ++ go r end) children
      ++ [60; 47] ++ name ++ ws2 ++ [62]
    end
  | IText ps => r_epieces ps
  | IComment bs => Cst.r_item (Cst.IComment bs)
  | IPI target sep value => Cst.r_item (Cst.IPI target sep value)
  end.
Definition r_items (l : list item) : bytes := flat_map r_item l.

Definition r_value (v : evalue) : bytes :=
  match v with EText ps => r_epieces ps | EContent its => r_items its end.

Definition kw_entity : bytes := [60; 33; 69; 78; 84; 73; 84; 89].            (* <!ENTITY *)
Definition kw_doctype : bytes := [60; 33; 68; 79; 67; 84; 89; 80; 69].       (* <!DOCTYPE *)

Definition r_decl (e : edecl) : bytes :=
  e_ws0 e ++ kw_entity ++ e_ws1 e ++ e_name e ++ e_ws2 e ++ [e_quote e] ++ r_value (e_value e) ++ [e_quote e]
  ++ e_ws3 e ++ [62].

Definition r_dtd (t : dtd) : bytes :=
  kw_doctype ++ t_ws1 t ++ t_name t ++ t_ws2 t ++ [91] ++ flat_map r_decl (t_decls t) ++ t_ws3 t ++ [93]
  ++ t_ws4 t ++ [62].

Definition render (d : doc) : bytes :=
  d_ws0 d ++ flat_map (fun p => r_item (fst p) ++ snd p) (d_before d) ++ r_dtd (d_dtd d)
  ++ flat_map (fun p => fst p ++ r_item (snd p)) (d_mid d) ++ d_ws1 d ++ r_item (d_root d)
  ++ flat_map (fun p => fst p ++ r_item (snd p)) (d_after d) ++ d_ws_end d.

(* ---- inlining ---- *)
(* An entity boundary is marked in the inlined pieces by the EMPTY LITERAL [T.PLit []]: it renders
   to nothing and has no chunks, so it does not change any meaning; it only lets the line-end
   proviso below see where the boundaries were. *)
Definition mark : T.piece := T.PLit [].
Definition is_mark (p : T.piece) : bool := match p with T.PLit [] => true | _ => false end.

(* what an entity stands for once all references in its value have been inlined *)
Record xval := {
  x_items : list T.item;                 (* in content *)
  x_pieces : option (list T.piece);      (* in an attribute value: only character data *)
  x_trace : list Detector.lop            (* the Enter / Exit events of the expansions inside *)
}.
(* one entry per declaration, in the order of the declarations; None: the value cannot be inlined *)
Definition table := list (bytes * option xval).

Definition beq (x y : bytes) : bool := if list_eq_dec N.eq_dec x y then true else false.
(* the FIRST declaration of a name is the binding one (XML 1.0, 4.2) *)
Fixpoint lookup (tb : table) (n : bytes) : option xval :=
  match tb with [] => None | (m, v) :: r => if beq m n then v else lookup r n end.

(* a reference to '<' *)
Definition is_lt_ref (p : T.piece) : bool :=
  match p with
  | T.PPredef T.Lt => true
  | T.PCharRef hex ds => T.ref_val hex ds =? 60
  | _ => false
  end.

Definition obind {A B} (o : option A) (f : A -> option B) : option B :=
  match o with Some a => f a | None => None end.

(* character data (a text run of an EText value, or an attribute value).  [in_ent]: we are inside
   an entity value; [for_attr]: the result goes into an attribute value, where a '<' that comes
   from an entity (or from a reference written inside an entity: D15) is refused by the crate.
   None: undeclared name / not character data / refused. *)
Fixpoint inline_ps (tb : table) (for_attr in_ent : bool) (ps : list epiece)
  : option (list T.piece * list Detector.lop) :=
  match ps with
  | [] => Some ([], [])
  | EP p :: r =>
    if for_attr && in_ent && is_lt_ref p then None
    else obind (inline_ps tb for_attr in_ent r) (fun x => Some (p :: fst x, snd x))
  | ERef n :: r =>
    obind (lookup tb n) (fun v =>
    obind (x_pieces v) (fun q =>
    if for_attr && existsb is_lt_ref q then None else
    obind (inline_ps tb for_attr in_ent r) (fun x =>
    Some (mark :: q ++ mark :: fst x, Detector.Enter :: x_trace v ++ Detector.Exit :: snd x))))
  end.

(* adjacent character data forms ONE run; a run without any piece (only marks) is no run *)
Fixpoint regroup (l : list T.item) : list T.item :=
  match l with
  | [] => []
  | T.IText ps :: r =>
    match regroup r with
    | T.IText qs :: r' => T.IText (ps ++ qs) :: r'
    | r' => if forallb is_mark ps then r' else T.IText ps :: r'
    end
  | i :: r => i :: regroup r
  end.

Definition inline_attr (tb : table) (in_ent : bool) (a : attr) : option (T.attr * list Detector.lop) :=
  obind (inline_ps tb true in_ent (a_value a)) (fun x =>
  Some ({| T.a_ws := a_ws a; T.a_name := a_name a; T.a_ws1 := a_ws1 a; T.a_ws2 := a_ws2 a;
           T.a_quote := a_quote a; T.a_value := fst x |}, snd x)).

Fixpoint inline_attrs (tb : table) (in_ent : bool) (l : list attr) : option (list T.attr * list Detector.lop) :=
  match l with
  | [] => Some ([], [])
  | a :: r => obind (inline_attr tb in_ent a) (fun x => obind (inline_attrs tb in_ent r) (fun y =>
              Some (fst x :: fst y, snd x ++ snd y)))
  end.

(* the pieces of a run in content: a reference may stand for items *)
Fixpoint inline_run (tb : table) (in_ent : bool) (ps : list epiece) : option (list T.item * list Detector.lop) :=
  match ps with
  | [] => Some ([], [])
  | EP p :: r => obind (inline_run tb in_ent r) (fun x => Some (T.IText [p] :: fst x, snd x))
  | ERef n :: r =>
    obind (lookup tb n) (fun v => obind (inline_run tb in_ent r) (fun x =>
    Some (T.IText [mark] :: x_items v ++ T.IText [mark] :: fst x,
          Detector.Enter :: x_trace v ++ Detector.Exit :: snd x)))
  end.

Fixpoint inline_item (tb : table) (in_ent : bool) (i : item) : option (list T.item * list Detector.lop) :=
  match i with
  | IElem name attrs ws_end body =>
    obind (inline_attrs tb in_ent attrs) (fun a =>
    match body with
    | None => Some ([T.IElem name (fst a) ws_end None], snd a)
    | Some (children, ws2) =>
      obind ((fix go (l : list item) : option (list T.item * list Detector.lop) :=
                match l with
                | [] => Some ([], [])
                | c :: r => obind (inline_item tb in_ent c) (fun x => obind (go r) (fun y =>
                            Some (fst x ++ fst y, snd x ++ snd y)))
                end) children) (fun b =>
      Some ([T.IElem name (fst a) ws_end (Some (regroup (fst b), ws2))], snd a ++ snd b))
    end)
  | IText ps => inline_run tb in_ent ps
  | IComment bs => Some ([T.IComment bs], [])
  | IPI t s v => Some ([T.IPI t s v], [])
  end.

Fixpoint inline_items (tb : table) (in_ent : bool) (l : list item) : option (list T.item * list Detector.lop) :=
  match l with
  | [] => Some ([], [])
  | c :: r => obind (inline_item tb in_ent c) (fun x => obind (inline_items tb in_ent r) (fun y =>
              Some (fst x ++ fst y, snd x ++ snd y)))
  end.

(* the value of a declaration, given the table of the values one level shallower *)
Definition inline_value (tb : table) (v : evalue) : option xval :=
  match v with
  | EText ps =>
    obind (inline_ps tb false true ps) (fun x =>
    Some {| x_items := [T.IText (fst x)];
            x_pieces := Some (fst x);     (* for an attribute: checked again at the place of use *)
            x_trace := snd x |})
  | EContent its =>
    obind (inline_items tb true its) (fun x =>
    Some {| x_items := fst x; x_pieces := None; x_trace := snd x |})
  end.

(* level k: the entities whose expansion nests at most k references deep have a value, the others
   have none.  Level 0 has no value at all; a well-formed document needs no more than level 10
   (see wf_doc).  A later declaration of an already declared name is never found by [lookup]. *)
Fixpoint level (decls : list edecl) (k : nat) : table :=
  match k with
  | O => map (fun e => (e_name e, None)) decls
  | S k' => let tb := level decls k' in map (fun e => (e_name e, inline_value tb (e_value e))) decls
  end.
Definition max_level : nat := 10.
Definition table_of (d : doc) : table := level (t_decls (d_dtd d)) max_level.

Definition misc_item (i : item) : T.item :=
  match i with IComment bs => T.IComment bs | IPI t s v => T.IPI t s v | _ => T.IComment [] end.

(* the document with every reference replaced by what it stands for, and its expansion trace *)
Definition inline (d : doc) : option (T.doc * list Detector.lop) :=
  obind (inline_item (table_of d) false (d_root d)) (fun x =>
  match fst x with
  | [root] =>
    Some ({| T.d_before := map (fun p => (misc_item (fst p), snd p)) (d_before d)
                           ++ map (fun p => (misc_item (snd p), fst p)) (d_mid d);
             T.d_ws0 := d_ws0 d; T.d_root := root;
             T.d_after := map (fun p => (fst p, misc_item (snd p))) (d_after d);
             T.d_ws_end := d_ws_end d |}, snd x)
  | _ => None
  end).

(* ---- meaning: that of the inlined document (the DOCTYPE itself denotes no node) ---- *)
Definition sem (d : doc) : list Cst.vnode :=
  match inline d with Some (c, _) => T.sem c | None => [] end.

(* ---- well-formedness of the fragment: (F) keeps the document inside the fragment, (R) excludes
   what the parser rejects, (L) is a documented limit of the crate, (P) is a proviso of C07 ---- *)
Definition is_predef_name (n : bytes) : bool :=
  existsb (fun e => beq (T.predef_name e) n) [T.Amp; T.Lt; T.Gt; T.Apos; T.Quot].

(* (F) a character reference inside an entity value must not denote TAB, LF, CR, '&' or '<': XML
   replaces character references in an entity literal when the entity is DECLARED (so these would
   be white space to normalise, or markup, when the entity is used); the crate reads them when the
   entity is USED.  For all other characters the two readings agree. *)
Definition charref_ok_in_value (p : T.piece) : bool :=
  match p with
  | T.PCharRef hex ds =>
    let c := T.ref_val hex ds in negb ((c =? 9) || (c =? 10) || (c =? 13) || (c =? 38) || (c =? 60))
  | _ => true
  end.

(* pieces of character data; [q]: the byte that may not occur literally; [cdata]: CDATA sections
   allowed; [chardata]: the pieces will be read as character data (so no "]]>" in a literal) *)
Definition wf_epiece (q : N) (cdata chardata in_value : bool) (p : epiece) : bool :=
  match p with
  | EP (T.PCData bs) => cdata && T.wf_tpiece (T.PCData bs)
  | EP p' => (if chardata then T.wf_tpiece p' else true) && T.wf_vpiece q p'
             && (if in_value then charref_ok_in_value p' else true)
  | ERef n => Cst.wf_name n && negb (is_predef_name n)     (* (F) &lt; etc. are the predefined entities *)
  end.
Definition is_elit (p : epiece) : bool := match p with EP (T.PLit _) => true | _ => false end.
Fixpoint no_adjacent_elit (ps : list epiece) : bool :=
  match ps with
  | a :: ((c :: _) as r) => negb (is_elit a && is_elit c) && no_adjacent_elit r
  | _ => true
  end.
Definition wf_epieces (q : N) (cdata chardata in_value : bool) (ps : list epiece) : bool :=
  forallb (wf_epiece q cdata chardata in_value) ps && no_adjacent_elit ps.

Definition wf_attr (in_value : bool) (a : attr) : bool :=
  Cst.wf_ws1 (a_ws a) && Cst.wf_name (a_name a) && Cst.wf_ws (a_ws1 a) && Cst.wf_ws (a_ws2 a) &&
  ((a_quote a =? 39) || (a_quote a =? 34)) && wf_epieces (a_quote a) false false in_value (a_value a).

Definition is_text (i : item) : bool := match i with IText _ => true | _ => false end.
Definition is_misc (i : item) : bool := match i with IComment _ | IPI _ _ _ => true | _ => false end.
Fixpoint no_adjacent_text (l : list item) : bool :=
  match l with
  | a :: ((c :: _) as r) => negb (is_text a && is_text c) && no_adjacent_text r
  | _ => true
  end.

Fixpoint wf_item (in_value : bool) (i : item) : bool :=
  match i with
  | IElem name attrs ws_end body =>
    Cst.wf_name name && negb (T.is_xmlns name)
    && forallb (wf_attr in_value) attrs && forallb (fun a => negb (T.is_xmlns (a_name a))) attrs
    && Cst.names_distinct (map a_name attrs) && Cst.wf_ws ws_end &&
    match body with
    | None => true
    | Some (children, ws2) =>
      Cst.wf_ws ws2 && no_adjacent_text children &&
      (fix all (l : list item) : bool := match l with [] => true | c :: r => wf_item in_value c && all r end) children
    end
  | IText ps => match ps with [] => false | _ => true end && wf_epieces 60 true true in_value ps
  | IComment bs => Cst.wf_item (Cst.IComment bs)
  | IPI target sep value => Cst.wf_item (Cst.IPI target sep value)
  end.

(* the value of a declaration quoted by q: (R) the quote ends the literal; (F) '%' would be a
   parameter-entity reference in XML (write &#37;) *)
Definition wf_value (q : N) (v : evalue) : bool :=
  forallb (fun x => negb (x =? q) && negb (x =? 37)) (r_value v) &&
  match v with
  | EText ps => wf_epieces q false true true ps
  | EContent its => forallb (wf_item true) its && no_adjacent_text its
  end.

Definition wf_decl (e : edecl) : bool :=
  Cst.wf_ws (e_ws0 e) && Cst.wf_ws1 (e_ws1 e) && Cst.wf_name (e_name e) && Cst.wf_ws1 (e_ws2 e) &&
  ((e_quote e =? 39) || (e_quote e =? 34)) && wf_value (e_quote e) (e_value e) && Cst.wf_ws (e_ws3 e).

Definition wf_dtd (t : dtd) : bool :=
  Cst.wf_ws1 (t_ws1 t) && Cst.wf_name (t_name t) && Cst.wf_ws (t_ws2 t) && forallb wf_decl (t_decls t) &&
  Cst.wf_ws (t_ws3 t) && Cst.wf_ws (t_ws4 t).

(* (P) the line-end proviso: in no run and in no attribute value of the inlined document is a
   literal ending in CR separated from a literal starting with LF by entity boundaries only
   (XML normalises line ends per entity; so does the crate) *)
Definition ends_cr (p : T.piece) : bool :=
  match p with T.PLit bs => match rev bs with x :: _ => x =? 13 | [] => false end | _ => false end.
Definition starts_lf (p : T.piece) : bool :=
  match p with T.PLit (x :: _) => x =? 10 | _ => false end.
(* [pend]: a literal ending in CR has been seen and only marks since *)
Fixpoint crlf_ok (pend : bool) (ps : list T.piece) : bool :=
  match ps with
  | [] => true
  | p :: r =>
    if is_mark p then crlf_ok pend r
    else negb (pend && starts_lf p) && crlf_ok (ends_cr p) r
  end.
(* with at least one mark in between: adjacent literals of one source run are not split *)
Fixpoint crlf_split_ok (ps : list T.piece) : bool :=
  match ps with
  | [] => true
  | p :: r =>
    (if ends_cr p then match r with m :: r' => if is_mark m then crlf_ok true r' else true | [] => true end else true)
    && crlf_split_ok r
  end.

Fixpoint provisos_item (i : T.item) : bool :=
  match i with
  | T.IElem _ attrs _ body =>
    forallb (fun a => crlf_split_ok (T.a_value a)) attrs &&
    match body with
    | None => true
    | Some (cs, _) => (fix all (l : list T.item) : bool := match l with [] => true | c :: r => provisos_item c && all r end) cs
    end
  | T.IText ps => crlf_split_ok ps
  | _ => true
  end.

Definition wf_doc (d : doc) : bool :=
  Cst.wf_ws (d_ws0 d) && Cst.wf_ws (d_ws1 d) && Cst.wf_ws (d_ws_end d) &&
  forallb (fun p => is_misc (fst p) && wf_item false (fst p) && Cst.wf_ws (snd p)) (d_before d) &&
  wf_dtd (d_dtd d) &&
  forallb (fun p => Cst.wf_ws (fst p) && is_misc (snd p) && wf_item false (snd p)) (d_mid d) &&
  match d_root d with IElem _ _ _ _ => wf_item false (d_root d) | _ => false end &&
  forallb (fun p => Cst.wf_ws (fst p) && is_misc (snd p) && wf_item false (snd p)) (d_after d) &&
  match inline d with
  | None => false           (* (R) undeclared entity, '<' into an attribute value through an entity (incl. D15),
                               markup in an attribute value; (L) more than 10 levels (recursion included) *)
  | Some (c, tr) =>
    Detector.within_limits 10 255 0 0 tr      (* (L) depth <= 10, <= 255 nested references per top-level reference *)
    && provisos_item (T.d_root c)             (* (P) no CR LF pair split by an entity boundary *)
  end.
