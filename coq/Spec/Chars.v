(* Spec/Chars.v -- XML 1.0 (Fifth Edition) productions [2] Char, [3] S, [4] NameStartChar,
   [4a] NameChar, transcribed from the recommendation.  Independent of the model and of
   Generated.v. *)
From Coq Require Import List NArith Bool.
Import ListNotations.
Open Scope N_scope.

Definition in_ranges (c : N) (rs : list (N * N)) : bool :=
  existsb (fun r => (fst r <=? c) && (c <=? snd r)) rs.

(* [2] Char ::= #x9 | #xA | #xD | [#x20-#xD7FF] | [#xE000-#xFFFD] | [#x10000-#x10FFFF] *)
Definition xml_Char_ranges : list (N * N) :=
  [(9, 9); (10, 10); (13, 13); (32, 55295); (57344, 65533); (65536, 1114111)].

(* [4] NameStartChar ::= ":" | [A-Z] | "_" | [a-z] | [#xC0-#xD6] | [#xD8-#xF6] | [#xF8-#x2FF]
     | [#x370-#x37D] | [#x37F-#x1FFF] | [#x200C-#x200D] | [#x2070-#x218F] | [#x2C00-#x2FEF]
     | [#x3001-#xD7FF] | [#xF900-#xFDCF] | [#xFDF0-#xFFFD] | [#x10000-#xEFFFF] *)
Definition xml_NameStartChar_ranges : list (N * N) :=
  [(58, 58); (65, 90); (95, 95); (97, 122); (192, 214); (216, 246); (248, 767); (880, 893);
   (895, 8191); (8204, 8205); (8304, 8591); (11264, 12271); (12289, 55295); (63744, 64975);
   (65008, 65533); (65536, 983039)].

(* [4a] NameChar ::= NameStartChar | "-" | "." | [0-9] | #xB7 | [#x0300-#x036F] | [#x203F-#x2040] *)
Definition xml_NameChar_ranges : list (N * N) :=
  xml_NameStartChar_ranges ++ [(45, 45); (46, 46); (48, 57); (183, 183); (768, 879); (8255, 8256)].

Definition xml_Char (c : N) : bool := in_ranges c xml_Char_ranges.
Definition xml_NameStartChar (c : N) : bool := in_ranges c xml_NameStartChar_ranges.
Definition xml_NameChar (c : N) : bool := in_ranges c xml_NameChar_ranges.
(* [3] S ::= (#x20 | #x9 | #xD | #xA)+ *)
Definition xml_S (c : N) : bool := (c =? 32) || (c =? 9) || (c =? 13) || (c =? 10).

(* a Unicode scalar value: what a Rust [char] can hold *)
Definition scalar (c : N) : bool := (c <? 55296) || ((57343 <? c) && (c <? 1114112)).
