(* Spec/CstFullS9.v -- the capstone fragment, stage S9: Spec/CstFullS8.v with the last lexical exclusion on names removed.

   The documents, their rendering and their MEANING are those of Spec/CstFullS6.v (nothing is redefined: [S9.doc] is
   [S6.doc]); only the well-formedness conditions are wider:

   (5) the name of a general entity -- in its declaration <!ENTITY n ...> and in every reference &n; (character data,
       attribute values, namespace URIs, entity values: nested references) -- is a Name of XML 1.0 (production [5]):
       ':' is a name character like any other, in any position and any number of times.  (Namespaces in XML 1.0 asks
       for an NCName here; the crate reads entity names with consume_name / skip_name and compares them as byte
       strings.)  With Spec/CstFullS7.v (DOCTYPE name, PI targets) every name the crate reads with consume_name is
       now a Name; element and attribute names stay qualified names, prefixes NCNames.

   The predefined names lt, gt, amp, apos, quot stay excluded as names of declared entities references to which are
   pieces [ERef] ((F): they are the predefined entities, pieces [PPredef]).  Independent of the model. *)
From Coq Require Import List NArith Bool.
From RX.Spec Require Import Scope.
From RX.Spec Require Cst CstNs CstU CstText CstEnt Chars Detector.
From RX.Spec Require Import CstFull.
From RX.Spec Require CstFullS4 CstFullS5.
From RX.Spec Require Import CstFullS6 CstFullS7 CstFullS8.
Import ListNotations.
Open Scope N_scope.


(* ------------------------------------------------------------------------------------------ *)
(* pieces: Spec/CstFull.v [wf_uepiece] with a Name for the name of a reference                *)
(* ------------------------------------------------------------------------------------------ *)
Definition wf_uepiece9 (q : N) (cdata chardata in_value : bool) (p : E.epiece) : bool :=
  match p with
  | E.EP (T.PCData cs) => cdata && wf_utpiece (T.PCData cs)
  | E.EP p' => (if chardata then wf_utpiece p' else true) && wf_uvpiece q p'
               && (if in_value then E.charref_ok_in_value p' else true)
  | E.ERef n => wf_name7 n && negb (E.is_predef_name n)   (* (F) &lt; etc. are the predefined entities *)
  end.
Definition wf_uepieces9 (q : N) (cdata chardata in_value : bool) (ps : list E.epiece) : bool :=
  forallb (wf_uepiece9 q cdata chardata in_value) ps && E.no_adjacent_elit ps.

(* ------------------------------------------------------------------------------------------ *)
(* Spec/CstFullS6.v .. S8.v's conditions with these                                           *)
(* ------------------------------------------------------------------------------------------ *)
Definition wf_uentry9 (in_value : bool) (e : uentry) : bool :=
  X5.wf_layout_s (e_layout epieces e) &&
  wf_uepieces9 (CstNs.l_quote (e_layout epieces e)) false false in_value (e_value epieces e) &&
  match e with
  | EAttr _ n _ => wf_qname n
  | EDecl _ p _ => match p with [] => true | _ => CstU.wf_name p end
  end.

Fixpoint wf_uitem9 (in_value : bool) (i : uitem) : bool :=
  match i with
  | IElem name es ws_end body =>
    wf_qname name && forallb (wf_uentry9 in_value) es && wf_s ws_end &&
    match body with
    | None => true
    | Some (children, ws2) =>
      wf_s ws2 && no_adjacent_text epieces children &&
      (fix all (l : list uitem) : bool := match l with [] => true | c :: r => wf_uitem9 in_value c && all r end) children
    end
  | IText ps => match ps with [] => false | _ => true end && wf_uepieces9 60 true true in_value ps
  | IComment _ | IPI _ _ _ => wf_misc7 i
  end.

Definition wf_xvalue9 (q : N) (v : X4.xvalue) : bool :=
  forallb (fun x => negb (x =? q)) (X4.r_xvalue v) &&
  match v with
  | X4.XText ps => wf_uepieces9 q false true true ps
  | X4.XContent its => forallb (wf_uitem9 true) its && no_adjacent_text epieces its
  end.
Definition wf_xdecl9 (e : X4.xdecl) : bool :=
  wf_s (X4.x_ws0 e) && wf_s1 (X4.x_ws1 e) && wf_name7 (X4.x_name e) && wf_s1 (X4.x_ws2 e) &&
  X5.is_quote (X4.x_quote e) && wf_xvalue9 (X4.x_quote e) (X4.x_value e) && wf_s (X4.x_ws3 e).

Definition wf_sdecl9 (s : sdecl6) : bool :=
  match s with XEntity e => wf_xdecl9 e | XOther s => negb (is_sentity s) && wf_other7 s end.
Definition wf_subset9 (u : subset6) : bool :=
  forallb wf_sdecl9 (zu_decls u) && wf_s (zu_ws3 u) && wf_s (zu_ws4 u).
Definition wf_doctype9 (t : doctype6) : bool :=
  wf_s1 (z_ws1 t) && wf_name7 (z_name t) && wf_s (z_ws2 t) &&
  match z_ext t with
  | Some (x, w) => wf_s1 (z_ws2 t) && X5.wf_extid x && wf_s w
  | None => true
  end && X5.wf_opt wf_subset9 (z_subset t).

Module S9.
  Definition doc := S6.doc.
  Definition render (d : doc) : bytes := S6.render d.
  Definition sem (d : doc) : list CstNs.vnode := S6.sem d.
  Definition has_dtd (d : doc) : bool := S6.has_dtd d.
  Definition distinct_decls_le (d : doc) (n : nat) : Prop := S6.distinct_decls_le d n.
  Definition ns_cost (d : doc) : nat := S6.ns_cost d.
  Definition nattrs (d : doc) : nat := S6.nattrs d.

  Definition wf_dtd_part (g : S6.dtd_part) : bool :=
    wf_s (S6.g_ws0 g) && forallb (fun p => wf_misc7 (fst p) && wf_s (snd p)) (S6.g_before g) && wf_doctype9 (S6.g_dtd g).
  (* [S8.wf_doc] with the conditions above *)
  Definition wf_doc (d : doc) : bool :=
    X5.wf_opt X5.wf_xmldecl (S6.x_decl d) && X5.wf_opt wf_dtd_part (S6.x_dtd d) &&
    wf_s (d_ws0 (S6.x_main d)) && wf_s (d_ws_end (S6.x_main d)) &&
    forallb (fun p => wf_misc7 (fst p) && wf_s (snd p)) (d_before (S6.x_main d)) &&
    match d_root (S6.x_main d) with IElem _ _ _ _ => wf_uitem9 false (d_root (S6.x_main d)) | _ => false end &&
    forallb (fun p => wf_s (fst p) && wf_misc7 (snd p)) (d_after (S6.x_main d)) &&
    match X4.S4.inline (S6.core d) with
    | None => false
    | Some (c, tr) =>
      limits_ok tr && X4.provisos_item (d_root c) && forallb (ns_ok []) (den X4.bmeaning (d_root c))
    end.
End S9.
