(* Spec/CstFullS4.v -- the capstone fragment (Spec/CstFull.v), stage S4 = S3 + entities whose value is MARKUP.

   The internal DTD subset declares, besides the character-data entities of S3, entities whose value is a
   list of items of the frame: elements with QUALIFIED Unicode names, attributes and namespace declarations
   (whose values may refer to character-data entities), comments, processing instructions, runs of character
   data, and further references.  Such an entity may be referred to in character data (never in a value).

   MEANING: "a reference behaves exactly as if the replacement text stood in its place".  The references are
   INLINED on the abstract syntax, as Spec/CstEnt.v does it (level tables, the first declaration of a name is
   the binding one, adjacent character data regrouped into one run, entity boundaries kept as marks); the
   result is a document of the frame whose values and runs are byte-level piece lists ([bpieces]), and its
   meaning is the frame's: what it DENOTES in Spec/CstNs.v ([den]) and the Spec/CstNs.v meaning of that.  So the
   prefixes of an element that came out of an entity are resolved AFTER inlining, in the scope of the place
   of the REFERENCE, and a namespace declaration inside the entity value shadows that scope for the content
   of its element only.  The namespace rules N1-N7 are asked of the denotation of the inlined document.

   wf: the syntactic conditions of S3 / Spec/CstEnt.v (names, layout, pieces; inside an entity value the (F)
   restriction on character references and the quote / '%' restriction on the literal), the limits (L) and the
   line-end proviso (P) of Spec/CstEnt.v on the inlined document, [ns_ok] on its denotation.  Independent of
   the model. *)
From Coq Require Import List NArith Bool.
From RX.Spec Require Import Scope.
From RX.Spec Require Cst CstNs CstU CstText CstEnt Chars Detector.
From RX.Spec Require Import CstFull.
Import ListNotations.
Open Scope N_scope.

(* ------------------------------------------------------------------------------------------ *)
(* the syntax of the INLINED document: values and runs are encoded pieces with boundary marks  *)
(* ------------------------------------------------------------------------------------------ *)
Definition bpieces : syntax :=
  {| val := list T.piece; run := list T.piece; r_val := T.r_pieces; r_run := T.r_pieces |}.

(* a value denotes its normalised value; a run in which nothing but marks is left is no run *)
Definition bmeaning : meaning bpieces :=
  Build_meaning bpieces
    (fun _ _ => true) (fun _ => true)
    T.value_sem
    (fun Q => if forallb E.is_mark Q then None else Some (T.text_sem Q)).

Notation uitem := (item epieces).       (* an item as written: S3 pieces *)
Notation uentry := (entry epieces).
Notation bitem := (item bpieces).       (* an item with all references inlined *)
Notation bentry := (entry bpieces).

(* ------------------------------------------------------------------------------------------ *)
(* the DOCTYPE                                                                                *)
(* ------------------------------------------------------------------------------------------ *)
Inductive xvalue := XText (ps : list E.epiece) | XContent (its : list uitem).

Record xdecl := {
  x_ws0 : bytes;        (* before "<!ENTITY" *)
  x_ws1 : bytes;        (* after "<!ENTITY" (>= 1) *)
  x_name : scalars;
  x_ws2 : bytes;        (* after the name (>= 1) *)
  x_quote : N;          (* 39 or 34 *)
  x_value : xvalue;
  x_ws3 : bytes         (* before '>' *)
}.

Record xdtd := {
  t_ws1 : bytes;        (* after "<!DOCTYPE" (>= 1) *)
  t_name : scalars;
  t_ws2 : bytes;        (* before '[' *)
  t_decls : list xdecl;
  t_ws3 : bytes;        (* before ']' *)
  t_ws4 : bytes         (* between ']' and '>' *)
}.

Definition r_uitems (l : list uitem) : bytes := flat_map r_item l.
Definition r_xvalue (v : xvalue) : bytes :=
  match v with XText ps => E.r_epieces (enc_epieces ps) | XContent its => r_uitems its end.
Definition r_xdecl (e : xdecl) : bytes :=
  x_ws0 e ++ E.kw_entity ++ x_ws1 e ++ utf8s (x_name e) ++ x_ws2 e ++ [x_quote e] ++ r_xvalue (x_value e) ++ [x_quote e]
  ++ x_ws3 e ++ [62].
Definition r_xdtd (t : xdtd) : bytes :=
  E.kw_doctype ++ t_ws1 t ++ utf8s (t_name t) ++ t_ws2 t ++ [91] ++ flat_map r_xdecl (t_decls t) ++ t_ws3 t ++ [93]
  ++ t_ws4 t ++ [62].

(* ------------------------------------------------------------------------------------------ *)
(* inlining (Spec/CstEnt.v on the items of the frame)                                         *)
(* ------------------------------------------------------------------------------------------ *)
(* what an entity stands for once all references in its value have been inlined *)
Record yval := {
  y_items : list bitem;                  (* in content *)
  y_pieces : option (list T.piece);      (* in a value: only character data *)
  y_trace : list Detector.lop            (* the Enter / Exit events of the expansions inside *)
}.
Definition ytable := list (bytes * option yval).      (* keyed by the UTF-8 of the names *)

Fixpoint ylookup (tb : ytable) (n : bytes) : option yval :=
  match tb with [] => None | (m, v) :: r => if E.beq m n then v else ylookup r n end.

(* the same table for character data: Spec/CstEnt.v [E.inline_ps] looks at the pieces and the trace only *)
Definition ptable (tb : ytable) : E.table :=
  map (fun e => (fst e, match snd e with
                        | Some v => Some {| E.x_items := []; E.x_pieces := y_pieces v; E.x_trace := y_trace v |}
                        | None => None
                        end)) tb.

Definition bmark : bitem := @IText bpieces [E.mark].

Section Inline.
Variable tb : ytable.

(* the (encoded) pieces of a run in content: a reference may stand for items *)
Fixpoint inline_run (in_ent : bool) (ps : list E.epiece) : option (list bitem * list Detector.lop) :=
  match ps with
  | [] => Some ([], [])
  | E.EP p :: r => E.obind (inline_run in_ent r) (fun x => Some (@IText bpieces [p] :: fst x, snd x))
  | E.ERef n :: r =>
    E.obind (ylookup tb n) (fun v => E.obind (inline_run in_ent r) (fun x =>
    Some (bmark :: y_items v ++ bmark :: fst x, Detector.Enter :: y_trace v ++ Detector.Exit :: snd x)))
  end.

(* adjacent character data forms ONE run *)
Fixpoint regroup (l : list bitem) : list bitem :=
  match l with
  | [] => []
  | IText ps :: r =>
    match regroup r with
    | IText qs :: r' => @IText bpieces (ps ++ qs) :: r'
    | r' => @IText bpieces ps :: r'
    end
  | i :: r => i :: regroup r
  end.

Definition inline_entry (in_ent : bool) (e : uentry) : option (bentry * list Detector.lop) :=
  match e with
  | EAttr l n v => E.obind (E.inline_ps (ptable tb) true in_ent (enc_epieces v)) (fun x => Some (@EAttr bpieces l n (fst x), snd x))
  | EDecl l p v => E.obind (E.inline_ps (ptable tb) true in_ent (enc_epieces v)) (fun x => Some (@EDecl bpieces l p (fst x), snd x))
  end.
Fixpoint inline_entries (in_ent : bool) (l : list uentry) : option (list bentry * list Detector.lop) :=
  match l with
  | [] => Some ([], [])
  | e :: r => E.obind (inline_entry in_ent e) (fun x => E.obind (inline_entries in_ent r) (fun y =>
              Some (fst x :: fst y, snd x ++ snd y)))
  end.

Fixpoint inline_item (in_ent : bool) (i : uitem) : option (list bitem * list Detector.lop) :=
  match i with
  | IElem name es ws_end body =>
    E.obind (inline_entries in_ent es) (fun a =>
    match body with
    | None => Some ([@IElem bpieces name (fst a) ws_end None], snd a)
    | Some (children, ws2) =>
      E.obind ((fix go (l : list uitem) : option (list bitem * list Detector.lop) :=
                  match l with
                  | [] => Some ([], [])
                  | c :: r => E.obind (inline_item in_ent c) (fun x => E.obind (go r) (fun y =>
                              Some (fst x ++ fst y, snd x ++ snd y)))
                  end) children) (fun b =>
      Some ([@IElem bpieces name (fst a) ws_end (Some (regroup (fst b), ws2))], snd a ++ snd b))
    end)
  | IText ps => inline_run in_ent (enc_epieces ps)
  | IComment cs => Some ([@IComment bpieces cs], [])
  | IPI t s v => Some ([@IPI bpieces t s v], [])
  end.

Fixpoint inline_items (in_ent : bool) (l : list uitem) : option (list bitem * list Detector.lop) :=
  match l with
  | [] => Some ([], [])
  | c :: r => E.obind (inline_item in_ent c) (fun x => E.obind (inline_items in_ent r) (fun y =>
              Some (fst x ++ fst y, snd x ++ snd y)))
  end.

(* the value of a declaration, given the table of the values one level shallower *)
Definition inline_value (v : xvalue) : option yval :=
  match v with
  | XText ps =>
    E.obind (E.inline_ps (ptable tb) false true (enc_epieces ps)) (fun x =>
    Some {| y_items := [@IText bpieces (fst x)]; y_pieces := Some (fst x); y_trace := snd x |})
  | XContent its =>
    E.obind (inline_items true its) (fun x =>
    Some {| y_items := fst x; y_pieces := None; y_trace := snd x |})
  end.
End Inline.

Fixpoint level (decls : list xdecl) (k : nat) : ytable :=
  match k with
  | O => map (fun e => (utf8s (x_name e), None)) decls
  | S k' => let tb := level decls k' in map (fun e => (utf8s (x_name e), inline_value tb (x_value e))) decls
  end.
Definition table_of4 (t : xdtd) : ytable := level (t_decls t) E.max_level.

(* ------------------------------------------------------------------------------------------ *)
(* syntactic well-formedness                                                                  *)
(* ------------------------------------------------------------------------------------------ *)
(* [in_value]: inside the value of an entity, where (F) restricts the character references *)
Definition wf_uentry (in_value : bool) (e : uentry) : bool :=
  CstNs.wf_layout (e_layout epieces e) &&
  wf_uepieces (CstNs.l_quote (e_layout epieces e)) false false in_value (e_value epieces e) &&
  match e with
  | EAttr _ n _ => wf_qname n
  | EDecl _ p _ => match p with [] => true | _ => CstU.wf_name p end
  end.

Fixpoint wf_uitem (in_value : bool) (i : uitem) : bool :=
  match i with
  | IElem name es ws_end body =>
    wf_qname name && forallb (wf_uentry in_value) es && Cst.wf_ws ws_end &&
    match body with
    | None => true
    | Some (children, ws2) =>
      Cst.wf_ws ws2 && no_adjacent_text epieces children &&
      (fix all (l : list uitem) : bool := match l with [] => true | c :: r => wf_uitem in_value c && all r end) children
    end
  | IText ps => match ps with [] => false | _ => true end && wf_uepieces 60 true true in_value ps
  | IComment cs => CstU.wf_item (Cst.IComment cs)
  | IPI t s v => CstU.wf_item (Cst.IPI t s v)
  end.

(* the value of a declaration quoted by q: (R) the quote ends the literal; (F) '%' would be a
   parameter-entity reference *)
Definition wf_xvalue (q : N) (v : xvalue) : bool :=
  forallb (fun x => negb (x =? q) && negb (x =? 37)) (r_xvalue v) &&
  match v with
  | XText ps => wf_uepieces q false true true ps
  | XContent its => forallb (wf_uitem true) its && no_adjacent_text epieces its
  end.
Definition wf_xdecl (e : xdecl) : bool :=
  Cst.wf_ws (x_ws0 e) && Cst.wf_ws1 (x_ws1 e) && CstU.wf_name (x_name e) && Cst.wf_ws1 (x_ws2 e) &&
  ((x_quote e =? 39) || (x_quote e =? 34)) && wf_xvalue (x_quote e) (x_value e) && Cst.wf_ws (x_ws3 e).
Definition wf_xdtd (t : xdtd) : bool :=
  Cst.wf_ws1 (t_ws1 t) && CstU.wf_name (t_name t) && Cst.wf_ws (t_ws2 t) && forallb wf_xdecl (t_decls t) &&
  Cst.wf_ws (t_ws3 t) && Cst.wf_ws (t_ws4 t).

(* (P) the line-end proviso of Spec/CstEnt.v, on every value and every run of the inlined document *)
Fixpoint provisos_item (i : bitem) : bool :=
  match i with
  | IElem _ es _ body =>
    forallb (fun e => E.crlf_split_ok (e_value bpieces e)) es &&
    match body with
    | None => true
    | Some (cs, _) => (fix all (l : list bitem) : bool := match l with [] => true | c :: r => provisos_item c && all r end) cs
    end
  | IText ps => E.crlf_split_ok ps
  | _ => true
  end.

(* ------------------------------------------------------------------------------------------ *)
(* documents: white space, comments / PIs, the DOCTYPE, then a document of the frame          *)
(* ------------------------------------------------------------------------------------------ *)
Module S4.
  Record doc := {
    x_ws0 : bytes;
    x_before : list (uitem * bytes);           (* comments / PIs before the DOCTYPE, each followed by white space *)
    x_dtd : xdtd;
    x_main : CstFull.doc epieces               (* what follows the DOCTYPE *)
  }.
  Definition render (d : doc) : bytes :=
    x_ws0 d ++ flat_map (fun p => r_item (fst p) ++ snd p) (x_before d) ++ r_xdtd (x_dtd d)
    ++ CstFull.render (x_main d).

  Definition table (d : doc) : ytable := table_of4 (x_dtd d).

  (* a comment / PI has nothing to inline *)
  Definition misc_item (i : uitem) : bitem :=
    match i with IComment cs => @IComment bpieces cs | IPI t s v => @IPI bpieces t s v | _ => @IComment bpieces [] end.

  (* the document that follows the DOCTYPE with every reference replaced by what it stands for, and the trace
     of the expansions *)
  Definition inline (d : doc) : option (CstFull.doc bpieces * list Detector.lop) :=
    E.obind (inline_item (table d) false (d_root (x_main d))) (fun x =>
    match fst x with
    | [root] =>
      Some ({| d_before := map (fun p => (misc_item (fst p), snd p)) (d_before (x_main d));
               d_ws0 := d_ws0 (x_main d); d_root := root;
               d_after := map (fun p => (fst p, misc_item (snd p))) (d_after (x_main d));
               d_ws_end := d_ws_end (x_main d) |}, snd x)
    | _ => None
    end).

  Definition wf_doc (d : doc) : bool :=
    Cst.wf_ws (x_ws0 d) &&
    forallb (fun p => is_misc epieces (fst p) && wf_uitem false (fst p) && Cst.wf_ws (snd p)) (x_before d) &&
    wf_xdtd (x_dtd d) &&
    Cst.wf_ws (d_ws0 (x_main d)) && Cst.wf_ws (d_ws_end (x_main d)) &&
    forallb (fun p => is_misc epieces (fst p) && wf_uitem false (fst p) && Cst.wf_ws (snd p)) (d_before (x_main d)) &&
    match d_root (x_main d) with IElem _ _ _ _ => wf_uitem false (d_root (x_main d)) | _ => false end &&
    forallb (fun p => Cst.wf_ws (fst p) && is_misc epieces (snd p) && wf_uitem false (snd p)) (d_after (x_main d)) &&
    match inline d with
    | None => false         (* (R) undeclared entity, markup or '<' into a value through an entity (incl. D15);
                               (L) more than 10 levels (recursion included) *)
    | Some (c, tr) =>
      limits_ok tr                                      (* (L) depth <= 10, <= 255 nested references per top-level reference *)
      && provisos_item (d_root c)                       (* (P) no CR LF pair split by an entity boundary *)
      && forallb (ns_ok []) (den bmeaning (d_root c))   (* N1-N7, AFTER inlining *)
    end.

  (* the DOCTYPE itself denotes no node *)
  Definition sem (d : doc) : list CstNs.vnode :=
    match inline d with
    | Some (c, _) =>
      flat_map (CstNs.sem_item []) (flat_map (den bmeaning) (map (fun p => misc_item (fst p)) (x_before d)))
      ++ CstFull.sem bmeaning c
    | None => []
    end.
  (* what the resource limits count: the INLINED document *)
  Definition distinct_decls_le (d : doc) (n : nat) : Prop :=
    match inline d with Some (c, _) => CstFull.distinct_decls_le bmeaning c n | None => True end.
  Definition ns_cost (d : doc) : nat :=
    match inline d with Some (c, _) => CstFull.ns_cost bmeaning c | None => O end.
  (* the number of attribute rows: the attributes of all elements of the meaning *)
  Definition nattrs (d : doc) : nat :=
    list_sum (map (fun v => match v with CstNs.VElem _ _ attrs _ _ => length attrs | _ => O end) (sem d)).
End S4.
