(* Spec/CstFullS5.v -- the capstone fragment, stage S5: THE PROLOG.

   Spec/CstFull.v (stage S3) describes the documents  ws misc* DOCTYPE misc* root misc*  whose
   DOCTYPE has an internal subset made of general internal entity declarations only, and whose
   markup white space is SP / TAB / LF.  This file adds everything else a real document may have
   before the root element:

     - a byte order mark;
     - the XML declaration  <?xml version=... encoding=... standalone=... ?>  with its layout;
     - a DOCTYPE with an external identifier (SYSTEM "..." / PUBLIC "..." "..."), with or without
       an internal subset, and in the subset, besides the general internal entity declarations
       of S3: parameter entity declarations, external / unparsed entity declarations, ELEMENT /
       ATTLIST / NOTATION declarations, comments and processing instructions;
     - no DOCTYPE at all (the documents of S2, with the prolog above);
     - CR in markup white space: white space is the production S of XML 1.0 (SP TAB LF CR) in
       every place where Spec/CstFull.v has SP TAB LF (inside tags, around '=', in a PI after the
       target, between the items of the prolog and of the epilog).

   The types, the rendering and the MEANING of the body are those of Spec/CstFull.v (nothing is
   redefined; only the well-formedness conditions are restated with S for white space).  The
   prolog contributes to the meaning its comments and PIs in document order -- those of the
   internal subset included: the parser appends them under the Root node like any other -- and
   nothing else: the byte order mark, the XML declaration, the DOCTYPE with all its declarations
   denote no node.  Only the general INTERNAL entity declarations bind a name (a parameter entity,
   an external or an unparsed entity of the same name does not shadow a later internal one).

   Marks: (R) excludes what the parser rejects; (F) keeps the document in the fragment;
   (L) a leniency of the crate: the spec carries the field unchecked.  Independent of the model. *)
From Coq Require Import List NArith Bool.
From RX.Spec Require Import Scope.
From RX.Spec Require Cst CstNs CstU CstText CstEnt Chars Detector.
From RX.Spec Require Import CstFull.
Import ListNotations.
Open Scope N_scope.

(* ------------------------------------------------------------------------------------------ *)
(* white space in markup: the production S (SP TAB CR LF)                                       *)
(* ------------------------------------------------------------------------------------------ *)
Definition wf_s (w : bytes) : bool := forallb Chars.xml_S w.
Definition wf_s1 (w : bytes) : bool := match w with [] => false | _ => wf_s w end.
Definition is_quote (q : N) : bool := (q =? 39) || (q =? 34).

(* ------------------------------------------------------------------------------------------ *)
(* the well-formedness conditions of the frame of Spec/CstFull.v, with S for white space       *)
(* ------------------------------------------------------------------------------------------ *)
(* a comment / a PI: Spec/CstU.v; in a PI the white space after the target is S *)
Definition wf_pi_s (t : scalars) (sep : bytes) (v : scalars) : bool :=
  CstU.wf_name t && wf_s sep && forallb CstU.is_char v && negb (Cst.contains [63; 62] v) &&
  negb (Cst.prefix_is_xml t) &&                            (* (R) "<?xml " is the XML declaration *)
  match v with
  | [] => true
  | x :: _ => negb (Chars.xml_S x) && match sep with [] => false | _ => true end
  end.
Definition wf_misc_s {S : syntax} (i : item S) : bool :=
  match i with
  | IComment cs => CstU.wf_item (Cst.IComment cs)
  | IPI t s v => wf_pi_s t s v
  | _ => false
  end.

Section FrameS.
Variable S : syntax.
Variable M : meaning S.

Definition wf_layout_s (l : layout) : bool :=
  wf_s1 (CstNs.l_ws l) && wf_s (CstNs.l_ws1 l) && wf_s (CstNs.l_ws2 l) && is_quote (CstNs.l_quote l).

Definition wf_entry_s (e : entry S) : bool :=
  wf_layout_s (e_layout S e) && wf_val M (CstNs.l_quote (e_layout S e)) (e_value S e) &&
  match e with
  | EAttr _ n _ => wf_qname n
  | EDecl _ p _ => match p with [] => true | _ => CstU.wf_name p end
  end.

Fixpoint wf_item_s (i : item S) : bool :=
  match i with
  | IElem name es ws_end body =>
    wf_qname name && forallb wf_entry_s es && wf_s ws_end &&
    match body with
    | None => true
    | Some (children, ws2) =>
      wf_s ws2 && no_adjacent_text S children &&
      (fix all (l : list (item S)) : bool := match l with [] => true | c :: r => wf_item_s c && all r end) children
    end
  | IText r => wf_run M r
  | IComment _ | IPI _ _ _ => wf_misc_s i
  end.

(* [CstFull.wf_doc] with S *)
Definition wf_main_s (d : doc S) : bool :=
  wf_s (d_ws0 d) && wf_s (d_ws_end d) &&
  forallb (fun p => wf_misc_s (fst p) && wf_s (snd p)) (d_before d) &&
  match d_root d with IElem _ _ _ _ => wf_item_s (d_root d) | _ => false end &&
  forallb (fun p => wf_s (fst p) && wf_misc_s (snd p)) (d_after d) &&
  forallb (ns_ok []) (den M (d_root d)).
End FrameS.

(* ------------------------------------------------------------------------------------------ *)
(* the XML declaration                                                                        *)
(* ------------------------------------------------------------------------------------------ *)
(* one pseudo-attribute  S name Eq "value"; (R) the name is exactly the keyword ([r_pseudo]) *)
Record pseudo := {
  p_ws : bytes;          (* before the name (>= 1) *)
  p_ws1 : bytes;         (* before '=' *)
  p_ws2 : bytes;         (* after '=' *)
  p_quote : N;
  p_value : scalars      (* (L) not validated: "1.0", the encoding name, "yes" / "no" are not checked *)
}.
(* the pseudo-attributes come in the fixed order; version is mandatory *)
Record xmldecl := {
  xd_version : pseudo;
  xd_encoding : option pseudo;
  xd_standalone : option pseudo;
  xd_ws : bytes          (* before "?>" *)
}.

Definition kw_xml : bytes := [60; 63; 120; 109; 108].                            (* <?xml *)
Definition kw_version : bytes := [118; 101; 114; 115; 105; 111; 110].
Definition kw_encoding : bytes := [101; 110; 99; 111; 100; 105; 110; 103].
Definition kw_standalone : bytes := [115; 116; 97; 110; 100; 97; 108; 111; 110; 101].

Definition r_pseudo (name : bytes) (p : pseudo) : bytes :=
  p_ws p ++ name ++ p_ws1 p ++ [61] ++ p_ws2 p ++ [p_quote p] ++ utf8s (p_value p) ++ [p_quote p].
Definition r_opt {A} (f : A -> bytes) (o : option A) : bytes := match o with Some a => f a | None => [] end.
Definition r_xmldecl (x : xmldecl) : bytes :=
  kw_xml ++ r_pseudo kw_version (xd_version x) ++ r_opt (r_pseudo kw_encoding) (xd_encoding x)
  ++ r_opt (r_pseudo kw_standalone) (xd_standalone x) ++ xd_ws x ++ [63; 62].

(* (R) the value ends at the quote; '<' and non-Chars are refused *)
Definition wf_pseudo (p : pseudo) : bool :=
  wf_s1 (p_ws p) && wf_s (p_ws1 p) && wf_s (p_ws2 p) && is_quote (p_quote p) &&
  forallb (fun x => Chars.xml_Char x && negb (x =? p_quote p) && negb (x =? 60)) (p_value p).
Definition wf_opt {A} (f : A -> bool) (o : option A) : bool := match o with Some a => f a | None => true end.
Definition wf_xmldecl (x : xmldecl) : bool :=
  wf_pseudo (xd_version x) && wf_opt wf_pseudo (xd_encoding x) && wf_opt wf_pseudo (xd_standalone x)
  && wf_s (xd_ws x).

(* ------------------------------------------------------------------------------------------ *)
(* the DOCTYPE                                                                                *)
(* ------------------------------------------------------------------------------------------ *)
Definition kw_system : bytes := [83; 89; 83; 84; 69; 77].
Definition kw_public : bytes := [80; 85; 66; 76; 73; 67].
Definition kw_ndata : bytes := [78; 68; 65; 84; 65].
Definition kw_element : bytes := [60; 33; 69; 76; 69; 77; 69; 78; 84].           (* <!ELEMENT *)
Definition kw_attlist : bytes := [60; 33; 65; 84; 84; 76; 73; 83; 84].           (* <!ATTLIST *)
Definition kw_notation : bytes := [60; 33; 78; 79; 84; 65; 84; 73; 79; 78].      (* <!NOTATION *)

(* XML 1.0 [13] PubidChar ::= #x20 | #xD | #xA | [a-zA-Z0-9] | [-'()+,./:=?;!*#@$_%], transcribed
   from the recommendation (independent of the model's [CharClass.pubid_char]) *)
Definition pubid_punct : list N :=
  [45; 39; 40; 41; 43; 44; 46; 47; 58; 61; 63; 59; 33; 42; 35; 64; 36; 95; 37].   (* -'()+,./:=?;!*#@$_% *)
Definition xml_PubidChar (c : N) : bool :=
  (c =? 32) || (c =? 13) || (c =? 10) ||
  ((97 <=? c) && (c <=? 122)) || ((65 <=? c) && (c <=? 90)) || ((48 <=? c) && (c <=? 57)) ||
  existsb (N.eqb c) pubid_punct.

(* a quoted literal  q ... q  *)
Definition r_lit (q : N) (v : scalars) : bytes := [q] ++ utf8s v ++ [q].
(* [11] SystemLiteral: (R) Chars only, the quote ends the literal; the content is not read otherwise *)
Definition wf_syslit (q : N) (v : scalars) : bool :=
  is_quote q && forallb (fun x => Chars.xml_Char x && negb (x =? q)) v.
(* [12] PubidLiteral: (R) PubidChars only, the quote ends the literal (an apostrophe may stand
   inside a literal delimited by double quotes; a double quote is no PubidChar) *)
Definition wf_publit (q : N) (v : scalars) : bool :=
  is_quote q && forallb (fun x => xml_PubidChar x && negb (x =? q)) v.

Inductive extid :=
| XSystem (ws : bytes) (q : N) (sys : scalars)                                        (* SYSTEM S "sys" *)
| XPublic (ws : bytes) (q : N) (pub : scalars) (ws' : bytes) (q' : N) (sys : scalars).   (* PUBLIC S "pub" S "sys" *)
Definition r_extid (x : extid) : bytes :=
  match x with
  | XSystem ws q s => kw_system ++ ws ++ r_lit q s
  | XPublic ws q p ws' q' s => kw_public ++ ws ++ r_lit q p ++ ws' ++ r_lit q' s
  end.
Definition wf_extid (x : extid) : bool :=
  match x with
  | XSystem ws q s => wf_s1 ws && wf_syslit q s
  | XPublic ws q p ws' q' s => wf_s1 ws && wf_publit q p && wf_s1 ws' && wf_syslit q' s
  end.

(* the definition of a parameter entity *)
Inductive pedef := PLiteral (q : N) (v : scalars) | PExternal (x : extid).
Inductive mkind := MElement | MAttlist | MNotation.
Definition kw_of (k : mkind) : bytes :=
  match k with MElement => kw_element | MAttlist => kw_attlist | MNotation => kw_notation end.

(* what the internal subset is made of; [ws0] is the white space before the item *)
Inductive sdecl :=
| SEntity (e : E.edecl)                 (* <!ENTITY n "v">: a general internal entity, as in S3 *)
| SParam (ws0 ws1 wsp : bytes) (name : scalars) (ws2 : bytes) (def : pedef) (ws3 : bytes)
                                        (* <!ENTITY % n "v"> / <!ENTITY % n SYSTEM "s">: binds nothing *)
| SExternal (ws0 ws1 : bytes) (name : scalars) (ws2 : bytes) (x : extid)
            (ndata : option (bytes * bytes * scalars)) (ws3 : bytes)
                                        (* <!ENTITY n SYSTEM "s"> / ... NDATA m>: binds nothing *)
| SMarkup (ws0 : bytes) (k : mkind) (body : scalars)
                                        (* <!ELEMENT ...> <!ATTLIST ...> <!NOTATION ...>: skipped *)
| SMisc (ws0 : bytes) (i : item epieces).   (* a comment or a PI: a node, like anywhere else *)

Definition r_pedef (d : pedef) : bytes :=
  match d with PLiteral q v => r_lit q v | PExternal x => r_extid x end.
Definition r_ndata (n : bytes * bytes * scalars) : bytes :=
  fst (fst n) ++ kw_ndata ++ snd (fst n) ++ utf8s (snd n).
Definition r_sdecl (s : sdecl) : bytes :=
  match s with
  | SEntity e => E.r_decl (enc_decl e)
  | SParam ws0 ws1 wsp name ws2 def ws3 =>
    ws0 ++ E.kw_entity ++ ws1 ++ [37] ++ wsp ++ utf8s name ++ ws2 ++ r_pedef def ++ ws3 ++ [62]
  | SExternal ws0 ws1 name ws2 x ndata ws3 =>
    ws0 ++ E.kw_entity ++ ws1 ++ utf8s name ++ ws2 ++ r_extid x ++ r_opt r_ndata ndata ++ ws3 ++ [62]
  | SMarkup ws0 k body => ws0 ++ kw_of k ++ utf8s body ++ [62]
  | SMisc ws0 i => ws0 ++ r_item i
  end.

Record subset := {
  u_decls : list sdecl;
  u_ws3 : bytes;         (* before ']' *)
  u_ws4 : bytes          (* between ']' and '>' *)
}.
Record doctype := {
  t_ws1 : bytes;                      (* after "<!DOCTYPE" (>= 1) *)
  t_name : scalars;
  t_ws2 : bytes;                      (* after the name *)
  t_ext : option (extid * bytes);     (* the external identifier and the white space after it *)
  t_subset : option subset            (* None: <!DOCTYPE n> *)
}.
Definition r_subset (u : subset) : bytes :=
  [91] ++ flat_map r_sdecl (u_decls u) ++ u_ws3 u ++ [93] ++ u_ws4 u.
Definition r_doctype (t : doctype) : bytes :=
  E.kw_doctype ++ t_ws1 t ++ utf8s (t_name t) ++ t_ws2 t ++ r_opt (fun p => r_extid (fst p) ++ snd p) (t_ext t)
  ++ r_opt r_subset (t_subset t) ++ [62].

(* ---- well-formedness ---- *)
(* [CstFull.wf_udecl] with S *)
Definition wf_udecl_s (e : E.edecl) : bool :=
  wf_s (E.e_ws0 e) && wf_s1 (E.e_ws1 e) && CstU.wf_name (E.e_name e) && wf_s1 (E.e_ws2 e) &&
  is_quote (E.e_quote e) &&
  match E.e_value e with
  | E.EText ps =>          (* (R) the quote ends the literal; (F) '%' would be a parameter-entity reference *)
    forallb (fun x => negb (x =? E.e_quote e) && negb (x =? 37)) (E.r_epieces (enc_epieces ps))
    && wf_uepieces (E.e_quote e) false true true ps
  | E.EContent _ => false  (* (F) character-data entities only *)
  end && wf_s (E.e_ws3 e).

Definition wf_pedef (d : pedef) : bool :=
  match d with
  | PLiteral q v =>        (* (R) Chars only, the quote ends the literal; (L) never read: '%' '&' '<' are not looked at *)
    is_quote q && forallb (fun x => Chars.xml_Char x && negb (x =? q)) v
  | PExternal x => wf_extid x
  end.

(* the body of a skipped declaration (what stands between the keyword and the closing '>'): a
   sequence of characters other than '>' (62), the double quote (34), the apostrophe (39), and
   of quoted literals  q ... q  (q one of the two quotes) whose inside does not contain q -- it
   may contain '>' and the other quote.  State: outside a literal ([None]) / inside a literal
   opened by q ([Some q]); the body is accepted iff the scan ends outside. *)
Fixpoint decl_body_scan (st : option N) (l : scalars) : bool :=
  match l with
  | [] => match st with None => true | Some _ => false end
  | x :: t =>
    match st with
    | None => if x =? 62 then false
              else if (x =? 34) || (x =? 39) then decl_body_scan (Some x) t
              else decl_body_scan None t
    | Some q => if x =? q then decl_body_scan None t else decl_body_scan (Some q) t
    end
  end.
Definition decl_body_ok (l : scalars) : bool := decl_body_scan None l.

(* <!NOTATION n SYSTEM '>'>   <!ATTLIST a b CDATA ">">   the other quote inside a literal *)
Example decl_body_notation_gt : decl_body_ok [32; 110; 32; 83; 89; 83; 84; 69; 77; 32; 39; 62; 39] = true.
Proof. reflexivity. Qed.
Example decl_body_attlist_gt : decl_body_ok [32; 97; 32; 98; 32; 67; 68; 65; 84; 65; 32; 34; 62; 34] = true.
Proof. reflexivity. Qed.
Example decl_body_other_quote : decl_body_ok [32; 34; 39; 62; 34; 32; 39; 34; 39] = true.
Proof. reflexivity. Qed.
Example decl_body_empty : decl_body_ok [] = true.
Proof. reflexivity. Qed.
(* <!ELEMENT a (b')>: a single unbalanced quote;  a literal closed by the other quote;
   a '>' outside a literal *)
Example decl_body_unbalanced : decl_body_ok [32; 97; 32; 40; 98; 39; 41] = false.
Proof. reflexivity. Qed.
Example decl_body_wrong_close : decl_body_ok [32; 34; 120; 39] = false.
Proof. reflexivity. Qed.
Example decl_body_gt_outside : decl_body_ok [32; 97; 62; 32; 39; 120; 39] = false.
Proof. reflexivity. Qed.

Definition wf_sdecl (s : sdecl) : bool :=
  match s with
  | SEntity e => wf_udecl_s e
  | SParam ws0 ws1 wsp name ws2 def ws3 =>
    wf_s ws0 && wf_s1 ws1 && wf_s1 wsp && CstU.wf_name name && wf_s1 ws2 && wf_pedef def && wf_s ws3
  | SExternal ws0 ws1 name ws2 x ndata ws3 =>
    (* (R) NDataDecl ::= S 'NDATA' S Name: the white space before NDATA is mandatory *)
    wf_s ws0 && wf_s1 ws1 && CstU.wf_name name && wf_s1 ws2 && wf_extid x &&
    wf_opt (fun n => wf_s1 (fst (fst n)) && wf_s1 (snd (fst n)) && CstU.wf_name (snd n)) ndata && wf_s ws3
  | SMarkup ws0 k body =>  (* (L) the declaration is skipped whatever it contains, up to the first '>' that
                              is not inside a quoted literal; so (R) no '>' outside a literal, and every
                              literal is closed *)
    wf_s ws0 && forallb Chars.scalar body && decl_body_ok body
  | SMisc ws0 i => wf_s ws0 && wf_misc_s i
  end.

Definition wf_subset (u : subset) : bool :=
  forallb wf_sdecl (u_decls u) && wf_s (u_ws3 u) && wf_s (u_ws4 u).
Definition wf_doctype (t : doctype) : bool :=
  wf_s1 (t_ws1 t) && CstU.wf_name (t_name t) && wf_s (t_ws2 t) &&
  match t_ext t with
  | Some (x, w) => wf_s1 (t_ws2 t) && wf_extid x && wf_s w
  | None => true
  end && wf_opt wf_subset (t_subset t).

(* ---- what the DOCTYPE declares and what it contains ---- *)
Definition subset_decls (t : doctype) : list sdecl :=
  match t_subset t with Some u => u_decls u | None => [] end.
(* the general internal entity declarations, in order: the first one of a name binds it *)
Definition ge_decls (t : doctype) : list E.edecl :=
  flat_map (fun s => match s with SEntity e => [e] | _ => [] end) (subset_decls t).
(* the comments and PIs of the internal subset, in order *)
Definition subset_misc (t : doctype) : list (item epieces) :=
  flat_map (fun s => match s with SMisc _ i => [i] | _ => [] end) (subset_decls t).
(* the table of the declared entities, all references inside the values inlined (as [CstFull.table_of]) *)
Definition decls_table (ds : list E.edecl) : E.table := E.level (map enc_decl ds) E.max_level.

(* ------------------------------------------------------------------------------------------ *)
(* documents                                                                                  *)
(* ------------------------------------------------------------------------------------------ *)
Module S5.
  (* white space, comments / PIs, then the DOCTYPE *)
  Record dtd_part := {
    g_ws0 : bytes;
    g_before : list (item epieces * bytes);   (* each followed by white space *)
    g_dtd : doctype
  }.
  Record doc := {
    x_bom : bool;                             (* EF BB BF *)
    x_decl : option xmldecl;                  (* nothing, not even white space, may precede it but the BOM *)
    x_dtd : option dtd_part;
    x_main : CstFull.doc epieces              (* white space, comments / PIs, the root element, the epilog *)
  }.
  Definition has_dtd (d : doc) : bool := match x_dtd d with Some _ => true | None => false end.

  Definition bom : bytes := [239; 187; 191].
  Definition r_dtd_part (g : dtd_part) : bytes :=
    g_ws0 g ++ flat_map (fun p => r_item (fst p) ++ snd p) (g_before g) ++ r_doctype (g_dtd g).
  Definition render (d : doc) : bytes :=
    (if x_bom d then bom else []) ++ r_opt r_xmldecl (x_decl d) ++ r_opt r_dtd_part (x_dtd d)
    ++ CstFull.render (x_main d).

  (* without a DOCTYPE no entity is declared: a reference &n; is then not well-formed *)
  Definition table (d : doc) : E.table :=
    match x_dtd d with Some g => decls_table (ge_decls (g_dtd g)) | None => [] end.
  Definition meaning_of (d : doc) : meaning epieces := ents_meaning (table d).

  Definition wf_dtd_part (g : dtd_part) : bool :=
    wf_s (g_ws0 g) && forallb (fun p => wf_misc_s (fst p) && wf_s (snd p)) (g_before g) && wf_doctype (g_dtd g).
  Definition wf_doc (d : doc) : bool :=
    wf_opt wf_xmldecl (x_decl d) && wf_opt wf_dtd_part (x_dtd d) && wf_main_s epieces (meaning_of d) (x_main d).

  (* the comments and PIs of the prolog up to the DOCTYPE's '>', in document order *)
  Definition prolog_items (d : doc) : list (item epieces) :=
    match x_dtd d with Some g => map fst (g_before g) ++ subset_misc (g_dtd g) | None => [] end.
  Definition sem (d : doc) : list CstNs.vnode :=
    flat_map (CstNs.sem_item []) (flat_map (den (meaning_of d)) (prolog_items d))
    ++ CstFull.sem (meaning_of d) (x_main d).
  Definition distinct_decls_le (d : doc) (n : nat) : Prop := CstFull.distinct_decls_le (meaning_of d) (x_main d) n.
  Definition ns_cost (d : doc) : nat := CstFull.ns_cost (meaning_of d) (x_main d).

  (* ---- S3 inside S5 ---- *)
  Definition of_s3 (d : S3.doc) : doc :=
    {| x_bom := false; x_decl := None;
       x_dtd := Some {| g_ws0 := S3.x_ws0 d; g_before := S3.x_before d;
                        g_dtd := {| t_ws1 := E.t_ws1 (S3.x_dtd d); t_name := E.t_name (S3.x_dtd d);
                                    t_ws2 := E.t_ws2 (S3.x_dtd d); t_ext := None;
                                    t_subset := Some {| u_decls := map SEntity (E.t_decls (S3.x_dtd d));
                                                        u_ws3 := E.t_ws3 (S3.x_dtd d);
                                                        u_ws4 := E.t_ws4 (S3.x_dtd d) |} |} |};
       x_main := S3.x_main d |}.
End S5.
