(* Spec/Cst.v -- abstract documents with all layout choices, their rendering to bytes and their
   meaning as a tree (C03).  This file fixes a FRAGMENT of the supported subset, written down so
   that "the rendering of an abstract document parses to exactly its tree" can be stated and
   proved: ASCII names and ASCII content, no DOCTYPE, no references, no namespaces, no CR.
   Independent of the model. *)
From Coq Require Import List NArith Bool.
Import ListNotations.
Open Scope N_scope.

Definition bytes := list N.

(* ---- character classes of the fragment (all ASCII) ---- *)
Definition is_ws (x : N) : bool := (x =? 32) || (x =? 9) || (x =? 10).          (* SP TAB LF; no CR *)
Definition is_name_start (x : N) : bool :=
  ((65 <=? x) && (x <=? 90)) || ((97 <=? x) && (x <=? 122)) || (x =? 95).       (* A-Z a-z _ ; no ':' *)
Definition is_name_char (x : N) : bool :=
  is_name_start x || ((48 <=? x) && (x <=? 57)) || (x =? 45) || (x =? 46).      (* + 0-9 - . *)
(* printable ASCII or TAB / LF: the characters text, values, comments, PIs may contain *)
Definition is_plain (x : N) : bool := ((32 <=? x) && (x <? 127)) || (x =? 9) || (x =? 10).

Definition wf_name (n : bytes) : bool :=
  match n with
  | [] => false
  | x :: r => is_name_start x && forallb is_name_char r
  end.
Definition wf_ws (w : bytes) : bool := forallb is_ws w.
Definition wf_ws1 (w : bytes) : bool := match w with [] => false | _ => forallb is_ws w end.

Fixpoint contains (needle l : bytes) : bool :=
  let fix pre (p l : bytes) : bool :=
      match p, l with
      | [], _ => true
      | a :: p', c :: l' => (a =? c) && pre p' l'
      | _ :: _, [] => false
      end in
  match l with
  | [] => match needle with [] => true | _ => false end
  | _ :: r => pre needle l || contains needle r
  end.

(* ---- abstract syntax with layout ---- *)
Record attr := {
  a_ws : bytes;          (* whitespace before the attribute (>= 1) *)
  a_name : bytes;
  a_ws1 : bytes;         (* whitespace before '=' *)
  a_ws2 : bytes;         (* whitespace after '=' *)
  a_quote : N;           (* 39 or 34 *)
  a_value : bytes        (* plain, without '<' '&' the quote, TAB and LF *)
}.

Inductive item :=
| IElem (name : bytes) (attrs : list attr) (ws_end : bytes)   (* whitespace before '>' or '/>' *)
        (body : option (list item * bytes))                   (* None: <e/> ; Some (children, ws before the end tag's '>') *)
| IText (bs : bytes)                                          (* non-empty, plain, no '<' '&', no "]]>" *)
| IComment (bs : bytes)                                       (* plain, no "--", not ending in '-' *)
| IPI (target : bytes) (sep : bytes) (value : bytes).         (* value empty, or sep >= 1 and value starts with a non-space; no "?>" *)

Record doc := {
  d_before : list (item * bytes);   (* comments / PIs before the root element, each followed by whitespace *)
  d_ws0 : bytes;                    (* whitespace at the very start *)
  d_root : item;
  d_after : list (bytes * item);    (* whitespace, then a comment / PI *)
  d_ws_end : bytes
}.

(* ---- rendering ---- *)
Definition r_attr (a : attr) : bytes :=
  a_ws a ++ a_name a ++ a_ws1 a ++ [61] ++ a_ws2 a ++ [a_quote a] ++ a_value a ++ [a_quote a].

Fixpoint r_item (i : item) : bytes :=
  match i with
  | IElem name attrs ws_end body =>
    [60] ++ name ++ flat_map r_attr attrs ++ ws_end ++
    match body with
    | None => [47; 62]
    | Some (children, ws2) =>
      [62] ++ (fix go (l : list item) : bytes := match l with [] => [] | c :: r => r_item c ++ go r end) children
      ++ [60; 47] ++ name ++ ws2 ++ [62]
    end
  | IText bs => bs
  | IComment bs => [60; 33; 45; 45] ++ bs ++ [45; 45; 62]
  | IPI target sep value => [60; 63] ++ target ++ sep ++ value ++ [63; 62]
  end.

Definition render (d : doc) : bytes :=
  d_ws0 d ++ flat_map (fun p => r_item (fst p) ++ snd p) (d_before d) ++ r_item (d_root d)
  ++ flat_map (fun p => fst p ++ r_item (snd p)) (d_after d) ++ d_ws_end d.

(* ---- well-formedness of the fragment ---- *)
Definition wf_attr (a : attr) : bool :=
  wf_ws1 (a_ws a) && wf_name (a_name a) && wf_ws (a_ws1 a) && wf_ws (a_ws2 a) &&
  ((a_quote a =? 39) || (a_quote a =? 34)) &&
  forallb (fun x => is_plain x && negb (x =? 60) && negb (x =? 38) && negb (x =? a_quote a)
                    && negb (x =? 9) && negb (x =? 10)) (a_value a).

Fixpoint names_distinct (l : list bytes) : bool :=
  match l with
  | [] => true
  | n :: r => negb (existsb (fun m => if list_eq_dec N.eq_dec n m then true else false) r) && names_distinct r
  end.

Definition is_misc (i : item) : bool :=
  match i with IComment _ | IPI _ _ _ => true | _ => false end.
Definition is_text (i : item) : bool := match i with IText _ => true | _ => false end.

Fixpoint no_adjacent_text (l : list item) : bool :=
  match l with
  | a :: ((c :: _) as r) => negb (is_text a && is_text c) && no_adjacent_text r
  | _ => true
  end.

(* a PI target must not be "xml" (the source would read as a misplaced XML declaration) *)
Definition prefix_is_xml (t : bytes) : bool :=
  match t with
  | [120; 109; 108] => true
  | _ => false
  end.

Fixpoint wf_item (i : item) : bool :=
  match i with
  | IElem name attrs ws_end body =>
    wf_name name && negb (if list_eq_dec N.eq_dec name [120; 109; 108; 110; 115] then true else false) (* not "xmlns" *)
    && forallb wf_attr attrs
    && forallb (fun a => negb (if list_eq_dec N.eq_dec (a_name a) [120; 109; 108; 110; 115] then true else false)) attrs
    && names_distinct (map a_name attrs) && wf_ws ws_end &&
    match body with
    | None => true
    | Some (children, ws2) =>
      wf_ws ws2 && no_adjacent_text children &&
      (fix all (l : list item) : bool := match l with [] => true | c :: r => wf_item c && all r end) children
    end
  | IText bs =>
    match bs with [] => false | _ => true end &&
    forallb (fun x => is_plain x && negb (x =? 60) && negb (x =? 38)) bs && negb (contains [93; 93; 62] bs)
  | IComment bs =>
    forallb is_plain bs && negb (contains [45; 45] bs) &&
    match rev bs with x :: _ => negb (x =? 45) | [] => true end
  | IPI target sep value =>
    wf_name target && wf_ws sep && forallb is_plain value && negb (contains [63; 62] value) &&
    negb (prefix_is_xml target) &&
    match value with
    | [] => true
    | x :: _ => negb (is_ws x) && match sep with [] => false | _ => true end
    end
  end.

Definition wf_doc (d : doc) : bool :=
  wf_ws (d_ws0 d) && wf_ws (d_ws_end d) &&
  forallb (fun p => is_misc (fst p) && wf_item (fst p) && wf_ws (snd p)) (d_before d) &&
  match d_root d with IElem _ _ _ _ => wf_item (d_root d) | _ => false end &&
  forallb (fun p => wf_ws (fst p) && is_misc (snd p) && wf_item (snd p)) (d_after d).

(* ---- meaning: the tree the document denotes, in pre-order ---- *)
Inductive vnode :=
| VElem (name : bytes) (attrs : list (bytes * bytes)) (nchildren : nat)
| VText (bs : bytes)
| VComment (bs : bytes)
| VPI (target : bytes) (value : option bytes).

Fixpoint sem_item (i : item) : list vnode :=
  match i with
  | IElem name attrs _ body =>
    match body with
    | None => [VElem name (map (fun a => (a_name a, a_value a)) attrs) 0]
    | Some (children, _) =>
      VElem name (map (fun a => (a_name a, a_value a)) attrs) (length children)
      :: (fix go (l : list item) : list vnode := match l with [] => [] | c :: r => sem_item c ++ go r end) children
    end
  | IText bs => [VText bs]
  | IComment bs => [VComment bs]
  | IPI target _ value => [VPI target (match value with [] => None | _ => Some value end)]
  end.

(* the nodes below the Root node, in document order *)
Definition sem (d : doc) : list vnode :=
  flat_map (fun p => sem_item (fst p)) (d_before d) ++ sem_item (d_root d)
  ++ flat_map (fun p => sem_item (snd p)) (d_after d).
