(* Spec/Scope.v -- Namespaces in XML 1.0: in-scope bindings and name resolution (C06).
   A binding is (prefix, uri); prefix None is the default namespace. *)
From Coq Require Import List NArith Bool.
Import ListNotations.
Open Scope N_scope.

Definition bytes := list N.
Definition binding := (option bytes * bytes)%type.

Fixpoint bytes_eqb (x y : bytes) : bool :=
  match x, y with
  | [], [] => true
  | a :: x', c :: y' => (a =? c) && bytes_eqb x' y'
  | _, _ => false
  end.
Definition prefix_eqb (x y : option bytes) : bool :=
  match x, y with
  | None, None => true
  | Some u, Some v => bytes_eqb u v
  | _, _ => false
  end.

(* the scope of an element: its own declarations, then the inherited bindings whose prefix
   it does not re-declare (order: own in source order, inherited in the parent's order) *)
Definition scope_of (own inherited : list binding) : list binding :=
  own ++ filter (fun b => negb (existsb (fun o => prefix_eqb (fst o) (fst b)) own)) inherited.

(* first binding of a prefix *)
Fixpoint lookup (sc : list binding) (p : option bytes) : option bytes :=
  match sc with
  | [] => None
  | b :: r => if prefix_eqb (fst b) p then Some (snd b) else lookup r p
  end.

Definition xml_uri : bytes :=
  [104; 116; 116; 112; 58; 47; 47; 119; 119; 119; 46; 119; 51; 46; 111; 114; 103; 47; 88; 77; 76;
   47; 49; 57; 57; 56; 47; 110; 97; 109; 101; 115; 112; 97; 99; 101].
Definition xml_prefix : bytes := [120; 109; 108].

Inductive resolved := Unbound | NoNamespace | InNamespace (uri : bytes).

(* an element name: prefix "" = unprefixed *)
Definition resolve_elem (sc : list binding) (prefix : bytes) : resolved :=
  if bytes_eqb prefix xml_prefix then InNamespace xml_uri
  else match prefix with
       | [] => match lookup sc None with Some u => InNamespace u | None => NoNamespace end
       | _ => match lookup sc (Some prefix) with Some u => InNamespace u | None => Unbound end
       end.

(* an attribute name: unprefixed attributes are in no namespace *)
Definition resolve_attr (sc : list binding) (prefix : bytes) : resolved :=
  if bytes_eqb prefix xml_prefix then InNamespace xml_uri
  else match prefix with
       | [] => NoNamespace
       | _ => match lookup sc (Some prefix) with Some u => InNamespace u | None => Unbound end
       end.

(* at most one entry per prefix *)
Fixpoint prefixes_unique (sc : list binding) : bool :=
  match sc with
  | [] => true
  | b :: r => negb (existsb (fun o => prefix_eqb (fst o) (fst b)) r) && prefixes_unique r
  end.
