(* Spec/Detector.v -- traces of entity expansion and the documented limits (C09). *)
From Coq Require Import List NArith Bool.
Import ListNotations.
Open Scope N_scope.

(* Enter = a reference to an entity is about to be expanded; Exit = its expansion is complete *)
Inductive lop := Enter | Exit.

(* nesting depth after a trace prefix, None if an Exit has no matching Enter *)
Fixpoint depth_after (d : N) (tr : list lop) : option N :=
  match tr with
  | [] => Some d
  | Enter :: r => depth_after (d + 1) r
  | Exit :: r => if d =? 0 then None else depth_after (d - 1) r
  end.

(* the trace respects the limits: at every Enter the depth before it is < max_depth, and the
   number of Enters made at depth >= 1 since the depth was last 0 is <= max_refs *)
Fixpoint within_limits (max_depth max_refs : N) (d refs : N) (tr : list lop) : bool :=
  match tr with
  | [] => true
  | Enter :: r =>
    (d <? max_depth) &&
    (if d =? 0 then within_limits max_depth max_refs (d + 1) refs r
     else (refs <? max_refs) && within_limits max_depth max_refs (d + 1) (refs + 1) r)
  | Exit :: r =>
    if d =? 0 then false
    else within_limits max_depth max_refs (d - 1) (if d - 1 =? 0 then 0 else refs) r
  end.
