(* Builder.v -- parse.rs:351-1346: Context (the XmlEvents callback), append_*, process_*,
   resolve_*, LoopDetector, TextBuffer, normalize_attribute; lib.rs: Namespaces::push_ns/push_ref/exists. *)
From Coq Require Import Ascii String.
From RX Require Import Generated.
From RX.Model Require Import Base CharClass Stream Tokenizer Doc.

Record options := { allow_dtd : bool; nodes_limit : N }.

Record temp_attr := {
  ta_prefix : slice; ta_local : slice; ta_value : storage;
  ta_range : range; ta_qname_len : N; ta_eq_len : N
}.

Record entity := { en_name : slice; en_value : slice }.

Record tag_name_span := { tn_prefix : slice; tn_name : slice; tn_pos : N; tn_prefix_pos : N }.
Definition empty_slice : slice := {| sl_start := 0; sl_end := 0 |}.
Definition tag_name_null : tag_name_span :=
  {| tn_prefix := empty_slice; tn_name := empty_slice; tn_pos := 0; tn_prefix_pos := 0 |}.

(* LoopDetector *)
Record loop_detector := { ld_depth : N; ld_references : N }.
Definition ld_init : loop_detector := {| ld_depth := 0; ld_references := 0 |}.

(* Cow<'input, str> *)
Inductive cow := CowBorrowed (s : slice) | CowOwned (bs : bytes).

Record context := {
  c_opt : options;
  c_ns_start_idx : N;
  c_cur_attrs : list temp_attr;
  c_awaiting : list N;
  c_parent_prefixes : list slice;
  c_entities : list entity;
  c_after_text : list cow;
  c_parent_id : N;
  c_tag_name : tag_name_span;
  c_entity_floor : N;
  c_ld : loop_detector;
  c_doc : document
}.

(* record updates, written out *)
Definition set_doc (c : context) (d : document) : context :=
  {| c_opt := c_opt c; c_ns_start_idx := c_ns_start_idx c; c_cur_attrs := c_cur_attrs c;
     c_awaiting := c_awaiting c; c_parent_prefixes := c_parent_prefixes c;
     c_entities := c_entities c; c_after_text := c_after_text c; c_parent_id := c_parent_id c;
     c_tag_name := c_tag_name c; c_entity_floor := c_entity_floor c; c_ld := c_ld c; c_doc := d |}.
Definition set_ns_start_idx (c : context) (v : N) : context :=
  {| c_opt := c_opt c; c_ns_start_idx := v; c_cur_attrs := c_cur_attrs c;
     c_awaiting := c_awaiting c; c_parent_prefixes := c_parent_prefixes c;
     c_entities := c_entities c; c_after_text := c_after_text c; c_parent_id := c_parent_id c;
     c_tag_name := c_tag_name c; c_entity_floor := c_entity_floor c; c_ld := c_ld c; c_doc := c_doc c |}.
Definition set_cur_attrs (c : context) (v : list temp_attr) : context :=
  {| c_opt := c_opt c; c_ns_start_idx := c_ns_start_idx c; c_cur_attrs := v;
     c_awaiting := c_awaiting c; c_parent_prefixes := c_parent_prefixes c;
     c_entities := c_entities c; c_after_text := c_after_text c; c_parent_id := c_parent_id c;
     c_tag_name := c_tag_name c; c_entity_floor := c_entity_floor c; c_ld := c_ld c; c_doc := c_doc c |}.
Definition set_awaiting (c : context) (v : list N) : context :=
  {| c_opt := c_opt c; c_ns_start_idx := c_ns_start_idx c; c_cur_attrs := c_cur_attrs c;
     c_awaiting := v; c_parent_prefixes := c_parent_prefixes c;
     c_entities := c_entities c; c_after_text := c_after_text c; c_parent_id := c_parent_id c;
     c_tag_name := c_tag_name c; c_entity_floor := c_entity_floor c; c_ld := c_ld c; c_doc := c_doc c |}.
Definition set_parent_prefixes (c : context) (v : list slice) : context :=
  {| c_opt := c_opt c; c_ns_start_idx := c_ns_start_idx c; c_cur_attrs := c_cur_attrs c;
     c_awaiting := c_awaiting c; c_parent_prefixes := v;
     c_entities := c_entities c; c_after_text := c_after_text c; c_parent_id := c_parent_id c;
     c_tag_name := c_tag_name c; c_entity_floor := c_entity_floor c; c_ld := c_ld c; c_doc := c_doc c |}.
Definition set_entities (c : context) (v : list entity) : context :=
  {| c_opt := c_opt c; c_ns_start_idx := c_ns_start_idx c; c_cur_attrs := c_cur_attrs c;
     c_awaiting := c_awaiting c; c_parent_prefixes := c_parent_prefixes c;
     c_entities := v; c_after_text := c_after_text c; c_parent_id := c_parent_id c;
     c_tag_name := c_tag_name c; c_entity_floor := c_entity_floor c; c_ld := c_ld c; c_doc := c_doc c |}.
Definition set_after_text (c : context) (v : list cow) : context :=
  {| c_opt := c_opt c; c_ns_start_idx := c_ns_start_idx c; c_cur_attrs := c_cur_attrs c;
     c_awaiting := c_awaiting c; c_parent_prefixes := c_parent_prefixes c;
     c_entities := c_entities c; c_after_text := v; c_parent_id := c_parent_id c;
     c_tag_name := c_tag_name c; c_entity_floor := c_entity_floor c; c_ld := c_ld c; c_doc := c_doc c |}.
Definition set_parent_id (c : context) (v : N) : context :=
  {| c_opt := c_opt c; c_ns_start_idx := c_ns_start_idx c; c_cur_attrs := c_cur_attrs c;
     c_awaiting := c_awaiting c; c_parent_prefixes := c_parent_prefixes c;
     c_entities := c_entities c; c_after_text := c_after_text c; c_parent_id := v;
     c_tag_name := c_tag_name c; c_entity_floor := c_entity_floor c; c_ld := c_ld c; c_doc := c_doc c |}.
Definition set_tag_name (c : context) (v : tag_name_span) : context :=
  {| c_opt := c_opt c; c_ns_start_idx := c_ns_start_idx c; c_cur_attrs := c_cur_attrs c;
     c_awaiting := c_awaiting c; c_parent_prefixes := c_parent_prefixes c;
     c_entities := c_entities c; c_after_text := c_after_text c; c_parent_id := c_parent_id c;
     c_tag_name := v; c_entity_floor := c_entity_floor c; c_ld := c_ld c; c_doc := c_doc c |}.
Definition set_entity_floor (c : context) (v : N) : context :=
  {| c_opt := c_opt c; c_ns_start_idx := c_ns_start_idx c; c_cur_attrs := c_cur_attrs c;
     c_awaiting := c_awaiting c; c_parent_prefixes := c_parent_prefixes c;
     c_entities := c_entities c; c_after_text := c_after_text c; c_parent_id := c_parent_id c;
     c_tag_name := c_tag_name c; c_entity_floor := v; c_ld := c_ld c; c_doc := c_doc c |}.
Definition set_ld (c : context) (v : loop_detector) : context :=
  {| c_opt := c_opt c; c_ns_start_idx := c_ns_start_idx c; c_cur_attrs := c_cur_attrs c;
     c_awaiting := c_awaiting c; c_parent_prefixes := c_parent_prefixes c;
     c_entities := c_entities c; c_after_text := c_after_text c; c_parent_id := c_parent_id c;
     c_tag_name := c_tag_name c; c_entity_floor := c_entity_floor c; c_ld := v; c_doc := c_doc c |}.

Definition set_nodes (d : document) (v : list node_data) : document :=
  {| d_nodes := v; d_attrs := d_attrs d; d_ns_values := d_ns_values d; d_ns_tree := d_ns_tree d |}.
Definition set_attrs (d : document) (v : list attr_data) : document :=
  {| d_nodes := d_nodes d; d_attrs := v; d_ns_values := d_ns_values d; d_ns_tree := d_ns_tree d |}.

Definition nd_set_prev (nd : node_data) (v : option N) : node_data :=
  {| nd_parent := nd_parent nd; nd_prev_sibling := v; nd_next_subtree := nd_next_subtree nd;
     nd_last_child := nd_last_child nd; nd_kind := nd_kind nd; nd_range := nd_range nd |}.
Definition nd_set_next_subtree (nd : node_data) (v : option N) : node_data :=
  {| nd_parent := nd_parent nd; nd_prev_sibling := nd_prev_sibling nd; nd_next_subtree := v;
     nd_last_child := nd_last_child nd; nd_kind := nd_kind nd; nd_range := nd_range nd |}.
Definition nd_set_last_child (nd : node_data) (v : option N) : node_data :=
  {| nd_parent := nd_parent nd; nd_prev_sibling := nd_prev_sibling nd;
     nd_next_subtree := nd_next_subtree nd; nd_last_child := v; nd_kind := nd_kind nd;
     nd_range := nd_range nd |}.
Definition nd_set_kind (nd : node_data) (v : node_kind) : node_data :=
  {| nd_parent := nd_parent nd; nd_prev_sibling := nd_prev_sibling nd;
     nd_next_subtree := nd_next_subtree nd; nd_last_child := nd_last_child nd; nd_kind := v;
     nd_range := nd_range nd |}.
Definition nd_set_range_end (nd : node_data) (e : N) : node_data :=
  {| nd_parent := nd_parent nd; nd_prev_sibling := nd_prev_sibling nd;
     nd_next_subtree := nd_next_subtree nd; nd_last_child := nd_last_child nd;
     nd_kind := nd_kind nd; nd_range := (fst (nd_range nd), e) |}.

(* nodes[i] = f(nodes[i]); panics when i is out of range *)
Definition upd_node (nodes : list node_data) (i : N) (f : node_data -> node_data)
  : res (list node_data) :=
  match list_upd nodes (N.to_nat i) f with Some l => Ok l | None => Panic P_index end.

Fixpoint set_next_subtree_all (nodes : list node_data) (ids : list N) (v : N)
  : res (list node_data) :=
  match ids with
  | [] => Ok nodes
  | i :: r =>
    let! nodes := upd_node nodes i (fun nd => nd_set_next_subtree nd (Some v)) in
    set_next_subtree_all nodes r v
  end.

Section WithText.
Variable text : bytes.

Notation stream := Stream.stream.

(* ShortRange::from(Range<usize>): debug_assert!(.. <= u32::MAX); `as u32` *)
Definition short_range (a e : N) : res range :=
  if (u32_max <? a) || (u32_max <? e) then Panic P_debug_assert else Ok (a, e).

(* ---- LoopDetector ---- *)
Definition inc_depth (s : stream) (ld : loop_detector) : res loop_detector :=
  if ld_depth ld <? ld_max_depth then
    Ok {| ld_depth := ld_depth ld + 1; ld_references := ld_references ld |}
  else err_at text s EntityReferenceLoop.

Definition dec_depth (ld : loop_detector) : loop_detector :=
  let d := if 0 <? ld_depth ld then ld_depth ld - 1 else ld_depth ld in
  {| ld_depth := d; ld_references := if d =? 0 then 0 else ld_references ld |}.

Definition inc_references (s : stream) (ld : loop_detector) : res loop_detector :=
  if ld_depth ld =? 0 then Ok ld
  else if ld_references ld =? ld_max_refs then err_at text s EntityReferenceLoop
  else Ok {| ld_depth := ld_depth ld; ld_references := ld_references ld + 1 |}.

(* ---- TextBuffer ---- *)
Record text_buffer := { tb_buf : bytes; tb_pending_cr : bool }.
Definition tb_new : text_buffer := {| tb_buf := []; tb_pending_cr := false |}.

Definition tb_flush (t : text_buffer) : text_buffer :=
  if tb_pending_cr t then {| tb_buf := tb_buf t ++ [10]; tb_pending_cr := false |} else t.

Definition tb_push_raw (x : N) (t : text_buffer) : text_buffer :=
  let t := tb_flush t in {| tb_buf := tb_buf t ++ [x]; tb_pending_cr := false |}.

Definition tb_push_from_attr (current : N) (next : option N) (t : text_buffer) : text_buffer :=
  if (current =? 13) && match next with Some y => y =? 10 | None => false end then t
  else
    let cur := if (current =? 10) || (current =? 13) || (current =? 9) then 32 else current in
    {| tb_buf := tb_buf t ++ [cur]; tb_pending_cr := tb_pending_cr t |}.

Definition tb_push_from_text (x : N) (t : text_buffer) : text_buffer :=
  let '(t, done) :=
    if tb_pending_cr t then
      ({| tb_buf := tb_buf t ++ [10]; tb_pending_cr := false |}, x =? 10)
    else (t, false) in
  if done then t
  else if x =? 13 then {| tb_buf := tb_buf t; tb_pending_cr := true |}
  else {| tb_buf := tb_buf t ++ [x]; tb_pending_cr := tb_pending_cr t |}.

Definition tb_is_empty (t : text_buffer) : bool :=
  match tb_buf t with [] => negb (tb_pending_cr t) | _ => false end.

(* finish: String::from_utf8(..).unwrap() *)
Definition tb_finish (t : text_buffer) : res bytes :=
  let t := tb_flush t in
  if valid_utf8_b (tb_buf t) then Ok (tb_buf t) else Panic P_unwrap.

(* ---- Namespaces ---- *)
Definition opt_str_eqb (x y : option bytes) : bool :=
  match x, y with
  | None, None => true
  | Some u, Some v => bytes_eqb u v
  | _, _ => false
  end.

Definition ns_name_bytes (n : namespace) : option bytes :=
  match ns_name n with Some s => Some (str_bytes text s) | None => None end.

(* index of the first value with the same (name, uri) *)
Fixpoint find_ns (vals : list namespace) (name : option bytes) (uri : bytes) (i : N) : option N :=
  match vals with
  | [] => None
  | v :: r =>
    if opt_str_eqb (ns_name_bytes v) name && bytes_eqb (storage_bytes text (ns_uri v)) uri
    then Some i else find_ns r name uri (i + 1)
  end.

Definition push_ns (name : option str) (uri : storage) (d : document) : res document :=
  let nb := match name with Some s => Some (str_bytes text s) | None => None end in
  match find_ns (d_ns_values d) nb (storage_bytes text uri) 0 with
  | Some idx =>
    Ok {| d_nodes := d_nodes d; d_attrs := d_attrs d; d_ns_values := d_ns_values d;
          d_ns_tree := d_ns_tree d ++ [idx] |}
  | None =>
    if ns_values_limit <? len_N (d_ns_values d) then Err NamespacesLimitReached
    else
      let idx := len_N (d_ns_values d) in
      Ok {| d_nodes := d_nodes d; d_attrs := d_attrs d;
            d_ns_values := d_ns_values d ++ [{| ns_name := name; ns_uri := uri |}];
            d_ns_tree := d_ns_tree d ++ [idx] |}
  end.

Definition push_ref (tree_idx : N) (d : document) : res document :=
  match nth_N (d_ns_tree d) tree_idx with
  | Some idx =>
    Ok {| d_nodes := d_nodes d; d_attrs := d_attrs d; d_ns_values := d_ns_values d;
          d_ns_tree := d_ns_tree d ++ [idx] |}
  | None => Panic P_index
  end.

(* the prefix of values[idx] *)
Definition ns_prefix_at (d : document) (idx : N) : res (option bytes) :=
  match nth_N (d_ns_values d) idx with
  | Some v => Ok (ns_name_bytes v)
  | None => Panic P_index
  end.

Fixpoint any_prefix (d : document) (idxs : list N) (prefix : option bytes) : res bool :=
  match idxs with
  | [] => Ok false
  | i :: r =>
    let! p := ns_prefix_at d i in
    if opt_str_eqb p prefix then Ok true else any_prefix d r prefix
  end.

(* Namespaces::exists(start, prefix): tree_order[start..] *)
Definition ns_exists (d : document) (start : N) (prefix : option bytes) : res bool :=
  if len_N (d_ns_tree d) <? start then Panic P_slice
  else any_prefix d (skipn (N.to_nat start) (d_ns_tree d)) prefix.

(* ---- append_node, append_text, merge_text, reset_after_text ---- *)
Definition append_node (kind : node_kind) (r : range) (c : context) : res (N * context) :=
  let d := c_doc c in
  let n := len_N (d_nodes d) in
  if nodes_limit (c_opt c) <=? n then Err NodesLimitReached else
  (* NodeId::from(usize): debug_assert!(id <= u32::MAX); NodeId::new: debug_assert!(id < u32::MAX) *)
  let! new_id := node_id_new n in
  let nodes := d_nodes d ++ [{| nd_parent := Some (c_parent_id c); nd_prev_sibling := None;
                                nd_next_subtree := None; nd_last_child := None;
                                nd_kind := kind; nd_range := r |}] in
  let! pnd := match nth_N nodes (c_parent_id c) with Some x => Ok x | None => Panic P_index end in
  let last_child_id := nd_last_child pnd in
  let! nodes := upd_node nodes new_id (fun nd => nd_set_prev nd last_child_id) in
  let! nodes := upd_node nodes (c_parent_id c) (fun nd => nd_set_last_child nd (Some new_id)) in
  let! nodes := set_next_subtree_all nodes (c_awaiting c) new_id in
  let aw := if is_element_kind kind then [] else [new_id] in
  Ok (new_id, set_awaiting (set_doc c (set_nodes d nodes)) aw).

Definition cow_bytes (x : cow) : bytes :=
  match x with CowBorrowed s => slice_bytes text s | CowOwned bs => bs end.

Definition append_text (t : cow) (r : range) (c : context) : res context :=
  let! c :=
    match c_after_text c with
    | [] =>
      let st := match t with
                | CowBorrowed s => Borrowed (SIn s)
                | CowOwned bs => Owned bs
                end in
      let! (_, c) := append_node (KText st) r c in Ok c
    | _ => Ok c
    end in
  Ok (set_after_text c (c_after_text c ++ [t])).

Definition merge_text (c : context) : res context :=
  let d := c_doc c in
  match rev (d_nodes d) with
  | [] => Panic P_unwrap
  | nd :: _ =>
    match nd_kind nd with
    | KText _ =>
      let joined := concat (map cow_bytes (c_after_text c)) in
      let! nodes := upd_node (d_nodes d) (len_N (d_nodes d) - 1)
                             (fun nd => nd_set_kind nd (KText (Owned joined))) in
      Ok (set_doc c (set_nodes d nodes))
    | _ => Panic P_unreachable
    end
  end.

Definition reset_after_text (c : context) : res context :=
  match c_after_text c with
  | [] => Ok c
  | [_] => Ok (set_after_text c [])
  | _ => let! c := merge_text c in Ok (set_after_text c [])
  end.

(* ---- get_ns_idx_by_prefix ---- *)
Fixpoint find_prefix_idx (d : document) (idxs : list N) (prefix : option bytes) : res (option N) :=
  match idxs with
  | [] => Ok None
  | i :: r =>
    let! p := ns_prefix_at d i in
    if opt_str_eqb p prefix then Ok (Some i) else find_prefix_idx d r prefix
  end.

Definition ns_range_slice (d : document) (nss : range) : res (list N) :=
  let '(a, e) := nss in
  if (e <? a) || (len_N (d_ns_tree d) <? e) then Panic P_slice
  else Ok (firstn (N.to_nat (e - a)) (skipn (N.to_nat a) (d_ns_tree d))).

Definition get_ns_idx_by_prefix (nss : range) (prefix_pos : N) (prefix : slice) (d : document)
  : res (option N) :=
  let pb := slice_bytes text prefix in
  if bytes_eqb pb ns_xml_prefix then Ok (Some 0) else
  let prefix_opt := match pb with [] => None | _ => Some pb end in
  let! idxs := ns_range_slice d nss in
  let! found := find_prefix_idx d idxs prefix_opt in
  match found with
  | Some i => Ok (Some i)
  | None =>
    match pb with
    | [] => Ok None
    | _ => err_from text prefix_pos (UnknownNamespace pb)
    end
  end.

(* ---- resolve_namespaces ---- *)
Fixpoint resolve_ns_loop (start_idx : N) (is : list N) (d : document) : res document :=
  match is with
  | [] => Ok d
  | i :: r =>
    let! vidx := match nth_N (d_ns_tree d) i with Some x => Ok x | None => Panic P_index end in
    let! name := ns_prefix_at d vidx in
    let! ex := ns_exists d start_idx name in
    let! d := if ex then Ok d else push_ref i d in
    resolve_ns_loop start_idx r d
  end.

Fixpoint N_range (a : N) (n : nat) : list N :=
  match n with O => [] | S m => a :: N_range (a + 1) m end.

(* the range [start, len) of the tree order as a ShortRange; the list may not have more than
   u32::MAX entries (NamespacesLimitReached otherwise) *)
Definition ns_range_checked (start len : N) : res range :=
  if u32_max <? len then Err NamespacesLimitReached else Ok (start, len).

Definition resolve_namespaces (c : context) : res (range * context) :=
  let d := c_doc c in
  let! pnd := match nth_N (d_nodes d) (c_parent_id c) with Some x => Ok x | None => Panic P_index end in
  match nd_kind pnd with
  | KElement _ _ _ parent_ns =>
    if c_ns_start_idx c =? len_N (d_ns_tree d) then Ok (parent_ns, c)
    else
      let '(pa, pe) := parent_ns in
      let! d := resolve_ns_loop (c_ns_start_idx c) (N_range pa (N.to_nat (pe - pa))) d in
      let! r := ns_range_checked (c_ns_start_idx c) (len_N (d_ns_tree d)) in
      Ok (r, set_doc c d)
  | _ =>
    let! r := ns_range_checked (c_ns_start_idx c) (len_N (d_ns_tree d)) in Ok (r, c)
  end.

(* ---- resolve_attributes ---- *)
Definition attr_expanded_name (d : document) (ns_idx : option N) (local : slice)
  : res (option bytes * bytes) :=
  match ns_idx with
  | None => Ok (None, slice_bytes text local)
  | Some i =>
    match nth_N (d_ns_values d) i with
    | Some v => Ok (Some (storage_bytes text (ns_uri v)), slice_bytes text local)
    | None => Panic P_index
    end
  end.

Fixpoint any_same_name (d : document) (l : list attr_data) (name : option bytes * bytes) : res bool :=
  match l with
  | [] => Ok false
  | a :: r =>
    let! n := attr_expanded_name d (ad_ns_idx a) (ad_local a) in
    if opt_str_eqb (fst n) (fst name) && bytes_eqb (snd n) (snd name) then Ok true
    else any_same_name d r name
  end.

Fixpoint resolve_attrs_loop (nss : range) (start_idx : N) (l : list temp_attr) (d : document)
  : res document :=
  match l with
  | [] => Ok d
  | a :: r =>
    let pb := slice_bytes text (ta_prefix a) in
    let! ns_idx :=
      if bytes_eqb pb ns_xml_prefix then Ok (Some 0)
      else match pb with
           | [] => Ok None
           | _ => get_ns_idx_by_prefix nss (fst (ta_range a)) (ta_prefix a) d
           end in
    let! name := attr_expanded_name d ns_idx (ta_local a) in
    let! dup := any_same_name d (skipn (N.to_nat start_idx) (d_attrs d)) name in
    if dup then err_from text (fst (ta_range a)) (DuplicatedAttribute (slice_bytes text (ta_local a)))
    else
      let d := set_attrs d (d_attrs d ++ [{| ad_ns_idx := ns_idx; ad_local := ta_local a;
                                             ad_value := ta_value a; ad_range := ta_range a;
                                             ad_qname_len := ta_qname_len a;
                                             ad_eq_len := ta_eq_len a |}]) in
      resolve_attrs_loop nss start_idx r d
  end.

Definition resolve_attributes (nss : range) (c : context) : res (range * context) :=
  match c_cur_attrs c with
  | [] => Ok ((0, 0), c)
  | l =>
    let d := c_doc c in
    if u32_max <=? len_N (d_attrs d) + len_N l then Err AttributesLimitReached else
    let start_idx := len_N (d_attrs d) in
    (* current_attributes.drain(..): the vector is emptied even if the loop returns early *)
    let c := set_cur_attrs c [] in
    let! d := resolve_attrs_loop nss start_idx l d in
    let! r := short_range start_idx (len_N (d_attrs d)) in
    Ok (r, set_doc c d)
  end.

(* ---- normalize_attribute / _normalize_attribute ---- *)
Fixpoint find_entity (es : list entity) (name : bytes) : option entity :=
  match es with
  | [] => None
  | e :: r => if bytes_eqb (slice_bytes text (en_name e)) name then Some e else find_entity r name
  end.

Fixpoint push_char_bytes_attr (bs : bytes) (in_entity : bool) (t : text_buffer) : option text_buffer :=
  match bs with
  | [] => Some t
  | x :: r =>
    if in_entity then
      if x =? 60 then None
      else push_char_bytes_attr r in_entity (tb_push_from_attr x None t)
    else push_char_bytes_attr r in_entity (tb_push_raw x t)
  end.

(* lvl: one unit per nested entity; the loop detector refuses the 11th level *)
Fixpoint norm_attr_lvl (lvl : nat) (entities : list entity) (value : slice)
         (t : text_buffer) (ld : loop_detector) {struct lvl} : res (text_buffer * loop_detector) :=
  match lvl with
  | O => OutOfFuel
  | S lvl' =>
    let! s0 := stream_from_substr text (sl_start value) (sl_end value) in
    (fix loop (fuel : nat) (s : stream) (t : text_buffer) (ld : loop_detector) {struct fuel}
       : res (text_buffer * loop_detector) :=
       match fuel with
       | O => OutOfFuel
       | S fu =>
         if at_end s then Ok (t, ld) else
         let! x := curr_byte_unchecked s in
         if negb (x =? 38) then
           if (x =? 60) && (0 <? ld_depth ld) then err_at text s InvalidAttributeValue
           else
             let! s := advance 1 s in
             loop fu s (tb_push_from_attr x (curr_byte_opt s) t) ld
         else
           let start := s_pos s in
           let! r := consume_reference text s in
           match r with
           | Some (RefChar ch, s) =>
             match push_char_bytes_attr (encode_utf8 ch) (0 <? ld_depth ld) t with
             | Some t => loop fu s t ld
             | None => err_from text start InvalidAttributeValue
             end
           | Some (RefEntity name, s) =>
             match find_entity entities (slice_bytes text name) with
             | Some e =>
               let! ld := inc_references s ld in
               let! ld := inc_depth s ld in
               let! (t, ld) := norm_attr_lvl lvl' entities (en_value e) t ld in
               loop fu s t (dec_depth ld)
             | None => err_from text start (UnknownEntityReference (slice_bytes text name))
             end
           | None => err_from text start MalformedEntityReference
           end
       end) (S (length (s_rest s0))) s0 t ld
  end.

(* enough levels: ld_max_depth nested entities + the top level + 1 *)
Definition entity_levels : nat := S (S (N.to_nat ld_max_depth)).

Definition normalize_attribute (value : slice) (c : context) : res (storage * context) :=
  let vb := slice_bytes text value in
  if existsb (fun x => (x =? 38) || (x =? 9) || (x =? 10) || (x =? 13)) vb then
    let! (t, ld) := norm_attr_lvl entity_levels (c_entities c) value tb_new (c_ld c) in
    let! bs := tb_finish t in
    Ok (Owned bs, set_ld c ld)
  else Ok (Borrowed (SIn value), c).

(* ---- process_attribute ---- *)
Definition process_attribute (r : range) (qname_len eq_len : N) (prefix local value : slice)
           (c : context) : res context :=
  let! (value, c) := normalize_attribute value c in
  let vb := storage_bytes text value in
  let pb := slice_bytes text prefix in
  let lb := slice_bytes text local in
  if bytes_eqb pb xmlns_str then
    if bytes_eqb lb xmlns_str then err_from text (fst r) InvalidElementNamePrefix
    else if bytes_eqb vb ns_xmlns_uri then err_from text (fst r) UnexpectedXmlnsUri
    else
      let is_xml_ns_uri := bytes_eqb vb ns_xml_uri in
      if bytes_eqb lb ns_xml_prefix && negb is_xml_ns_uri then err_from text (fst r) InvalidXmlPrefixUri
      else if negb (bytes_eqb lb ns_xml_prefix) && is_xml_ns_uri then err_from text (fst r) UnexpectedXmlUri
      else
        let! ex := ns_exists (c_doc c) (c_ns_start_idx c) (Some lb) in
        if ex then err_from text (fst r) (DuplicatedNamespace lb)
        else if negb is_xml_ns_uri then
          let! d := push_ns (Some (SIn local)) value (c_doc c) in Ok (set_doc c d)
        else Ok c
  else if (slice_len prefix =? 0) && bytes_eqb lb xmlns_str then
    if bytes_eqb vb ns_xml_uri then err_from text (fst r) UnexpectedXmlUri
    else if bytes_eqb vb ns_xmlns_uri then err_from text (fst r) UnexpectedXmlnsUri
    else
      let! ex := ns_exists (c_doc c) (c_ns_start_idx c) None in
      if ex then err_from text (fst r) (DuplicatedAttribute lb)
      else let! d := push_ns None value (c_doc c) in Ok (set_doc c d)
  else
    Ok (set_cur_attrs c (c_cur_attrs c ++
          [{| ta_prefix := prefix; ta_local := local; ta_value := value; ta_range := r;
              ta_qname_len := qname_len; ta_eq_len := eq_len |}])).

(* gen_qname_string *)
Definition gen_qname_string (prefix local : bytes) : bytes :=
  match prefix with [] => local | _ => prefix ++ [58] ++ local end.

(* ---- process_element ---- *)
Definition process_element (e : element_end) (token_range : range) (c : context) : res context :=
  if slice_len (tn_name (c_tag_name c)) =? 0 then
    match e with
    | EClose _ _ => err_from text (fst token_range) UnexpectedEntityCloseTag
    | _ => Panic P_unreachable
    end
  else
  let! (namespaces, c) := resolve_namespaces c in
  let c := set_ns_start_idx c (len_N (d_ns_tree (c_doc c))) in
  let! (attributes, c) := resolve_attributes namespaces c in
  let tn := c_tag_name c in
  match e with
  | EEmpty =>
    let! tag_ns_idx := get_ns_idx_by_prefix namespaces (tn_prefix_pos tn) (tn_prefix tn) (c_doc c) in
    let! (new_id, c) := append_node (KElement tag_ns_idx (tn_name tn) attributes namespaces)
                                    (tn_pos tn, snd token_range) c in
    Ok (set_awaiting c (c_awaiting c ++ [new_id]))
  | EClose prefix local =>
    if len_N (c_parent_prefixes c) <=? c_entity_floor c
    then err_from text (fst token_range) UnexpectedEntityCloseTag else
    let d := c_doc c in
    let! pnd := match nth_N (d_nodes d) (c_parent_id c) with Some x => Ok x | None => Panic P_index end in
    let! parent_prefix := match rev (c_parent_prefixes c) with x :: _ => Ok x | [] => Panic P_unwrap end in
    (* parent_node.range.end = token_range.end -- stays even if an error is returned below *)
    let! nodes := upd_node (d_nodes d) (c_parent_id c) (fun nd => nd_set_range_end nd (snd token_range)) in
    let c := set_doc c (set_nodes d nodes) in
    let! _ :=
      match nd_kind pnd with
      | KElement _ plocal _ _ =>
        let ppb := slice_bytes text parent_prefix in
        let plb := slice_bytes text plocal in
        let pb := slice_bytes text prefix in
        let lb := slice_bytes text local in
        if negb (bytes_eqb pb ppb) || negb (bytes_eqb lb plb) then
          err_from text (fst token_range)
                   (UnexpectedCloseTag (gen_qname_string ppb plb) (gen_qname_string pb lb))
        else Ok tt
      | _ => Ok tt
      end in
    let c := set_awaiting c (c_awaiting c ++ [c_parent_id c]) in
    match nd_parent pnd with
    | Some id =>
      let pp := removelast (c_parent_prefixes c) in
      match pp with
      | [] => Panic P_debug_assert
      | _ => Ok (set_parent_prefixes (set_parent_id c id) pp)
      end
    | None => err_from text (fst token_range) UnexpectedEntityCloseTag
    end
  | EOpen =>
    let! tag_ns_idx := get_ns_idx_by_prefix namespaces (tn_prefix_pos tn) (tn_prefix tn) (c_doc c) in
    let! (new_id, c) := append_node (KElement tag_ns_idx (tn_name tn) attributes namespaces)
                                    (tn_pos tn, snd token_range) c in
    Ok (set_parent_prefixes (set_parent_id c new_id) (c_parent_prefixes c ++ [tn_prefix tn]))
  end.

(* ---- process_cdata ---- *)
Fixpoint cdata_norm (l : bytes) : bytes :=
  match l with
  | [] => []
  | x :: r =>
    if x =? 13 then
      match r with
      | y :: r' => if y =? 10 then 10 :: cdata_norm r' else 10 :: cdata_norm r
      | [] => [10]
      end
    else x :: cdata_norm r
  end.

Definition process_cdata (txt : slice) (r : range) (c : context) : res context :=
  let tb := slice_bytes text txt in
  if mem_b 13 tb then append_text (CowOwned (cdata_norm tb)) r c
  else append_text (CowBorrowed txt) r c.

(* ---- parse_next_chunk ---- *)
Inductive next_chunk := ChByte (x : N) | ChChar (c : N) | ChText (value : slice).

Definition parse_next_chunk (s : stream) (entities : list entity) : res (next_chunk * stream) :=
  if at_end s then Panic P_debug_assert else
  let! x := curr_byte_unchecked s in
  if x =? 38 then
    let start := s_pos s in
    let! r := consume_reference text s in
    match r with
    | Some (RefChar ch, s) => Ok (ChChar ch, s)
    | Some (RefEntity name, s) =>
      match find_entity entities (slice_bytes text name) with
      | Some e => Ok (ChText (en_value e), s)
      | None => err_from text start (UnknownEntityReference (slice_bytes text name))
      end
    | None => err_from text start MalformedEntityReference
    end
  else let! s := advance 1 s in Ok (ChByte x, s).

End WithText.
