(* Api.v -- lib.rs: the read API of Node / Document / Attribute and the iterators, as pure
   functions and state machines over a [document].  A Node is its id. *)
From Coq Require Import Ascii String.
From RX Require Import Generated.
From RX.Model Require Import Base CharClass Stream Tokenizer Doc Builder.

Section WithText.
Variable text : bytes.

(* ---- AxisIter (lib.rs:1556-1572): state = Option<Node>, step = one of the link accessors ---- *)
Inductive axis := AxAncestors | AxPrevSiblings | AxNextSiblings | AxFirstChildren | AxLastChildren.

Definition axis_step (d : document) (a : axis) (id : N) : res (option N) :=
  match a with
  | AxAncestors => parent d id
  | AxPrevSiblings => prev_sibling d id
  | AxNextSiblings => next_sibling d id
  | AxFirstChildren => first_child d id
  | AxLastChildren => last_child d id
  end.

Definition axis_next (d : document) (a : axis) (st : option N) : res (option N * option N) :=
  match st with
  | None => Ok (None, None)
  | Some n => let! nx := axis_step d a n in Ok (Some n, nx)
  end.

Fixpoint axis_collect (fuel : nat) (d : document) (a : axis) (st : option N) : res (list N) :=
  match fuel with
  | O => OutOfFuel
  | S fu =>
    let! (o, st') := axis_next d a st in
    match o with
    | None => Ok []
    | Some n => let! r := axis_collect fu d a st' in Ok (n :: r)
    end
  end.

(* the whole axis starting at (and including) the node *)
Definition axis_list (d : document) (a : axis) (id : N) : res (list N) :=
  axis_collect (S (S (length (d_nodes d)))) d a (Some id).

(* .skip(1).find(is_element) on an axis *)
Fixpoint find_element (d : document) (l : list N) : res (option N) :=
  match l with
  | [] => Ok None
  | n :: r => let! e := node_is_element d n in if e then Ok (Some n) else find_element d r
  end.

Definition parent_element (d : document) (id : N) : res (option N) :=
  let! l := axis_list d AxAncestors id in find_element d (tl l).
Definition prev_sibling_element (d : document) (id : N) : res (option N) :=
  let! l := axis_list d AxPrevSiblings id in find_element d (tl l).
Definition next_sibling_element (d : document) (id : N) : res (option N) :=
  let! l := axis_list d AxNextSiblings id in find_element d (tl l).
Definition first_element_child (d : document) (id : N) : res (option N) :=
  let! l := children_list d id in find_element d l.
(* children().filter(is_element).next_back() *)
Definition last_element_child (d : document) (id : N) : res (option N) :=
  let! l := children_list d id in find_element d (rev l).

(* Document::root_element: root().first_element_child().expect(..) *)
Definition root_element (d : document) : res N :=
  let! o := first_element_child d 0 in
  match o with Some n => Ok n | None => Panic P_unwrap end.

(* ---- text / tail ---- *)
Definition text_storage (d : document) (id : N) : res (option storage) :=
  let! nd := node_data_of d id in
  match nd_kind nd with
  | KElement _ _ _ _ =>
    let! fc := first_child d id in
    match fc with
    | Some ch =>
      let! cnd := node_data_of d ch in
      match nd_kind cnd with KText s => Ok (Some s) | _ => Ok None end
    | None => Ok None
    end
  | KComment s => Ok (Some (Borrowed (SIn s)))
  | KText s => Ok (Some s)
  | _ => Ok None
  end.

Definition tail_storage (d : document) (id : N) : res (option storage) :=
  let! nd := node_data_of d id in
  if negb (is_element_kind (nd_kind nd)) then Ok None else
  let! nx := next_sibling d id in
  match nx with
  | Some n =>
    let! nnd := node_data_of d n in
    match nd_kind nnd with KText s => Ok (Some s) | _ => Ok None end
  | None => Ok None
  end.

(* ---- slice iterators: Descendants, Attributes, NamespaceIter (core::slice::Iter semantics)
   state = the half-open index interval still to be yielded ---- *)
Record slice_it := { it_lo : N; it_hi : N }.

Definition sit_len (it : slice_it) : N := it_hi it - it_lo it.
Definition sit_next (it : slice_it) : option N * slice_it :=
  if it_lo it <? it_hi it then (Some (it_lo it), {| it_lo := it_lo it + 1; it_hi := it_hi it |})
  else (None, it).
Definition sit_next_back (it : slice_it) : option N * slice_it :=
  if it_lo it <? it_hi it then (Some (it_hi it - 1), {| it_lo := it_lo it; it_hi := it_hi it - 1 |})
  else (None, it).
Definition sit_nth (n : N) (it : slice_it) : option N * slice_it :=
  if n <? sit_len it then (Some (it_lo it + n), {| it_lo := it_lo it + n + 1; it_hi := it_hi it |})
  else (None, {| it_lo := it_hi it; it_hi := it_hi it |}).

(* Descendants::new: nodes[from..until] *)
Definition descendants (d : document) (id : N) : res slice_it :=
  let! nd := node_data_of d id in
  let until := match nd_next_subtree nd with Some u => u | None => len_N (d_nodes d) end in
  if (until <? id) || (len_N (d_nodes d) <? until) then Panic P_slice
  else Ok {| it_lo := id; it_hi := until |}.

(* Attributes::new: doc.attributes[range] (empty for non-elements) *)
Definition attributes (d : document) (id : N) : res slice_it :=
  let! nd := node_data_of d id in
  match nd_kind nd with
  | KElement _ _ (a, e) _ =>
    if (e <? a) || (len_N (d_attrs d) <? e) then Panic P_slice else Ok {| it_lo := a; it_hi := e |}
  | _ => Ok {| it_lo := 0; it_hi := 0 |}
  end.

(* Node::namespaces: doc.namespaces.tree_order[range] (empty for non-elements); items are
   positions in tree_order, mapped through values by [namespace_at] *)
Definition namespaces (d : document) (id : N) : res slice_it :=
  let! nd := node_data_of d id in
  match nd_kind nd with
  | KElement _ _ _ (a, e) =>
    if (e <? a) || (len_N (d_ns_tree d) <? e) then Panic P_slice else Ok {| it_lo := a; it_hi := e |}
  | _ => Ok {| it_lo := 0; it_hi := 0 |}
  end.

Definition namespace_at (d : document) (tree_pos : N) : res namespace :=
  match nth_N (d_ns_tree d) tree_pos with
  | None => Panic P_index
  | Some vi => match nth_N (d_ns_values d) vi with Some v => Ok v | None => Panic P_index end
  end.

Definition attr_at (d : document) (i : N) : res attr_data :=
  match nth_N (d_attrs d) i with Some a => Ok a | None => Panic P_index end.

Definition sit_list (it : slice_it) : list N := N_range (it_lo it) (N.to_nat (sit_len it)).

(* ---- names ---- *)
Definition ns_uri_at (d : document) (ns_idx : option N) : res (option bytes) :=
  match ns_idx with
  | None => Ok None
  | Some i =>
    match nth_N (d_ns_values d) i with
    | Some v => Ok (Some (storage_bytes text (ns_uri v)))
    | None => Panic P_index
    end
  end.

(* tag_name(): (namespace, local); ("" , None) for non-elements *)
Definition tag_name (d : document) (id : N) : res (option bytes * bytes) :=
  let! nd := node_data_of d id in
  match nd_kind nd with
  | KElement ns local _ _ => let! u := ns_uri_at d ns in Ok (u, slice_bytes text local)
  | _ => Ok (None, [])
  end.

Definition ename_eqb (x y : option bytes * bytes) : bool :=
  opt_str_eqb (fst x) (fst y) && bytes_eqb (snd x) (snd y).

(* has_tag_name(name) *)
Definition has_tag_name (d : document) (id : N) (name : option bytes * bytes) : res bool :=
  let! nd := node_data_of d id in
  match nd_kind nd with
  | KElement ns local _ _ =>
    match fst name with
    | Some _ => let! u := ns_uri_at d ns in Ok (ename_eqb (u, slice_bytes text local) name)
    | None => Ok (bytes_eqb (slice_bytes text local) (snd name))
    end
  | _ => Ok false
  end.

Definition attr_ename (d : document) (a : attr_data) : res (option bytes * bytes) :=
  let! u := ns_uri_at d (ad_ns_idx a) in Ok (u, slice_bytes text (ad_local a)).

(* attributes().find(|a| a.name == name): index into d_attrs *)
Fixpoint find_attr (d : document) (is : list N) (name : option bytes * bytes) : res (option N) :=
  match is with
  | [] => Ok None
  | i :: r =>
    let! a := attr_at d i in
    let! n := attr_ename d a in
    if ename_eqb n name then Ok (Some i) else find_attr d r name
  end.

Definition attribute_node (d : document) (id : N) (name : option bytes * bytes) : res (option N) :=
  let! it := attributes d id in find_attr d (sit_list it) name.
Definition attribute (d : document) (id : N) (name : option bytes * bytes) : res (option bytes) :=
  let! o := attribute_node d id name in
  match o with
  | Some i => let! a := attr_at d i in Ok (Some (storage_bytes text (ad_value a)))
  | None => Ok None
  end.
Definition has_attribute (d : document) (id : N) (name : option bytes * bytes) : res bool :=
  let! o := attribute_node d id name in Ok (match o with Some _ => true | None => false end).

(* namespaces().find(pred) *)
Fixpoint find_ns_by (d : document) (ps : list N) (pred : namespace -> bool) : res (option namespace) :=
  match ps with
  | [] => Ok None
  | p :: r => let! v := namespace_at d p in if pred v then Ok (Some v) else find_ns_by d r pred
  end.

Definition default_namespace (d : document) (id : N) : res (option bytes) :=
  let! it := namespaces d id in
  let! o := find_ns_by d (sit_list it) (fun v => match ns_name v with None => true | Some _ => false end) in
  Ok (match o with Some v => Some (storage_bytes text (ns_uri v)) | None => None end).

Definition lookup_namespace_uri (d : document) (id : N) (prefix : option bytes) : res (option bytes) :=
  let! it := namespaces d id in
  let! o := find_ns_by d (sit_list it) (fun v => opt_str_eqb (ns_name_bytes text v) prefix) in
  Ok (match o with Some v => Some (storage_bytes text (ns_uri v)) | None => None end).

Definition lookup_prefix (d : document) (id : N) (uri : bytes) : res (option bytes) :=
  if bytes_eqb uri ns_xml_uri then Ok (Some ns_xml_prefix) else
  let! it := namespaces d id in
  let! o := find_ns_by d (sit_list it) (fun v => bytes_eqb (storage_bytes text (ns_uri v)) uri) in
  Ok (match o with Some v => ns_name_bytes text v | None => None end).

(* Attribute == Attribute *)
Definition attr_eqb (d : document) (i j : N) : res bool :=
  let! a := attr_at d i in let! c := attr_at d j in
  let! na := attr_ename d a in let! nc := attr_ename d c in
  Ok (ename_eqb na nc && bytes_eqb (storage_bytes text (ad_value a)) (storage_bytes text (ad_value c))).

(* ---- Attribute ranges ---- *)
Definition attr_range_qname (a : attr_data) : range :=
  (fst (ad_range a), fst (ad_range a) + ad_qname_len a).
(* range.end - 1 underflows (panics in debug) when end = 0 *)
Definition attr_range_value (a : attr_data) : res range :=
  if snd (ad_range a) =? 0 then Panic P_overflow
  else Ok (fst (ad_range a) + ad_qname_len a + ad_eq_len a + 1, snd (ad_range a) - 1).

(* ---- identity: Eq / Ord / Hash keys.  A node is (document address, id). ---- *)
Definition node_key := (N * N)%type.
Definition node_eqb (x y : node_key) : bool := (fst x =? fst y) && (snd x =? snd y).
Definition node_cmp (x y : node_key) : comparison :=
  match fst x ?= fst y with Eq => snd x ?= snd y | o => o end.

(* get_node(NodeId::new(k)) *)
Definition get_node_id (d : document) (k : N) : res (option N) :=
  let! id := node_id_new k in
  Ok (match get_node d id with Some _ => Some id | None => None end).

End WithText.
