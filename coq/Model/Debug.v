(* Debug.v -- lib.rs: impl fmt::Debug for Document (the iterative printer that replaced the
   recursive one, commit 413c2d0).  The formatting machinery is not modelled; what is modelled is
   the traversal: the explicit stack of Children iterators and the number of lines written
   (every writeln! of the source is one line; {:?} of a str escapes line breaks.  One exception, found by
   the model audit: Debug of ExpandedName writes a namespace URI with {} -- a URI containing a raw line break,
   possible through a character reference, adds line breaks that are not writeln! calls.  The count below is
   the number of writeln! calls; the harness subtracts those raw line breaks before comparing). *)
From RX.Model Require Import Base Stream Tokenizer Doc Builder Api.

Section WithDoc.
Variable d : document.

(* print_into_iter: nothing for an empty iterator, else "name: [", one line per item, "]" *)
Definition iter_lines (it : slice_it) : N :=
  if sit_len it =? 0 then 0 else sit_len it + 2.

(* print_node: lines written for one child; also says whether its children are printed next *)
Definition print_node_lines (id : N) : res (N * bool) :=
  let! is_el := node_is_element d id in
  if is_el then
    let! at_ := attributes d id in
    let! ns := namespaces d id in
    let! hc := has_children d id in
    (* "Element {", "tag_name: ..", attributes, namespaces, then "children: [" or "}" *)
    Ok (2 + iter_lines at_ + iter_lines ns + 1, hc)
  else Ok (1, false).

(* print_children: while let Some((children, depth)) = stack.last_mut() { ... } *)
Fixpoint print_loop (fuel : nat) (stack : list children_it) (lines : N) (maxh : N) : res (N * N) :=
  match fuel with
  | O => OutOfFuel
  | S fu =>
    match stack with
    | [] => Ok (lines, maxh)
    | it :: rest =>
      let! (o, it') := children_next d it in
      match o with
      | Some child =>
        let! (n, descend) := print_node_lines child in
        if descend then
          let! cit := children d child in
          let st := cit :: it' :: rest in
          print_loop fu st (lines + n) (N.max maxh (len_N st))
        else print_loop fu (it' :: rest) (lines + n) maxh
      | None =>
        (* stack.pop(); if !stack.is_empty() { "]" and "}" of the element just finished } *)
        match rest with
        | [] => print_loop fu rest lines maxh
        | _ => print_loop fu rest (lines + 2) maxh
        end
      end
    end
  end.

(* fmt: "Document []" (no line break) for a childless root, else "Document [", children, "]" *)
Definition debug_document : res (N * N) :=
  let! hc := has_children d 0 in
  if negb hc then Ok (0, 0)
  else
    let! it := children d 0 in
    let! (lines, maxh) := print_loop (S (2 * length (d_nodes d) + 2)) [it] 1 1 in
    Ok (lines + 1, maxh).

End WithDoc.
