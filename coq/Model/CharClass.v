(* CharClass.v -- tokenizer.rs:11-151: XmlCharExt for char, XmlByteExt for u8.
   The range tables and cut-offs come from Generated.v (translated from the source). *)
From RX Require Import Generated.
From RX.Model Require Import Base.

Definition in_ranges (c : N) (rs : list (N * N)) : bool :=
  existsb (fun r => (fst r <=? c) && (c <=? snd r)) rs.

(* impl XmlByteExt for u8 *)
Definition byte_is_space (x : N) : bool := in_ranges x byte_space_ranges.
Definition byte_is_name_start (x : N) : bool := in_ranges x byte_name_start_ranges.
Definition byte_is_name (x : N) : bool := in_ranges x byte_name_ranges.
Definition byte_is_char (x : N) : bool := (byte_char_gt <? x) || byte_is_space x.

(* impl XmlCharExt for char.  [c as u8] truncates; below the cut (<= 255 always) it is c itself
   for c < 256; the cut in the source is 128 (<=), so c <= 128 < 256 and no truncation occurs. *)
Definition char_is_name_start (c : N) : bool :=
  if c <? char_name_start_ascii_cut then byte_is_name_start (c mod 256)
  else in_ranges c char_name_start_ranges.

Definition char_is_name (c : N) : bool :=
  if c <? char_name_ascii_cut then byte_is_name (c mod 256)
  else in_ranges c char_name_ranges.

Definition char_is_char (c : N) : bool :=
  if c <? char_char_ctl_cut then byte_is_space (c mod 256)
  else negb (in_ranges c char_char_excluded).

Definition is_ascii_digit (x : N) : bool := (48 <=? x) && (x <=? 57).
Definition is_ascii_hexdigit (x : N) : bool :=
  is_ascii_digit x || ((65 <=? x) && (x <=? 70)) || ((97 <=? x) && (x <=? 102)).
Definition hex_val (x : N) : N :=
  if is_ascii_digit x then x - 48 else if x <? 97 then x - 55 else x - 87.

(* u8::is_ascii_alphanumeric *)
Definition is_ascii_alphanumeric (x : N) : bool :=
  is_ascii_digit x || ((65 <=? x) && (x <=? 90)) || ((97 <=? x) && (x <=? 122)).

(* PubidChar ::= #x20 | #xD | #xA | [a-zA-Z0-9] | [-'()+,./:=?;!*#@$_%]
   (parse_pubid_literal: the bytes of the string literal SP CR LF -'()+,./:=?;!*#@$_%) *)
Definition pubid_punct : bytes :=
  [32; 13; 10; 45; 39; 40; 41; 43; 44; 46; 47; 58; 61; 63; 59; 33; 42; 35; 64; 36; 95; 37].
Definition pubid_char (x : N) : bool := is_ascii_alphanumeric x || mem_b x pubid_punct.
