(* Tokenizer.v -- tokenizer.rs:197-726: Token, the XmlEvents callback, parse ... parse_text.
   Generic in the callback's state C; [ev] is XmlEvents::token. *)
From Coq Require Import Ascii String.
From RX Require Import Generated.
From RX.Model Require Import Base CharClass Stream.

Definition range := (N * N)%type.

Inductive element_end :=
| EOpen
| EClose (prefix local : slice)
| EEmpty.

Inductive token :=
| TPI (target : slice) (content : option slice) (r : range)
| TComment (text : slice) (r : range)
| TEntityDecl (name : slice) (value : slice)
| TElementStart (prefix local : slice) (start : N)
| TAttribute (r : range) (qname_len eq_len : N) (prefix local value : slice)
| TElementEnd (e : element_end) (r : range)
| TText (text : slice) (r : range)
| TCdata (text : slice) (r : range).

Section WithText.
Variable text : bytes.
Variable C : Type.
Variable ev : token -> C -> res C.

Notation stream := Stream.stream.

(* parse_comment *)
Definition parse_comment (s : stream) (c : C) : res (stream * C) :=
  let start := s_pos s in
  let! s := advance 4 s in
  let! (txt, s) := consume_chars text
      (fun s ch => negb ((ch =? 45) && starts_with s (b "-->"))) s in
  let! s := skip_string text (b "-->") s in
  let tb := slice_bytes text txt in
  if contains_b (b "--") tb then err_from text start InvalidComment
  else if ends_with_byte 45 tb then err_from text start InvalidComment
  else
    let! c := ev (TComment txt (start, s_pos s)) c in Ok (s, c).

(* parse_pi *)
Definition parse_pi (s : stream) (c : C) : res (stream * C) :=
  if starts_with s (b "<?xml ") then err_at text s UnexpectedDeclaration else
  let start := s_pos s in
  let! s := advance 2 s in
  let! (target, s) := consume_name text s in
  let! s := if starts_with s (b "?>") then Ok s else consume_spaces text s in
  let! (content, s) := consume_chars text
      (fun s ch => negb ((ch =? 63) && starts_with s (b "?>"))) s in
  let content := if slice_len content =? 0 then None else Some content in
  let! s := skip_string text (b "?>") s in
  let! c := ev (TPI target content (start, s_pos s)) c in Ok (s, c).

(* parse_misc: while !at_end { skip_spaces; comment | pi | break } *)
Fixpoint parse_misc_loop (fuel : nat) (s : stream) (c : C) : res (stream * C) :=
  match fuel with
  | O => OutOfFuel
  | S fu =>
    if at_end s then Ok (s, c) else
    let s := skip_spaces s in
    if starts_with s (b "<!--") then
      let! (s, c) := parse_comment s c in parse_misc_loop fu s c
    else if starts_with s (b "<?") then
      let! (s, c) := parse_pi s c in parse_misc_loop fu s c
    else Ok (s, c)
  end.
Definition parse_misc (s : stream) (c : C) : res (stream * C) :=
  parse_misc_loop (S (length (s_rest s))) s c.

(* parse_attribute (used by the XML declaration only) *)
Definition parse_attribute (s : stream) : res (slice * slice * stream) :=
  let! (prefix, local, s) := consume_qname text s in
  let! s := consume_eq text s in
  let! (quote, s) := consume_quote text s in
  let! s := skip_chars text (fun _ ch => negb (ch =? quote) && negb (ch =? 60)) s in
  let! _ := slice_back text (s_pos s) s in
  let! s := consume_byte text quote s in
  Ok (prefix, local, s).

(* parse_pseudo_attribute: a pseudo-attribute of the XML declaration; the name must be exactly
   [name] (no prefix), not merely start with it *)
Definition parse_pseudo_attribute (name : bytes) (s : stream) : res stream :=
  let start := s_pos s in
  let! (prefix, local, s) := parse_attribute s in
  if negb (slice_len prefix =? 0) || negb (bytes_eqb (slice_bytes text local) name)
  then err_from text start (InvalidString name)
  else Ok s.

(* parse_declaration and its local consume_spaces *)
Definition decl_consume_spaces (s : stream) : res stream :=
  if starts_with_space s then Ok (skip_spaces s)
  else if negb (starts_with s (b "?>")) && negb (at_end s) then
    let! x := curr_byte_unchecked s in err_at text s (InvalidChar2 (b "a whitespace") x)
  else Ok s.

Definition parse_declaration (s : stream) : res stream :=
  let! s := advance 5 s in
  let! s := decl_consume_spaces s in
  if negb (starts_with s (b "version")) then skip_string text (b "version") s else
  let! s := parse_pseudo_attribute (b "version") s in
  let! s := decl_consume_spaces s in
  let! s := if starts_with s (b "encoding")
            then let! s := parse_pseudo_attribute (b "encoding") s in decl_consume_spaces s
            else Ok s in
  let! s := if starts_with s (b "standalone")
            then parse_pseudo_attribute (b "standalone") s else Ok s in
  let s := skip_spaces s in
  skip_string text (b "?>") s.

(* parse_external_literal: a quoted SystemLiteral (any bytes but the quote), every character
   of which must be an XML Char *)
Definition parse_external_literal (s : stream) : res stream :=
  let! (quote, s) := consume_quote text s in
  let start := s_pos s in
  let! (value, s) := consume_bytes text (fun x => negb (x =? quote)) s in
  let! _ := is_xml_str text value start in
  consume_byte text quote s.

(* parse_pubid_literal: a quoted PubidLiteral, PubidChar* without the quote itself *)
Definition parse_pubid_literal (s : stream) : res stream :=
  let! (quote, s) := consume_quote text s in
  let s := skip_bytes (fun x => negb (x =? quote) && pubid_char x) s in
  let! x := curr_byte s in
  if negb (x =? quote) then err_at text s InvalidExternalID
  else advance 1 s.

(* parse_external_id *)
Definition parse_external_id (s : stream) : res (bool * stream) :=
  if starts_with s (b "SYSTEM") || starts_with s (b "PUBLIC") then
    let start := s_pos s in
    let! s := advance 6 s in
    let! id := slice_back text start s in
    let! s := consume_spaces text s in
    if bytes_eqb (slice_bytes text id) (b "SYSTEM") then
      let! s := parse_external_literal s in
      Ok (true, s)
    else
      let! s := parse_pubid_literal s in
      let! s := consume_spaces text s in
      let! s := parse_external_literal s in
      Ok (true, s)
  else Ok (false, s).

(* parse_entity_def *)
Definition parse_entity_def (s : stream) (is_ge : bool) : res (option slice * stream) :=
  let! x := curr_byte s in
  if (x =? 34) || (x =? 39) then
    let! (quote, s) := consume_quote text s in
    let start := s_pos s in
    let s := skip_bytes (fun y => negb (y =? quote)) s in
    let! value := slice_back text start s in
    let! _ := is_xml_str text value start in
    let! s := consume_byte text quote s in
    Ok (Some value, s)
  else if (x =? 83) || (x =? 80) then
    let! (found, s) := parse_external_id s in
    if found then
      if is_ge then
        let has_space := starts_with_space s in
        let s := skip_spaces s in
        if starts_with s (b "NDATA") then
          if negb has_space then err_at text s (InvalidChar2 (b "a whitespace") 78) else
          let! s := advance 5 s in
          let! s := consume_spaces text s in
          let! s := skip_name text s in
          Ok (None, s)
        else Ok (None, s)
      else Ok (None, s)
    else err_at text s InvalidExternalID
  else err_at text s (InvalidChar2 (b "a quote, SYSTEM or PUBLIC") x).

(* parse_entity_decl *)
Definition parse_entity_decl (s : stream) (c : C) : res (stream * C) :=
  let! s := advance 8 s in
  let! s := consume_spaces text s in
  let '(pe, s) := try_consume_byte 37 s in
  let! s := if pe then consume_spaces text s else Ok s in
  let is_ge := negb pe in
  let! (name, s) := consume_name text s in
  let! s := consume_spaces text s in
  let! (def, s) := parse_entity_def s is_ge in
  let! c := match def with
            | Some d => if is_ge then ev (TEntityDecl name d) c else Ok c
            | None => Ok c
            end in
  let s := skip_spaces s in
  let! s := consume_byte text 62 s in
  Ok (s, c).

(* consume_decl: skips a markup declaration that is not processed.  A '>' inside a quoted
   literal does not end the declaration.  Each iteration consumes at least one byte. *)
Fixpoint consume_decl_loop (fuel : nat) (s : stream) : res stream :=
  match fuel with
  | O => OutOfFuel
  | S fu =>
    let s := skip_bytes (fun x => negb (x =? 62) && negb (x =? 34) && negb (x =? 39)) s in
    let! c := curr_byte s in
    let! s := advance 1 s in
    if c =? 62 then Ok s
    else
      let s := skip_bytes (fun y => negb (y =? c)) s in
      let! s := consume_byte text c s in
      consume_decl_loop fu s
  end.

Definition consume_decl (s : stream) : res stream :=
  consume_decl_loop (S (length (s_rest s))) s.

(* parse_doctype_start *)
Definition parse_doctype_start (s : stream) : res stream :=
  let! s := advance 9 s in
  let! s := consume_spaces text s in
  let! s := skip_name text s in
  let s := skip_spaces s in
  let! (_, s) := parse_external_id s in
  let s := skip_spaces s in
  let! x := curr_byte s in
  if negb (x =? 91) && negb (x =? 62) then err_at text s (InvalidChar2 (b "'[' or '>'") x)
  else Ok s.

Fixpoint parse_doctype_loop (fuel : nat) (start : N) (s : stream) (c : C) : res (stream * C) :=
  match fuel with
  | O => OutOfFuel
  | S fu =>
    if at_end s then Ok (s, c) else
    let s := skip_spaces s in
    if starts_with s (b "<!ENTITY") then
      let! (s, c) := parse_entity_decl s c in parse_doctype_loop fu start s c
    else if starts_with s (b "<!--") then
      let! (s, c) := parse_comment s c in parse_doctype_loop fu start s c
    else if starts_with s (b "<?") then
      let! (s, c) := parse_pi s c in parse_doctype_loop fu start s c
    else if starts_with s (b "]") then
      let! s := advance 1 s in
      let s := skip_spaces s in
      match curr_byte_opt s with
      | Some x => if x =? 62 then let! s := advance 1 s in Ok (s, c)
                  else err_at text s (InvalidChar2 (b "'>'") x)
      | None => Err UnexpectedEndOfStream
      end
    else if starts_with s (b "<!ELEMENT") || starts_with s (b "<!ATTLIST")
            || starts_with s (b "<!NOTATION") then
      match consume_decl s with
      | Ok s => parse_doctype_loop fu start s c
      | Err _ => err_from text start UnknownToken
      | Panic p => Panic p
      | OutOfFuel => OutOfFuel
      end
    else err_at text s UnknownToken
  end.

Definition parse_doctype (s : stream) (c : C) : res (stream * C) :=
  let start := s_pos s in
  let! s := parse_doctype_start s in
  let s := skip_spaces s in
  if match curr_byte_opt s with Some x => x =? 62 | None => false end then
    let! s := advance 1 s in Ok (s, c)
  else
    let! s := advance 1 s in
    parse_doctype_loop (S (length (s_rest s))) start s c.

(* parse_element: the start tag only; returns whether the element is open *)
Fixpoint parse_element_loop (fuel : nat) (tag_start : N) (s : stream) (c : C)
  : res (bool * stream * C) :=
  match fuel with
  | O => OutOfFuel
  | S fu =>
    if at_end s then Err UnexpectedEndOfStream     (* the stream ended inside a start tag *)
    else
      let has_space := starts_with_space s in
      let s := skip_spaces s in
      let start := s_pos s in
      let! x := curr_byte s in
      if x =? 47 then
        let! s := advance 1 s in
        let! s := consume_byte text 62 s in
        let! c := ev (TElementEnd EEmpty (start, s_pos s)) c in
        Ok (false, s, c)
      else if x =? 62 then
        let! s := advance 1 s in
        let! c := ev (TElementEnd EOpen (start, s_pos s)) c in
        Ok (true, s, c)
      else
        let! s := if has_space then Ok s else consume_spaces text s in
        let! (prefix, local, s) := consume_qname text s in
        let qname_end := s_pos s in
        let qname_len := N.min (qname_end - start) qname_len_sat in
        let! s := consume_eq text s in
        let eq_len := N.min (s_pos s - qname_end) eq_len_sat in
        let! (quote, s) := consume_quote text s in
        let value_start := s_pos s in
        let! s := advance_until2 quote 60 s in
        let! value := slice_back text value_start s in
        let! _ := is_xml_str text value value_start in
        let! s := consume_byte text quote s in
        let! c := ev (TAttribute (start, s_pos s) qname_len eq_len prefix local value) c in
        parse_element_loop fu tag_start s c
  end.

Definition parse_element (s : stream) (c : C) : res (bool * stream * C) :=
  let start := s_pos s in
  let! s := advance 1 s in
  let! (prefix, local, s) := consume_qname text s in
  let! c := ev (TElementStart prefix local start) c in
  parse_element_loop (S (length (s_rest s))) start s c.

(* parse_cdata *)
Definition parse_cdata (s : stream) (c : C) : res (stream * C) :=
  let start := s_pos s in
  let! s := advance 9 s in
  let! (txt, s) := consume_chars text
      (fun s ch => negb ((ch =? 93) && starts_with s (b "]]>"))) s in
  let! s := skip_string text (b "]]>") s in
  let! c := ev (TCdata txt (start, s_pos s)) c in Ok (s, c).

(* parse_close_element *)
Definition parse_close_element (s : stream) (c : C) : res (stream * C) :=
  let start := s_pos s in
  let! s := advance 2 s in
  let! (prefix, local, s) := consume_qname text s in
  let s := skip_spaces s in
  let! s := consume_byte text 62 s in
  let! c := ev (TElementEnd (EClose prefix local) (start, s_pos s)) c in Ok (s, c).

(* parse_text *)
Definition parse_text (s : stream) (c : C) : res (stream * C) :=
  let start := s_pos s in
  let! (txt, s) := consume_chars text (fun _ ch => negb (ch =? 60)) s in
  let tb := slice_bytes text txt in
  if mem_b 62 tb && contains_b (b "]]>") tb then err_at text s InvalidCharacterData
  else let! c := ev (TText txt (start, s_pos s)) c in Ok (s, c).

(* parse_content: one loop for all nesting levels (depth counter, no recursion) *)
Fixpoint parse_content_loop (fuel : nat) (depth : N) (s : stream) (c : C) : res (stream * C) :=
  match fuel with
  | O => OutOfFuel
  | S fu =>
    if at_end s then Ok (s, c) else
    let! x := curr_byte_unchecked s in
    if x =? 60 then
      match next_byte s with
      | Ok y =>
        if y =? 33 then
          if starts_with s (b "<!--") then
            let! (s, c) := parse_comment s c in parse_content_loop fu depth s c
          else if starts_with s (b "<![CDATA[") then
            let! (s, c) := parse_cdata s c in parse_content_loop fu depth s c
          else err_at text s UnknownToken
        else if y =? 63 then
          let! (s, c) := parse_pi s c in parse_content_loop fu depth s c
        else if y =? 47 then
          let! (s, c) := parse_close_element s c in
          if depth =? 0 then Ok (s, c) else parse_content_loop fu (depth - 1) s c
        else
          let! (open, s, c) := parse_element s c in
          parse_content_loop fu (if open then depth + 1 else depth) s c
      | Err _ => err_at text s UnknownToken
      | Panic p => Panic p
      | OutOfFuel => OutOfFuel
      end
    else
      let! (s, c) := parse_text s c in parse_content_loop fu depth s c
  end.

Definition parse_content (s : stream) (c : C) : res (stream * C) :=
  parse_content_loop (S (length (s_rest s))) 0 s c.

(* `<?xml` followed by a whitespace *)
Definition starts_with_declaration (s : stream) : bool :=
  starts_with s (b "<?xml") &&
  match nth_error (avail s) 5 with Some x => byte_is_space x | None => false end.

(* tokenizer::parse (document) *)
Definition parse_document (allow_dtd : bool) (c : C) : res C :=
  let s := stream_new text in
  let! s := if starts_with s [239; 187; 191] then advance 3 s else Ok s in
  let! s := if starts_with_declaration s then parse_declaration s else Ok s in
  let! (s, c) := parse_misc s c in
  let s := skip_spaces s in
  let! (s, c) :=
    if starts_with s (b "<!DOCTYPE") then
      if negb allow_dtd then Err DtdDetected
      else
        let! (s, c) := parse_doctype s c in
        parse_misc s c
    else Ok (s, c) in
  let s := skip_spaces s in
  let! (s, c) :=
    if match curr_byte_opt s with Some x => x =? 60 | None => false end then
      let! (open, s, c) := parse_element s c in
      if open then parse_content s c else Ok (s, c)
    else Ok (s, c) in
  let! (s, c) := parse_misc s c in
  if negb (at_end s) then err_at text s UnknownToken
  else Ok c.

End WithText.
