(* ErrDisplay.v -- [impl Display for Error] (parse.rs) and [impl Display for TextPos] (lib.rs).
   The format strings are NOT written here: they are the table GeneratedDisplay.display_table,
   regenerated from the source.  This file says what the fields of an error are, how a field is
   printed by a placeholder, and puts the pieces together.  No proofs in Model/. *)
From Coq Require Import Ascii String Decimal Hexadecimal.
From Coq Require Import List NArith Bool.
Import ListNotations.
From RX Require Import GeneratedDisplay.
From RX.Model Require Import Base.
Open Scope N_scope.

(* ---- the fields of an error, in declaration order ---- *)
Inductive dfield :=
| FStr (s : bytes)        (* String / &'static str *)
| FByte (x : N)           (* u8 *)
| FChar (c : N)           (* char (a scalar value) *)
| FPos (p : textpos).     (* TextPos *)

(* the Rust name of the variant *)
Definition error_name (e : error) : string :=
  match e with
  | InvalidXmlPrefixUri _ => "InvalidXmlPrefixUri"
  | UnexpectedXmlUri _ => "UnexpectedXmlUri"
  | UnexpectedXmlnsUri _ => "UnexpectedXmlnsUri"
  | InvalidElementNamePrefix _ => "InvalidElementNamePrefix"
  | DuplicatedNamespace _ _ => "DuplicatedNamespace"
  | UnknownNamespace _ _ => "UnknownNamespace"
  | UnexpectedCloseTag _ _ _ => "UnexpectedCloseTag"
  | UnexpectedEntityCloseTag _ => "UnexpectedEntityCloseTag"
  | UnknownEntityReference _ _ => "UnknownEntityReference"
  | MalformedEntityReference _ => "MalformedEntityReference"
  | EntityReferenceLoop _ => "EntityReferenceLoop"
  | InvalidAttributeValue _ => "InvalidAttributeValue"
  | DuplicatedAttribute _ _ => "DuplicatedAttribute"
  | NoRootNode => "NoRootNode"
  | UnclosedRootNode => "UnclosedRootNode"
  | UnexpectedDeclaration _ => "UnexpectedDeclaration"
  | DtdDetected => "DtdDetected"
  | NodesLimitReached => "NodesLimitReached"
  | AttributesLimitReached => "AttributesLimitReached"
  | NamespacesLimitReached => "NamespacesLimitReached"
  | InvalidName _ => "InvalidName"
  | NonXmlChar _ _ => "NonXmlChar"
  | InvalidChar _ _ _ => "InvalidChar"
  | InvalidChar2 _ _ _ => "InvalidChar2"
  | InvalidString _ _ => "InvalidString"
  | InvalidExternalID _ => "InvalidExternalID"
  | InvalidComment _ => "InvalidComment"
  | InvalidCharacterData _ => "InvalidCharacterData"
  | UnknownToken _ => "UnknownToken"
  | UnexpectedEndOfStream => "UnexpectedEndOfStream"
  end%string.

Definition error_fields (e : error) : list dfield :=
  match e with
  | InvalidXmlPrefixUri p | UnexpectedXmlUri p | UnexpectedXmlnsUri p | InvalidElementNamePrefix p
  | UnexpectedEntityCloseTag p | MalformedEntityReference p | EntityReferenceLoop p
  | InvalidAttributeValue p | UnexpectedDeclaration p | InvalidName p | InvalidExternalID p
  | InvalidComment p | InvalidCharacterData p | UnknownToken p => [FPos p]
  | DuplicatedNamespace s p | UnknownNamespace s p | UnknownEntityReference s p
  | DuplicatedAttribute s p | InvalidString s p => [FStr s; FPos p]
  | UnexpectedCloseTag x a p => [FStr x; FStr a; FPos p]
  | NonXmlChar c p => [FChar c; FPos p]
  | InvalidChar x a p => [FByte x; FByte a; FPos p]
  | InvalidChar2 x a p => [FStr x; FByte a; FPos p]
  | NoRootNode | UnclosedRootNode | DtdDetected | NodesLimitReached
  | AttributesLimitReached | NamespacesLimitReached | UnexpectedEndOfStream => []
  end.

(* ---- numbers ---- *)
Fixpoint dec_digits (u : Decimal.uint) : bytes :=
  match u with
  | Decimal.Nil => []
  | Decimal.D0 r => 48 :: dec_digits r | Decimal.D1 r => 49 :: dec_digits r
  | Decimal.D2 r => 50 :: dec_digits r | Decimal.D3 r => 51 :: dec_digits r
  | Decimal.D4 r => 52 :: dec_digits r | Decimal.D5 r => 53 :: dec_digits r
  | Decimal.D6 r => 54 :: dec_digits r | Decimal.D7 r => 55 :: dec_digits r
  | Decimal.D8 r => 56 :: dec_digits r | Decimal.D9 r => 57 :: dec_digits r
  end.

(* u32 with {}: decimal, no leading zeros, "0" for 0 *)
Definition show_N (n : N) : bytes := dec_digits (N.to_uint n).

(* lowercase hexadecimal without leading zeros (of a number that is not 0: see [show_char_debug]) *)
Fixpoint hex_digits (u : Hexadecimal.uint) : bytes :=
  match u with
  | Hexadecimal.Nil => []
  | Hexadecimal.D0 r => 48 :: hex_digits r | Hexadecimal.D1 r => 49 :: hex_digits r
  | Hexadecimal.D2 r => 50 :: hex_digits r | Hexadecimal.D3 r => 51 :: hex_digits r
  | Hexadecimal.D4 r => 52 :: hex_digits r | Hexadecimal.D5 r => 53 :: hex_digits r
  | Hexadecimal.D6 r => 54 :: hex_digits r | Hexadecimal.D7 r => 55 :: hex_digits r
  | Hexadecimal.D8 r => 56 :: hex_digits r | Hexadecimal.D9 r => 57 :: hex_digits r
  | Hexadecimal.Da r => 97 :: hex_digits r | Hexadecimal.Db r => 98 :: hex_digits r
  | Hexadecimal.Dc r => 99 :: hex_digits r | Hexadecimal.Dd r => 100 :: hex_digits r
  | Hexadecimal.De r => 101 :: hex_digits r | Hexadecimal.Df r => 102 :: hex_digits r
  end.
Definition show_hex (n : N) : bytes := hex_digits (N.to_hex_uint n).

(* [impl Display for TextPos]: row, separator, col *)
Definition show_pos (p : textpos) : bytes := show_N (fst p) ++ b textpos_sep ++ show_N (snd p).

(* ---- how a field is printed ---- *)
(* [x as char] with {}: the UTF-8 encoding of the char U+00xx *)
Definition show_byte_as_char (x : N) : bytes :=
  if x <? 128 then [x] else [192 + x / 64; 128 + x mod 64].

(* a char with {:?}: quotes around [char::escape_debug].  The only scalars the parser ever puts
   into NonXmlChar are the non-XML characters: c < 32 except 9 / 10 / 13, 0xFFFE, 0xFFFF (the
   correspondence run checks this); for them the result is \0 or \u{..}.  The named escapes and
   the printable ASCII characters are as in Rust; every other scalar is printed as \u{..} here
   (Rust would print the printable ones among them as themselves) -- they do not occur. *)
Definition escape_debug (c : N) : bytes :=
  if c =? 0 then b "\0"
  else if c =? 9 then b "\t"
  else if c =? 10 then b "\n"
  else if c =? 13 then b "\r"
  else if c =? 39 then b "\'"
  else if c =? 92 then b "\\"
  else if (32 <=? c) && (c <? 127) then [c]
  else b "\u{" ++ show_hex c ++ b "}".
Definition show_char_debug (c : N) : bytes := [39] ++ escape_debug c ++ [39].

(* one piece of a format string against the fields of the variant; a placeholder whose index or
   kind does not fit prints nothing (Proofs/ErrDisplayProofs.v: this never happens) *)
Definition show_piece (fs : list dfield) (pc : dpiece) : bytes :=
  match pc with
  | DLit s => b s
  | DArg i debug =>
    match nth_error fs i, debug with
    | Some (FStr s), false => s
    | Some (FPos p), false => show_pos p
    | Some (FChar c), true => show_char_debug c
    | _, _ => []
    end
  | DArgChar i =>
    match nth_error fs i with
    | Some (FByte x) => show_byte_as_char x
    | _ => []
    end
  end.

Definition piece_fits (fs : list dfield) (pc : dpiece) : bool :=
  match pc with
  | DLit _ => true
  | DArg i debug =>
    match nth_error fs i, debug with
    | Some (FStr _), false | Some (FPos _), false | Some (FChar _), true => true
    | _, _ => false
    end
  | DArgChar i => match nth_error fs i with Some (FByte _) => true | _ => false end
  end.
Definition pieces_fit (ps : list dpiece) (fs : list dfield) : bool := forallb (piece_fits fs) ps.

Fixpoint dlookup (name : string) (t : list (string * list dpiece)) : option (list dpiece) :=
  match t with
  | [] => None
  | (n, ps) :: r => if String.eqb n name then Some ps else dlookup name r
  end.

Definition show_pieces (fs : list dfield) (ps : list dpiece) : bytes := flat_map (show_piece fs) ps.

(* [impl Display for Error] *)
Definition error_display (e : error) : bytes :=
  match dlookup (error_name e) display_table with
  | Some ps => show_pieces (error_fields e) ps
  | None => []
  end.
