(* Stream.v -- tokenizer.rs: StrSpan, Stream and its primitives (lines 153-195, 742-1168). *)
From Coq Require Import Ascii String.
From RX Require Import Generated.
From RX.Model Require Import Base CharClass.

(* a borrowed &'input str: a place in the input, content [sub text sl_start sl_end] *)
Record slice := { sl_start : N; sl_end : N }.
Definition slice_len (s : slice) : N := sl_end s - sl_start s.

Section WithText.
Variable text : bytes.

Definition tlen : N := blen text.
Definition slice_bytes (s : slice) : bytes := sub text (sl_start s) (sl_end s).

(* &text[a..e]: panics unless a <= e <= len and both are char boundaries *)
Definition mk_slice (a e : N) : res slice :=
  if (e <? a) || (tlen <? e) then Panic P_slice
  else if is_boundary text a && is_boundary text e then Ok {| sl_start := a; sl_end := e |}
  else Panic P_slice.

(* Stream { pos, end, span }.  s_rest caches the bytes of the input from s_pos on. *)
Record stream := { s_pos : N; s_end : N; s_rest : bytes }.

Definition stream_new : stream := {| s_pos := 0; s_end := tlen; s_rest := text |}.

(* Stream::from_substr does not check anything itself; the checks the later slicing would do
   are made here (start <= end <= len), so that [s_pos <= s_end <= tlen] holds of every stream *)
Definition stream_from_substr (a e : N) : res stream :=
  if (e <? a) || (tlen <? e) then Panic P_slice
  else Ok {| s_pos := a; s_end := e; s_rest := skipn (N.to_nat a) text |}.

Definition at_end (s : stream) : bool := s_end s <=? s_pos s.

(* bytes still inside the stream: text[pos..end] *)
Definition avail (s : stream) : bytes := firstn (N.to_nat (s_end s - s_pos s)) (s_rest s).

Definition curr_byte_unchecked (s : stream) : res N :=
  match s_rest s with x :: _ => Ok x | [] => Panic P_index end.

Definition curr_byte (s : stream) : res N :=
  if at_end s then Err UnexpectedEndOfStream else curr_byte_unchecked s.

(* curr_byte().ok() *)
Definition curr_byte_opt (s : stream) : option N :=
  if at_end s then None else match s_rest s with x :: _ => Some x | [] => None end.

Definition next_byte (s : stream) : res N :=
  if s_end s <=? s_pos s + 1 then Err UnexpectedEndOfStream
  else match s_rest s with _ :: x :: _ => Ok x | _ => Panic P_index end.

(* advance: debug_assert!(pos + n <= end) *)
Definition advance (n : N) (s : stream) : res stream :=
  if s_end s <? s_pos s + n then Panic P_debug_assert
  else Ok {| s_pos := s_pos s + n; s_end := s_end s; s_rest := skipn (N.to_nat n) (s_rest s) |}.

Definition starts_with (s : stream) (p : bytes) : bool := prefix_b p (avail s).

(* ---- positions (gen_text_pos, gen_text_pos_from, calc_curr_row, calc_curr_col) ---- *)

Definition calc_row (e : N) : N := 1 + count_byte 10 (firstn (N.to_nat e) text).
Definition calc_col (e : N) : N := 1 + char_count (after_last_lf (firstn (N.to_nat e) text)).

(* gen_text_pos slices text[..pos]: panics when pos is not a char boundary *)
Definition gen_text_pos_at (p : N) : res textpos :=
  if (tlen <? p) || negb (is_boundary text p) then Panic P_slice
  else Ok (calc_row p, calc_col p).

Fixpoint floor_boundary_fuel (fuel : nat) (p : N) : N :=
  match fuel with
  | O => p
  | S fu => if is_boundary text p then p else floor_boundary_fuel fu (p - 1)
  end.
(* a char is at most 4 bytes long, so at most 3 steps back *)
Definition floor_boundary (p : N) : N := floor_boundary_fuel 4 p.

Definition gen_text_pos_from (p : N) : res textpos :=
  gen_text_pos_at (floor_boundary (N.min p tlen)).

Definition gen_text_pos (s : stream) : res textpos := gen_text_pos_at (s_pos s).

(* Document::text_pos_at *)
Definition text_pos_at (p : N) : res textpos := gen_text_pos_from p.

Definition err_at {A} (s : stream) (mk : textpos -> error) : res A :=
  let! p := gen_text_pos s in Err (mk p).
Definition err_from {A} (p : N) (mk : textpos -> error) : res A :=
  let! tp := gen_text_pos_from p in Err (mk tp).

(* ---- byte-level consumers ---- *)

Definition consume_byte (c : N) (s : stream) : res stream :=
  let! curr := curr_byte s in
  if negb (curr =? c) then err_at s (InvalidChar c curr)
  else advance 1 s.

Definition try_consume_byte (c : N) (s : stream) : bool * stream :=
  match curr_byte_opt s with
  | Some x => if x =? c then
                match advance 1 s with Ok s' => (true, s') | _ => (false, s) end
              else (false, s)
  | None => (false, s)
  end.

Definition skip_string (p : bytes) (s : stream) : res stream :=
  if negb (starts_with s p) then err_at s (InvalidString p)
  else advance (blen p) s.

(* number of leading bytes of [l] (at most [room]) that satisfy f *)
Fixpoint scan (f : N -> bool) (l : bytes) (room : nat) : nat :=
  match room, l with
  | S r, x :: t => if f x then S (scan f t r) else O
  | _, _ => O
  end.

(* skip_bytes: while !at_end && f(curr) { advance(1) } *)
Definition skip_bytes (f : N -> bool) (s : stream) : stream :=
  let n := scan f (s_rest s) (N.to_nat (s_end s - s_pos s)) in
  {| s_pos := s_pos s + N.of_nat n; s_end := s_end s; s_rest := skipn n (s_rest s) |}.

Definition slice_back (start : N) (s : stream) : res slice := mk_slice start (s_pos s).

Definition consume_bytes (f : N -> bool) (s : stream) : res (slice * stream) :=
  let s' := skip_bytes f s in
  let! sl := slice_back (s_pos s) s' in Ok (sl, s').

Definition starts_with_space (s : stream) : bool :=
  match curr_byte_opt s with Some x => byte_is_space x | None => false end.

Definition skip_spaces (s : stream) : stream := skip_bytes byte_is_space s.

Definition consume_spaces (s : stream) : res stream :=
  if at_end s then Err UnexpectedEndOfStream
  else if negb (starts_with_space s) then
    let! c := curr_byte_unchecked s in err_at s (InvalidChar2 (b "a whitespace") c)
  else Ok (skip_spaces s).

(* advance_until2: memchr2 over as_bytes() *)
Definition advance_until2 (n1 n2 : N) (s : stream) : res stream :=
  match find_idx (fun x => (x =? n1) || (x =? n2)) (avail s) with
  | Some i => advance i s
  | None => Err UnexpectedEndOfStream
  end.

(* ---- char-level consumers ---- *)

(* the next char of self.chars() = text[pos..end].chars(): None at the end *)
Definition next_char (s : stream) : res (option (N * N)) :=
  if at_end s then Ok None
  else match decode1 (s_rest s) with
       | Some (c, n) => if s_end s <? s_pos s + n then Panic P_slice else Ok (Some (c, n))
       | None => Panic P_slice
       end.

Fixpoint skip_chars_loop (fuel : nat) (f : stream -> N -> bool) (s : stream) : res stream :=
  match fuel with
  | O => OutOfFuel
  | S fu =>
    let! oc := next_char s in
    match oc with
    | None => Ok s
    | Some (c, n) =>
      if negb (char_is_char c) then err_at s (NonXmlChar c)
      else if f s c then let! s' := advance n s in skip_chars_loop fu f s'
      else Ok s
    end
  end.

Definition skip_chars (f : stream -> N -> bool) (s : stream) : res stream :=
  skip_chars_loop (S (length (s_rest s))) f s.

Definition consume_chars (f : stream -> N -> bool) (s : stream) : res (slice * stream) :=
  let! s' := skip_chars f s in
  let! sl := slice_back (s_pos s) s' in Ok (sl, s').

Fixpoint skip_name_loop (fuel : nat) (s : stream) : res stream :=
  match fuel with
  | O => OutOfFuel
  | S fu =>
    let! oc := next_char s in
    match oc with
    | None => Ok s
    | Some (c, n) => if char_is_name c then let! s' := advance n s in skip_name_loop fu s' else Ok s
    end
  end.

Definition skip_name (s : stream) : res stream :=
  let start := s_pos s in
  let! oc := next_char s in
  match oc with
  | None => Ok s
  | Some (c, n) =>
    if char_is_name_start c then
      let! s' := advance n s in skip_name_loop (S (length (s_rest s'))) s'
    else err_from start InvalidName
  end.

Definition consume_name (s : stream) : res (slice * stream) :=
  let start := s_pos s in
  let! s' := skip_name s in
  let! name := slice_back start s' in
  if slice_len name =? 0 then err_from start InvalidName
  else Ok (name, s').

(* the inner fn is_xml_name_start(name: &str) of consume_qname *)
Definition str_is_name_start (l : bytes) : bool :=
  match l with
  | [] => false
  | x :: _ => if x <? 128 then byte_is_name_start x
              else match decode1 l with Some (c, _) => char_is_name_start c | None => false end
  end.

Fixpoint consume_qname_loop (fuel : nat) (start : N) (splitter : option N) (s : stream)
  : res (option N * stream) :=
  match fuel with
  | O => OutOfFuel
  | S fu =>
    if at_end s then Ok (splitter, s)
    else
      let! x := curr_byte_unchecked s in
      if x <? 128 then
        if x =? 58 then
          match splitter with
          | None => let! s' := advance 1 s in consume_qname_loop fu start (Some (s_pos s)) s'
          | Some _ => err_from start InvalidName
          end
        else if byte_is_name x then let! s' := advance 1 s in consume_qname_loop fu start splitter s'
        else Ok (splitter, s)
      else
        let! oc := next_char s in
        match oc with
        | Some (c, n) =>
          if char_is_name c then let! s' := advance n s in consume_qname_loop fu start splitter s'
          else Ok (splitter, s)
        | None => Ok (splitter, s)
        end
  end.

Definition consume_qname (s : stream) : res (slice * slice * stream) :=
  let start := s_pos s in
  let! (splitter, s') := consume_qname_loop (S (length (s_rest s))) start None s in
  let! (prefix, local) :=
    match splitter with
    | Some sp =>
      let! p := mk_slice start sp in
      let! l := slice_back (sp + 1) s' in Ok (p, l)
    | None =>
      let! l := slice_back start s' in
      let! p := mk_slice start start in Ok (p, l)
    end in
  if negb (slice_len prefix =? 0) && negb (str_is_name_start (slice_bytes prefix))
  then err_from start InvalidName
  else if negb (str_is_name_start (slice_bytes local)) then err_from start InvalidName
  else Ok (prefix, local, s').

Definition consume_eq (s : stream) : res stream :=
  let s := skip_spaces s in
  let! s := consume_byte 61 s in
  Ok (skip_spaces s).

Definition consume_quote (s : stream) : res (N * stream) :=
  let! c := curr_byte s in
  if (c =? 39) || (c =? 34) then let! s' := advance 1 s in Ok (c, s')
  else err_at s (InvalidChar2 (b "a quote") c).

(* ---- references ---- *)

Inductive reference := RefEntity (name : slice) | RefChar (c : N).

Fixpoint digits_val (radix : N) (l : bytes) (acc : N) : N :=
  match l with [] => acc | x :: r => digits_val radix r (acc * radix + hex_val x) end.

(* consume_reference: None when malformed.  (The stream is left somewhere inside the
   reference in that case; no caller looks at it afterwards.) *)
Definition consume_reference (s : stream) : res (option (reference * stream)) :=
  let '(ok, s) := try_consume_byte 38 s in
  if negb ok then Ok None else
  let '(is_num, s) := try_consume_byte 35 s in
  let! r :=
    if is_num then
      let '(is_hex, s) := try_consume_byte 120 s in
      let! (value, s) := consume_bytes (if is_hex then is_ascii_hexdigit else is_ascii_digit) s in
      let digits := slice_bytes value in
      match digits with
      | [] => Ok None                                   (* from_str_radix("") is an error *)
      | _ =>
        let n := digits_val (if is_hex then 16 else 10) digits 0 in
        if u32_max <? n then Ok None                    (* overflow *)
        else
          let c := if is_scalar n then n else 65533 in  (* char::from_u32(n).unwrap_or(U+FFFD) *)
          if negb (char_is_char c) then Ok None else Ok (Some (RefChar c, s))
      end
    else
      match consume_name s with
      | Ok (name, s) =>
        let nb := slice_bytes name in
        let r := if bytes_eqb nb (b "quot") then RefChar 34
                 else if bytes_eqb nb (b "amp") then RefChar 38
                 else if bytes_eqb nb (b "apos") then RefChar 39
                 else if bytes_eqb nb (b "lt") then RefChar 60
                 else if bytes_eqb nb (b "gt") then RefChar 62
                 else RefEntity name in
        Ok (Some (r, s))
      | Err _ => Ok None
      | Panic p => Panic p
      | OutOfFuel => OutOfFuel
      end in
  match r with
  | None => Ok None
  | Some (r, s) =>
    match consume_byte 59 s with
    | Ok s' => Ok (Some (r, s'))
    | Err _ => Ok None
    | Panic p => Panic p
    | OutOfFuel => OutOfFuel
    end
  end.

(* ---- is_xml_str / is_xml_str_unicode ---- *)

Fixpoint is_xml_str_ascii (l : bytes) (i : N) : res unit :=
  match l with
  | [] => Ok tt
  | x :: r => if negb (byte_is_char x) then err_from i (NonXmlChar x) else is_xml_str_ascii r (i + 1)
  end.

Fixpoint is_xml_str_unicode (fuel : nat) (l : bytes) (i : N) : res unit :=
  match fuel with
  | O => OutOfFuel
  | S fu =>
    match l with
    | [] => Ok tt
    | _ =>
      match decode1 l with
      | None => Panic P_slice
      | Some (c, n) =>
        if negb (char_is_char c) then err_from i (NonXmlChar c)
        else is_xml_str_unicode fu (skipn (N.to_nat n) l) (i + n)
      end
    end
  end.

Definition is_xml_str (sl : slice) (value_start : N) : res unit :=
  let l := slice_bytes sl in
  if forallb (fun x => x <? 128) l then is_xml_str_ascii l value_start
  else is_xml_str_unicode (S (length l)) l value_start.

End WithText.
