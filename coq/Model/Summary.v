(* Summary.v -- a numeric digest of a parse result, evaluated both inside Coq (vm_compute)
   and by the extracted OCaml code; the two must agree (spot check of the extraction). *)
From RX.Model Require Import Base Stream Tokenizer Doc Builder Parse.

Definition opt_code (o : option N) : N := match o with None => 0 | Some x => x + 1 end.
Definition kind_code (k : node_kind) : N :=
  match k with KRoot => 0 | KElement _ _ _ _ => 1 | KPI _ _ => 2 | KComment _ => 3 | KText _ => 4 end.

Definition node_digest (text : bytes) (nd : node_data) : list N :=
  [kind_code (nd_kind nd); opt_code (nd_parent nd); opt_code (nd_prev_sibling nd);
   opt_code (nd_next_subtree nd); opt_code (nd_last_child nd); fst (nd_range nd); snd (nd_range nd)]
  ++ match nd_kind nd with
     | KText s => blen (storage_bytes text s) :: storage_bytes text s
     | _ => []
     end.

Definition summary (text : bytes) (opt : options) : list N :=
  match parse text opt with
  | Ok d => 1 :: len_N (d_nodes d) :: len_N (d_attrs d) :: len_N (d_ns_tree d)
            :: concat (map (node_digest text) (d_nodes d))
  | Err e => [2; fst (error_pos e); snd (error_pos e)]
  | Panic _ => [3]
  | OutOfFuel => [4]
  end.
