(* Base.v -- results, errors, byte strings, UTF-8.  No proofs in Model/. *)
From Coq Require Import Ascii String.
From Coq Require Export List NArith Bool.
Export ListNotations.
Open Scope N_scope.

Arguments N.add : simpl never.
Arguments N.sub : simpl never.
Arguments N.mul : simpl never.
Arguments N.eqb : simpl never.
Arguments N.ltb : simpl never.
Arguments N.leb : simpl never.

(** * Byte strings *)

Definition bytes := list N.

(* string literal -> bytes (used for the keywords the source tests with starts_with) *)
Definition b (s : string) : bytes := map N_of_ascii (list_ascii_of_string s).
Arguments b s%string.

Fixpoint bytes_eqb (x y : bytes) : bool :=
  match x, y with
  | [], [] => true
  | a :: x', c :: y' => (a =? c) && bytes_eqb x' y'
  | _, _ => false
  end.

(* lexicographic byte order, as [str::cmp] *)
Fixpoint bytes_cmp (x y : bytes) : comparison :=
  match x, y with
  | [], [] => Eq
  | [], _ :: _ => Lt
  | _ :: _, [] => Gt
  | a :: x', c :: y' => match a ?= c with Eq => bytes_cmp x' y' | o => o end
  end.

Fixpoint prefix_b (p l : bytes) : bool :=
  match p, l with
  | [], _ => true
  | a :: p', c :: l' => (a =? c) && prefix_b p' l'
  | _ :: _, [] => false
  end.

Definition blen (l : bytes) : N := N.of_nat (length l).

(* text[a..b) *)
Definition sub (t : bytes) (a e : N) : bytes :=
  firstn (N.to_nat (e - a)) (skipn (N.to_nat a) t).

Fixpoint mem_b (x : N) (l : bytes) : bool :=
  match l with [] => false | y :: r => (x =? y) || mem_b x r end.

(* first index of a byte satisfying f: memchr / memchr2 as their specification *)
Fixpoint find_idx (f : N -> bool) (l : bytes) : option N :=
  match l with
  | [] => None
  | y :: r => if f y then Some 0 else match find_idx f r with Some i => Some (i + 1) | None => None end
  end.

(* does [needle] occur in [l] (str::contains) *)
Fixpoint contains_b (needle l : bytes) : bool :=
  match l with
  | [] => match needle with [] => true | _ => false end
  | _ :: r => prefix_b needle l || contains_b needle r
  end.

Definition ends_with_byte (c : N) (l : bytes) : bool :=
  match rev l with x :: _ => x =? c | [] => false end.

(** * UTF-8 *)

Definition is_cont (x : N) : bool := (128 <=? x) && (x <? 192).

(* first scalar of a byte string and its encoded length; [None] on an empty or malformed head.
   The input of the parser is a Rust &str, i.e. valid UTF-8, so on the inputs that matter this
   is exactly [str::chars().next()]. *)
Definition decode1 (l : bytes) : option (N * N) :=
  match l with
  | [] => None
  | b0 :: r =>
    if b0 <? 128 then Some (b0, 1)
    else if b0 <? 192 then None
    else if b0 <? 224 then
      match r with
      | b1 :: _ => if is_cont b1 then Some ((b0 mod 32) * 64 + (b1 mod 64), 2) else None
      | _ => None end
    else if b0 <? 240 then
      match r with
      | b1 :: b2 :: _ =>
        if is_cont b1 && is_cont b2
        then Some (((b0 mod 16) * 64 + (b1 mod 64)) * 64 + (b2 mod 64), 3) else None
      | _ => None end
    else if b0 <? 248 then
      match r with
      | b1 :: b2 :: b3 :: _ =>
        if is_cont b1 && is_cont b2 && is_cont b3
        then Some ((((b0 mod 8) * 64 + (b1 mod 64)) * 64 + (b2 mod 64)) * 64 + (b3 mod 64), 4)
        else None
      | _ => None end
    else None
  end.

Definition encode_utf8 (c : N) : bytes :=
  if c <? 128 then [c]
  else if c <? 2048 then [192 + c / 64; 128 + c mod 64]
  else if c <? 65536 then [224 + c / 4096; 128 + (c / 64) mod 64; 128 + c mod 64]
  else [240 + c / 262144; 128 + (c / 4096) mod 64; 128 + (c / 64) mod 64; 128 + c mod 64].

Definition is_scalar (c : N) : bool :=
  (c <? 55296) || ((57343 <? c) && (c <? 1114112)).

(* strict validator (what [String::from_utf8] checks): shortest form, no surrogates, <= 10FFFF *)
Fixpoint valid_utf8_fuel (fuel : nat) (l : bytes) : bool :=
  match fuel with
  | O => false
  | S fu =>
    match l with
    | [] => true
    | _ =>
      match decode1 l with
      | None => false
      | Some (c, n) =>
        is_scalar c && bytes_eqb (encode_utf8 c) (firstn (N.to_nat n) l)
        && valid_utf8_fuel fu (skipn (N.to_nat n) l)
      end
    end
  end.
Definition valid_utf8_b (l : bytes) : bool := valid_utf8_fuel (S (length l)) l.

(* [str::is_char_boundary] *)
Definition is_boundary (t : bytes) (p : N) : bool :=
  if p =? 0 then true
  else match nth_error t (N.to_nat p) with
       | None => p =? blen t
       | Some x => negb (is_cont x)
       end.

Fixpoint count_byte (c : N) (l : bytes) : N :=
  match l with [] => 0 | x :: r => (if x =? c then 1 else 0) + count_byte c r end.

(* number of chars of a valid UTF-8 string = number of non-continuation bytes *)
Fixpoint char_count (l : bytes) : N :=
  match l with [] => 0 | x :: r => (if is_cont x then 0 else 1) + char_count r end.

(* the part of [l] after its last LF (all of [l] if there is none) *)
Fixpoint after_last_lf_acc (acc l : bytes) : bytes :=
  match l with
  | [] => acc
  | x :: r => if x =? 10 then after_last_lf_acc r r else after_last_lf_acc acc r
  end.
Definition after_last_lf (l : bytes) : bytes := after_last_lf_acc l l.

(** * Positions, errors, results *)

Definition textpos := (N * N)%type.          (* row, col; both 1-based *)

Inductive error :=
| InvalidXmlPrefixUri (p : textpos)
| UnexpectedXmlUri (p : textpos)
| UnexpectedXmlnsUri (p : textpos)
| InvalidElementNamePrefix (p : textpos)
| DuplicatedNamespace (s : bytes) (p : textpos)
| UnknownNamespace (s : bytes) (p : textpos)
| UnexpectedCloseTag (expected actual : bytes) (p : textpos)
| UnexpectedEntityCloseTag (p : textpos)
| UnknownEntityReference (s : bytes) (p : textpos)
| MalformedEntityReference (p : textpos)
| EntityReferenceLoop (p : textpos)
| InvalidAttributeValue (p : textpos)
| DuplicatedAttribute (s : bytes) (p : textpos)
| NoRootNode
| UnclosedRootNode
| UnexpectedDeclaration (p : textpos)
| DtdDetected
| NodesLimitReached
| AttributesLimitReached
| NamespacesLimitReached
| InvalidName (p : textpos)
| NonXmlChar (c : N) (p : textpos)
| InvalidChar (expected actual : N) (p : textpos)
| InvalidChar2 (expected : bytes) (actual : N) (p : textpos)
| InvalidString (expected : bytes) (p : textpos)
| InvalidExternalID (p : textpos)
| InvalidComment (p : textpos)
| InvalidCharacterData (p : textpos)
| UnknownToken (p : textpos)
| UnexpectedEndOfStream.

(* [Error::pos] *)
Definition error_pos (e : error) : textpos :=
  match e with
  | InvalidXmlPrefixUri p | UnexpectedXmlUri p | UnexpectedXmlnsUri p
  | InvalidElementNamePrefix p | DuplicatedNamespace _ p | UnknownNamespace _ p
  | UnexpectedCloseTag _ _ p | UnexpectedEntityCloseTag p | UnknownEntityReference _ p
  | MalformedEntityReference p | EntityReferenceLoop p | InvalidAttributeValue p
  | DuplicatedAttribute _ p | UnexpectedDeclaration p | InvalidName p | NonXmlChar _ p
  | InvalidChar _ _ p | InvalidChar2 _ _ p | InvalidString _ p | InvalidExternalID p
  | InvalidComment p | InvalidCharacterData p | UnknownToken p => p
  | NoRootNode | UnclosedRootNode | DtdDetected | NodesLimitReached
  | AttributesLimitReached | NamespacesLimitReached | UnexpectedEndOfStream => (1, 1)
  end.

(* Every place where the Rust source can panic is a place where the model returns [Panic]. *)
Inductive panic_site :=
| P_index           (* slice / Vec index out of range *)
| P_slice           (* str slicing: order, bounds or char boundary *)
| P_unwrap          (* unwrap / expect on None or Err *)
| P_unreachable     (* unreachable!() *)
| P_debug_assert    (* debug_assert! (debug builds) *)
| P_overflow.       (* integer overflow (debug builds) / truncating cast guarded by debug_assert *)

Inductive res (A : Type) :=
| Ok (a : A)
| Err (e : error)
| Panic (s : panic_site)
| OutOfFuel.
Arguments Ok {A} a.
Arguments Err {A} e.
Arguments Panic {A} s.
Arguments OutOfFuel {A}.

Definition bind {A B} (r : res A) (f : A -> res B) : res B :=
  match r with
  | Ok a => f a
  | Err e => Err e
  | Panic s => Panic s
  | OutOfFuel => OutOfFuel
  end.

Notation "'let!' x ':=' e 'in' k" := (bind e (fun x => k))
  (at level 200, x pattern, e at level 100, k at level 200, right associativity).

Definition total {A} (r : res A) : Prop :=
  match r with Ok _ | Err _ => True | _ => False end.

Definition u32_max : N := 4294967295.
Definition u16_max : N := 65535.
Definition u8_max : N := 255.

(* list update *)
Fixpoint list_upd {A} (l : list A) (i : nat) (f : A -> A) : option (list A) :=
  match l, i with
  | [], _ => None
  | x :: r, O => Some (f x :: r)
  | x :: r, S j => match list_upd r j f with Some r' => Some (x :: r') | None => None end
  end.

Definition len_N {A} (l : list A) : N := N.of_nat (length l).
(* the bound test first, so that a huge index is never converted to a unary number *)
Definition nth_N {A} (l : list A) (i : N) : option A :=
  if len_N l <=? i then None else nth_error l (N.to_nat i).
