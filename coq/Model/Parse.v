(* Parse.v -- parse.rs: XmlEvents::token for Context, process_text (which re-enters the
   tokenizer on the value of an entity) and parse(). *)
From Coq Require Import Ascii String.
From RX Require Import Generated.
From RX.Model Require Import Base CharClass Stream Tokenizer Doc Builder.

Section WithText.
Variable text : bytes.

Notation stream := Stream.stream.

(* the part of Context::token that does not involve text: generic in how Text is processed *)
Definition token_with (ptext : slice -> range -> context -> res context) (tk : token) (c : context)
  : res context :=
  match tk with
  | TPI target value r =>
    let! c := reset_after_text text c in
    let! (_, c) := append_node (KPI target value) r c in Ok c
  | TComment t r =>
    let! c := reset_after_text text c in
    let! (_, c) := append_node (KComment t) r c in Ok c
  | TEntityDecl name value =>
    Ok (set_entities c (c_entities c ++ [{| en_name := name; en_value := value |}]))
  | TElementStart prefix local start =>
    let! c := reset_after_text text c in
    if bytes_eqb (slice_bytes text prefix) xmlns_str
    then err_from text (start + 1) InvalidElementNamePrefix
    else Ok (set_tag_name c {| tn_prefix := prefix; tn_name := local; tn_pos := start;
                               tn_prefix_pos := start + 1 |})
  | TAttribute r qname_len eq_len prefix local value =>
    process_attribute text r qname_len eq_len prefix local value c
  | TElementEnd e r =>
    let! c := reset_after_text text c in
    process_element text e r c
  | TText t r => ptext t r c
  | TCdata t r => process_cdata text t r c
  end.

Fixpoint push_char_bytes_text (bs : bytes) (in_entity : bool) (t : text_buffer) : text_buffer :=
  match bs with
  | [] => t
  | x :: r =>
    push_char_bytes_text r in_entity
      (if in_entity then tb_push_from_text x t else tb_push_raw x t)
  end.

(* process_text, given the function that parses the content of an entity value *)
Definition process_text_with
           (pc : stream -> context -> res (stream * context))
           (t : slice) (r : range) (c : context) : res context :=
  let tb := slice_bytes text t in
  if negb (existsb (fun x => (x =? 38) || (x =? 13)) tb) then append_text (CowBorrowed t) r c
  else
    let! s0 := stream_from_substr text (fst r) (snd r) in
    let! (buf, c) :=
      (fix loop (fuel : nat) (s : stream) (buf : text_buffer) (c : context) {struct fuel}
         : res (text_buffer * context) :=
         match fuel with
         | O => OutOfFuel
         | S fu =>
           if at_end s then Ok (buf, c) else
           let! (ch, s) := parse_next_chunk text s (c_entities c) in
           match ch with
           | ChByte x => loop fu s (tb_push_from_text x buf) c
           | ChChar cp =>
             loop fu s (push_char_bytes_text (encode_utf8 cp) (0 <? ld_depth (c_ld c)) buf) c
           | ChText value =>
             let! c := if negb (tb_is_empty buf)
                       then let! bs := tb_finish buf in append_text (CowOwned bs) r c
                       else Ok c in
             let! ld := inc_references text s (c_ld c) in
             let! ld := inc_depth text s ld in
             let c := set_ld c ld in
             let! es := stream_from_substr text (sl_start value) (sl_end value) in
             let prev_tag_name := c_tag_name c in
             let prev_floor := c_entity_floor c in
             let c := set_entity_floor (set_tag_name c tag_name_null) (len_N (c_parent_prefixes c)) in
             let! (_, c) := pc es c in
             if negb (len_N (c_parent_prefixes c) =? c_entity_floor c) then Err UnexpectedEndOfStream
             else
               let c := set_entity_floor (set_tag_name c prev_tag_name) prev_floor in
               let c := set_ld c (dec_depth (c_ld c)) in
               loop fu s tb_new c
           end
         end) (S (length (s_rest s0))) s0 tb_new c in
    if negb (tb_is_empty buf)
    then let! bs := tb_finish buf in append_text (CowOwned bs) r c
    else Ok c.

(* the mutual recursion parse_content -> token -> process_text -> parse_content,
   one level per nested entity *)
Fixpoint parse_content_lvl (lvl : nat) (s : stream) (c : context) {struct lvl}
  : res (stream * context) :=
  match lvl with
  | O => OutOfFuel
  | S lvl' =>
    parse_content text context
      (token_with (process_text_with (parse_content_lvl lvl'))) s c
  end.

Definition process_text := process_text_with (parse_content_lvl entity_levels).
Definition token := token_with process_text.

Definition xml_ns : namespace :=
  {| ns_name := Some (SStatic ns_xml_prefix); ns_uri := Borrowed (SStatic ns_xml_uri) |}.

Definition init_context (opt : options) : res context :=
  let d0 := {| d_nodes := [{| nd_parent := None; nd_prev_sibling := None; nd_next_subtree := None;
                              nd_last_child := None; nd_kind := KRoot; nd_range := (0, tlen text) |}];
               d_attrs := []; d_ns_values := []; d_ns_tree := [] |} in
  let! d := push_ns text (ns_name xml_ns) (ns_uri xml_ns) d0 in
  Ok {| c_opt := opt; c_ns_start_idx := 1; c_cur_attrs := []; c_awaiting := [];
        c_parent_prefixes := [empty_slice]; c_entities := []; c_after_text := [];
        c_parent_id := 0; c_tag_name := tag_name_null; c_entity_floor := 0;
        c_ld := ld_init; c_doc := d |}.

(* parse.rs: fn parse(text, opt) *)
Definition parse (opt : options) : res document :=
  let! c := init_context opt in
  let! c := parse_document text context token (allow_dtd opt) c in
  let d := c_doc c in
  let! it := children d 0 in
  let! has_elem := children_any_element (S (length (d_nodes d))) d it in
  if negb has_elem then Err NoRootNode
  else if 1 <? len_N (c_parent_prefixes c) then Err UnclosedRootNode
  else Ok d.

(* Document::parse(text) = parse_with_options(text, ParsingOptions::default()) *)
Definition default_options : options :=
  {| allow_dtd := default_allow_dtd; nodes_limit := default_nodes_limit |}.
Definition parse_default : res document := parse default_options.

End WithText.
