(* Doc.v -- lib.rs: the arena (Document, NodeData, NodeKind, AttributeData, Namespaces,
   StringStorage, NodeId, ShortRange) and the link accessors of Node. *)
From Coq Require Import Ascii String.
From RX Require Import Generated.
From RX.Model Require Import Base CharClass Stream Tokenizer.

(* a borrowed string: a slice of the input, or one of the crate's 'static strings *)
Inductive str :=
| SIn (s : slice)
| SStatic (bs : bytes).

(* StringStorage *)
Inductive storage :=
| Borrowed (s : str)
| Owned (bs : bytes).

Inductive node_kind :=
| KRoot
| KElement (ns_idx : option N) (local : slice) (attrs : range) (nss : range)
| KPI (target : slice) (value : option slice)
| KComment (s : slice)
| KText (s : storage).

Record node_data := {
  nd_parent : option N;
  nd_prev_sibling : option N;
  nd_next_subtree : option N;
  nd_last_child : option N;
  nd_kind : node_kind;
  nd_range : range
}.

Record attr_data := {
  ad_ns_idx : option N;
  ad_local : slice;
  ad_value : storage;
  ad_range : range;
  ad_qname_len : N;
  ad_eq_len : N
}.

(* Namespace { name: Option<&str>, uri: StringStorage } *)
Record namespace := { ns_name : option str; ns_uri : storage }.

Record document := {
  d_nodes : list node_data;
  d_attrs : list attr_data;
  d_ns_values : list namespace;
  d_ns_tree : list N          (* tree_order: indices into d_ns_values *)
}.
(* The sorted_order side table of Namespaces only serves to find an existing equal
   (name, uri) pair by binary search; it is modelled by its specification (a search of
   d_ns_values), see push_ns in Builder.v. *)

Section WithText.
Variable text : bytes.

Definition str_bytes (s : str) : bytes :=
  match s with SIn sl => slice_bytes text sl | SStatic bs => bs end.
Definition storage_bytes (s : storage) : bytes :=
  match s with Borrowed x => str_bytes x | Owned bs => bs end.

(* ---- NodeId ---- *)
(* NodeId::new(id): debug_assert!(id < u32::MAX); id + 1 *)
Definition node_id_new (id : N) : res N :=
  if u32_max <=? id then Panic P_debug_assert else Ok id.

Definition get_node (d : document) (id : N) : option node_data := nth_N (d_nodes d) id.

(* get_node(id).unwrap() *)
Definition node_unwrap (d : document) (id : N) : res N :=
  match get_node d id with Some _ => Ok id | None => Panic P_unwrap end.

Definition node_data_of (d : document) (id : N) : res node_data :=
  match get_node d id with Some nd => Ok nd | None => Panic P_index end.

Definition is_element_kind (k : node_kind) : bool :=
  match k with KElement _ _ _ _ => true | _ => false end.
Definition is_text_kind (k : node_kind) : bool :=
  match k with KText _ => true | _ => false end.

(* ---- link accessors (lib.rs: parent, prev_sibling, next_sibling, first_child, last_child).
   A Node is represented by its id; the node is assumed to exist (it was obtained from the
   document), [node_data_of] panics otherwise. *)

Definition opt_unwrap_node (d : document) (o : option N) : res (option N) :=
  match o with
  | None => Ok None
  | Some id => let! id := node_unwrap d id in Ok (Some id)
  end.

Definition parent (d : document) (id : N) : res (option N) :=
  let! nd := node_data_of d id in opt_unwrap_node d (nd_parent nd).

Definition prev_sibling (d : document) (id : N) : res (option N) :=
  let! nd := node_data_of d id in opt_unwrap_node d (nd_prev_sibling nd).

Definition last_child (d : document) (id : N) : res (option N) :=
  let! nd := node_data_of d id in opt_unwrap_node d (nd_last_child nd).

Definition next_sibling (d : document) (id : N) : res (option N) :=
  let! nd := node_data_of d id in
  match nd_next_subtree nd with
  | None => Ok None
  | Some nid =>
    let! nid := node_unwrap d nid in
    let! nnd := node_data_of d nid in
    match nd_prev_sibling nnd with
    | None => Panic P_unwrap     (* expect("next_subtree will always have a previous sibling") *)
    | Some possibly_self => if possibly_self =? id then Ok (Some nid) else Ok None
    end
  end.

Definition first_child (d : document) (id : N) : res (option N) :=
  let! nd := node_data_of d id in
  match nd_last_child nd with
  | None => Ok None
  | Some _ =>
    let! cid := node_id_new (id + 1) in
    let! cid := node_unwrap d cid in Ok (Some cid)
  end.

Definition has_children (d : document) (id : N) : res bool :=
  let! nd := node_data_of d id in
  Ok (match nd_last_child nd with Some _ => true | None => false end).

Definition has_siblings (d : document) (id : N) : res bool :=
  let! nd := node_data_of d id in
  match nd_prev_sibling nd with
  | Some _ => Ok true
  | None => let! n := next_sibling d id in Ok (match n with Some _ => true | None => false end)
  end.

Definition node_is_element (d : document) (id : N) : res bool :=
  let! nd := node_data_of d id in Ok (is_element_kind (nd_kind nd)).

(* ---- Children (lib.rs:1583-1620) as a state machine ---- *)
Record children_it := { ch_front : option N; ch_back : option N }.

Definition opt_N_eqb (x y : option N) : bool :=
  match x, y with
  | None, None => true
  | Some u, Some v => u =? v
  | _, _ => false
  end.

Definition children (d : document) (id : N) : res children_it :=
  let! f := first_child d id in
  let! l := last_child d id in
  Ok {| ch_front := f; ch_back := l |}.

Definition children_next (d : document) (it : children_it) : res (option N * children_it) :=
  if opt_N_eqb (ch_front it) (ch_back it) then
    Ok (ch_front it, {| ch_front := None; ch_back := None |})
  else
    match ch_front it with
    | None => Ok (None, {| ch_front := None; ch_back := ch_back it |})
    | Some n =>
      let! nx := next_sibling d n in
      Ok (Some n, {| ch_front := nx; ch_back := ch_back it |})
    end.

Definition children_next_back (d : document) (it : children_it) : res (option N * children_it) :=
  if opt_N_eqb (ch_back it) (ch_front it) then
    Ok (ch_back it, {| ch_front := None; ch_back := None |})
  else
    match ch_back it with
    | None => Ok (None, {| ch_front := ch_front it; ch_back := None |})
    | Some n =>
      let! pv := prev_sibling d n in
      Ok (Some n, {| ch_front := ch_front it; ch_back := pv |})
    end.

(* all items of the iterator, front to back; fuel = number of nodes + 1 *)
Fixpoint children_collect (fuel : nat) (d : document) (it : children_it) : res (list N) :=
  match fuel with
  | O => OutOfFuel
  | S fu =>
    let! (o, it') := children_next d it in
    match o with
    | None => Ok []
    | Some n => let! r := children_collect fu d it' in Ok (n :: r)
    end
  end.

Definition children_list (d : document) (id : N) : res (list N) :=
  let! it := children d id in children_collect (S (length (d_nodes d))) d it.

(* root().children().any(|n| n.is_element()) -- stops at the first element *)
Fixpoint children_any_element (fuel : nat) (d : document) (it : children_it) : res bool :=
  match fuel with
  | O => OutOfFuel
  | S fu =>
    let! (o, it') := children_next d it in
    match o with
    | None => Ok false
    | Some n =>
      let! e := node_is_element d n in
      if e then Ok true else children_any_element fu d it'
    end
  end.

End WithText.
