(* BudgetBytesTok.v -- C09, bytes: BudgetTok once more, with attributes among the ranged
   tokens and with the fact that the slices a token carries lie inside its range. *)
From Coq Require Import Ascii String.
From Coq Require Import Lia ZifyBool ZifyN ZifyNat.
From RX Require Import Generated.
From RX.Model Require Import Base CharClass Stream Tokenizer.
From RX.Proofs Require Import Tactics OptionsParam BudgetStream.
(* (independent of BudgetTok.v: same names, different token classification) *)

Definition tok_range (tk : token) : option range :=
  match tk with
  | TPI _ _ r | TComment _ r | TElementEnd _ r | TText _ r | TCdata _ r => Some r
  | TAttribute r _ _ _ _ _ => Some r
  | _ => None
  end.

(* the slices of the token lie inside its range *)
Definition tok_ok (tk : token) : Prop :=
  match tk with
  | TText t r => sl_start t = fst r /\ sl_end t = snd r
  | TCdata t r => fst r <= sl_start t /\ sl_end t <= snd r
  | TAttribute r _ _ _ _ v => fst r <= sl_start v /\ sl_start v <= sl_end v /\ sl_end v <= snd r
  | _ => True
  end.

Lemma mk_slice_spec text a e sl : mk_slice text a e = Ok sl ->
  sl_start sl = a /\ sl_end sl = e /\ a <= e.
Proof. unfold mk_slice. intros H. bsteps. cbn [sl_start sl_end]. repeat split; lia. Qed.

Lemma slice_back_spec text a s sl : slice_back text a s = Ok sl ->
  sl_start sl = a /\ sl_end sl = s_pos s /\ a <= s_pos s.
Proof. apply mk_slice_spec. Qed.

Lemma consume_chars_slice text f s sl s' : consume_chars text f s = Ok (sl, s') ->
  sl_start sl = s_pos s /\ sl_end sl = s_pos s'.
Proof.
  unfold consume_chars. intros H. bsteps. apply slice_back_spec in Hb0. tauto.
Qed.

Section BTok.
Variable text : bytes.
Variable C : Type.
Variable ev : token -> C -> res C.
Variable Inv : N -> C -> Prop.
Hypothesis Inv_mono : forall p p' c, p <= p' -> Inv p c -> Inv p' c.
Hypothesis Hev_r : forall tok r c c' p,
  tok_range tok = Some r -> tok_ok tok -> ev tok c = Ok c' -> Inv p c -> p <= fst r ->
  fst r < snd r -> Inv (snd r) c'.
Hypothesis Hev_0 : forall tok c c' p,
  tok_range tok = None -> ev tok c = Ok c' -> Inv p c -> Inv p c'.

Notation wfl := (wfl text).
Notation mvk := (mvk text).

(* [Inv q c] from some [Inv p c] with p <= q *)
Ltac mono :=
  match goal with
  | HI : Inv ?p ?c |- Inv _ ?c => apply (Inv_mono p _ c); [lia | exact HI]
  end.

(* a callback call *)
Ltac evfw :=
  match goal with
  | HI : Inv ?p ?c, H : ev ?tok ?c = Ok ?c' |- _ =>
    first [ apply (Hev_0 tok c c' p eq_refl) in H; [ | exact HI ]
          | eapply (Hev_r tok _ c c' p eq_refl) in H;
            [ cbn [fst snd] in H
            | first [ exact I | cbn [tok_ok fst snd]; repeat split; lia ]
            | exact HI | cbn [fst snd]; lia | cbn [fst snd]; lia ] ]
  end.

(* a call of a tokenizer function with the callback: [lem : f s c = Ok (s', c') -> wfl s ->
   Inv (s_pos s) c -> mvk k s s' /\ Inv (s_pos s') c'] *)
Ltac cfw H lem :=
  eapply lem in H; [ | eassumption | mono ];
  let H1 := fresh "Hm" in let H2 := fresh "Hm" in let H3 := fresh "Hm" in
  destruct H as [(H1 & H2 & H3) H].

Ltac tfin := split; [ mvfin | mono ].

(* keep what is known about the slices before the stream facts consume the hypotheses *)
Ltac harvest :=
  match goal with
  | H : slice_back _ _ _ = Ok _ |- _ =>
    apply slice_back_spec in H; destruct H as (? & ? & ?)
  | H : consume_chars _ _ ?s = Ok (?sl, ?s') |- _ =>
    lazymatch goal with
    | _ : sl_start sl = s_pos s |- _ => fail
    | _ => let H1 := fresh "Hsl" in let H2 := fresh "Hsl" in
           pose proof (consume_chars_slice _ _ _ _ _ H) as [H1 H2]
    end
  end.

Ltac trun p := bsteps; repeat first [progress gen_skips | harvest | pfw | evfw | p]; try tfin.
Ltac nop := fail.

Definition tpost (k : N) (s : stream) (p : stream * C) : Prop :=
  mvk k s (fst p) /\ Inv (s_pos (fst p)) (snd p).

Lemma tp_parse_comment s c s' c' : parse_comment text C ev s c = Ok (s', c') ->
  wfl s -> Inv (s_pos s) c -> mvk 1 s s' /\ Inv (s_pos s') c'.
Proof. unfold parse_comment. intros H W HI. trun nop. Qed.

Lemma tp_parse_pi s c s' c' : parse_pi text C ev s c = Ok (s', c') ->
  wfl s -> Inv (s_pos s) c -> mvk 1 s s' /\ Inv (s_pos s') c'.
Proof. unfold parse_pi. intros H W HI. trun nop. Qed.

Ltac call1 :=
  idtac; match goal with
  | W : wfl ?s, H : parse_comment _ _ _ ?s _ = Ok _ |- _ => cfw H tp_parse_comment
  | W : wfl ?s, H : parse_pi _ _ _ ?s _ = Ok _ |- _ => cfw H tp_parse_pi
  end.

Lemma tp_parse_misc_loop fuel : forall s c s' c',
  parse_misc_loop text C ev fuel s c = Ok (s', c') ->
  wfl s -> Inv (s_pos s) c -> mvk 0 s s' /\ Inv (s_pos s') c'.
Proof.
  induction fuel; intros s c s' c' H W HI; [discriminate|].
  cbn [parse_misc_loop] in H. trun call1; cfw H IHfuel; tfin.
Qed.

Lemma tp_parse_misc s c s' c' : parse_misc text C ev s c = Ok (s', c') ->
  wfl s -> Inv (s_pos s) c -> mvk 0 s s' /\ Inv (s_pos s') c'.
Proof. unfold parse_misc. apply tp_parse_misc_loop. Qed.

Lemma tp_parse_entity_decl s c s' c' : parse_entity_decl text C ev s c = Ok (s', c') ->
  wfl s -> Inv (s_pos s) c -> mvk 0 s s' /\ Inv (s_pos s') c'.
Proof. unfold parse_entity_decl. intros H W HI. trun nop. Qed.

Ltac call2 :=
  idtac; first [ call1 |
  match goal with
  | W : wfl ?s, H : parse_misc _ _ _ ?s _ = Ok _ |- _ => cfw H tp_parse_misc
  | W : wfl ?s, H : parse_entity_decl _ _ _ ?s _ = Ok _ |- _ => cfw H tp_parse_entity_decl
  end ].

Lemma tp_parse_doctype_loop fuel : forall st s c s' c',
  parse_doctype_loop text C ev fuel st s c = Ok (s', c') ->
  wfl s -> Inv (s_pos s) c -> mvk 0 s s' /\ Inv (s_pos s') c'.
Proof.
  induction fuel; intros st s c s' c' H W HI; [discriminate|].
  cbn [parse_doctype_loop] in H. trun call2; cfw H IHfuel; tfin.
Qed.

Lemma tp_parse_doctype s c s' c' : parse_doctype text C ev s c = Ok (s', c') ->
  wfl s -> Inv (s_pos s) c -> mvk 0 s s' /\ Inv (s_pos s') c'.
Proof.
  unfold parse_doctype. intros H W HI. trun call2. cfw H tp_parse_doctype_loop. tfin.
Qed.

Lemma tp_parse_element_loop fuel : forall ts s c o s' c',
  parse_element_loop text C ev fuel ts s c = Ok (o, s', c') ->
  wfl s -> Inv (s_pos s) c -> mvk 0 s s' /\ Inv (s_pos s') c'.
Proof.
  induction fuel; intros ts s c o s' c' H W HI; [discriminate|].
  cbn [parse_element_loop] in H. trun nop; cfw H IHfuel; tfin.
Qed.

Lemma tp_parse_element s c o s' c' : parse_element text C ev s c = Ok (o, s', c') ->
  wfl s -> Inv (s_pos s) c -> mvk 1 s s' /\ Inv (s_pos s') c'.
Proof.
  unfold parse_element. intros H W HI. trun nop. cfw H tp_parse_element_loop. tfin.
Qed.

Lemma tp_parse_cdata s c s' c' : parse_cdata text C ev s c = Ok (s', c') ->
  wfl s -> Inv (s_pos s) c -> mvk 1 s s' /\ Inv (s_pos s') c'.
Proof. unfold parse_cdata. intros H W HI. trun nop. Qed.

Lemma tp_parse_close_element s c s' c' : parse_close_element text C ev s c = Ok (s', c') ->
  wfl s -> Inv (s_pos s) c -> mvk 1 s s' /\ Inv (s_pos s') c'.
Proof. unfold parse_close_element. intros H W HI. trun nop. Qed.

(* parse_text: progress, or the stream did not move at all *)
Lemma tp_parse_text s c s' c' : parse_text text C ev s c = Ok (s', c') ->
  wfl s -> Inv (s_pos s) c ->
  (s_pos s < s_pos s' /\ mvk 0 s s' /\ Inv (s_pos s') c') \/ s' = s.
Proof.
  unfold parse_text. intros H W HI. bsteps.
  pose proof (consume_chars_slice _ _ _ _ _ Hb) as [Hsl1 Hsl2].
  eapply mv_consume_chars in Hb; [|eassumption]. destruct Hb as [(? & ? & ?) [->|Hp]];
    [right; reflexivity|left].
  evfw. split; [assumption|]. split; [mvfin|assumption].
Qed.

(* the stream part of the result of parse_text does not depend on the callback state *)
Lemma parse_text_stream s c1 c2 s1 s2 c1' c2' :
  parse_text text C ev s c1 = Ok (s1, c1') -> parse_text text C ev s c2 = Ok (s2, c2') -> s1 = s2.
Proof.
  unfold parse_text. intros H1 H2. bsteps. congruence.
Qed.

(* a stream on which parse_text does not move never finishes *)
Lemma stuck_content_loop s x fuel : forall depth c r,
  at_end s = false -> curr_byte_unchecked s = Ok x -> (x =? 60) = false ->
  (forall c c' s', parse_text text C ev s c = Ok (s', c') -> s' = s) ->
  parse_content_loop text C ev fuel depth s c = Ok r -> False.
Proof.
  induction fuel; intros depth c r He Hx Hne Hst H; [discriminate|].
  cbn [parse_content_loop] in H. rewrite He, Hx in H. cbn [bind] in H. rewrite Hne in H.
  apply bind_ok in H. destruct H as [[s1 c1] [H1 H]].
  apply Hst in H1. subst s1. eapply IHfuel; eauto.
Qed.

Ltac call3 :=
  idtac; first [ call2 |
  match goal with
  | W : wfl ?s, H : parse_doctype _ _ _ ?s _ = Ok _ |- _ => cfw H tp_parse_doctype
  | W : wfl ?s, H : parse_element _ _ _ ?s _ = Ok _ |- _ => cfw H tp_parse_element
  | W : wfl ?s, H : parse_cdata _ _ _ ?s _ = Ok _ |- _ => cfw H tp_parse_cdata
  | W : wfl ?s, H : parse_close_element _ _ _ ?s _ = Ok _ |- _ => cfw H tp_parse_close_element
  end ].

Lemma tp_parse_content_loop fuel : forall depth s c s' c',
  parse_content_loop text C ev fuel depth s c = Ok (s', c') ->
  wfl s -> Inv (s_pos s) c -> mvk 0 s s' /\ Inv (s_pos s') c'.
Proof.
  induction fuel; intros depth s c s' c' H W HI; [discriminate|].
  cbn [parse_content_loop] in H.
  destruct (at_end s) eqn:He; [inversion H; subst; split; [apply mvk_refl|]; assumption|].
  apply bind_ok in H. destruct H as [x [Hx H]]. cbv beta in H.
  destruct (x =? 60) eqn:E60.
  - trun call3; try (cfw H IHfuel; tfin).
  - apply bind_ok in H. destruct H as [[s1 c1] [H1 H]].
    destruct (tp_parse_text _ _ _ _ H1 W HI) as [(Hp & (? & ? & ?) & ?)| ->].
    + cfw H IHfuel. tfin.
    + exfalso. eapply (stuck_content_loop s x fuel depth c1); eauto.
      intros d d' t Ht. eapply parse_text_stream; eauto.
Qed.

Lemma tp_parse_content s c s' c' : parse_content text C ev s c = Ok (s', c') ->
  wfl s -> Inv (s_pos s) c -> mvk 0 s s' /\ Inv (s_pos s') c'.
Proof. unfold parse_content. apply tp_parse_content_loop. Qed.

Ltac call4 :=
  idtac; first [ call3 |
  match goal with
  | W : wfl ?s, H : parse_content _ _ _ ?s _ = Ok _ |- _ => cfw H tp_parse_content
  end ].

Theorem tp_parse_document dtd c c' : parse_document text C ev dtd c = Ok c' ->
  Inv 0 c -> exists p, p <= tlen text /\ Inv p c'.
Proof.
  unfold parse_document. intros H HI.
  assert (W := wfl_new text).
  assert (HI0 : Inv (s_pos (stream_new text)) c) by exact HI.
  set (s0 := stream_new text) in *.
  assert (E0 : s_end s0 = tlen text) by reflexivity.
  clearbody s0. clear HI.
  trun call4;
  match goal with
  | HI : Inv ?p c', W : wfl ?s |- _ => exists p; split; [ | exact HI ]
  end; unfold BudgetStream.wfl in *; lia.
Qed.

End BTok.
