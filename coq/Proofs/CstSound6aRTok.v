(* Proofs/CstSound6uRTok.v -- CstSoundPRTok.v re-instantiated on Frag6a (markup-valued declarations in the table,
   never referenced).  References to declared
   entities used in the body: the text token and the attribute value, with the Unicode pieces of
   Spec/CstFull.v (epieces), their well-formedness for the table of the declarations
   (E.level decls 10), and -- for a value -- what is stored (by the completeness lemma
   CstFullS3Attr.normalize_attribute_ent_u and determinism). *)
From Coq Require Import String.
From Coq Require Import List Arith NArith Bool Lia ZifyBool ZifyN ZifyNat.
Import ListNotations.
From RX Require Import Generated.
From RX.Model Require Import Base CharClass Stream Tokenizer Doc Builder Parse.
From RX.Spec Require Cst Chars CstU CstNs CstText CstEnt Scope Detector.
From RX.Spec Require Import CstFull CstFullS5.
From RX.Proofs Require Import Tactics CstLex CstULex CstTextLex.
From RX.Proofs Require CstEntText CstEntBuild CstEntRun CstFullS2Sem CstFullS2Lex CstFullS2Build WfParse BorrowParse CstTextBuild CstFullS3Attr.
From RX.Proofs Require Import DetectorProofs CstEntSem CstEntMeaning CstEntRejSem CstEntRejLevel CstFullS3Sem CstFullS3Text.
From RX.Proofs Require Import CstSound CstSoundT CstSoundTLex CstSoundULex CstSoundBuild CstSoundTBuild CstSoundTText.
From RX.Proofs Require Import CstSoundN CstSoundNLex CstSoundNBuild CstSoundNText.
From RX.Proofs Require Import CstSoundP CstSoundPEnt CstSoundPLex CstSoundPBuild CstSoundPText CstSoundPRef.
From RX.Proofs Require CstFullS4TSem CstFullS4Attr.
From RX.Proofs Require Import CstSound6 CstSound6U CstSound6aLex CstSound6aText CstSound6aRText.
Open Scope N_scope.

Section RTok.
Variable text : bytes.
Hypothesis HF : Frag6a text.
Variable decls : list E.edecl.
Variable ets : list entity.
Hypothesis Henv : Forall2 (uent_ok text) decls ets.
Hypothesis Hdecls : Forall CstFullS4TSem.udecl_okc decls.
Hypothesis Hmk : forall d its, In d decls -> E.e_value d = E.EContent its ->
  mem_b 60 (E.r_value (E.e_value d)) = true /\ Forall (fun y => y <> 38) (E.r_value (E.e_value d)).
Hypothesis Hvals : forall d vps, In d decls -> E.e_value d = E.EText vps -> NoMk decls (E.r_epieces vps).
Hypothesis Hnames : Forall (fun d => uname (E.e_name d)) decls.
Notation W := (CstLex.W text).
Notation WV := (CstULex.WV text).
Notation sb := (slice_bytes text).
Notation T_ := (Parse.token text).
Notation SimP := (CstSoundPBuild.SimP text ets).
Notation tb := (E.level decls E.max_level).

Lemma SimP_tframe c c' stk : SimP c stk -> tframe c c' -> c_ld c' = ld_init -> SimP c' stk.
Proof.
  intros [S1 S2 S3 S4 S5 S6 S7] (A1 & A2 & A3 & A4 & A5 & K & A6 & A7) Hld. constructor.
  - rewrite A6, A1. apply chainN_app. exact S1.
  - rewrite A2. exact S2.
  - rewrite A3. exact S3.
  - rewrite A4. exact S4.
  - eapply NsOk_eq; eauto.
  - destruct A5 as (E1 & _ & E3). rewrite E1, E3. exact S6.
  - exact Hld.
Qed.

Lemma run_back tr ld' k fa ie ps Q : E.inline_ps (E.level decls k) fa ie ps = Some (Q, tr) ->
  ld_run ld_init tr = Some ld' -> ld' = ld_init /\ limits_ok tr = true.
Proof.
  intros Hi Hr. pose proof (bal_ps _ (balT_level decls k) _ _ _ _ _ Hi) as Hb. split.
  - apply (CstEntBuild.ld_run_init tr ld' Hr). rewrite (ld_run_bal tr Hb _ _ Hr). reflexivity.
  - exact (limits_of_run tr ld' Hb Hr).
Qed.

Lemma step_text_r p cs more c c' stk : WV p (utf8s cs ++ more) -> raw_text_ok_n cs -> NoMk decls (utf8s cs) -> SimP c stk ->
  T_ (TText (sl p (p + blen (utf8s cs))) (p, p + blen (utf8s cs))) c = Ok c' ->
  SimP c' stk /\ nseq c c' /\ (exists K, erows c' = erows c ++ K /\ nonelemK K) /\
  exists ps, utf8s cs = E.r_epieces (enc_epieces ps) /\ erun_parts decls ps.
Proof.
  intros HWV Hraw HNo HS H. unfold Parse.token, token_with, process_text in H.
  assert (HVx : U8.Valid (utf8s cs)) by (apply Valid_uchars; apply Hraw).
  destruct (ptok_skel text HF decls ets Henv Hdecls Hmk Hvals Hnames entity_levels _ _ _ _ _ HWV HVx HNo (sn_ent _ _ _ _ HS) H)
    as (ps & Q & tr & E1 & Hps & Hi & Hr & HQ & TF).
  rewrite (sn_ld _ _ _ _ HS) in Hr.
  change entity_levels with (2 + 10)%nat in Hi. pose proof (lower decls _ _ _ _ _ _ _ 2%nat Hi Hr) as Hi10.
  assert (HiT : E.inline_ps tb false false ps = Some (Q, tr)) by exact Hi10.
  destruct (run_back _ _ _ _ _ _ _ Hi10 Hr) as (Ld & Hlim).
  split; [exact (SimP_tframe _ _ _ HS TF Ld)|]. split; [apply TF|]. split; [apply TF|].
  destruct (decoded_etext cs ps Hraw E1 Hps) as (ps' & Eps & A & B0 & C0).
  exists ps'. split; [rewrite Eps; exact E1|]. split; [exact A|]. split; [exact B0|]. split; [exact C0|].
  exists Q, tr. rewrite Eps. split; [exact HiT|]. split; [exact Hlim|apply no13_nocr; exact HQ].
Qed.

Lemma no_cdata_of q ps' : forallb (wf_uepiece q false false false) ps' = true ->
  Forall (fun p => CstEntRun.is_ecdata p = false) ps'.
Proof.
  intros H. apply Forall_forall. intros p Hp. rewrite forallb_forall in H. specialize (H _ Hp).
  destruct p as [[| | |]|]; try reflexivity. cbn in H. discriminate.
Qed.

(* the value of an attribute or of a namespace declaration: its pieces, and what is stored *)
Lemma value_r p v q more c val c1 : WV p (utf8s v ++ [q] ++ more) -> uchars v ->
  Forall (fun x => x <> 60 /\ x <> q) v -> q = 39 \/ q = 34 -> c_entities c = ets -> c_ld c = ld_init ->
  normalize_attribute text (sl p (p + blen (utf8s v))) c = Ok (val, c1) ->
  c1 = c /\ exists ps, utf8s v = E.r_epieces (enc_epieces ps) /\ wf_eval tb q ps = true /\
                        storage_bytes text val = eval_sem tb ps.
Proof.
  intros HWV Hu Hb Hq Hent Hld H. pose proof (WV_W _ _ _ HWV) as HW.
  assert (BP : exists ps Q tr ld', utf8s v = E.r_epieces ps /\ beps_ok ps /\
             E.inline_ps (E.level decls 11) true false ps = Some (Q, tr) /\ ld_run ld_init tr = Some ld' /\ no13 Q /\
             (CstTextBuild.needs_norm (utf8s v) = false -> ps = lit_eps (utf8s v))).
  { pose proof H as H'. unfold normalize_attribute in H'. cbv zeta in H'. rewrite (W_slice text _ _ _ HW) in H'.
    fold (CstTextBuild.needs_norm (utf8s v)) in H'.
    destruct (CstTextBuild.needs_norm (utf8s v)) eqn:Ee.
    - ib H' q0 Hq0. destruct q0 as [t ld]. clear H'.
      rewrite Hent, Hld in Hq0. unfold entity_levels in Hq0. rewrite WfParse.norm_attr_lvl_eq in Hq0.
      cbn [sl sl_start sl_end] in Hq0. destruct (stream_from_substr_ws text p (utf8s v) ([q] ++ more) HW) as (Es & HWS).
      rewrite Es in Hq0. cbn [bind] in Hq0.
      assert (HV : exists dn, U8.Valid (dn ++ utf8s v)) by (exists []; apply Valid_uchars; exact Hu).
      destruct (nattr_skel text HF decls ets Henv Hdecls Hmk Hvals Hnames _ _ _ _ _ _ _ _ _ _ HWS HV Hq0) as (ps & Q & tr & E1 & Hps & Hi & Hr & HQ).
      exists ps, Q, tr, ld. split; [exact E1|]. split; [exact Hps|]. split; [exact Hi|]. split; [exact Hr|]. split; [exact HQ|discriminate].
    - assert (H38 : Forall (fun x => x <> 38) (utf8s v)).
      { apply (no38 (fun x => (x =? 38) || (x =? 9) || (x =? 10) || (x =? 13))); [intros x ->; reflexivity|exact Ee]. }
      destruct (lit_eps_ok (E.level decls 11) true false (utf8s v) H38 (W_no13_all text HF _ _ _ HW)) as (E1 & E2 & E3 & E4).
      eexists (lit_eps (utf8s v)), _, [], ld_init. split; [symmetry; exact E1|]. split; [exact E2|]. split; [exact E3|].
      split; [reflexivity|]. split; [exact E4|reflexivity]. }
  destruct BP as (ps & Q & tr & ld' & Eps & Hps & Hi & Hr & HQ & Hplain).
  change 11%nat with (1 + 10)%nat in Hi. pose proof (lower decls _ _ _ _ _ _ _ 1%nat Hi Hr) as Hi10.
  assert (HiT : E.inline_ps tb true false ps = Some (Q, tr)) by exact Hi10.
  destruct (run_back _ _ _ _ _ _ _ Hi10 Hr) as (_ & Hlim).
  destruct (decoded_evalue q v ps ltac:(lia) Hu Hb Eps Hps) as (ps' & Eenc & Hwf).
  pose proof Hwf as Hwf0. unfold wf_uepieces in Hwf0. apply andb_true_iff in Hwf0. destruct Hwf0 as [Hfa Hadj].
  pose proof (decoded_uep q false false ps' ltac:(lia) Hfa (no_cdata_of q ps' Hfa)) as Huep.
  assert (HWV' : WV p (E.r_epieces (enc_epieces ps') ++ [q] ++ more)) by (rewrite Eenc, <- Eps; exact HWV).
  destruct (run_back _ _ _ _ _ _ _ Hi10 Hr) as (Eld' & _).
  destruct (CstFullS4Attr.normalize_attribute_gu text [] HD0 decls ets Henv Hdecls p (enc_epieces ps') q more c 10 Q tr ld' false
                HWV' Huep ltac:(rewrite enc_no_adjacent_elit; exact Hadj) ltac:(rewrite Hld; reflexivity) ltac:(rewrite Eenc; exact Hi10)
                (nocr_crlf _ (no13_nocr _ HQ)) ltac:(rewrite Hld; exact Hr) Hent) as (Hfw & _).
  assert (Esl : set_ld c ld' = c) by (rewrite Eld', <- Hld; apply CstTextBuild.set_ld_same).
  rewrite Esl in Hfw.
  rewrite Eenc, <- Eps in Hfw. rewrite Hfw in H. injection H as <- <-.
  split; [reflexivity|]. exists ps'. split; [rewrite Eenc; exact Eps|].
  assert (Hev : eval_sem tb ps' = T.value_sem Q) by (unfold eval_sem; rewrite Eenc, HiT; reflexivity).
  split.
  { unfold wf_eval. rewrite Hwf, Eenc, HiT, Hlim, (nocr_crlf _ (no13_nocr _ HQ)). reflexivity. }
  rewrite Hev. destruct (CstTextBuild.needs_norm (utf8s v)) eqn:En; [reflexivity|].
  cbn [storage_bytes str_bytes]. rewrite (W_slice text _ _ _ HW).
  specialize (Hplain eq_refl). subst ps.
  assert (H38 : Forall (fun x => x <> 38) (utf8s v)).
  { apply (no38 (fun x => (x =? 38) || (x =? 9) || (x =? 10) || (x =? 13))); [intros x ->; reflexivity|exact En]. }
  destruct (lit_eps_ok (E.level decls 10) true false (utf8s v) H38 (W_no13_all text HF _ _ _ HW)) as (_ & _ & E3 & _).
  rewrite E3 in Hi10. injection Hi10 as <- _.
  destruct (utf8s v) as [|y t] eqn:Ev; [reflexivity|].
  symmetry. rewrite Eenc in Huep. cbn [lit_eps] in Huep. inversion Huep as [|? ? Hh _]; subst. cbn [uep_ok] in Hh. destruct Hh as [Hbv _].
  pose proof (CstFullS2Build.value_plain_u 60 [T.PLit (y :: t)] ltac:(constructor; [exact Hbv|constructor])) as Hvp.
  cbn [T.r_pieces flat_map T.r_piece] in Hvp. rewrite app_nil_r in Hvp. apply Hvp. exact En.
Qed.

End RTok.
