(* Proofs/ErrShiftMidCont.v -- C14 (whitespace inserted inside the prolog), part 3: the rest of
   parse_document from a head of the loop of the first parse_misc ("an insertion point"):
   - [misc_steps n]: n rounds of that loop (n comments / processing instructions);
   - [cont]: the rest of parse_document from such a loop head;
   - the frame property of [cont] (ErrShiftMidFrame.v);
   - [cont] on A0 ++ W ++ U from the position blen A0 (W whitespace) against [cont] on U from 0. *)
From Coq Require Import Ascii String.
From Coq Require Import List Arith NArith Bool Lia ZifyBool ZifyN ZifyNat.
Import ListNotations.
From RX Require Import Generated.
From RX.Model Require Import Base CharClass Stream Tokenizer Doc Builder Parse.
From RX.Proofs Require Import Tactics NoPanicUtf8 NoPanicStream BorrowLocal BorrowParse OptionsParam
  RangeShiftBase RangeShiftStream RangeShiftTokenizer RangeShiftBuilder RangeShiftParse
  ErrShiftBase ErrShiftStream ErrShiftTokenizer ErrShiftBuilder ErrShiftParse
  ErrShiftMidGen ErrShiftMidFrame.
Open Scope N_scope.

(* ------------------------------------------------------------------ *)
Section ContDef.
Variable text : bytes.
Variable C : Type.
Variable ev : Tokenizer.token -> C -> res C.

(* parse_document after its first parse_misc *)
Definition doc_tail (dtd : bool) (x : stream * C) : res C :=
  let s := skip_spaces (fst x) in
  let! x :=
    if starts_with s (b "<!DOCTYPE") then
      if negb dtd then Err DtdDetected
      else
        let! x := parse_doctype text C ev s (snd x) in
        parse_misc text C ev (fst x) (snd x)
    else Ok (s, snd x) in
  let s := skip_spaces (fst x) in
  let! x :=
    if match curr_byte_opt s with Some y => y =? 60 | None => false end then
      let! y := parse_element text C ev s (snd x) in
      if fst (fst y) then parse_content text C ev (snd (fst y)) (snd y) else Ok (snd (fst y), snd y)
    else Ok (s, snd x) in
  let! x := parse_misc text C ev (fst x) (snd x) in
  if negb (at_end (fst x)) then err_at text (fst x) UnknownToken
  else Ok (snd x).

(* ... from a head of the loop of the first parse_misc *)
Definition cont (dtd : bool) (fuel : nat) (s : stream) (c : C) : res C :=
  let! x := parse_misc_loop text C ev fuel s c in doc_tail dtd x.

Definition doc_start : res stream :=
  let s := stream_new text in
  let! s := if starts_with s [239; 187; 191] then advance 3 s else Ok s in
  if starts_with_declaration s then parse_declaration text s else Ok s.

Lemma parse_document_cont dtd c :
  parse_document text C ev dtd c =
  let! s := doc_start in cont dtd (S (length (s_rest s))) s c.
Proof.
  unfold parse_document, doc_start, cont. cbv zeta.
  destruct (if starts_with (stream_new text) [239; 187; 191] then _ else _) as [s1| | |]; cbn [bind]; try reflexivity.
  destruct (if starts_with_declaration s1 then _ else _) as [s2| | |]; cbn [bind]; try reflexivity.
  change (parse_misc text C ev s2 c) with (parse_misc_loop text C ev (S (length (s_rest s2))) s2 c).
  destruct (parse_misc_loop text C ev (S (length (s_rest s2))) s2 c) as [[s3 c3]| | |]; cbn [bind]; try reflexivity.
  unfold doc_tail. cbn [fst snd].
  destruct (starts_with (skip_spaces s3) (b "<!DOCTYPE")).
  - destruct (negb dtd); [reflexivity|].
    destruct (parse_doctype text C ev (skip_spaces s3) c3) as [[s4 c4]| | |]; cbn [bind fst snd]; try reflexivity.
    destruct (parse_misc text C ev s4 c4) as [[s5 c5]| | |]; cbn [bind fst snd]; try reflexivity.
    destruct (match curr_byte_opt (skip_spaces s5) with Some y => y =? 60 | None => false end); cbn [bind fst snd].
    + destruct (parse_element text C ev (skip_spaces s5) c5) as [[[o s6] c6]| | |]; cbn [bind fst snd]; try reflexivity.
      destruct o.
      * destruct (parse_content text C ev s6 c6) as [[s7 c7]| | |]; cbn [bind fst snd]; try reflexivity.
        destruct (parse_misc text C ev s7 c7) as [[s8 c8]| | |]; reflexivity.
      * cbn [bind fst snd]. destruct (parse_misc text C ev s6 c6) as [[s8 c8]| | |]; reflexivity.
    + destruct (parse_misc text C ev (skip_spaces s5) c5) as [[s8 c8]| | |]; reflexivity.
  - cbn [bind fst snd].
    destruct (match curr_byte_opt (skip_spaces (skip_spaces s3)) with Some y => y =? 60 | None => false end); cbn [bind fst snd].
    + destruct (parse_element text C ev (skip_spaces (skip_spaces s3)) c3) as [[[o s6] c6]| | |]; cbn [bind fst snd]; try reflexivity.
      destruct o.
      * destruct (parse_content text C ev s6 c6) as [[s7 c7]| | |]; cbn [bind fst snd]; try reflexivity.
        destruct (parse_misc text C ev s7 c7) as [[s8 c8]| | |]; reflexivity.
      * cbn [bind fst snd]. destruct (parse_misc text C ev s6 c6) as [[s8 c8]| | |]; reflexivity.
    + destruct (parse_misc text C ev (skip_spaces (skip_spaces s3)) c3) as [[s8 c8]| | |]; reflexivity.
Qed.

(* n rounds of the loop of parse_misc, each of which finds a comment or a processing instruction *)
Fixpoint misc_steps (n : nat) (s : stream) (c : C) : option (stream * C) :=
  match n with
  | O => Some (s, c)
  | S n' =>
    if at_end s then None else
    let s1 := skip_spaces s in
    if starts_with s1 (b "<!--") then
      match parse_comment text C ev s1 c with Ok x => misc_steps n' (fst x) (snd x) | _ => None end
    else if starts_with s1 (b "<?") then
      match parse_pi text C ev s1 c with Ok x => misc_steps n' (fst x) (snd x) | _ => None end
    else None
  end.

Lemma misc_steps_loop : forall n s c s' c', misc_steps n s c = Some (s', c') ->
  forall fu, parse_misc_loop text C ev (n + fu) s c = parse_misc_loop text C ev fu s' c'.
Proof.
  induction n as [|n IH]; intros s c s' c' H fu; cbn [misc_steps] in H.
  - injection H as <- <-. reflexivity.
  - cbn [Nat.add parse_misc_loop]. destruct (at_end s); [discriminate|]. cbv zeta in *.
    destruct (starts_with (skip_spaces s) (b "<!--")).
    + destruct (parse_comment text C ev (skip_spaces s) c) as [[s1 c1]| | |]; try discriminate.
      cbn [bind fst snd] in *. apply IH. exact H.
    + destruct (starts_with (skip_spaces s) (b "<?")); [|discriminate].
      destruct (parse_pi text C ev (skip_spaces s) c) as [[s1 c1]| | |]; try discriminate.
      cbn [bind fst snd] in *. apply IH. exact H.
Qed.

(* with too little fuel the loop cannot do the n rounds *)
Lemma misc_steps_fuel : forall n s c s' c', misc_steps n s c = Some (s', c') ->
  forall fu, (fu <= n)%nat -> parse_misc_loop text C ev fu s c = OutOfFuel.
Proof.
  induction n as [|n IH]; intros s c s' c' H fu Hle.
  - replace fu with O by lia. reflexivity.
  - destruct fu as [|fu]; [reflexivity|]. cbn [misc_steps] in H. cbn [parse_misc_loop].
    destruct (at_end s); [discriminate|]. cbv zeta in *.
    destruct (starts_with (skip_spaces s) (b "<!--")).
    + destruct (parse_comment text C ev (skip_spaces s) c) as [[s1 c1]| | |]; try discriminate.
      cbn [bind fst snd] in *. eapply IH; [exact H|lia].
    + destruct (starts_with (skip_spaces s) (b "<?")); [|discriminate].
      destruct (parse_pi text C ev (skip_spaces s) c) as [[s1 c1]| | |]; try discriminate.
      cbn [bind fst snd] in *. eapply IH; [exact H|lia].
Qed.

(* more fuel does not change a result that is not OutOfFuel *)
Lemma misc_loop_mono : forall fu1 fu2 s c, (fu1 <= fu2)%nat ->
  parse_misc_loop text C ev fu1 s c <> OutOfFuel ->
  parse_misc_loop text C ev fu2 s c = parse_misc_loop text C ev fu1 s c.
Proof.
  induction fu1 as [|fu1 IH]; intros fu2 s c Hle Hne; [cbn in Hne; congruence|].
  destruct fu2 as [|fu2]; [lia|]. cbn [parse_misc_loop] in *.
  destruct (at_end s); [reflexivity|]. cbv zeta in *.
  destruct (starts_with (skip_spaces s) (b "<!--")).
  { destruct (parse_comment text C ev (skip_spaces s) c) as [[s1 c1]| | |]; cbn [bind] in *; try reflexivity.
    apply IH; [lia|exact Hne]. }
  destruct (starts_with (skip_spaces s) (b "<?")); [|reflexivity].
  destruct (parse_pi text C ev (skip_spaces s) c) as [[s1 c1]| | |]; cbn [bind] in *; try reflexivity.
  apply IH; [lia|exact Hne].
Qed.

Lemma cont_mono dtd fu1 fu2 s c : (fu1 <= fu2)%nat -> cont dtd fu1 s c <> OutOfFuel ->
  cont dtd fu2 s c = cont dtd fu1 s c.
Proof.
  intros Hle Hne. unfold cont in *.
  rewrite (misc_loop_mono fu1 fu2 s c Hle); [reflexivity|].
  intros E. rewrite E in Hne. apply Hne. reflexivity.
Qed.

End ContDef.

(* ------------------------------------------------------------------ *)
(* the frame property of [cont] *)
Section ContFrame.
Variable text : bytes.
Variable olds : list (node_kind * range).
Hypothesis Holds : Forall (fun o => ntext (fst o)) olds.
Notation tk := (Parse.token text).
Notation Inv := (Inv olds).
Notation pc := (pc olds).
Notation gp := (gp olds).
Notation RF := (RF olds).

Lemma tk_RF : forall tok c1 c2, RF c1 c2 -> grel False NoRootNode RF QT (tk tok c1) (tk tok c2).
Proof. apply ev_RF. intros tok c HI. apply token_fr; assumption. Qed.

Lemma QT_ok : forall (tok : Tokenizer.token) (c c' : context), tk tok c = Ok c' -> QT c -> QT c'.
Proof. intros; exact I. Qed.

Lemma misc_loop_fr fu s c : Inv c ->
  fsim (fun x => Inv (snd x)) gp (parse_misc_loop text context tk fu s c) (parse_misc_loop text context tk fu s (pc c)).
Proof.
  intros HI. eapply (grel_fsim2 olds NoRootNode).
  apply (b_parse_misc_loop text context context tk tk False NoRootNode RF QT tk_RF QT_ok).
  split; [exact HI|reflexivity].
Qed.

Lemma parse_misc_fr s c : Inv c ->
  fsim (fun x => Inv (snd x)) gp (parse_misc text context tk s c) (parse_misc text context tk s (pc c)).
Proof. intros HI. unfold parse_misc. apply misc_loop_fr. exact HI. Qed.

Lemma parse_doctype_fr s c : Inv c ->
  fsim (fun x => Inv (snd x)) gp (parse_doctype text context tk s c) (parse_doctype text context tk s (pc c)).
Proof.
  intros HI. eapply (grel_fsim2 olds NoRootNode).
  apply (b_parse_doctype text context context tk tk False NoRootNode RF QT tk_RF QT_ok).
  split; [exact HI|reflexivity].
Qed.

Lemma parse_element_fr s c : Inv c ->
  fsim (fun x => Inv (snd x)) gp (parse_element text context tk s c) (parse_element text context tk s (pc c)).
Proof.
  intros HI. eapply (grel_fsim2 olds NoRootNode).
  apply (b_parse_element text context context tk tk False NoRootNode RF QT tk_RF QT_ok).
  split; [exact HI|reflexivity].
Qed.

Lemma parse_content_fr s c : Inv c ->
  fsim (fun x => Inv (snd x)) gp (parse_content text context tk s c) (parse_content text context tk s (pc c)).
Proof.
  intros HI. eapply (grel_fsim2 olds NoRootNode).
  apply (b_parse_content text context context tk tk False NoRootNode RF QT tk_RF QT_ok).
  split; [exact HI|reflexivity].
Qed.

Lemma doc_tail_fr dtd s c : Inv c ->
  fsim Inv pc (doc_tail text context tk dtd (s, c)) (doc_tail text context tk dtd (s, pc c)).
Proof.
  intros HI. unfold doc_tail. cbn [fst snd]. cbv zeta.
  eapply fsim_bind with (I := fun x => Inv (snd x)) (g := gp).
  { destruct (starts_with _ _); [|split; [exact HI|reflexivity]].
    destruct (negb dtd); [reflexivity|].
    eapply fsim_bind; [apply parse_doctype_fr; exact HI|]. intros [s1 c1] H1. cbn [ErrShiftMidFrame.gp fst snd] in *.
    apply parse_misc_fr. exact H1. }
  intros [s1 c1] H1. cbn [ErrShiftMidFrame.gp fst snd] in *.
  eapply fsim_bind with (I := fun x => Inv (snd x)) (g := gp).
  { destruct (match curr_byte_opt _ with Some _ => _ | None => _ end); [|split; [exact H1|reflexivity]].
    eapply fsim_bind; [apply parse_element_fr; exact H1|]. intros [[o s2] c2] H2. cbn [ErrShiftMidFrame.gp fst snd] in *.
    destruct o; [apply parse_content_fr; exact H2|split; [exact H2|reflexivity]]. }
  intros [s2 c2] H2. cbn [ErrShiftMidFrame.gp fst snd] in *.
  eapply fsim_bind; [apply parse_misc_fr; exact H2|]. intros [s3 c3] H3. cbn [ErrShiftMidFrame.gp fst snd] in *.
  destruct (negb _); [apply fsim_err_at|split; [exact H3|reflexivity]].
Qed.

Lemma cont_fr dtd fu s c : Inv c ->
  fsim Inv pc (cont text context tk dtd fu s c) (cont text context tk dtd fu s (pc c)).
Proof.
  intros HI. unfold cont.
  eapply fsim_bind; [apply misc_loop_fr; exact HI|]. intros [s1 c1] H1. cbn [ErrShiftMidFrame.gp fst snd] in *.
  apply doc_tail_fr. exact H1.
Qed.

End ContFrame.

(* ------------------------------------------------------------------ *)
(* [cont] on (A0 ++ W) ++ U from the loop head at blen A0, against [cont] on U from 0 *)
Section ContShift.
Variable A0 W U : bytes.
Hypothesis HW : forallb byte_is_space W = true.
Hypothesis Hvalid : valid_utf8_b U = true.
Variable C : Type.
Variable ev1 ev2 : Tokenizer.token -> C -> res C.
Variable fc : C -> C.
Notation A := (A0 ++ W).
Notation text2 := (A ++ U).
Notation k := (blen A).
Notation shs := (sh_s k).
Notation rsimE := (rsimE A U).
Notation shp := (shp A C fc).
Notation she := (she A C fc).
Hypothesis Hev : forall tok c, tok_wf tok -> rsimE fc (ev1 tok c) (ev2 (sh_tok k tok) (fc c)).

(* the stream of text2 at the loop head *)
Definition sQ : stream := {| s_pos := blen A0; s_end := tlen text2; s_rest := W ++ U |}.

Lemma sQ_eq : sQ = sh_s (blen A0) (stream_new (W ++ U)).
Proof.
  unfold sQ, sh_s, stream_new. cbn [s_pos s_end s_rest]. f_equal. unfold tlen, blen. rewrite !app_length. lia.
Qed.

Lemma sh_s_add a c s : sh_s a (sh_s c s) = sh_s (c + a) s.
Proof. unfold sh_s. cbn [s_pos s_end s_rest]. f_equal; lia. Qed.

Lemma blen_A : k = blen W + blen A0.
Proof. unfold blen. rewrite app_length. lia. Qed.

Lemma skip_sQ : skip_spaces sQ = shs (skip_spaces (stream_new U)).
Proof.
  rewrite sQ_eq, (skip_spaces_sh A0), (skip_spaces_init W U HW), sh_s_add, blen_A. reflexivity.
Qed.

Ltac sync1 :=
  rewrite ?(at_end_sh A), ?(starts_with_sh A), ?(curr_byte_opt_sh A), ?(starts_with_space_sh A),
          ?(skip_spaces_sh A), ?s_rest_sh, ?s_pos_sh.
Ltac sync := repeat (progress sync1).
Ltac use L := solve [eapply L; try eassumption].

Lemma misc_head_shE fu c :
  rsimE shp (parse_misc_loop U C ev1 (S fu) (stream_new U) c)
        (parse_misc_loop text2 C ev2 (S fu) sQ (fc c)).
Proof.
  assert (HWc : W = [] \/ exists w W', W = w :: W') by (destruct W; eauto).
  destruct HWc as [EW|(w & W' & EW)].
  { (* no whitespace in front: the loop head itself is shifted *)
    replace sQ with (shs (stream_new U)).
    - use parse_misc_loop_shE.
    - rewrite sQ_eq. rewrite EW. cbn [app]. rewrite app_nil_r. reflexivity. }
  cbn [parse_misc_loop].
  assert (A2 : at_end sQ = false).
  { unfold at_end, sQ, tlen, blen. cbn [s_pos s_end]. rewrite EW, !app_length. cbn [length]. lia. }
  cbv zeta. rewrite A2, skip_sQ. sync.
  destruct (at_end (stream_new U)) eqn:A1.
  { assert (Et : U = []).
    { unfold at_end, stream_new, tlen, blen in A1. cbn in A1. destruct U; [reflexivity|]. cbn [length] in A1. lia. }
    clear A2. revert Hvalid Hev A1. rewrite Et. intros Hvalid' Hev' A1.
    change (skip_spaces (stream_new [])) with (stream_new []).
    change (starts_with (stream_new []) (b "<!--")) with false.
    change (starts_with (stream_new []) (b "<?")) with false. reflexivity. }
  destruct (starts_with (skip_spaces (stream_new U)) (b "<!--")).
  { eapply rsimE_bind; [use parse_comment_shE|]. intros [s4 c4] _. use parse_misc_loop_shE. }
  destruct (starts_with (skip_spaces (stream_new U)) (b "<?")).
  { eapply rsimE_bind; [use parse_pi_shE|]. intros [s4 c4] _. use parse_misc_loop_shE. }
  reflexivity.
Qed.

Lemma parse_misc_shE s c : rsimE shp (parse_misc U C ev1 s c) (parse_misc text2 C ev2 (shs s) (fc c)).
Proof. unfold parse_misc. rewrite s_rest_sh. use parse_misc_loop_shE. Qed.

Lemma doc_tail_shE dtd x : rsimE fc (doc_tail U C ev1 dtd x) (doc_tail text2 C ev2 dtd (shp x)).
Proof.
  destruct x as [s3 c3]. unfold doc_tail. cbn [ErrShiftTokenizer.shp fst snd]. cbv zeta. sync.
  eapply rsimE_bind with (f := shp).
  { destruct (starts_with (skip_spaces s3) (b "<!DOCTYPE")); [|exact eq_refl].
    destruct (negb dtd); [cbn; eexists; split; [reflexivity|apply ER_same; reflexivity]|].
    eapply rsimE_bind; [use parse_doctype_shE|]. intros [s6 c6] _. cbn [ErrShiftTokenizer.shp fst snd].
    apply parse_misc_shE. }
  intros [s5 c5] _. cbn [ErrShiftTokenizer.shp fst snd]. sync.
  eapply rsimE_bind with (f := shp).
  { destruct (match curr_byte_opt (skip_spaces s5) with Some x => x =? 60 | None => false end); [|exact eq_refl].
    eapply rsimE_bind; [use parse_element_shE|]. intros [[o s8] c8] _. cbn [ErrShiftTokenizer.she fst snd].
    destruct o; [|exact eq_refl]. use parse_content_shE. }
  intros [s7 c7] _. cbn [ErrShiftTokenizer.shp fst snd].
  eapply rsimE_bind; [apply parse_misc_shE|]. intros [s9 c9] _. cbn [ErrShiftTokenizer.shp fst snd]. sync.
  destruct (negb (at_end s9)); [|exact eq_refl].
  apply (err_at_shE A U Hvalid). pc.
Qed.

Lemma cont_shE dtd fu c :
  rsimE fc (cont U C ev1 dtd (S fu) (stream_new U) c) (cont text2 C ev2 dtd (S fu) sQ (fc c)).
Proof.
  unfold cont. eapply rsimE_bind; [apply misc_head_shE|]. intros x _. apply doc_tail_shE.
Qed.

End ContShift.
