(* Proofs/CstSound6bCls.v -- C08 soundness on stage S6, the fragment [in_fragment_6a] (Proofs/CstSound6.v): the
   CLASSIFICATION of the '<'-free literals.  The lexical layer (Proofs/CstSound6bLex.v) reads every '<'-free literal as
   character data [XText ps].  Spec/CstFullS4.v inlines an [XText] value with the character-data table, where a
   content-valued entity has no pieces: a '<'-free literal that mentions (through the binding = first declarations) a
   content-valued entity must be the content value [XContent [IText ps]] -- same bytes.  "Content-valued" is the LEAST
   set S of names closed under: the binding declaration of n has a literal with '<', or mentions a name of S.
   [exists_cls]: such a set exists (it is reached by adding one name at a time: at most as many steps as there are
   declarations) and is [Sound] (every member has a reason) and [Closed] (nothing else has one); [rc S] reclassifies a
   declaration, [rcdt S] a DOCTYPE of Spec/CstFullS6.v: rendering, well-formedness and the binding declarations are
   kept.  No parser is involved. *)
From Coq Require Import List NArith Bool Lia.
Import ListNotations.
From RX Require Import Generated.
From RX.Model Require Import Base.
From RX.Spec Require Cst Chars CstU CstNs CstText CstEnt Scope.
From RX.Spec Require Import CstFull CstFullS4 CstFullS5 CstFullS6.
From RX.Proofs Require CstFullS4Sem.
Open Scope N_scope.

Notation pd := CstFullS4Sem.pd.
Notation first_xdecl := CstFullS4Sem.first_xdecl.

Definition memn (n : bytes) (S : list bytes) : bool := existsb (E.beq n) S.
Definition is_ref_in (S : list bytes) (p : E.epiece) : bool := match p with E.ERef n => memn n S | _ => false end.
Definition refs_in (S : list bytes) (ps : list E.epiece) : bool := existsb (is_ref_in S) (enc_epieces ps).
(* the declaration is content-valued, given the content-valued names S *)
Definition crit (S : list bytes) (d : X4.xdecl) : bool :=
  match X4.x_value d with X4.XContent _ => true | X4.XText ps => refs_in S ps end.
Definition rc (S : list bytes) (d : X4.xdecl) : X4.xdecl :=
  match X4.x_value d with
  | X4.XText ps =>
    if refs_in S ps
    then {| X4.x_ws0 := X4.x_ws0 d; X4.x_ws1 := X4.x_ws1 d; X4.x_name := X4.x_name d; X4.x_ws2 := X4.x_ws2 d;
            X4.x_quote := X4.x_quote d; X4.x_value := X4.XContent [@IText epieces ps]; X4.x_ws3 := X4.x_ws3 d |}
    else d
  | X4.XContent _ => d
  end.

Lemma beq_eq a c : E.beq a c = true -> a = c.
Proof. unfold E.beq. destruct (list_eq_dec N.eq_dec a c); [auto|discriminate]. Qed.
Lemma beq_refl a : E.beq a a = true.
Proof. unfold E.beq. destruct (list_eq_dec N.eq_dec a a); [reflexivity|congruence]. Qed.

Lemma memn_cons n m S : memn n (m :: S) = E.beq n m || memn n S.
Proof. reflexivity. Qed.
Lemma memn_mono n m S : memn n S = true -> memn n (m :: S) = true.
Proof. intros H. rewrite memn_cons, H. apply orb_true_r. Qed.
Lemma refs_mono m S ps : refs_in S ps = true -> refs_in (m :: S) ps = true.
Proof.
  unfold refs_in. rewrite !existsb_exists. intros (p & Hin & Hp). exists p. split; [exact Hin|].
  destruct p as [q|n]; [discriminate|]. apply memn_mono. exact Hp.
Qed.
Lemma crit_mono m S d : crit S d = true -> crit (m :: S) d = true.
Proof. unfold crit. destruct (X4.x_value d); [apply refs_mono|auto]. Qed.

Lemma refs_in_true S ps : refs_in S ps = true -> exists n, In (E.ERef n) (enc_epieces ps) /\ memn n S = true.
Proof. unfold refs_in. rewrite existsb_exists. intros ([q|n] & Hin & Hp); [discriminate|]. eauto. Qed.
Lemma refs_in_false S ps n : refs_in S ps = false -> In (E.ERef n) (enc_epieces ps) -> memn n S = false.
Proof.
  unfold refs_in. intros H Hin. destruct (memn n S) eqn:E; [|reflexivity].
  assert (existsb (is_ref_in S) (enc_epieces ps) = true) by (apply existsb_exists; exists (E.ERef n); split; [exact Hin|exact E]). congruence.
Qed.

(* ---- what reclassification keeps ---- *)
Lemma rc_name S d : X4.x_name (rc S d) = X4.x_name d.
Proof. unfold rc. destruct (X4.x_value d) as [ps|its]; [destruct (refs_in S ps)|]; reflexivity. Qed.
Lemma rc_rvalue S d : X4.r_xvalue (X4.x_value (rc S d)) = X4.r_xvalue (X4.x_value d).
Proof.
  unfold rc. destruct (X4.x_value d) as [ps|its] eqn:Ev; [destruct (refs_in S ps)|]; rewrite ?Ev; try reflexivity.
  cbn. apply app_nil_r.
Qed.
Lemma rc_render S d : X4.r_xdecl (rc S d) = X4.r_xdecl d.
Proof.
  unfold X4.r_xdecl. rewrite rc_rvalue, rc_name. unfold rc. destruct (X4.x_value d) as [ps|its]; [destruct (refs_in S ps)|]; reflexivity.
Qed.
Lemma rc_value S d : X4.x_value (rc S d) =
  match X4.x_value d with X4.XText ps => if refs_in S ps then X4.XContent [@IText epieces ps] else X4.XText ps | v => v end.
Proof. unfold rc. destruct (X4.x_value d) as [ps|its] eqn:Ev; [destruct (refs_in S ps)|]; cbn [X4.x_value]; rewrite ?Ev; reflexivity. Qed.
Lemma rc_content S d : crit S d = true <-> exists its, X4.x_value (rc S d) = X4.XContent its.
Proof.
  rewrite rc_value. unfold crit. destruct (X4.x_value d) as [ps|its]; [destruct (refs_in S ps)|]; split; intros H; try reflexivity; eauto;
    try discriminate; destruct H as (? & H); discriminate.
Qed.

Lemma first_rc S : forall l n, first_xdecl (map (rc S) l) n = option_map (rc S) (first_xdecl l n).
Proof.
  unfold CstFullS4Sem.first_xdecl. induction l as [|d r IH]; intros n; [reflexivity|]. cbn [map find]. rewrite rc_name.
  destruct (E.beq (utf8s (X4.x_name d)) n); [reflexivity|apply IH].
Qed.
Lemma first_name l n d : first_xdecl l n = Some d -> utf8s (X4.x_name d) = n /\ In d l.
Proof. unfold CstFullS4Sem.first_xdecl. intros H. apply find_some in H. destruct H as [Hin Hb]. split; [apply beq_eq; exact Hb|exact Hin]. Qed.

(* well-formedness of the reclassified value *)
Lemma wf_up_60 q p : wf_uepiece q false true true p = true -> wf_uepiece 60 true true true p = true.
Proof.
  destruct p as [[cs|hex ds|pe|cs]|n]; cbn [wf_uepiece]; intros H; try exact H.
  - cbn [wf_utpiece wf_uvpiece] in *. apply andb_true_iff in H. destruct H as [H H3]. apply andb_true_iff in H. destruct H as [H1 _].
    rewrite H1, H3. cbn [andb]. apply andb_true_iff in H1. destruct H1 as [H1 _]. rewrite H1. reflexivity.
  - cbn [andb] in H. discriminate.
Qed.
Lemma wf_rc S d : wf_xdecl_s d = true -> wf_xdecl_s (rc S d) = true.
Proof.
  intros H. unfold wf_xdecl_s in *. rewrite rc_name. pose proof (rc_rvalue S d) as Er. pose proof (rc_value S d) as Ev.
  unfold rc in *. destruct (X4.x_value d) as [ps|its] eqn:Exv; [|rewrite Exv; exact H]. destruct (refs_in S ps) eqn:Eref; [|rewrite Exv; exact H].
  cbn [X4.x_ws0 X4.x_ws1 X4.x_name X4.x_ws2 X4.x_quote X4.x_value X4.x_ws3] in *.
  apply andb_true_iff in H. destruct H as [H H7]. apply andb_true_iff in H. destruct H as [H Hv].
  apply andb_true_iff. split; [|exact H7]. apply andb_true_iff. split; [exact H|]. clear H H7.
  unfold wf_xvalue_s in *. apply andb_true_iff in Hv. destruct Hv as [Hv1 Hv2]. apply andb_true_iff. split.
  - rewrite Er. exact Hv1.
  - cbn [forallb wf_uitem_s no_adjacent_text]. rewrite !andb_true_r. apply andb_true_iff. split.
    + destruct ps; [discriminate|reflexivity].
    + unfold wf_uepieces in *. apply andb_true_iff in Hv2. destruct Hv2 as [A B0]. rewrite B0, andb_true_r.
      apply forallb_forall. intros p Hp. rewrite forallb_forall in A. exact (wf_up_60 _ _ (A p Hp)).
Qed.

(* ---- the DOCTYPE of Spec/CstFullS6.v ---- *)
Definition rc6 (S : list bytes) (s : sdecl6) : sdecl6 := match s with XEntity e => XEntity (rc S e) | o => o end.
Definition rcdt (S : list bytes) (t : doctype6) : doctype6 :=
  {| z_ws1 := z_ws1 t; z_name := z_name t; z_ws2 := z_ws2 t; z_ext := z_ext t;
     z_subset := match z_subset t with
                 | Some u => Some {| zu_decls := map (rc6 S) (zu_decls u); zu_ws3 := zu_ws3 u; zu_ws4 := zu_ws4 u |}
                 | None => None
                 end |}.

Lemma r_rcdt S t : r_doctype6 (rcdt S t) = r_doctype6 t.
Proof.
  unfold r_doctype6, rcdt. cbn [z_ws1 z_name z_ws2 z_ext z_subset]. destruct (z_subset t) as [u|]; [|reflexivity].
  cbn [X5.r_opt]. unfold r_subset6. cbn [zu_decls zu_ws3 zu_ws4].
  assert (E : flat_map r_sdecl6 (map (rc6 S) (zu_decls u)) = flat_map r_sdecl6 (zu_decls u)).
  { induction (zu_decls u) as [|s r IH]; [reflexivity|]. cbn [map flat_map]. rewrite IH. f_equal.
    destruct s; cbn [rc6 r_sdecl6]; [apply rc_render|reflexivity]. }
  rewrite E. reflexivity.
Qed.
Lemma wf_rcdt S t : wf_doctype6 t = true -> wf_doctype6 (rcdt S t) = true.
Proof.
  unfold wf_doctype6, rcdt. cbn [z_ws1 z_name z_ws2 z_ext z_subset]. rewrite !andb_true_iff. intros [[[[A B0] C0] D] F].
  repeat split; try assumption. destruct (z_subset t) as [u|]; [|reflexivity]. cbn [X5.wf_opt] in *.
  unfold wf_subset6 in *. cbn [zu_decls zu_ws3 zu_ws4]. rewrite !andb_true_iff in F |- *. destruct F as [[F1 F2] F3].
  repeat split; try assumption. rewrite forallb_forall in F1. apply forallb_forall. intros s Hs. apply in_map_iff in Hs.
  destruct Hs as (s0 & <- & Hs0). specialize (F1 _ Hs0). destruct s0; cbn [rc6 wf_sdecl6] in *; [apply wf_rc; exact F1|exact F1].
Qed.
Lemma ge_rcdt S t : ge_decls6 (rcdt S t) = map (rc S) (ge_decls6 t).
Proof.
  unfold ge_decls6, subset_decls6, rcdt. cbn [z_subset]. destruct (z_subset t) as [u|]; [|reflexivity]. cbn [zu_decls].
  induction (zu_decls u) as [|s r IH]; [reflexivity|]. cbn [map flat_map]. rewrite IH, map_app. destruct s; reflexivity.
Qed.

(* ---- the least closed set of content-valued names ---- *)
Section Cls.
Variable xds : list X4.xdecl.

Definition Sound (S : list bytes) : Prop := forall n, memn n S = true -> exists d, first_xdecl xds n = Some d /\ crit S d = true.
Definition Closed (S : list bytes) : Prop := forall n d, first_xdecl xds n = Some d -> crit S d = true -> memn n S = true.

Definition names : list bytes := map (fun d => utf8s (X4.x_name d)) xds.
Definition cnt (S : list bytes) : nat := length (filter (fun n => negb (memn n S)) names).
(* a declaration whose name is not yet in S although its binding declaration is content-valued *)
Definition cand (S : list bytes) (d : X4.xdecl) : bool :=
  negb (memn (utf8s (X4.x_name d)) S) &&
  match first_xdecl xds (utf8s (X4.x_name d)) with Some d' => crit S d' | None => false end.

Lemma filter_len_lt {A} (f g : A -> bool) a : forall l, (forall x, g x = true -> f x = true) -> In a l -> f a = true -> g a = false ->
  (length (filter g l) < length (filter f l))%nat.
Proof.
  intros l Hgf. assert (LE : forall l0, (length (filter g l0) <= length (filter f l0))%nat).
  { induction l0 as [|x r IH]; [apply le_n|]. cbn [filter]. destruct (g x) eqn:Eg; [rewrite (Hgf _ Eg); cbn [length]; lia|].
    destruct (f x); cbn [length]; lia. }
  induction l as [|x r IH]; intros Hin Hf Hg; [destruct Hin|]. cbn [filter]. destruct Hin as [->|Hin].
  - rewrite Hf, Hg. cbn [length]. specialize (LE r). lia.
  - specialize (IH Hin Hf Hg). destruct (g x) eqn:Eg; [rewrite (Hgf _ Eg); cbn [length]; lia|]. destruct (f x); cbn [length]; lia.
Qed.

Lemma cls_step S : Sound S -> Closed S \/ exists n, Sound (n :: S) /\ (cnt (n :: S) < cnt S)%nat.
Proof.
  intros HS. destruct (find (cand S) xds) as [d|] eqn:Ef.
  - right. apply find_some in Ef. destruct Ef as [Hin Hc]. unfold cand in Hc. apply andb_true_iff in Hc. destruct Hc as [Hm Hc].
    apply negb_true_iff in Hm. set (n := utf8s (X4.x_name d)) in *.
    destruct (first_xdecl xds n) as [d'|] eqn:Ed; [|discriminate]. exists n. split.
    + intros m Hmm. rewrite memn_cons in Hmm. apply orb_true_iff in Hmm. destruct Hmm as [Hb|Hmm].
      * apply beq_eq in Hb. subst m. exists d'. split; [exact Ed|apply crit_mono; exact Hc].
      * destruct (HS m Hmm) as (dm & E1 & E2). exists dm. split; [exact E1|apply crit_mono; exact E2].
    + unfold cnt. apply (filter_len_lt _ _ n).
      * intros x Hx. apply negb_true_iff in Hx. apply negb_true_iff. rewrite memn_cons in Hx. apply orb_false_iff in Hx. apply Hx.
      * unfold names. apply in_map_iff. exists d. split; [reflexivity|exact Hin].
      * apply negb_true_iff. exact Hm.
      * apply negb_false_iff. rewrite memn_cons, beq_refl. reflexivity.
  - left. intros n d Hd Hc. destruct (first_name _ _ _ Hd) as [En Hin]. pose proof (find_none _ _ Ef d Hin) as Hn.
    unfold cand in Hn. rewrite En, Hd, Hc, andb_true_r in Hn. apply negb_false_iff in Hn. exact Hn.
Qed.

Lemma cls_iter : forall m S, Sound S -> (cnt S <= m)%nat -> exists S', Sound S' /\ Closed S'.
Proof.
  induction m as [|m IH]; intros S HS Hm.
  - destruct (cls_step S HS) as [HC|(n & _ & Hlt)]; [exists S; split; assumption|lia].
  - destruct (cls_step S HS) as [HC|(n & HS' & Hlt)]; [exists S; split; assumption|]. apply (IH (n :: S) HS'). lia.
Qed.

Theorem exists_cls : exists S, Sound S /\ Closed S.
Proof. apply (cls_iter (cnt []) []); [intros n H; discriminate|apply le_n]. Qed.

(* ---- what the classified declarations satisfy ---- *)
Variable S : list bytes.
Hypothesis HSound : Sound S.
Hypothesis HClosed : Closed S.

(* a character-data declaration mentions character-data entities only *)
Lemma cls_pure : forall d ps n d', In d (map (rc S) xds) -> X4.x_value d = X4.XText ps -> In (E.ERef n) (enc_epieces ps) ->
  first_xdecl (map (rc S) xds) n = Some d' -> exists ps', X4.x_value d' = X4.XText ps'.
Proof.
  intros d ps n d' Hin Ev Hr Hd'. apply in_map_iff in Hin. destruct Hin as (d0 & <- & Hin0).
  rewrite rc_value in Ev. destruct (X4.x_value d0) as [ps0|its0] eqn:Ev0; [|discriminate].
  destruct (refs_in S ps0) eqn:Eref; [discriminate|]. injection Ev as <-.
  pose proof (refs_in_false _ _ _ Eref Hr) as Hm.
  rewrite first_rc in Hd'. destruct (first_xdecl xds n) as [d0'|] eqn:Ed0; [|discriminate]. cbn [option_map] in Hd'. injection Hd' as <-.
  destruct (crit S d0') eqn:Ec; [rewrite (HClosed n d0' Ed0 Ec) in Hm; discriminate|].
  rewrite rc_value. unfold crit in Ec. destruct (X4.x_value d0') as [ps'|?]; [|discriminate]. rewrite Ec. eauto.
Qed.

(* a reclassified declaration mentions a content-valued entity *)
Lemma cls_imp : forall d0 ps, In d0 xds -> X4.x_value d0 = X4.XText ps -> refs_in S ps = true ->
  exists n d' its', In (E.ERef n) (enc_epieces ps) /\ first_xdecl (map (rc S) xds) n = Some d' /\ X4.x_value d' = X4.XContent its'.
Proof.
  intros d0 ps Hin Ev Href. destruct (refs_in_true _ _ Href) as (n & Hn & Hm).
  destruct (HSound n Hm) as (d1 & Hd1 & Hc). destruct (proj1 (rc_content S d1) Hc) as (its' & Eits).
  exists n, (rc S d1), its'. split; [exact Hn|]. split; [rewrite first_rc, Hd1; reflexivity|exact Eits].
Qed.
End Cls.
