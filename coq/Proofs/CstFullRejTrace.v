(* Proofs/CstFullRejTrace.v -- C09 on the capstone fragment, the declaration graph (no parser): Proofs/CstEntRejTrace.v for
   the abstract syntax of Spec/CstFullS4.v / Spec/CstFullS6.v.
   The names a document / a value refers to directly ([urefs_*]: the UTF-8 of the names, as the table of Spec/CstFullS4.v
   is keyed), reference paths in the graph of the FIRST declarations ([rpath4], [reach4], [on_cycle4]) and the number of
   expansions below a reference ([nested4]) are defined on that syntax; the trace of the 12-level unfolding
   (Proofs/CstFullRejSem.v) of a body from which a path of 11 names starts -- in particular a path into a cycle -- or
   that refers to a name with more than 255 expansions below it is outside the limits of Spec/Detector.v.
   The proofs go through Proofs/CstEntRejTrace.v: the syntax is erased to that of Spec/CstEnt.v ([ei], [ed]: names,
   layout, namespaces dropped, the references kept), the traces of the two unfoldings are the same ([sim_*]). *)
From Coq Require Import List NArith PeanoNat Bool Lia ZifyBool ZifyN ZifyNat.
Import ListNotations.
From RX Require Import Generated.
From RX.Model Require Import Base Stream Builder Parse.
From RX.Spec Require Cst CstText CstEnt Chars Detector CstNs.
From RX.Spec Require Import Text CstFull CstFullS4 CstFullS6.
From RX.Proofs Require Import DetectorProofs CstTextSem CstEntSem CstEntMeaning CstEntInline CstFullTree CstFullS4Sem.
From RX.Proofs Require Import CstFullRejSem.
From RX.Proofs Require CstEntRejSem CstEntRejTrace CstEntItems.
Open Scope N_scope.

Notation refs_ps := CstEntRejTrace.refs_ps.

(* ------------------------------------------------------------------------------------------ *)
(* the names referred to directly                                                             *)
(* ------------------------------------------------------------------------------------------ *)
Definition urefs_entries (l : list uentry) : list bytes :=
  flat_map (fun e => refs_ps (enc_epieces (e_value epieces e))) l.

Fixpoint urefs_item (i : uitem) : list bytes :=
  match i with
  | IElem _ ens _ body =>
    urefs_entries ens ++
    match body with
    | Some (cs, _) => (fix go (l : list uitem) : list bytes := match l with [] => [] | c :: r => urefs_item c ++ go r end) cs
    | None => []
    end
  | IText ps => refs_ps (enc_epieces ps)
  | _ => []
  end.

Definition urefs_items (l : list uitem) : list bytes := flat_map urefs_item l.

Definition urefs_value (v : xvalue) : list bytes :=
  match v with XText ps => refs_ps (enc_epieces ps) | XContent its => urefs_items its end.

Lemma urefs_item_elem name ens ws body :
  urefs_item (IElem name ens ws body) =
  urefs_entries ens ++ match body with Some (cs, _) => urefs_items cs | None => [] end.
Proof. destruct body as [[cs ws2]|]; [|reflexivity]. cbn [urefs_item]. reflexivity. Qed.

(* ------------------------------------------------------------------------------------------ *)
(* the graph of the first declarations                                                        *)
(* ------------------------------------------------------------------------------------------ *)
Section Graph4.
Variable decls : list xdecl.

(* the value of the (first) declaration of n refers to n' *)
Definition edge4 (n n' : bytes) : Prop :=
  exists d, first_xdecl decls n = Some d /\ In n' (urefs_value (x_value d)).

(* n heads a reference path of L names: n = n1 -> n2 -> ... -> nL *)
Inductive rpath4 : bytes -> nat -> Prop :=
| rpath4_one : forall n, rpath4 n 1
| rpath4_S : forall n n' L, edge4 n n' -> rpath4 n' L -> rpath4 n (S L).

Inductive reach4 : bytes -> bytes -> Prop :=
| reach4_refl : forall n, reach4 n n
| reach4_step : forall n m p, edge4 n m -> reach4 m p -> reach4 n p.

(* m refers to itself, directly or not *)
Definition on_cycle4 (m : bytes) : Prop := exists m', edge4 m m' /\ reach4 m' m.

(* the number of expansions below a reference to n, k levels down *)
Fixpoint nested4 (k : nat) (n : bytes) : nat :=
  match k with
  | O => 0%nat
  | S k' =>
    match first_xdecl decls n with
    | Some d => list_sum (map (fun n' => S (nested4 k' n')) (urefs_value (x_value d)))
    | None => 0%nat
    end
  end.

End Graph4.

(* ------------------------------------------------------------------------------------------ *)
(* the erasure to the syntax of Spec/CstEnt.v                                                 *)
(* ------------------------------------------------------------------------------------------ *)
Definition ee (e : uentry) : E.attr :=
  {| E.a_ws := []; E.a_name := []; E.a_ws1 := []; E.a_ws2 := []; E.a_quote := 34; E.a_value := enc_epieces (e_value epieces e) |}.

Fixpoint ei (i : uitem) : E.item :=
  match i with
  | IElem _ ens _ body =>
    E.IElem [] (map ee ens) []
      (match body with
       | Some (cs, _) => Some ((fix go (l : list uitem) : list E.item := match l with [] => [] | c :: r => ei c :: go r end) cs, [])
       | None => None
       end)
  | IText ps => E.IText (enc_epieces ps)
  | IComment _ => E.IComment []
  | IPI _ _ _ => E.IPI [] [] []
  end.

Lemma ei_elem name ens ws body :
  ei (IElem name ens ws body) =
  E.IElem [] (map ee ens) [] (match body with Some (cs, _) => Some (map ei cs, []) | None => None end).
Proof.
  destruct body as [[cs ws2]|]; reflexivity.
Qed.

Definition ev (v : xvalue) : E.evalue :=
  match v with XText ps => E.EText (enc_epieces ps) | XContent its => E.EContent (map ei its) end.

Definition ed (d : xdecl) : E.edecl :=
  {| E.e_ws0 := []; E.e_ws1 := []; E.e_name := utf8s (x_name d); E.e_ws2 := []; E.e_quote := 34;
     E.e_value := ev (x_value d); E.e_ws3 := [] |}.

Lemma refs_entries_ee ens : CstEntRejTrace.refs_attrs (map ee ens) = urefs_entries ens.
Proof.
  unfold CstEntRejTrace.refs_attrs, urefs_entries. induction ens as [|e r IH]; [reflexivity|].
  cbn [map flat_map]. rewrite IH. reflexivity.
Qed.

Lemma refs_item_ei : forall i, CstEntRejTrace.refs_item (ei i) = urefs_item i.
Proof.
  intros i. induction i as [n a w|n a w cs w2 IH|ps|bs|t s v] using fitem_ind; try reflexivity.
  - rewrite ei_elem, CstEntRejTrace.refs_item_elem, urefs_item_elem, refs_entries_ee. reflexivity.
  - rewrite ei_elem, CstEntRejTrace.refs_item_elem, urefs_item_elem, refs_entries_ee. f_equal.
    unfold CstEntRejTrace.refs_items, urefs_items. induction IH as [|c r Hc _ IHr]; [reflexivity|].
    cbn [map flat_map]. rewrite Hc, IHr. reflexivity.
Qed.

Lemma refs_items_ei cs : CstEntRejTrace.refs_items (map ei cs) = urefs_items cs.
Proof.
  unfold CstEntRejTrace.refs_items, urefs_items. induction cs as [|c r IH]; [reflexivity|].
  cbn [map flat_map]. rewrite refs_item_ei, IH. reflexivity.
Qed.

Lemma refs_value_ev v : CstEntRejTrace.refs_value (ev v) = urefs_value v.
Proof. destruct v as [ps|its]; [reflexivity|]. apply refs_items_ei. Qed.

Lemma first_decl_ed decls n : first_decl (map ed decls) n = option_map ed (first_xdecl decls n).
Proof.
  unfold first_decl, first_xdecl. induction decls as [|d r IH]; [reflexivity|]. cbn [map find].
  change (E.e_name (ed d)) with (utf8s (x_name d)). destruct (E.beq (utf8s (x_name d)) n); [reflexivity|exact IH].
Qed.

(* ---- the graph, erased ---- *)
Section GraphE.
Variable decls : list xdecl.
Notation declsE := (map ed decls).

Lemma edge_ed n n' : edge4 decls n n' -> CstEntRejTrace.edge declsE n n'.
Proof.
  intros (d & Hf & Hin). exists (ed d). split; [rewrite first_decl_ed, Hf; reflexivity|].
  change (E.e_value (ed d)) with (ev (x_value d)). rewrite refs_value_ev. exact Hin.
Qed.

Lemma rpath_ed n L : rpath4 decls n L -> CstEntRejTrace.rpath declsE n L.
Proof. induction 1 as [n|n n' L He _ IH]; [constructor|]. apply (CstEntRejTrace.rpath_S declsE n n' L (edge_ed _ _ He) IH). Qed.

Lemma reach_ed n m : reach4 decls n m -> CstEntRejTrace.reach declsE n m.
Proof. induction 1 as [n|n m p He _ IH]; [constructor|]. apply (CstEntRejTrace.reach_step declsE n m p (edge_ed _ _ He) IH). Qed.

Lemma on_cycle_ed m : on_cycle4 decls m -> CstEntRejTrace.on_cycle declsE m.
Proof. intros (m' & He & Hr). exists m'. split; [apply edge_ed; exact He|apply reach_ed; exact Hr]. Qed.

Lemma nested_ed : forall k n, CstEntRejTrace.nested declsE k n = nested4 decls k n.
Proof.
  induction k as [|k IH]; intros n; [reflexivity|]. cbn [CstEntRejTrace.nested nested4]. rewrite first_decl_ed.
  destruct (first_xdecl decls n) as [d|]; cbn [option_map]; [|reflexivity].
  change (E.e_value (ed d)) with (ev (x_value d)). rewrite refs_value_ev. f_equal. apply map_ext. intros n'. rewrite IH. reflexivity.
Qed.

End GraphE.

(* ------------------------------------------------------------------------------------------ *)
(* the two unfoldings have the same traces                                                    *)
(* ------------------------------------------------------------------------------------------ *)
Definition sndo {A} (x : option (A * list Detector.lop)) : option (list Detector.lop) := option_map snd x.

Definition TRv (o : option yval) (o' : option E.xval) : Prop :=
  match o, o' with
  | Some v, Some v' => y_pieces v = E.x_pieces v' /\ y_trace v = E.x_trace v'
  | None, None => True
  | _, _ => False
  end.

Section SimE.
Variable tbY : ytable.
Variable tbE : E.table.
Hypothesis HT : forall n, TRv (ylookup tbY n) (E.lookup tbE n).

Lemma sim_teq : teq (ptable tbY) tbE.
Proof.
  intros n. rewrite lookup_ptable. specialize (HT n). unfold TRv in HT.
  destruct (ylookup tbY n) as [v|], (E.lookup tbE n) as [v'|]; try contradiction; [|reflexivity].
  destruct HT as [H1 H2]. unfold pview. cbn [E.x_pieces E.x_trace]. rewrite H1, H2. reflexivity.
Qed.

Lemma simE_ps fa ie ps : E.inline_ps (ptable tbY) fa ie ps = E.inline_ps tbE fa ie ps.
Proof. apply inline_ps_teq. apply sim_teq. Qed.

Lemma simE_run ie : forall ps, sndo (inline_run tbY ie ps) = sndo (E.inline_run tbE ie ps).
Proof.
  induction ps as [|p ps IH]; [reflexivity|]. cbn [inline_run E.inline_run]. destruct p as [q|n].
  - destruct (inline_run tbY ie ps) as [[a ta]|], (E.inline_run tbE ie ps) as [[a' ta']|]; cbn [sndo option_map snd E.obind fst] in *; congruence.
  - specialize (HT n). unfold TRv in HT.
    destruct (ylookup tbY n) as [v|], (E.lookup tbE n) as [v'|]; try contradiction; cbn [E.obind]; [|reflexivity].
    destruct HT as [_ H2].
    destruct (inline_run tbY ie ps) as [[a ta]|], (E.inline_run tbE ie ps) as [[a' ta']|]; cbn [sndo option_map snd E.obind fst] in *; congruence.
Qed.

Lemma simE_entries ie : forall ens, sndo (inline_entries tbY ie ens) = sndo (E.inline_attrs tbE ie (map ee ens)).
Proof.
  induction ens as [|e r IH]; [reflexivity|]. cbn [map inline_entries E.inline_attrs]. unfold E.inline_attr. cbn [ee E.a_value].
  assert (Ee : sndo (inline_entry tbY ie e) = sndo (E.inline_ps tbE true ie (enc_epieces (e_value epieces e)))).
  { destruct e as [l n v|l p v]; cbn [inline_entry e_value]; rewrite simE_ps;
      destruct (E.inline_ps tbE true ie (enc_epieces v)) as [[q t]|]; reflexivity. }
  destruct (inline_entry tbY ie e) as [[e' te]|], (E.inline_ps tbE true ie (enc_epieces (e_value epieces e))) as [[q t]|];
    cbn [sndo option_map snd E.obind fst] in *; try congruence.
  injection Ee as ->.
  destruct (inline_entries tbY ie r) as [[a ta]|], (E.inline_attrs tbE ie (map ee r)) as [[a' ta']|]; cbn [sndo option_map snd E.obind fst] in *; congruence.
Qed.

Lemma simE_items_of ie cs : Forall (fun i => sndo (inline_item tbY ie i) = sndo (E.inline_item tbE ie (ei i))) cs ->
  sndo (inline_items tbY ie cs) = sndo (E.inline_items tbE ie (map ei cs)).
Proof.
  induction 1 as [|i r Hi _ IH]; [reflexivity|]. cbn [map inline_items E.inline_items].
  destruct (inline_item tbY ie i) as [[a ta]|], (E.inline_item tbE ie (ei i)) as [[a' ta']|]; cbn [sndo option_map snd E.obind fst] in *; try congruence.
  injection Hi as ->.
  destruct (inline_items tbY ie r) as [[x tx]|], (E.inline_items tbE ie (map ei r)) as [[x' tx']|]; cbn [sndo option_map snd E.obind fst] in *; congruence.
Qed.

Lemma simE_item ie : forall i, sndo (inline_item tbY ie i) = sndo (E.inline_item tbE ie (ei i)).
Proof.
  intros i. induction i as [n a w|n a w cs w2 IH|ps|bs|t s v] using fitem_ind; try reflexivity.
  - rewrite inline_item_elem, ei_elem, CstEntItems.inline_elem. pose proof (simE_entries ie a) as Ea.
    destruct (inline_entries tbY ie a) as [[x tx]|], (E.inline_attrs tbE ie (map ee a)) as [[x' tx']|]; cbn [sndo option_map snd E.obind fst] in *; congruence.
  - rewrite inline_item_elem, ei_elem, CstEntItems.inline_elem. pose proof (simE_entries ie a) as Ea.
    destruct (inline_entries tbY ie a) as [[x tx]|], (E.inline_attrs tbE ie (map ee a)) as [[x' tx']|]; cbn [sndo option_map snd E.obind fst] in *; try congruence.
    injection Ea as ->. pose proof (simE_items_of ie cs IH) as Ec.
    destruct (inline_items tbY ie cs) as [[y ty]|], (E.inline_items tbE ie (map ei cs)) as [[y' ty']|]; cbn [sndo option_map snd E.obind fst] in *; congruence.
  - cbn [inline_item ei E.inline_item]. apply simE_run.
Qed.

Lemma simE_items ie cs : sndo (inline_items tbY ie cs) = sndo (E.inline_items tbE ie (map ei cs)).
Proof. apply simE_items_of. apply Forall_forall. intros i _. apply simE_item. Qed.

Lemma simE_value v : TRv (inline_value tbY v) (E.inline_value tbE (ev v)).
Proof.
  destruct v as [ps|its]; cbn [inline_value ev E.inline_value].
  - rewrite simE_ps. destruct (E.inline_ps tbE false true (enc_epieces ps)) as [[q t]|]; cbn [E.obind TRv]; auto.
  - pose proof (simE_items true its) as Ec.
    destruct (inline_items tbY true its) as [[y ty]|], (E.inline_items tbE true (map ei its)) as [[y' ty']|];
      cbn [sndo option_map snd E.obind fst TRv y_pieces y_trace E.x_pieces E.x_trace] in *; try congruence; auto.
    injection Ec as ->. auto.
Qed.

End SimE.

Lemma TR_glevel decls : forall k n, TRv (ylookup (glevel4 decls k) n) (E.lookup (CstEntRejSem.glevel (map ed decls) k) n).
Proof.
  induction k as [|k IH]; intros n; rewrite ylookup_glevel, CstEntRejSem.lookup_glevel, first_decl_ed;
    (destruct (first_xdecl decls n) as [d|]; cbn [option_map]; [|exact I]); change (E.e_value (ed d)) with (ev (x_value d)).
  - destruct (x_value d); cbn; auto.
  - apply simE_value. exact IH.
Qed.

Lemma glevel_item_ed decls k ie i its tr : inline_item (glevel4 decls k) ie i = Some (its, tr) ->
  exists its', E.inline_item (CstEntRejSem.glevel (map ed decls) k) ie (ei i) = Some (its', tr).
Proof.
  intros H. pose proof (simE_item _ _ (TR_glevel decls k) ie i) as E0. rewrite H in E0. cbn [sndo option_map snd] in E0.
  destruct (E.inline_item (CstEntRejSem.glevel (map ed decls) k) ie (ei i)) as [[its' tr']|]; [|discriminate].
  cbn [sndo option_map snd] in E0. injection E0 as ->. eauto.
Qed.

(* ------------------------------------------------------------------------------------------ *)
(* the trace of a body                                                                        *)
(* ------------------------------------------------------------------------------------------ *)
Section Limits.
Variable decls : list xdecl.

Lemma rpath4_pos n L : rpath4 decls n L -> (1 <= L)%nat.
Proof. induction 1; lia. Qed.

Lemma rpath4_reach a c : reach4 decls a c -> forall L, rpath4 decls c L -> exists L', (L <= L')%nat /\ rpath4 decls a L'.
Proof.
  induction 1 as [n|n m p He _ IH]; intros L Hp.
  - exists L. split; [lia|exact Hp].
  - destruct (IH L Hp) as (L' & Hle & Hp'). exists (S L'). split; [lia|]. apply (rpath4_S decls n m L' He Hp').
Qed.

Lemma rpath4_le n L : rpath4 decls n L -> forall L', (1 <= L')%nat -> (L' <= L)%nat -> rpath4 decls n L'.
Proof.
  induction 1 as [n|n n' L He Hp IH]; intros L' H1 H2.
  - replace L' with 1%nat by lia. constructor.
  - destruct L' as [|[|L']]; [lia|constructor|].
    apply (rpath4_S decls n n' (S L') He). apply IH; lia.
Qed.

Lemma cycle4_paths m : on_cycle4 decls m -> forall L, exists L', (L <= L')%nat /\ rpath4 decls m L'.
Proof.
  intros (m' & He & Hr). induction L as [|L IH].
  - exists 1%nat. split; [lia|constructor].
  - destruct IH as (L' & Hle & Hp). destruct (rpath4_reach m' m Hr L' Hp) as (L2 & Hle2 & Hp2).
    exists (S L2). split; [lia|]. apply (rpath4_S decls m m' L2 He Hp2).
Qed.

Lemma cycle4_rpath n m L : reach4 decls n m -> on_cycle4 decls m -> (1 <= L)%nat -> rpath4 decls n L.
Proof.
  intros Hr Hc HL. destruct (cycle4_paths m Hc L) as (L1 & H1 & Hp1).
  destruct (rpath4_reach n m Hr L1 Hp1) as (L2 & H2 & Hp2). apply (rpath4_le n L2 Hp2); lia.
Qed.

Theorem deep_limits4 root its tr n L :
  inline_item (glevel4 decls glevels) false root = Some (its, tr) ->
  In n (urefs_item root) -> rpath4 decls n L -> (11 <= L)%nat ->
  Detector.within_limits 10 255 0 0 tr = false.
Proof.
  intros Hin Hn Hp HL. destruct (glevel_item_ed decls glevels false root its tr Hin) as [its' Hin'].
  apply (CstEntRejTrace.deep_limits (map ed decls) (ei root) its' tr n L Hin'); [rewrite refs_item_ei; exact Hn|apply rpath_ed; exact Hp|exact HL].
Qed.

Theorem budget_limits4 root its tr n :
  inline_item (glevel4 decls glevels) false root = Some (its, tr) ->
  In n (urefs_item root) -> (255 < nested4 decls glevels n)%nat ->
  Detector.within_limits 10 255 0 0 tr = false.
Proof.
  intros Hin Hn Hc. destruct (glevel_item_ed decls glevels false root its tr Hin) as [its' Hin'].
  apply (CstEntRejTrace.budget_limits (map ed decls) (ei root) its' tr n Hin'); [rewrite refs_item_ei; exact Hn|].
  change CstEntRejSem.glevels with glevels. rewrite nested_ed. exact Hc.
Qed.

End Limits.

Print Assumptions deep_limits4.
Print Assumptions budget_limits4.
