(* Proofs/NavEnc.v -- structure of the pre-order encoding [enc] / [nodes_of] of a tree:
   unfolding lemmas, the table of rows (id, parent, prev, subtree), density of ids,
   bounds, and the parent/child decomposition lemmas used by the navigation proofs. *)
From Coq Require Import List NArith Bool Lia ZifyBool ZifyN ZifyNat.
From RX.Model Require Import Base Builder.
From RX.Spec Require Import Tree.
Import ListNotations.
Open Scope N_scope.

(* ------------------------------------------------------------------ *)
(* induction principle for rose trees *)
Section TreeInd.
  Variable P : tree -> Prop.
  Hypothesis H : forall k cs, Forall P cs -> P (T k cs).
  Fixpoint tree_ind' (t : tree) : P t :=
    match t with
    | T k cs =>
      H k cs ((fix go (l : list tree) : Forall P l :=
                 match l with
                 | [] => Forall_nil P
                 | c :: r => Forall_cons c (tree_ind' c) (go r)
                 end) cs)
    end.
End TreeInd.

(* ------------------------------------------------------------------ *)
(* sizes *)
Lemma size_T k cs : size (T k cs) = 1 + sizes cs.
Proof.
  reflexivity.
Qed.

Lemma sizes_nil : sizes [] = 0.
Proof. reflexivity. Qed.

Lemma sizes_cons c r : sizes (c :: r) = size c + sizes r.
Proof. reflexivity. Qed.

Lemma sizes_app l1 l2 : sizes (l1 ++ l2) = sizes l1 + sizes l2.
Proof.
  induction l1 as [|c r IH]; cbn [app].
  - rewrite sizes_nil. lia.
  - rewrite !sizes_cons, IH. lia.
Qed.

Lemma size_pos t : 0 < size t.
Proof. destruct t as [k cs]. rewrite size_T. lia. Qed.

(* ------------------------------------------------------------------ *)
(* N_range *)
Lemma N_range_S a n : N_range a (S n) = a :: N_range (a + 1) n.
Proof. reflexivity. Qed.

Lemma N_range_length a n : length (N_range a n) = n.
Proof. revert a; induction n; intros; cbn [N_range length]; auto. Qed.

Lemma N_range_app a n m :
  N_range a (n + m) = N_range a n ++ N_range (a + N.of_nat n) m.
Proof.
  revert a; induction n as [|n IH]; intros a.
  - cbn [Nat.add N_range app]. f_equal. lia.
  - cbn [Nat.add N_range app]. f_equal. rewrite IH. f_equal. f_equal. lia.
Qed.

Lemma N_range_nth a n i :
  (i < n)%nat -> nth_error (N_range a n) i = Some (a + N.of_nat i).
Proof.
  revert a i; induction n as [|n IH]; intros a i Hi; [lia|].
  destruct i as [|i]; cbn [N_range nth_error].
  - f_equal. lia.
  - rewrite IH by lia. f_equal. lia.
Qed.

Lemma N_range_In a n x : In x (N_range a n) <-> a <= x < a + N.of_nat n.
Proof.
  revert a; induction n as [|n IH]; intros a; cbn [N_range In].
  - split; [tauto | lia].
  - rewrite IH. split.
    + intros [E | E]; lia.
    + intros E. destruct (N.eq_dec a x); [left; assumption | right; lia].
Qed.

Lemma N_range_NoDup a n : NoDup (N_range a n).
Proof.
  revert a; induction n as [|n IH]; intros a; cbn [N_range]; constructor.
  - rewrite N_range_In. lia.
  - apply IH.
Qed.

(* ------------------------------------------------------------------ *)
(* unfolding [enc] and [nodes_of] *)
Lemma enc_T n par prev id k cs :
  enc n par prev id (T k cs) =
  {| l_kind := k; l_parent := par; l_prev := prev;
     l_last := last_child_id (id + 1) cs;
     l_next_subtree := if id + size (T k cs) <? n then Some (id + size (T k cs)) else None |}
  :: enc_children n (Some id) None (id + 1) cs.
Proof.
  cbn [enc]. f_equal.
  generalize (@None N) (id + 1).
  induction cs as [|c r IH]; intros pv cid; cbn [enc_children]; [reflexivity|].
  rewrite IH. reflexivity.
Qed.

Fixpoint nodes_children (par : option N) (cid : N) (l : list tree) : list (N * option N * tree) :=
  match l with
  | [] => []
  | c :: r => nodes_of par cid c ++ nodes_children par (cid + size c) r
  end.

Lemma nodes_of_T par id k cs :
  nodes_of par id (T k cs) = (id, par, T k cs) :: nodes_children (Some id) (id + 1) cs.
Proof.
  cbn [nodes_of]. f_equal.
  generalize (id + 1).
  induction cs as [|c r IH]; intros cid; cbn [nodes_children]; [reflexivity|].
  rewrite IH. reflexivity.
Qed.

(* ------------------------------------------------------------------ *)
(* rows: the table with the previous-sibling column *)
Definition row := (N * option N * option N * tree)%type.

Definition row_id (r : row) : N := fst (fst (fst r)).
Definition row_tree (r : row) : tree := snd r.

Fixpoint rows (par prev : option N) (id : N) (t : tree) : list row :=
  match t with
  | T k cs =>
    (id, par, prev, t) ::
    (fix go (prev : option N) (cid : N) (l : list tree) : list row :=
       match l with
       | [] => []
       | c :: r => rows (Some id) prev cid c ++ go (Some cid) (cid + size c) r
       end) None (id + 1) cs
  end.

Fixpoint rows_children (par prev : option N) (cid : N) (l : list tree) : list row :=
  match l with
  | [] => []
  | c :: r => rows par prev cid c ++ rows_children par (Some cid) (cid + size c) r
  end.

Lemma rows_T par prev id k cs :
  rows par prev id (T k cs) = (id, par, prev, T k cs) :: rows_children (Some id) None (id + 1) cs.
Proof.
  cbn [rows]. f_equal.
  generalize (@None N) (id + 1).
  induction cs as [|c r IH]; intros pv cid; cbn [rows_children]; [reflexivity|].
  rewrite IH. reflexivity.
Qed.

Definition link_of (n : N) (r : row) : links :=
  let '(id, par, prev, t) := r in
  {| l_kind := tkind t; l_parent := par; l_prev := prev;
     l_last := last_child_id (id + 1) (tchildren t);
     l_next_subtree := if id + size t <? n then Some (id + size t) else None |}.

Definition drop_prev (r : row) : N * option N * tree :=
  let '(id, par, prev, t) := r in (id, par, t).

Lemma enc_rows n t : forall par prev id,
  enc n par prev id t = map (link_of n) (rows par prev id t).
Proof.
  induction t as [k cs IH] using tree_ind'; intros par prev id.
  rewrite enc_T, rows_T. cbn [map link_of tkind tchildren]. f_equal.
  generalize (@None N) (id + 1). generalize (Some id).
  induction IH as [|c r Hc Hr IHr]; intros p pv cid; cbn [enc_children rows_children map]; [reflexivity|].
  rewrite map_app, Hc, IHr. reflexivity.
Qed.

Lemma nodes_rows t : forall par prev id,
  nodes_of par id t = map drop_prev (rows par prev id t).
Proof.
  induction t as [k cs IH] using tree_ind'; intros par prev id.
  rewrite nodes_of_T, rows_T. cbn [map drop_prev]. f_equal.
  generalize (@None N) (id + 1). generalize (Some id).
  induction IH as [|c r Hc Hr IHr]; intros p pv cid; cbn [nodes_children rows_children map]; [reflexivity|].
  rewrite map_app, <- (Hc p pv cid), <- IHr. reflexivity.
Qed.

Lemma rows_ids t : forall par prev id,
  map row_id (rows par prev id t) = N_range id (N.to_nat (size t)).
Proof.
  induction t as [k cs IH] using tree_ind'; intros par prev id.
  rewrite rows_T, size_T.
  replace (N.to_nat (1 + sizes cs)) with (S (N.to_nat (sizes cs))) by lia.
  cbn [map N_range]. f_equal.
  generalize (@None N) (id + 1). generalize (Some id).
  induction IH as [|c r Hc Hr IHr]; intros p pv cid; cbn [rows_children map]; [reflexivity|].
  rewrite map_app, Hc, IHr, sizes_cons.
  replace (N.to_nat (size c + sizes r)) with (N.to_nat (size c) + N.to_nat (sizes r))%nat by lia.
  rewrite N_range_app. f_equal. f_equal. lia.
Qed.

Lemma rows_children_ids l : forall par prev cid,
  map row_id (rows_children par prev cid l) = N_range cid (N.to_nat (sizes l)).
Proof.
  induction l as [|c r IH]; intros par prev cid; cbn [rows_children map]; [reflexivity|].
  rewrite map_app, rows_ids, IH, sizes_cons.
  replace (N.to_nat (size c + sizes r)) with (N.to_nat (size c) + N.to_nat (sizes r))%nat by lia.
  rewrite N_range_app. f_equal. f_equal. lia.
Qed.

Lemma rows_length par prev id t : length (rows par prev id t) = N.to_nat (size t).
Proof.
  rewrite <- (map_length row_id), rows_ids, N_range_length. reflexivity.
Qed.

Lemma enc_length n par prev id t : length (enc n par prev id t) = N.to_nat (size t).
Proof. rewrite enc_rows, map_length. apply rows_length. Qed.

(* ------------------------------------------------------------------ *)
(* the prev column threaded through a list of children *)
Fixpoint last_id (prev : option N) (cid : N) (l : list tree) : option N :=
  match l with
  | [] => prev
  | c :: r => last_id (Some cid) (cid + size c) r
  end.

Lemma rows_head par prev id t : In (id, par, prev, t) (rows par prev id t).
Proof. destruct t as [k cs]. rewrite rows_T. left. reflexivity. Qed.

Lemma in_rows_children x l : forall par prev cid,
  In x (rows_children par prev cid l) <->
  exists l1 c l2, l = l1 ++ c :: l2 /\
                  In x (rows par (last_id prev cid l1) (cid + sizes l1) c).
Proof.
  induction l as [|c r IH]; intros par prev cid; cbn [rows_children].
  - split; [intros []|]. intros (l1 & c & l2 & E & _). destruct l1; discriminate.
  - rewrite in_app_iff, IH. split.
    + intros [Hx | (l1 & c' & l2 & E & Hx)].
      * exists [], c, r. split; [reflexivity|]. cbn [last_id].
        replace (cid + sizes []) with cid by (rewrite sizes_nil; lia). exact Hx.
      * exists (c :: l1), c', l2. split; [subst; reflexivity|]. cbn [last_id].
        replace (cid + sizes (c :: l1)) with (cid + size c + sizes l1)
          by (rewrite sizes_cons; lia).
        exact Hx.
    + intros (l1 & c' & l2 & E & Hx). destruct l1 as [|c1 l1]; cbn [app] in E; inversion E; subst.
      * left. cbn [last_id] in Hx.
        replace (cid + sizes []) with cid in Hx by (rewrite sizes_nil; lia). exact Hx.
      * right. exists l1, c', l2. split; [reflexivity|]. cbn [last_id] in Hx.
        replace (cid + sizes (c1 :: l1)) with (cid + size c1 + sizes l1) in Hx
          by (rewrite sizes_cons; lia).
        exact Hx.
Qed.

Lemma Forall_elt {A} (P : A -> Prop) l1 c l2 : Forall P (l1 ++ c :: l2) -> P c.
Proof. intros HF. rewrite Forall_forall in HF. apply HF. apply in_elt. Qed.

Lemma rows_bounds t : forall par prev id0 id p pv s,
  In (id, p, pv, s) (rows par prev id0 t) -> id0 <= id /\ id + size s <= id0 + size t.
Proof.
  induction t as [k cs IH] using tree_ind'; intros par prev id0 id p pv s Hin.
  rewrite rows_T in Hin. destruct Hin as [E | Hin].
  - inversion E; subst. lia.
  - apply in_rows_children in Hin. destruct Hin as (l1 & c & l2 & E & Hin). subst cs.
    apply Forall_elt in IH. apply IH in Hin.
    rewrite size_T, sizes_app, sizes_cons. lia.
Qed.

(* child rows of a row *)
Lemma rows_child t : forall par prev id0 p pp ppv k l1 c l2,
  In (p, pp, ppv, T k (l1 ++ c :: l2)) (rows par prev id0 t) ->
  In (p + 1 + sizes l1, Some p, last_id None (p + 1) l1, c) (rows par prev id0 t).
Proof.
  induction t as [k0 cs IH] using tree_ind'; intros par prev id0 p pp ppv k l1 c l2 Hin.
  rewrite rows_T in Hin |- *. destruct Hin as [E | Hin].
  - inversion E; subst. right. apply in_rows_children.
    exists l1, c, l2. split; [reflexivity|]. apply rows_head.
  - right. apply in_rows_children in Hin. destruct Hin as (l1' & c' & l2' & E & Hin). subst cs.
    apply Forall_elt in IH. apply IH in Hin.
    apply in_rows_children. exists l1', c', l2'. split; [reflexivity | exact Hin].
Qed.

(* the parent row of a row *)
Lemma rows_parent t : forall par prev id0 id q pv s,
  In (id, q, pv, s) (rows par prev id0 t) ->
  (id = id0 /\ q = par /\ pv = prev /\ s = t) \/
  exists p pp ppv k l1 l2,
    q = Some p /\ In (p, pp, ppv, T k (l1 ++ s :: l2)) (rows par prev id0 t) /\
    id = p + 1 + sizes l1 /\ pv = last_id None (p + 1) l1.
Proof.
  induction t as [k0 cs IH] using tree_ind'; intros par prev id0 id q pv s Hin.
  rewrite rows_T in Hin. destruct Hin as [E | Hin].
  - inversion E; subst. left. auto.
  - right. apply in_rows_children in Hin. destruct Hin as (l1 & c & l2 & E & Hin). subst cs.
    pose proof (Forall_elt _ _ _ _ IH) as IHc. apply IHc in Hin.
    destruct Hin as [(E1 & E2 & E3 & E4) | (p & pp & ppv & k & l1' & l2' & E1 & Hin & E2 & E3)].
    + subst. exists id0, par, prev, k0, l1, l2. rewrite rows_T.
      repeat split; auto. left. reflexivity.
    + exists p, pp, ppv, k, l1', l2'. repeat split; auto.
      rewrite rows_T. right. apply in_rows_children.
      exists l1, c, l2. split; [reflexivity | exact Hin].
Qed.

(* ------------------------------------------------------------------ *)
(* uniqueness of ids, lookup by id *)
Lemma NoDup_map_inj_in {A B} (f : A -> B) (l : list A) x y :
  NoDup (map f l) -> In x l -> In y l -> f x = f y -> x = y.
Proof.
  induction l as [|a l IH]; cbn [map In]; intros ND Hx Hy E; [contradiction|].
  inversion ND as [|? ? Hn ND']; subst.
  destruct Hx as [-> | Hx], Hy as [-> | Hy]; auto.
  - exfalso. apply Hn. rewrite E. apply in_map. exact Hy.
  - exfalso. apply Hn. rewrite <- E. apply in_map. exact Hx.
Qed.

Lemma rows_unique par prev id0 t r1 r2 :
  In r1 (rows par prev id0 t) -> In r2 (rows par prev id0 t) ->
  row_id r1 = row_id r2 -> r1 = r2.
Proof.
  apply (NoDup_map_inj_in row_id). rewrite rows_ids. apply N_range_NoDup.
Qed.

Lemma rows_nth par prev id0 t r :
  In r (rows par prev id0 t) ->
  nth_error (rows par prev id0 t) (N.to_nat (row_id r - id0)) = Some r.
Proof.
  intros Hin. destruct (In_nth_error _ _ Hin) as [i Hi].
  assert (Hlt : (i < N.to_nat (size t))%nat).
  { rewrite <- (rows_length par prev id0 t). apply nth_error_Some. congruence. }
  pose proof (map_nth_error row_id _ _ Hi) as Hm.
  rewrite rows_ids, N_range_nth in Hm by exact Hlt.
  injection Hm as E. rewrite <- E.
  replace (N.to_nat (id0 + N.of_nat i - id0)) with i by lia. exact Hi.
Qed.

(* ------------------------------------------------------------------ *)
(* the whole tree *)
Definition table' (t : tree) : list row := rows None None 0 t.

Lemma table_table' t : nodes_of None 0 t = map drop_prev (table' t).
Proof. apply nodes_rows. Qed.

Lemma in_table_table' t id par s :
  In (id, par, s) (nodes_of None 0 t) -> exists pv, In (id, par, pv, s) (table' t).
Proof.
  rewrite table_table', in_map_iff. intros ([[[i p] pv] s'] & E & Hin).
  cbn [drop_prev] in E. inversion E; subst. exists pv. exact Hin.
Qed.

Lemma in_table'_table t id par pv s :
  In (id, par, pv, s) (table' t) -> In (id, par, s) (nodes_of None 0 t).
Proof.
  intros Hin. rewrite table_table'. apply in_map_iff.
  exists (id, par, pv, s). split; [reflexivity | exact Hin].
Qed.

Lemma table'_bounds t id par pv s :
  In (id, par, pv, s) (table' t) -> id + size s <= size t.
Proof. intros Hin. apply rows_bounds in Hin. lia. Qed.

Lemma table'_unique t r1 r2 :
  In r1 (table' t) -> In r2 (table' t) -> row_id r1 = row_id r2 -> r1 = r2.
Proof. apply rows_unique. Qed.

Lemma table'_root t id pv s :
  In (id, None, pv, s) (table' t) -> id = 0 /\ pv = None /\ s = t.
Proof.
  intros Hin. apply rows_parent in Hin.
  destruct Hin as [(E1 & _ & E3 & E4) | (p & pp & ppv & k & l1 & l2 & E & _)]; [auto | discriminate].
Qed.

Lemma table'_parent t id p pv s :
  In (id, Some p, pv, s) (table' t) ->
  exists pp ppv k l1 l2,
    In (p, pp, ppv, T k (l1 ++ s :: l2)) (table' t) /\
    id = p + 1 + sizes l1 /\ pv = last_id None (p + 1) l1.
Proof.
  intros Hin. apply rows_parent in Hin.
  destruct Hin as [(_ & E & _) | (p' & pp & ppv & k & l1 & l2 & E & Hin & E2 & E3)]; [discriminate|].
  inversion E; subst p'. exists pp, ppv, k, l1, l2. auto.
Qed.

Lemma table'_child t p pp ppv k l1 c l2 :
  In (p, pp, ppv, T k (l1 ++ c :: l2)) (table' t) ->
  In (p + 1 + sizes l1, Some p, last_id None (p + 1) l1, c) (table' t).
Proof. apply rows_child. Qed.

Lemma encode_row t id par pv s :
  In (id, par, pv, s) (table' t) ->
  nth_error (encode t) (N.to_nat id) = Some (link_of (size t) (id, par, pv, s)).
Proof.
  intros Hin. unfold encode. rewrite enc_rows. apply map_nth_error.
  apply rows_nth in Hin. cbn [row_id fst] in Hin.
  replace (N.to_nat (id - 0)) with (N.to_nat id) in Hin by lia. exact Hin.
Qed.

Lemma encode_length t : length (encode t) = N.to_nat (size t).
Proof. apply enc_length. Qed.

(* ------------------------------------------------------------------ *)
(* child ids *)
Lemma child_ids_app f l1 l2 :
  child_ids f (l1 ++ l2) = child_ids f l1 ++ child_ids (f + sizes l1) l2.
Proof.
  revert f; induction l1 as [|c r IH]; intros f; cbn [app child_ids].
  - rewrite sizes_nil. f_equal. lia.
  - rewrite IH, sizes_cons. f_equal. f_equal. f_equal. lia.
Qed.

Lemma child_ids_In f l x : In x (child_ids f l) -> f <= x < f + sizes l.
Proof.
  revert f; induction l as [|c r IH]; intros f; cbn [child_ids In]; [tauto|].
  rewrite sizes_cons. pose proof (size_pos c).
  intros [E | Hin]; [lia|]. apply IH in Hin. lia.
Qed.

Lemma child_ids_NoDup f l : NoDup (child_ids f l).
Proof.
  revert f; induction l as [|c r IH]; intros f; cbn [child_ids]; constructor.
  - intros Hin. apply child_ids_In in Hin. pose proof (size_pos c). lia.
  - apply IH.
Qed.

Lemma child_ids_length f l : length (child_ids f l) = length l.
Proof. revert f; induction l; intros; cbn [child_ids length]; auto. Qed.

Lemma length_le_sizes l : N.of_nat (length l) <= sizes l.
Proof.
  induction l as [|c r IH]; cbn [length]; [rewrite sizes_nil; lia|].
  rewrite sizes_cons. pose proof (size_pos c). lia.
Qed.

Lemma hd_error_app_ne {A} (l1 l2 : list A) : l1 <> [] -> hd_error (l1 ++ l2) = hd_error l1.
Proof. destruct l1; [congruence | reflexivity]. Qed.

Lemma rev_ne {A} (l : list A) : l <> [] -> rev l <> [].
Proof.
  destruct l; [congruence|]. intros _ E. apply (f_equal (@length A)) in E.
  rewrite rev_length in E. discriminate.
Qed.

Lemma last_child_id_spec f cs : last_child_id f cs = hd_error (rev (child_ids f cs)).
Proof.
  revert f; induction cs as [|c r IH]; intros f; [reflexivity|].
  destruct r as [|c2 r].
  - reflexivity.
  - change (last_child_id f (c :: c2 :: r)) with (last_child_id (f + size c) (c2 :: r)).
    rewrite IH. change (child_ids f (c :: c2 :: r)) with (f :: child_ids (f + size c) (c2 :: r)).
    cbn [rev]. symmetry. apply hd_error_app_ne.
    apply rev_ne. cbn [child_ids]. discriminate.
Qed.

Lemma last_id_spec l : forall prev cid,
  last_id prev cid l = match rev (child_ids cid l) with [] => prev | y :: _ => Some y end.
Proof.
  induction l as [|c r IH]; intros prev cid; [reflexivity|].
  cbn [last_id child_ids rev]. rewrite IH.
  destruct (rev (child_ids (cid + size c) r)); reflexivity.
Qed.

Lemma last_id_None cid l : last_id None cid l = hd_error (rev (child_ids cid l)).
Proof. rewrite last_id_spec. destruct (rev (child_ids cid l)); reflexivity. Qed.
