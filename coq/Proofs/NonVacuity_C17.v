(* Proofs/NonVacuity_C17.v -- non-vacuity of the hypotheses of the theorems pinned under C17
   (OrderProofs.v). *)
From Coq Require Import Ascii String List NArith Bool Sorted.
Import ListNotations.
From RX Require Import Generated.
From RX.Model Require Import Base CharClass Stream Tokenizer Doc Builder Parse Api.
From RX.Proofs Require Import OrderProofs NonVacuity_Doc.
Open Scope N_scope.

(* node_cmp_trans: three nodes of two documents (addresses 10 and 20) *)
Example nv_node_cmp_trans : node_cmp (10, 5) (10, 6) = Lt /\ node_cmp (10, 6) (20, 0) = Lt.
Proof. split; reflexivity. Qed.

Example nv_node_cmp_trans_applied : node_cmp (10, 5) (20, 0) = Lt.
Proof. exact (node_cmp_trans _ _ _ (proj1 nv_node_cmp_trans) (proj2 nv_node_cmp_trans)). Qed.

(* node_cmp_groups is a refutation (its conclusion is False): its hypotheses are jointly
   unsatisfiable BY the theorem; each pair of them is satisfiable *)
Example nv_node_cmp_groups_12 : 10 <> 20 /\ node_cmp (10, 5) (20, 3) = Lt.
Proof. split; [discriminate|reflexivity]. Qed.
Example nv_node_cmp_groups_13 : 20 <> 10 /\ node_cmp (10, 3) (20, 7) = Lt.
Proof. split; [discriminate|reflexivity]. Qed.
Example nv_node_cmp_groups_23 : node_cmp (10, 5) (10, 6) = Lt /\ node_cmp (10, 6) (10, 7) = Lt.
Proof. split; reflexivity. Qed.

(* get_node_id_spec on the parsed document: an existing id and a missing one *)
Example nv_get_node_id_spec : 6 < 4294967295 /\ 7 < 4294967295.
Proof. split; reflexivity. Qed.

Example nv_get_node_id_spec_applied : get_node_id d0 6 = Ok (Some 6) /\ get_node_id d0 7 = Ok None.
Proof.
  split.
  - rewrite (get_node_id_spec d0 6 (proj1 nv_get_node_id_spec)). vm_compute. reflexivity.
  - rewrite (get_node_id_spec d0 7 (proj2 nv_get_node_id_spec)). vm_compute. reflexivity.
Qed.

(* sorted_groups_documents: a sorted list of nodes of two documents *)
Example nv_sorted_groups_documents :
  Sorted key_le [(10, 1); (10, 4); (10, 6); (20, 0)] /\
  [(10, 1); (10, 4); (10, 6); (20, 0)] = [] ++ (10, 1) :: [] ++ (10, 4) :: [] ++ (10, 6) :: [(20, 0)] /\
  fst (10, 1) = fst (10, 6).
Proof.
  split; [|split; reflexivity].
  repeat (constructor; try (vm_compute; discriminate)).
Qed.
