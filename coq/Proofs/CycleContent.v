(* CycleContent.v -- C09: a reference, in element content, into a set of entities that is
   closed under "the value starts (after plain character data) with a reference into the set"
   ends in Err (EntityReferenceLoop _): never Ok, never another error, never a panic, never
   out of fuel -- at any detector depth and reference count. *)
From Coq Require Import Ascii String.
From Coq Require Import Lia ZifyBool ZifyN ZifyNat.
From RX Require Import Generated.
From RX.Model Require Import Base CharClass Stream Tokenizer Doc Builder Parse.
From RX.Proofs Require Import Tactics OptionsParam OptionsBuild BudgetStream BudgetBuild
  BudgetNoEnt CycleStream.

Section Cycle.
Variable text : bytes.
Variable es : list entity.          (* the entity table *)
Variable S : bytes -> Prop.         (* the set of entity names *)

Notation wfl := (wfl text).
Notation sat := (sat text).

Definition plain (l : bytes) : Prop := forallb plain_b l = true.

(* the value (a slice of the text) is  pre "&" m ";" mid tail  with pre, mid plain character
   data, m an ASCII name in S that is not predefined, tail empty or starting with '<' *)
Definition value_into (v : slice) : Prop :=
  exists pre m mid tail,
    sl_start v <= sl_end v /\ sl_end v <= tlen text /\
    slice_bytes text v = pre ++ 38 :: m ++ 59 :: mid ++ tail /\
    plain pre /\ plain mid /\ ascii_name m /\ predefined_b m = false /\
    (tail = [] \/ exists t, tail = 60 :: t) /\
    is_boundary text (sl_end v) = true /\
    S m.

(* every member's FIRST declaration has such a value *)
Definition closed : Prop :=
  forall n, S n -> exists e, find_entity text es n = Some e /\ value_into (en_value e).

(* appending a text fragment works: the run is open, or the builder accepts one more node *)
Definition can_append (c : context) : Prop := forall t r, exists c', append_text t r c = Ok c'.
Definition app_ok (c : context) : Prop := c_after_text c <> [] \/ can_append c.

Definition same_build (c c2 : context) : Prop :=
  c_after_text c2 = c_after_text c /\ c_doc c2 = c_doc c /\ c_opt c2 = c_opt c /\
  c_parent_id c2 = c_parent_id c /\ c_awaiting c2 = c_awaiting c.

Lemma can_append_frame c c2 : same_build c c2 -> can_append c -> can_append c2.
Proof.
  intros (E1 & E2 & E3 & E4 & E5) Hc t r. destruct (Hc t r) as [c' H].
  unfold append_text, append_node in *. rewrite E1, E2, E3, E4, E5.
  destruct (c_after_text c); [|cbn [bind]; eauto].
  usteps.
  repeat match goal with Hx : ?e = Ok _ |- context [?e] => rewrite Hx; cbn [bind] end.
  eauto.
Qed.

Lemma app_ok_frame c c2 : same_build c c2 -> app_ok c -> app_ok c2.
Proof.
  intros Hs [H|H]; [left; destruct Hs as (-> & _); exact H | right; eapply can_append_frame; eauto].
Qed.

Lemma append_text_open t r c : c_after_text c <> [] ->
  append_text t r c = Ok (set_after_text c (c_after_text c ++ [t])).
Proof.
  unfold append_text. destruct (c_after_text c) eqn:E; [congruence|]. cbn [bind]. rewrite E. reflexivity.
Qed.

(* after an append the run is open *)
Lemma append_text_app_ok t r c : app_ok c ->
  exists c', append_text t r c = Ok c' /\ c_entities c' = c_entities c /\ c_ld c' = c_ld c /\
             c_after_text c' <> [].
Proof.
  intros Hok. assert (Hex : exists c', append_text t r c = Ok c').
  { destruct Hok as [H|H]; [rewrite append_text_open by exact H; eauto | apply H]. }
  destruct Hex as [c' H]. exists c'. split; [exact H|].
  pose proof (ke_append_text _ _ _ _ H) as He. pose proof (b1_append_text _ _ _ _ H) as (Hl & _).
  split; [exact He|]. split; [exact Hl|].
  unfold append_text in H. usteps; cproj; intros Hn; apply app_eq_nil in Hn; destruct Hn; discriminate.
Qed.

(** * The text buffer stays ASCII *)
Definition ascii_buf (t : text_buffer) : Prop := forallb (fun x => x <? 128) (tb_buf t) = true.

Lemma ascii_buf_new : ascii_buf tb_new.
Proof. reflexivity. Qed.

Lemma ascii_buf_push x t : x < 128 -> ascii_buf t -> ascii_buf (tb_push_from_text x t).
Proof.
  unfold ascii_buf, tb_push_from_text. intros Hx Ht.
  destruct (tb_pending_cr t); [destruct (x =? 10)|]; cbn [tb_buf];
  try (destruct (x =? 13); cbn [tb_buf]); rewrite ?forallb_app, ?Ht; cbn [forallb]; try reflexivity;
  replace (x <? 128) with true by lia; reflexivity.
Qed.

Lemma tb_finish_ascii t : ascii_buf t -> exists bs, tb_finish t = Ok bs.
Proof.
  unfold ascii_buf, tb_finish, tb_flush. intros Ht.
  assert (H : forall l, forallb (fun x => x <? 128) l = true -> valid_utf8_b l = true).
  { intros l Hl. unfold valid_utf8_b. apply valid_utf8_ascii; [exact Hl|lia]. }
  destruct (tb_pending_cr t); cbn [tb_buf]; rewrite H; eauto.
  rewrite forallb_app, Ht. reflexivity.
Qed.

(* the flush before an expansion *)
Lemma flush_ok buf r c : ascii_buf buf -> app_ok c ->
  exists ca, (if negb (tb_is_empty buf)
              then let! bs := tb_finish buf in append_text (CowOwned bs) r c
              else Ok c) = Ok ca /\
             c_entities ca = c_entities c /\ c_ld ca = c_ld c /\ app_ok ca.
Proof.
  intros Hb Hok. destruct (negb (tb_is_empty buf)).
  - destruct (tb_finish_ascii _ Hb) as [bs Hf]. rewrite Hf. cbn [bind].
    destruct (append_text_app_ok (CowOwned bs) r c Hok) as (c' & H & He & Hl & Ha).
    exists c'. split; [exact H|]. split; [exact He|]. split; [exact Hl|]. left. exact Ha.
  - exists c. auto.
Qed.

(** * Chunks *)
Lemma pnc_byte s x l ents : sat s (x :: l) -> x <> 38 ->
  exists s1, parse_next_chunk text s ents = Ok (ChByte x, s1) /\ sat s1 l.
Proof.
  intros Hs Hx. destruct (sat_head _ _ _ _ Hs) as (Ha & Hc & _).
  destruct (sat_adv1 _ _ _ _ Hs) as (s1 & Ea & Hs1 & _).
  unfold parse_next_chunk. rewrite Ha, Hc. cbn [bind]. replace (x =? 38) with false by lia.
  rewrite Ea. cbn [bind]. eauto.
Qed.

Lemma pnc_entity s m l ents e : sat s (38 :: m ++ 59 :: l) -> ascii_name m ->
  predefined_b m = false -> find_entity text ents m = Some e ->
  exists s3, parse_next_chunk text s ents = Ok (ChText (en_value e), s3) /\ sat s3 l /\
             s_pos s3 = s_pos s + blen m + 2.
Proof.
  intros Hs Hm Hp Hf. destruct (sat_head _ _ _ _ Hs) as (Ha & Hc & _).
  destruct (consume_reference_entity _ _ _ _ Hs Hm Hp) as (nm & s3 & Hr & Hnm & Hs3 & P3).
  unfold parse_next_chunk. rewrite Ha, Hc. cbn [bind]. replace (38 =? 38) with true by reflexivity.
  rewrite Hr. cbn [bind]. rewrite Hnm, Hf. eauto.
Qed.

(** * The detector: enter, or report the loop *)
Lemma enter_or_loop s ld : wfl s -> is_boundary text (s_pos s) = true ->
  (exists p, inc_references text s ld = Err (EntityReferenceLoop p)) \/
  (exists ld1, inc_references text s ld = Ok ld1 /\ ld_depth ld1 = ld_depth ld /\
     ((exists p, inc_depth text s ld1 = Err (EntityReferenceLoop p)) \/
      (ld_depth ld < 10 /\ exists ld2, inc_depth text s ld1 = Ok ld2 /\
                                       ld_depth ld2 = ld_depth ld + 1))).
Proof.
  intros W Hb.
  assert (He : forall X, exists p, @err_at text X s EntityReferenceLoop = Err (EntityReferenceLoop p))
    by (intros; apply err_at_boundary; assumption).
  assert (Hd : forall ld1, ld_depth ld1 = ld_depth ld ->
     (exists p, inc_depth text s ld1 = Err (EntityReferenceLoop p)) \/
     (ld_depth ld < 10 /\ exists ld2, inc_depth text s ld1 = Ok ld2 /\ ld_depth ld2 = ld_depth ld + 1)).
  { intros ld1 E. unfold inc_depth, ld_max_depth. destruct (ld_depth ld1 <? 10) eqn:E10.
    - right. split; [lia|]. eexists. split; [reflexivity|]. cbn [ld_depth]. lia.
    - left. apply He. }
  unfold inc_references, ld_max_refs. destruct (ld_depth ld =? 0).
  - right. exists ld. split; [reflexivity|]. split; [reflexivity|]. apply Hd. reflexivity.
  - destruct (ld_references ld =? 255).
    + left. apply He.
    + right. eexists. split; [reflexivity|]. cbn [ld_depth]. split; [reflexivity|].
      apply Hd. reflexivity.
Qed.

Definition depth (c : context) : N := ld_depth (c_ld c).

(** * One level, given the next *)
Section Level.
Variable lvl : nat.
(* the nested run over a value into S, one level below *)
Hypothesis HB : forall c v s0,
  value_into v -> c_entities c = es -> app_ok c -> (1 <= lvl)%nat -> 11 <= N.of_nat lvl + depth c ->
  stream_from_substr text (sl_start v) (sl_end v) = Ok s0 ->
  exists p, parse_content_lvl text lvl s0 c = Err (EntityReferenceLoop p).
Hypothesis Hclosed : closed.

Notation pc := (parse_content_lvl text lvl).

Lemma pt_loop_cycle r m mid : ascii_name m -> predefined_b m = false -> S m ->
  forall pre fuel s buf c,
  sat s (pre ++ 38 :: m ++ 59 :: mid) -> plain pre ->
  is_boundary text (s_pos s + blen pre + blen m + 2) = true ->
  c_entities c = es -> app_ok c -> ascii_buf buf -> 10 <= N.of_nat lvl + depth c ->
  (length pre < fuel)%nat ->
  exists p, pt_loop text pc r fuel s buf c = Err (EntityReferenceLoop p).
Proof.
  intros Hm Hp HS. induction pre as [|x pre IH]; intros fuel s buf c Hs Hpre Hbnd Hes Hok Hbuf Hlvl Hfuel;
    (destruct fuel as [|fuel]; [cbn in Hfuel; lia|]); cbn [pt_loop].
  - (* the reference *)
    cbn [app] in Hs. destruct (sat_head _ _ _ _ Hs) as (Ha & _). rewrite Ha.
    destruct (Hclosed m HS) as (e & Hfe & Hv).
    rewrite Hes. destruct (pnc_entity _ _ _ _ _ Hs Hm Hp Hfe) as (s3 & Hch & Hs3 & P3).
    rewrite Hch. cbn [bind].
    destruct (flush_ok buf r c Hbuf Hok) as (ca & Hfl & Hea & Hla & Hoka). rewrite Hfl. cbn [bind].
    assert (W3 : wfl s3) by apply Hs3.
    assert (B3 : is_boundary text (s_pos s3) = true).
    { rewrite P3. unfold blen in Hbnd. cbn [length] in Hbnd. rewrite N.add_0_r in Hbnd. exact Hbnd. }
    destruct (enter_or_loop s3 (c_ld ca) W3 B3) as [[p Hir]|(ld1 & Hir & Hd1 & Hid)].
    { rewrite Hir. cbn [bind]. eauto. }
    rewrite Hir. cbn [bind]. destruct Hid as [[p Hid]|(Hlt & ld2 & Hid & Hd2)].
    { rewrite Hid. cbn [bind]. eauto. }
    rewrite Hid. cbn [bind].
    destruct Hv as (pre' & m' & mid' & tail' & Hv1 & Hv2 & Hv3 & Hv).
    destruct (sat_from_substr text (sl_start (en_value e)) (sl_end (en_value e)) _ Hv1 Hv2 eq_refl)
      as (s0 & Hs0 & _).
    rewrite Hs0. cbn [bind].
    match goal with |- context [pc s0 ?c1] =>
      destruct (HB c1 (en_value e) s0) as [p Hrun] end.
    + exists pre', m', mid', tail'. auto.
    + cproj. congruence.
    + eapply app_ok_frame; [|exact Hoka]. unfold same_build. cproj. auto.
    + unfold depth in *. rewrite Hla in *. lia.
    + unfold depth in *. cproj. rewrite Hla in *. lia.
    + exact Hs0.
    + rewrite Hrun. cbn [bind]. eauto.
  - (* a plain byte *)
    cbn [app] in Hs. destruct (sat_head _ _ _ _ Hs) as (Ha & _). rewrite Ha.
    unfold plain in Hpre. cbn [forallb] in Hpre. apply andb_true_iff in Hpre. destruct Hpre as [Hx Hpre].
    destruct (plain_facts _ Hx) as (Hx1 & _ & _ & Hx38 & _).
    destruct (pnc_byte s x _ (c_entities c) Hs Hx38) as (s1 & Hch & Hs1).
    rewrite Hch. cbn [bind].
    assert (P1 : s_pos s1 = s_pos s + 1).
    { destruct (sat_adv1 _ _ _ _ Hs) as (s1' & Ea & _ & P & _).
      unfold parse_next_chunk in Hch. destruct (sat_head _ _ _ _ Hs) as (Ha' & Hc' & _).
      rewrite Ha', Hc' in Hch. cbn [bind] in Hch. replace (x =? 38) with false in Hch by lia.
      rewrite Ea in Hch. cbn [bind] in Hch. inversion Hch; subst. exact P. }
    apply IH; try assumption.
    + rewrite P1. rewrite blen_cons in Hbnd. replace (s_pos s + 1 + blen pre + blen m + 2)
        with (s_pos s + (blen pre + 1) + blen m + 2) by lia. exact Hbnd.
    + apply ascii_buf_push; assumption.
    + cbn [length] in Hfuel. lia.
Qed.

(* a text token  pre "&" m ";" mid  *)
Lemma process_text_cycle t r c pre m mid :
  sl_start t = fst r -> sl_end t = snd r -> fst r <= snd r -> snd r <= tlen text ->
  sub text (fst r) (snd r) = pre ++ 38 :: m ++ 59 :: mid ->
  plain pre -> ascii_name m -> predefined_b m = false -> S m ->
  is_boundary text (fst r + blen pre + blen m + 2) = true ->
  c_entities c = es -> app_ok c -> 10 <= N.of_nat lvl + depth c ->
  exists p, process_text_with text pc t r c = Err (EntityReferenceLoop p).
Proof.
  intros Ht1 Ht2 Hr1 Hr2 Hsub Hpre Hm Hp HS Hbnd Hes Hok Hlvl.
  rewrite process_text_with_eq.
  assert (Hex : existsb (fun x => (x =? 38) || (x =? 13)) (slice_bytes text t) = true).
  { unfold slice_bytes. rewrite Ht1, Ht2, Hsub. rewrite existsb_app. cbn [existsb].
    replace (38 =? 38) with true by reflexivity. cbn [orb]. apply orb_true_r. }
  rewrite Hex. cbn [negb].
  destruct (sat_from_substr text (fst r) (snd r) _ Hr1 Hr2 Hsub) as (s0 & Hs0 & Hsat & P0 & _).
  rewrite Hs0. cbn [bind].
  destruct (pt_loop_cycle r m mid Hm Hp HS pre (Datatypes.S (length (s_rest s0))) s0 tb_new c)
    as [p Hl]; try assumption.
  - rewrite P0. exact Hbnd.
  - apply ascii_buf_new.
  - destruct Hsat as (_ & _ & z & R). rewrite R, !app_length. lia.
  - rewrite Hl. cbn [bind]. eauto.
Qed.

End Level.

(** * All levels *)

(* the bytes the content tokenizer takes as one text token *)
Lemma token_bytes_ok pre m mid :
  plain pre -> plain mid -> ascii_name m ->
  let l1 := pre ++ 38 :: m ++ 59 :: mid in
  forallb (fun x => (x <? 128) && char_is_char x) l1 = true /\
  (forall x, In x l1 -> x <> 60) /\ mem_b 62 l1 = false /\
  exists x0 l0, l1 = x0 :: l0 /\ x0 < 128 /\ x0 <> 60.
Proof.
  intros Hpre Hmid Hm l1.
  assert (Hgood : forall x, In x l1 -> x < 128 /\ char_is_char x = true /\ x <> 60 /\ x <> 62).
  { intros x Hx. unfold l1 in Hx. apply in_app_or in Hx. destruct Hx as [Hx|[Hx|Hx]].
    - unfold plain in Hpre. rewrite forallb_forall in Hpre. destruct (plain_facts _ (Hpre _ Hx)). tauto.
    - subst x. split; [lia|]. split; [vm_compute; reflexivity|]. split; lia.
    - apply in_app_or in Hx. destruct Hx as [Hx|[Hx|Hx]].
      + destruct m as [|y m']; [contradiction|]. destruct Hm as [Hy Hall].
        destruct Hx as [Hx|Hx].
        * subst y. destruct (nstart_facts _ Hy) as (_ & _ & Hn & _).
          destruct (nchar_facts _ Hn). tauto.
        * rewrite forallb_forall in Hall. destruct (nchar_facts _ (Hall _ Hx)). tauto.
      + subst x. split; [lia|]. split; [vm_compute; reflexivity|]. split; lia.
      + unfold plain in Hmid. rewrite forallb_forall in Hmid. destruct (plain_facts _ (Hmid _ Hx)). tauto. }
  split; [|split; [|split]].
  - apply forallb_forall. intros x Hx. destruct (Hgood x Hx) as (? & ? & _). lia.
  - intros x Hx. apply Hgood. exact Hx.
  - assert (H62 : forall l, (forall x, In x l -> x <> 62) -> mem_b 62 l = false).
    { induction l as [|y l IHl]; intros Hl; [reflexivity|]. cbn [mem_b].
      assert (y <> 62) by (apply Hl; left; reflexivity).
      replace (62 =? y) with false by lia. cbn [orb]. apply IHl. intros x Hx. apply Hl. right. exact Hx. }
    apply H62. intros x Hx. apply Hgood. exact Hx.
  - destruct pre as [|x0 pre']; unfold l1; cbn [app].
    + exists 38, (m ++ 59 :: mid). repeat split; lia.
    + exists x0, (pre' ++ 38 :: m ++ 59 :: mid). split; [reflexivity|].
      destruct (Hgood x0) as (? & _ & ? & _); [unfold l1; left; reflexivity|]. auto.
Qed.

Hypothesis Hclosed : closed.

Theorem nested_cycle : forall lvl c v s0,
  value_into v -> c_entities c = es -> app_ok c -> (1 <= lvl)%nat -> 11 <= N.of_nat lvl + depth c ->
  stream_from_substr text (sl_start v) (sl_end v) = Ok s0 ->
  exists p, parse_content_lvl text lvl s0 c = Err (EntityReferenceLoop p).
Proof.
  induction lvl as [|l IH]; intros c v s0 Hv Hes Hok Hl1 Hlvl Hs0; [lia|].
  destruct Hv as (pre & m & mid & tail & Hv1 & Hv2 & Hv3 & Hpre & Hmid & Hm & Hp & Htail & Hbe & HS).
  destruct (sat_from_substr text (sl_start v) (sl_end v) _ Hv1 Hv2 Hv3) as (s0' & Hs0' & Hsat & P0 & E0).
  rewrite Hs0 in Hs0'. inversion Hs0'; subst s0'. clear Hs0'.
  set (l1 := pre ++ 38 :: m ++ 59 :: mid) in *.
  assert (Hl1eq : pre ++ 38 :: m ++ 59 :: mid ++ tail = l1 ++ tail).
  { unfold l1. rewrite <- !app_assoc. cbn [app]. rewrite <- app_assoc. reflexivity. }
  rewrite Hl1eq in Hsat.
  destruct (token_bytes_ok pre m mid Hpre Hmid Hm) as (Hall & H60 & H62 & x0 & l0 & El & Hx0 & Hx60).
  fold l1 in Hall, H60, H62, El.
  cbn [parse_content_lvl]. unfold parse_content. cbn [parse_content_loop].
  assert (Hsat0 : sat s0 (x0 :: l0 ++ tail)) by (rewrite El in Hsat; exact Hsat).
  destruct (sat_head _ _ _ _ Hsat0) as (Ha & Hc & _). rewrite Ha, Hc. cbn [bind].
  replace (x0 =? 60) with false by lia.
  (* parse_text *)
  unfold parse_text at 1. unfold consume_chars, skip_chars.
  destruct (skip_chars_ascii text (fun _ ch => negb (ch =? 60)) l1 tail
              (Datatypes.S (length (s_rest s0))) s0 Hsat Hall) as (s' & Hsk & Hs' & P').
  { intros t x Hx. specialize (H60 x Hx). lia. }
  { destruct Htail as [->|[t ->]]; [exact I|]. split; [lia|]. split; [vm_compute; reflexivity|].
    intros _. reflexivity. }
  { destruct Hsat as (_ & _ & z & R). rewrite R, !app_length. lia. }
  rewrite Hsk. cbn [bind].
  assert (Hbs : is_boundary text (s_pos s0) = true) by (eapply sat_boundary; eauto).
  assert (Hend : s_pos s' <= tlen text) by (destruct Hs' as ((_ & ? & ?) & _); lia).
  assert (Hbe' : is_boundary text (s_pos s') = true).
  { destruct Htail as [->|[t ->]].
    - destruct Hs' as (_ & E' & _). unfold blen in E'. cbn in E'.
      destruct Hsat as (_ & Es & _). rewrite app_nil_r in Es.
      replace (s_pos s') with (sl_end v) by lia. exact Hbe.
    - eapply sat_boundary; [exact Hs'|lia]. }
  unfold slice_back. rewrite (mk_slice_ok text (s_pos s0) (s_pos s')); try assumption; try lia.
  cbn [bind].
  destruct (sat_text _ _ _ Hsat) as [z Hz]. rewrite <- app_assoc in Hz.
  assert (Hsub : sub text (s_pos s0) (s_pos s') = l1) by (rewrite P'; eapply sub_at; exact Hz).
  unfold slice_bytes at 1 2. cbn [sl_start sl_end]. rewrite Hsub, H62. cbn [andb].
  cbn [token_with].
  (* the token *)
  destruct (process_text_cycle l IH Hclosed
              {| sl_start := s_pos s0; sl_end := s_pos s' |} (s_pos s0, s_pos s') c pre m mid)
    as [p Hpt]; cbn [fst snd sl_start sl_end]; try assumption; try reflexivity; try lia.
  - (* the boundary after ';' *)
    destruct mid as [|y mid'].
    + replace (s_pos s0 + blen pre + blen m + 2) with (s_pos s'); [exact Hbe'|].
      rewrite P'. unfold l1. rewrite !blen_app2, !blen_cons, blen_app2, blen_cons. unfold blen; cbn [length]. lia.
    + unfold plain in Hmid. cbn [forallb] in Hmid. apply andb_true_iff in Hmid. destruct Hmid as [Hy _].
      destruct (plain_facts _ Hy) as (Hy1 & _).
      set (lx := pre ++ 38 :: m ++ [59]).
      assert (Hzx : skipn (N.to_nat (s_pos s0)) text = lx ++ y :: mid' ++ tail ++ z).
      { rewrite Hz. unfold l1, lx. repeat (rewrite <- app_assoc; cbn [app]). reflexivity. }
      eapply boundary_at; [|exact Hy1].
      replace (N.to_nat (s_pos s0 + blen pre + blen m + 2)) with (N.to_nat (s_pos s0) + length lx)%nat.
      * rewrite <- skipn_skipn2, Hzx, skipn_app, skipn_all.
        replace (length lx - length lx)%nat with 0%nat by lia. cbn [app skipn]. reflexivity.
      * unfold lx, blen. rewrite !app_length. cbn [length]. rewrite app_length. cbn [length]. lia.
  - rewrite Hpt. cbn [bind]. eauto.
Qed.

(** * The statements at the level of one text token in content *)

(* a text token in element content that holds, after plain character data, a reference into S *)
Theorem cycle_in_content : forall lvl t r c pre m mid,
  (entity_levels <= lvl)%nat ->
  sl_start t = fst r -> sl_end t = snd r -> fst r <= snd r -> snd r <= tlen text ->
  sub text (fst r) (snd r) = pre ++ 38 :: m ++ 59 :: mid ->
  plain pre -> ascii_name m -> predefined_b m = false -> S m ->
  is_boundary text (fst r + blen pre + blen m + 2) = true ->
  c_entities c = es -> app_ok c ->
  exists p, process_text_with text (parse_content_lvl text lvl) t r c = Err (EntityReferenceLoop p).
Proof.
  intros lvl t r c pre m mid Hlvl. intros.
  eapply (process_text_cycle lvl (nested_cycle lvl) Hclosed); eauto.
  unfold entity_levels, ld_max_depth in Hlvl. cbn in Hlvl. lia.
Qed.

(* the same for the callback of the tokenizer, with the model's own level fuel *)
Corollary cycle_in_content_token : forall t r c pre m mid,
  sl_start t = fst r -> sl_end t = snd r -> fst r <= snd r -> snd r <= tlen text ->
  sub text (fst r) (snd r) = pre ++ 38 :: m ++ 59 :: mid ->
  plain pre -> ascii_name m -> predefined_b m = false -> S m ->
  is_boundary text (fst r + blen pre + blen m + 2) = true ->
  c_entities c = es -> app_ok c ->
  exists p, token text (TText t r) c = Err (EntityReferenceLoop p).
Proof.
  intros. unfold token, process_text. cbn [token_with].
  eapply cycle_in_content; eauto.
Qed.

(* entering the cycle from outside: the value of ANY entity that is such a value into S *)
Corollary cycle_entered : forall lvl c v s0,
  (entity_levels <= lvl)%nat ->
  value_into v -> c_entities c = es -> app_ok c ->
  stream_from_substr text (sl_start v) (sl_end v) = Ok s0 ->
  exists p, parse_content_lvl text lvl s0 c = Err (EntityReferenceLoop p).
Proof.
  intros lvl c v s0 Hlvl. intros. eapply nested_cycle; eauto;
  unfold entity_levels, ld_max_depth in Hlvl; cbn in Hlvl; lia.
Qed.

End Cycle.
