(* Proofs/RangeShiftParse.v -- C13 (shift by prolog whitespace), part 5: the callback, the
   recursion through entity expansion, parse, and the theorem. *)
From Coq Require Import Ascii String.
From Coq Require Import List Arith NArith Bool Lia ZifyBool ZifyN ZifyNat.
Import ListNotations.
From RX Require Import Generated.
From RX.Model Require Import Base CharClass Stream Tokenizer Doc Builder Parse.
From RX.Proofs Require Import Tactics NoPanicUtf8 NoPanicStream BorrowLocal BorrowTokenizer BorrowParse
  RangeArena RangeBuilder RangeShiftBase RangeShiftStream RangeShiftTokenizer RangeShiftBuilder.
Open Scope N_scope.

Definition shift_range (k : N) (r : range) : range := (fst r + k, snd r + k).

Section Shift.
Variable ws text : bytes.
Hypothesis Hvalid : valid_utf8_b text = true.
Hypothesis Hws : forallb byte_is_space ws = true.
Notation text2 := (ws ++ text).
Notation k := (blen ws).
Notation shs := (sh_s k).
Notation shl := (sh_sl k).
Notation shc := (sh_ctx k).
Notation shd := (sh_doc k).

Ltac cproj :=
  cbn [sh_ctx sh_doc c_opt c_ns_start_idx c_cur_attrs c_awaiting c_parent_prefixes c_entities c_after_text
       c_parent_id c_tag_name c_entity_floor c_ld c_doc
       set_doc set_ns_start_idx set_cur_attrs set_awaiting set_parent_prefixes set_entities
       set_after_text set_parent_id set_tag_name set_entity_floor set_ld
       d_nodes d_attrs d_ns_values d_ns_tree set_nodes set_attrs fst snd pmap idf] in *.

Lemma sh_sl0_real p : sl_start p <> 0 -> sh_sl0 k p = shl p.
Proof.
  intros H. unfold sh_sl0. destruct (sl_start p =? 0) eqn:E; [lia|]. reflexivity.
Qed.

Lemma token_with_sh ptext1 ptext2 :
  (forall t r c, rsimf shc (ptext1 t r c) (ptext2 (shl t) (sh_rng k r) (shc c))) ->
  forall tok c, tok_wf tok ->
    rsimf shc (token_with text ptext1 tok c) (token_with text2 ptext2 (sh_tok k tok) (shc c)).
Proof.
  intros Hp tok c Hwf. unfold token_with.
  destruct tok as [tgt content r | t r | name value | prefix local start | r ql el prefix local value
                  | e r | t r | t r]; cbn [sh_tok].
  - eapply rsimf_bind; [apply (reset_after_text_sh ws)|]. intros c1 _. cbv beta.
    eapply rsimf_bind; [apply (append_node_sh ws (KPI tgt content) r c1); reflexivity|].
    intros [id c2] _. reflexivity.
  - eapply rsimf_bind; [apply (reset_after_text_sh ws)|]. intros c1 _. cbv beta.
    eapply rsimf_bind; [apply (append_node_sh ws (KComment t) r c1); reflexivity|].
    intros [id c2] _. reflexivity.
  - apply rsimf_ret. unfold sh_ctx. cproj. rewrite map_app. reflexivity.
  - cbn [tok_wf] in Hwf. destruct Hwf as [Hl Hp0].
    eapply rsimf_bind; [apply (reset_after_text_sh ws)|]. intros c1 _. cbv beta.
    rewrite (slice_bytes_shift ws). destruct (bytes_eqb _ _); [apply (err_from_sh0 ws text Hvalid Hws)|].
    replace (start + k + 1) with (start + 1 + k) by lia.
    apply rsimf_ret. unfold sh_ctx, set_tag_name, sh_tn. cproj. cbn [tn_name tn_prefix tn_pos tn_prefix_pos].
    destruct (slice_len local =? 0) eqn:E; [lia|]. rewrite (sh_sl0_real _ Hp0). reflexivity.
  - apply (process_attribute_sh ws text Hvalid Hws).
  - eapply rsimf_bind; [apply (reset_after_text_sh ws)|]. intros c1 _. cbv beta.
    apply (process_element_sh ws text Hvalid Hws).
  - apply Hp.
  - apply (process_cdata_sh ws).
Qed.

Definition shpc (x : Stream.stream * context) : Stream.stream * context := (shs (fst x), shc (snd x)).

Lemma tag_name_null_sh : sh_tn k tag_name_null = tag_name_null.
Proof. reflexivity. Qed.

Lemma ptext_loop_sh pc1 pc2 r :
  (forall es c, rsimf shpc (pc1 es c) (pc2 (shs es) (shc c))) ->
  forall fuel s buf c,
    rsimf (pmap idf shc) (ptext_loop text pc1 r fuel s buf c)
          (ptext_loop text2 pc2 (sh_rng k r) fuel (shs s) buf (shc c)).
Proof.
  intros Hpc. induction fuel as [|fu IH]; intros s buf c; cbn [ptext_loop]; [reflexivity|].
  rewrite (at_end_sh ws). destruct (at_end s); [reflexivity|]. cproj.
  eapply rsimf_bind; [apply (parse_next_chunk_sh ws text Hvalid Hws)|]. intros [ch s1] _.
  cbn [pmap fst snd]. cbv beta iota. destruct ch as [x|cp|value]; cbn [sh_chunk].
  - apply IH.
  - apply IH.
  - eapply rsimf_bind with (f := shc).
    { destruct (negb (tb_is_empty buf)); [|reflexivity].
      eapply rsimf_bind; [apply id_sim|]. intros bs _. apply (append_text_sh ws (CowOwned bs)). }
    intros c1 _. cbv beta. cproj.
    eapply rsimf_bind; [apply (inc_references_sh ws text Hvalid)|]. intros ld1 _. unfold idf.
    eapply rsimf_bind; [apply (inc_depth_sh ws text Hvalid)|]. intros ld2 _. unfold idf. cbv zeta.
    cbn [sh_sl sl_start sl_end].
    eapply rsimf_bind; [apply (stream_from_substr_sh ws)|]. intros es _. cbv beta. cproj.
    rewrite len_N_map.
    eapply rsimf_bind.
    { match goal with |- rsimf _ _ (pc2 _ ?c2) =>
        change c2 with (shc (set_entity_floor (set_tag_name (set_ld c1 ld2) tag_name_null)
                                              (len_N (c_parent_prefixes c1))))
      end. apply Hpc. }
    intros [s2 c2] _. cbn [shpc fst snd]. cbv beta iota. cproj. rewrite len_N_map.
    destruct (negb _); [apply rsimf_err|].
    match goal with |- rsimf _ (ptext_loop _ _ _ _ _ _ ?ca) (ptext_loop _ _ _ _ _ _ ?cb) =>
      change cb with (shc ca)
    end. apply IH.
Qed.

Lemma process_text_with_sh pc1 pc2 :
  (forall es c, rsimf shpc (pc1 es c) (pc2 (shs es) (shc c))) ->
  forall t r c, rsimf shc (process_text_with text pc1 t r c)
                      (process_text_with text2 pc2 (shl t) (sh_rng k r) (shc c)).
Proof.
  intros Hpc t r c. rewrite !process_text_with_eq. cbv zeta. rewrite (slice_bytes_shift ws).
  destruct (negb _); [apply (append_text_sh ws (CowBorrowed t))|].
  cbn [sh_rng fst snd].
  eapply rsimf_bind; [apply (stream_from_substr_sh ws)|]. intros s0 _. cbv beta. rewrite s_rest_sh.
  eapply rsimf_bind; [apply (ptext_loop_sh pc1 pc2 r Hpc)|]. intros [buf c1] _. cbn [pmap fst snd idf]. cbv beta iota.
  destruct (negb _); [|reflexivity].
  eapply rsimf_bind; [apply id_sim|]. intros bs _. apply (append_text_sh ws (CowOwned bs)).
Qed.

Lemma parse_content_lvl_sh : forall lvl es c,
  rsimf shpc (parse_content_lvl text lvl es c) (parse_content_lvl text2 lvl (shs es) (shc c)).
Proof.
  induction lvl as [|lvl IH]; intros es c; cbn [parse_content_lvl]; [reflexivity|].
  apply (parse_content_sh ws text Hvalid Hws context _ _ shc).
  intros tok c0 Hwf. apply token_with_sh; [|exact Hwf].
  intros t r c1. apply process_text_with_sh. exact IH.
Qed.

Lemma token_sh tok c : tok_wf tok ->
  rsimf shc (Parse.token text tok c) (Parse.token text2 (sh_tok k tok) (shc c)).
Proof.
  intros Hwf. unfold Parse.token, process_text. apply token_with_sh; [|exact Hwf].
  intros t r c1. apply process_text_with_sh. apply parse_content_lvl_sh.
Qed.

Lemma init_context_sh opt : rsimf shc (init_context text opt) (init_context text2 opt).
Proof.
  unfold init_context.
  eapply rsimf_bind.
  { match goal with |- rsimf _ _ (push_ns _ _ _ ?d2) =>
      replace d2 with (shd {| d_nodes := [{| nd_parent := None; nd_prev_sibling := None; nd_next_subtree := None;
                                            nd_last_child := None; nd_kind := KRoot; nd_range := (0, tlen text) |}];
                              d_attrs := []; d_ns_values := []; d_ns_tree := [] |})
    end.
    - apply (push_ns_sh ws text (ns_name xml_ns) (ns_uri xml_ns)).
    - unfold sh_doc, sh_node. cbn. rewrite (tlen_shift ws). reflexivity. }
  intros d _. reflexivity.
Qed.

(* ---- the links are untouched: the final checks of parse see the same tree ---- *)
Lemma get_node_sh d id : get_node (shd d) id = option_map (sh_node k) (get_node d id).
Proof. unfold get_node. cbn [sh_doc d_nodes]. apply nth_N_map. Qed.

Lemma node_unwrap_sh d id : node_unwrap (shd d) id = node_unwrap d id.
Proof. unfold node_unwrap. rewrite get_node_sh. destruct (get_node d id); reflexivity. Qed.

Lemma opt_unwrap_node_sh d o : opt_unwrap_node (shd d) o = opt_unwrap_node d o.
Proof. unfold opt_unwrap_node. destruct o; [rewrite node_unwrap_sh|]; reflexivity. Qed.

Lemma node_data_of_sh d id : node_data_of (shd d) id = match node_data_of d id with
  | Ok nd => Ok (sh_node k nd) | Err e => Err e | Panic p => Panic p | OutOfFuel => OutOfFuel end.
Proof. unfold node_data_of. rewrite get_node_sh. destruct (get_node d id); reflexivity. Qed.

Lemma first_child_sh d id : first_child (shd d) id = first_child d id.
Proof.
  unfold first_child. rewrite node_data_of_sh. destruct (node_data_of d id); cbn [bind]; try reflexivity.
  cbn [sh_node nd_last_child]. destruct (nd_last_child a); [|reflexivity].
  destruct (node_id_new (id + 1)); cbn [bind]; try reflexivity. rewrite node_unwrap_sh. reflexivity.
Qed.

Lemma last_child_sh d id : last_child (shd d) id = last_child d id.
Proof.
  unfold last_child. rewrite node_data_of_sh. destruct (node_data_of d id); cbn [bind]; try reflexivity.
  cbn [sh_node nd_last_child]. apply opt_unwrap_node_sh.
Qed.

Lemma next_sibling_sh d id : next_sibling (shd d) id = next_sibling d id.
Proof.
  unfold next_sibling. rewrite node_data_of_sh. destruct (node_data_of d id); cbn [bind]; try reflexivity.
  cbn [sh_node nd_next_subtree]. destruct (nd_next_subtree a); [|reflexivity].
  rewrite node_unwrap_sh. destruct (node_unwrap d n); cbn [bind]; try reflexivity.
  rewrite node_data_of_sh. destruct (node_data_of d a0); cbn [bind]; reflexivity.
Qed.

Lemma children_sh d id : children (shd d) id = children d id.
Proof. unfold children. rewrite first_child_sh, last_child_sh. reflexivity. Qed.

Lemma children_next_sh d it : children_next (shd d) it = children_next d it.
Proof.
  unfold children_next. destruct (opt_N_eqb _ _); [reflexivity|]. destruct (ch_front it); [|reflexivity].
  rewrite next_sibling_sh. reflexivity.
Qed.

Lemma node_is_element_sh d n : node_is_element (shd d) n = node_is_element d n.
Proof.
  unfold node_is_element. rewrite node_data_of_sh. destruct (node_data_of d n); cbn [bind]; try reflexivity.
  cbn [sh_node nd_kind]. destruct (nd_kind a); reflexivity.
Qed.

Lemma children_any_element_sh d : forall fuel it,
  children_any_element fuel (shd d) it = children_any_element fuel d it.
Proof.
  induction fuel as [|fu IH]; intros it; cbn [children_any_element]; [reflexivity|].
  rewrite children_next_sh. destruct (children_next d it) as [[o it']| | |]; cbn [bind]; try reflexivity.
  destruct o; [|reflexivity]. rewrite node_is_element_sh.
  destruct (node_is_element d n); cbn [bind]; try reflexivity. destruct a; [reflexivity|apply IH].
Qed.

Lemma parse_sh opt d : ws <> [] -> text <> [] ->
  starts_with (stream_new text) [239; 187; 191] = false ->
  starts_with_declaration (stream_new text) = false ->
  parse text opt = Ok d -> parse text2 opt = Ok (shd d).
Proof.
  intros Hne Hte Hbom Hdecl H. unfold parse in *.
  apply bind_ok in H. destruct H as [c0 [H0 H]].
  apply bind_ok in H. destruct H as [c1 [H1 H]].
  rewrite (rsimf_ok _ _ _ _ (init_context_sh opt) H0). cbn [bind].
  rewrite (parse_document_sh ws text Hvalid Hws context (Parse.token text) (Parse.token text2) shc
             (fun tok c Hwf => token_sh tok c Hwf) (allow_dtd opt) c0 c1 Hne Hte Hbom Hdecl H1).
  cbn [bind]. cproj. rewrite children_sh.
  destruct (children (c_doc c1) 0) as [it| | |]; cbn [bind] in *; try discriminate.
  cbn [sh_doc d_nodes]. rewrite map_length. rewrite children_any_element_sh.
  destruct (children_any_element _ _ _) as [he| | |]; cbn [bind] in *; try discriminate.
  destruct (negb he); [discriminate|]. rewrite len_N_map.
  destruct (1 <? _); [discriminate|]. injection H as <-. reflexivity.
Qed.

End Shift.
