(* Proofs/NonVacuity_C11.v -- non-vacuity of the hypotheses of the theorems pinned under C11:
   [Arena d t], [In (id, par, s) (table t)], the size bound of parse_arena', the side conditions of
   the deque theorems and of nav_root_element / nav_text_storage, on the document of NonVacuity_Doc.v. *)
From Coq Require Import Ascii String List NArith Bool Lia.
Import ListNotations.
From RX Require Import Generated.
From RX.Model Require Import Base CharClass Stream Tokenizer Doc Builder Parse Api.
From RX.Spec Require Import Tree Deque.
From RX.Proofs Require Import NavEnc NavLinks NavIter NavAxes NavElem NavParse NonVacuity_Doc.
Open Scope N_scope.

(* the hypotheses shared by all nav_* theorems: the parsed document is the arena of t0, and node 2
   (the element p:c, child of node 1, with a text and a comment child) is in its table *)
Example nv_Arena : Arena d0 t0.
Proof. split; vm_compute; reflexivity. Qed.

Definition s2 : tree := T KdElem [T KdText []; T KdComment []].

Example nv_table : In (2, Some 1, s2) (table t0).
Proof. vm_compute. right. right. left. reflexivity. Qed.

Example nv_nav_hyps : Arena d0 t0 /\ In (2, Some 1, s2) (table t0).
Proof. split; [exact nv_Arena|exact nv_table]. Qed.

(* the theorems applied to the instance: concrete conclusions *)
Example nv_nav_parent : parent d0 2 = Ok (Some 1).
Proof. exact (nav_parent d0 t0 2 (Some 1) s2 nv_Arena nv_table). Qed.

Example nv_nav_children : children_list d0 2 = Ok [3; 4].
Proof. exact (nav_children d0 t0 2 (Some 1) s2 nv_Arena nv_table). Qed.

Example nv_nav_next_sibling : next_sibling d0 2 = Ok (Some 5).
Proof. exact (nav_next_sibling d0 t0 2 (Some 1) s2 nv_Arena nv_table). Qed.

Example nv_nav_descendants : descendants d0 2 = Ok {| it_lo := 2; it_hi := 5 |}.
Proof. exact (nav_descendants d0 t0 2 (Some 1) s2 nv_Arena nv_table). Qed.

Example nv_nav_ancestors : axis_list d0 AxAncestors 2 = Ok [2; 1; 0].
Proof. exact (nav_ancestors d0 t0 2 (Some 1) s2 nv_Arena nv_table). Qed.

Example nv_nav_next_sibling_element : next_sibling_element d0 2 = Ok (Some 6).
Proof. exact (nav_next_sibling_element d0 t0 2 (Some 1) s2 nv_Arena nv_table). Qed.

(* children_deque: a mixed sequence of operations on the children iterator of node 1 *)
Example nv_children_deque :
  exists it, children d0 1 = Ok it /\
    Forall (fun o => o = DNext \/ o = DNextBack) [DNext; DNextBack; DNext; DNext] /\
    In (1, Some 0, T KdElem [s2; T KdPI []; T KdElem []]) (table t0).
Proof.
  eexists. split; [vm_compute; reflexivity|]. split.
  - repeat first [apply Forall_nil | apply Forall_cons; [first [left; reflexivity | right; reflexivity]|]].
  - vm_compute. right. left. reflexivity.
Qed.

(* slice_deque: it_lo <= it_hi *)
Example nv_slice_deque : it_lo {| it_lo := 2; it_hi := 5 |} <= it_hi {| it_lo := 2; it_hi := 5 |}.
Proof. vm_compute. discriminate. Qed.

(* nav_root_element: the first element child of the root exists (node 1); nav_root_element_none's
   hypothesis holds on an arena without element under the root, which parse never produces
   (C02_parse_single_root_element) but which the API theorem covers: a hand-built arena *)
Example nv_nav_root_element : first_elem t0 (child_ids 1 (tchildren t0)) = Some 1.
Proof. vm_compute. reflexivity. Qed.

Example nv_nav_root_element_applied : root_element d0 = Ok 1.
Proof. exact (nav_root_element d0 t0 1 nv_Arena nv_nav_root_element). Qed.

Definition d_noelem : document :=
  {| d_nodes := [{| nd_parent := None; nd_prev_sibling := None; nd_next_subtree := None;
                    nd_last_child := Some 1; nd_kind := KRoot; nd_range := (0, 0) |};
                 {| nd_parent := Some 0; nd_prev_sibling := None; nd_next_subtree := None;
                    nd_last_child := None; nd_kind := KComment {| sl_start := 0; sl_end := 0 |};
                    nd_range := (0, 0) |}];
     d_attrs := []; d_ns_values := []; d_ns_tree := [] |}.

Example nv_nav_root_element_none :
  Arena d_noelem (T KdRoot [T KdComment []]) /\
  first_elem (T KdRoot [T KdComment []]) (child_ids 1 (tchildren (T KdRoot [T KdComment []]))) = None.
Proof. split; [split; vm_compute; reflexivity|vm_compute; reflexivity]. Qed.

(* nav_text_storage / nav_tail_storage: node_data_of d id = Ok nd *)
Example nv_nav_text_storage : exists nd, node_data_of d0 2 = Ok nd /\ is_element_kind (nd_kind nd) = true.
Proof. eexists. split; vm_compute; reflexivity. Qed.

(* parse_arena' and the other primed theorems of NavParse.v: the size bound *)
Example nv_parse_arena' : parse text0 opt0 = Ok d0 /\ len_N (d_nodes d0) <= 4294967295.
Proof. split; [exact parse0|vm_compute; discriminate]. Qed.

Example nv_parse_nav_total'_id : 2 < len_N (d_nodes d0).
Proof. vm_compute. reflexivity. Qed.

Example nv_parse_children_rev' : exists it, children d0 1 = Ok it.
Proof. eexists. vm_compute. reflexivity. Qed.

(* parse_default_arena: parse_default succeeds on a document without DOCTYPE *)
Example nv_parse_default_arena :
  exists d, parse_default (b "<r xmlns:p='u' a='1'><p:c b='x'>t<!--k--></p:c><d/></r>") = Ok d.
Proof. eexists. vm_compute. reflexivity. Qed.
