(* Proofs/CharTablesProofs.v -- the character tables of the model (tokenizer.rs, XmlCharExt /
   XmlByteExt, via Generated.v) agree with the XML 1.0 (Fifth Edition) productions of
   Spec/Chars.v on EVERY Unicode scalar value.

   Method: a verified decision procedure for boolean combinations of interval tests.  Such an
   expression is a step function of the code point: its value can only change at a
   "breakpoint" (the lower end of a range, or one past its upper end).  Hence it is [true]
   everywhere as soon as it is [true] at 0 and at every breakpoint ([decide]); the kernel
   evaluates that finite check on the concrete tables with [vm_compute]. *)
From Coq Require Import List NArith Bool Lia ZifyBool ZifyN.
Import ListNotations.
From RX Require Import Generated.
From RX.Model Require Import Base CharClass.
From RX.Spec Require Chars.
Open Scope N_scope.

(* ------------------------------------------------------------------------------------------ *)
(* Boolean expressions over one code point                                                     *)

Inductive bexp : Type :=
| BTrue
| BIn (rs : list (N * N))        (* in_ranges c rs *)
| BLt (k : N)                    (* c <? k *)
| BGt (k : N)                    (* k <? c *)
| BEq (k : N)                    (* c =? k *)
| BNot (a : bexp)
| BAnd (a b : bexp)
| BOr (a b : bexp)
| BEqb (a b : bexp)
| BIte (a b d : bexp).

Fixpoint eval (c : N) (e : bexp) : bool :=
  match e with
  | BTrue => true
  | BIn rs => in_ranges c rs
  | BLt k => c <? k
  | BGt k => k <? c
  | BEq k => c =? k
  | BNot a => negb (eval c a)
  | BAnd a b => eval c a && eval c b
  | BOr a b => eval c a || eval c b
  | BEqb a b => Bool.eqb (eval c a) (eval c b)
  | BIte a b d => if eval c a then eval c b else eval c d
  end.

Definition range_breaks (rs : list (N * N)) : list N :=
  flat_map (fun r => [fst r; snd r + 1]) rs.

Fixpoint breaks (e : bexp) : list N :=
  match e with
  | BTrue => []
  | BIn rs => range_breaks rs
  | BLt k => [k]
  | BGt k => [k + 1]
  | BEq k => [k; k + 1]
  | BNot a => breaks a
  | BAnd a b | BOr a b | BEqb a b => breaks a ++ breaks b
  | BIte a b d => breaks a ++ breaks b ++ breaks d
  end.

(* c and c' lie on the same side of every breakpoint in B *)
Definition same_side (B : list N) (c c' : N) : Prop :=
  forall b, In b B -> (b <= c <-> b <= c').

Lemma same_side_app_l B1 B2 c c' : same_side (B1 ++ B2) c c' -> same_side B1 c c'.
Proof. intros H b Hb. apply H, in_or_app; auto. Qed.

Lemma same_side_app_r B1 B2 c c' : same_side (B1 ++ B2) c c' -> same_side B2 c c'.
Proof. intros H b Hb. apply H, in_or_app; auto. Qed.

Lemma in_ranges_same_side rs c c' :
  same_side (range_breaks rs) c c' -> in_ranges c rs = in_ranges c' rs.
Proof.
  unfold in_ranges. induction rs as [|r rs IH]; intros H; [reflexivity|].
  cbn [existsb]. f_equal.
  - assert (H1 := H (fst r)). assert (H2 := H (snd r + 1)).
    cbn [range_breaks flat_map app In] in H1, H2.
    specialize (H1 (or_introl eq_refl)). specialize (H2 (or_intror (or_introl eq_refl))).
    destruct (N.leb_spec (fst r) c), (N.leb_spec (fst r) c'),
             (N.leb_spec c (snd r)), (N.leb_spec c' (snd r)); try reflexivity; lia.
  - apply IH. intros b Hb. apply H. cbn [range_breaks flat_map].
    right; right. exact Hb.
Qed.

Lemma eval_same_side e : forall c c', same_side (breaks e) c c' -> eval c e = eval c' e.
Proof.
  induction e; intros c c' H; cbn [eval breaks] in *.
  - reflexivity.
  - apply in_ranges_same_side; exact H.
  - assert (H1 := H k (or_introl eq_refl)).
    destruct (N.ltb_spec c k), (N.ltb_spec c' k); try reflexivity; lia.
  - assert (H1 := H (k + 1) (or_introl eq_refl)).
    destruct (N.ltb_spec k c), (N.ltb_spec k c'); try reflexivity; lia.
  - assert (H1 := H k (or_introl eq_refl)).
    assert (H2 := H (k + 1) (or_intror (or_introl eq_refl))).
    destruct (N.eqb_spec c k), (N.eqb_spec c' k); try reflexivity; lia.
  - f_equal; auto.
  - f_equal; [apply IHe1; eapply same_side_app_l | apply IHe2; eapply same_side_app_r]; eauto.
  - f_equal; [apply IHe1; eapply same_side_app_l | apply IHe2; eapply same_side_app_r]; eauto.
  - f_equal; [apply IHe1; eapply same_side_app_l | apply IHe2; eapply same_side_app_r]; eauto.
  - rewrite (IHe1 c c'), (IHe2 c c'), (IHe3 c c'); [reflexivity| | |].
    + eapply same_side_app_r, same_side_app_r; eauto.
    + eapply same_side_app_l, same_side_app_r; eauto.
    + eapply same_side_app_l; eauto.
Qed.

(* the largest element of 0 :: B that is <= c *)
Fixpoint floor_in (B : list N) (c : N) : N :=
  match B with
  | [] => 0
  | b :: B' => if b <=? c then N.max b (floor_in B' c) else floor_in B' c
  end.

Lemma floor_in_le B c : floor_in B c <= c.
Proof.
  induction B as [|b B IH]; cbn [floor_in]; [lia|].
  destruct (N.leb_spec b c); lia.
Qed.

Lemma floor_in_max B c b : In b B -> b <= c -> b <= floor_in B c.
Proof.
  induction B as [|b' B IH]; cbn [floor_in In]; [tauto|].
  intros [->|Hb] Hle.
  - destruct (N.leb_spec b c); lia.
  - specialize (IH Hb Hle). destruct (N.leb_spec b' c); lia.
Qed.

Lemma floor_in_In B c : In (floor_in B c) (0 :: B).
Proof.
  induction B as [|b B IH]; cbn [floor_in]; [left; reflexivity|].
  destruct (N.leb_spec b c).
  - destruct (N.max_spec b (floor_in B c)) as [[_ ->]|[_ ->]].
    + destruct IH as [IH|IH]; [left; exact IH | right; right; exact IH].
    + right; left; reflexivity.
  - destruct IH as [IH|IH]; [left; exact IH | right; right; exact IH].
Qed.

Lemma floor_in_same_side B c : same_side B c (floor_in B c).
Proof.
  intros b Hb. split; intros H.
  - apply floor_in_max; assumption.
  - pose proof (floor_in_le B c). lia.
Qed.

Definition decide_b (e : bexp) : bool := forallb (fun p => eval p e) (0 :: breaks e).

Theorem decide e : decide_b e = true -> forall c, eval c e = true.
Proof.
  unfold decide_b. intros H c.
  rewrite (eval_same_side e c (floor_in (breaks e) c) (floor_in_same_side _ c)).
  rewrite forallb_forall in H. apply H, floor_in_In.
Qed.

(* ------------------------------------------------------------------------------------------ *)
(* The model's predicates without the [as u8] truncation                                        *)

Lemma char_is_name_start_alt c :
  char_is_name_start c =
  if c <? 129 then in_ranges c byte_name_start_ranges else in_ranges c char_name_start_ranges.
Proof.
  unfold char_is_name_start, char_name_start_ascii_cut, byte_is_name_start.
  destruct (N.ltb_spec c 129); [|reflexivity].
  rewrite N.mod_small by lia. reflexivity.
Qed.

Lemma char_is_name_alt c :
  char_is_name c =
  if c <? 129 then in_ranges c byte_name_ranges else in_ranges c char_name_ranges.
Proof.
  unfold char_is_name, char_name_ascii_cut, byte_is_name.
  destruct (N.ltb_spec c 129); [|reflexivity].
  rewrite N.mod_small by lia. reflexivity.
Qed.

Lemma char_is_char_alt c :
  char_is_char c =
  if c <? 32 then in_ranges c byte_space_ranges else negb (in_ranges c char_char_excluded).
Proof.
  unfold char_is_char, char_char_ctl_cut, byte_is_space.
  destruct (N.ltb_spec c 32); [|reflexivity].
  rewrite N.mod_small by lia. reflexivity.
Qed.

(* ------------------------------------------------------------------------------------------ *)
(* Reified predicates                                                                            *)

Definition e_scalar : bexp := BOr (BLt 55296) (BAnd (BGt 57343) (BLt 1114112)).
Definition e_ascii : bexp := BLt 128.

Definition e_char_is_char : bexp :=
  BIte (BLt 32) (BIn byte_space_ranges) (BNot (BIn char_char_excluded)).
Definition e_char_is_name_start : bexp :=
  BIte (BLt 129) (BIn byte_name_start_ranges) (BIn char_name_start_ranges).
Definition e_char_is_name : bexp :=
  BIte (BLt 129) (BIn byte_name_ranges) (BIn char_name_ranges).

Definition e_byte_is_space : bexp := BIn byte_space_ranges.
Definition e_byte_is_name_start : bexp := BIn byte_name_start_ranges.
Definition e_byte_is_name : bexp := BIn byte_name_ranges.
Definition e_byte_is_char : bexp := BOr (BGt byte_char_gt) e_byte_is_space.

Definition e_xml_Char : bexp := BIn Chars.xml_Char_ranges.
Definition e_xml_NameStartChar : bexp := BIn Chars.xml_NameStartChar_ranges.
Definition e_xml_NameChar : bexp := BIn Chars.xml_NameChar_ranges.
Definition e_xml_S : bexp := BOr (BOr (BOr (BEq 32) (BEq 9)) (BEq 13)) (BEq 10).

Lemma eval_scalar c : eval c e_scalar = Chars.scalar c.
Proof. reflexivity. Qed.
Lemma eval_ascii c : eval c e_ascii = (c <? 128).
Proof. reflexivity. Qed.
Lemma eval_char_is_char c : eval c e_char_is_char = char_is_char c.
Proof. rewrite char_is_char_alt. reflexivity. Qed.
Lemma eval_char_is_name_start c : eval c e_char_is_name_start = char_is_name_start c.
Proof. rewrite char_is_name_start_alt. reflexivity. Qed.
Lemma eval_char_is_name c : eval c e_char_is_name = char_is_name c.
Proof. rewrite char_is_name_alt. reflexivity. Qed.
Lemma eval_byte_is_space c : eval c e_byte_is_space = byte_is_space c.
Proof. reflexivity. Qed.
Lemma eval_byte_is_name_start c : eval c e_byte_is_name_start = byte_is_name_start c.
Proof. reflexivity. Qed.
Lemma eval_byte_is_name c : eval c e_byte_is_name = byte_is_name c.
Proof. reflexivity. Qed.
Lemma eval_byte_is_char c : eval c e_byte_is_char = byte_is_char c.
Proof. reflexivity. Qed.
Lemma eval_xml_Char c : eval c e_xml_Char = Chars.xml_Char c.
Proof. reflexivity. Qed.
Lemma eval_xml_NameStartChar c : eval c e_xml_NameStartChar = Chars.xml_NameStartChar c.
Proof. reflexivity. Qed.
Lemma eval_xml_NameChar c : eval c e_xml_NameChar = Chars.xml_NameChar c.
Proof. reflexivity. Qed.
Lemma eval_xml_S c : eval c e_xml_S = Chars.xml_S c.
Proof. reflexivity. Qed.

(* "on the domain [d], [a] and [b] coincide" *)
Definition e_agree_on (d a b : bexp) : bexp := BOr (BNot d) (BEqb a b).

Lemma agree_on d a b :
  decide_b (e_agree_on d a b) = true ->
  forall c, eval c d = true -> eval c a = eval c b.
Proof.
  intros H c Hd. pose proof (decide _ H c) as E.
  cbn [eval e_agree_on] in E. rewrite Hd in E. cbn [negb orb] in E.
  apply eqb_prop in E. exact E.
Qed.

(* ------------------------------------------------------------------------------------------ *)
(* Main theorems                                                                                 *)

Theorem char_tables_conform : forall c : N, Chars.scalar c = true ->
  char_is_char c = Chars.xml_Char c /\
  char_is_name_start c = Chars.xml_NameStartChar c /\
  char_is_name c = Chars.xml_NameChar c.
Proof.
  intros c H. rewrite <- eval_scalar in H.
  rewrite <- eval_char_is_char, <- eval_char_is_name_start, <- eval_char_is_name,
          <- eval_xml_Char, <- eval_xml_NameStartChar, <- eval_xml_NameChar.
  repeat split; (apply (agree_on e_scalar); [vm_compute; reflexivity | exact H]).
Qed.
Print Assumptions char_tables_conform.

(* the u8 versions agree with the recommendation on ASCII *)
Theorem byte_tables_conform : forall x : N, x < 128 ->
  byte_is_char x = Chars.xml_Char x /\
  byte_is_name_start x = Chars.xml_NameStartChar x /\
  byte_is_name x = Chars.xml_NameChar x.
Proof.
  intros x H. apply N.ltb_lt in H. rewrite <- eval_ascii in H.
  rewrite <- eval_byte_is_char, <- eval_byte_is_name_start, <- eval_byte_is_name,
          <- eval_xml_Char, <- eval_xml_NameStartChar, <- eval_xml_NameChar.
  repeat split; (apply (agree_on e_ascii); [vm_compute; reflexivity | exact H]).
Qed.
Print Assumptions byte_tables_conform.

Theorem byte_space_conform : forall x : N, byte_is_space x = Chars.xml_S x.
Proof.
  intros x. rewrite <- eval_byte_is_space, <- eval_xml_S.
  apply (agree_on BTrue); [vm_compute; reflexivity | reflexivity].
Qed.
Print Assumptions byte_space_conform.

(* the u8 and the char versions agree wherever both are used *)
Theorem byte_char_agree : forall x : N, x < 128 ->
  byte_is_char x = char_is_char x /\ byte_is_name_start x = char_is_name_start x /\ byte_is_name x = char_is_name x.
Proof.
  intros x H. apply N.ltb_lt in H. rewrite <- eval_ascii in H.
  rewrite <- eval_byte_is_char, <- eval_byte_is_name_start, <- eval_byte_is_name,
          <- eval_char_is_char, <- eval_char_is_name_start, <- eval_char_is_name.
  repeat split; (apply (agree_on e_ascii); [vm_compute; reflexivity | exact H]).
Qed.
Print Assumptions byte_char_agree.
