(* Proofs/CstFullS4Main.v -- the capstone fragment, stage S4 (Spec/CstFullS4.v): markup entities TOGETHER with namespaces
   and Unicode.  The rendering of every well-formed document -- internal DTD subset whose entities are character data
   or MARKUP (elements with qualified Unicode names, namespace declarations and attributes, comments, PIs,
   character data, further references), referred to in character data, attribute values and namespace URIs,
   nested up to the limits of the crate -- parses, with allow_dtd, to exactly the tree that the document in which
   every reference has been replaced by what it stands for denotes in Spec/CstNs.v ([parse_render_sem_full_s4]):
   the prefixes of an element that arrives through an entity are resolved in the scope of the place of the
   REFERENCE, a declaration inside the entity value shadows it for the content of its element, and the in-scope
   lists are those of Spec/Scope.v.  So two documents with the same meaning have the same view
   ([hoist_insensitive_full_s4]).  Entities that stand for items add nodes, so the size hypotheses are about the
   MEANING (as in Proofs/CstEntCMain.v), not about the input. *)
From Coq Require Import Ascii String.
From Coq Require Import List NArith PeanoNat Bool Lia ZifyBool ZifyN ZifyNat.
Import ListNotations.
From RX Require Import Generated.
From RX.Model Require Import Base CharClass Stream Tokenizer Doc Builder Parse.
From RX.Spec Require Cst CstText CstEnt Detector Scope CstU CstNs.
From RX.Spec Require Tree.
From RX.Spec Require Import Text CstFull CstFullS4.
From RX.Proofs Require Import Tactics CstLex CstBuild CstNsLex CstNsView CstNsBuild CstULex.
From RX.Proofs Require Import CstFullLex CstFullBuild CstFullTree CstFullItems CstFullDoc CstFullMain CstFullS3.
From RX.Proofs Require Import CstFullS4Sem CstFullS4Text CstFullS4Items CstFullS4Doc.
From RX.Proofs Require CstNsItems CstNsDoc CstNsMain.
Open Scope N_scope.

Notation bden := (den bmeaning).
Notation bdens := (CstFullTree.dens bpieces bmeaning).
Notation dens0 := (CstFullTree.dens epieces M0).

(* ------------------------------------------------------------------------------------------ *)
(* the attributes of a meaning                                                                *)
(* ------------------------------------------------------------------------------------------ *)
Definition vattrs (l : list CstNs.vnode) : nat :=
  list_sum (map (fun v => match v with CstNs.VElem _ _ attrs _ _ => length attrs | _ => O end) l).

Lemma vattrs_app a b0 : vattrs (a ++ b0) = (vattrs a + vattrs b0)%nat.
Proof. unfold vattrs. rewrite map_app, list_sum_app. reflexivity. Qed.

Lemma vattrs_sem : forall i inh, vattrs (CstNs.sem_item inh i) = NT.nattrs i.
Proof.
  intros i. induction i as [n a w|n a w cs w2 IH|bs|bs|t s v] using NT.item_ind'; intros inh; try reflexivity.
  - rewrite NT.sem_item_elem, NT.nattrs_elem. unfold vattrs, NT.elem_v. cbn [map list_sum]. rewrite NT.sem_attrs_len. reflexivity.
  - rewrite NT.sem_item_elem, NT.nattrs_elem. unfold NT.elem_v. cbv zeta.
    change (vattrs (?x :: ?r)) with (vattrs ([x] ++ r)). rewrite vattrs_app. unfold vattrs at 1. cbn [map list_sum].
    rewrite NT.sem_attrs_len. change (list_sum [NT.nea a]) with (NT.nea a + 0)%nat. rewrite Nat.add_0_r. f_equal.
    generalize (NT.esc a inh). clear - IH. induction IH as [|c r Hc _ IHr]; intros sc; [reflexivity|].
    cbn [NT.sem_items NT.nattrs_items]. rewrite vattrs_app, Hc, IHr. reflexivity.
Qed.

Lemma vattrs_sems : forall l inh, vattrs (NT.sem_items inh l) = NT.nattrs_items l.
Proof.
  induction l as [|c r IH]; intros inh; [reflexivity|]. cbn [NT.sem_items NT.nattrs_items].
  rewrite vattrs_app, vattrs_sem, IH. reflexivity.
Qed.

(* ------------------------------------------------------------------------------------------ *)
(* the meaning, in document order                                                             *)
(* ------------------------------------------------------------------------------------------ *)
Section Sem4.
Variable d : S4.doc.
Hypothesis Hwf : S4.wf_doc d = true.
Notation main := (S4.x_main d).

Lemma flat_sem l : flat_map (CstNs.sem_item []) l = NT.sem_items [] l.
Proof. induction l as [|x r IH]; [reflexivity|]. cbn [flat_map NT.sem_items]. rewrite IH. reflexivity. Qed.

Lemma bdens_flat l : flat_map bden l = bdens l.
Proof. induction l as [|x r IH]; [reflexivity|]. cbn [flat_map CstFullTree.dens]. rewrite IH. reflexivity. Qed.

Lemma sem_all root' tr cI : S4.inline d = Some (cI, tr) -> d_root cI = root' ->
  d_before cI = map (fun p => (S4.misc_item (fst p), snd p)) (d_before main) ->
  d_after cI = map (fun p => (fst p, S4.misc_item (snd p))) (d_after main) ->
  S4.sem d = NT.sem_items [] (L4 d root').
Proof.
  intros Hi Er Eb Ea. destruct (s4_parts d Hwf) as [_ Hb _ _ _ H3 _ _ H6 _].
  unfold S4.sem. rewrite Hi. unfold L4, CstFull.sem, doc_items. rewrite Er, Eb, Ea.
  rewrite !flat_sem, !bdens_flat.
  rewrite !CstNsDoc.sem_items_app. f_equal.
  - f_equal. unfold B0. rewrite (regroup_items epieces). exact (eq_sym (dens_misc_fst _ Hb)).
  - rewrite (bdens_app _ (_ :: _)). cbn [CstFullTree.dens]. rewrite !CstNsDoc.sem_items_app. f_equal; [|f_equal].
    + f_equal. unfold B1. rewrite (regroup_items epieces), map_map. cbn [fst]. exact (eq_sym (dens_misc_fst _ H3)).
    + f_equal. rewrite map_map. cbn [snd]. exact (eq_sym (dens_misc_snd _ H6)).
Qed.

End Sem4.

(* ------------------------------------------------------------------------------------------ *)
(* the theorems                                                                               *)
(* ------------------------------------------------------------------------------------------ *)
Theorem parse_render_sem_full_s4 : forall (d : S4.doc) (opt : options),
  S4.wf_doc d = true ->
  allow_dtd opt = true ->                                         (* the options allow a DOCTYPE *)
  N.of_nat (length (S4.sem d)) < nodes_limit opt ->               (* room for all nodes + the Root *)
  N.of_nat (length (S4.sem d)) < u32_max ->                        (* of the MEANING: entities add nodes *)
  N.of_nat (S4.nattrs d) < u32_max ->                              (* the attribute rows of the meaning *)
  S4.distinct_decls_le d (N.to_nat 65535) ->                       (* at most 65535 distinct declared bindings *)
  1 + N.of_nat (S4.ns_cost d) <= u32_max ->                        (* the namespace table fits *)
  exists doc, parse (S4.render d) opt = Ok doc /\ view (S4.render d) doc = Some (S4.sem d).
Proof.
  intros d opt Hwf Hdtd Hlim Hmax Hattr Hdist Hcost. set (text := S4.render d).
  destruct (s4_parts d Hwf) as [_ _ _ _ _ _ (name & ens & ws & body & Er) H5 _ (root' & tr & Hroot & Hinl & Hl & Hp & Hns)].
  set (cI := {| d_before := map (fun p => (S4.misc_item (fst p), snd p)) (d_before (S4.x_main d));
                d_ws0 := d_ws0 (S4.x_main d); d_root := root';
                d_after := map (fun p => (fst p, S4.misc_item (snd p))) (d_after (S4.x_main d));
                d_ws_end := d_ws_end (S4.x_main d) |}) in *.
  pose proof (sem_all d Hwf root' tr cI Hinl eq_refl eq_refl eq_refl) as Esem.
  unfold S4.distinct_decls_le in Hdist. rewrite Hinl in Hdist. unfold S4.ns_cost in Hcost. rewrite Hinl in Hcost.
  unfold CstFull.distinct_decls_le, doc_decls in Hdist. unfold CstFull.ns_cost in Hcost. cbn [d_root cI] in Hdist, Hcost.
  set (D := flat_map CstNs.item_decls (bden root')) in *.
  assert (HD : forall l, NoDup l -> incl l D -> N.of_nat (length l) <= 65535).
  { intros l N1 N2. pose proof (Hdist l N1 N2). lia. }
  assert (Hsz : NT.nsizes (L4 d root') = N.of_nat (length (S4.sem d))).
  { rewrite Esem, sem_items_len. reflexivity. }
  assert (Hat : NT.nattrs_items (bden root') = S4.nattrs d).
  { unfold S4.nattrs. fold (vattrs (S4.sem d)). rewrite Esem, vattrs_sems. unfold L4.
    destruct (s4_parts d Hwf) as [H0 Hb _ H1 _ H3 _ _ H6 _].
    destruct (regroup_wf epieces M0 _ _ H0 (misc_before_wf0 _ Hb)) as [R1 _].
    destruct (regroup_wf epieces M0 _ _ H1 (misc_before_wf0 _ H3)) as [Q1 _].
    destruct (pairs_dens epieces M0 _ R1) as (_ & _ & X0 & _). destruct (pairs_dens epieces M0 _ Q1) as (_ & _ & X1 & _).
    destruct (pairs_dens epieces M0 _ (misc_after_wf0 _ H6)) as (_ & _ & X2 & _).
    assert (G : forall x y z w : nat, x = 0%nat -> y = 0%nat -> w = 0%nat -> (x + (y + (z + w)) = z)%nat) by (intros; lia).
    rewrite !nattrs_items_app. symmetry. apply G; [exact X0|exact X1|exact X2]. }
  rewrite ns_oks_forallb in Hns.
  destruct (parse_document_ok_4 d Hwf D HD root' tr (init_ctx text opt) Hroot Hl Hp Hns)
    as (cf & K & E & Habs & Hpp & F).
  { unfold D. rewrite items_decls_flat. apply incl_refl. }
  { apply (CstNsMain.init_ctx_CIn text D opt). }
  { reflexivity. } { reflexivity. } { reflexivity. }
  { unfold CstNsItems.node_room. cbn. rewrite Hsz. unfold len_N. cbn [length]. lia. }
  { unfold CstNsItems.attr_room. cbn. rewrite Hat. lia. }
  { unfold CstNsItems.ns_room. cbn. unfold len_N. cbn [length]. rewrite ns_costs_sum. lia. }
  cbn [c_parent_id CstNsMain.init_ctx c_doc d_nodes] in F. change (len_N [_]) with 1 in F.
  destruct (finish_g text opt cf K (L4 d root') ltac:(rewrite Hdtd; exact E) Habs Hpp F) as (doc & P & V).
  { assert (Er' : exists ens' body', root' = @IElem bpieces name ens' ws body').
    { rewrite Er, inline_item_elem in Hroot. destruct (inline_entries (S4.table d) false ens) as [[a' ta]|]; [|discriminate].
      cbn [E.obind fst] in Hroot. destruct body as [[cs0 w2]|].
      - destruct (inline_items (S4.table d) false cs0) as [[b0 tb0]|]; [|discriminate]. cbn [E.obind] in Hroot. injection Hroot as <- _. eauto.
      - injection Hroot as <- _. eauto. }
    destruct Er' as (ens' & body' & ->). unfold L4. rewrite den_elem. cbn [app]. rewrite app_assoc. eauto 10. }
  { rewrite Hsz. exact Hmax. }
  exists doc. split; [exact P|]. rewrite V, Esem. reflexivity.
Qed.

Print Assumptions parse_render_sem_full_s4.

(* documents with the same meaning -- however the content is distributed over entities (character data or markup),
   literal text, CDATA sections and references, and whatever the layout -- have the same view *)
Theorem hoist_insensitive_full_s4 : forall (d1 d2 : S4.doc) opt,
  S4.wf_doc d1 = true -> S4.wf_doc d2 = true -> allow_dtd opt = true -> S4.sem d1 = S4.sem d2 ->
  N.of_nat (length (S4.sem d1)) < nodes_limit opt -> N.of_nat (length (S4.sem d1)) < u32_max ->
  N.of_nat (S4.nattrs d1) < u32_max ->
  S4.distinct_decls_le d1 (N.to_nat 65535) -> S4.distinct_decls_le d2 (N.to_nat 65535) ->
  1 + N.of_nat (S4.ns_cost d1) <= u32_max -> 1 + N.of_nat (S4.ns_cost d2) <= u32_max ->
  exists x1 x2, parse (S4.render d1) opt = Ok x1 /\ parse (S4.render d2) opt = Ok x2 /\
                view (S4.render d1) x1 = view (S4.render d2) x2.
Proof.
  intros d1 d2 opt W1 W2 Hdtd E L Mx At D1 D2 C1 C2.
  assert (At2 : S4.nattrs d2 = S4.nattrs d1) by (unfold S4.nattrs; rewrite E; reflexivity).
  destruct (parse_render_sem_full_s4 d1 opt W1 Hdtd L Mx At D1 C1) as (x1 & P1 & V1).
  destruct (parse_render_sem_full_s4 d2 opt W2 Hdtd ltac:(rewrite <- E; exact L) ltac:(rewrite <- E; exact Mx) ltac:(rewrite At2; exact At) D2 C2)
    as (x2 & P2 & V2).
  exists x1, x2. split; [exact P1|]. split; [exact P2|]. rewrite V1, V2, E. reflexivity.
Qed.
Print Assumptions hoist_insensitive_full_s4.

Theorem render_valid_utf8_s4 : forall d : S4.doc, S4.wf_doc d = true -> valid_utf8_b (S4.render d) = true.
Proof. intros d H. apply U8.valid_iff_Valid. apply text_valid. exact H. Qed.
Print Assumptions render_valid_utf8_s4.
