(* Proofs/CstEntRejItems.v -- C09 on whole documents: items on whose expansion the loop detector stops: the content
   loop fails with EntityReferenceLoop after the items before -- and the part of the failing item
   before the reference -- have been read as in Proofs/CstEntCItems.v. *)
From Coq Require Import Ascii String.
From Coq Require Import List NArith PeanoNat Bool Lia ZifyBool ZifyN ZifyNat.
Import ListNotations.
From RX Require Import Generated.
From RX.Model Require Import Base CharClass Stream Tokenizer Doc Builder Parse.
From RX.Spec Require Cst CstText CstEnt Detector.
From RX.Spec Require Import Text.
From RX.Proofs Require Import Tactics CstLex CstBuild CstTree CstItems CstDoc TextMachine TextMerge HoistProofs NoPanicUtf8 DetectorProofs.
From RX.Proofs Require Import CstTextSem CstTextLex CstTextBuild CstTextItems.
From RX.Proofs Require Import CstEntSem CstEntText CstEntAttr CstEntMeaning CstEntRun CstEntLex CstEntDtd CstEntBuild CstEntInline CstEntItems CstEntDoc CstEntMain.
From RX.Proofs Require Import CstEntCFloor CstEntCAttr CstEntCBuild CstEntCSem CstEntCLex CstEntCLex2 CstEntCLoop CstEntCText CstEntCItems.
From RX.Proofs Require Import CstEntRejSem CstEntRejAttr CstEntRejText.
Open Scope N_scope.

Ltac clia := repeat match goal with H : @eq bool _ true |- _ => clear H end; lia.

(* ---- the start tag of an element with content, read ---- *)
Section Start.
Variable text : bytes.
Hypothesis Hascii : Forall (fun x => x < 128) text.
Variable decls : list E.edecl.
Variable es : list entity.
Hypothesis Henv : Forall2 (ent_ok text) decls es.
Hypothesis Hdecls : Forall decl_ok decls.
Hypothesis Hadjs : Forall decl_adj decls.
Hypothesis Hcont : Forall decl_cont decls.
Variable k : nat.

Notation tb := (E.level decls k).
Notation W := (CstLex.W text).
Notation evl := (CstEntCBuild.evl text).
Notation OR := (CstEntCText.OR es).
Notation SemI := (CstEntCText.SemI text).

Lemma elem_start_c name attrs ws cs ws2 m en tl p post c0 c frs acc lvl attrs' tra itsc lda :
  E.wf_item m (E.IElem name attrs ws (Some (cs, ws2))) = true ->
  CstEntCLex.W text en tl p (E.r_item (E.IElem name attrs ws (Some (cs, ws2))) ++ post) ->
  OR c0 c frs -> SemI frs acc ->
  m = (0 <? ld_depth (c_ld c)) ->
  c_entity_floor c <= len_N (c_parent_prefixes c) ->
  E.inline_attrs tb m attrs = Some (attrs', tra) -> ld_run (c_ld c) tra = Some lda ->
  Pok acc [T.IElem name attrs' ws (Some (E.regroup itsc, ws2))] ->
  Rooms c0 acc [T.IElem name attrs' ws (Some (E.regroup itsc, ws2))] ->
  let q := p + 1 + blen name + blen (flat_map E.r_attr attrs) + blen ws + 1 in
  let post2 := [60; 47] ++ name ++ ws2 ++ [62] ++ post in
  exists c1,
    parse_element text context (evl lvl) (CstEntCLex.st en tl p (E.r_item (E.IElem name attrs ws (Some (cs, ws2))) ++ post)) c =
      Ok (true, CstEntCLex.st en tl q (E.r_items cs ++ post2), c1) /\
    OR (sh c1) c1 [] /\ c_ld c1 = lda /\ ld_depth lda = ld_depth (c_ld c) /\
    c_entity_floor c1 <= len_N (c_parent_prefixes c1) /\
    Pok [] itsc /\ Rooms (sh c1) [] itsc /\
    CstEntCLex.W text en tl q (E.r_items cs ++ post2).
Proof.
  intros Hwf HW HO HS Hm Hfl Eat Ela HP HR q0 post20.
  subst q0 post20.
  destruct (wf_elem_parts_g _ _ _ _ _ Hwf) as (Hn & Ha & Hx & Hd & Hw & Hw2 & Hna & Hcs). clear Hwf.
  pose proof (inline_attrs_len _ _ _ _ _ Eat) as Elen.
  set (el := T.IElem name attrs' ws (Some (E.regroup itsc, ws2))) in *.
  assert (Hprov : forallb (fun a => E.crlf_split_ok (T.a_value a)) attrs' = true /\ forallb E.provisos_item (E.regroup itsc) = true).
  { destruct HP as [X _]. rewrite walk_single in X by reflexivity. cbn [fst] in X. rewrite forallb_app in X.
    apply andb_true_iff in X. destruct X as [_ X]. cbn [forallb] in X. unfold el in X. rewrite prov_elem, andb_true_r in X.
    apply andb_true_iff in X. exact X. }
  destruct Hprov as [Hpa Hpc]. destruct (provisos_walk itsc Hpc) as [Pc1 Pc2].
  set (outc := fst (walk [] itsc)) in *. set (accc := snd (walk [] itsc)) in *.
  rewrite er_item_elem in *. rewrite <- !app_assoc in HW |- *.
  change ([62] ++ E.r_items cs ++ [60; 47] ++ name ++ ws2 ++ [62] ++ post)
    with (tag_tail false ++ (E.r_items cs ++ [60; 47] ++ name ++ ws2 ++ [62] ++ post)) in *.
  set (post2 := [60; 47] ++ name ++ ws2 ++ [62] ++ post) in *.
  rewrite <- raws_render in HW |- *.
  rewrite (lex_relement text Hascii en tl) by (try assumption; apply (raws_wf_g m); exact Ha).
  cbv zeta. rewrite raws_render in HW |- *.
  destruct (flush_res text es c0 c frs acc HO HS) as (cr & Kt & Er & Ar & St & Ir & L1 & L2 & L3 & HKt & Ees & Epp).
  unfold rstart_toks. rewrite (evs_reset text lvl (TElementStart (sl (p + 1) (p + 1)) (sl (p + 1) (p + 1 + blen name)) p) _ c cr I Er Ar).
  fold (rstart_toks p name (map raw attrs)).
  destruct (rooms_single text decls es k (IHok text Hascii decls es Henv Hdecls Hadjs Hcont k) c0 acc el cr Kt eq_refl HR St HKt) as [NR AR].
  unfold el in NR, AR. rewrite erase_elem in NR, AR. rewrite nsize_elem in NR. rewrite nattrs_elem, map_length in AR.
  rewrite den_walk in NR, AR. fold outc accc in NR, AR.
  pose proof (proj1 HW) as HWf. rewrite <- !app_assoc in HWf.
  destruct (start_tag_g text Hascii decls es Henv Hdecls Hadjs lvl p name attrs attrs' tra k ws false
              (E.r_items cs ++ post2 ++ tl) cr lda m
              HWf (wf_name_ne _ Hn) Ha Hx Hd ltac:(rewrite L1; exact Hm) Eat Hpa ltac:(rewrite L1; exact Ela) Ir Ees)
    as (c1 & ar & E & S1 & Hkm & I1 & A1 & T1 & (D1 & D2 & Fl1) & P1 & P2 & P3);
    [unfold node_room, room in *; clia|unfold attr_room, len_N in *; clia|].
  cbv zeta in E. apply bind_ok in E. destruct E as (cx & E0 & E1).
  rewrite E0. cbn [bind]. rewrite E1. cbn [bind negb]. clear E0 E1 cx.
  exists c1.
  destruct (tas_e_facts_g text decls (ws ++ tag_tail false ++ E.r_items cs ++ post2 ++ tl) k m attrs attrs' tra (p + 1 + blen name))
    as (_ & _ & _ & Tl).
  { pose proof (CstLex.W_app _ _ _ _ HWf) as X. change (blen [60]) with 1 in X. apply (CstLex.W_app _ _ _ _ X). }
  { exact Ha. } { exact Eat. }
  set (row := (Some (c_parent_id cr), KElement None (sl (p + 1) (p + 1 + blen name)) ar (1, 1))) in *.
  set (tas := tas_e (p + 1 + blen name) attrs attrs') in *.
  (* the children *)
  pose proof (CstEntCLex.W_app text en tl _ _ _ HW) as HW1. change (blen [60]) with 1 in HW1.
  pose proof (CstEntCLex.W_app text en tl _ _ _ HW1) as HW2. pose proof (CstEntCLex.W_app text en tl _ _ _ HW2) as HW3.
  pose proof (CstEntCLex.W_app text en tl _ _ _ HW3) as HW4. pose proof (CstEntCLex.W_app text en tl _ _ _ HW4) as HW5.
  set (q := p + 1 + blen name + blen (flat_map E.r_attr attrs) + blen ws + blen (tag_tail false)) in *.
  pose proof (Step0_len _ _ _ _ S1) as Ln1. change (len_N [_]) with 1 in Ln1.
  change (d_nodes (c_doc (sh c1))) with (d_nodes (c_doc c1)) in Ln1. change (d_nodes (c_doc (sh cr))) with (d_nodes (c_doc cr)) in Ln1.
  pose proof (Step_attrs_len _ _ _ _ S1) as La1. rewrite len_N_map in La1. fold tas in La1. rewrite Tl in La1.
  change (d_attrs (c_doc (sh c1))) with (d_attrs (c_doc c1)) in La1. change (d_attrs (c_doc (sh cr))) with (d_attrs (c_doc cr)) in La1.
  pose proof (Step_opt _ _ _ _ S1) as Lo1. change (c_opt (sh c1)) with (c_opt c1) in Lo1. change (c_opt (sh cr)) with (c_opt cr) in Lo1.
  destruct (s_keep _ _ _ _ S1) as (_ & _ & Kes & _).
  change (c_entities (sh c1)) with (c_entities c1) in Kes. change (c_entities (sh cr)) with (c_entities cr) in Kes.
  assert (HO1 : OR (sh c1) c1 []).
  { constructor; try assumption; try reflexivity; [apply same_frame_sym; apply sh_frame|congruence]. }
  change (p + 1 + blen name + blen (flat_map E.r_attr attrs) + blen ws + 1) with q.
  split; [reflexivity|]. split; [exact HO1|]. split; [exact D1|]. split; [rewrite D2, L1; reflexivity|].
  split; [rewrite Fl1, L3, P2, len_N_app, Epp; change (len_N [_]) with 1; clia|].
  split; [split; assumption|]. split; [|exact HW5].
  fold outc accc. split.
  - unfold node_room in *. change (d_nodes (c_doc (sh c1))) with (d_nodes (c_doc c1)). change (c_opt (sh c1)) with (c_opt c1).
    rewrite Ln1, Lo1. fold outc accc. clia.
  - unfold attr_room in *. change (d_attrs (c_doc (sh c1))) with (d_attrs (c_doc c1)). rewrite La1.
    rewrite map_app, nattrs_items_app, nattrs_flush in AR. fold outc accc. unfold len_N in *. clia.
Qed.

End Start.

Section RejItems.
Variable text : bytes.
Hypothesis Hascii : Forall (fun x => x < 128) text.
Variable decls : list E.edecl.
Variable es : list entity.
Hypothesis Henv : Forall2 (ent_ok text) decls es.
Hypothesis Hdecls : Forall decl_ok decls.
Hypothesis Hadjs : Forall decl_adj decls.
Hypothesis Hcont : Forall decl_cont decls.
Variable k : nat.
Hypothesis IHf : forall k', k = S k' -> forall cs, ItemsF text decls es k' cs.
Hypothesis IHt : forall k', k = S k' -> TLfS text decls es k'.

Notation gtb := (glevel decls k).
Notation W := (CstLex.W text).
Notation evl := (CstEntCBuild.evl text).
Notation OR := (CstEntCText.OR es).
Notation Res := (CstEntCText.Res text es).
Notation SemI := (CstEntCText.SemI text).
Notation IHk := (IHok text Hascii decls es Henv Hdecls Hadjs Hcont k).

(* ---- a text token ---- *)
Lemma tok_stretch_f l p more m c0 c frs acc L its tr :
  W p (E.r_epieces l ++ more) -> Forall (ep_ok m) l -> l <> [] ->
  m = (0 <? ld_depth (c_ld c)) -> N.of_nat L + ld_depth (c_ld c) = 12 -> 12 <= N.of_nat k + ld_depth (c_ld c) ->
  OR c0 c frs -> SemI frs acc -> bnd acc = true -> c_entity_floor c <= len_N (c_parent_prefixes c) ->
  E.inline_run gtb m l = Some (its, tr) -> ld_run (c_ld c) tr = None ->
  Pok acc its -> Rooms c0 acc its ->
  exists pos, evl L (TText (sl p (p + blen (E.r_epieces l))) (p, p + blen (E.r_epieces l))) c = Err (EntityReferenceLoop pos).
Proof.
  intros HW Hok Hne Hm Hlvl Hk HO HS Hbnd Hfl Hin Hld HP HR.
  unfold CstEntCBuild.evl. cbn [token_with].
  rewrite process_text_with_unfold. unfold slice_bytes at 1. cbn [sl sl_start sl_end].
  rewrite (CstLex.W_sub _ _ _ _ HW).
  pose proof (CstLex.W_le _ _ _ (CstLex.W_app _ _ _ _ HW)) as Hle.
  destruct (existsb (fun x => (x =? 38) || (x =? 13)) (E.r_epieces l)) eqn:Efast; cbn [negb].
  2:{ destruct (existsb_or_false _ _ _ Efast) as [E38 _].
      destruct (inline_run_plain gtb m l its tr E38 Hok Hin) as (-> & _). discriminate. }
  cbn [fst snd]. rewrite (stream_from_substr_W text p (E.r_epieces l) more HW). cbn [bind].
  destruct (TLf text Hascii decls es Henv Hdecls Hadjs Hcont k IHf IHt l [] [] m (p + blen (E.r_epieces l)) p more c0 c frs acc
              (S (length (s_rest (sst (p + blen (E.r_epieces l)) p (E.r_epieces l ++ more))))) L
              (p, p + blen (E.r_epieces l)) its tr Hok HW eq_refl Hle Hm Hlvl Hk (Forall_nil _) eq_refl (Forall_nil _) HO HS Hbnd Hfl Hin Hld
              ltac:(rewrite app_nil_r; exact HP) ltac:(rewrite app_nil_r; exact HR)
              ltac:(cbn [sst s_rest]; rewrite app_length; lia)) as [pos Ef].
  cbn [push_text_chunks] in Ef. rewrite Ef. eauto.
Qed.

(* ---- the segments of a run ---- *)
Lemma segs_f post en tl : text_stop post ->
  forall L prev p m c0 c frs acc lvl depth fuel its tr,
  Forall (eseg_wfm m) L -> ealt (prev :: L) -> CstEntCLex.W text en tl p (flat_map r_eseg L ++ post) ->
  m = (0 <? ld_depth (c_ld c)) -> N.of_nat lvl + ld_depth (c_ld c) = 12 -> 12 <= N.of_nat k + ld_depth (c_ld c) ->
  OR c0 c frs -> SemI frs acc -> seg_bnd L acc -> c_entity_floor c <= len_N (c_parent_prefixes c) ->
  E.inline_run gtb m (flat_map seg_pieces L) = Some (its, tr) -> ld_run (c_ld c) tr = None ->
  Pok acc its -> Rooms c0 acc its ->
  exists pos,
    parse_content_loop text context (evl lvl) (length L + fuel) depth (CstEntCLex.st en tl p (flat_map r_eseg L ++ post)) c =
    Err (EntityReferenceLoop pos).
Proof.
  intros Hpost. induction L as [|s L IH]; intros prev p m c0 c frs acc lvl depth fuel its tr
    HF A HW Hm Hlvl Hk HO HS Hb Hfl Hin Hld HP HR.
  - cbn [flat_map E.inline_run] in Hin. injection Hin as <- <-. discriminate.
  - pose proof HF as HF0. apply Forall_cons_iff in HF. destruct HF as [[Hs Hsm] HL].
    assert (A' : ealt (s :: L)) by (destruct A as [_ A]; exact A).
    cbn [flat_map] in Hin, HW |- *. rewrite <- app_assoc in HW |- *.
    destruct (inline_run_app _ _ _ _ _ _ Hin) as (ia & tra & ib & trb & Ea & Eb & -> & ->).
    destruct (Pok_app _ _ _ HP) as [HPa HPb]. pose proof (Rooms_app_l _ _ _ _ HR) as HRa.
    assert (Hstop : is_ess s = true -> text_stop (flat_map r_eseg L ++ post)).
    { intros Hs1. destruct L as [|[l'|bs'] L']; cbn [flat_map app]; [exact Hpost| |reflexivity].
      destruct A' as [A' _]. specialize (A' Hs1). discriminate. }
    rewrite ld_run_app in Hld. destruct (ld_run (c_ld c) tra) as [ld1|] eqn:El1.
    + (* this segment is read *)
      destruct (agree_run decls k (IHall decls k) m _ _ _ _ _ Ea El1 Hk) as [Ea' _].
      assert (Hone : exists c0a ca frsa K1 e1,
                parse_content_loop text context (evl lvl) (1 + (length L + fuel)) depth (CstEntCLex.st en tl p (r_eseg s ++ flat_map r_eseg L ++ post)) c =
                parse_content_loop text context (evl lvl) (length L + fuel) depth (CstEntCLex.st en tl (p + blen (r_eseg s)) (flat_map r_eseg L ++ post)) ca /\
                Res c0 c acc ia ld1 c0a ca frsa K1 e1).
      { destruct s as [l|bs].
        - destruct (segs_c text Hascii decls es Henv Hdecls Hcont k IHk (flat_map r_eseg L ++ post) en tl (Hstop eq_refl)
                      [ESS l] prev p m c0 c frs acc lvl depth (length L + fuel)%nat ia tra ld1)
            as (c0a & ca & frsa & K1 & e1 & E1 & HRes1); try assumption.
          { constructor; [split; assumption|constructor]. }
          { destruct A as [A1 _]. split; [exact A1|exact I]. }
          { cbn [flat_map]. rewrite app_nil_r. exact HW. }
          { cbn [flat_map]. rewrite app_nil_r. exact Ea'. }
          cbn [length Nat.add flat_map] in E1. rewrite app_nil_r in E1. exists c0a, ca, frsa, K1, e1. split; [exact E1|exact HRes1].
        - cbn [seg_pieces r_eseg] in *. cbn [E.inline_run E.obind fst snd] in Ea. injection Ea as <- <-. cbn [ld_run] in El1. injection El1 as <-.
          destruct Hs as [H1 H2]. rewrite <- !app_assoc in HW |- *. cbn [Nat.add].
          rewrite (loop_cdata text en tl) by exact HW.
          change T.cdata_close with n3 in *.
          rewrite (lex_cdata text Hascii en tl) by assumption.
          destruct (tok_cdata_c text es bs p _ en tl c0 c frs acc lvl HW HO HS) as (ca & E1 & HRes1).
          { destruct HPa as [_ X]. cbn [walk snd] in X. exact X. }
          { intros Z0. destruct HRa as [X _]. cbn [walk fst snd app] in X. apply (node_room_room _ _ X).
            unfold flush. rewrite all_marks_app. change (all_marks [T.PCData bs]) with false. rewrite andb_false_r.
            cbn [map]. rewrite nsizes_cons, nsize_text. change (nsizes []) with 0. lia. }
          rewrite E1. cbn [bind]. eexists c0, ca, _, [], []. split; [|exact HRes1].
          f_equal. f_equal. rewrite !blen_app. change (blen T.cdata_open) with 9. change (blen n3) with 3. lia. }
      destruct Hone as (c0a & ca & frsa & K1 & e1 & E1 & HRes1).
      cbn [length]. change (S (length L) + fuel)%nat with (1 + (length L + fuel))%nat. rewrite E1.
      pose proof HRes1 as (S1 & O1 & M1 & F1 & Le1 & D1 & D1' & Fl1 & T1).
      apply (IH s (p + blen (r_eseg s)) m c0a ca frsa (snd (walk acc ia)) lvl depth fuel ib trb HL A'); try assumption.
      * apply (CstEntCLex.W_app text en tl _ _ _ HW).
      * rewrite D1, D1'. exact Hm.
      * rewrite D1, D1'. exact Hlvl.
      * rewrite D1, D1'. exact Hk.
      * destruct L as [|[l'|bs'] L']; try exact I. destruct s as [l|bs]; [destruct A' as [A' _]; specialize (A' eq_refl); discriminate|].
        cbn [seg_pieces E.inline_run E.obind fst snd] in Ea. injection Ea as <- <-. cbn [walk snd seg_bnd]. rewrite bnd_snoc. reflexivity.
      * rewrite Fl1. rewrite (Run_pp _ _ _ (or_run _ _ _ _ O1)). destruct S1 as (_ & _ & ->).
        rewrite <- (Run_pp _ _ _ (or_run _ _ _ _ HO)). exact Hfl.
      * rewrite D1. exact Hld.
      * apply (Rooms_app_r text es _ _ _ _ _ _ _ _ _ _ _ HRes1 HR).
    + (* the detector stops in this segment *)
      destruct s as [l|bs]; cbn [r_eseg seg_pieces] in *.
      2:{ cbn [E.inline_run E.obind fst snd] in Ea. injection Ea as <- <-. discriminate. }
      pose proof (Hstop eq_refl) as Hstop'.
      destruct (ess_bytes l Hs) as (Hbt & x & r & Ex & Hx60). destruct Hs as (Hne & _ & _ & Hn3).
      cbn [length Nat.add]. rewrite Ex in HW |- *. cbn [app] in HW |- *. rewrite (loop_text text en tl) by assumption.
      change (x :: r ++ flat_map r_eseg L ++ post) with ((x :: r) ++ flat_map r_eseg L ++ post) in *. rewrite <- Ex in *.
      rewrite (lex_text' text Hascii en tl) by assumption.
      destruct HW as [HWf HWe]. rewrite <- app_assoc in HWf.
      destruct (tok_stretch_f l p _ m c0 c frs acc lvl ia tra HWf Hsm Hne Hm Hlvl Hk HO HS Hb Hfl Ea El1 HPa HRa) as [pos Ef].
      rewrite Ef. cbn [bind]. eauto.
Qed.

(* ---- items ---- *)
Definition ItemF (i : E.item) : Prop :=
  forall m en tl p post c0 c frs acc lvl depth fuel its tr,
    E.wf_item m i = true -> CstEntCLex.W text en tl p (E.r_item i ++ post) ->
    (E.is_text i = true -> text_stop post) ->
    OR c0 c frs -> SemI frs acc -> (E.is_text i = true -> bnd acc = true) ->
    m = (0 <? ld_depth (c_ld c)) -> N.of_nat lvl + ld_depth (c_ld c) = 12 -> 12 <= N.of_nat k + ld_depth (c_ld c) ->
    c_entity_floor c <= len_N (c_parent_prefixes c) ->
    E.inline_item gtb m i = Some (its, tr) -> ld_run (c_ld c) tr = None ->
    Pok acc its -> Rooms c0 acc its ->
    exists pos,
      parse_content_loop text context (evl lvl) (esteps i + fuel) depth (CstEntCLex.st en tl p (E.r_item i ++ post)) c =
      Err (EntityReferenceLoop pos).

Lemma ItemF_text ps : ItemF (E.IText ps).
Proof.
  intros m en tl p post c0 c frs acc lvl depth fuel its tr Hwf HW Hstop HO HS Hb Hm Hlvl Hk Hfl Hin Hld HP HR.
  specialize (Hstop eq_refl). specialize (Hb eq_refl).
  cbn [E.wf_item E.r_item esteps E.inline_item] in *.
  unfold E.wf_epieces in Hwf. rewrite !andb_true_iff in Hwf. destruct Hwf as [Hne [Hw Hadj]].
  pose proof (esegs_wfm m ps Hw Hadj) as HF.
  rewrite <- (esegs_render ps) in HW |- *. rewrite <- (esegs_flat ps) in Hin.
  apply (segs_f post en tl Hstop (esegs ps) (ESC []) p m c0 c frs acc lvl depth fuel its tr HF); try assumption.
  - apply ealt_sc. apply ealt_esegs.
  - destruct (esegs ps) as [|[l|bs] L]; try exact I. exact Hb.
Qed.

(* the start tag fails *)
Lemma elem_attrs_f name attrs ws body m en tl p post c0 c frs acc lvl attrs' tra :
  E.wf_item m (E.IElem name attrs ws body) = true ->
  CstEntCLex.W text en tl p (E.r_item (E.IElem name attrs ws body) ++ post) ->
  OR c0 c frs -> SemI frs acc ->
  m = (0 <? ld_depth (c_ld c)) -> 12 <= N.of_nat k + ld_depth (c_ld c) ->
  E.inline_attrs gtb m attrs = Some (attrs', tra) -> ld_run (c_ld c) tra = None ->
  forallb (fun a => E.crlf_split_ok (T.a_value a)) attrs' = true ->
  exists pos, parse_element text context (evl lvl) (CstEntCLex.st en tl p (E.r_item (E.IElem name attrs ws body) ++ post)) c =
              Err (EntityReferenceLoop pos).
Proof.
  intros Hwf HW HO HS Hm Hk Eat Hld Hprov.
  destruct (wf_elem_parts_g _ _ _ _ _ Hwf) as (Hn & Ha & Hx & Hd & Hw & _). clear Hwf.
  rewrite er_item_elem in *. rewrite <- !app_assoc in HW |- *.
  set (tail := match body with None => [47; 62] | Some (cs, ws2) => [62] ++ E.r_items cs ++ [60; 47] ++ name ++ ws2 ++ [62] end) in *.
  assert (Et : exists empty rest, tail ++ post = tag_tail empty ++ rest).
  { unfold tail. destruct body as [[cs ws2]|]; [exists false|exists true]; eexists; rewrite <- ?app_assoc; reflexivity. }
  destruct Et as (empty & rest & Et). rewrite Et in HW |- *.
  rewrite <- raws_render in HW |- *.
  rewrite (lex_relement text Hascii en tl) by (try assumption; apply (raws_wf_g m); exact Ha).
  cbv zeta. rewrite raws_render in HW |- *.
  destruct (flush_res text es c0 c frs acc HO HS) as (cr & Kt & Er & Ar & St & Ir & L1 & L2 & L3 & HKt & Ees & Epp).
  unfold rstart_toks. rewrite (evs_reset text lvl (TElementStart (sl (p + 1) (p + 1)) (sl (p + 1) (p + 1 + blen name)) p) _ c cr I Er Ar).
  fold (rstart_toks p name (map raw attrs)).
  pose proof (proj1 HW) as HWf. rewrite <- !app_assoc in HWf.
  apply (start_tag_f text Hascii decls es Henv Hdecls Hadjs lvl p name attrs attrs' tra k _ cr m _ HWf Ha Hx
           ltac:(rewrite L1; exact Hm) ltac:(rewrite L1; exact Hk) Eat Hprov ltac:(rewrite L1; exact Hld) Ir Ees).
Qed.

Lemma prov_el acc name attrs' ws body : Pok acc [T.IElem name attrs' ws body] ->
  forallb (fun a => E.crlf_split_ok (T.a_value a)) attrs' = true.
Proof.
  intros [X _]. rewrite walk_single in X by reflexivity. cbn [fst] in X. rewrite forallb_app in X.
  apply andb_true_iff in X. destruct X as [_ X]. cbn [forallb] in X. rewrite prov_elem, andb_true_r in X.
  apply andb_true_iff in X. apply X.
Qed.

Lemma ItemF_empty name attrs ws : ItemF (E.IElem name attrs ws None).
Proof.
  intros m en tl p post c0 c frs acc lvl depth fuel its tr Hwf HW _ HO HS _ Hm Hlvl Hk Hfl Hin Hld HP HR.
  rewrite inline_elem in Hin. destruct (E.inline_attrs gtb m attrs) as [[attrs' tra]|] eqn:Eat; [|discriminate].
  cbn [E.obind fst snd] in Hin. injection Hin as <- <-.
  destruct (elem_attrs_f name attrs ws None m en tl p post c0 c frs acc lvl attrs' tra Hwf HW HO HS Hm Hk Eat Hld (prov_el _ _ _ _ _ HP)) as [pos E].
  destruct (wf_elem_parts_g _ _ _ _ _ Hwf) as (Hn & _).
  exists pos. cbn [esteps Nat.add]. rewrite er_item_elem in HW, E |- *. rewrite <- !app_assoc in HW, E |- *.
  rewrite (loop_elem' text en tl) by assumption. rewrite E. reflexivity.
Qed.

Lemma ItemF_open name attrs ws cs ws2 : ItemsF text decls es k cs -> ItemF (E.IElem name attrs ws (Some (cs, ws2))).
Proof.
  intros HL m en tl p post c0 c frs acc lvl depth fuel its tr Hwf HW _ HO HS _ Hm Hlvl Hk Hfl Hin Hld HP HR.
  rewrite inline_elem in Hin. destruct (E.inline_attrs gtb m attrs) as [[attrs' tra]|] eqn:Eat; [|discriminate].
  cbn [E.obind fst snd] in Hin. destruct (E.inline_items gtb m cs) as [[itsc trc]|] eqn:Ecs; [|discriminate].
  cbn [E.obind fst snd] in Hin. injection Hin as <- <-.
  destruct (wf_elem_parts_g _ _ _ _ _ Hwf) as (Hn & _ & _ & _ & _ & Hw2 & Hna & Hcs).
  rewrite esteps_elem. cbn [Nat.add].
  assert (Eloop : forall X, parse_content_loop text context (evl lvl) (S X) depth
             (CstEntCLex.st en tl p (E.r_item (E.IElem name attrs ws (Some (cs, ws2))) ++ post)) c =
           let! (open, s, c1) := parse_element text context (evl lvl) (CstEntCLex.st en tl p (E.r_item (E.IElem name attrs ws (Some (cs, ws2))) ++ post)) c in
           parse_content_loop text context (evl lvl) X (if open then depth + 1 else depth) s c1).
  { intros X. rewrite er_item_elem in HW |- *. rewrite <- !app_assoc in HW |- *. apply (loop_elem' text en tl); assumption. }
  rewrite Eloop. clear Eloop.
  rewrite ld_run_app in Hld. destruct (ld_run (c_ld c) tra) as [lda|] eqn:Ela.
  - (* the start tag is read; the detector stops in the content *)
    destruct (agree_attrs decls k (IHall decls k) m _ _ _ _ _ Eat Ela Hk) as [Eat' _].
    destruct (elem_start_c text Hascii decls es Henv Hdecls Hadjs Hcont k name attrs ws cs ws2 m en tl p post c0 c frs acc lvl
                attrs' tra itsc lda Hwf HW HO HS Hm Hfl Eat' Ela HP HR)
      as (c1 & E1 & HO1 & D1 & D2 & Fl1 & HPc & HRc & HWc).
    rewrite E1. cbn [bind].
    replace (esteps_list cs + 1 + fuel)%nat with (esteps_list cs + S fuel)%nat by lia.
    apply (HL m en tl _ _ (sh c1) c1 [] [] lvl (depth + 1) (S fuel) itsc trc Hcs Hna HWc ltac:(reflexivity) HO1 (SemI_nil text)); try assumption.
    + destruct cs; [exact I|]. intros _. reflexivity.
    + rewrite D1, D2. exact Hm.
    + rewrite D1, D2. exact Hlvl.
    + rewrite D1, D2. exact Hk.
    + rewrite D1. exact Hld.
  - (* the detector stops in an attribute value *)
    destruct (elem_attrs_f name attrs ws (Some (cs, ws2)) m en tl p post c0 c frs acc lvl attrs' tra Hwf HW HO HS Hm Hk Eat Ela (prov_el _ _ _ _ _ HP)) as [pos E].
    rewrite E. cbn [bind]. eauto.
Qed.

(* ---- lists of items ---- *)
Lemma ItemsF_of cs : Forall ItemF cs -> ItemsF text decls es k cs.
Proof.
  induction 1 as [|i r Hi _ IH]; intros m en tl p post c0 c frs acc lvl depth fuel its tr
    Hwf Hna HW Hpost HO HS Hb Hm Hlvl Hk Hfl Hin Hld HP HR.
  - cbn [E.inline_items] in Hin. injection Hin as <- <-. discriminate.
  - cbn [forallb] in Hwf. apply andb_true_iff in Hwf. destruct Hwf as [Hw1 Hw2].
    rewrite r_items_cons in HW |- *. rewrite <- app_assoc in HW |- *.
    cbn [E.inline_items] in Hin.
    destruct (E.inline_item gtb m i) as [[its1 tr1]|] eqn:Ei; [|discriminate]. cbn [E.obind fst snd] in Hin.
    destruct (E.inline_items gtb m r) as [[its2 tr2]|] eqn:Er; [|discriminate]. cbn [E.obind fst snd] in Hin.
    injection Hin as <- <-.
    assert (Hna2 : E.no_adjacent_text r = true).
    { destruct r as [|d r']; [reflexivity|]. cbn [E.no_adjacent_text] in Hna. apply andb_true_iff in Hna. apply Hna. }
    assert (Hnext : forall d r', r = d :: r' -> E.is_text i = true -> E.is_text d = false).
    { intros d r' -> Hi1. cbn [E.no_adjacent_text] in Hna. apply andb_true_iff in Hna.
      destruct Hna as [Hna _]. rewrite Hi1 in Hna. cbn [andb] in Hna. apply negb_true_iff in Hna. exact Hna. }
    assert (Hstop1 : E.is_text i = true -> text_stop (E.r_items r ++ post)).
    { intros Hi1. destruct r as [|d r']; [exact Hpost|]. rewrite r_items_cons, <- app_assoc.
      apply (nontext_stop m); [apply (Hnext d r' eq_refl Hi1)|]. cbn [forallb] in Hw2. apply andb_true_iff in Hw2. apply Hw2. }
    destruct (Pok_app _ _ _ HP) as [HP1 HP2]. pose proof (Rooms_app_l _ _ _ _ HR) as HR1.
    cbn [esteps_list]. rewrite <- Nat.add_assoc.
    rewrite ld_run_app in Hld. destruct (ld_run (c_ld c) tr1) as [ld1|] eqn:El1.
    + destruct (agree_item decls k (IHall decls k) m i _ _ _ _ Ei El1 Hk) as [Ei' _].
      destruct (ItemOK_all text Hascii decls es Henv Hdecls Hadjs Hcont k IHk i m en tl p (E.r_items r ++ post) c0 c frs acc lvl depth
                  (esteps_list r + fuel)%nat its1 tr1 ld1 Hw1 HW Hstop1 HO HS Hb Hm Hlvl Hfl Ei' El1 HP1 HR1)
        as (c0a & ca & frsa & K1 & e1 & E1 & HRes1).
      rewrite E1. pose proof HRes1 as (S1 & O1 & M1 & F1 & Le1 & D1 & D1' & Fl1 & T1).
      apply (IH m en tl (p + blen (E.r_item i)) post c0a ca frsa (snd (walk acc its1)) lvl depth fuel its2 tr2 Hw2 Hna2); try assumption.
      * apply (CstEntCLex.W_app text en tl _ _ _ HW).
      * destruct r as [|d r']; [exact I|]. intros Hd. destruct (E.is_text i) eqn:Eti.
        -- rewrite (Hnext d r' eq_refl eq_refl) in Hd. discriminate.
        -- destruct (inline_nontext_g decls k m i its1 tr1 Eti Ei') as (x & -> & Hx). rewrite walk_single by exact Hx. reflexivity.
      * rewrite D1, D1'. exact Hm.
      * rewrite D1, D1'. exact Hlvl.
      * rewrite D1, D1'. exact Hk.
      * rewrite Fl1. rewrite (Run_pp _ _ _ (or_run _ _ _ _ O1)). destruct S1 as (_ & _ & ->).
        rewrite <- (Run_pp _ _ _ (or_run _ _ _ _ HO)). exact Hfl.
      * rewrite D1. exact Hld.
      * apply (Rooms_app_r text es _ _ _ _ _ _ _ _ _ _ _ HRes1 HR).
    + apply (Hi m en tl p (E.r_items r ++ post) c0 c frs acc lvl depth (esteps_list r + fuel)%nat its1 tr1 Hw1 HW Hstop1 HO HS Hb Hm Hlvl Hk Hfl Ei El1 HP1 HR1).
Qed.

Theorem ItemF_all : forall i, ItemF i.
Proof.
  intros i. induction i as [n a w|n a w cs w2 IH|ps|bs|t s v] using eitem_ind.
  - apply ItemF_empty.
  - apply ItemF_open. apply ItemsF_of. exact IH.
  - apply ItemF_text.
  - intros m en tl p post c0 c frs acc lvl depth fuel its tr _ _ _ _ _ _ _ _ _ _ Hin Hld. cbn in Hin. injection Hin as _ <-. discriminate.
  - intros m en tl p post c0 c frs acc lvl depth fuel its tr _ _ _ _ _ _ _ _ _ _ Hin Hld. cbn in Hin. injection Hin as _ <-. discriminate.
Qed.

Theorem ItemsF_level : forall cs, ItemsF text decls es k cs.
Proof. intros cs. apply ItemsF_of. apply Forall_forall. intros i _. apply ItemF_all. Qed.

End RejItems.

(* every level *)
Theorem Fail_all text (Hascii : Forall (fun x => x < 128) text) decls es :
  Forall2 (ent_ok text) decls es -> Forall decl_ok decls -> Forall decl_adj decls -> Forall decl_cont decls ->
  forall k, (forall cs, ItemsF text decls es k cs) /\ TLfS text decls es k.
Proof.
  intros Henv Hdecls Hadjs Hcont. induction k as [|k [IH1 IH2]].
  - split; [apply (ItemsF_level text Hascii decls es Henv Hdecls Hadjs Hcont 0)|apply (TLf text Hascii decls es Henv Hdecls Hadjs Hcont 0)];
      intros k' E0; discriminate.
  - split; [apply (ItemsF_level text Hascii decls es Henv Hdecls Hadjs Hcont (S k))|apply (TLf text Hascii decls es Henv Hdecls Hadjs Hcont (S k))];
      intros k' E0; injection E0 as <-; assumption.
Qed.

Print Assumptions Fail_all.
