(* Proofs/CstRangeTItems.v -- C13 / C18 on the fragment of Spec/CstText.v, part 3: the induction of
   CstTextItems.v once more, with a post-condition that also observes where things are and what
   is stored: the exact storage of the new Text nodes and slices of the other new nodes, the exact
   new attributes, and the ranges of the new nodes.  (The scripts are those of CstTextItems.v,
   extended; CstTextItems.v itself is not modified.) *)
From Coq Require Import Ascii String.
From Coq Require Import List NArith PeanoNat Bool Lia ZifyBool ZifyN ZifyNat.
Import ListNotations.
From RX Require Import Generated.
From RX.Model Require Import Base CharClass Stream Tokenizer Doc Builder Parse.
From RX.Spec Require Cst CstText.
From RX.Spec Require Import Text.
From RX.Proofs Require Import Tactics CstLex CstBuild CstTree CstItems TextMerge CstTextSem CstTextLex CstTextBuild CstTextItems.
From RX.Proofs Require Import CstRangeDefs CstRangeBuild CstRangeItems CstRangeTDefs CstRangeTBuild.
Open Scope N_scope.

(* ---- what is observed ---- *)
Definition tkshape (k : node_kind) (sh : tshape) : Prop :=
  match k, sh with
  | KElement ns l _ _, TSElem sp => ns = None /\ CstRangeTBuild.pr l = sp
  | KText st, TSText d => stored st d
  | KComment s, TSComment sp => CstRangeTBuild.pr s = sp
  | KPI t v, TSPI tsp vsp =>
    CstRangeTBuild.pr t = tsp /\ match v, vsp with
                                  | Some s, Some sp => CstRangeTBuild.pr s = sp
                                  | None, None => True
                                  | _, _ => False
                                  end
  | _, _ => False
  end.

Definition titem_ads (x : N * T.item) : list attr_data :=
  match snd x with
  | T.IElem name attrs _ _ => map ad_of (tas' (fst x + 1 + blen name) attrs)
  | _ => []
  end.

Fixpoint titems_list (q : N) (l : list T.item) : list (N * T.item) :=
  match l with [] => [] | c :: r => titems_at q c ++ titems_list (q + nlen (T.r_item c)) r end.

Lemma titems_at_elem p name attrs ws body :
  titems_at p (T.IElem name attrs ws body) =
  (p, T.IElem name attrs ws body) ::
  match body with None => [] | Some (cs, _) => titems_list (p + tstart_tag_len name attrs ws) cs end.
Proof. destruct body as [[cs w2]|]; reflexivity. Qed.

Definition ExtraT (L : list (N * T.item)) (c c' : context) (K : list row) (ext : list attr_data) : Prop :=
  Forall2 tkshape (map snd K) (map tshape_of L) /\ ext = flat_map titem_ads L /\
  rng c' = rng c ++ map tspan_of L.

Lemma ExtraT_app L1 L2 c1 c2 c3 K1 K2 e1 e2 :
  ExtraT L1 c1 c2 K1 e1 -> ExtraT L2 c2 c3 K2 e2 -> ExtraT (L1 ++ L2) c1 c3 (K1 ++ K2) (e1 ++ e2).
Proof.
  intros (A1 & A2 & A3) (B1 & B2 & B3). split; [|split].
  - rewrite !map_app. apply Forall2_app; assumption.
  - rewrite flat_map_app. congruence.
  - rewrite B3, A3, map_app, app_assoc. reflexivity.
Qed.

(* comments and processing instructions are those of Spec/Cst.v *)
Lemma Extra_comment p bs c c' K : Extra [(p, Cst.IComment bs)] c c' K [] -> ExtraT [(p, T.IComment bs)] c c' K [].
Proof.
  intros (A1 & A2 & A3). split; [|split; [reflexivity|exact A3]].
  cbn [map] in *. inversion A1 as [|k sh ? ? Hk Hr]; subst. inversion Hr; subst. constructor; [|constructor].
  destruct k as [| | | |[[?|?]|?]]; cbn in Hk; try contradiction. exact Hk.
Qed.
Lemma Extra_pi p t s v c c' K : Extra [(p, Cst.IPI t s v)] c c' K [] -> ExtraT [(p, T.IPI t s v)] c c' K [].
Proof.
  intros (A1 & A2 & A3). split; [|split; [reflexivity|exact A3]].
  cbn [map] in *. inversion A1 as [|k sh ? ? Hk Hr]; subst. inversion Hr; subst. constructor; [|constructor].
  destruct k as [| | | |[[?|?]|?]]; cbn in Hk; try contradiction. exact Hk.
Qed.

Lemma tspan_elem_empty p name attrs ws :
  tspan_of (p, T.IElem name attrs ws None) =
  (p, p + 1 + blen name + blen (flat_map T.r_attr attrs) + blen ws + 2).
Proof.
  unfold tspan_of. cbn [fst snd]. rewrite tr_item_elem. unfold nlen, blen. rewrite !app_length. cbn [length].
  f_equal. lia.
Qed.

Lemma tspan_elem_open p name attrs ws cs ws2 :
  tspan_of (p, T.IElem name attrs ws (Some (cs, ws2))) =
  (p, p + 1 + blen name + blen (flat_map T.r_attr attrs) + blen ws + 1 + blen (tr_items cs) + 2 + blen name + blen ws2 + 1).
Proof.
  unfold tspan_of. cbn [fst snd]. rewrite tr_item_elem. unfold nlen, blen. rewrite !app_length. cbn [length].
  f_equal. lia.
Qed.

Section TItemsR.
Variable text : bytes.
Hypothesis Hascii : Forall (fun x => x < 128) text.

Notation ev := (tok_ev text).
Notation loop := (parse_content_loop text context (tok_ev text)).
Notation st := (CstLex.st text).
Notation W := (CstLex.W text).
Notation Post := (CstItems.Post text).

Definition PIr' (i : T.item) : Prop :=
  forall p post c depth fuel,
    T.wf_item i = true -> W p (T.r_item i ++ post) ->
    (T.is_text i = true -> text_follow post) ->
    CI c -> LD c -> (T.is_text i = true -> c_after_text c = []) ->
    node_room c (nsize (erase i)) -> attr_room c (nattrs (erase i)) ->
    exists c' K ext,
      loop (tsteps i + fuel) depth (st p (T.r_item i ++ post)) c =
      loop fuel depth (st (p + blen (T.r_item i)) post) c' /\
      Post (erase i) c c' K ext /\ ExtraT (titems_at p i) c c' K ext.

Lemma PI_text_r' ps : PIr' (T.IText ps).
Proof.
  intros p post c depth fuel Hwf HW Hfol I Hld Hat NR _.
  specialize (Hfol eq_refl). specialize (Hat eq_refl). cbn [T.wf_item T.r_item tsteps erase] in *.
  pose proof Hwf as Hwf0. pose proof HW as HW00.
  unfold T.wf_text in Hwf. rewrite !andb_true_iff in Hwf. destruct Hwf as [[Hne H1] H2].
  destruct (segs_wf ps H1 H2) as (HF & A & _).
  assert (Hne' : segs ps <> []) by (apply segs_ne; destruct ps; [discriminate|discriminate]).
  rewrite <- (segs_render ps) in HW |- *.
  destruct (segs ps) as [|s0 L] eqn:Es; [congruence|]. clear Hne'.
  inversion HF as [|? ? Hs0 HL]; subst. cbn [flat_map] in HW |- *. rewrite <- app_assoc in HW |- *.
  cbn [length Nat.add].
  rewrite (seg_step text Hascii); [|exact HW|exact Hs0|exact Hld|intros Hss; eapply alt_stop; eassumption].
  assert (R : room c) by (apply (node_room_room _ _ NR); unfold nsize; cbn; lia).
  destruct (first_frag (frag p s0) (seg_range p s0) c I R Hat) as (nodes' & E1 & M & Ln).
  pose proof (first_frag_rng _ _ _ _ Hat E1) as Rg1. unfold rng in Rg1 at 1.
  cbn [set_after_text run_ctx set_awaiting set_doc set_nodes c_doc d_nodes] in Rg1.
  rewrite E1. cbn [bind].
  rewrite (run_loop text Hascii (run_ctx c nodes') post Hld Hfol L s0); [|discriminate|exact HL|exact A|apply (W_app _ _ _ _ HW)].
  cbn [app].
  destruct (run_reset_r text c nodes' (frag p s0) (frags (p + blen (r_seg s0)) L) I M)
    as (c2 & stg & Er & S & I2 & A2 & Tn & Hst & Hkind & Rg2).
  pose proof (W_app _ _ _ _ (W_app _ _ _ _ HW)) as HWend.
  rewrite (loop_reset_eq text _ c2 _ post Er A2 Hfol HWend).
  exists c2, [(Some (c_parent_id c), KText stg)], []. split; [|split].
  - rewrite blen_app, N.add_assoc. reflexivity.
  - split; [exact S|]. split; [exact I2|]. split; [intros _; exact A2|]. split; [apply same_tn; exact Tn|].
    split; [discriminate|]. split; [|reflexivity].
    cbn [tag]. constructor; [|constructor]. split; [reflexivity|]. cbn [snd].
    rewrite Hst. change (frag p s0 :: frags (p + blen (r_seg s0)) L) with (frags p (s0 :: L)).
    rewrite (frags_bytes text (s0 :: L) p post); [|cbn [flat_map]; rewrite <- app_assoc; exact HW|exact HF].
    rewrite <- Es. symmetry. apply text_sem_segs; assumption.
  - split; [|split].
    + cbn [map snd tshape_of fst titems_at]. constructor; [|constructor]. cbn [tkshape].
      apply (run_store text p ps post stg Hwf0 HW00). rewrite Es.
      destruct L as [|s1 L']; [exact Hkind|]. cbn [frags] in Hkind |- *. exact Hkind.
    + reflexivity.
    + rewrite Rg2, Rg1. cbn [titems_at map]. unfold tspan_of. cbn [fst snd].
      rewrite (run_head_seg ps s0 L Es). reflexivity.
Qed.

Lemma PI_comment_r' bs : PIr' (T.IComment bs).
Proof.
  intros p post c depth fuel Hwf HW _ I _ _ NR AR.
  destruct (PI_comment_r text Hascii bs p post c depth fuel Hwf HW (fun H => ltac:(discriminate H)) I
              (fun H => ltac:(discriminate H)) NR AR) as (c' & K & ext & E & HP & HX).
  exists c', K, ext. split; [exact E|]. split; [exact HP|].
  assert (ext = []) by (destruct HX as (_ & -> & _); reflexivity). subst ext.
  apply Extra_comment. exact HX.
Qed.

Lemma PI_pi_r' t s v : PIr' (T.IPI t s v).
Proof.
  intros p post c depth fuel Hwf HW _ I _ _ NR AR.
  destruct (PI_pi_r text Hascii t s v p post c depth fuel Hwf HW (fun H => ltac:(discriminate H)) I
              (fun H => ltac:(discriminate H)) NR AR) as (c' & K & ext & E & HP & HX).
  exists c', K, ext. split; [exact E|]. split; [exact HP|].
  assert (ext = []) by (destruct HX as (_ & -> & _); reflexivity). subst ext.
  apply Extra_pi. exact HX.
Qed.

(* ---- elements ---- *)
Lemma PI_empty_r' name attrs ws : PIr' (T.IElem name attrs ws None).
Proof.
  intros p post c depth fuel Hwf HW _ I Hld _ NR AR.
  destruct (twf_elem_parts _ _ _ _ Hwf) as (Hn & Ha & Hx & Hd & Hw & _). clear Hwf.
  rewrite tr_item_elem in *. rewrite <- !app_assoc in HW |- *.
  change ([47; 62] ++ post) with (tag_tail true ++ post) in *.
  cbn [tsteps Nat.add]. rewrite (loop_elem' text) by assumption.
  rewrite (lex_element' text Hascii) by assumption. cbv zeta.
  rewrite nattrs_erase_elem, Nat.add_0_r in AR.
  destruct (start_tag_ok' text Hascii p name attrs ws true post c HW (wf_name_ne _ Hn) Ha Hx Hd I Hld)
    as (c' & ar & E & S & Hkm & I' & A & Tt & P1 & P2);
    [apply (node_room_room _ _ NR (nsize_pos _))|unfold attr_room, len_N in *; lia|].
  cbv zeta in E. pose proof E as E00. unfold tok_ev in E00. apply bind_ok in E. destruct E as (c1 & E1 & E2).
  rewrite E1. cbn [bind]. rewrite E2. cbn [bind negb].
  exists c', [(Some (c_parent_id c), KElement None (sl (p + 1) (p + 1 + blen name)) ar (1, 1))],
    (map ad_of (tas' (p + 1 + blen name) attrs)).
  split; [|split].
  - f_equal. f_equal. rewrite !blen_app. change (blen [60]) with 1. change (blen (tag_tail true)) with 2.
    change (blen [47; 62]) with 2. lia.
  - rewrite erase_elem.
    split; [split; [exact S|split; assumption]|]. split; [exact I'|]. split; [intros _; exact A|].
    split; [intros _; exact Tt|]. split; [intros _; exact Tt|]. split.
    + cbn [tag]. fold (CstTree.eattrs (map erase_attr attrs)). rewrite eattrs_erase.
      constructor; [|constructor]. apply Hkm.
    + rewrite map_length, nattrs_elem, map_length, Nat.add_0_r. pose proof (tas_len' attrs (p + 1 + blen name)) as L.
      unfold len_N in L. lia.
  - rewrite titems_at_elem. split; [|split].
    + cbn. constructor; [split; reflexivity|constructor].
    + cbn [flat_map titem_ads snd fst]. rewrite app_nil_r. reflexivity.
    + rewrite (start_tag_rng' text _ _ _ _ _ _ _ E00). cbn [map]. rewrite tspan_elem_empty. reflexivity.
Qed.

(* ---- lists of children ---- *)
Definition PLr' (cs : list T.item) : Prop :=
  forall p post c depth fuel,
    twf_items cs = true -> T.no_adjacent_text cs = true -> W p (tr_items cs ++ post) -> text_follow post ->
    CI c -> LD c -> head_text_ok' cs c -> node_room c (nsizes (map erase cs)) ->
    attr_room c (nattrs_items (map erase cs)) ->
    exists c' K ext,
      loop (tsteps_list cs + fuel) depth (st p (tr_items cs ++ post)) c =
      loop fuel depth (st (p + blen (tr_items cs)) post) c' /\
      Step c c' K ext /\ CI c' /\ (tn_set c -> tn_set c') /\
      Forall2 (km text (d_attrs (c_doc c'))) K (tag_list (c_parent_id c) (len_N (d_nodes (c_doc c))) (map erase cs)) /\
      length ext = nattrs_items (map erase cs) /\ ExtraT (titems_list p cs) c c' K ext.

Lemma PL_of_r' cs : Forall PIr' cs -> PLr' cs.
Proof.
  induction 1 as [|i r Hi _ IH]; intros p post c depth fuel Hwf Hna HW Hfol I Hld Hhd NR AR.
  - exists c, [], []. cbn [tsteps_list tr_items app Nat.add blen length] in *.
    change (N.of_nat 0) with 0. rewrite N.add_0_r.
    split; [reflexivity|]. split; [apply Step_refl|]. split; [exact I|]. split; [auto|].
    split; [constructor|]. split; [reflexivity|].
    split; [constructor|]. split; [reflexivity|]. cbn [titems_list map]. rewrite app_nil_r. reflexivity.
  - cbn [twf_items] in Hwf. apply andb_true_iff in Hwf. destruct Hwf as [Hw1 Hw2].
    cbn [tr_items] in HW |- *. rewrite <- app_assoc in HW |- *.
    cbn [map] in NR, AR. rewrite nsizes_cons in NR. cbn [nattrs_items] in AR.
    assert (Hna2 : T.no_adjacent_text r = true).
    { destruct r as [|d r']; [reflexivity|]. cbn [T.no_adjacent_text] in Hna.
      apply andb_true_iff in Hna. apply Hna. }
    assert (Hnext : forall d r', r = d :: r' -> T.is_text i = true -> T.is_text d = false).
    { intros d r' -> Hi1. cbn [T.no_adjacent_text] in Hna. apply andb_true_iff in Hna.
      destruct Hna as [Hna _]. rewrite Hi1 in Hna. cbn [andb] in Hna. apply negb_true_iff in Hna. exact Hna. }
    assert (Hfollow : T.is_text i = true -> text_follow (tr_items r ++ post)).
    { intros Hi1. destruct r as [|d r']; [exact Hfol|].
      cbn [tr_items]. rewrite <- app_assoc. apply nontext_follow; [apply (Hnext d r' eq_refl Hi1)|].
      cbn [twf_items] in Hw2. apply andb_true_iff in Hw2. apply Hw2. }
    destruct (Hi p (tr_items r ++ post) c depth (tsteps_list r + fuel)%nat Hw1 HW Hfollow I Hld Hhd)
      as (c1 & K1 & e1 & E1 & (S1 & I1 & A1 & T1 & _ & F1 & L1) & X1).
    { unfold node_room in *. lia. }
    { unfold attr_room in *. lia. }
    pose proof (Step_nodes_len _ _ _ _ S1) as Ln1.
    rewrite (Forall2_len_N _ _ _ F1) in Ln1. unfold len_N at 3 in Ln1. rewrite tag_len in Ln1.
    pose proof (Step_attrs_len _ _ _ _ (proj1 S1)) as La1. unfold len_N at 3 in La1. rewrite L1 in La1.
    pose proof (Step_opt _ _ _ _ (proj1 S1)) as Lo1.
    destruct (IH (p + blen (T.r_item i)) post c1 depth fuel Hw2 Hna2 (W_app _ _ _ _ HW) Hfol I1 (Step_LD _ _ _ _ S1 Hld))
      as (c2 & K2 & e2 & E2 & S2 & I2 & T2 & F2 & L2 & X2).
    { destruct r as [|d r']; [exact Logic.I|]. cbn [head_text_ok']. intros Hd. apply A1.
      rewrite is_text_erase. destruct (T.is_text i) eqn:Ei; [|reflexivity].
      rewrite (Hnext d r' eq_refl eq_refl) in Hd. discriminate. }
    { unfold node_room in *. rewrite Ln1, Lo1. lia. }
    { unfold attr_room in *. rewrite La1. lia. }
    exists c2, (K1 ++ K2), (e1 ++ e2). split.
    { cbn [tsteps_list]. rewrite <- Nat.add_assoc, E1, E2. f_equal. f_equal. rewrite blen_app. lia. }
    split; [eapply Step_trans; eassumption|]. split; [exact I2|]. split; [auto|]. split.
    + cbn [map tag_list]. apply Forall2_app.
      * rewrite (s_attrs _ _ _ _ (proj1 S2)). apply km_Forall2_ext. exact F1.
      * destruct S1 as (_ & P1 & _). rewrite P1, Ln1 in F2. exact F2.
    + split; [cbn [map nattrs_items]; rewrite app_length, L1, L2; reflexivity|].
      cbn [titems_list]. eapply ExtraT_app; eassumption.
Qed.

Ltac clia := repeat match goal with H : @eq bool _ true |- _ => clear H end; lia.

Lemma open_body_r name attrs ws cs ws2 p post c c1 ar :
  PLr' cs ->
  Cst.wf_name name = true -> Cst.wf_ws ws2 = true -> T.no_adjacent_text cs = true -> twf_items cs = true ->
  W p ([60] ++ name ++ flat_map T.r_attr attrs ++ ws ++ tag_tail false ++ tr_items cs ++ [60; 47] ++ name ++ ws2 ++ [62] ++ post) ->
  CI c -> LD c ->
  node_room c (1 + nsizes (map erase cs)) -> attr_room c (length attrs + nattrs_items (map erase cs)) ->
  Step0 c c1 [(Some (c_parent_id c), KElement None (sl (p + 1) (p + 1 + blen name)) ar (1, 1))]
        (map ad_of (tas' (p + 1 + blen name) attrs)) ->
  (forall m, km text (d_attrs (c_doc c1)) (Some (c_parent_id c), KElement None (sl (p + 1) (p + 1 + blen name)) ar (1, 1))
     (c_parent_id c, Cst.VElem name (T.eattrs attrs) m)) ->
  CI c1 -> c_after_text c1 = [] -> tn_set c1 ->
  c_parent_id c1 = len_N (d_nodes (c_doc c)) -> c_parent_prefixes c1 = c_parent_prefixes c ++ [sl (p + 1) (p + 1)] ->
  let q := p + 1 + blen name + blen (flat_map T.r_attr attrs) + blen ws + blen (tag_tail false) in
  let e := q + blen (tr_items cs) in
  rng c1 = rng c ++ [(p, q)] ->
  forall d fuel,
  exists c3 K ext,
    loop (tsteps_list cs + S fuel) d (st q (tr_items cs ++ [60; 47] ++ name ++ ws2 ++ [62] ++ post)) c1 =
    (let! c' := Ok c3 in
     if d =? 0 then Ok (st (e + 2 + blen name + blen ws2 + 1) post, c')
     else loop fuel (d - 1) (st (e + 2 + blen name + blen ws2 + 1) post) c') /\
    Post (erase (T.IElem name attrs ws (Some (cs, ws2)))) c c3 K ext /\
    ExtraT (titems_at p (T.IElem name attrs ws (Some (cs, ws2)))) c c3 K ext.
Proof.
  intros HPL Hn Hw2 Hna Hcs HW I Hld NR AR S1 Hkm I1 A1 T1 P1 P2 q e X1c d fuel.
  set (post2 := [60; 47] ++ name ++ ws2 ++ [62] ++ post) in *.
  pose proof (W_app _ _ _ _ HW) as HW1. change (blen [60]) with 1 in HW1.
  pose proof (W_app _ _ _ _ HW1) as HW2. pose proof (W_app _ _ _ _ HW2) as HW3.
  pose proof (W_app _ _ _ _ HW3) as HW4. pose proof (W_app _ _ _ _ HW4) as HW5. fold q in HW5.
  pose proof (Step0_len _ _ _ _ S1) as Ln1. change (len_N [_]) with 1 in Ln1.
  pose proof (Step_attrs_len _ _ _ _ S1) as La1. rewrite len_N_map, tas_len' in La1.
  pose proof (Step_opt _ _ _ _ S1) as Lo1.
  destruct (HPL q post2 c1 d (S fuel) Hcs Hna HW5 (close_follow name ws2 post) I1 (Step0_LD _ _ _ _ S1 Hld))
    as (c2 & K2 & e2 & E2 & S2 & I2 & T2 & F2 & L2 & X2).
  { destruct cs; [exact Logic.I|]. intros _. exact A1. }
  { unfold node_room in *. rewrite Ln1, Lo1. clia. }
  { unfold attr_room, len_N in *. rewrite La1. clia. }
  rewrite E2. clear E2.
  pose proof (W_app _ _ _ _ HW5) as HW6. fold e in HW6 |- *.
  unfold post2 in HW6 |- *. rewrite (loop_close text) by exact HW6.
  rewrite (lex_close text Hascii) by assumption. cbv zeta.
  destruct S2 as (S2 & Pid2 & Pp2).
  pose proof (W_app _ _ _ _ HW6) as HW7. change (blen [60; 47]) with 2 in HW7.
  destruct (close_tag_ok text (sl (e + 2) (e + 2)) (sl (e + 2) (e + 2 + blen name))
              (e, e + 2 + blen name + blen ws2 + 1) c2 (c_parent_id c) None
              (sl (p + 1) (p + 1 + blen name)) ar (1, 1) name (c_parent_prefixes c) (sl (p + 1) (p + 1)) I2)
    as (c3 & E3 & S3 & I3 & Pid3 & Pp3 & A3 & Tn3).
  { rewrite Pid2, P1, (s_nodes _ _ _ _ S2), (s_nodes _ _ _ _ S1).
    replace (N.to_nat (len_N (d_nodes (c_doc c)))) with (length (absn (c_doc c)))
      by (unfold absn, len_N; rewrite map_length; clia).
    rewrite <- app_assoc, nth_error_app2 by clia. rewrite Nat.sub_diag. reflexivity. }
  { apply (W_slice _ _ _ _ HW1). }
  { apply (W_slice _ _ _ _ HW7). }
  { apply slice_empty. }
  { rewrite Pp2, P2. reflexivity. }
  { apply (ci_pp _ I). }
  { apply slice_empty. }
  { apply T2. exact T1. }
  { rewrite (Step0_len _ _ _ _ S2), Ln1. pose proof (ci_pid _ I). clia. }
  { destruct (ci_par _ I) as (par & k0 & Ep & Hk). exists par, k0. split; [|exact Hk].
    rewrite (s_nodes _ _ _ _ S2), (s_nodes _ _ _ _ S1), <- app_assoc.
    rewrite nth_error_app1; [exact Ep|].
    pose proof (ci_pid _ I) as Hp. rewrite <- absn_len in Hp. unfold len_N in Hp. clia. }
  pose proof E3 as E3'. unfold tok_ev in E3'.
  rewrite E3. cbn [bind].
  exists c3, ((Some (c_parent_id c), KElement None (sl (p + 1) (p + 1 + blen name)) ar (1, 1)) :: K2),
    (map ad_of (tas' (p + 1 + blen name) attrs) ++ e2).
  split; [reflexivity|].
  pose proof (Step0_trans _ _ _ _ _ _ _ (Step0_trans _ _ _ _ _ _ _ S1 S2) S3) as S13.
  rewrite !app_nil_r in S13. cbn [app] in S13.
  split.
  { rewrite erase_elem.
    split; [split; [exact S13|split; [exact Pid3|exact Pp3]]|]. split; [exact I3|].
    split; [intros _; exact A3|].
    assert (T3 : tn_set c3) by (apply (same_tn _ _ Tn3); apply T2; exact T1).
    split; [intros _; exact T3|]. split; [intros _; exact T3|]. split.
    - rewrite tag_elem. fold (CstTree.eattrs (map erase_attr attrs)). rewrite eattrs_erase, map_length.
      rewrite (s_attrs _ _ _ _ S3), app_nil_r. constructor.
      + rewrite (s_attrs _ _ _ _ S2). apply km_ext. apply Hkm.
      + rewrite P1, Ln1 in F2. exact F2.
    - rewrite app_length, map_length, L2, nattrs_elem, map_length. pose proof (tas_len' attrs (p + 1 + blen name)) as L.
      unfold len_N in L. clia. }
  (* where things are *)
  destruct X2 as (X2a & X2b & X2c).
  rewrite titems_at_elem.
  replace (p + tstart_tag_len name attrs ws) with q
    by (unfold q, tstart_tag_len, nlen, blen; change (length (tag_tail false)) with 1%nat; clear; lia).
  split; [|split].
  - cbn [map snd tshape_of fst]. constructor; [split; reflexivity|exact X2a].
  - cbn [flat_map titem_ads snd fst]. rewrite X2b. reflexivity.
  - cbn [map]. rewrite tspan_elem_open.
    assert (Er2 : rng c2 = rng c ++ (p, q) :: map tspan_of (titems_list q cs)).
    { rewrite X2c, X1c, <- app_assoc. reflexivity. }
    rewrite (close_rng text _ _ _ _ _ _ _ _ E3' Er2).
    + cbn [fst snd].
      assert (Eq : e + 2 + blen name + blen ws2 + 1 =
                   p + 1 + blen name + blen (flat_map T.r_attr attrs) + blen ws + 1 +
                   blen (tr_items cs) + 2 + blen name + blen ws2 + 1)
        by (unfold e, q; change (blen (tag_tail false)) with 1; clear; lia).
      rewrite Eq. reflexivity.
    + rewrite Pid2, P1. unfold rng, len_N. rewrite map_length. clear. lia.
Qed.

Lemma PI_open_r' name attrs ws cs ws2 : PLr' cs -> PIr' (T.IElem name attrs ws (Some (cs, ws2))).
Proof.
  intros HPL p post c depth fuel Hwf HW _ I Hld _ NR AR.
  destruct (twf_elem_parts _ _ _ _ Hwf) as (Hn & Ha & Hx & Hd & Hw & Hw2 & Hna & Hcs). clear Hwf.
  rewrite tr_item_elem in *. rewrite <- !app_assoc in HW |- *.
  change ([62] ++ tr_items cs ++ [60; 47] ++ name ++ ws2 ++ [62] ++ post)
    with (tag_tail false ++ (tr_items cs ++ [60; 47] ++ name ++ ws2 ++ [62] ++ post)) in *.
  rewrite erase_elem, nsize_elem in NR. rewrite nattrs_erase_elem in AR.
  rewrite tsteps_elem. cbn [Nat.add]. rewrite (loop_elem' text) by assumption.
  rewrite (lex_element' text Hascii) by assumption. cbv zeta.
  destruct (start_tag_ok' text Hascii p name attrs ws false _ c HW (wf_name_ne _ Hn) Ha Hx Hd I Hld)
    as (c1 & ar & E & S1 & Hkm & I1 & A1 & T1 & P1 & P2 & P3);
    [unfold node_room, room in *; clia|unfold attr_room, len_N in *; clia|].
  cbv zeta in E. pose proof E as E00. unfold tok_ev in E00. apply bind_ok in E. destruct E as (c0 & E0 & E1).
  rewrite E0. cbn [bind]. rewrite E1. cbn [bind negb]. clear E0 E1 c0.
  replace (tsteps_list cs + 1 + fuel)%nat with (tsteps_list cs + S fuel)%nat by clia.
  pose proof (start_tag_rng' text _ _ _ _ _ _ _ E00) as X1c.
  destruct (open_body_r name attrs ws cs ws2 p post c c1 ar HPL Hn Hw2 Hna Hcs HW I Hld NR AR
              S1 Hkm I1 A1 T1 P1 P2 X1c (depth + 1) fuel) as (c3 & K & ext & E & HP & HX).
  rewrite E. cbn [bind]. replace (depth + 1 =? 0) with false by clia.
  replace (depth + 1 - 1) with depth by clia.
  exists c3, K, ext. split; [|split; [exact HP|exact HX]].
  f_equal. f_equal. rewrite !blen_app. change (blen [60]) with 1. change (blen [60; 47]) with 2.
  change (blen [62]) with 1. change (blen (tag_tail false)) with 1. clear. clia.
Qed.

Theorem PI_all_r' : forall i, PIr' i.
Proof.
  intros i. induction i as [n a w|n a w cs w2 IH|ps|bs|t s v] using titem_ind.
  - apply PI_empty_r'.
  - apply PI_open_r'. apply PL_of_r'. exact IH.
  - apply PI_text_r'.
  - apply PI_comment_r'.
  - apply PI_pi_r'.
Qed.

Theorem PL_all_r' : forall cs, PLr' cs.
Proof. intros cs. apply PL_of_r'. apply Forall_forall. intros i _. apply PI_all_r'. Qed.

Lemma root_ok_r' name attrs ws body p post c :
  T.wf_item (T.IElem name attrs ws body) = true ->
  W p (T.r_item (T.IElem name attrs ws body) ++ post) ->
  CI c -> LD c -> node_room c (nsize (erase (T.IElem name attrs ws body))) ->
  attr_room c (nattrs (erase (T.IElem name attrs ws body))) ->
  exists c' K ext,
    (let! (open, s, c) := parse_element text context ev
                            (st p (T.r_item (T.IElem name attrs ws body) ++ post)) c in
     if open then parse_content text context ev s c else Ok (s, c)) =
    Ok (st (p + blen (T.r_item (T.IElem name attrs ws body))) post, c') /\
    Post (erase (T.IElem name attrs ws body)) c c' K ext /\
    ExtraT (titems_at p (T.IElem name attrs ws body)) c c' K ext.
Proof.
  intros Hwf HW I Hld NR AR. destruct body as [[cs ws2]|].
  - (* open *)
    destruct (twf_elem_parts _ _ _ _ Hwf) as (Hn & Ha & Hx & Hd & Hw & Hw2 & Hna & Hcs). clear Hwf.
    rewrite tr_item_elem in *. rewrite <- !app_assoc in HW |- *.
    change ([62] ++ tr_items cs ++ [60; 47] ++ name ++ ws2 ++ [62] ++ post)
      with (tag_tail false ++ (tr_items cs ++ [60; 47] ++ name ++ ws2 ++ [62] ++ post)) in *.
    rewrite erase_elem, nsize_elem in NR. rewrite nattrs_erase_elem in AR.
    rewrite (lex_element' text Hascii) by assumption. cbv zeta.
    destruct (start_tag_ok' text Hascii p name attrs ws false _ c HW (wf_name_ne _ Hn) Ha Hx Hd I Hld)
      as (c1 & ar & E & S1 & Hkm & I1 & A1 & T1 & P1 & P2 & P3);
      [unfold node_room, room in *; clia|unfold attr_room, len_N in *; clia|].
    cbv zeta in E. pose proof E as E00. unfold tok_ev in E00. apply bind_ok in E. destruct E as (c0 & E0 & E1).
    rewrite E0. cbn [bind]. rewrite E1. cbn [bind negb]. clear E0 E1 c0.
    unfold parse_content. cbn [CstLex.st s_rest].
    set (post2 := [60; 47] ++ name ++ ws2 ++ [62] ++ post) in *.
    pose proof (tsteps_list_le cs Hcs) as Hst.
    replace (S (length (tr_items cs ++ post2)))
      with (tsteps_list cs + S (length (tr_items cs ++ post2) - tsteps_list cs))%nat
      by (rewrite app_length; clia).
    pose proof (start_tag_rng' text _ _ _ _ _ _ _ E00) as X1c.
    destruct (open_body_r name attrs ws cs ws2 p post c c1 ar (PL_all_r' cs) Hn Hw2 Hna Hcs HW I Hld NR AR
                S1 Hkm I1 A1 T1 P1 P2 X1c 0 (length (tr_items cs ++ post2) - tsteps_list cs)%nat)
      as (c3 & K & ext & E & HP & HX).
    unfold post2 in E |- *. rewrite E. cbn [bind]. change (0 =? 0) with true. cbv iota.
    exists c3, K, ext. split; [|split; [exact HP|exact HX]].
    f_equal. f_equal. f_equal. rewrite !blen_app. change (blen [60]) with 1. change (blen [60; 47]) with 2.
    change (blen [62]) with 1. change (blen (tag_tail false)) with 1. clear. clia.
  - (* empty *)
    destruct (twf_elem_parts _ _ _ _ Hwf) as (Hn & Ha & Hx & Hd & Hw & _). clear Hwf.
    rewrite tr_item_elem in *. rewrite <- !app_assoc in HW |- *.
    change ([47; 62] ++ post) with (tag_tail true ++ post) in *.
    rewrite (lex_element' text Hascii) by assumption. cbv zeta.
    rewrite nattrs_erase_elem, Nat.add_0_r in AR.
    destruct (start_tag_ok' text Hascii p name attrs ws true post c HW (wf_name_ne _ Hn) Ha Hx Hd I Hld)
      as (c' & ar & E & S & Hkm & I' & A & Tt & P1 & P2);
      [apply (node_room_room _ _ NR (nsize_pos _))|unfold attr_room, len_N in *; clia|].
    cbv zeta in E. pose proof E as E00. unfold tok_ev in E00. apply bind_ok in E. destruct E as (c1 & E1 & E2).
    rewrite E1. cbn [bind]. rewrite E2. cbn [bind negb].
    exists c', [(Some (c_parent_id c), KElement None (sl (p + 1) (p + 1 + blen name)) ar (1, 1))],
      (map ad_of (tas' (p + 1 + blen name) attrs)).
    split; [|split].
    + f_equal. f_equal. f_equal. rewrite !blen_app. change (blen [60]) with 1. change (blen (tag_tail true)) with 2.
      change (blen [47; 62]) with 2. clia.
    + rewrite erase_elem.
      split; [split; [exact S|split; assumption]|]. split; [exact I'|]. split; [intros _; exact A|].
      split; [intros _; exact Tt|]. split; [intros _; exact Tt|]. split.
      * cbn [tag]. fold (CstTree.eattrs (map erase_attr attrs)). rewrite eattrs_erase.
        constructor; [|constructor]. apply Hkm.
      * rewrite map_length, nattrs_elem, map_length, Nat.add_0_r. pose proof (tas_len' attrs (p + 1 + blen name)) as L.
        unfold len_N in L. clia.
    + rewrite titems_at_elem. split; [|split].
      * cbn. constructor; [split; reflexivity|constructor].
      * cbn [flat_map titem_ads snd fst]. rewrite app_nil_r. reflexivity.
      * rewrite (start_tag_rng' text _ _ _ _ _ _ _ E00). cbn [map]. rewrite tspan_elem_empty. reflexivity.
Qed.

End TItemsR.

Print Assumptions PI_all_r'.
Print Assumptions root_ok_r'.
