(* Proofs/CstEntCAttr.v -- C07 with content entities: [norm_attr_lvl] on an attribute value with references
   (Proofs/CstEntAttr.v, lemma AL) at ANY depth of the loop detector: an attribute of an element
   inside an entity value is normalised with all 12 levels of fuel whatever the depth is. *)
From Coq Require Import Ascii String.
From Coq Require Import List NArith PeanoNat Bool Lia ZifyBool ZifyN ZifyNat.
Import ListNotations.
From RX Require Import Generated.
From RX.Model Require Import Base CharClass Stream Tokenizer Doc Builder Parse.
From RX.Spec Require Cst CstText CstEnt Detector.
From RX.Spec Require Import Text.
From RX.Proofs Require Import Tactics CstLex CstBuild TextMachine TextMerge HoistProofs NoPanicUtf8 DetectorProofs.
From RX.Proofs Require Import CstTextSem CstTextLex CstTextBuild CstEntSem CstEntText CstEntAttr.
Open Scope N_scope.

Section Attr.
Variable text : bytes.
Hypothesis Hascii : Forall (fun x => x < 128) text.
Variable decls : list E.edecl.
Variable es : list entity.
Hypothesis Henv : Forall2 (ent_ok text) decls es.
Hypothesis Hdecls : Forall decl_ok decls.
Hypothesis Hadjs : Forall decl_adj decls.

Notation W := (CstLex.W text).

Lemma AL' : forall m ps t q tr t', AExp decls m ps t q tr t' ->
  forall e p more ld ld' lvl' fuel,
  Forall (ep_ok m) ps -> E.no_adjacent_elit ps = true ->
  W p (E.r_epieces ps ++ more) -> p + blen (E.r_epieces ps) = e -> e <= tlen text ->
  m = (0 <? ld_depth ld) -> ld_run ld tr = Some ld' -> 11 <= N.of_nat lvl' + ld_depth ld ->
  (length (E.r_epieces ps) < fuel)%nat ->
  attr_loop text lvl' es fuel (sst e p (E.r_epieces ps ++ more)) t ld = Ok (t', ld') /\
  ld_depth ld' = ld_depth ld.
Proof.
  intros m ps t q tr t' H.
  induction H as [m t|m pc0 rest t t1 q tr t' _ Hpush _ IH|m n rest d vps t qv trv t1 q tr t' Hfd Hval Hv IHv Hr IHr];
    intros e p more ld ld' lvl' fuel Hok Hadj HW He Hle Hm Hld Hlvl Hfu.
  - cbn [E.r_epieces flat_map app] in *. rewrite blen_nil, N.add_0_r in He.
    destruct fuel as [|fu]; [lia|]. cbn [attr_loop]. rewrite at_end_sst. replace (e <=? p) with true by lia.
    cbn [ld_run] in Hld. injection Hld as <-. auto.
  - apply Forall_cons_iff in Hok. destruct Hok as [Hp Hrest]. destruct Hp as [Hvp Hcv].
    pose proof (no_adj_etail _ _ Hadj) as Hadj'.
    cbn [E.r_epieces flat_map E.r_epiece] in *. fold (E.r_epieces rest) in *.
    rewrite <- app_assoc in HW |- *. rewrite blen_app in He. rewrite app_length in Hfu.
    pose proof (chunks_le_piece pc0 Hvp) as Hcl.
    assert (Hstep : attr_loop text lvl' es fuel (sst e p (T.r_piece pc0 ++ E.r_epieces rest ++ more)) t ld =
                    attr_loop text lvl' es (fuel - length (T.piece_chunks pc0))
                      (sst e (p + blen (T.r_piece pc0)) (E.r_epieces rest ++ more)) t1 ld).
    { destruct pc0 as [bs|hex ds|pe|bs]; cbn [T.wf_vpiece] in Hvp; try discriminate.
      - cbn [T.r_piece T.piece_chunks] in *. rewrite map_length in *.
        destruct (aloop_lit text es lvl' ld e bs p (E.r_epieces rest ++ more) t (fuel - length bs) (lit_not_amp _ _ Hvp) ltac:(lia))
          as (t1' & E1 & E2).
        { destruct (is_elit_next bs rest Hadj (or_intror I) m Hrest) as [->|[R' ER]].
          - left. cbn [E.r_epieces flat_map] in He. rewrite blen_nil in He. lia.
          - right. rewrite ER. eexists. reflexivity. }
        rewrite <- Hm in E1. rewrite Hpush in E1. injection E1 as <-.
        replace fuel with (length bs + (fuel - length bs))%nat at 1 by lia. exact E2.
      - cbn [T.piece_chunks push_attr_chunks] in Hpush.
        destruct (push_char_bytes_attr (T.utf8 (T.ref_val hex ds)) m t) as [t1'|] eqn:Ep; [|discriminate].
        cbn [push_attr_chunks] in Hpush. injection Hpush as <-.
        pose proof (cref_charref text Hascii e p hex ds (E.r_epieces rest ++ more) HW Hvp ltac:(lia) Hle) as Ec.
        assert (Hlt : p < e) by (cbn [T.r_piece app] in He; rewrite !blen_cons in He; lia).
        cbn [T.r_piece] in Ec, HW |- *. rewrite <- !app_assoc in *. cbn [app] in Ec |- *.
        cbn [T.piece_chunks length].
        replace fuel with (S (fuel - 1)) at 1 by (cbn [length] in Hcl; lia).
        rewrite (aloop_ref text es lvl' ld e p _ _ _ t t1' (fuel - 1) Hlt Ec); [reflexivity|].
        rewrite <- Hm. exact Ep.
      - cbn [T.piece_chunks push_attr_chunks] in Hpush.
        destruct (push_char_bytes_attr [T.predef_char pe] m t) as [t1'|] eqn:Ep; [|discriminate].
        cbn [push_attr_chunks] in Hpush. injection Hpush as <-.
        pose proof (cref_predef text Hascii e p pe (E.r_epieces rest ++ more) HW ltac:(lia) Hle) as Ec.
        assert (Hlt : p < e) by (cbn [T.r_piece app] in He; rewrite !blen_cons in He; lia).
        cbn [T.r_piece] in Ec, HW |- *. rewrite <- !app_assoc in *. cbn [app] in Ec |- *.
        cbn [T.piece_chunks length].
        replace fuel with (S (fuel - 1)) at 1 by (cbn [length] in Hcl; lia).
        rewrite (aloop_ref text es lvl' ld e p _ _ _ t t1' (fuel - 1) Hlt Ec); [reflexivity|].
        rewrite <- Hm. replace (encode_utf8 (T.predef_char pe)) with [T.predef_char pe] by (destruct pe; reflexivity).
        exact Ep. }
    rewrite Hstep. apply (IH e _ more ld ld' lvl'); try assumption; try lia.
    apply (W_app _ _ _ _ HW).
  - apply Forall_cons_iff in Hok. destruct Hok as [Hp Hrest]. destruct Hp as [Hn Hpre].
    pose proof (no_adj_etail _ _ Hadj) as Hadj'.
    cbn [E.r_epieces flat_map E.r_epiece] in *. fold (E.r_epieces rest) in *.
    rewrite <- !app_assoc in HW |- *. rewrite !blen_app in He. change (blen [38]) with 1 in He. change (blen [59]) with 1 in He.
    destruct (find_first text decls es Henv Hdecls n d Hfd) as (en & Efind & (Hen & vs & tail & Eval & HWv) & Hdok).
    unfold decl_ok in Hdok. rewrite Hval in Hdok. destruct Hdok as [Hvok _].
    rewrite Hval in Eval, HWv. cbn [E.r_value] in Eval, HWv.
    assert (Hvadj : E.no_adjacent_elit vps = true).
    { pose proof (first_decl_in decls _ _ Hfd) as Hin. rewrite Forall_forall in Hadjs. specialize (Hadjs _ Hin).
      unfold decl_adj in Hadjs. rewrite Hval in Hadjs. exact Hadjs. }
    destruct fuel as [|fu]; [lia|].
    cbn [ld_run] in Hld. destruct (ld_enter ld) as [ld1|] eqn:Eenter; [|discriminate].
    rewrite ld_run_app in Hld. destruct (ld_run ld1 trv) as [ld1'|] eqn:Erun1; [|discriminate]. cbn [ld_run] in Hld.
    destruct (enter_model text (sst e (p + 2 + blen n) (E.r_epieces rest ++ more)) _ _ Eenter) as (l0 & Ei1 & Ei2).
    assert (Hd1 : ld_depth ld1 = ld_depth ld + 1 /\ ld_depth ld < 10).
    { rewrite (mk_eta ld) in Eenter. apply ld_enter_some in Eenter. destruct Eenter as [Hlt [[H0 ->]|[H0 [_ ->]]]].
      - unfold DetectorProofs.mk. cbn. rewrite H0. split; [reflexivity|lia].
      - unfold DetectorProofs.mk. cbn. split; [reflexivity|exact Hlt]. }
    destruct Hd1 as [Hd1 Hd10].
    pose proof (cref_entity text Hascii e p n (E.r_epieces rest ++ more) HW Hn Hpre ltac:(lia) Hle) as Ec.
    cbn [app] in Ec, HW |- *.
    erewrite norm_attr_entity_step;
      [|rewrite at_end_sst; lia|reflexivity|exact Ec| |exact Ei1|exact Ei2].
    2:{ pose proof (W_cons _ _ _ _ HW) as HW1. rewrite (W_slice _ _ _ _ HW1). exact Efind. }
    destruct lvl' as [|lvl'']; [lia|].
    rewrite norm_attr_lvl_unfold, Eval. cbn [sl sl_start sl_end].
    rewrite (stream_from_substr_W text vs (E.r_epieces vps) tail HWv). cbn [bind].
    pose proof (W_le _ _ _ (W_app _ _ _ _ HWv)) as Hlev.
    destruct (IHv (vs + blen (E.r_epieces vps)) vs tail ld1 ld1' lvl''
                (S (length (s_rest (sst (vs + blen (E.r_epieces vps)) vs (E.r_epieces vps ++ tail))))))
      as [Ev Hdv]; try assumption; try reflexivity.
    { rewrite Hd1. replace (0 <? ld_depth ld + 1) with true by lia. reflexivity. }
    { lia. }
    { cbn [sst s_rest]. rewrite app_length. lia. }
    rewrite Ev. cbn [bind].
    assert (Hdd : ld_depth (dec_depth ld1') = ld_depth ld).
    { unfold dec_depth. cbn [ld_depth]. rewrite Hdv, Hd1. replace (0 <? ld_depth ld + 1) with true by lia. lia. }
    destruct (IHr e (p + 2 + blen n) more (dec_depth ld1') ld' (S lvl'') fu) as [Er Hdr]; try assumption.
    + pose proof (W_app _ _ n _ (W_cons _ _ _ _ HW)) as Y. apply W_cons in Y.
      replace (p + 2 + blen n) with (p + 1 + blen n + 1) by lia. exact Y.
    + lia.
    + rewrite Hdd. exact Hm.
    + rewrite Hdd. exact Hlvl.
    + rewrite !app_length in Hfu. cbn [length] in Hfu. lia.
    + split; [exact Er|rewrite Hdr; exact Hdd].
Qed.

End Attr.

Print Assumptions AL'.
