(* Proofs/StrictRunTok.v -- the strict tokenizer of StrictRunModel.v, run with a callback [ev1],
   is the model tokenizer run with a callback [ev2], whenever the two callbacks agree on every
   well-formed token in every state of the protocol invariants, and [ev2] keeps those invariants
   (so that the facts of StrictTok.v are available along the run). *)
From Coq Require Import Ascii String.
From Coq Require Import List Arith NArith Bool Lia ZifyBool ZifyN ZifyNat.
Import ListNotations.
From RX Require Import Generated.
From RX.Model Require Import Base CharClass Stream Tokenizer.
From RX.Proofs Require Import Tactics NoPanicUtf8 NoPanicStream NoPanicTokenizer.
From RX.Proofs Require Import StrictModel StrictStream StrictTok StrictRunModel StrictRunStream.
Open Scope N_scope.

Tactic Notation "dsh" "as" simple_intropattern(p) :=
  match goal with |- bind ?a _ = bind ?a _ =>
    destruct a as p; cbn [bind];
    try solve [match goal with
               | |- ?x = ?y => constr_eq x y; reflexivity
               | |- Err _ = _ => reflexivity
               | |- Panic _ = _ => reflexivity
               | |- OutOfFuel = _ => reflexivity
               end]
  end.

Definition noP : panic_site -> Prop := fun _ => False.

Section Tok.
Variable text : bytes.
Hypothesis Hvalid : valid_utf8_b text = true.
Variable C : Type.
Variables ev1 ev2 : token -> C -> res C.
Variables Iout Iin : C -> Prop.

Notation St := (NoPanicTokenizer.St C Iout Iin).

Hypothesis Hagree : forall tok c, TokOk2 text tok -> St (tok_pre tok) c -> ev1 tok c = ev2 tok c.
Hypothesis Hev2 : forall tok c, TokOk2 text tok -> St (tok_pre tok) c ->
  safeP noP (ev2 tok c) (St (tok_post tok)).

Notation stream := Stream.stream.
Notation SInv := (SInv text).
Notation Ext := (Ext text).
Notation Bd := (Boundary text).
Notation Wf := (StrictStream.Wf text).
Notation PostS := (StrictTok.PostS text C Iout).
Notation PostE := (StrictTok.PostE text C Iout).

Local Hint Resolve Ext_SInv Ext_refl : core.

Ltac ext :=
  repeat first [ eassumption
               | apply (Ext_refl text); solve [eauto]
               | eapply (Ext_trans text); [eassumption|] ].

Lemma wf s : SInv s -> Wf s.
Proof. apply SInv_Wf. Qed.
Local Hint Resolve wf : core.

(* rewriting the strict primitives away at a stream that satisfies the invariant *)
Ltac rw_ifsw := rewrite (ifsw_eq text) by eauto.
Ltac rw_sw := rewrite (starts_with_s_eq text) by eauto; cbn [bind].

(* the callback step *)
Ltac evstep c1 H :=
  match goal with |- bind (ev1 ?tok ?c) _ = bind (ev2 ?tok ?c) _ =>
    let T := fresh "T" in
    assert (T : TokOk2 text tok /\ St (tok_pre tok) c);
    [ split; [split|]; cbn [TokOk tok_pre NoPanicTokenizer.St fst snd]; auto
    | destruct T as [T1 T2]; rewrite (Hagree tok c T1 T2);
      pose proof (Hev2 tok c T1 T2) as H;
      destruct (ev2 tok c) as [c1| | |]; cbn [bind];
      try solve [match goal with
                 | |- ?x = ?y => constr_eq x y; reflexivity
                 | |- Err _ = _ => reflexivity
                 | |- Panic _ = _ => reflexivity
                 | |- OutOfFuel = _ => reflexivity
                 end];
      cbn [safeP tok_post NoPanicTokenizer.St] in H ]
  end.

Lemma parse_comment_rel s c : SInv s -> Iout c -> starts_with s (b "<!--") = true ->
  parse_comment_s text C ev1 s c = parse_comment text C ev2 s c.
Proof.
  intros Hs Hc Hsw. unfold parse_comment_s, parse_comment.
  pose proof (advance_kw text Hvalid (b "<!--") 4 s Hs Hsw eq_refl eq_refl) as P1.
  dsh as [s1| | |]. cbn in P1.
  rewrite consume_chars_until_eq by eauto.
  pose proof (consume_chars_safe text Hvalid (fun s ch => negb ((ch =? 45) && starts_with s (b "-->"))) s1
                ltac:(eauto)) as P2.
  dsh as [[txt s2]| | |]. cbn in P2. destruct P2 as [P2 _].
  rewrite (skip_string_s_eq text) by (eauto; reflexivity).
  pose proof (skip_string_safe text Hvalid (b "-->") s2 ltac:(eauto) eq_refl) as P3.
  dsh as [s3| | |]. cbn in P3.
  cbv zeta. destruct (contains_b _ _); [reflexivity|]. destruct (ends_with_byte _ _); [reflexivity|].
  evstep c1 Hc1.
Qed.

Lemma parse_pi_rel s c : SInv s -> Iout c -> ascii_ahead 2 s ->
  parse_pi_s text C ev1 s c = parse_pi text C ev2 s c.
Proof.
  intros Hs Hc Ha. unfold parse_pi_s, parse_pi. rw_ifsw.
  destruct (starts_with s _); [reflexivity|]. cbv zeta.
  pose proof (advance_ascii text Hvalid 2 2 s Hs Ha eq_refl) as P1.
  dsh as [s1| | |]. cbn in P1.
  rewrite (consume_name_s_eq text Hvalid) by eauto.
  pose proof (consume_name_safe text Hvalid s1 ltac:(eauto)) as P2.
  dsh as [[target s2]| | |]. cbn in P2. destruct P2 as [P2 _].
  rw_ifsw.
  assert (P3 : safe (if starts_with s2 (b "?>") then Ok s2 else consume_spaces text s2) (Ext s2)).
  { destruct (starts_with s2 _); [cbn; eauto|]. eapply consume_spaces_safe; eauto. }
  dsh as [s3| | |]. cbn in P3.
  rewrite consume_chars_until_eq by eauto.
  pose proof (consume_chars_safe text Hvalid (fun s ch => negb ((ch =? 63) && starts_with s (b "?>"))) s3
                ltac:(eauto)) as P4.
  dsh as [[content s4]| | |]. cbn in P4. destruct P4 as [P4 _].
  rewrite (skip_string_s_eq text) by (eauto; reflexivity).
  pose proof (skip_string_safe text Hvalid (b "?>") s4 ltac:(eauto) eq_refl) as P5.
  dsh as [s5| | |]. cbn in P5.
  evstep c1 Hc1.
Qed.

Notation HevT := (fun tok c (H1 : TokOk2 text tok) (H2 : St (tok_pre tok) c) => Hev2 tok c H1 H2).

Lemma parse_misc_loop_rel : forall fu s c, SInv s -> Iout c ->
  parse_misc_loop_s text C ev1 fu s c = parse_misc_loop text C ev2 fu s c.
Proof.
  induction fu; intros s c Hs Hc; cbn [parse_misc_loop_s parse_misc_loop]; [reflexivity|].
  destruct (at_end s); [reflexivity|]. cbv zeta.
  pose proof (skip_spaces_safe text Hvalid s Hs) as H1.
  rw_ifsw. destruct (starts_with (skip_spaces s) (b "<!--")) eqn:E1.
  { rewrite parse_comment_rel by eauto.
    pose proof (StrictTok.parse_comment_safe text Hvalid C ev2 noP Iout Iin Hev2 (skip_spaces s) c
                  ltac:(eauto) Hc E1) as P.
    dsh as [[s2 c2]| | |]. cbn in P. destruct P as [P1 P2].
    apply IHfu; eauto. }
  rw_ifsw. destruct (starts_with (skip_spaces s) (b "<?")) eqn:E2; [|reflexivity].
  assert (Ha : ascii_ahead 2 (skip_spaces s)).
  { apply (starts_with_ascii_ahead text _ (b "<?")); eauto. }
  rewrite parse_pi_rel by eauto.
  pose proof (StrictTok.parse_pi_safe text Hvalid C ev2 noP Iout Iin Hev2 (skip_spaces s) c
                ltac:(eauto) Hc Ha) as P.
  dsh as [[s2 c2]| | |]. cbn in P. destruct P as [P1 P2].
  apply IHfu; eauto.
Qed.

Lemma parse_misc_rel s c : SInv s -> Iout c ->
  parse_misc_s text C ev1 s c = parse_misc text C ev2 s c.
Proof. apply parse_misc_loop_rel. Qed.

Lemma parse_attribute_rel s : SInv s -> parse_attribute_s text s = parse_attribute text s.
Proof.
  intros Hs. unfold parse_attribute_s, parse_attribute.
  rewrite (consume_qname_s_eq text Hvalid) by auto.
  pose proof (consume_qname_safe text Hvalid s Hs) as P1.
  dsh as [[[p l] s1]| | |]. cbn in P1. destruct P1 as [P1 _].
  pose proof (consume_eq_safe text Hvalid s1 ltac:(eauto)) as P2.
  dsh as [s2| | |]. cbn in P2.
  pose proof (consume_quote_safe text Hvalid s2 ltac:(eauto)) as P3.
  dsh as [[q s3]| | |]. cbn in P3. destruct P3 as (P3 & _).
  rewrite (skip_chars_r_eq text Hvalid _ (fun _ ch => negb (ch =? q) && negb (ch =? 60))) by eauto.
  reflexivity.
Qed.

Lemma parse_pseudo_attribute_rel name s : SInv s ->
  parse_pseudo_attribute_s text name s = parse_pseudo_attribute text name s.
Proof.
  intros Hs. unfold parse_pseudo_attribute_s, parse_pseudo_attribute. cbv zeta.
  rewrite parse_attribute_rel by auto. reflexivity.
Qed.

Lemma decl_consume_spaces_rel s : SInv s ->
  decl_consume_spaces_s text s = decl_consume_spaces text s.
Proof.
  intros Hs. unfold decl_consume_spaces_s, decl_consume_spaces.
  destruct (starts_with_space s); [reflexivity|]. rw_sw. reflexivity.
Qed.

Lemma parse_declaration_rel s : SInv s -> starts_with s (b "<?xml") = true ->
  parse_declaration_s text s = parse_declaration text s.
Proof.
  intros Hs Hsw. unfold parse_declaration_s, parse_declaration.
  pose proof (advance_kw text Hvalid (b "<?xml") 5 s Hs Hsw eq_refl eq_refl) as P1.
  dsh as [s1| | |]. cbn in P1.
  rewrite decl_consume_spaces_rel by eauto.
  pose proof (StrictTok.decl_consume_spaces_safe text Hvalid s1 ltac:(eauto)) as P2.
  dsh as [s2| | |]. cbn in P2.
  rw_ifsw. destruct (starts_with s2 (b "version")); cbn [negb].
  2:{ apply (skip_string_s_eq text); eauto. }
  rewrite parse_pseudo_attribute_rel by eauto.
  pose proof (StrictTok.parse_pseudo_attribute_safe text Hvalid (b "version") s2 ltac:(eauto)) as P3.
  dsh as [s3| | |]. cbn in P3.
  rewrite decl_consume_spaces_rel by eauto.
  pose proof (StrictTok.decl_consume_spaces_safe text Hvalid s3 ltac:(eauto)) as P4.
  dsh as [s4| | |]. cbn in P4.
  rw_ifsw.
  assert (E5 : (if starts_with s4 (b "encoding")
                then let! s := parse_pseudo_attribute_s text (b "encoding") s4 in decl_consume_spaces_s text s else Ok s4)
             = (if starts_with s4 (b "encoding")
                then let! s := parse_pseudo_attribute text (b "encoding") s4 in decl_consume_spaces text s else Ok s4)).
  { destruct (starts_with s4 _); [|reflexivity]. rewrite parse_pseudo_attribute_rel by eauto.
    pose proof (StrictTok.parse_pseudo_attribute_safe text Hvalid (b "encoding") s4 ltac:(eauto)) as P.
    dsh as [s5| | |]. cbn in P. apply decl_consume_spaces_rel; eauto. }
  rewrite E5. clear E5.
  assert (P5 : safe (if starts_with s4 (b "encoding")
                then let! s := parse_pseudo_attribute text (b "encoding") s4 in decl_consume_spaces text s else Ok s4) (Ext s4)).
  { destruct (starts_with s4 _); [|cbn; eauto].
    eapply safe_bind; [eapply StrictTok.parse_pseudo_attribute_safe; eauto|]. intros s5 H5.
    eapply safe_mono; [eapply StrictTok.decl_consume_spaces_safe; eauto|]. intros s6 H6. ext. }
  dsh as [s5| | |].
  cbn in P5.
  rw_ifsw.
  assert (E6 : (if starts_with s5 (b "standalone") then parse_pseudo_attribute_s text (b "standalone") s5 else Ok s5)
             = (if starts_with s5 (b "standalone") then parse_pseudo_attribute text (b "standalone") s5 else Ok s5)).
  { destruct (starts_with s5 _); [|reflexivity]. apply parse_pseudo_attribute_rel; eauto. }
  rewrite E6. clear E6.
  assert (P6 : safe (if starts_with s5 (b "standalone") then parse_pseudo_attribute text (b "standalone") s5 else Ok s5) (Ext s5)).
  { destruct (starts_with s5 _); [|cbn; eauto]. eapply StrictTok.parse_pseudo_attribute_safe; eauto. }
  dsh as [s6| | |].
  cbn in P6. cbv zeta.
  pose proof (skip_spaces_safe text Hvalid s6 ltac:(eauto)) as P7.
  apply (skip_string_s_eq text); eauto.
Qed.

Lemma parse_external_literal_rel s :
  parse_external_literal_s text s = parse_external_literal text s.
Proof. reflexivity. Qed.

Lemma parse_pubid_literal_rel s :
  parse_pubid_literal_s text s = parse_pubid_literal text s.
Proof. reflexivity. Qed.

Lemma parse_external_id_rel s : SInv s ->
  parse_external_id_s text s = parse_external_id text s.
Proof.
  intros Hs. unfold parse_external_id_s, parse_external_id. rw_sw.
  destruct (starts_with s (b "SYSTEM")); cbn [bind orb]; [reflexivity|]. rw_sw. reflexivity.
Qed.

Lemma parse_entity_def_rel s is_ge : SInv s ->
  parse_entity_def_s text s is_ge = parse_entity_def text s is_ge.
Proof.
  intros Hs. unfold parse_entity_def_s, parse_entity_def.
  dsh as [x| | |].
  destruct ((x =? 34) || (x =? 39)); [reflexivity|].
  destruct ((x =? 83) || (x =? 80)); [|reflexivity].
  rewrite parse_external_id_rel by auto.
  pose proof (StrictTok.parse_external_id_safe text Hvalid s Hs) as P1.
  dsh as [[found s1]| | |]. cbn in P1.
  destruct found; [|reflexivity]. destruct is_ge; [|reflexivity]. cbv zeta.
  pose proof (skip_spaces_safe text Hvalid s1 ltac:(eauto)) as P2.
  rw_ifsw. destruct (starts_with (skip_spaces s1) (b "NDATA")) eqn:E; [|reflexivity].
  destruct (negb (starts_with_space s1)); [reflexivity|].
  pose proof (advance_kw text Hvalid (b "NDATA") 5 (skip_spaces s1) ltac:(eauto) E eq_refl eq_refl) as P3.
  dsh as [s3| | |]. cbn in P3.
  pose proof (consume_spaces_safe text Hvalid s3 ltac:(eauto)) as P4.
  dsh as [s4| | |]. cbn in P4.
  rewrite (skip_name_s_eq text Hvalid) by eauto. reflexivity.
Qed.

Lemma parse_entity_decl_rel s c : SInv s -> Iout c -> starts_with s (b "<!ENTITY") = true ->
  parse_entity_decl_s text C ev1 s c = parse_entity_decl text C ev2 s c.
Proof.
  intros Hs Hc Hsw. unfold parse_entity_decl_s, parse_entity_decl.
  pose proof (advance_kw text Hvalid (b "<!ENTITY") 8 s Hs Hsw eq_refl eq_refl) as P1.
  dsh as [s1| | |]. cbn in P1.
  pose proof (consume_spaces_safe text Hvalid s1 ltac:(eauto)) as P2.
  dsh as [s2| | |]. cbn in P2.
  rewrite try_consume_byte_s_eq. cbn [bind].
  pose proof (try_consume_byte_safe text Hvalid 37 s2 ltac:(eauto) eq_refl) as P3.
  destruct (try_consume_byte 37 s2) as [pe s3]. cbn [snd] in P3. cbv zeta.
  assert (P4 : safe (if pe then consume_spaces text s3 else Ok s3) (Ext s3)).
  { destruct pe; [|cbn; eauto]. eapply consume_spaces_safe; eauto. }
  dsh as [s4| | |]. cbn in P4.
  rewrite (consume_name_s_eq text Hvalid) by eauto.
  pose proof (consume_name_safe text Hvalid s4 ltac:(eauto)) as P5.
  dsh as [[name s5]| | |]. cbn in P5. destruct P5 as [P5 _].
  pose proof (consume_spaces_safe text Hvalid s5 ltac:(eauto)) as P6.
  dsh as [s6| | |]. cbn in P6.
  rewrite parse_entity_def_rel by eauto.
  pose proof (StrictTok.parse_entity_def_safe text Hvalid s6 (negb pe) ltac:(eauto)) as P7.
  dsh as [[def s7]| | |]. cbn in P7. destruct P7 as [P7 Hdef].
  destruct def as [dv|]; [|reflexivity]. destruct (negb pe); [|reflexivity].
  evstep c1 Hc1.
Qed.

Lemma parse_doctype_start_rel s : SInv s -> starts_with s (b "<!DOCTYPE") = true ->
  parse_doctype_start_s text s = parse_doctype_start text s.
Proof.
  intros Hs Hsw. unfold parse_doctype_start_s, parse_doctype_start.
  pose proof (advance_kw text Hvalid (b "<!DOCTYPE") 9 s Hs Hsw eq_refl eq_refl) as P1.
  dsh as [s1| | |]. cbn in P1.
  pose proof (consume_spaces_safe text Hvalid s1 ltac:(eauto)) as P2.
  dsh as [s2| | |]. cbn in P2.
  rewrite (skip_name_s_eq text Hvalid) by eauto.
  pose proof (skip_name_safe text Hvalid s2 ltac:(eauto)) as P3.
  dsh as [s3| | |]. cbn in P3. cbv zeta.
  pose proof (skip_spaces_safe text Hvalid s3 ltac:(eauto)) as P4.
  rewrite parse_external_id_rel by eauto. reflexivity.
Qed.

Lemma parse_doctype_loop_rel start : forall fu s c, SInv s -> Iout c ->
  parse_doctype_loop_s text C ev1 fu start s c = parse_doctype_loop text C ev2 fu start s c.
Proof.
  induction fu; intros s c Hs Hc; cbn [parse_doctype_loop_s parse_doctype_loop]; [reflexivity|].
  destruct (at_end s); [reflexivity|]. cbv zeta.
  pose proof (skip_spaces_safe text Hvalid s Hs) as H1. set (s1 := skip_spaces s) in *.
  rw_ifsw. destruct (starts_with s1 (b "<!ENTITY")) eqn:E1.
  { rewrite parse_entity_decl_rel by eauto.
    pose proof (StrictTok.parse_entity_decl_safe text Hvalid C ev2 noP Iout Iin Hev2 s1 c
                  ltac:(eauto) Hc E1) as P.
    dsh as [[s2 c2]| | |]. cbn in P. destruct P as [P1 P2].
    apply IHfu; eauto. }
  rw_ifsw. destruct (starts_with s1 (b "<!--")) eqn:E2.
  { rewrite parse_comment_rel by eauto.
    pose proof (StrictTok.parse_comment_safe text Hvalid C ev2 noP Iout Iin Hev2 s1 c
                  ltac:(eauto) Hc E2) as P.
    dsh as [[s2 c2]| | |]. cbn in P. destruct P as [P1 P2].
    apply IHfu; eauto. }
  rw_ifsw. destruct (starts_with s1 (b "<?")) eqn:E3.
  { assert (Ha : ascii_ahead 2 s1) by (apply (starts_with_ascii_ahead text _ (b "<?")); eauto).
    rewrite parse_pi_rel by eauto.
    pose proof (StrictTok.parse_pi_safe text Hvalid C ev2 noP Iout Iin Hev2 s1 c ltac:(eauto) Hc Ha) as P.
    dsh as [[s2 c2]| | |]. cbn in P. destruct P as [P1 P2].
    apply IHfu; eauto. }
  rw_ifsw. destruct (starts_with s1 (b "]")) eqn:E4; [reflexivity|].
  rw_sw. destruct (starts_with s1 (b "<!ELEMENT")); cbn [bind orb].
  { pose proof (StrictTok.consume_decl_safe text Hvalid s1 ltac:(eauto)) as P.
    destruct (consume_decl text s1) as [s2| | |]; try reflexivity. cbn in P. apply IHfu; eauto. }
  rw_sw. destruct (starts_with s1 (b "<!ATTLIST")); cbn [bind orb].
  { pose proof (StrictTok.consume_decl_safe text Hvalid s1 ltac:(eauto)) as P.
    destruct (consume_decl text s1) as [s2| | |]; try reflexivity. cbn in P. apply IHfu; eauto. }
  rw_sw. destruct (starts_with s1 (b "<!NOTATION")); [|reflexivity].
  pose proof (StrictTok.consume_decl_safe text Hvalid s1 ltac:(eauto)) as P.
  destruct (consume_decl text s1) as [s2| | |]; try reflexivity. cbn in P. apply IHfu; eauto.
Qed.

Lemma parse_doctype_rel s c : SInv s -> Iout c -> starts_with s (b "<!DOCTYPE") = true ->
  parse_doctype_s text C ev1 s c = parse_doctype text C ev2 s c.
Proof.
  intros Hs Hc Hsw. unfold parse_doctype_s, parse_doctype. cbv zeta.
  rewrite parse_doctype_start_rel by auto.
  pose proof (StrictTok.parse_doctype_start_safe text Hvalid s Hs Hsw) as P1.
  dsh as [s1| | |]. cbn in P1.
  destruct P1 as (P1 & x & r & Hr & Hlt & Hx & Hsp).
  pose proof (skip_spaces_safe text Hvalid s1 ltac:(eauto)) as H2.
  destruct (StrictTok.skip_bytes_nop byte_is_space s1 x r Hr Hsp) as (Hr2 & Hp2 & He2).
  fold (skip_spaces s1) in *.
  assert (Hadv : safe (advance 1 (skip_spaces s1)) (Ext (skip_spaces s1))).
  { eapply advance1_safe; eauto. lia. }
  match goal with |- (if ?b then _ else _) = _ => destruct b end; [reflexivity|].
  dsh as [s3| | |]. cbn in Hadv.
  apply parse_doctype_loop_rel; eauto.
Qed.

Lemma parse_element_loop_rel tag_start : forall fu s c, SInv s -> Iin c ->
  parse_element_loop_s text C ev1 fu tag_start s c = parse_element_loop text C ev2 fu tag_start s c.
Proof.
  induction fu; intros s c Hs Hc; cbn [parse_element_loop_s parse_element_loop]; [reflexivity|].
  destruct (at_end s); [reflexivity|]. cbv zeta.
  pose proof (skip_spaces_safe text Hvalid s Hs) as H1. set (s1 := skip_spaces s) in *.
  pose proof (curr_byte_safe text s1 ltac:(apply H1)) as Pc.
  dsh as [x| | |]. cbn in Pc. destruct Pc as (r & Hr & Hlt).
  destruct (x =? 47) eqn:E47.
  { assert (x = 47) by lia. subst x.
    pose proof (advance1_safe text Hvalid s1 47 r ltac:(eauto) Hr Hlt eq_refl) as P2.
    dsh as [s2| | |]. cbn in P2.
    pose proof (consume_byte_safe text Hvalid 62 s2 ltac:(eauto) eq_refl) as P3.
    dsh as [s3| | |]. cbn in P3.
    evstep c1 Hc1. }
  destruct (x =? 62) eqn:E62.
  { assert (x = 62) by lia. subst x.
    pose proof (advance1_safe text Hvalid s1 62 r ltac:(eauto) Hr Hlt eq_refl) as P2.
    dsh as [s2| | |]. cbn in P2.
    evstep c1 Hc1. }
  assert (P2 : safe (if starts_with_space s then Ok s1 else consume_spaces text s1) (Ext s1)).
  { destruct (starts_with_space s); [cbn; eauto|]. eapply consume_spaces_safe; eauto. }
  dsh as [s2| | |]. cbn in P2.
  rewrite (consume_qname_s_eq text Hvalid) by eauto.
  pose proof (consume_qname_safe text Hvalid s2 ltac:(eauto)) as P3.
  destruct (consume_qname text s2) as [[[prefix local] s3]| | |] eqn:Eq; cbn [bind]; try reflexivity.
  cbn in P3. destruct P3 as [P3 _]. apply consume_qname_local_ne in Eq.
  pose proof (consume_eq_safe text Hvalid s3 ltac:(eauto)) as P4.
  dsh as [s4| | |]. cbn in P4.
  pose proof (consume_quote_safe text Hvalid s4 ltac:(eauto)) as P5.
  dsh as [[q s5]| | |]. cbn in P5. destruct P5 as (P5 & Hq & Hlt5).
  rewrite (advance_until2_s_eq text) by eauto.
  pose proof (advance_until2_safe text q 60 s5 Hq eq_refl ltac:(eauto)) as P6.
  dsh as [s6| | |]. cbn in P6.
  pose proof (slice_back_safe text (s_pos s5) s6 ltac:(apply P5) ltac:(eauto) ltac:(apply P6)) as P7.
  dsh as [value| | |]. cbn in P7. subst value.
  dsh as [u| | |].
  pose proof (consume_byte_safe text Hvalid q s6 ltac:(eauto) Hq) as P8.
  dsh as [s7| | |]. cbn in P8.
  evstep c1 Hc1.
  { split; [split; [apply P5|split; [apply P6|cbn; apply P6]]|].
    destruct P6 as (_ & P6 & _). destruct P8 as (_ & P8 & _). lia. }
  apply IHfu; eauto.
Qed.

Lemma parse_element_rel s c : SInv s -> Iout c -> ascii_ahead 1 s ->
  parse_element_s text C ev1 s c = parse_element text C ev2 s c.
Proof.
  intros Hs Hc Ha. unfold parse_element_s, parse_element. cbv zeta.
  pose proof (advance_ascii text Hvalid 1 1 s Hs Ha eq_refl) as P1.
  dsh as [s1| | |]. cbn in P1.
  rewrite (consume_qname_s_eq text Hvalid) by eauto.
  pose proof (consume_qname_safe text Hvalid s1 ltac:(eauto)) as P2.
  dsh as [[[prefix local] s2]| | |]. cbn in P2. destruct P2 as [P2 Hl].
  evstep c1 Hc1.
  apply parse_element_loop_rel; eauto.
Qed.

Lemma parse_cdata_rel s c : SInv s -> Iout c -> starts_with s (b "<![CDATA[") = true ->
  parse_cdata_s text C ev1 s c = parse_cdata text C ev2 s c.
Proof.
  intros Hs Hc Hsw. unfold parse_cdata_s, parse_cdata. cbv zeta.
  pose proof (advance_kw text Hvalid (b "<![CDATA[") 9 s Hs Hsw eq_refl eq_refl) as P1.
  dsh as [s1| | |]. cbn in P1.
  rewrite consume_chars_until_eq by eauto.
  pose proof (consume_chars_safe text Hvalid (fun s ch => negb ((ch =? 93) && starts_with s (b "]]>"))) s1
                ltac:(eauto)) as P2.
  dsh as [[txt s2]| | |]. cbn in P2. destruct P2 as [P2 ->].
  rewrite (skip_string_s_eq text) by (eauto; reflexivity).
  pose proof (skip_string_safe text Hvalid (b "]]>") s2 ltac:(eauto) eq_refl) as P3.
  dsh as [s3| | |]. cbn in P3.
  evstep c1 Hc1. split; [apply P1|]. split; [apply P2|]. cbn. apply P2.
Qed.

Lemma parse_close_element_rel s c : SInv s -> Iout c -> ascii_ahead 2 s ->
  parse_close_element_s text C ev1 s c = parse_close_element text C ev2 s c.
Proof.
  intros Hs Hc Ha. unfold parse_close_element_s, parse_close_element. cbv zeta.
  pose proof (advance_ascii text Hvalid 2 2 s Hs Ha eq_refl) as P1.
  dsh as [s1| | |]. cbn in P1.
  rewrite (consume_qname_s_eq text Hvalid) by eauto.
  pose proof (consume_qname_safe text Hvalid s1 ltac:(eauto)) as P2.
  dsh as [[[prefix local] s2]| | |]. cbn in P2. destruct P2 as [P2 _].
  pose proof (skip_spaces_safe text Hvalid s2 ltac:(eauto)) as P3.
  pose proof (consume_byte_safe text Hvalid 62 (skip_spaces s2) ltac:(eauto) eq_refl) as P4.
  dsh as [s4| | |]. cbn in P4.
  evstep c1 Hc1.
Qed.

Lemma parse_text_rel s c : SInv s -> Iout c ->
  parse_text_s text C ev1 s c = parse_text text C ev2 s c.
Proof.
  intros Hs Hc. unfold parse_text_s, parse_text. cbv zeta.
  rewrite (consume_chars_r_eq text Hvalid _ (fun _ ch => negb (ch =? 60))) by eauto.
  pose proof (consume_chars_safe text Hvalid (fun _ ch => negb (ch =? 60)) s Hs) as P1.
  dsh as [[txt s1]| | |]. cbn in P1. destruct P1 as [P1 ->].
  destruct (_ && _); [reflexivity|].
  evstep c1 Hc1. split; [apply Hs|]. split; [apply P1|]. split; [apply P1|reflexivity].
Qed.

Lemma parse_content_loop_rel : forall fu depth s c, SInv s -> Iout c ->
  parse_content_loop_s text C ev1 fu depth s c = parse_content_loop text C ev2 fu depth s c.
Proof.
  induction fu; intros depth s c Hs Hc; cbn [parse_content_loop_s parse_content_loop]; [reflexivity|].
  destruct (at_end s) eqn:Eend; [reflexivity|].
  pose proof (curr_byte_unchecked_safe text s ltac:(apply Hs) Eend) as Pc.
  dsh as [x| | |]. cbn in Pc. destruct Pc as (r & Hr & Hlt).
  destruct (x =? 60) eqn:E60.
  2:{ rewrite parse_text_rel by auto.
      pose proof (StrictTok.parse_text_safe text Hvalid C ev2 noP Iout Iin Hev2 s c Hs Hc) as P.
      dsh as [[s2 c2]| | |]. cbn in P. destruct P as [P1 P2].
      apply IHfu; eauto. }
  assert (x = 60) by lia. subst x.
  pose proof (next_byte_safe text s ltac:(apply Hs)) as Hnb.
  destruct (next_byte s) as [y|e|p|]; cbn in Hnb; try reflexivity.
  destruct Hnb as (x' & r' & Hr' & Hlt'). rewrite Hr in Hr'. inversion Hr'; subst x' r. clear Hr'.
  destruct (y =? 33) eqn:E33.
  { rw_ifsw. destruct (starts_with s (b "<!--")) eqn:E1.
    { rewrite parse_comment_rel by auto.
      pose proof (StrictTok.parse_comment_safe text Hvalid C ev2 noP Iout Iin Hev2 s c Hs Hc E1) as P.
      dsh as [[s2 c2]| | |]. cbn in P. destruct P as [P1 P2].
      apply IHfu; eauto. }
    rw_ifsw. destruct (starts_with s (b "<![CDATA[")) eqn:E2; [|reflexivity].
    rewrite parse_cdata_rel by auto.
    pose proof (StrictTok.parse_cdata_safe text Hvalid C ev2 noP Iout Iin Hev2 s c Hs Hc E2) as P.
    dsh as [[s2 c2]| | |]. cbn in P. destruct P as [P1 P2].
    apply IHfu; eauto. }
  destruct (y =? 63) eqn:E63.
  { assert (y = 63) by lia. subst y.
    assert (Ha : ascii_ahead 2 s) by (eapply ascii_ahead_2; eauto).
    rewrite parse_pi_rel by auto.
    pose proof (StrictTok.parse_pi_safe text Hvalid C ev2 noP Iout Iin Hev2 s c Hs Hc Ha) as P.
    dsh as [[s2 c2]| | |]. cbn in P. destruct P as [P1 P2].
    apply IHfu; eauto. }
  destruct (y =? 47) eqn:E47.
  { assert (y = 47) by lia. subst y.
    assert (Ha : ascii_ahead 2 s) by (eapply ascii_ahead_2; eauto).
    rewrite parse_close_element_rel by auto.
    pose proof (StrictTok.parse_close_element_safe text Hvalid C ev2 noP Iout Iin Hev2 s c Hs Hc Ha) as P.
    dsh as [[s2 c2]| | |]. cbn in P. destruct P as [P1 P2].
    destruct (depth =? 0); [reflexivity|]. apply IHfu; eauto. }
  assert (Ha : ascii_ahead 1 s) by (eapply ascii_ahead_1; eauto).
  rewrite parse_element_rel by auto.
  pose proof (StrictTok.parse_element_safe text Hvalid C ev2 noP Iout Iin Hev2 s c Hs Hc Ha) as P.
  dsh as [[[open s2] c2]| | |]. cbn in P. destruct P as [P1 P2].
  apply IHfu; eauto.
Qed.

(* the re-entry on an entity value *)
Lemma parse_content_rel s c : SInv s -> Iout c ->
  parse_content_s text C ev1 s c = parse_content text C ev2 s c.
Proof. apply parse_content_loop_rel. Qed.

Lemma starts_with_declaration_rel s : SInv s ->
  starts_with_declaration_s text s = Ok (starts_with_declaration s).
Proof.
  intros Hs. unfold starts_with_declaration_s, starts_with_declaration. rw_sw.
  destruct (starts_with s (b "<?xml")); [|reflexivity].
  rewrite (avail_s_eq text) by eauto. reflexivity.
Qed.

Lemma parse_document_rel dtd c : Iout c ->
  parse_document_s text C ev1 dtd c = parse_document text C ev2 dtd c.
Proof.
  intros Hc. unfold parse_document_s, parse_document. cbv zeta.
  pose proof (SInv_new text) as Hn.
  rw_ifsw.
  pose proof (StrictTok.bom_safe text Hvalid) as P1.
  dsh as [s1| | |]. cbn in P1.
  rewrite starts_with_declaration_rel by eauto. cbn [bind].
  assert (E2 : (if starts_with_declaration s1 then parse_declaration_s text s1 else Ok s1)
             = (if starts_with_declaration s1 then parse_declaration text s1 else Ok s1)).
  { destruct (starts_with_declaration s1) eqn:E; [|reflexivity].
    unfold starts_with_declaration in E. apply andb_true_iff in E as [E _].
    apply parse_declaration_rel; eauto. }
  rewrite E2. clear E2.
  assert (P2 : safe (if starts_with_declaration s1 then parse_declaration text s1 else Ok s1) (Ext s1)).
  { destruct (starts_with_declaration s1) eqn:E; [|cbn; eauto].
    unfold starts_with_declaration in E. apply andb_true_iff in E as [E _].
    eapply StrictTok.parse_declaration_safe; eauto. }
  dsh as [s2| | |]. cbn in P2.
  rewrite parse_misc_rel by eauto.
  pose proof (StrictTok.parse_misc_safe text Hvalid C ev2 noP Iout Iin Hev2 s2 c ltac:(eauto) Hc) as P3.
  dsh as [[s3 c3]| | |]. cbn in P3. destruct P3 as [P3 Hc3].
  cbn [fst snd] in *.
  pose proof (skip_spaces_safe text Hvalid s3 ltac:(eauto)) as H4. set (s4 := skip_spaces s3) in *.
  rw_ifsw.
  assert (E5 : (if starts_with s4 (b "<!DOCTYPE")
                then if negb dtd then Err DtdDetected
                     else let! (s, c) := parse_doctype_s text C ev1 s4 c3 in parse_misc_s text C ev1 s c
                else Ok (s4, c3))
             = (if starts_with s4 (b "<!DOCTYPE")
                then if negb dtd then Err DtdDetected
                     else let! (s, c) := parse_doctype text C ev2 s4 c3 in parse_misc text C ev2 s c
                else Ok (s4, c3)) /\
               safeP noP (if starts_with s4 (b "<!DOCTYPE")
                then if negb dtd then Err DtdDetected
                     else let! (s, c) := parse_doctype text C ev2 s4 c3 in parse_misc text C ev2 s c
                else Ok (s4, c3)) (PostS s4)).
  { destruct (starts_with s4 (b "<!DOCTYPE")) eqn:E.
    2:{ split; [reflexivity|]. cbn. split; cbn; eauto. }
    destruct (negb dtd); [split; [reflexivity|exact I]|].
    rewrite parse_doctype_rel by eauto.
    pose proof (StrictTok.parse_doctype_safe text Hvalid C ev2 noP Iout Iin Hev2 s4 c3 ltac:(eauto) Hc3 E) as P.
    destruct (parse_doctype text C ev2 s4 c3) as [[s5 c5]| | |]; cbn [bind];
      try (split; [reflexivity|exact P]).
    cbn in P. destruct P as [P5 Hc5]. cbn [fst snd] in *.
    split; [apply parse_misc_rel; eauto|].
    eapply safeP_mono; [apply (StrictTok.parse_misc_safe text Hvalid C ev2 noP Iout Iin Hev2); eauto|].
    intros r0 Hr0. eapply StrictTok.PostS_trans; eauto. }
  destruct E5 as [E5 P5]. rewrite E5. clear E5.
  dsh as [[s5 c5]| | |].
  cbn in P5. destruct P5 as [P5 Hc5]. cbn [fst snd] in *.
  pose proof (skip_spaces_safe text Hvalid s5 ltac:(eauto)) as H6. set (s6 := skip_spaces s5) in *.
  assert (E7 : (if match curr_byte_opt s6 with Some x => x =? 60 | None => false end
                then let! (open, s, c) := parse_element_s text C ev1 s6 c5 in
                     if open then parse_content_s text C ev1 s c else Ok (s, c)
                else Ok (s6, c5))
             = (if match curr_byte_opt s6 with Some x => x =? 60 | None => false end
                then let! (open, s, c) := parse_element text C ev2 s6 c5 in
                     if open then parse_content text C ev2 s c else Ok (s, c)
                else Ok (s6, c5)) /\
               safeP noP (if match curr_byte_opt s6 with Some x => x =? 60 | None => false end
                then let! (open, s, c) := parse_element text C ev2 s6 c5 in
                     if open then parse_content text C ev2 s c else Ok (s, c)
                else Ok (s6, c5)) (PostS s6)).
  { destruct (curr_byte_opt s6) as [x|] eqn:Ec; [|split; [reflexivity|cbn; split; cbn; eauto]].
    destruct (x =? 60) eqn:Ex; [|split; [reflexivity|cbn; split; cbn; eauto]].
    apply curr_byte_opt_some in Ec as (r & Hr & Hlt). assert (x = 60) by lia. subst x.
    assert (Ha : ascii_ahead 1 s6) by (eapply ascii_ahead_1; eauto).
    rewrite parse_element_rel by eauto.
    pose proof (StrictTok.parse_element_safe text Hvalid C ev2 noP Iout Iin Hev2 s6 c5 ltac:(eauto) Hc5 Ha) as P.
    destruct (parse_element text C ev2 s6 c5) as [[[open s7] c7]| | |]; cbn [bind];
      try (split; [reflexivity|exact P]).
    cbn in P. destruct P as [P7 Hc7]. cbn [fst snd] in *.
    destruct open; [|split; [reflexivity|cbn; split; cbn; auto]].
    split; [apply parse_content_rel; eauto|].
    eapply safeP_mono; [apply (StrictTok.parse_content_safe text Hvalid C ev2 noP Iout Iin Hev2); eauto|].
    intros r0 Hr0. eapply StrictTok.PostS_trans; eauto. }
  destruct E7 as [E7 P7]. rewrite E7. clear E7.
  dsh as [[s7 c7]| | |].
  cbn in P7. destruct P7 as [P7 Hc7]. cbn [fst snd] in *.
  rewrite parse_misc_rel by eauto. reflexivity.
Qed.

End Tok.
