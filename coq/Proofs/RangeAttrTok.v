(* Proofs/RangeAttrTok.v -- C13 (attribute sub-ranges), part 2: the tokenizer pass of
   RangeTokenizer.v once more, with the relations between the pieces of an attribute token
   ([AttrTok]) added to what the callback may assume of a token. *)
From Coq Require Import Ascii String.
From Coq Require Import List Arith NArith Bool Lia ZifyBool ZifyN ZifyNat.
Import ListNotations.
From RX Require Import Generated.
From RX.Model Require Import Base CharClass Stream Tokenizer.
From RX.Proofs Require Import Tactics NoPanicUtf8 NoPanicStream NoPanicTokenizer BorrowLocal
  RangeTokenizer RangeAttrLocal.
Open Scope N_scope.

Definition TokAt2 (text : bytes) (p0 p1 : N) (tok : token) : Prop :=
  TokAt text p0 p1 tok /\ AttrTok text tok.

Section Tok.
Variable text : bytes.
Hypothesis Hvalid : valid_utf8_b text = true.
Variable C : Type.
Variable ev : token -> C -> res C.
Variable J : bool -> N -> C -> Prop.
Hypothesis Hev : forall tok c c' p0 p1,
  J (tok_pre tok) p0 c -> TokAt2 text p0 p1 tok -> ev tok c = Ok c' -> J (tok_post tok) p1 c'.

Notation stream := Stream.stream.
Notation SInv := (SInv text).
Notation Ext := (Ext text).
Notation Bd := (Boundary text).

(* the invariant holds at some position the stream has reached *)
Definition JS2 (b : bool) (s : stream) (c : C) : Prop := exists p, p <= s_pos s /\ J b p c.

Local Hint Resolve Ext_SInv Ext_refl : core.

Ltac ext :=
  repeat first [ eassumption
               | apply (Ext_refl text); solve [eauto]
               | eapply (Ext_trans text); [eassumption|] ].

Ltac sb L := eapply okP_bind2; [ apply okP_safe; eapply L; eauto; try reflexivity | ].
Ltac sbp L := eapply okP_bind2; [ eapply L; eauto; try reflexivity | ].

Lemma Ext_pos2 s s' : Ext s s' -> s_pos s <= s_pos s'.
Proof. intros (_ & H & _). exact H. Qed.
Lemma Ext_Bd2 s s' : Ext s s' -> Bd (s_pos s').
Proof. intros ([_ H] & _). exact H. Qed.
Lemma SInv_Bd2 s : SInv s -> Bd (s_pos s).
Proof. intros [_ H]. exact H. Qed.

Lemma JS_mono2 b s s' c : JS2 b s c -> Ext s s' -> JS2 b s' c.
Proof. intros [p [Hp Hj]] H. exists p. split; [|exact Hj]. apply Ext_pos2 in H. lia. Qed.

(* the callback step *)
Lemma ev_step2 tok s0 s c :
  JS2 (tok_pre tok) s0 c -> (forall p0, p0 <= s_pos s0 -> TokAt2 text p0 (s_pos s) tok) ->
  okP (ev tok c) (fun c' => JS2 (tok_post tok) s c').
Proof.
  intros [p [Hp Hj]] Ht c' E. exists (s_pos s). split; [lia|].
  eapply Hev; eauto.
Qed.

Definition PostS2 (s : stream) (r : stream * C) : Prop := Ext s (fst r) /\ JS2 false (fst r) (snd r).
Definition PostE2 (s : stream) (r : bool * stream * C) : Prop :=
  Ext s (snd (fst r)) /\ JS2 false (snd (fst r)) (snd r).

Lemma PostS_trans2 s s1 r : Ext s s1 -> PostS2 s1 r -> PostS2 s r.
Proof. unfold PostS2. intros H [H1 H2]. split; auto. eapply Ext_trans; eauto. Qed.

Lemma PostS_intro2 s s1 c : Ext s s1 -> JS2 false s1 c -> PostS2 s (s1, c).
Proof. unfold PostS2; cbn; auto. Qed.

(* positions along a chain of extensions *)
Ltac pos :=
  repeat match goal with
         | H : Ext _ _ |- _ => pose proof (Ext_pos2 _ _ H); pose proof (Ext_Bd2 _ _ H); clear H
         | H : advance _ _ = Ok _ |- _ => apply advance_pos in H; destruct H as [H _]
         | H : consume_byte _ _ _ = Ok _ |- _ => apply consume_byte_pos in H
         end.

Ltac fin_tok :=
  unfold Boundary in *;
  repeat match goal with H : _ /\ _ |- _ => destruct H end;
  repeat split; auto; lia.

Lemma parse_comment_R2 s c : SInv s -> JS2 false s c -> starts_with s (b "<!--") = true ->
  okP (parse_comment text C ev s c) (PostS2 s).
Proof.
  intros Hs Hc Hsw. unfold parse_comment.
  sb (advance_kw text Hvalid (b "<!--")). intros s1 E1 H1. cbv beta.
  sb consume_chars_safe. intros [txt s2] _ [H2 _]. cbv beta iota.
  sb skip_string_safe. intros s3 _ H3. cbv beta.
  destruct (contains_b _ _); [apply okP_err_from|].
  destruct (ends_with_byte _ _); [apply okP_err_from|].
  eapply okP_bind; [eapply (ev_step2 _ s s3); [exact Hc|]|].
  { intros p0 Hp0. split; [|exact I]. cbn [TokAt fst snd]. pose proof (SInv_Bd2 s Hs). pos. fin_tok. }
  intros c1 Hc1. cbn [tok_post] in Hc1. apply okP_ret. apply PostS_intro2; auto. ext.
Qed.

Lemma parse_pi_R2 s c : SInv s -> JS2 false s c -> ascii_ahead 2 s ->
  okP (parse_pi text C ev s c) (PostS2 s).
Proof.
  intros Hs Hc Ha. unfold parse_pi.
  destruct (starts_with s _); [apply okP_err_at|].
  sb (advance_ascii text Hvalid 2). intros s1 E1 H1. cbv beta.
  sb consume_name_safe. intros [target s2] _ [H2 _]. cbv beta iota zeta.
  eapply okP_bind with (Q' := Ext s2).
  { apply okP_safe. destruct (starts_with s2 _); [cbn; eauto|]. eapply consume_spaces_safe; eauto. }
  intros s3 H3. cbv beta.
  sb consume_chars_safe. intros [content s4] _ [H4 _]. cbv beta iota.
  sb skip_string_safe. intros s5 _ H5. cbv beta.
  eapply okP_bind; [eapply (ev_step2 _ s s5); [exact Hc|]|].
  { intros p0 Hp0. split; [|exact I]. cbn [TokAt fst snd]. pose proof (SInv_Bd2 s Hs). pos. fin_tok. }
  intros c1 Hc1. cbn [tok_post] in Hc1. apply okP_ret. apply PostS_intro2; auto. ext.
Qed.

Lemma parse_misc_loop_R2 : forall fu s c, SInv s -> JS2 false s c ->
  okP (parse_misc_loop text C ev fu s c) (PostS2 s).
Proof.
  induction fu; intros s c Hs Hc; cbn [parse_misc_loop]; [apply okP_fuel|].
  destruct (at_end s). { apply okP_ret. apply PostS_intro2; auto. }
  cbv zeta. pose proof (skip_spaces_safe text Hvalid s Hs) as H1.
  assert (Hc1 : JS2 false (skip_spaces s) c) by (eapply JS_mono2; eauto).
  destruct (starts_with (skip_spaces s) (b "<!--")) eqn:E1.
  { sbp parse_comment_R2. intros [s2 c2] _ [H2 Hc2]. cbn [fst snd] in *. cbv beta iota.
    eapply okP_weaken; [apply IHfu; eauto|]. intros r Hr. eapply PostS_trans2; [|exact Hr]. ext. }
  destruct (starts_with (skip_spaces s) (b "<?")) eqn:E2.
  { sbp parse_pi_R2. { apply (starts_with_ascii_ahead text _ (b "<?")); eauto. }
    intros [s2 c2] _ [H2 Hc2]. cbn [fst snd] in *. cbv beta iota.
    eapply okP_weaken; [apply IHfu; eauto|]. intros r Hr. eapply PostS_trans2; [|exact Hr]. ext. }
  apply okP_ret. apply PostS_intro2; auto.
Qed.

Lemma parse_misc_R2 s c : SInv s -> JS2 false s c -> okP (parse_misc text C ev s c) (PostS2 s).
Proof. apply parse_misc_loop_R2. Qed.

Lemma parse_entity_decl_R2 s c : SInv s -> JS2 false s c -> starts_with s (b "<!ENTITY") = true ->
  contains_b dtd_kw text = true ->
  okP (parse_entity_decl text C ev s c) (PostS2 s).
Proof.
  intros Hs Hc Hsw Hdtd. unfold parse_entity_decl.
  sb (advance_kw text Hvalid (b "<!ENTITY")). intros s1 _ H1. cbv beta.
  sb consume_spaces_safe. intros s2 _ H2. cbv beta.
  pose proof (try_consume_byte_safe text Hvalid 37 s2 ltac:(eauto) eq_refl) as H3.
  destruct (try_consume_byte 37 s2) as [pe s3]. cbn [snd] in H3. cbv zeta.
  eapply okP_bind with (Q' := Ext s3).
  { apply okP_safe. destruct pe; [|cbn; eauto]. eapply consume_spaces_safe; eauto. }
  intros s4 H4. cbv beta.
  sb consume_name_safe. intros [name s5] _ [H5 _]. cbv beta iota.
  sb consume_spaces_safe. intros s6 _ H6. cbv beta.
  sb parse_entity_def_safe. intros [def s7] _ [H7 Hdef]. cbn [fst snd] in H7, Hdef. cbv beta iota.
  eapply okP_bind with (Q' := JS2 false s7).
  { assert (Hc7 : JS2 false s7 c) by (eapply JS_mono2; [exact Hc|ext]).
    destruct def; [|apply okP_ret; exact Hc7]. destruct (negb pe); [|apply okP_ret; exact Hc7].
    eapply (ev_step2 (TEntityDecl name s0) s s7); [exact Hc|].
    intros p0 Hp0. split; [|exact I]. cbn [TokAt]. pos. split; [lia|]. split; [apply SliceOk_valid; exact Hdef|exact Hdtd]. }
  intros c1 Hc1. cbv beta.
  pose proof (skip_spaces_safe text Hvalid s7 ltac:(eauto)) as H8.
  sb consume_byte_safe. intros s9 _ H9. apply okP_ret. apply PostS_intro2; [ext|].
  eapply JS_mono2; [exact Hc1|ext].
Qed.

Lemma parse_doctype_loop_R2 start : forall fu s c, SInv s -> JS2 false s c ->
  contains_b dtd_kw text = true ->
  okP (parse_doctype_loop text C ev fu start s c) (PostS2 s).
Proof.
  induction fu; intros s c Hs Hc Hdtd; cbn [parse_doctype_loop]; [apply okP_fuel|].
  destruct (at_end s). { apply okP_ret. apply PostS_intro2; auto. }
  cbv zeta. pose proof (skip_spaces_safe text Hvalid s Hs) as H1.
  set (s1 := skip_spaces s) in *.
  assert (Hc1 : JS2 false s1 c) by (eapply JS_mono2; eauto).
  assert (Hloop : forall r, PostS2 s1 r ->
            okP (parse_doctype_loop text C ev fu start (fst r) (snd r)) (PostS2 s)).
  { intros [s2 c2] [H2 Hc2]. cbn [fst snd] in *. eapply okP_weaken; [apply IHfu; eauto|].
    intros r Hr. eapply PostS_trans2; [|exact Hr]. ext. }
  destruct (starts_with s1 (b "<!ENTITY")) eqn:E1.
  { sbp parse_entity_decl_R2. intros [s2 c2] _ H2. cbv beta iota. apply (Hloop _ H2). }
  destruct (starts_with s1 (b "<!--")) eqn:E2.
  { sbp parse_comment_R2. intros [s2 c2] _ H2. cbv beta iota. apply (Hloop _ H2). }
  destruct (starts_with s1 (b "<?")) eqn:E3.
  { sbp parse_pi_R2. { apply (starts_with_ascii_ahead text _ (b "<?")); eauto. }
    intros [s2 c2] _ H2. cbv beta iota. apply (Hloop _ H2). }
  destruct (starts_with s1 (b "]")) eqn:E4.
  { sb (advance_kw text Hvalid (b "]")). intros s2 _ H2. cbv beta.
    pose proof (skip_spaces_safe text Hvalid s2 ltac:(eauto)) as H3.
    destruct (curr_byte_opt (skip_spaces s2)) as [x|] eqn:Ec; [|apply okP_err].
    destruct (x =? 62) eqn:Ex; [|apply okP_err_at].
    apply curr_byte_opt_some in Ec as (r & Hr & Hlt). assert (x = 62) by lia. subst x.
    sb advance1_safe. intros s4 _ H4. apply okP_ret. apply PostS_intro2; [ext|].
    eapply JS_mono2; [exact Hc1|ext]. }
  destruct (_ || _).
  { pose proof (consume_decl_safe text Hvalid s1 ltac:(eauto)) as Hd.
    destruct (consume_decl text s1) as [s2|e|p|]; cbn in Hd.
    - apply (Hloop (s2, c)). split; auto. cbn [fst snd]. eapply JS_mono2; eauto.
    - apply okP_err_from.
    - contradiction.
    - apply okP_fuel. }
  apply okP_err_at.
Qed.

Lemma parse_doctype_R2 s c : SInv s -> JS2 false s c -> starts_with s dtd_kw = true ->
  okP (parse_doctype text C ev s c) (PostS2 s).
Proof.
  intros Hs Hc Hsw. unfold parse_doctype. cbv zeta.
  assert (Hdtd : contains_b dtd_kw text = true) by (eapply starts_with_contains; eauto).
  sb parse_doctype_start_safe. intros s1 _ (H1 & x & r & Hr & Hlt & Hx & Hsp). cbv beta.
  pose proof (skip_spaces_safe text Hvalid s1 ltac:(eauto)) as H2.
  destruct (skip_bytes_nop byte_is_space s1 x r Hr Hsp) as (Hr2 & Hp2 & He2).
  fold (skip_spaces s1) in *.
  assert (Hadv : safe (advance 1 (skip_spaces s1)) (Ext (skip_spaces s1))).
  { eapply advance1_safe; eauto. lia. }
  match goal with |- okP (if ?c then _ else _) _ => destruct c end.
  - eapply okP_bind; [apply okP_safe; exact Hadv|]. intros s3 H3. apply okP_ret.
    apply PostS_intro2; [ext|]. eapply JS_mono2; [exact Hc|ext].
  - eapply okP_bind; [apply okP_safe; exact Hadv|]. intros s3 H3. cbv beta.
    eapply okP_weaken; [apply parse_doctype_loop_R2; eauto|].
    + eapply JS_mono2; [exact Hc|ext].
    + intros r' Hr'. eapply PostS_trans2; [|exact Hr']. ext.
Qed.

Lemma parse_element_loop_R2 tag_start : forall fu s c, SInv s -> JS2 true s c ->
  okP (parse_element_loop text C ev fu tag_start s c) (PostE2 s).
Proof.
  induction fu; intros s c Hs Hc; cbn [parse_element_loop]; [apply okP_fuel|].
  destruct (at_end s); [apply okP_err|]. cbv zeta.
  pose proof (skip_spaces_safe text Hvalid s Hs) as H1. set (s1 := skip_spaces s) in *.
  sb curr_byte_safe. { apply H1. } intros x _ (r & Hr & Hlt). cbv beta.
  destruct (x =? 47) eqn:E47.
  { assert (x = 47) by lia. subst x.
    sb advance1_safe. intros s2 E2 H2. cbv beta.
    sb consume_byte_safe. intros s3 E3 H3. cbv beta.
    eapply okP_bind; [eapply (ev_step2 (TElementEnd EEmpty _) s s3); [exact Hc|]|].
    { intros p0 Hp0. split; [|exact I]. cbn [TokAt fst snd]. pose proof (Ext_Bd2 _ _ H1). pos. fin_tok. }
    intros c1 Hc1. cbn [tok_post] in Hc1. apply okP_ret. split; cbn [fst snd]; auto. ext. }
  destruct (x =? 62) eqn:E62.
  { assert (x = 62) by lia. subst x.
    sb advance1_safe. intros s2 E2 H2. cbv beta.
    eapply okP_bind; [eapply (ev_step2 (TElementEnd EOpen _) s s2); [exact Hc|]|].
    { intros p0 Hp0. split; [|exact I]. cbn [TokAt fst snd]. pose proof (Ext_Bd2 _ _ H1). pos. fin_tok. }
    intros c1 Hc1. cbn [tok_post] in Hc1. apply okP_ret. split; cbn [fst snd]; auto. ext. }
  eapply okP_bind with (Q' := Ext s1).
  { apply okP_safe. destruct (starts_with_space s); [cbn; eauto|]. eapply consume_spaces_safe; eauto. }
  intros s2 H2. cbv beta.
  sb consume_qname_safe. intros [[prefix local] s3] E3 [H3 _]. cbv beta iota.
  sb consume_eq_safe. intros s4 E4 H4. cbv beta.
  sb consume_quote_safe. intros [q s5] E5 (H5 & Hq & Hlt5). cbv beta iota.
  sb advance_until2_safe. intros s6 _ H6. cbv beta.
  sb slice_back_safe. { apply H5. } { apply H6. } intros value _ ->.
  sb is_xml_str_safe. { apply H5. } { apply H6. } { apply H6. } intros _ _ _.
  sb consume_byte_safe. intros s7 E7 H7. cbv beta.
  eapply okP_bind; [eapply (ev_step2 (TAttribute _ _ _ _ _ _) s s7); [exact Hc|]|].
  { intros p0 Hp0. split.
    - cbn [TokAt fst snd]. pose proof (Ext_Bd2 _ _ H1).
      pose proof (N.le_min_l (s_pos s3 - s_pos s1) qname_len_sat). pos. fin_tok.
    - cbn [AttrTok]. unfold ARel. cbn [fst snd].
      destruct (consume_qname_local text Hvalid s2 prefix local s3 ltac:(eauto) E3) as (L1 & L2 & L3).
      destruct (consume_eq_inv text s3 s4 ltac:(eauto) E4) as (L4 & w1 & w2 & Hw & Hw1 & Hw2).
      destruct (consume_quote_inv text s4 q s5 E5) as (Q1 & [r4 Q2] & Q3).
      destruct (consume_byte_inv text q s6 s7 E7) as ([r6 Q4] & Q5).
      pose proof (SInv_nth text s4 q r4 ltac:(eauto) Q2) as N4.
      pose proof (SInv_nth text s6 q r6 ltac:(eauto) Q4) as N6.
      pose proof (Ext_pos2 _ _ H2) as P2. pose proof (Ext_pos2 _ _ H6) as P6.
      exists q, (s_pos s4). rewrite L1.
      replace (s_pos s7 - 1) with (s_pos s6) by lia.
      split; [exact Q1|]. split; [lia|]. split; [lia|]. split; [lia|]. split; [reflexivity|].
      split; [reflexivity|]. split; [exact N4|]. split; [exact N6|].
      split; [f_equal; lia|]. split; [lia|]. split; [lia|].
      exists w1, w2. auto. }
  intros c1 Hc1. cbn [tok_post] in Hc1.
  eapply okP_weaken; [apply IHfu; eauto|]. intros r' [Hr' Hc']. split; auto. ext.
Qed.

Lemma parse_element_R2 s c : SInv s -> JS2 false s c -> ascii_ahead 1 s ->
  okP (parse_element text C ev s c) (PostE2 s).
Proof.
  intros Hs Hc Ha. unfold parse_element. cbv zeta.
  sb (advance_ascii text Hvalid 1). intros s1 E1 H1. cbv beta.
  sb consume_qname_safe. intros [[prefix local] s2] _ [H2 Hl]. cbv beta iota.
  eapply okP_bind; [eapply (ev_step2 (TElementStart _ _ _) s s2); [exact Hc|]|].
  { intros p0 Hp0. split; [|exact I]. cbn [TokAt]. pose proof (SInv_Bd2 s Hs). pos. fin_tok. }
  intros c1 Hc1. cbn [tok_post] in Hc1.
  eapply okP_weaken; [apply parse_element_loop_R2; eauto|].
  intros r' [Hr' Hc']. split; auto. ext.
Qed.

Lemma parse_cdata_R2 s c : SInv s -> JS2 false s c -> starts_with s (b "<![CDATA[") = true ->
  okP (parse_cdata text C ev s c) (PostS2 s).
Proof.
  intros Hs Hc Hsw. unfold parse_cdata. cbv zeta.
  sb (advance_kw text Hvalid (b "<![CDATA[")). intros s1 E1 H1. cbv beta.
  sb consume_chars_safe. intros [txt s2] _ [H2 _]. cbv beta iota.
  sb skip_string_safe. intros s3 _ H3. cbv beta.
  eapply okP_bind; [eapply (ev_step2 _ s s3); [exact Hc|]|].
  { intros p0 Hp0. split; [|exact I]. cbn [TokAt fst snd]. pose proof (SInv_Bd2 s Hs). pos. fin_tok. }
  intros c1 Hc1. cbn [tok_post] in Hc1. apply okP_ret. apply PostS_intro2; auto. ext.
Qed.

Lemma parse_close_element_R2 s c : SInv s -> JS2 false s c -> ascii_ahead 2 s ->
  okP (parse_close_element text C ev s c) (PostS2 s).
Proof.
  intros Hs Hc Ha. unfold parse_close_element. cbv zeta.
  sb (advance_ascii text Hvalid 2). intros s1 E1 H1. cbv beta.
  sb consume_qname_safe. intros [[prefix local] s2] _ [H2 _]. cbv beta iota.
  pose proof (skip_spaces_safe text Hvalid s2 ltac:(eauto)) as H3.
  sb consume_byte_safe. intros s4 E4 H4. cbv beta.
  eapply okP_bind; [eapply (ev_step2 (TElementEnd (EClose _ _) _) s s4); [exact Hc|]|].
  { intros p0 Hp0. split; [|exact I]. cbn [TokAt fst snd]. pose proof (SInv_Bd2 s Hs). pos. fin_tok. }
  intros c1 Hc1. cbn [tok_post] in Hc1. apply okP_ret. apply PostS_intro2; auto. ext.
Qed.

Lemma parse_text_R2 s c : SInv s -> JS2 false s c -> okP (parse_text text C ev s c) (PostS2 s).
Proof.
  intros Hs Hc. unfold parse_text. cbv zeta.
  sb consume_chars_safe. intros [txt s1] _ [H1 ->]. cbv beta iota.
  destruct (_ && _); [apply okP_err_at|].
  eapply okP_bind; [eapply (ev_step2 _ s s1); [exact Hc|]|].
  { intros p0 Hp0. split; [|exact I]. cbn [TokAt fst snd]. pose proof (SInv_Bd2 s Hs). pos. fin_tok. }
  intros c1 Hc1. cbn [tok_post] in Hc1. apply okP_ret. apply PostS_intro2; auto.
Qed.

Lemma parse_content_loop_R2 : forall fu depth s c, SInv s -> JS2 false s c ->
  okP (parse_content_loop text C ev fu depth s c) (PostS2 s).
Proof.
  induction fu; intros depth s c Hs Hc; cbn [parse_content_loop]; [apply okP_fuel|].
  destruct (at_end s) eqn:Eend. { apply okP_ret. apply PostS_intro2; auto. }
  assert (Hloop : forall d r, PostS2 s r ->
            okP (parse_content_loop text C ev fu d (fst r) (snd r)) (PostS2 s)).
  { intros d [s2 c2] [H2 Hc2]. cbn [fst snd] in *. eapply okP_weaken; [apply IHfu; eauto|].
    intros r Hr. eapply PostS_trans2; [|exact Hr]. ext. }
  sb curr_byte_unchecked_safe. { apply Hs. } intros x _ (r & Hr & Hlt). cbv beta.
  destruct (x =? 60) eqn:E60.
  2:{ sbp parse_text_R2. intros [s2 c2] _ H2. cbv beta iota. apply (Hloop _ _ H2). }
  assert (x = 60) by lia. subst x.
  pose proof (next_byte_safe text s ltac:(apply Hs)) as Hnb.
  destruct (next_byte s) as [y|e|p|]; cbn in Hnb; [|apply okP_err_at|contradiction|apply okP_fuel].
  destruct Hnb as (x' & r' & Hr' & Hlt'). rewrite Hr in Hr'. inversion Hr'; subst x' r. clear Hr'.
  destruct (y =? 33) eqn:E33.
  { destruct (starts_with s (b "<!--")) eqn:E1.
    { sbp parse_comment_R2. intros [s2 c2] _ H2. cbv beta iota. apply (Hloop _ _ H2). }
    destruct (starts_with s (b "<![CDATA[")) eqn:E2.
    { sbp parse_cdata_R2. intros [s2 c2] _ H2. cbv beta iota. apply (Hloop _ _ H2). }
    apply okP_err_at. }
  destruct (y =? 63) eqn:E63.
  { assert (y = 63) by lia. subst y.
    sbp parse_pi_R2. { eapply ascii_ahead_2; eauto. }
    intros [s2 c2] _ H2. cbv beta iota. apply (Hloop _ _ H2). }
  destruct (y =? 47) eqn:E47.
  { assert (y = 47) by lia. subst y.
    sbp parse_close_element_R2. { eapply ascii_ahead_2; eauto. }
    intros [s2 c2] _ H2. cbv beta iota.
    destruct (depth =? 0); [apply okP_ret; exact H2|]. apply (Hloop _ _ H2). }
  sbp parse_element_R2. { eapply ascii_ahead_1; eauto. }
  intros [[open s2] c2] _ H2. cbv beta iota. apply (Hloop _ (s2, c2) H2).
Qed.

(* the form used for the re-entry of the tokenizer on an entity value *)
Lemma parse_content_R2 s c : SInv s -> JS2 false s c -> okP (parse_content text C ev s c) (PostS2 s).
Proof. apply parse_content_loop_R2. Qed.

Lemma bom_R2 : safe (if starts_with (stream_new text) [239; 187; 191]
                    then advance 3 (stream_new text) else Ok (stream_new text))
                   (Ext (stream_new text)).
Proof.
  apply (bom_safe text Hvalid unit (fun _ _ => Ok tt) (fun _ => True) (fun _ => True) (fun _ => True)).
  intros tok c0 _ _. cbn. unfold St. destruct (tok_post tok); exact I.
Qed.

Lemma parse_document_R2 dtd c : JS2 false (stream_new text) c ->
  okP (parse_document text C ev dtd c) (fun c' => exists p, J false p c').
Proof.
  intros Hc. unfold parse_document. cbv zeta.
  eapply okP_bind; [apply okP_safe, bom_R2|]. intros s1 H1. cbv beta.
  eapply okP_bind with (Q' := Ext s1).
  { apply okP_safe. destruct (starts_with_declaration s1) eqn:E; [|cbn; eauto].
    unfold starts_with_declaration in E. apply andb_true_iff in E as [E _].
    eapply parse_declaration_safe; eauto. }
  intros s2 H2. cbv beta.
  sbp parse_misc_R2. { eapply JS_mono2; [exact Hc|ext]. }
  intros [s3 c3] _ [H3 Hc3]. cbn [fst snd] in H3, Hc3. cbv beta iota.
  pose proof (skip_spaces_safe text Hvalid s3 ltac:(eauto)) as H4. set (s4 := skip_spaces s3) in *.
  eapply okP_bind with (Q' := PostS2 s4).
  { destruct (starts_with s4 (b "<!DOCTYPE")) eqn:E;
      [|apply okP_ret; apply PostS_intro2; eauto; eapply JS_mono2; eauto].
    destruct (negb dtd); [apply okP_err|].
    sbp parse_doctype_R2. { eapply JS_mono2; eauto. }
    intros [s5 c5] _ [H5 Hc5]. cbn [fst snd] in H5, Hc5. cbv beta iota.
    eapply okP_weaken; [apply parse_misc_R2; eauto|].
    intros r Hr. eapply PostS_trans2; eauto. }
  intros [s5 c5] [H5 Hc5]. cbn [fst snd] in H5, Hc5. cbv beta iota.
  pose proof (skip_spaces_safe text Hvalid s5 ltac:(eauto)) as H6. set (s6 := skip_spaces s5) in *.
  assert (Hc6 : JS2 false s6 c5) by (eapply JS_mono2; eauto).
  eapply okP_bind with (Q' := PostS2 s6).
  { destruct (curr_byte_opt s6) as [x|] eqn:Ec; [|apply okP_ret; apply PostS_intro2; eauto].
    destruct (x =? 60) eqn:Ex; [|apply okP_ret; apply PostS_intro2; eauto].
    apply curr_byte_opt_some in Ec as (r & Hr & Hlt). assert (x = 60) by lia. subst x.
    sbp parse_element_R2. { eapply ascii_ahead_1; eauto. }
    intros [[open s7] c7] _ [H7 Hc7]. cbn [fst snd] in H7, Hc7. cbv beta iota.
    destruct open; [|apply okP_ret; apply PostS_intro2; auto].
    eapply okP_weaken; [apply parse_content_R2; eauto|].
    intros r' Hr'. eapply PostS_trans2; eauto. }
  intros [s7 c7] [H7 Hc7]. cbn [fst snd] in H7, Hc7. cbv beta iota.
  sbp parse_misc_R2. intros [s8 c8] _ [H8 Hc8]. cbn [fst snd] in H8, Hc8. cbv beta iota.
  destruct (negb (at_end s8)); [apply okP_err_at|]. apply okP_ret.
  destruct Hc8 as [p [Hp Hj]]. exists p. exact Hj.
Qed.

End Tok.
