(* Proofs/ErrShiftEntSide.v -- C14 (entities), part 9: no range straddles the insertion point.
   A unary invariant [U hi base fl nodes0] of the builder on the first text alone: every node and
   attribute range has both ends on one side of P; the elements that are open in the current
   entity level (the innermost [len prefixes - max floor 1] ones, a chain of parent links from
   [c_parent_id] down to [base]) start on the side [hi] of the stream of that level -- so a close
   tag, which is only accepted above the floor, ends an element that started on the same side. *)
From Coq Require Import Ascii String.
From Coq Require Import List Arith NArith Bool Lia ZifyBool ZifyN ZifyNat.
Import ListNotations.
From RX Require Import Generated.
From RX.Model Require Import Base CharClass Stream Tokenizer Doc Builder Parse.
From RX.Proofs Require Import Tactics OptionsParam BorrowLocal BorrowParse RangeArena RangeBuilder RangeShiftBuilder.
Open Scope N_scope.

Lemma rev_last_nth' {A} (l : list A) x r : rev l = x :: r ->
  nth_error l (N.to_nat (len_N l - 1)) = Some x.
Proof.
  intros H. assert (E : l = rev r ++ [x]).
  { rewrite <- (rev_involutive l), H. reflexivity. }
  subst l. unfold len_N. rewrite app_length, rev_length. cbn [length].
  replace (N.to_nat (N.of_nat (length r + 1) - 1)) with (length (rev r)) by (rewrite rev_length; lia).
  rewrite nth_error_app2 by lia. rewrite Nat.sub_diag. reflexivity.
Qed.

Section Side.
Variable P : N.

Definition below (x : N) : bool := x <? P.
Definition side (hi : bool) (x : N) : Prop := below x = negb hi.
Definition SSr (r : range) : Prop := below (fst r) = below (snd r).

Lemma side_SSr hi r : side hi (fst r) -> side hi (snd r) -> SSr r.
Proof. unfold side, SSr. congruence. Qed.

Definition NodeOK (nd : node_data) : Prop :=
  if is_root_kind (nd_kind nd) then fst (nd_range nd) < P /\ P <= snd (nd_range nd) /\ nd_parent nd = None
  else SSr (nd_range nd).

(* what the later operations keep of the nodes that exist *)
Definition Ext (l l' : list node_data) : Prop :=
  forall i nd, nth_N l i = Some nd -> exists nd', nth_N l' i = Some nd' /\
    nd_parent nd' = nd_parent nd /\ is_element_kind (nd_kind nd') = is_element_kind (nd_kind nd) /\
    fst (nd_range nd') = fst (nd_range nd) /\ is_root_kind (nd_kind nd') = is_root_kind (nd_kind nd).

Lemma Ext_refl l : Ext l l.
Proof. intros i nd H. exists nd. auto 6. Qed.
Lemma Ext_trans a b c : Ext a b -> Ext b c -> Ext a c.
Proof.
  intros H1 H2 i nd H. destruct (H1 i nd H) as (nd1 & E1 & A1 & A2 & A3 & A4).
  destruct (H2 i nd1 E1) as (nd2 & E2 & B1 & B2 & B3 & B4). exists nd2. split; [exact E2|]. repeat split; congruence.
Qed.
Lemma Ext_len l l' i nd : Ext l l' -> nth_N l i = Some nd -> i < len_N l'.
Proof. intros H E. destruct (H i nd E) as (nd' & E' & _). eapply nth_N_lt; eassumption. Qed.

(* the chain of the elements that are open in this level *)
Fixpoint AncTo (hi : bool) (nodes : list node_data) (id : N) (n : nat) (base : N) : Prop :=
  match n with
  | O => id = base
  | S n' => exists nd p, nth_N nodes id = Some nd /\ is_element_kind (nd_kind nd) = true /\
              side hi (fst (nd_range nd)) /\ nd_parent nd = Some p /\ AncTo hi nodes p n' base
  end.

Lemma AncTo_ext hi l l' : Ext l l' -> forall n id base, AncTo hi l id n base -> AncTo hi l' id n base.
Proof.
  intros HE. induction n as [|n IH]; intros id base H; cbn [AncTo] in *; [exact H|].
  destruct H as (nd & p & E & K & S & Pa & A). destruct (HE id nd E) as (nd' & E' & B1 & B2 & B3 & B4).
  exists nd', p. split; [exact E'|]. split; [congruence|]. split; [rewrite B3; exact S|]. split; [congruence|]. apply IH. exact A.
Qed.

Record U (hi : bool) (base fl : N) (nodes0 : list node_data) (c : context) : Prop := {
  u_nodes : Forall NodeOK (d_nodes (c_doc c));
  u_attrs : Forall (fun a => SSr (ad_range a)) (d_attrs (c_doc c));
  u_cur : Forall (fun a => SSr (ta_range a)) (c_cur_attrs c);
  u_tn : slice_len (tn_name (c_tag_name c)) <> 0 -> side hi (tn_pos (c_tag_name c));
  u_fl : c_entity_floor c = fl;
  u_len : N.max fl 1 <= len_N (c_parent_prefixes c);
  u_pid : c_parent_id c < len_N (d_nodes (c_doc c));
  u_anc : AncTo hi (d_nodes (c_doc c)) (c_parent_id c) (N.to_nat (len_N (c_parent_prefixes c) - N.max fl 1)) base;
  u_ext : Ext nodes0 (d_nodes (c_doc c));
  u_base : exists nb, nth_N nodes0 base = Some nb /\ (fl = 0 -> is_root_kind (nd_kind nb) = true)
}.

(* ---- the arena operations ---- *)
Lemma AppSpec_Ext nodes pid kind r nodes' : AppSpec nodes pid kind r nodes' -> Ext nodes nodes'.
Proof.
  intros (_ & HF & _) i nd H. destruct (HF i nd H) as (nd' & E & A1 & _ & A3 & A4 & _).
  exists nd'. split; [exact E|]. rewrite A1, A3, A4. auto 6.
Qed.

Lemma AppSpec_OK nodes pid kind r nodes' : AppSpec nodes pid kind r nodes' -> Forall NodeOK nodes ->
  is_root_kind kind = false -> SSr r -> Forall NodeOK nodes'.
Proof.
  intros HA HN Hk Hr. apply Forall_forall. intros nd' Hin. apply In_nth_N in Hin. destruct Hin as [j Hj].
  destruct (AppSpec_back _ _ _ _ _ _ _ HA Hj) as [[_ (nd & E & A1 & _ & A3 & A4 & _)]|[_ (pnd & _ & _ & _ & A3 & A4 & _)]].
  - rewrite Forall_forall in HN. pose proof (HN nd (nth_N_In _ _ _ E)) as H. unfold NodeOK in *. rewrite A1, A3, A4. exact H.
  - unfold NodeOK. rewrite A3, A4, Hk. exact Hr.
Qed.

Lemma core_pw_Ext l l' : core_pw l l' -> (forall i nd nd', nth_N l i = Some nd -> nth_N l' i = Some nd' ->
    is_element_kind (nd_kind nd') = is_element_kind (nd_kind nd) /\ is_root_kind (nd_kind nd') = is_root_kind (nd_kind nd)) -> Ext l l'.
Proof.
  intros [HL HP] Hk i nd H. destruct (HP i nd H) as (nd' & E & A1 & _ & _ & A4 & _).
  exists nd'. split; [exact E|]. split; [exact A1|]. destruct (Hk i nd nd' H E) as [K1 K2].
  split; [exact K1|]. split; [rewrite A4; reflexivity|exact K2].
Qed.

(* ---- a context whose nodes and the rest of what U reads are the same ---- *)
Definition same_u (c c' : context) : Prop :=
  d_nodes (c_doc c') = d_nodes (c_doc c) /\ d_attrs (c_doc c') = d_attrs (c_doc c) /\
  c_cur_attrs c' = c_cur_attrs c /\ c_tag_name c' = c_tag_name c /\ c_entity_floor c' = c_entity_floor c /\
  c_parent_prefixes c' = c_parent_prefixes c /\ c_parent_id c' = c_parent_id c.

Lemma U_same hi base fl nodes0 c c' : U hi base fl nodes0 c -> same_u c c' -> U hi base fl nodes0 c'.
Proof.
  intros [H1 H2 H3 H4 H5 H6 H7 H8 H9 H10] (E1 & E2 & E3 & E4 & E5 & E6 & E7).
  constructor; rewrite ?E1, ?E2, ?E3, ?E4, ?E5, ?E6, ?E7; assumption.
Qed.

Lemma same_all_u c c' : same_all c c' -> same_u c c'.
Proof. intros (A1 & (A2 & _ & A3 & A4 & _) & A5 & A6 & A7). unfold same_u. auto 10. Qed.

(* nodes replaced by an extension that keeps NodeOK *)
Lemma U_nodes hi base fl nodes0 c nodes' : U hi base fl nodes0 c ->
  Ext (d_nodes (c_doc c)) nodes' -> Forall NodeOK nodes' -> len_N (d_nodes (c_doc c)) <= len_N nodes' ->
  U hi base fl nodes0 (set_doc c (set_nodes (c_doc c) nodes')).
Proof.
  intros [H1 H2 H3 H4 H5 H6 H7 H8 H9 H10] HE HN HL.
  constructor; cbn [set_doc set_nodes c_doc d_nodes d_attrs c_cur_attrs c_tag_name c_entity_floor c_parent_prefixes c_parent_id];
    try assumption.
  - lia.
  - eapply AncTo_ext; eassumption.
  - eapply Ext_trans; eassumption.
Qed.

Variable T : bytes.

Lemma append_node_U hi base fl nodes0 kind r c id c' : U hi base fl nodes0 c ->
  is_root_kind kind = false -> SSr r -> append_node kind r c = Ok (id, c') ->
  U hi base fl nodes0 c' /\ id = len_N (d_nodes (c_doc c)) /\
  Ext (d_nodes (c_doc c)) (d_nodes (c_doc c')) /\
  (exists ndn, nth_N (d_nodes (c_doc c')) id = Some ndn /\ nd_parent ndn = Some (c_parent_id c) /\
               nd_kind ndn = kind /\ nd_range ndn = r) /\
  c_parent_prefixes c' = c_parent_prefixes c /\ c_parent_id c' = c_parent_id c /\ c_tag_name c' = c_tag_name c /\
  c_cur_attrs c' = c_cur_attrs c.
Proof.
  intros HU Hk Hr H. destruct (append_node_spec kind r c id c' (u_pid _ _ _ _ _ HU) H) as (nodes' & -> & -> & HA).
  pose proof (AppSpec_Ext _ _ _ _ _ HA) as HE.
  pose proof (AppSpec_OK _ _ _ _ _ HA (u_nodes _ _ _ _ _ HU) Hk Hr) as HN.
  destruct HA as (HL & HF & (pnd & ndn & Hp & Hn & A1 & A2 & A3 & A4 & A5)).
  split.
  - apply (U_same hi base fl nodes0 (set_doc c (set_nodes (c_doc c) nodes'))).
    + apply U_nodes; [exact HU|exact HE|exact HN|lia].
    + unfold same_u. cbn. auto 10.
  - split; [reflexivity|]. split; [exact HE|]. split; [exists ndn; auto|]. cbn. auto.
Qed.

Lemma append_text_U hi base fl nodes0 t r c c' : U hi base fl nodes0 c -> SSr r ->
  append_text t r c = Ok c' -> U hi base fl nodes0 c'.
Proof.
  intros HU Hr H. unfold append_text in H. apply bind_ok in H. destruct H as [c1 [H1 H]]. injection H as <-.
  assert (HU1 : U hi base fl nodes0 c1).
  { destruct (c_after_text c); [|injection H1 as <-; exact HU].
    apply bind_ok in H1. destruct H1 as [[id c2] [H2 H1]]. injection H1 as <-.
    apply (append_node_U hi base fl nodes0 _ r c id c2 HU) in H2; [apply H2|reflexivity|exact Hr]. }
  eapply U_same; [exact HU1|]. unfold same_u. cbn. auto 10.
Qed.

Lemma merge_text_U hi base fl nodes0 c c' : U hi base fl nodes0 c -> merge_text T c = Ok c' -> U hi base fl nodes0 c'.
Proof.
  intros HU H. unfold merge_text in H. cbv zeta in H.
  destruct (rev (d_nodes (c_doc c))) as [|nd l] eqn:Er; [discriminate|].
  destruct (nd_kind nd) eqn:Ek; try discriminate.
  apply bind_ok in H. destruct H as [nodes' [H1 H]]. injection H as <-.
  pose proof (rev_last_nth' _ _ _ Er) as Hlast.
  apply upd_node_spec in H1. destruct H1 as [HL HN].
  set (ix := len_N (d_nodes (c_doc c)) - 1) in *.
  assert (Hix : nth_N (d_nodes (c_doc c)) ix = Some nd).
  { unfold nth_N. destruct (len_N (d_nodes (c_doc c)) <=? ix) eqn:E; [|exact Hlast].
    apply nth_error_In in Hlast. unfold ix, len_N in *. destruct (d_nodes (c_doc c)); [contradiction|cbn [length] in E; lia]. }
  apply U_nodes; [exact HU| | |lia].
  - intros i x Hx. rewrite HN, Hx. destruct (N.eqb_spec i ix); cbn [option_map]; eexists; (split; [reflexivity|]).
    + subst i. assert (x = nd) by congruence. subst x. cbn. rewrite Ek. auto 6.
    + auto 6.
  - apply Forall_forall. intros x' Hin. apply In_nth_N in Hin. destruct Hin as [j Hj]. rewrite HN in Hj.
    pose proof (u_nodes _ _ _ _ _ HU) as HF. rewrite Forall_forall in HF.
    destruct (N.eqb_spec j ix).
    + subst j. rewrite Hix in Hj. cbn [option_map] in Hj. injection Hj as <-.
      pose proof (HF nd (nth_N_In _ _ _ Hix)) as Hnd. unfold NodeOK in *. cbn [nd_set_kind nd_kind nd_range is_root_kind].
      rewrite Ek in Hnd. exact Hnd.
    + apply HF. eapply nth_N_In; eassumption.
Qed.

Lemma reset_after_text_U hi base fl nodes0 c c' : U hi base fl nodes0 c -> reset_after_text T c = Ok c' -> U hi base fl nodes0 c'.
Proof.
  intros HU H. unfold reset_after_text in H. destruct (c_after_text c) as [|x [|y l]].
  - injection H as <-. exact HU.
  - injection H as <-. eapply U_same; [exact HU|]. unfold same_u. cbn. auto 10.
  - apply bind_ok in H. destruct H as [c1 [H1 H]]. injection H as <-.
    eapply U_same; [eapply merge_text_U; eassumption|]. unfold same_u. cbn. auto 10.
Qed.

Lemma process_cdata_U hi base fl nodes0 t r c c' : U hi base fl nodes0 c -> SSr r ->
  process_cdata T t r c = Ok c' -> U hi base fl nodes0 c'.
Proof. intros HU Hr H. unfold process_cdata in H. cbv zeta in H. destruct (mem_b 13 _); eapply append_text_U; eassumption. Qed.


(* ---- attributes ---- *)
Lemma U_cur hi base fl nodes0 c l : U hi base fl nodes0 c -> Forall (fun a => SSr (ta_range a)) l ->
  U hi base fl nodes0 (set_cur_attrs c l).
Proof.
  intros [H1 H2 H3 H4 H5 H6 H7 H8 H9 H10] Hl. constructor; cbn; assumption.
Qed.

Lemma process_attribute_U hi base fl nodes0 r ql el prefix local value c c' : U hi base fl nodes0 c -> SSr r ->
  process_attribute T r ql el prefix local value c = Ok c' -> U hi base fl nodes0 c'.
Proof.
  intros HU Hr H. unfold process_attribute in H.
  apply bind_ok in H. destruct H as [[v c1] [H1 H]]. cbv beta iota zeta in H.
  apply (normalize_attribute_same T) in H1. cbn [snd] in H1. apply same_all_u in H1.
  pose proof (U_same _ _ _ _ _ _ HU H1) as HU1.
  assert (Hpush : forall nm d1, push_ns T nm v (c_doc c1) = Ok d1 -> U hi base fl nodes0 (set_doc c1 d1)).
  { intros nm d1 Hp. apply (push_ns_same T) in Hp. destruct Hp as [E1 E2].
    eapply U_same; [exact HU1|]. unfold same_u. cbn. auto 10. }
  destruct (bytes_eqb (slice_bytes T prefix) xmlns_str).
  - destruct (bytes_eqb _ _); [exfalso; exact (err_from_not_ok _ _ _ _ H)|].
    destruct (bytes_eqb _ _); [exfalso; exact (err_from_not_ok _ _ _ _ H)|].
    destruct (_ && _); [exfalso; exact (err_from_not_ok _ _ _ _ H)|].
    destruct (_ && _); [exfalso; exact (err_from_not_ok _ _ _ _ H)|].
    apply bind_ok in H. destruct H as [ex [_ H]].
    destruct ex; [exfalso; exact (err_from_not_ok _ _ _ _ H)|].
    destruct (negb _); [|injection H as <-; exact HU1].
    apply bind_ok in H. destruct H as [d1 [Hd H]]. injection H as <-. eapply Hpush; exact Hd.
  - match type of H with (if ?b then _ else _) = _ => destruct b end.
    + destruct (bytes_eqb _ _); [exfalso; exact (err_from_not_ok _ _ _ _ H)|].
      destruct (bytes_eqb _ _); [exfalso; exact (err_from_not_ok _ _ _ _ H)|].
      apply bind_ok in H. destruct H as [ex [_ H]].
      destruct ex; [exfalso; exact (err_from_not_ok _ _ _ _ H)|].
      apply bind_ok in H. destruct H as [d1 [Hd H]]. injection H as <-. eapply Hpush; exact Hd.
    + injection H as <-. apply U_cur; [exact HU1|]. apply Forall_app. split; [apply (u_cur _ _ _ _ _ HU1)|].
      constructor; [exact Hr|constructor].
Qed.

Lemma resolve_attributes_U hi base fl nodes0 nss c ar c' : U hi base fl nodes0 c ->
  resolve_attributes T nss c = Ok (ar, c') ->
  U hi base fl nodes0 c' /\ c_tag_name c' = c_tag_name c /\ c_parent_prefixes c' = c_parent_prefixes c /\
  c_parent_id c' = c_parent_id c /\ d_nodes (c_doc c') = d_nodes (c_doc c).
Proof.
  intros HU H. unfold resolve_attributes in H.
  destruct (c_cur_attrs c) as [|a0 l0] eqn:Ec. { injection H as _ <-. auto 6. }
  destruct (_ <=? _); [discriminate|].
  apply bind_ok in H. destruct H as [d1 [H1 H]]. apply bind_ok in H. destruct H as [r0 [_ H]]. injection H as _ <-.
  apply (resolve_attrs_loop_spec T) in H1. destruct H1 as (En & new & Ea & F2).
  split; [|cbn; auto].
  destruct HU as [H1 H2 H3 H4 H5 H6 H7 H8 H9 H10]. constructor; cbn; rewrite ?En; try assumption; [|constructor].
  rewrite Ea. apply Forall_app. split; [exact H2|]. rewrite Ec in H3.
  clear - F2 H3. induction F2 as [|ta ad l new [E _] _ IH]; [constructor|]. inversion H3; subst.
  constructor; [rewrite E; assumption|apply IH; assumption].
Qed.

(* ---- elements ---- *)
Lemma CloseSpec_Ext nodes x e nodes' : CloseSpec nodes x e nodes' -> Ext nodes nodes'.
Proof.
  intros [HL HP] i nd H. destruct (HP i nd H) as (nd' & E & R). exists nd'. split; [exact E|].
  destruct (i =? x); subst nd'; cbn; auto 6.
Qed.

Lemma process_element_U hi base fl nodes0 e r c c' : U hi base fl nodes0 c -> side hi (snd r) ->
  process_element T e r c = Ok c' -> U hi base fl nodes0 c'.
Proof.
  intros HU Hr H. unfold process_element in H.
  destruct (slice_len (tn_name (c_tag_name c)) =? 0) eqn:Etn.
  { destruct e; first [discriminate|exfalso; exact (err_from_not_ok _ _ _ _ H)]. }
  apply bind_ok in H. destruct H as [[nss c1] [H1 H]]. cbv beta iota zeta in H.
  apply (resolve_namespaces_same T) in H1. cbn [snd] in H1. apply same_all_u in H1.
  pose proof (U_same _ _ _ _ _ _ HU H1) as HU1.
  set (c2 := set_ns_start_idx c1 (len_N (d_ns_tree (c_doc c1)))) in *.
  assert (HU2 : U hi base fl nodes0 c2) by (eapply U_same; [exact HU1|]; unfold same_u; cbn; auto 10).
  apply bind_ok in H. destruct H as [[ar c3] [H3 H]]. cbv beta iota in H.
  destruct (resolve_attributes_U _ _ _ _ _ _ _ _ HU2 H3) as (HU3 & Et3 & Ep3 & Ei3 & En3).
  assert (Etag : c_tag_name c3 = c_tag_name c).
  { rewrite Et3. unfold c2. cbn. destruct H1 as (_ & _ & _ & A & _). exact A. }
  assert (Hpos : side hi (tn_pos (c_tag_name c3))).
  { rewrite Etag. apply (u_tn _ _ _ _ _ HU). intros E0. rewrite E0 in Etn. discriminate. }
  assert (Hrng : SSr (tn_pos (c_tag_name c3), snd r)) by (apply (side_SSr hi); assumption).
  destruct e as [|prefix local|].
  - (* open *)
    apply bind_ok in H. destruct H as [idx [_ H]].
    apply bind_ok in H. destruct H as [[id c4] [H4 H]]. cbv beta iota in H. injection H as <-.
    destruct (fun Hk => append_node_U hi base fl nodes0 _ _ c3 id c4 HU3 Hk Hrng H4)
      as (HU4 & Eid & HE4 & (ndn & Hn & Np & Nk & Nr) & Epp & Epid & _ & _); [reflexivity|].
    destruct HU4 as [G1 G2 G3 G4 G5 G6 G7 G8 G9 G10].
    constructor; cbn [set_parent_prefixes set_parent_id c_doc c_cur_attrs c_tag_name c_entity_floor c_parent_prefixes c_parent_id];
      try assumption.
    + rewrite len_N_snoc. lia.
    + eapply nth_N_lt; exact Hn.
    + rewrite len_N_snoc.
      replace (N.to_nat (len_N (c_parent_prefixes c4) + 1 - N.max fl 1)) with (S (N.to_nat (len_N (c_parent_prefixes c4) - N.max fl 1))) by lia.
      cbn [AncTo]. exists ndn, (c_parent_id c3). split; [exact Hn|]. split; [rewrite Nk; reflexivity|].
      split; [rewrite Nr; exact Hpos|]. split; [exact Np|]. rewrite <- Epid. exact G8.
  - (* close *)
    destruct (len_N (c_parent_prefixes c3) <=? c_entity_floor c3) eqn:Efl; [exfalso; exact (err_from_not_ok _ _ _ _ H)|].
    cbv zeta in H.
    apply bind_ok in H. destruct H as [pnd [Hp H]].
    destruct (nth_N (d_nodes (c_doc c3)) (c_parent_id c3)) as [pnd'|] eqn:Epnd; [|discriminate]. injection Hp as ->.
    apply bind_ok in H. destruct H as [pp0 [_ H]].
    apply bind_ok in H. destruct H as [nodes' [Hn H]].
    apply bind_ok in H. destruct H as [u [_ H]].
    destruct (nd_parent pnd) as [id|] eqn:Epar; [|exfalso; exact (err_from_not_ok _ _ _ _ H)].
    cbn [set_awaiting set_doc c_parent_prefixes] in H.
    destruct (removelast (c_parent_prefixes c3)) as [|q0 ql] eqn:Erl; [discriminate|]. injection H as <-.
    apply upd_range_end_spec in Hn. pose proof (CloseSpec_Ext _ _ _ _ Hn) as HE.
    destruct HU3 as [G1 G2 G3 G4 G5 G6 G7 G8 G9 G10].
    assert (Hppne : c_parent_prefixes c3 <> []) by (intros E0; rewrite E0 in Erl; discriminate).
    pose proof (len_N_removelast _ Hppne) as Hlen. rewrite Erl in Hlen.
    rewrite G5 in Efl.
    (* the chain has at least one element *)
    remember (N.to_nat (len_N (c_parent_prefixes c3) - N.max fl 1)) as cnt eqn:Ecnt.
    destruct cnt as [|cnt].
    { (* only possible at the top level with the root as parent: but the root has no parent *)
      exfalso. cbn [AncTo] in G8. assert (Hfl : fl = 0) by lia. destruct G10 as (nb & Hnb & Hroot).
      destruct (G9 _ _ Hnb) as (nb' & Enb' & _ & _ & _ & R4). rewrite <- G8 in Enb'.
      assert (nb' = pnd) by congruence. subst nb'.
      rewrite Forall_forall in G1. pose proof (G1 pnd (nth_N_In _ _ _ Epnd)) as Hok. unfold NodeOK in Hok.
      rewrite R4, (Hroot Hfl) in Hok. destruct Hok as (_ & _ & Hnone). congruence. }
    cbn [AncTo] in G8. destruct G8 as (nd & p & End & Kel & Sst & Ppar & Anc).
    assert (nd = pnd) by congruence. subst nd. assert (p = id) by congruence. subst p.
    constructor; cbn [set_parent_prefixes set_parent_id set_awaiting set_doc set_nodes c_doc d_nodes d_attrs c_cur_attrs c_tag_name
                      c_entity_floor c_parent_prefixes c_parent_id]; try assumption.
    + (* nodes *)
      apply Forall_forall. intros x' Hin. apply In_nth_N in Hin. destruct Hin as [j Hj].
      destruct Hn as [HL HP]. destruct (pw_back _ _ _ _ _ (conj HL HP) Hj) as (x & Ex & Rx).
      rewrite Forall_forall in G1. pose proof (G1 x (nth_N_In _ _ _ Ex)) as Hx.
      destruct (N.eqb_spec j (c_parent_id c3)).
      * subst j x'. assert (x = pnd) by congruence. subst x. unfold NodeOK. cbn [nd_set_range_end nd_kind nd_range].
        replace (is_root_kind (nd_kind pnd)) with false by (destruct (nd_kind pnd); try discriminate; reflexivity).
        apply (side_SSr hi); cbn [fst snd]; assumption.
      * subst x'. exact Hx.
    + lia.
    + (* the new parent *)
      destruct cnt as [|cnt']; cbn [AncTo] in Anc.
      * subst id. destruct G10 as (nb & Hnb & _). destruct Hn as [HL _]. rewrite HL. eapply Ext_len; eassumption.
      * destruct Anc as (nd2 & p2 & E2 & _). destruct Hn as [HL _]. rewrite HL. eapply nth_N_lt; exact E2.
    + replace (N.to_nat (len_N (q0 :: ql) - N.max fl 1)) with cnt by lia.
      eapply AncTo_ext; [exact HE|exact Anc].
    + eapply Ext_trans; eassumption.
  - (* empty *)
    apply bind_ok in H. destruct H as [idx [_ H]].
    apply bind_ok in H. destruct H as [[id c4] [H4 H]]. cbv beta iota in H. injection H as <-.
    destruct (fun Hk => append_node_U hi base fl nodes0 _ _ c3 id c4 HU3 Hk Hrng H4) as (HU4 & _); [reflexivity|].
    eapply U_same; [exact HU4|]. unfold same_u. cbn. auto 10.
Qed.


(* ---- tokens ---- *)
Definition TokS (hi : bool) (tok : Tokenizer.token) : Prop :=
  match tok with
  | TPI _ _ r => SSr r
  | TComment _ r => SSr r
  | TEntityDecl _ _ => True
  | TElementStart _ _ st => side hi st
  | TAttribute r _ _ _ _ _ => SSr r
  | TElementEnd _ r => side hi (snd r)
  | TText _ r => SSr r
  | TCdata _ r => SSr r
  end.

Lemma token_with_U hi base fl nodes0 ptext tok c c' :
  (forall t r, tok = TText t r -> SSr r -> ptext t r c = Ok c' -> U hi base fl nodes0 c') ->
  TokS hi tok -> U hi base fl nodes0 c -> token_with T ptext tok c = Ok c' -> U hi base fl nodes0 c'.
Proof.
  intros Hp Ht HU H. unfold token_with in H.
  destruct tok as [tgt content r | t r | name value | prefix local start | r ql el prefix local value
                  | e r | t r | t r]; cbn [TokS] in Ht.
  - apply bind_ok in H. destruct H as [c1 [H1 H]]. apply bind_ok in H. destruct H as [[id c2] [H2 H]]. injection H as <-.
    eapply append_node_U in H2; [apply H2|eapply reset_after_text_U; eassumption|reflexivity|exact Ht].
  - apply bind_ok in H. destruct H as [c1 [H1 H]]. apply bind_ok in H. destruct H as [[id c2] [H2 H]]. injection H as <-.
    eapply append_node_U in H2; [apply H2|eapply reset_after_text_U; eassumption|reflexivity|exact Ht].
  - injection H as <-. eapply U_same; [exact HU|]. unfold same_u. cbn. auto 10.
  - apply bind_ok in H. destruct H as [c1 [H1 H]].
    destruct (bytes_eqb _ _); [exfalso; exact (err_from_not_ok _ _ _ _ H)|]. injection H as <-.
    pose proof (reset_after_text_U _ _ _ _ _ _ HU H1) as [G1 G2 G3 G4 G5 G6 G7 G8 G9 G10].
    constructor; cbn; try assumption. intros _. exact Ht.
  - eapply process_attribute_U; eassumption.
  - apply bind_ok in H. destruct H as [c1 [H1 H]].
    eapply process_element_U; [eapply reset_after_text_U; eassumption|exact Ht|exact H].
  - eapply Hp; [reflexivity|exact Ht|exact H].
  - eapply process_cdata_U; eassumption.
Qed.

(* ---- text with entity references: a level below ---- *)
Lemma U_enter hi base fl nodes0 c ld : U hi base fl nodes0 c ->
  U false (c_parent_id c) (len_N (c_parent_prefixes c)) (d_nodes (c_doc c))
    (set_entity_floor (set_tag_name (set_ld c ld) tag_name_null) (len_N (c_parent_prefixes c))).
Proof.
  intros [G1 G2 G3 G4 G5 G6 G7 G8 G9 G10].
  constructor; cbn [set_entity_floor set_tag_name set_ld c_doc c_cur_attrs c_tag_name c_entity_floor c_parent_prefixes c_parent_id];
    try assumption.
  - intros Hne. exfalso. apply Hne. reflexivity.
  - reflexivity.
  - lia.
  - replace (N.to_nat _) with O by lia. reflexivity.
  - apply Ext_refl.
  - destruct (nth_N_some _ _ G7) as [nb Hnb]. exists nb. split; [exact Hnb|]. intros E0. exfalso. lia.
Qed.

Lemma U_leave hi base fl nodes0 c1 ld c2 ld' : U hi base fl nodes0 c1 ->
  U false (c_parent_id c1) (len_N (c_parent_prefixes c1)) (d_nodes (c_doc c1)) c2 ->
  len_N (c_parent_prefixes c2) = c_entity_floor c2 ->
  U hi base fl nodes0
    (set_ld (set_entity_floor (set_tag_name c2 (c_tag_name (set_ld c1 ld))) (c_entity_floor (set_ld c1 ld))) ld').
Proof.
  intros [G1 G2 G3 G4 G5 G6 G7 G8 G9 G10] [K1 K2 K3 K4 K5 K6 K7 K8 K9 K10] Hlen.
  rewrite K5 in Hlen.
  constructor; cbn [set_entity_floor set_tag_name set_ld c_doc c_cur_attrs c_tag_name c_entity_floor c_parent_prefixes c_parent_id];
    try assumption.
  - rewrite Hlen. exact G6.
  - rewrite Hlen in *. replace (N.to_nat (len_N (c_parent_prefixes c1) - N.max (len_N (c_parent_prefixes c1)) 1)) with O in K8 by lia.
    cbn [AncTo] in K8. rewrite K8. eapply AncTo_ext; eassumption.
  - eapply Ext_trans; eassumption.
Qed.

Lemma ptext_loop_U hi base fl nodes0 pc r :
  (forall b f n0 es c s' c', U false b f n0 c -> pc es c = Ok (s', c') -> U false b f n0 c') ->
  SSr r ->
  forall fu s buf c buf' c', U hi base fl nodes0 c -> ptext_loop T pc r fu s buf c = Ok (buf', c') -> U hi base fl nodes0 c'.
Proof.
  intros Hpc Hr. induction fu as [|fu IH]; intros s buf c buf' c' HU H; [discriminate|].
  cbn [ptext_loop] in H. destruct (at_end s); [injection H as _ <-; exact HU|].
  apply bind_ok in H. destruct H as [[ch s1] [_ H]]. cbv beta iota in H.
  destruct ch as [x|cp|value].
  - eapply IH; eassumption.
  - eapply IH; eassumption.
  - apply bind_ok in H. destruct H as [c1 [H1 H]].
    assert (HU1 : U hi base fl nodes0 c1).
    { destruct (negb (tb_is_empty buf)); [|injection H1 as <-; exact HU].
      apply bind_ok in H1. destruct H1 as [bs [_ H1]]. eapply append_text_U; eassumption. }
    apply bind_ok in H. destruct H as [ld1 [_ H]]. apply bind_ok in H. destruct H as [ld2 [_ H]]. cbv zeta in H.
    apply bind_ok in H. destruct H as [es [_ H]].
    apply bind_ok in H. destruct H as [[s2 c2] [H2 H]]. cbv beta iota in H.
    cbn [set_ld c_parent_prefixes] in H2.
    apply (Hpc _ _ _ _ _ _ _ (U_enter hi base fl nodes0 c1 ld2 HU1)) in H2.
    destruct (len_N (c_parent_prefixes c2) =? c_entity_floor c2) eqn:El; cbn [negb] in H; [|discriminate].
    eapply IH; [|exact H]. apply U_leave; [exact HU1|exact H2|lia].
Qed.

Lemma process_text_with_U hi base fl nodes0 pc :
  (forall b f n0 es c s' c', U false b f n0 c -> pc es c = Ok (s', c') -> U false b f n0 c') ->
  forall t r c c', U hi base fl nodes0 c -> SSr r -> process_text_with T pc t r c = Ok c' -> U hi base fl nodes0 c'.
Proof.
  intros Hpc t r c c' HU Hr H. rewrite process_text_with_eq in H. cbv zeta in H.
  destruct (negb _); [eapply append_text_U; eassumption|].
  apply bind_ok in H. destruct H as [s0 [_ H]]. apply bind_ok in H. destruct H as [[buf c1] [H1 H]]. cbv beta iota in H.
  apply (ptext_loop_U hi base fl nodes0 pc r Hpc Hr) in H1; [|exact HU].
  destruct (negb _); [|injection H as <-; exact H1].
  apply bind_ok in H. destruct H as [bs [_ H]]. eapply append_text_U; eassumption.
Qed.

End Side.
