(* TruncDtdMain.v -- C08, the truncation clause for all accepted documents (DOCTYPE and
   entities included): no prefix that stops before the end of the root element is accepted. *)
From Coq Require Import Ascii String.
From Coq Require Import PeanoNat Lia ZifyBool ZifyN ZifyNat.
From RX Require Import Generated.
From RX.Model Require Import Base CharClass Stream Tokenizer Doc Builder Parse.
From RX.Proofs Require Import Tactics OptionsParam OptionsBuild OptionsMain
  BudgetStream BudgetTok BudgetBuild BudgetNoEnt NoPanicUtf8 NoPanicFinal TermFinal
  TruncStream TruncTok TruncBuild TruncMain TruncDtdTok TruncDtdBuild.

(** * The sub-parsers that deliver no text token *)

Section NoText.
Variable text : bytes.
Variable C : Type.
Variable ev : Tokenizer.token -> C -> res C.
Variable I : C -> Prop.
Hypothesis HIr : forall tok c c', is_txt tok = false -> ev tok c = Ok c' -> I c -> I c'.

Ltac fwr := match goal with
  | H : ev ?tok ?c = Ok ?c' |- _ => apply (HIr tok c c' eq_refl) in H; [|assumption] end.
Ltac r0 := repeat fwr.

Lemma r_parse_comment s c s' c' : parse_comment text C ev s c = Ok (s', c') -> I c -> I c'.
Proof. unfold parse_comment. intros H Hi. usteps; r0; assumption. Qed.

Lemma r_parse_pi s c s' c' : parse_pi text C ev s c = Ok (s', c') -> I c -> I c'.
Proof. unfold parse_pi. intros H Hi. usteps; r0; assumption. Qed.

Ltac r1 := repeat first [fwr | fw r_parse_comment | fw r_parse_pi].

Lemma r_parse_misc_loop fuel : forall s c s' c',
  parse_misc_loop text C ev fuel s c = Ok (s', c') -> I c -> I c'.
Proof.
  induction fuel; intros s c s' c' H Hi; [discriminate|].
  cbn [parse_misc_loop] in H. usteps; r1; try assumption; eapply IHfuel; eassumption.
Qed.

Lemma r_parse_misc s c s' c' : parse_misc text C ev s c = Ok (s', c') -> I c -> I c'.
Proof. unfold parse_misc. apply r_parse_misc_loop. Qed.

Lemma r_parse_entity_decl s c s' c' : parse_entity_decl text C ev s c = Ok (s', c') -> I c -> I c'.
Proof. unfold parse_entity_decl. intros H Hi. usteps; r0; assumption. Qed.

Ltac r2 := repeat first [fwr | fw r_parse_comment | fw r_parse_pi | fw r_parse_misc
                        | fw r_parse_entity_decl].

Lemma r_parse_doctype_loop fuel : forall st s c s' c',
  parse_doctype_loop text C ev fuel st s c = Ok (s', c') -> I c -> I c'.
Proof.
  induction fuel; intros st s c s' c' H Hi; [discriminate|].
  cbn [parse_doctype_loop] in H. usteps; r2; try assumption; eapply IHfuel; eassumption.
Qed.

Lemma r_parse_doctype s c s' c' : parse_doctype text C ev s c = Ok (s', c') -> I c -> I c'.
Proof.
  unfold parse_doctype. intros H Hi. usteps; r2; try assumption.
  eapply r_parse_doctype_loop; eassumption.
Qed.

Lemma r_parse_element_loop fuel : forall ts s c o s' c',
  parse_element_loop text C ev fuel ts s c = Ok (o, s', c') -> I c -> I c'.
Proof.
  induction fuel; intros ts s c o s' c' H Hi; [discriminate|].
  cbn [parse_element_loop] in H. usteps; r0; try assumption; eapply IHfuel; eassumption.
Qed.

Lemma r_parse_element s c o s' c' : parse_element text C ev s c = Ok (o, s', c') -> I c -> I c'.
Proof.
  unfold parse_element. intros H Hi. usteps; r0. eapply r_parse_element_loop; eassumption.
Qed.

End NoText.

(** * The builder with the counter through the whole document *)

Lemma inroot_estep e r st : inroot st -> inroot (estep e r st).
Proof.
  unfold inroot. intros Hin. destruct e; cbn [estep].
  - cbn [cs_root cs_depth]. intros Hn. lia.
  - cbn [cs_root cs_depth]. destruct (cs_root st) eqn:E; [discriminate|]. specialize (Hin eq_refl).
    destruct (cs_depth st =? 1) eqn:E1; [discriminate|]. intros _. lia.
  - destruct (cs_root st) eqn:E; [rewrite E; discriminate|]. specialize (Hin eq_refl).
    replace (cs_depth st =? 0) with false by lia. rewrite E. intros _. exact Hin.
Qed.

Section Run.
Variable t : bytes.

Notation evp := (TruncMain.evp t).

(* after an open start tag the counter is at depth >= 1 *)
Lemma open_depth_loop fuel : forall ts s x s' x',
  parse_element_loop t (context * cst) evp fuel ts s x = Ok (true, s', x') -> 1 <= cs_depth (snd x').
Proof.
  induction fuel; intros ts s x s' x' H; [discriminate|].
  cbn [parse_element_loop] in H. usteps; try (eapply IHfuel; eassumption).
  unfold TruncMain.evp in Hb1. usteps. cbn [snd cstep estep cs_depth]. lia.
Qed.

Lemma open_depth s x s' x' : parse_element t (context * cst) evp s x = Ok (true, s', x') ->
  1 <= cs_depth (snd x').
Proof. unfold parse_element. intros H. usteps. eapply open_depth_loop; eassumption. Qed.

Definition I0 (x : context * cst) : Prop := Jg (fst x) (snd x).
Definition I1 (x : context * cst) : Prop := Jg (fst x) (snd x) /\ inroot (snd x).

Lemma HI0 : forall tok x x', is_txt tok = false -> evp tok x = Ok x' -> I0 x -> I0 x'.
Proof.
  intros tok [c st] [c' st'] Ht H HJ. unfold TruncMain.evp, I0 in *. cbn [fst snd] in *.
  apply bind_ok in H. destruct H as [c2 [Hk H]]. inversion H; subst.
  eapply Jg_token_top; eauto. intros E. congruence.
Qed.

Lemma HI1 : forall tok x x', evp tok x = Ok x' -> I1 x -> I1 x'.
Proof.
  intros tok [c st] [c' st'] H [HJ Hin]. unfold TruncMain.evp, I1 in *. cbn [fst snd] in *.
  apply bind_ok in H. destruct H as [c2 [Hk H]]. inversion H; subst. split.
  - eapply Jg_token_top; eauto.
  - destruct tok; cbn [cstep]; try exact Hin. apply inroot_estep. exact Hin.
Qed.

Lemma run_invariant_d dtd x x' : parse_document t (context * cst) evp dtd x = Ok x' -> I0 x -> I0 x'.
Proof.
  unfold parse_document. intros H Hi. usteps;
  repeat first
    [ fw (r_parse_misc t _ evp I0 HI0) | fw (r_parse_doctype t _ evp I0 HI0)
    | match goal with
      | He : parse_element _ _ _ _ _ = Ok (true, _, _), Hc : parse_content _ _ _ _ ?y = Ok (_, ?y') |- _ =>
        let Hd := fresh "Hd" in
        pose proof (open_depth _ _ _ _ He) as Hd;
        apply (r_parse_element t _ evp I0 HI0) in He; [|assumption];
        apply (u_parse_content t _ evp I1 HI1) in Hc;
          [ destruct Hc as [Hc _] | split; [exact He | intros _; exact Hd] ]
      end
    | fw (r_parse_element t _ evp I0 HI0) ];
  assumption.
Qed.

End Run.

(** * The end of a run *)

Lemma final_root_g c st d : fin c = Ok d -> Jg c st -> cs_root st = Some (root_element_end d).
Proof.
  intros H (stk & _ & E4 & (Hd & _ & _ & _ & Hr)).
  destruct (fin_facts _ _ H) as (-> & Hlen & i & nd & Hi & He).
  assert (stk = []) by (destruct stk; [reflexivity|cbn [length] in E4; lia]). subst stk.
  destruct Hr as [(Hn & _)|(j & ndj & (Hj & Hej & Hb) & Hp & Hcase)].
  { exfalso. unfold nth_N in Hi. destruct (_ <=? _); [discriminate|].
    specialize (Hn _ _ Hi). unfold is_el in Hn. congruence. }
  destruct Hcase as [(_ & Hne & _)|(Hroot & _)]; [congruence|]. rewrite Hroot. f_equal.
  unfold root_element_end.
  assert (Hf : forall l k, (forall j' nd', (j' < k)%nat -> nth_error l j' = Some nd' -> is_el nd' = false) ->
              nth_error l k = Some ndj ->
              find (fun nd0 => match nd_parent nd0 with Some 0 => is_element_kind (nd_kind nd0) | _ => false end) l
              = Some ndj).
  { induction l as [|y l IHl]; intros k Hk Hn; [destruct k; discriminate|].
    destruct k as [|k]; cbn [nth_error find] in *.
    - inversion Hn; subst y. rewrite Hp. unfold is_el in Hej. rewrite Hej. reflexivity.
    - assert (Hy : is_el y = false) by (apply (Hk 0%nat y); [lia|reflexivity]).
      unfold is_el in Hy. rewrite Hy.
      assert (IH' : find (fun nd0 => match nd_parent nd0 with Some 0 => is_element_kind (nd_kind nd0) | _ => false end) l
                    = Some ndj).
      { apply (IHl k); [|exact Hn]. intros j' nd' Hj' Hn'. apply (Hk (S j') nd'); [lia|exact Hn']. }
      destruct (nd_parent y) as [[|?]|]; exact IH'. }
  rewrite (Hf _ _ Hb Hj). reflexivity.
Qed.

Lemma init_Jg t o c : init_context t o = Ok c -> Jg c {| cs_depth := 0; cs_root := None |}.
Proof.
  intros H. destruct (init_Jc _ _ _ H) as (stk & _ & _ & E3 & E4 & HJ). exists stk. auto.
Qed.

(* the recorded end of the root is a position of the run *)
Lemma counter_root_le t dtd st st' : parse_document t cst evd dtd st = Ok st' -> cs_root st = None ->
  forall e, cs_root st' = Some e -> e <= tlen t.
Proof.
  intros H Hr.
  destruct (tp_parse_document t cst evd (fun q s => forall e, cs_root s = Some e -> e <= q))
    with (dtd := dtd) (c := st) (c' := st') as (q & Hq & Hroot); try assumption.
  - intros q q' x Hqq H2 e He. specialize (H2 e He). lia.
  - intros tok r s1 s2 q Htr Hev H2 Hq Hlt e He. rewrite evd_cstep in Hev. inversion Hev; subst s2.
    destruct tok; cbn [cstep tok_range] in *; try (inversion Htr; subst; specialize (H2 e He); lia).
    inversion Htr; subst r0. destruct (estep_root _ _ _ _ He) as [Ho| ->]; [specialize (H2 e Ho); lia|lia].
  - intros tok s1 s2 q Htr Hd Hev H2 e He. rewrite evd_cstep in Hev. inversion Hev; subst s2.
    destruct tok; cbn [cstep tok_range] in *; try discriminate; eauto.
  - intros nm v s1 s2 q Hev H2 e He. rewrite evd_cstep in Hev. inversion Hev; subst s2. cbn [cstep] in He. eauto.
  - intros e He. congruence.
  - intros e He. specialize (Hroot e He). lia.
Qed.

(** * The theorem *)

Section Main.
Variable text : bytes.
Variable opt : options.
Variable n : N.
Hypothesis Hv : valid_utf8_b text = true.
Hypothesis Hvp : valid_utf8_b (firstn_N n text) = true.

Lemma truncation_core_d d d' : parse text opt = Ok d -> n < root_element_end d ->
  parse (firstn_N n text) opt = Ok d' -> False.
Proof.
  intros Hfull Hlt Htr. rewrite parse_prun in Hfull, Htr. unfold prun in *.
  set (dtd := allow_dtd opt) in *.
  apply bind_ok in Hfull. destruct Hfull as [c0 [Hi1 H1]].
  apply bind_ok in H1. destruct H1 as [c1 [Hpd1 Hfin1]].
  apply bind_ok in Htr. destruct Htr as [c0' [Hi2 H2]].
  apply bind_ok in H2. destruct H2 as [c2 [Hpd2 Hfin2]].
  set (st0 := {| cs_depth := 0; cs_root := None |}).
  (* the full run *)
  destruct (run_product text dtd c0 st0 _ Hpd1) as [st1 Hp1].
  pose proof (run_invariant_d text dtd _ _ Hp1 (init_Jg _ _ _ Hi1)) as HJ1. unfold I0 in HJ1. cbn [fst snd] in HJ1.
  pose proof (run_counter text dtd _ _ _ _ Hp1) as Hc1.
  pose proof (final_root_g _ _ _ Hfin1 HJ1) as Hr1.
  pose proof (counter_root_le _ _ _ _ Hc1 eq_refl _ Hr1) as Hb1.
  (* the truncated run *)
  destruct (run_product _ dtd c0' st0 _ Hpd2) as [st2 Hp2].
  pose proof (run_invariant_d _ dtd _ _ Hp2 (init_Jg _ _ _ Hi2)) as HJ2. unfold I0 in HJ2. cbn [fst snd] in HJ2.
  pose proof (run_counter _ dtd _ _ _ _ Hp2) as Hc2.
  pose proof (final_root_g _ _ _ Hfin2 HJ2) as Hr2.
  pose proof (counter_root_le _ _ _ _ Hc2 eq_refl _ Hr2) as Hb2.
  assert (Hn : n <= tlen text) by lia.
  assert (Hbn : is_boundary text n = true) by (apply prefix_boundary; assumption).
  (* the counter of the full run passes through the final state of the truncated one *)
  assert (Hign : forall tok c, is_end_tok tok = false -> evd tok c = Ok c).
  { intros tok c Ht. destruct tok; cbn in Ht |- *; try discriminate; reflexivity. }
  pose proof (X_document_d text n Hn Hbn cst evd Hign dtd st0 st2 Hc2
                (fun st => cs_root st = Some (root_element_end d'))) as HX.
  assert (Hpres : pres cst evd (fun st => cs_root st = Some (root_element_end d'))).
  { intros tok a a' Ha Hr. eapply evd_root; eauto. }
  specialize (HX Hpres Hr2 st1 Hc1). cbv beta in HX. rewrite Hr1 in HX. inversion HX as [E].
  assert (Etl : tlen (firstn_N n text) = n) by (apply tlen_p; assumption).
  lia.
Qed.

End Main.

Theorem truncation_not_ok : forall text opt d n,
  valid_utf8_b text = true -> parse text opt = Ok d -> n < root_element_end d ->
  valid_utf8_b (firstn_N n text) = true ->
  forall d', parse (firstn_N n text) opt <> Ok d'.
Proof.
  intros text opt d n Hv Hp Hn Hvp d' H. exact (truncation_core_d text opt n Hv Hvp d d' Hp Hn H).
Qed.
Print Assumptions truncation_not_ok.

Theorem truncation_rejected : forall text opt d n,
  nodes_limit opt <= u32_max ->
  valid_utf8_b text = true -> parse text opt = Ok d -> n < root_element_end d ->
  valid_utf8_b (firstn_N n text) = true ->
  exists e, parse (firstn_N n text) opt = Err e.
Proof.
  intros text opt d n Hlim Hv Hp Hn Hvp.
  destruct (parse (firstn_N n text) opt) as [d'|e|pn|] eqn:E.
  - exfalso. exact (truncation_not_ok text opt d n Hv Hp Hn Hvp d' E).
  - eauto.
  - exfalso. exact (parse_no_panic _ _ _ Hvp Hlim E).
  - exfalso. exact (parse_terminates _ _ Hvp E).
Qed.
Print Assumptions truncation_rejected.
