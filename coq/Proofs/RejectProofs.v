(* Proofs/RejectProofs.v -- property C08 "ill-formed documents are rejected", as local theorems
   of the form "if the function returns Ok, the well-formedness constraint holds" (the rejection
   is the contrapositive).  The tokenizer is observed through a recording callback [rec_ev]. *)
From Coq Require Import String.
From Coq Require Import List Arith NArith Bool Lia ZifyBool ZifyN ZifyNat.
Import ListNotations.
From RX Require Import Generated.
From RX.Model Require Import Base CharClass Stream Tokenizer Doc Builder Parse.
From RX.Proofs Require Import Tactics.
Open Scope N_scope.

Notation token := Tokenizer.token.
Notation stream := Stream.stream.

(* the token recorder *)
Definition rec_ev (tok : token) (acc : list token) : res (list token) := Ok (acc ++ [tok]).

(* ------------------------------------------------------------------------------------------ *)
(* Generic helpers                                                                              *)

Ltac ib H x Hx := apply bind_ok in H; destruct H as (x & Hx & H).

Lemma err_at_ok {A} text s mk (x : A) : err_at text s mk = Ok x -> False.
Proof. unfold err_at. destruct (gen_text_pos text s); cbn; discriminate. Qed.

Lemma err_from_ok {A} text p mk (x : A) : err_from text p mk = Ok x -> False.
Proof. unfold err_from. destruct (gen_text_pos_from text p); cbn; discriminate. Qed.

Ltac noerr :=
  exfalso;
  match goal with
  | H : err_at _ _ _ = Ok _ |- _ => exact (err_at_ok _ _ _ _ H)
  | H : err_from _ _ _ = Ok _ |- _ => exact (err_from_ok _ _ _ _ H)
  | H : Err _ = Ok _ |- _ => discriminate H
  | H : Panic _ = Ok _ |- _ => discriminate H
  | H : OutOfFuel = Ok _ |- _ => discriminate H
  end.

Lemma rec_ev_ok tok acc acc' : rec_ev tok acc = Ok acc' -> acc' = acc ++ [tok].
Proof. unfold rec_ev. intros H; inversion H; reflexivity. Qed.

(* ------------------------------------------------------------------------------------------ *)
(* Lexical constraints                                                                          *)

(* [15] Comment: no "--" inside, and the body does not end with '-' *)
Theorem ok_comment_body : forall text s acc s' acc',
  parse_comment text (list token) rec_ev s acc = Ok (s', acc') ->
  exists txt r, acc' = acc ++ [TComment txt r] /\
    contains_b (b "--") (slice_bytes text txt) = false /\
    ends_with_byte 45 (slice_bytes text txt) = false.
Proof.
  intros text s acc s' acc' H. unfold parse_comment in H.
  ib H s1 H1. ib H p H2. destruct p as [txt s2]. ib H s3 H3.
  destruct (contains_b (b "--") (slice_bytes text txt)) eqn:E1; [noerr|].
  destruct (ends_with_byte 45 (slice_bytes text txt)) eqn:E2; [noerr|].
  ib H c Hc. apply rec_ev_ok in Hc. inversion H; subst. eauto.
Qed.
Print Assumptions ok_comment_body.

Lemma contains_cdata_end_mem l : contains_b [93; 93; 62] l = true -> mem_b 62 l = true.
Proof.
  induction l as [|x l IH]; cbn [contains_b]; [discriminate|].
  intros H. apply orb_true_iff in H. destruct H as [H|H].
  - destruct l as [|y [|z l']]; cbn [prefix_b] in H; try (rewrite ?andb_false_r in H; discriminate).
    cbn [mem_b]. assert (z = 62) by lia. subst. rewrite N.eqb_refl. rewrite !orb_true_r. reflexivity.
  - cbn [mem_b]. rewrite (IH H). apply orb_true_r.
Qed.

(* [14] CharData: no "]]>" in character data *)
Theorem ok_text_no_cdata_end : forall text s acc s' acc',
  parse_text text (list token) rec_ev s acc = Ok (s', acc') ->
  exists txt r, acc' = acc ++ [TText txt r] /\
    contains_b (b "]]>") (slice_bytes text txt) = false.
Proof.
  intros text s acc s' acc' H. unfold parse_text in H.
  ib H p H1. destruct p as [txt s1].
  destruct (contains_b (b "]]>") (slice_bytes text txt)) eqn:E.
  - change (b "]]>") with [93; 93; 62] in E. rewrite (contains_cdata_end_mem _ E) in H.
    cbn [andb] in H. noerr.
  - rewrite andb_false_r in H. ib H c Hc. apply rec_ev_ok in Hc. inversion H; subst. eauto.
Qed.
Print Assumptions ok_text_no_cdata_end.

(* [17] PITarget: a PI whose target is "xml" followed by a space is the XML declaration,
   refused everywhere parse_pi is used *)
Theorem ok_pi_not_declaration : forall text s acc s' acc',
  parse_pi text (list token) rec_ev s acc = Ok (s', acc') ->
  starts_with s (b "<?xml ") = false.
Proof.
  intros text s acc s' acc' H. unfold parse_pi in H.
  destruct (starts_with s (b "<?xml ")); [noerr|reflexivity].
Qed.
Print Assumptions ok_pi_not_declaration.

(* ------------------------------------------------------------------------------------------ *)
(* Builder constraints                                                                          *)

(* what resolve_namespaces / resolve_attributes leave untouched *)
Definition ctx_same (c c1 : context) : Prop :=
  c_parent_id c1 = c_parent_id c /\ c_parent_prefixes c1 = c_parent_prefixes c /\
  c_entity_floor c1 = c_entity_floor c /\ d_nodes (c_doc c1) = d_nodes (c_doc c).

Lemma ctx_same_trans c1 c2 c3 : ctx_same c1 c2 -> ctx_same c2 c3 -> ctx_same c1 c3.
Proof. unfold ctx_same. intros (A & B & C & D) (E & F & G & H). repeat split; congruence. Qed.

Lemma push_ref_nodes i d d' : push_ref i d = Ok d' -> d_nodes d' = d_nodes d.
Proof. unfold push_ref. destruct (nth_N _ _); intros H; inversion H; reflexivity. Qed.

Lemma resolve_ns_loop_nodes text st : forall is d d',
  resolve_ns_loop text st is d = Ok d' -> d_nodes d' = d_nodes d.
Proof.
  induction is as [|i is IH]; intros d d' H; cbn [resolve_ns_loop] in H.
  - inversion H; reflexivity.
  - ib H v Hv. ib H nm Hn. ib H exb He. ib H d1 Hd. rewrite (IH _ _ H).
    destruct exb; [inversion Hd; reflexivity | eapply push_ref_nodes; eauto].
Qed.

Lemma resolve_namespaces_same text c r c1 :
  resolve_namespaces text c = Ok (r, c1) -> ctx_same c c1.
Proof.
  unfold resolve_namespaces. intros H. ib H pnd Hp.
  destruct (nd_kind pnd).
  2:{ destruct (c_ns_start_idx c =? len_N (d_ns_tree (c_doc c))).
      - inversion H; subst. repeat split.
      - destruct nss as [pa pe]. ib H d Hd. ib H r0 Hr. inversion H; subst.
        repeat split. cbn. eapply resolve_ns_loop_nodes; eauto. }
  all: ib H r0 Hr; inversion H; subst; repeat split.
Qed.

Lemma resolve_attrs_loop_nodes text nss st : forall l d d',
  resolve_attrs_loop text nss st l d = Ok d' -> d_nodes d' = d_nodes d.
Proof.
  induction l as [|a l IH]; intros d d' H; cbn [resolve_attrs_loop] in H.
  - inversion H; reflexivity.
  - cbv zeta in H. ib H ns_idx Hi. ib H nm Hn. ib H dup Hd.
    destruct dup; [noerr|]. rewrite (IH _ _ H). reflexivity.
Qed.

Lemma resolve_attributes_same text nss c r c1 :
  resolve_attributes text nss c = Ok (r, c1) -> ctx_same c c1.
Proof.
  unfold resolve_attributes. intros H.
  destruct (c_cur_attrs c) eqn:E; [inversion H; subst; repeat split|].
  cbv zeta in H.
  destruct (u32_max <=? len_N (d_attrs (c_doc c)) + len_N (t :: l)); [noerr|].
  ib H d Hd. ib H r0 Hr. inversion H; subst. repeat split. cbn.
  eapply resolve_attrs_loop_nodes; eauto.
Qed.

(* WFC: Element Type Match -- an end tag is accepted only if its name is the name of the
   innermost open element, and an entity cannot close an element opened outside it *)
Theorem ok_tags_balanced : forall text prefix local r c c',
  process_element text (EClose prefix local) r c = Ok c' ->
  exists pnd ppref,
    nth_N (d_nodes (c_doc c)) (c_parent_id c) = Some pnd /\
    hd_error (rev (c_parent_prefixes c)) = Some ppref /\
    match nd_kind pnd with
    | KElement _ plocal _ _ =>
        bytes_eqb (slice_bytes text prefix) (slice_bytes text ppref) = true /\
        bytes_eqb (slice_bytes text local) (slice_bytes text plocal) = true
    | _ => True
    end /\
    c_entity_floor c < len_N (c_parent_prefixes c).
Proof.
  intros text prefix local r c c' H. unfold process_element in H.
  destruct (slice_len (tn_name (c_tag_name c)) =? 0); [noerr|].
  ib H p1 H1. destruct p1 as [nss c1]. ib H p2 H2. destruct p2 as [attrs c3].
  apply resolve_namespaces_same in H1. apply resolve_attributes_same in H2.
  assert (S : ctx_same c c3).
  { eapply ctx_same_trans; [exact H1|]. eapply ctx_same_trans; [|exact H2]. repeat split. }
  clear H1 H2. destruct S as (S1 & S2 & S3 & S4).
  cbv zeta in H. rewrite S1, S2, S3, S4 in H.
  destruct (len_N (c_parent_prefixes c) <=? c_entity_floor c) eqn:EF; [noerr|].
  ib H pnd Hp. destruct (nth_N (d_nodes (c_doc c)) (c_parent_id c)) eqn:En; [|discriminate].
  inversion Hp; subst n. clear Hp.
  ib H ppref Hpp. destruct (rev (c_parent_prefixes c)) eqn:Er; [discriminate|].
  inversion Hpp; subst s. clear Hpp.
  ib H nodes Hn. ib H u Hu.
  exists pnd, ppref. split; [reflexivity|]. split; [reflexivity|]. split; [|lia].
  destruct (nd_kind pnd); auto.
  destruct (negb (bytes_eqb (slice_bytes text prefix) (slice_bytes text ppref))
            || negb (bytes_eqb (slice_bytes text local) (slice_bytes text local0))) eqn:EE; [noerr|].
  apply orb_false_iff in EE. destruct EE as [A B]. apply negb_false_iff in A, B. auto.
Qed.
Print Assumptions ok_tags_balanced.

(* NSC: Reserved Prefixes and Namespace Names (Namespaces in XML 1.0, section 3).
   [v] is the normalised attribute value. *)
Theorem ok_reserved_names : forall text r qn eq prefix local value c c',
  process_attribute text r qn eq prefix local value c = Ok c' ->
  exists v c1, normalize_attribute text value c = Ok (v, c1) /\
  let pb := slice_bytes text prefix in
  let lb := slice_bytes text local in
  let vb := storage_bytes text v in
  (* xmlns:p='v' *)
  (bytes_eqb pb xmlns_str = true ->
     bytes_eqb lb xmlns_str = false /\                              (* xmlns:xmlns refused *)
     bytes_eqb vb ns_xmlns_uri = false /\                           (* nothing bound to the xmlns URI *)
     bytes_eqb lb ns_xml_prefix = bytes_eqb vb ns_xml_uri) /\       (* p = xml <-> v = the xml URI *)
  (* xmlns='v' *)
  (bytes_eqb pb xmlns_str = false -> slice_len prefix = 0 -> bytes_eqb lb xmlns_str = true ->
     bytes_eqb vb ns_xml_uri = false /\ bytes_eqb vb ns_xmlns_uri = false).
Proof.
  intros text r qn eq prefix local value c c' H. unfold process_attribute in H.
  ib H p Hn. destruct p as [v c1]. exists v, c1. split; [exact Hn|].
  cbv zeta in *.
  destruct (bytes_eqb (slice_bytes text prefix) xmlns_str) eqn:Ep.
  - destruct (bytes_eqb (slice_bytes text local) xmlns_str) eqn:El; [noerr|].
    destruct (bytes_eqb (storage_bytes text v) ns_xmlns_uri) eqn:Ev; [noerr|].
    destruct (bytes_eqb (slice_bytes text local) ns_xml_prefix) eqn:Ex,
             (bytes_eqb (storage_bytes text v) ns_xml_uri) eqn:Eu; cbn [negb andb] in H; try noerr;
      (split; [auto | intros; discriminate]).
  - split; [intros; discriminate|]. intros _ E0 El. rewrite El, E0 in H. change ((0 =? 0) && true) with true in H. cbv iota in H.
    destruct (bytes_eqb (storage_bytes text v) ns_xml_uri) eqn:Eu; [noerr|].
    destruct (bytes_eqb (storage_bytes text v) ns_xmlns_uri) eqn:Ev; [noerr|]. auto.
Qed.
Print Assumptions ok_reserved_names.

(* NSC: an element's prefix is never "xmlns" *)
Theorem ok_element_prefix_not_xmlns : forall text ptext prefix local start c c',
  token_with text ptext (TElementStart prefix local start) c = Ok c' ->
  bytes_eqb (slice_bytes text prefix) xmlns_str = false.
Proof.
  intros text ptext prefix local start c c' H. cbn [token_with] in H. ib H c1 H1.
  destruct (bytes_eqb (slice_bytes text prefix) xmlns_str); [noerr|reflexivity].
Qed.
Print Assumptions ok_element_prefix_not_xmlns.

(* the first declaration of an entity is the binding one (XML 1.0, 4.2) *)
Theorem find_entity_first : forall text es name e, find_entity text es name = Some e ->
  exists pre post, es = pre ++ e :: post /\
    bytes_eqb (slice_bytes text (en_name e)) name = true /\
    forall e', In e' pre -> bytes_eqb (slice_bytes text (en_name e')) name = false.
Proof.
  intros text. induction es as [|e0 es IH]; cbn [find_entity]; intros name e H; [discriminate|].
  destruct (bytes_eqb (slice_bytes text (en_name e0)) name) eqn:E.
  - inversion H; subst. exists [], es. split; [reflexivity|]. split; [exact E|]. intros e' [].
  - destruct (IH _ _ H) as (pre & post & -> & Hn & Hp). exists (e0 :: pre), post.
    split; [reflexivity|]. split; [exact Hn|]. intros e' [<-|Hin]; auto.
Qed.
Print Assumptions find_entity_first.

(* WFC: Entity Declared -- a general entity reference in content is accepted only if the
   entity has been declared, and it stands for the value of the FIRST declaration of that name *)
Theorem ok_refs_defined_first : forall text s es ch s',
  parse_next_chunk text s es = Ok (ChText ch, s') ->
  exists name s1 e pre post,
    consume_reference text s = Ok (Some (RefEntity name, s1)) /\ s' = s1 /\
    es = pre ++ e :: post /\ en_value e = ch /\
    bytes_eqb (slice_bytes text (en_name e)) (slice_bytes text name) = true /\
    forall e', In e' pre -> bytes_eqb (slice_bytes text (en_name e')) (slice_bytes text name) = false.
Proof.
  intros text s es ch s' H. unfold parse_next_chunk in H.
  destruct (at_end s); [noerr|]. ib H x Hx.
  destruct (x =? 38).
  - cbv zeta in H. ib H r Hr. destruct r as [[[name|cp] s1]|]; [| |noerr].
    + destruct (find_entity text es (slice_bytes text name)) eqn:Ef; [|noerr].
      inversion H; subst. destruct (find_entity_first _ _ _ _ Ef) as (pre & post & E1 & E2 & E3).
      exists name, s', e, pre, post. auto 10.
    + inversion H.
  - ib H s1 H1. inversion H.
Qed.
Print Assumptions ok_refs_defined_first.

Theorem ok_refs_defined : forall text s es ch s',
  parse_next_chunk text s es = Ok (ChText ch, s') ->
  exists e, In e es /\ en_value e = ch.
Proof.
  intros text s es ch s' H.
  destruct (ok_refs_defined_first _ _ _ _ _ H) as (name & s1 & e & pre & post & _ & _ & -> & Hv & _).
  exists e. split; [apply in_or_app; right; left; reflexivity | exact Hv].
Qed.
Print Assumptions ok_refs_defined.

(* ------------------------------------------------------------------------------------------ *)
(* The stream walks over the text: [s_rest] is the text from [s_pos] on                         *)

Definition RestOk (text : bytes) (s : stream) : Prop :=
  s_rest s = skipn (N.to_nat (s_pos s)) text.

Lemma skipn_skipn' {A} : forall a b (l : list A), skipn a (skipn b l) = skipn (b + a) l.
Proof.
  induction b as [|b IH]; intros l; [reflexivity|].
  destruct l; [cbn; apply skipn_nil|]. cbn. apply IH.
Qed.

Lemma RestOk_new text : RestOk text (stream_new text).
Proof. reflexivity. Qed.

Lemma advance_rest text n s s' : advance n s = Ok s' -> RestOk text s ->
  RestOk text s' /\ s_pos s' = s_pos s + n /\ s_end s' = s_end s /\ s_pos s + n <= s_end s.
Proof.
  unfold advance, RestOk. destruct (s_end s <? s_pos s + n) eqn:E; [discriminate|].
  intros H R. inversion H; subst; cbn [s_pos s_end s_rest]. rewrite R, skipn_skipn'.
  repeat split; try lia. f_equal. lia.
Qed.

Lemma advance_rest' text n s s' : advance n s = Ok s' -> RestOk text s -> RestOk text s'.
Proof. intros H R. apply (advance_rest text n s s' H R). Qed.

Lemma skip_bytes_rest text f s : RestOk text s -> RestOk text (skip_bytes f s).
Proof.
  unfold skip_bytes, RestOk. cbn [s_pos s_rest]. intros R. rewrite R, skipn_skipn'. f_equal. lia.
Qed.

Lemma consume_byte_rest text c s s' : consume_byte text c s = Ok s' -> RestOk text s -> RestOk text s'.
Proof.
  unfold consume_byte. intros H R. ib H x Hx. destruct (negb (x =? c)); [noerr|].
  eapply advance_rest'; eauto.
Qed.

Lemma consume_spaces_rest text s s' : consume_spaces text s = Ok s' -> RestOk text s -> RestOk text s'.
Proof.
  unfold consume_spaces. intros H R. destruct (at_end s); [noerr|].
  destruct (negb (starts_with_space s)).
  - ib H x Hx. noerr.
  - inversion H; subst. apply skip_bytes_rest; exact R.
Qed.

Lemma consume_eq_rest text s s' : consume_eq text s = Ok s' -> RestOk text s -> RestOk text s'.
Proof.
  unfold consume_eq. intros H R. ib H s1 H1. inversion H; subst.
  apply skip_bytes_rest. eapply consume_byte_rest; [exact H1|]. apply skip_bytes_rest; exact R.
Qed.

Lemma consume_quote_rest text s q s' : consume_quote text s = Ok (q, s') -> RestOk text s -> RestOk text s'.
Proof.
  unfold consume_quote. intros H R. ib H x Hx. destruct ((x =? 39) || (x =? 34)); [|noerr].
  ib H s1 H1. inversion H; subst. eapply advance_rest'; eauto.
Qed.

Lemma consume_qname_loop_rest text : forall fu start spl s spl' s',
  consume_qname_loop text fu start spl s = Ok (spl', s') -> RestOk text s -> RestOk text s'.
Proof.
  induction fu as [|fu IH]; intros start spl s spl' s' H R; cbn [consume_qname_loop] in H; [noerr|].
  destruct (at_end s); [inversion H; subst; exact R|].
  ib H x Hx. destruct (x <? 128).
  - destruct (x =? 58).
    + destruct spl; [noerr|]. ib H s1 H1. eapply IH; [exact H|]. eapply advance_rest'; eauto.
    + destruct (byte_is_name x); [|inversion H; subst; exact R].
      ib H s1 H1. eapply IH; [exact H|]. eapply advance_rest'; eauto.
  - ib H oc Ho. destruct oc as [[c n]|]; [|inversion H; subst; exact R].
    destruct (char_is_name c); [|inversion H; subst; exact R].
    ib H s1 H1. eapply IH; [exact H|]. eapply advance_rest'; eauto.
Qed.

Lemma consume_qname_rest text s p l s' :
  consume_qname text s = Ok (p, l, s') -> RestOk text s -> RestOk text s'.
Proof.
  unfold consume_qname. intros H R. ib H q Hq. destruct q as [spl s1]. ib H pl Hpl.
  destruct pl as [p0 l0].
  destruct (negb (slice_len p0 =? 0) && negb (str_is_name_start (slice_bytes text p0))); [noerr|].
  destruct (negb (str_is_name_start (slice_bytes text l0))); [noerr|].
  inversion H; subst. eapply consume_qname_loop_rest; eauto.
Qed.

Lemma mk_slice_ok text a e sl : mk_slice text a e = Ok sl -> sl = {| sl_start := a; sl_end := e |}.
Proof.
  unfold mk_slice. destruct ((e <? a) || (tlen text <? e)); [discriminate|].
  destruct (is_boundary text a && is_boundary text e); [|discriminate].
  intros H; inversion H; reflexivity.
Qed.

Lemma find_idx_mem f c : f c = true -> forall l i, find_idx f l = Some i ->
  mem_b c (firstn (N.to_nat i) l) = false.
Proof.
  intros Hc. induction l as [|y l IH]; intros i H; cbn [find_idx] in H; [discriminate|].
  destruct (f y) eqn:Ey.
  - inversion H; subst. reflexivity.
  - destruct (find_idx f l) as [j|]; [|discriminate]. inversion H; subst.
    replace (N.to_nat (j + 1)) with (S (N.to_nat j)) by lia. cbn [firstn mem_b].
    rewrite (IH j eq_refl). destruct (N.eqb_spec c y); [subst; congruence|reflexivity].
Qed.

Lemma advance_until2_no text n1 n2 s s' : RestOk text s -> advance_until2 n1 n2 s = Ok s' ->
  RestOk text s' /\ mem_b n2 (sub text (s_pos s) (s_pos s')) = false.
Proof.
  unfold advance_until2. intros R H.
  destruct (find_idx (fun x => (x =? n1) || (x =? n2)) (avail s)) as [i|] eqn:Ef; [|noerr].
  destruct (advance_rest text i s s' H R) as (R' & Hp & He & Hle). split; [exact R'|].
  apply (find_idx_mem _ n2) in Ef; [|rewrite N.eqb_refl; apply orb_true_r].
  unfold avail in Ef. rewrite firstn_firstn in Ef.
  unfold sub. rewrite Hp, <- R.
  replace (N.to_nat (s_pos s + i - s_pos s)) with (N.to_nat i) by lia.
  replace (Nat.min (N.to_nat i) (N.to_nat (s_end s - s_pos s))) with (N.to_nat i) in Ef by lia.
  exact Ef.
Qed.

(* WFC: No < in Attribute Values (the literal value; the replacement text of entities is
   checked by normalize_attribute) *)
Definition attr_ok (text : bytes) (tok : token) : Prop :=
  match tok with
  | TAttribute _ _ _ _ _ v => mem_b 60 (slice_bytes text v) = false
  | _ => True
  end.

Lemma parse_element_loop_attrs text : forall fu ts s acc open s' acc',
  RestOk text s ->
  parse_element_loop text (list token) rec_ev fu ts s acc = Ok (open, s', acc') ->
  RestOk text s' /\ exists added, acc' = acc ++ added /\ Forall (attr_ok text) added.
Proof.
  induction fu as [|fu IH]; intros ts s acc open s' acc' R H; cbn [parse_element_loop] in H; [noerr|].
  destruct (at_end s); [noerr|]. cbv zeta in H.
  assert (R0 : RestOk text (skip_spaces s)) by (apply skip_bytes_rest; exact R).
  ib H x Hx. destruct (x =? 47).
  { ib H s1 H1. ib H s2 H2. ib H c Hc. apply rec_ev_ok in Hc. inversion H; subst.
    split; [eapply consume_byte_rest; [exact H2|]; eapply advance_rest'; eauto|].
    eexists; split; [reflexivity|]. constructor; [exact I|constructor]. }
  destruct (x =? 62).
  { ib H s1 H1. ib H c Hc. apply rec_ev_ok in Hc. inversion H; subst.
    split; [eapply advance_rest'; eauto|].
    eexists; split; [reflexivity|]. constructor; [exact I|constructor]. }
  ib H s1 H1.
  assert (R1 : RestOk text s1).
  { destruct (starts_with_space s); [inversion H1; subst; exact R0|].
    eapply consume_spaces_rest; eauto. }
  ib H q Hq. destruct q as [[prefix local] s2].
  assert (R2 := consume_qname_rest _ _ _ _ _ Hq R1).
  ib H s3 H3. assert (R3 := consume_eq_rest _ _ _ H3 R2).
  ib H q4 H4. destruct q4 as [quote s4]. assert (R4 := consume_quote_rest _ _ _ _ H4 R3).
  ib H s5 H5. destruct (advance_until2_no _ _ _ _ _ R4 H5) as (R5 & Hno).
  ib H vsl Hv. unfold slice_back in Hv. apply mk_slice_ok in Hv.
  ib H u Hu. ib H s6 H6. assert (R6 := consume_byte_rest _ _ _ _ H6 R5).
  ib H c Hc. apply rec_ev_ok in Hc. subst c.
  destruct (IH _ _ _ _ _ _ R6 H) as (R' & added & -> & Hf). split; [exact R'|].
  eexists. split; [rewrite <- app_assoc; reflexivity|].
  cbn [app]. constructor; [|exact Hf].
  cbn [attr_ok]. subst vsl. unfold slice_bytes. cbn [sl_start sl_end]. exact Hno.
Qed.

Theorem ok_no_lt_in_attr : forall text s acc open s' acc',
  s_rest s = skipn (N.to_nat (s_pos s)) text ->
  parse_element text (list token) rec_ev s acc = Ok (open, s', acc') ->
  forall r q e p l v, In (TAttribute r q e p l v) (skipn (length acc) acc') ->
    mem_b 60 (slice_bytes text v) = false.
Proof.
  intros text s acc open s' acc' R H. unfold parse_element in H.
  ib H s1 H1. ib H q Hq. destruct q as [[prefix local] s2]. ib H c Hc.
  apply rec_ev_ok in Hc. subst c.
  assert (R2 : RestOk text s2).
  { eapply consume_qname_rest; [exact Hq|]. eapply advance_rest'; eauto. }
  destruct (parse_element_loop_attrs _ _ _ _ _ _ _ _ R2 H) as (_ & added & -> & Hf).
  intros r q e p l v Hin. rewrite <- app_assoc in Hin.
  rewrite skipn_app, skipn_all, Nat.sub_diag in Hin. cbn [app skipn In] in Hin.
  destruct Hin as [Hin|Hin]; [discriminate|].
  rewrite Forall_forall in Hf. apply (Hf _ Hin).
Qed.
Print Assumptions ok_no_lt_in_attr.

(* ------------------------------------------------------------------------------------------ *)
(* Document level: the shape of the token sequence ([1] document, [22] prolog, [27] Misc)       *)

Definition is_misc_tok (tok : token) : Prop :=
  match tok with TPI _ _ _ | TComment _ _ => True | _ => False end.
Definition is_prolog_tok (tok : token) : Prop :=
  match tok with TPI _ _ _ | TComment _ _ | TEntityDecl _ _ => True | _ => False end.
Definition is_attr_tok (tok : token) : Prop :=
  match tok with TAttribute _ _ _ _ _ _ => True | _ => False end.
Definition neutral_tok (tok : token) : Prop :=
  match tok with TElementEnd _ _ => False | _ => True end.

Lemma misc_prolog tok : is_misc_tok tok -> is_prolog_tok tok.
Proof. destruct tok; cbn; auto. Qed.
Lemma misc_neutral tok : is_misc_tok tok -> neutral_tok tok.
Proof. destruct tok; cbn; auto. Qed.
Lemma attr_neutral tok : is_attr_tok tok -> neutral_tok tok.
Proof. destruct tok; cbn; auto. Qed.

(* the tokens that follow the end tag matching nesting depth [d] (the model's depth counter:
   number of open elements below the root), [None] if that end tag is missing *)
Fixpoint depth_walk (d : N) (l : list token) : option (list token) :=
  match l with
  | [] => None
  | tok :: r =>
    match tok with
    | TElementEnd EOpen _ => depth_walk (d + 1) r
    | TElementEnd (EClose _ _) _ => if d =? 0 then Some r else depth_walk (d - 1) r
    | _ => depth_walk d r
    end
  end.

Lemma depth_walk_neutral1 d tok l : neutral_tok tok -> depth_walk d (tok :: l) = depth_walk d l.
Proof. destruct tok; cbn; try reflexivity. intros []. Qed.

Lemma depth_walk_neutral d x l : Forall neutral_tok x -> depth_walk d (x ++ l) = depth_walk d l.
Proof.
  induction 1 as [|tok x Ht Hx IH]; [reflexivity|].
  cbn [app]. rewrite depth_walk_neutral1 by exact Ht. exact IH.
Qed.

Lemma parse_comment_tok text s acc s' acc' :
  parse_comment text (list token) rec_ev s acc = Ok (s', acc') ->
  exists txt r, acc' = acc ++ [TComment txt r].
Proof. intros H. destruct (ok_comment_body _ _ _ _ _ H) as (txt & r & -> & _). eauto. Qed.

Lemma parse_pi_tok text s acc s' acc' :
  parse_pi text (list token) rec_ev s acc = Ok (s', acc') ->
  exists t ct r, acc' = acc ++ [TPI t ct r].
Proof.
  unfold parse_pi. intros H. destruct (starts_with s (b "<?xml ")); [noerr|].
  ib H s1 H1. ib H q Hq. destruct q as [target s2]. cbv zeta in H.
  ib H s2' H2'. ib H q3 H3. destruct q3 as [content s3]. ib H s4 H4. ib H c Hc.
  apply rec_ev_ok in Hc. inversion H; subst. eauto.
Qed.

Lemma parse_misc_loop_toks text : forall fu s acc s' acc',
  parse_misc_loop text (list token) rec_ev fu s acc = Ok (s', acc') ->
  exists added, acc' = acc ++ added /\ Forall is_misc_tok added.
Proof.
  induction fu as [|fu IH]; intros s acc s' acc' H; cbn [parse_misc_loop] in H; [noerr|].
  destruct (at_end s).
  { inversion H; subst. exists []. rewrite app_nil_r. auto. }
  cbv zeta in H.
  destruct (starts_with (skip_spaces s) (b "<!--")).
  { ib H q Hq. destruct q as [s1 c1]. destruct (parse_comment_tok _ _ _ _ _ Hq) as (txt & r & ->).
    destruct (IH _ _ _ _ H) as (added & -> & Hf). eexists. rewrite <- app_assoc. split; [reflexivity|].
    constructor; [exact I|exact Hf]. }
  destruct (starts_with (skip_spaces s) (b "<?")).
  { ib H q Hq. destruct q as [s1 c1]. destruct (parse_pi_tok _ _ _ _ _ Hq) as (t & ct & r & ->).
    destruct (IH _ _ _ _ H) as (added & -> & Hf). eexists. rewrite <- app_assoc. split; [reflexivity|].
    constructor; [exact I|exact Hf]. }
  inversion H; subst. exists []. rewrite app_nil_r. auto.
Qed.

Lemma parse_misc_toks text s acc s' acc' :
  parse_misc text (list token) rec_ev s acc = Ok (s', acc') ->
  exists added, acc' = acc ++ added /\ Forall is_misc_tok added.
Proof. apply parse_misc_loop_toks. Qed.

Lemma parse_misc_at_end text C ev s (c : C) :
  at_end s = true -> parse_misc text C ev s c = Ok (s, c).
Proof. intros E. unfold parse_misc. cbn [parse_misc_loop]. rewrite E. reflexivity. Qed.

Lemma parse_entity_decl_toks text s acc s' acc' :
  parse_entity_decl text (list token) rec_ev s acc = Ok (s', acc') ->
  exists added, acc' = acc ++ added /\ Forall is_prolog_tok added.
Proof.
  unfold parse_entity_decl. intros H. ib H s1 H1. ib H s2 H2.
  destruct (try_consume_byte 37 s2) as [pe s3]. ib H s4 H4. cbv zeta in H.
  ib H q5 H5. destruct q5 as [name s5]. ib H s6 H6. ib H q7 H7. destruct q7 as [def s7].
  ib H c Hc. ib H s8 H8. inversion H; subst.
  destruct def as [d|].
  - destruct (negb pe).
    + apply rec_ev_ok in Hc. subst. eexists; split; [reflexivity|]. constructor; [exact I|constructor].
    + inversion Hc; subst. exists []. rewrite app_nil_r. auto.
  - inversion Hc; subst. exists []. rewrite app_nil_r. auto.
Qed.

Lemma parse_doctype_loop_toks text : forall fu start s acc s' acc',
  parse_doctype_loop text (list token) rec_ev fu start s acc = Ok (s', acc') ->
  exists added, acc' = acc ++ added /\ Forall is_prolog_tok added.
Proof.
  induction fu as [|fu IH]; intros start s acc s' acc' H; cbn [parse_doctype_loop] in H; [noerr|].
  destruct (at_end s).
  { inversion H; subst. exists []. rewrite app_nil_r. auto. }
  cbv zeta in H.
  destruct (starts_with (skip_spaces s) (b "<!ENTITY")).
  { ib H q Hq. destruct q as [s1 c1].
    destruct (parse_entity_decl_toks _ _ _ _ _ Hq) as (a1 & -> & Hf1).
    destruct (IH _ _ _ _ _ H) as (added & -> & Hf). eexists. rewrite <- app_assoc.
    split; [reflexivity|]. apply Forall_app; auto. }
  destruct (starts_with (skip_spaces s) (b "<!--")).
  { ib H q Hq. destruct q as [s1 c1]. destruct (parse_comment_tok _ _ _ _ _ Hq) as (txt & r & ->).
    destruct (IH _ _ _ _ _ H) as (added & -> & Hf). eexists. rewrite <- app_assoc.
    split; [reflexivity|]. constructor; [exact I|exact Hf]. }
  destruct (starts_with (skip_spaces s) (b "<?")).
  { ib H q Hq. destruct q as [s1 c1]. destruct (parse_pi_tok _ _ _ _ _ Hq) as (t & ct & r & ->).
    destruct (IH _ _ _ _ _ H) as (added & -> & Hf). eexists. rewrite <- app_assoc.
    split; [reflexivity|]. constructor; [exact I|exact Hf]. }
  destruct (starts_with (skip_spaces s) (b "]")).
  { ib H s1 H1. destruct (curr_byte_opt (skip_spaces s1)) as [x|]; [|noerr].
    destruct (x =? 62); [|noerr]. ib H s2 H2. inversion H; subst.
    exists []. rewrite app_nil_r. auto. }
  destruct (starts_with (skip_spaces s) (b "<!ELEMENT") || starts_with (skip_spaces s) (b "<!ATTLIST")
            || starts_with (skip_spaces s) (b "<!NOTATION")); [|noerr].
  destruct (consume_decl text (skip_spaces s)); try noerr. eapply IH; eauto.
Qed.

Lemma parse_doctype_toks text s acc s' acc' :
  parse_doctype text (list token) rec_ev s acc = Ok (s', acc') ->
  exists added, acc' = acc ++ added /\ Forall is_prolog_tok added.
Proof.
  unfold parse_doctype. intros H. ib H s1 H1. cbv zeta in H.
  destruct (match curr_byte_opt (skip_spaces s1) with Some x => x =? 62 | None => false end).
  - ib H s2 H2. inversion H; subst. exists []. rewrite app_nil_r. auto.
  - ib H s2 H2. eapply parse_doctype_loop_toks; eauto.
Qed.

(* a start tag: attributes, then exactly one ElementEnd (Open or Empty) *)
Lemma parse_element_loop_toks text : forall fu ts s acc open s' acc',
  parse_element_loop text (list token) rec_ev fu ts s acc = Ok (open, s', acc') ->
  exists attrs r, acc' = acc ++ attrs ++ [TElementEnd (if open then EOpen else EEmpty) r] /\
                  Forall is_attr_tok attrs.
Proof.
  induction fu as [|fu IH]; intros ts s acc open s' acc' H; cbn [parse_element_loop] in H; [noerr|].
  destruct (at_end s); [noerr|]. cbv zeta in H.
  ib H x Hx. destruct (x =? 47).
  { ib H s1 H1. ib H s2 H2. ib H c Hc. apply rec_ev_ok in Hc. inversion H; subst.
    exists []. eexists. split; [reflexivity|constructor]. }
  destruct (x =? 62).
  { ib H s1 H1. ib H c Hc. apply rec_ev_ok in Hc. inversion H; subst.
    exists []. eexists. split; [reflexivity|constructor]. }
  ib H s1 H1. ib H q Hq. destruct q as [[prefix local] s2].
  ib H s3 H3. ib H q4 H4. destruct q4 as [quote s4]. ib H s5 H5. ib H vsl Hv.
  ib H u Hu. ib H s6 H6. ib H c Hc. apply rec_ev_ok in Hc. subst c.
  destruct (IH _ _ _ _ _ _ H) as (attrs & r & -> & Hf).
  eexists (_ :: attrs), r. split; [rewrite <- app_assoc; reflexivity|].
  constructor; [exact I|exact Hf].
Qed.

Lemma parse_element_toks text s acc open s' acc' :
  parse_element text (list token) rec_ev s acc = Ok (open, s', acc') ->
  exists p l st attrs r,
    acc' = acc ++ TElementStart p l st :: attrs ++ [TElementEnd (if open then EOpen else EEmpty) r] /\
    Forall is_attr_tok attrs.
Proof.
  unfold parse_element. intros H. ib H s1 H1. ib H q Hq. destruct q as [[prefix local] s2].
  ib H c Hc. apply rec_ev_ok in Hc. subst c.
  destruct (parse_element_loop_toks _ _ _ _ _ _ _ _ H) as (attrs & r & -> & Hf).
  exists prefix, local, (s_pos s), attrs, r. split; [rewrite <- app_assoc; reflexivity|exact Hf].
Qed.

Lemma parse_cdata_tok text s acc s' acc' :
  parse_cdata text (list token) rec_ev s acc = Ok (s', acc') ->
  exists txt r, acc' = acc ++ [TCdata txt r].
Proof.
  unfold parse_cdata. intros H. ib H s1 H1. ib H q Hq. destruct q as [txt s2].
  ib H s3 H3. ib H c Hc. apply rec_ev_ok in Hc. inversion H; subst. eauto.
Qed.

Lemma parse_close_element_tok text s acc s' acc' :
  parse_close_element text (list token) rec_ev s acc = Ok (s', acc') ->
  exists p l r, acc' = acc ++ [TElementEnd (EClose p l) r].
Proof.
  unfold parse_close_element. intros H. ib H s1 H1. ib H q Hq. destruct q as [[p l] s2].
  cbv zeta in H. ib H s3 H3. ib H c Hc. apply rec_ev_ok in Hc. inversion H; subst. eauto.
Qed.

Lemma parse_text_tok text s acc s' acc' :
  parse_text text (list token) rec_ev s acc = Ok (s', acc') ->
  exists txt r, acc' = acc ++ [TText txt r].
Proof. intros H. destruct (ok_text_no_cdata_end _ _ _ _ _ H) as (txt & r & -> & _). eauto. Qed.

(* the outcome of parse_content at depth d: either the end tag of depth d was the last token
   delivered, or that end tag never came and the stream is exhausted *)
Definition content_res (d : N) (s' : stream) (added : list token) : Prop :=
  depth_walk d added = Some [] \/ (depth_walk d added = None /\ at_end s' = true).

Lemma content_step d d1 s' acc acc1 acc' x :
  acc1 = acc ++ x ->
  (forall l, depth_walk d (x ++ l) = depth_walk d1 l) ->
  (exists added, acc' = acc1 ++ added /\ content_res d1 s' added) ->
  exists added, acc' = acc ++ added /\ content_res d s' added.
Proof.
  intros -> Hw (added & -> & Hr). exists (x ++ added). split; [apply eq_sym, app_assoc|].
  unfold content_res in *. rewrite Hw. exact Hr.
Qed.

Lemma parse_content_loop_toks text : forall fu d s acc s' acc',
  parse_content_loop text (list token) rec_ev fu d s acc = Ok (s', acc') ->
  exists added, acc' = acc ++ added /\ content_res d s' added.
Proof.
  induction fu as [|fu IH]; intros d s acc s' acc' H; cbn [parse_content_loop] in H; [noerr|].
  destruct (at_end s) eqn:Ea.
  { inversion H; subst. exists []. rewrite app_nil_r. split; [reflexivity|]. right. auto. }
  ib H x Hx. destruct (x =? 60).
  - destruct (next_byte s) as [y| | |] eqn:Ey; try noerr.
    destruct (y =? 33).
    + destruct (starts_with s (b "<!--")).
      { ib H q Hq. destruct q as [s1 c1]. destruct (parse_comment_tok _ _ _ _ _ Hq) as (txt & r & E).
        eapply content_step; [exact E| |eapply IH; exact H]. intros l. reflexivity. }
      destruct (starts_with s (b "<![CDATA[")); [|noerr].
      ib H q Hq. destruct q as [s1 c1]. destruct (parse_cdata_tok _ _ _ _ _ Hq) as (txt & r & E).
      eapply content_step; [exact E| |eapply IH; exact H]. intros l. reflexivity.
    + destruct (y =? 63).
      { ib H q Hq. destruct q as [s1 c1]. destruct (parse_pi_tok _ _ _ _ _ Hq) as (t & ct & r & E).
        eapply content_step; [exact E| |eapply IH; exact H]. intros l. reflexivity. }
      destruct (y =? 47).
      { ib H q Hq. destruct q as [s1 c1].
        destruct (parse_close_element_tok _ _ _ _ _ Hq) as (p & l & r & E).
        destruct (d =? 0) eqn:Ed.
        - inversion H; subst. eexists. split; [reflexivity|]. left. cbn [depth_walk]. rewrite Ed. reflexivity.
        - eapply content_step; [exact E| |eapply IH; exact H]. intros l0. cbn [app depth_walk].
          rewrite Ed. reflexivity. }
      ib H q Hq. destruct q as [[open s1] c1].
      destruct (parse_element_toks _ _ _ _ _ _ Hq) as (p & l & st & attrs & r & E & Hf).
      eapply content_step; [exact E| |eapply IH; exact H]. intros l0.
      cbn [app]. rewrite depth_walk_neutral1 by exact I. rewrite <- app_assoc.
      rewrite depth_walk_neutral by (eapply Forall_impl; [apply attr_neutral|exact Hf]).
      destruct open; reflexivity.
  - ib H q Hq. destruct q as [s1 c1]. destruct (parse_text_tok _ _ _ _ _ Hq) as (txt & r & E).
    eapply content_step; [exact E| |eapply IH; exact H]. intros l. reflexivity.
Qed.

(* [1] document ::= prolog element Misc*: what the tokenizer delivers for a whole document is
   - a prolog made of PIs, comments and entity declarations (no entity declarations when DTDs
     are not allowed),
   - at most one root element: ElementStart, attributes, ElementEnd and, if open, its content;
   - then only PIs and comments; and if the root element was left unclosed (the stream ended
     first) nothing at all.
   In particular no text, CDATA or second element can appear outside the root element. *)
Definition root_shape (root post : list token) : Prop :=
  root = [] \/
  exists p l st attrs e r content,
    root = TElementStart p l st :: attrs ++ TElementEnd e r :: content /\
    Forall is_attr_tok attrs /\
    match e with
    | EEmpty => content = []
    | EOpen => depth_walk 0 content = Some [] \/ post = []
    | EClose _ _ => False
    end.

Theorem ok_document_shape : forall text dtd toks,
  parse_document text (list token) rec_ev dtd [] = Ok toks ->
  exists pre root post,
    toks = pre ++ root ++ post /\
    Forall is_prolog_tok pre /\ (dtd = false -> Forall is_misc_tok pre) /\
    Forall is_misc_tok post /\
    root_shape root post.
Proof.
  intros text dtd toks H. unfold parse_document in H. cbv zeta in H.
  ib H s1 H1. ib H s2 H2. ib H q3 H3. destruct q3 as [s3 c3].
  destruct (parse_misc_toks _ _ _ _ _ H3) as (m1 & -> & Hm1). cbn [app] in *.
  ib H q4 H4. destruct q4 as [s4 c4].
  assert (P : exists m2, c4 = m1 ++ m2 /\ Forall is_prolog_tok m2 /\ (dtd = false -> m2 = [])).
  { destruct (starts_with (skip_spaces s3) (b "<!DOCTYPE")).
    - destruct dtd; cbn [negb] in H4; [|noerr].
      ib H4 q Hq. destruct q as [sa ca].
      destruct (parse_doctype_toks _ _ _ _ _ Hq) as (a1 & -> & Hf1).
      destruct (parse_misc_toks _ _ _ _ _ H4) as (a2 & -> & Hf2).
      exists (a1 ++ a2). split; [apply eq_sym, app_assoc|]. split; [|discriminate].
      apply Forall_app. split; [exact Hf1|]. eapply Forall_impl; [apply misc_prolog|exact Hf2].
    - inversion H4; subst. exists []. rewrite app_nil_r. auto. }
  destruct P as (m2 & -> & Hm2 & Hd). clear H4.
  ib H q5 H5. destruct q5 as [s5 c5]. ib H q6 H6. destruct q6 as [s6 c6].
  destruct (negb (at_end s6)); [noerr|]. inversion H; subst c6. clear H.
  assert (Hpre : Forall is_prolog_tok (m1 ++ m2)).
  { apply Forall_app. split; [eapply Forall_impl; [apply misc_prolog|exact Hm1]|exact Hm2]. }
  assert (Hpre' : dtd = false -> Forall is_misc_tok (m1 ++ m2)).
  { intros E. rewrite (Hd E), app_nil_r. exact Hm1. }
  destruct (match curr_byte_opt (skip_spaces s4) with Some x => x =? 60 | None => false end).
  2:{ inversion H5; subst. destruct (parse_misc_toks _ _ _ _ _ H6) as (m3 & -> & Hm3).
      exists (m1 ++ m2), [], m3. cbn [app]. repeat split; auto. left; reflexivity. }
  ib H5 q Hq. destruct q as [[open sa] ca].
  destruct (parse_element_toks _ _ _ _ _ _ Hq) as (p & l & st & attrs & r & -> & Hf).
  destruct open.
  - unfold parse_content in H5.
    destruct (parse_content_loop_toks _ _ _ _ _ _ _ H5) as (content & -> & [Hc|[Hc Ha]]).
    + destruct (parse_misc_toks _ _ _ _ _ H6) as (m3 & -> & Hm3).
      exists (m1 ++ m2), (TElementStart p l st :: attrs ++ TElementEnd EOpen r :: content), m3.
      split. { rewrite <- !app_assoc. cbn [app]. rewrite <- !app_assoc. reflexivity. }
      repeat split; auto. right. exists p, l, st, attrs, EOpen, r, content. auto.
    + rewrite (parse_misc_at_end _ _ _ _ _ Ha) in H6. inversion H6; subst.
      exists (m1 ++ m2), (TElementStart p l st :: attrs ++ TElementEnd EOpen r :: content), [].
      split. { rewrite <- !app_assoc. cbn [app]. rewrite <- !app_assoc, app_nil_r. reflexivity. }
      repeat split; auto. right. exists p, l, st, attrs, EOpen, r, content. auto.
  - inversion H5; subst. destruct (parse_misc_toks _ _ _ _ _ H6) as (m3 & -> & Hm3).
    exists (m1 ++ m2), (TElementStart p l st :: attrs ++ TElementEnd EEmpty r :: []), m3.
    split. { rewrite <- !app_assoc. cbn [app]. rewrite <- !app_assoc. reflexivity. }
    repeat split; auto. right. exists p, l, st, attrs, EEmpty, r, []. auto.
Qed.
Print Assumptions ok_document_shape.

(* corollary: nothing but PIs, comments and entity declarations before the root element *)
Theorem ok_no_text_before_root : forall text dtd toks,
  parse_document text (list token) rec_ev dtd [] = Ok toks ->
  exists pre post, toks = pre ++ post /\ Forall is_prolog_tok pre /\
    (post = [] \/ (exists p l st rest, post = TElementStart p l st :: rest) \/ Forall is_misc_tok post).
Proof.
  intros text dtd toks H.
  destruct (ok_document_shape _ _ _ H) as (pre & root & post & -> & Hp & _ & Hm & Hr).
  exists pre, (root ++ post). split; [reflexivity|]. split; [exact Hp|].
  destruct Hr as [->|(p & l & st & attrs & e & r & content & -> & _)].
  - right; right. exact Hm.
  - right; left. cbn [app]. eauto.
Qed.
Print Assumptions ok_no_text_before_root.

(* ------------------------------------------------------------------------------------------ *)
(* [2] Char: the stream only advances over XML Chars in skip_chars / consume_chars              *)

(* the first k bytes of l decode (decode1, repeatedly) to code points that are XML Chars *)
Inductive chars_upto : bytes -> N -> Prop :=
| cu_0 l : chars_upto l 0
| cu_step l c n k : decode1 l = Some (c, n) -> char_is_char c = true ->
    chars_upto (skipn (N.to_nat n) l) k -> chars_upto l (n + k).

Definition all_chars (l : bytes) : Prop := chars_upto l (blen l).

Lemma advance_ok n s s' : advance n s = Ok s' ->
  s_pos s' = s_pos s + n /\ s_rest s' = skipn (N.to_nat n) (s_rest s) /\ s_end s' = s_end s.
Proof.
  unfold advance. destruct (s_end s <? s_pos s + n); [discriminate|].
  intros H; inversion H; subst; cbn. auto.
Qed.

Lemma skip_chars_loop_chars text f : forall fu s s', skip_chars_loop text fu f s = Ok s' ->
  s_pos s <= s_pos s' /\ chars_upto (s_rest s) (s_pos s' - s_pos s).
Proof.
  induction fu as [|fu IH]; intros s s' H; cbn [skip_chars_loop] in H; [noerr|].
  assert (Z : forall t : stream, s_pos t <= s_pos t /\ chars_upto (s_rest t) (s_pos t - s_pos t)).
  { intros t. split; [lia|]. replace (s_pos t - s_pos t) with 0 by lia. constructor. }
  ib H oc Ho. unfold next_char in Ho.
  destruct (at_end s). { inversion Ho; subst. inversion H; subst. apply Z. }
  destruct (decode1 (s_rest s)) as [[c n]|] eqn:Ed; [|noerr].
  destruct (s_end s <? s_pos s + n); [noerr|]. inversion Ho; subst oc. clear Ho.
  destruct (char_is_char c) eqn:Ec; cbn [negb] in H; [|noerr].
  destruct (f s c); [|inversion H; subst; apply Z].
  ib H s1 H1. destruct (advance_ok _ _ _ H1) as (Hp & Hr & _).
  destruct (IH _ _ H) as (Hle & Hc). split; [lia|].
  replace (s_pos s' - s_pos s) with (n + (s_pos s' - s_pos s1)) by lia.
  econstructor; [exact Ed|exact Ec|]. rewrite <- Hr. exact Hc.
Qed.

(* every char skip_chars passes over is an XML Char (no hypothesis on the stream needed:
   the statement is about the bytes the stream holds) *)
Theorem skip_chars_only_chars : forall text f s s', skip_chars text f s = Ok s' ->
  s_pos s <= s_pos s' /\ chars_upto (s_rest s) (s_pos s' - s_pos s).
Proof. intros text f s s' H. eapply skip_chars_loop_chars; exact H. Qed.
Print Assumptions skip_chars_only_chars.

Lemma decode1_firstn l c n m : decode1 l = Some (c, n) -> (N.to_nat n <= m)%nat ->
  decode1 (firstn m l) = Some (c, n) /\ (N.to_nat n <= length l)%nat.
Proof.
  intros H Hm. destruct l as [|b0 r]; [discriminate|]. unfold decode1 in H.
  destruct (b0 <? 128) eqn:E1.
  { inversion H; subst. destruct m as [|m]; [lia|]. cbn [firstn]. unfold decode1. rewrite E1.
    split; [reflexivity|cbn [length]; lia]. }
  destruct (b0 <? 192) eqn:E2; [discriminate|].
  destruct (b0 <? 224) eqn:E3.
  { destruct r as [|b1 r]; [discriminate|]. destruct (is_cont b1) eqn:C1; [|discriminate].
    inversion H; subst. destruct m as [|[|m]]; try lia. cbn [firstn]. unfold decode1.
    rewrite E1, E2, E3, C1. split; [reflexivity|cbn [length]; lia]. }
  destruct (b0 <? 240) eqn:E4.
  { destruct r as [|b1 [|b2 r]]; try discriminate.
    destruct (is_cont b1 && is_cont b2) eqn:C1; [|discriminate].
    inversion H; subst. destruct m as [|[|[|m]]]; try lia. cbn [firstn]. unfold decode1.
    rewrite E1, E2, E3, E4, C1. split; [reflexivity|cbn [length]; lia]. }
  destruct (b0 <? 248) eqn:E5; [|discriminate].
  destruct r as [|b1 [|b2 [|b3 r]]]; try discriminate.
  destruct (is_cont b1 && is_cont b2 && is_cont b3) eqn:C1; [|discriminate].
  inversion H; subst. destruct m as [|[|[|[|m]]]]; try lia. cbn [firstn]. unfold decode1.
  rewrite E1, E2, E3, E4, E5, C1. split; [reflexivity|cbn [length]; lia].
Qed.

Lemma chars_upto_firstn l k : chars_upto l k ->
  chars_upto (firstn (N.to_nat k) l) k /\ (N.to_nat k <= length l)%nat.
Proof.
  induction 1 as [l|l c n k Hd Hc Hu [IH1 IH2]].
  - split; [constructor|cbn; lia].
  - destruct (decode1_firstn l c n (N.to_nat (n + k)) Hd ltac:(lia)) as (Hd' & Hn).
    rewrite skipn_length in IH2. split; [|lia].
    econstructor; [exact Hd'|exact Hc|]. rewrite skipn_firstn_comm.
    replace (N.to_nat (n + k) - N.to_nat n)%nat with (N.to_nat k) by lia. exact IH1.
Qed.

(* the same, read on the input text: the bytes of the text between the two positions are a
   sequence of XML Chars *)
Theorem skip_chars_only_chars_text : forall text f s s',
  s_rest s = skipn (N.to_nat (s_pos s)) text ->
  skip_chars text f s = Ok s' ->
  all_chars (sub text (s_pos s) (s_pos s')).
Proof.
  intros text f s s' R H. destruct (skip_chars_only_chars _ _ _ _ H) as (Hle & Hc).
  apply chars_upto_firstn in Hc. destruct Hc as (Hc & Hlen).
  unfold all_chars, sub. rewrite <- R.
  replace (blen (firstn (N.to_nat (s_pos s' - s_pos s)) (s_rest s))) with (s_pos s' - s_pos s);
    [exact Hc|].
  unfold blen. rewrite firstn_length_le by exact Hlen. lia.
Qed.
Print Assumptions skip_chars_only_chars_text.

(* hence the body of every comment, PI, CDATA section and text node delivered by the tokenizer
   consists of XML Chars *)
Theorem consume_chars_only_chars : forall text f s sl s',
  s_rest s = skipn (N.to_nat (s_pos s)) text ->
  consume_chars text f s = Ok (sl, s') ->
  all_chars (slice_bytes text sl).
Proof.
  intros text f s sl s' R H. unfold consume_chars in H. ib H s1 H1. ib H sl1 H2.
  inversion H; subst. unfold slice_back in H2. apply mk_slice_ok in H2. subst sl.
  unfold slice_bytes. cbn [sl_start sl_end]. eapply skip_chars_only_chars_text; eauto.
Qed.
Print Assumptions consume_chars_only_chars.
