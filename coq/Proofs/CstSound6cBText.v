(* Proofs/CstSound6cBText.v -- C08 soundness on stage S6, the fragment [in_fragment_6c] (Proofs/CstSound6c.v): a text token
   of the BODY, and the value of an entity read in content, at ANY entity depth.  Proofs/CstSound6bBText.v with [PB] (now
   defined in Proofs/CstSound6cNest.v) proved MUTUALLY with [markup_use]: a markup value read at level S j' needs [PB j']
   for the references inside its character data, and hands back the trace of its inlining, through which the loop
   detector runs. *)
From Coq Require Import String.
From Coq Require Import List Arith NArith Bool Lia ZifyBool ZifyN ZifyNat.
Import ListNotations.
From RX Require Import Generated.
From RX.Model Require Import Base CharClass Stream Tokenizer Doc Builder Parse.
From RX.Spec Require Cst Chars CstU CstNs CstText CstEnt Scope Detector.
From RX.Spec Require Import CstFull CstFullS4 CstFullS5 CstFullS6.
From RX.Proofs Require Import Tactics CstLex CstULex CstTextLex.
From RX.Proofs Require CstEntText CstEntBuild CstEntRun CstFullS2Sem CstFullS2Lex WfParse BorrowParse CstTextBuild.
From RX.Proofs Require Import CstFullTree CstEntCSem.
From RX.Proofs Require Import DetectorProofs CstEntSem CstEntMeaning CstEntRejSem CstEntRejLevel CstFullS3Sem CstFullS3Text.
From RX.Proofs Require Import CstSound CstSoundT CstSoundTLex CstSoundULex CstSoundBuild CstSoundTBuild CstSoundTText.
From RX.Proofs Require Import CstSoundN CstSoundNLex CstSoundNBuild CstSoundNText.
From RX.Proofs Require Import CstSoundP CstSoundPEnt CstSoundPLex CstSoundPBuild CstSoundPText CstSoundPRef.
From RX.Proofs Require CstFullS4TSem CstFullS4Sem CstEntCBuild CstSound6uEmb.
From RX.Proofs Require Import CstSound6 CstSound6U CstSound6a CstSound6cFlat CstSound6cLex CstSound6cText CstSound6cRText CstSound6cRTok.
From RX.Proofs Require Import CstSound6aSem CstSound6cNest.
Open Scope N_scope.

Notation pd := CstFullS4Sem.pd.
Notation first_xdecl := CstFullS4Sem.first_xdecl.

(* ---- spec-side helpers on runs ---- *)
Lemma nso_text sc Q bs : ns_oks sc (bdens (@IText bpieces Q :: bs)) = ns_oks sc (bdens bs).
Proof. rewrite (ns_oks_nt sc (bdens (@IText bpieces Q :: bs))), bdens_cons, nt_app, nt_text. cbn [app]. rewrite <- ns_oks_nt. reflexivity. Qed.

Lemma nocr_cons_lit x b0 : x <> 13 -> nocr [T.PLit b0] -> nocr [T.PLit (x :: b0)].
Proof.
  unfold nocr. cbn [forallb E.ends_cr]. intros Hx H. rewrite andb_true_r in *. cbn [rev].
  destruct (rev b0) as [|y t]; cbn [app]; [apply negb_true_iff; lia|exact H].
Qed.

Lemma run_cons_lit tb m sc x ps bs tr : inline_run tb m ps = Some (bs, tr) -> x <> 13 -> PV bs ->
  exists bs', inline_run tb m (econs_lit x ps) = Some (bs', tr) /\ PV bs' /\ ns_oks sc (bdens bs') = ns_oks sc (bdens bs).
Proof.
  intros H Hx HP.
  assert (GEN : exists bs', inline_run tb m (E.EP (T.PLit [x]) :: ps) = Some (bs', tr) /\ PV bs' /\ ns_oks sc (bdens bs') = ns_oks sc (bdens bs)).
  { cbn [inline_run]. rewrite H. cbn [E.obind fst snd]. eexists. split; [reflexivity|]. split; [|apply nso_text].
    constructor; [|exact HP]. unfold pv1, nocr. cbn [forallb E.ends_cr rev app]. apply andb_true_iff. split; [apply negb_true_iff; lia|reflexivity]. }
  destruct ps as [|[[b0|hex ds|pe|b0]|nm] r]; try exact GEN.
  cbn [econs_lit]. cbn [inline_run] in H |- *. destruct (inline_run tb m r) as [[br trr]|]; [|discriminate]. cbn [E.obind fst snd] in H |- *.
  injection H as <- <-. eexists. split; [reflexivity|]. inversion HP as [|? ? H1 H2]; subst. split; [|rewrite !nso_text; reflexivity].
  constructor; [|exact H2]. cbn [pv1] in *. apply nocr_cons_lit; assumption.
Qed.


(* a run all of whose references are to character-data entities is character data *)
Lemma run_to_ps tb m ie : forall ps bs tr, inline_run tb m ps = Some (bs, tr) ->
  (forall n v, In (E.ERef n) ps -> ylookup tb n = Some v -> exists Q, y_pieces v = Some Q /\ y_items v = [@IText bpieces Q]) ->
  exists Q, E.inline_ps (ptable tb) false ie ps = Some (Q, tr) /\ (PV bs -> nocr Q).
Proof.
  induction ps as [|p ps IH]; intros bs tr H Hp.
  - cbn [inline_run] in H. injection H as <- <-. exists []. split; [reflexivity|reflexivity].
  - cbn [inline_run] in H. destruct p as [q|n].
    + destruct (inline_run tb m ps) as [[b1 t1]|] eqn:Er; [|discriminate]. cbn [E.obind fst snd] in H. injection H as <- <-.
      destruct (IH _ _ eq_refl (fun n v Hin => Hp n v (or_intror Hin))) as (Q & Hi & Hn).
      exists (q :: Q). split; [cbn [E.inline_ps andb]; rewrite Hi; reflexivity|].
      intros HP. inversion HP as [|? ? H1 H2]; subst. cbn [pv1] in H1. unfold nocr in *. cbn [forallb] in *.
      rewrite andb_true_r in H1. rewrite H1. exact (Hn H2).
    + destruct (ylookup tb n) as [v|] eqn:El; [|discriminate]. cbn [E.obind] in H.
      destruct (inline_run tb m ps) as [[b1 t1]|] eqn:Er; [|discriminate]. cbn [E.obind fst snd] in H. injection H as <- <-.
      destruct (Hp n v (or_introl eq_refl) El) as (Qv & Epv & Eiv).
      destruct (IH _ _ eq_refl (fun n0 v0 Hin => Hp n0 v0 (or_intror Hin))) as (Q & Hi & Hn).
      exists (E.mark :: Qv ++ E.mark :: Q). split.
      * cbn [E.inline_ps]. rewrite CstFullS4Sem.lookup_ptable, El. cbn [E.obind E.x_pieces E.x_trace andb]. rewrite Epv. cbn [E.obind]. rewrite Hi. reflexivity.
      * intros HP. rewrite Eiv in HP. inversion HP as [|? ? _ H2]; subst. cbn [app] in H2. inversion H2 as [|? ? H3 H4]; subst.
        inversion H4 as [|? ? _ H5]; subst. cbn [pv1] in H3. unfold nocr in *. cbn [forallb]. rewrite forallb_app. cbn [forallb].
        rewrite H3, (Hn H5). reflexivity.
Qed.

Definition y_pieces_of (v : X4.xvalue) (bs : list bitem) : option (list T.piece) :=
  match v, bs with X4.XText _, [IText Q] => Some Q | _, _ => None end.

Section BText.
Variable text : bytes.
Hypothesis HF : Frag6c text.
Variable xds : list X4.xdecl.
Variable ets : list entity.
Notation decls := (map pd xds).
(* a content-valued declaration whose literal is character data *)
Definition TextC (its : list uitem) : Prop := exists vps0 : list E.epiece,
  its = [@IText epieces vps0] /\ Forall (uep_ok true) (enc_epieces vps0) /\
  contains_b n3 (E.r_epieces (enc_epieces vps0)) = false /\ E.no_adjacent_elit (enc_epieces vps0) = true.
(* the entity of a declaration: its name, the range of its value, and what a content value exports *)
Definition env6 (d0 : X4.xdecl) (en : entity) : Prop :=
  uent_ok text (pd d0) en /\
  match X4.x_value d0 with
  | X4.XText _ => True
  | X4.XContent its => UseOK text (sl_start (en_value en)) its \/ TextC its
  end.
Hypothesis Henv6 : Forall2 env6 xds ets.
Hypothesis Hdecls : Forall CstFullS4TSem.udecl_okc decls.
Hypothesis Hmk : forall d its, In d decls -> E.e_value d = E.EContent its ->
  (mem_b 60 (E.r_value (E.e_value d)) = true /\ U8.Valid (E.r_value (E.e_value d))) \/ ImpT decls d.
(* a character-data declaration mentions character-data entities only *)
Hypothesis Hpure : forall d ps n d', In d xds -> X4.x_value d = X4.XText ps -> In (E.ERef n) (enc_epieces ps) ->
  first_xdecl xds n = Some d' -> exists ps', X4.x_value d' = X4.XText ps'.
Hypothesis Hnames : Forall (fun d => uname (E.e_name d)) decls.

Lemma env_of l1 l2 : Forall2 env6 l1 l2 -> Forall2 (uent_ok text) (map pd l1) l2.
Proof. induction 1 as [|d0 en l1 l2 [H _] _ IH]; [constructor|]. cbn [map]. constructor; assumption. Qed.
Definition Henv : Forall2 (uent_ok text) decls ets := env_of _ _ Henv6.

Notation tb4 := (X4.level xds E.max_level).
Notation W := (CstLex.W text).
Notation WV := (CstULex.WV text).
Notation sb := (slice_bytes text).
Notation T_ := (Parse.token text).
Notation WS := (CstSoundTText.WS text).
Notation WS_cons := (CstSoundTText.WS_cons text).
Notation SimP := (CstSoundPBuild.SimP text ets).
Notation SimD := (CstSound6cNest.SimD text ets).
Notation ResX := (CstSound6cNest.ResX text).
Notation Bal := CstEntRejSem.Bal.

Lemma find_first6_gen name en l1 l2 : Forall2 env6 l1 l2 -> find_entity text l2 name = Some en ->
  exists d0, first_xdecl l1 name = Some d0 /\ env6 d0 en.
Proof.
  unfold CstFullS4Sem.first_xdecl. induction 1 as [|d0 e0 l1 l2 H0 _ IH]; intros Hf; [discriminate|].
  cbn [find find_entity] in *. pose proof H0 as [[Hn _] _]. change (E.e_name (pd d0)) with (utf8s (X4.x_name d0)) in Hn.
  rewrite Hn, <- CstEntText.beq_bytes_eqb in Hf. destruct (E.beq (utf8s (X4.x_name d0)) name).
  - injection Hf as <-. exists d0. split; [reflexivity|exact H0].
  - exact (IH Hf).
Qed.
Lemma find_first6 name en : find_entity text ets name = Some en ->
  exists d0, first_xdecl xds name = Some d0 /\ env6 d0 en.
Proof. apply find_first6_gen. exact Henv6. Qed.

Lemma first_pd name d : first_decl decls name = Some d -> exists d0, first_xdecl xds name = Some d0 /\ d = pd d0.
Proof. rewrite CstFullS4Sem.first_decl_pd. destruct (first_xdecl xds name) as [d0|]; [|discriminate]. cbn [option_map]. intros E. injection E as <-. eauto. Qed.

Lemma first_x_in name d0 : first_xdecl xds name = Some d0 -> In d0 xds.
Proof. unfold CstFullS4Sem.first_xdecl. intros H. apply find_some in H. apply H. Qed.

Lemma SimP_D c stk : SimP c stk -> SimD c stk.
Proof. intros [S1 S2 S3 S4 S5 S6 S7]. constructor; [exact S1|exact S2|exact S3|exact S4| |exact S6|reflexivity]. destruct S5 as [A B0 C0 D]. constructor; [exact A|exact B0|exact C0|exact D]. Qed.
Lemma SimD_P c stk : SimD c stk -> c_ld c = ld_init -> SimP c stk.
Proof. intros [S1 S2 S3 S4 S5 S6 S7] H. constructor; [exact S1|exact S2|exact S3|exact S4| |exact S6|exact H]. destruct S5 as [A B0 C0 D]. constructor; [exact A|exact B0|exact C0|exact D]. Qed.

Lemma ResX_tframe c c' : tframe c c' -> ResX c -> ResX c'.
Proof. intros TF. apply ResX_nseq. apply TF. Qed.

Lemma W_no13 p x r : W p (x :: r) -> x <> 13.
Proof. intros H. pose proof (W_cr text HF _ _ H) as Hc. inversion Hc; assumption. Qed.

(* what the table says of a character-data declaration all of whose references are to character-data entities *)
Lemma pure_lookup k d ps : In d xds -> X4.x_value d = X4.XText ps ->
  forall n v, In (E.ERef n) (enc_epieces ps) -> ylookup (X4.level xds k) n = Some v ->
  exists Q, y_pieces v = Some Q /\ y_items v = [@IText bpieces Q].
Proof.
  intros Hin Ev n v Hr Hl. rewrite CstFullS4Sem.ylookup_level in Hl. destruct k as [|k']; [discriminate|].
  destruct (first_xdecl xds n) as [d'|] eqn:Ed; [|discriminate].
  destruct (Hpure d ps n d' Hin Ev Hr Ed) as (ps' & Ev'). rewrite Ev' in Hl. cbn [inline_value] in Hl.
  destruct (E.inline_ps (ptable (X4.level xds k')) false true (enc_epieces ps')) as [x|]; [|discriminate].
  cbn [E.obind] in Hl. injection Hl as <-. eexists. split; reflexivity.
Qed.

Notation PB := (CstSound6cNest.PB text xds ets).

(* a '<'-free value read by the content loop one level down: one text token *)
Lemma nest_text j' vs vps tail es0 c3 sx c4 stk k' : PB j' ->
  Forall (uep_ok true) vps -> contains_b n3 (E.r_epieces vps) = false -> E.no_adjacent_elit vps = true ->
  WV vs (E.r_epieces vps ++ tail) -> stream_from_substr text vs (vs + blen (E.r_epieces vps)) = Ok es0 ->
  SimD c3 stk -> ResX c3 -> ld_depth (c_ld c3) + N.of_nat k' = 10 ->
  parse_content_lvl text (S j') es0 c3 = Ok (sx, c4) ->
  exists bs1 tr1, inline_run (X4.level xds k') false vps = Some (bs1, tr1) /\ ld_run (c_ld c3) tr1 = Some (c_ld c4) /\
    Bal tr1 /\ PV bs1 /\ ns_oks (top_sc stk) (bdens bs1) = true /\ SimD c4 stk /\ ResX c4.
Proof.
  intros IHj Hok Hn3 Hadj HWv Hes HS HR Hd Hq4.
  destruct (stream_from_substr_ws text vs (E.r_epieces vps) tail (WV_W _ _ _ HWv)) as (Es & HWS). rewrite Es in Hes. injection Hes as <-.
  cbn [parse_content_lvl] in Hq4. unfold parse_content in Hq4. cbn [sst s_rest] in Hq4.
  destruct (uep_bytes true vps Hok) as (Hustr & H60).
  destruct (E.r_epieces vps) as [|y vb] eqn:Evb.
  - apply (uep_nil true) in Evb; [|exact Hok]. subst vps. cbn [app length parse_content_loop] in Hq4.
    rewrite at_end_sst, blen_nil in Hq4. replace (vs + 0 <=? vs) with true in Hq4 by lia. injection Hq4 as _ <-.
    exists [], []. split; [reflexivity|]. split; [reflexivity|]. split; [constructor|]. split; [constructor|]. split; [reflexivity|]. split; assumption.
  - cbn [app length] in Hq4. change (y :: vb ++ tail) with ((y :: vb) ++ tail) in Hq4.
    rewrite (content_loop_text_ne_u text context _ (vs + blen (y :: vb)) vs (y :: vb) tail c3 _ HWv eq_refl) in Hq4;
      [|apply (W_le text _ _ (W_app text _ _ _ (WV_W _ _ _ HWv)))|exact Hustr|exact H60|exact Hn3|discriminate].
    ib Hq4 c4' Hc4. injection Hq4 as _ <-. cbn [token_with] in Hc4.
    destruct (IHj _ _ _ _ _ stk k' HWv (CstFullS2Sem.ustr_valid _ Hustr) HS HR Hd Hc4) as (ps1 & bs1 & tr1 & E1 & Hps1 & Hi1 & Hr1 & Hb1 & HP1 & Hn1 & HS4 & HR4).
    assert (ps1 = vps) by (apply beps_unique; [exact Hps1|apply (uep_beps true); assumption|rewrite Evb; symmetry; exact E1]). subst ps1.
    exists bs1, tr1. auto 10.
Qed.

(* the loop of process_text *)
Lemma ploop_gen j r : (forall j', j = S j' -> PB j') -> forall fuel e p l more buf c buf' c' stk k,
  WS e p l more -> (exists dn, U8.Valid (dn ++ l)) -> SimD c stk -> ResX c -> ld_depth (c_ld c) + N.of_nat k = 10 ->
  BorrowParse.ptext_loop text (parse_content_lvl text j) r fuel (sst e p (l ++ more)) buf c = Ok (buf', c') ->
  exists ps bs tr, l = E.r_epieces ps /\ beps_ok ps /\
    inline_run (X4.level xds k) false ps = Some (bs, tr) /\ ld_run (c_ld c) tr = Some (c_ld c') /\ Bal tr /\ PV bs /\
    ns_oks (top_sc stk) (bdens bs) = true /\ SimD c' stk /\ ResX c' /\ ld_depth (c_ld c') = ld_depth (c_ld c).
Proof.
  intros IHj. induction fuel as [|fu IH]; intros e p l more buf c buf' c' stk k HW HV HS HR Hd0 H; cbn [BorrowParse.ptext_loop] in H; [noerr|].
  rewrite at_end_sst in H. pose proof HW as [HW0 Hw].
  assert (Hent : c_entities c = ets) by exact (sn_ent _ _ _ _ HS).
  destruct l as [|x l1].
  { rewrite blen_nil in Hw. replace (e <=? p) with true in H by lia. inversion H; subst.
    exists [], [], []. split; [reflexivity|]. split; [apply beps_nil|]. split; [reflexivity|]. split; [reflexivity|].
    split; [constructor|]. split; [constructor|]. auto. }
  rewrite blen_cons in Hw. replace (e <=? p) with false in H by lia.
  ib H q Hq. destruct q as [ch s1]. unfold parse_next_chunk in Hq. rewrite at_end_sst in Hq.
  replace (e <=? p) with false in Hq by lia. cbn [app curr_byte_unchecked sst s_rest bind] in Hq.
  destruct (x =? 38) eqn:E38.
  - assert (x = 38) by lia. subst x. cbv zeta in Hq. ib Hq rf Hrf.
    change (38 :: l1 ++ more) with ((38 :: l1) ++ more) in Hrf. fold (sst e p ((38 :: l1) ++ more)) in Hrf.
    destruct rf as [[rf s2]|]; [|noerr].
    destruct HV as (dn & HV).
    assert (HV0 : U8.Valid (38 :: l1)) by (apply (Valid_app_inv dn); [eapply valid_split; [|exact HV]; lia|exact HV]).
    destruct (cref_inv_p text HF _ _ _ _ _ _ HW HV0 Hrf)
      as [(hex & ds & l' & El & Hwf & (cp & Er) & Es2 & HW')|[(pe & l' & El & (cp & Er) & Es2 & HW')|(nm & name & l5 & Er & El & Hnb & Hnp & Hsb & Es2 & HW')]].
    + subst l1 rf. inversion Hq; subst ch s1. clear Hq. rewrite Es2 in H.
      assert (HV' : exists dn', U8.Valid (dn' ++ l')).
      { exists (dn ++ T.r_piece (T.PCharRef hex ds)). rewrite <- app_assoc. cbn [T.r_piece]. rewrite <- !app_assoc. exact HV. }
      destruct (IH _ _ _ _ _ _ _ _ _ _ HW' HV' HS HR Hd0 H) as (ps & bs & tr & -> & Hps & Hi & Hr & Hb & HP & Hn & HS' & HR' & Hd').
      exists (E.EP (T.PCharRef hex ds) :: ps), (@IText bpieces [T.PCharRef hex ds] :: bs), tr.
      split; [cbn [E.r_epieces flat_map E.r_epiece T.r_piece]; rewrite <- !app_assoc; reflexivity|].
      split; [apply beps_ref; [exact Hwf|reflexivity|exact Hps]|].
      split; [cbn [inline_run]; rewrite Hi; reflexivity|]. split; [exact Hr|]. split; [exact Hb|].
      split; [constructor; [reflexivity|exact HP]|]. split; [rewrite nso_text; exact Hn|auto].
    + subst l1 rf. inversion Hq; subst ch s1. clear Hq. rewrite Es2 in H.
      assert (HV' : exists dn', U8.Valid (dn' ++ l')).
      { exists (dn ++ T.r_piece (T.PPredef pe)). rewrite <- app_assoc. cbn [T.r_piece]. rewrite <- !app_assoc. exact HV. }
      destruct (IH _ _ _ _ _ _ _ _ _ _ HW' HV' HS HR Hd0 H) as (ps & bs & tr & -> & Hps & Hi & Hr & Hb & HP & Hn & HS' & HR' & Hd').
      exists (E.EP (T.PPredef pe) :: ps), (@IText bpieces [T.PPredef pe] :: bs), tr.
      split; [cbn [E.r_epieces flat_map E.r_epiece T.r_piece]; rewrite <- !app_assoc; reflexivity|].
      split; [apply beps_ref; [exact I|reflexivity|exact Hps]|].
      split; [cbn [inline_run]; rewrite Hi; reflexivity|]. split; [exact Hr|]. split; [exact Hb|].
      split; [constructor; [reflexivity|exact HP]|]. split; [rewrite nso_text; exact Hn|auto].
    + subst rf l1 s2. rewrite Hsb, Hent in Hq.
      destruct (find_entity text ets name) as [en|] eqn:Ef; [|noerr].
      inversion Hq; subst ch s1. clear Hq.
      destruct (find_first6 name en Ef) as (d0 & Hd0x & [_ Huse]).
      pose proof (first_x_in _ _ Hd0x) as Hin0.
      (* the common part: flush, enter, the value one level down, leave *)
      ib H c1 Hc1. destruct (flush_tframe _ _ _ _ Hc1) as (TF1 & Ld1).
      ib H ld1 Hl1. ib H ld2 Hl2. cbv zeta in H. ib H es0 Hes. ib H q4 Hq4. destruct q4 as [sx c4].
      match type of H with (if ?bb then _ else _) = _ => destruct bb; [discriminate|] end.
      assert (Henter : ld_enter (c_ld c) = Some ld2).
      { rewrite <- Ld1. pose proof (enter_agrees_model text (sst e (p + 1 + blen name + 1) (l5 ++ more)) (c_ld c1)) as Hm.
        destruct (ld_enter (c_ld c1)) as [ldx|].
        - rewrite Hl1 in Hm. cbn [bind] in Hm. rewrite Hl2 in Hm. injection Hm as <-. reflexivity.
        - exfalso. apply (Hm ld2). rewrite Hl1. cbn [bind]. exact Hl2. }
      destruct (enter_d _ _ Henter) as [Dd Dlt].
      destruct k as [|k']; [lia|].
      set (c3 := set_entity_floor (set_tag_name (set_ld c1 ld2) tag_name_null) (len_N (c_parent_prefixes (set_ld c1 ld2)))) in *.
      assert (TF3 : tframe c1 c3) by (repeat split; exists []; rewrite app_nil_r; split; [reflexivity|constructor]).
      assert (Ld3 : c_ld c3 = ld2) by reflexivity.
      pose proof (tframe_trans _ _ _ TF1 TF3) as TF13.
      pose proof (SimD_tframe text ets _ _ _ HS TF13) as HS3. pose proof (ResX_tframe _ _ TF13 HR) as HR3.
      assert (Hd3 : ld_depth (c_ld c3) + N.of_nat k' = 10) by (rewrite Ld3; lia).
      destruct j as [|j']; [cbn [parse_content_lvl] in Hq4; discriminate|]. specialize (IHj j' eq_refl).
      set (c6 := set_ld (set_entity_floor (set_tag_name c4 (c_tag_name (set_ld c1 ld2))) (c_entity_floor (set_ld c1 ld2)))
                        (dec_depth (c_ld (set_entity_floor (set_tag_name c4 (c_tag_name (set_ld c1 ld2))) (c_entity_floor (set_ld c1 ld2)))))) in *.
      assert (TF6 : tframe c4 c6) by (repeat split; exists []; rewrite app_nil_r; split; [reflexivity|constructor]).
      assert (Ld6 : c_ld c6 = dec_depth (c_ld c4)) by reflexivity.
      assert (HV' : exists dn', U8.Valid (dn' ++ l5)).
      { exists (dn ++ [38] ++ name ++ [59]). rewrite <- !app_assoc. exact HV. }
      (* what the value stands for in content *)
      assert (VAL : exists bsv trv, ylookup (X4.level xds (S k')) name = Some {| y_items := bsv; y_pieces := y_pieces_of (X4.x_value d0) bsv; y_trace := trv |} /\
                      ld_run ld2 trv = Some (c_ld c4) /\ Bal trv /\ PV bsv /\ ns_oks (top_sc stk) (bdens bsv) = true /\
                      SimD c4 stk /\ ResX c4 /\ uname name).
      { destruct (ref_decl text decls ets Henv Hdecls Hnames name en p (l5 ++ more) ltac:(cbn [app] in HW0 |- *; rewrite <- app_assoc in HW0; exact HW0) Ef)
          as [(d & vps & vs & tail & Hd & Ev & Hok & Hn3 & Hadj & Een & HWv & Hun & Hin)|(d & its & vs & tail & Hd & Ev & Hin & En & Een & HWv)];
          destruct (first_pd name d Hd) as (d0' & Hd0' & Epd); rewrite Hd0x in Hd0'; injection Hd0' as <-; subst d.
        - (* a character-data declaration: all its references are to character-data entities *)
          change (E.e_value (pd d0)) with (CstFullS4Sem.pv (X4.x_value d0)) in Ev. destruct (X4.x_value d0) as [ps0|its0] eqn:Exv; [|discriminate].
          cbn [CstFullS4Sem.pv] in Ev. injection Ev as <-.
          rewrite Een in Hes. cbn [sl sl_start sl_end] in Hes.
          destruct (nest_text j' vs _ tail es0 c3 sx c4 stk k' IHj Hok Hn3 Hadj HWv Hes HS3 HR3 Hd3 Hq4)
            as (bs1 & tr1 & Hi1 & Hr1 & Hb1 & HP1 & Hn1 & HS4 & HR4).
          destruct (run_to_ps _ false true _ _ _ Hi1 (pure_lookup k' d0 ps0 Hin0 Exv)) as (Q1 & Hq1 & Hnc).
          exists [@IText bpieces Q1], tr1. split.
          { rewrite CstFullS4Sem.ylookup_level, Hd0x, Exv. cbn [inline_value]. rewrite Hq1. reflexivity. }
          split; [rewrite <- Ld3; exact Hr1|]. split; [exact Hb1|]. split; [constructor; [exact (Hnc HP1)|constructor]|].
          split; [apply ns_oks_texts; reflexivity|]. auto.
        - change (E.e_value (pd d0)) with (CstFullS4Sem.pv (X4.x_value d0)) in Ev, Een, HWv.
          destruct (X4.x_value d0) as [ps0|its0] eqn:Exv; [discriminate|]. clear Ev.
          rewrite CstFullS4Sem.r_value_pv in Een, HWv. cbn [X4.r_xvalue] in Een, HWv.
          assert (Hun : uname name).
          { rewrite Forall_forall in Hnames. pose proof (Hnames _ Hin) as Hu. rewrite En in Hu. exact Hu. }
          rewrite Een in Huse, Hes. cbn [sl sl_start sl_end] in Huse, Hes.
          destruct Huse as [Huse|(vps0 & -> & Hok & Hn3 & Hadj)].
          + (* markup *)
            cbn [parse_content_lvl] in Hq4.
            destruct (markup_use text HF xds ets Henv Hdecls Hmk Hnames k' j' vs its0 tail es0 c3 sx c4 stk IHj Huse HWv Hes HS3 HR3 Hd3 Hq4)
              as (HS4 & HR4 & bsv & trv & HSem & Hrv).
            destruct HSem as (Hinl & Hbv & HPv & Hnv).
            exists bsv, trv. split.
            { rewrite CstFullS4Sem.ylookup_level, Hd0x, Exv. cbn [inline_value]. rewrite Hinl. reflexivity. }
            split; [rewrite <- Ld3; exact Hrv|]. split; [exact Hbv|]. auto 10.
          + (* character data that mentions a content-valued entity *)
            assert (Er : X4.r_uitems [@IText epieces vps0] = E.r_epieces (enc_epieces vps0)) by (cbn; apply app_nil_r).
            rewrite Er in Hes, HWv.
            destruct (nest_text j' vs _ tail es0 c3 sx c4 stk k' IHj Hok Hn3 Hadj HWv Hes HS3 HR3 Hd3 Hq4)
              as (bs1 & tr1 & Hi1 & Hr1 & Hb1 & HP1 & Hn1 & HS4 & HR4).
            exists bs1, tr1. split.
            { rewrite CstFullS4Sem.ylookup_level, Hd0x, Exv. cbn [inline_value inline_items inline_item].
              rewrite (inline_run_m _ true false), Hi1. cbn [E.obind fst snd]. rewrite !app_nil_r. reflexivity. }
            split; [rewrite <- Ld3; exact Hr1|]. auto 10. }
      destruct VAL as (bsv & trv & Hyl & Hrv & Hbv & HPv & Hnv & HS4 & HR4 & Hun).
      pose proof (ld_run_bal trv Hbv _ _ Hrv) as D4.
      assert (Hd6 : ld_depth (c_ld c6) = ld_depth (c_ld c)) by (rewrite Ld6, dec_d by lia; lia).
      destruct (IH _ _ _ _ _ _ _ _ _ (S k') HW' HV' (SimD_tframe text ets _ _ _ HS4 TF6) (ResX_tframe _ _ TF6 HR4) ltac:(lia) H)
        as (ps & bs & tr & -> & Hps & Hi & Hr & Hb & HP & Hn & HS' & HR' & Hd').
      exists (E.ERef name :: ps), (bmark :: bsv ++ bmark :: bs), (Detector.Enter :: trv ++ Detector.Exit :: tr).
      split; [cbn [E.r_epieces flat_map E.r_epiece]; rewrite <- !app_assoc; reflexivity|].
      split; [apply beps_ref; [split; [exact Hun|apply predef_false; exact Hnp]|reflexivity|exact Hps]|].
      split; [cbn [inline_run]; rewrite Hyl; cbn [E.obind y_items y_trace]; rewrite Hi; reflexivity|].
      split; [cbn [ld_run]; rewrite Henter, ld_run_app, Hrv; cbn [ld_run]; rewrite <- Ld6; exact Hr|].
      split; [constructor; assumption|].
      split.
      { constructor; [reflexivity|]. apply PV_app; [exact HPv|]. constructor; [reflexivity|exact HP]. }
      split; [|split; [exact HS'|split; [exact HR'|lia]]].
      unfold bmark. rewrite nso_text, CstFullS4Sem.bdens_app, CstFullTree.ns_oks_app, Hnv, nso_text. exact Hn.
  - fold (sst e p (x :: l1 ++ more)) in Hq. rewrite advance1_sst in Hq by lia. cbn [bind] in Hq.
    inversion Hq; subst ch s1. clear Hq.
    assert (HV' : exists dn', U8.Valid (dn' ++ l1)) by (destruct HV as (dn & HV); exists (dn ++ [x]); rewrite <- app_assoc; exact HV).
    destruct (IH _ _ _ _ _ _ _ _ _ _ (WS_cons _ _ _ _ _ HW) HV' HS HR Hd0 H) as (ps & bs & tr & -> & Hps & Hi & Hr & Hb & HP & Hn & HS' & HR' & Hd').
    destruct (run_cons_lit (X4.level xds k) false (top_sc stk) x _ _ _ Hi (W_no13 _ _ _ HW0) HP) as (bs' & Hi' & HP' & Hn').
    exists (econs_lit x ps), bs', tr. split; [rewrite r_econs_lit; reflexivity|]. split; [apply beps_lit; [lia|exact Hps]|].
    split; [exact Hi'|]. split; [exact Hr|]. split; [exact Hb|]. split; [exact HP'|]. split; [rewrite Hn'; exact Hn|auto].
Qed.

Lemma pb_step j : (forall j', j = S j' -> PB j') -> PB j.
Proof.
  intros IHj p x tail c c' stk k HWV HVx HS HR Hd H. pose proof (WV_W _ _ _ HWV) as HW.
  rewrite BorrowParse.process_text_with_eq in H. cbv zeta in H. rewrite (W_slice text _ _ _ HW) in H.
  destruct (existsb (fun y => (y =? 38) || (y =? 13)) x) eqn:Ee; cbn [negb] in H.
  - cbn [fst snd] in H. destruct (stream_from_substr_ws text p x tail HW) as (Es & HWS). rewrite Es in H. cbn [bind] in H.
    ib H q Hq. destruct q as [buf c1].
    destruct (ploop_gen j _ IHj _ _ _ _ _ _ _ _ _ stk k HWS (ex_intro _ [] HVx) HS HR Hd Hq)
      as (ps & bs & tr & E1 & Hps & Hi & Hr & Hb & HP & Hn & HS1 & HR1 & Hd1).
    destruct (flush_tframe _ _ _ _ H) as (TF2 & Ld2).
    exists ps, bs, tr. split; [exact E1|]. split; [exact Hps|]. split; [exact Hi|]. split; [rewrite Ld2; exact Hr|]. split; [exact Hb|].
    split; [exact HP|]. split; [exact Hn|]. split; [exact (SimD_tframe text ets _ _ _ HS1 TF2)|exact (ResX_tframe _ _ TF2 HR1)].
  - destruct (append_text_tframe _ _ _ _ H) as (TF & Ld).
    assert (H38 : Forall (fun y => y <> 38) x).
    { apply (no38 (fun y => (y =? 38) || (y =? 13))); [intros y ->; reflexivity|exact Ee]. }
    pose proof (W_cr_l text HF _ _ _ HW) as H13.
    destruct (lit_eps_ok (E.level decls 10) false false x H38 H13) as (E1 & E2 & _ & _).
    exists (lit_eps x), (match x with [] => [] | _ => [@IText bpieces [T.PLit x]] end), [].
    split; [symmetry; exact E1|]. split; [exact E2|]. split; [destruct x; reflexivity|]. split; [cbn [ld_run]; rewrite Ld; reflexivity|].
    split; [constructor|]. split.
    { destruct x as [|y0 x0]; [constructor|]. constructor; [|constructor]. unfold pv1, nocr. cbn [forallb]. rewrite (lit_nocr _ H13). reflexivity. }
    split; [destruct x; [reflexivity|apply ns_oks_texts; reflexivity]|].
    split; [exact (SimD_tframe text ets _ _ _ HS TF)|exact (ResX_tframe _ _ TF HR)].
Qed.

Theorem pb_all : forall j, PB j.
Proof. induction j as [|j IH]; apply pb_step; intros j' E; [discriminate|]. injection E as <-. exact IH. Qed.

(* a text token of the body *)
Lemma ptok_body p x tail c c' stk : WV p (x ++ tail) -> U8.Valid x -> SimP c stk -> ResX c ->
  process_text_with text (parse_content_lvl text entity_levels) (sl p (p + blen x)) (p, p + blen x) c = Ok c' ->
  exists ps bs tr, x = E.r_epieces ps /\ beps_ok ps /\ inline_run tb4 false ps = Some (bs, tr) /\
    CstSound6uEmb.GoodT tr /\ PV bs /\ ns_oks (top_sc stk) (bdens bs) = true /\ SimP c' stk /\ ResX c'.
Proof.
  intros HWV HVx HS HR H. pose proof (sn_ld _ _ _ _ HS) as Hld.
  destruct (pb_all entity_levels _ _ _ _ _ stk 10%nat HWV HVx (SimP_D _ _ HS) HR ltac:(rewrite Hld; reflexivity) H)
    as (ps & bs & tr & E1 & Hps & Hi & Hr & Hb & HP & Hn & HS1 & HR1).
  rewrite Hld in Hr. pose proof (ld_run_bal tr Hb _ _ Hr) as Hd1.
  pose proof (CstEntBuild.ld_run_init tr _ Hr Hd1) as Ec1.
  exists ps, bs, tr. split; [exact E1|]. split; [exact Hps|]. split; [exact Hi|]. split; [split; [exact Hb|rewrite Ec1 in Hr; exact Hr]|].
  split; [exact HP|]. split; [exact Hn|]. split; [|exact HR1].
  apply SimD_P; [exact HS1|exact Ec1].
Qed.

Lemma step_text_b p cs more c c' stk : WV p (utf8s cs ++ more) -> raw_text_ok_n cs -> SimP c stk -> ResX c ->
  T_ (TText (sl p (p + blen (utf8s cs))) (p, p + blen (utf8s cs))) c = Ok c' ->
  SimP c' stk /\ ResX c' /\
  exists ps' b1 t1, utf8s cs = E.r_epieces (enc_epieces ps') /\ forallb (wf_uepiece 60 true true false) ps' = true /\
    E.no_adjacent_elit ps' = true /\ ps' <> [] /\
    inline_run tb4 false (enc_epieces ps') = Some (b1, t1) /\ CstSound6uEmb.GoodT t1 /\ PV b1 /\ ns_oks (top_sc stk) (bdens b1) = true.
Proof.
  intros HWV Hraw HS HR H. unfold Parse.token, token_with, process_text in H.
  assert (HVx : U8.Valid (utf8s cs)) by (apply Valid_uchars; apply Hraw).
  destruct (ptok_body _ _ _ _ _ _ HWV HVx HS HR H) as (ps & bs & tr & E1 & Hps & Hi & Hg & HP & Hn & HS' & HR').
  split; [exact HS'|]. split; [exact HR'|].
  destruct (decoded_etext cs ps Hraw E1 Hps) as (ps' & Eps & A & B0 & C0).
  exists ps', bs, tr. rewrite Eps. auto 10.
Qed.

End BText.
