(* Proofs/CstRangeEValid.v -- C13's validity clause ("entity-expanded nodes included") re-derived
   for the fragment of Spec/CstEnt.v from the exact ranges of CstRangeEMain.v: every span of
   [espans c] -- in the body or inside an entity declaration of the DOCTYPE -- and every borrowed
   span of [eshapes c] lies inside the rendering (a syntactic fact about Proofs/CstRangeEDefs.v);
   so every node range of the parsed document is valid ([ranges_valid_e]).  The general theorem
   RangeParse.parse_ranges_valid gives the same for these documents ([ranges_valid_e_general]). *)
From Coq Require Import Ascii String.
From Coq Require Import List NArith PeanoNat Bool Lia ZifyBool ZifyN ZifyNat.
Import ListNotations.
From RX Require Import Generated.
From RX.Model Require Import Base CharClass Stream Tokenizer Doc Builder Parse.
From RX.Spec Require Cst CstText CstEnt Detector.
From RX.Spec Require Import Text.
From RX.Proofs Require Import Tactics CstLex CstDoc.
From RX.Proofs Require Import CstEntSem CstEntText CstEntRun CstEntItems CstEntDoc CstEntMain.
From RX.Proofs Require Import CstRangeDefs CstRangeTDefs CstRangeEDefs CstRangeEFrags CstRangeEItems CstRangeEMain.
From RX.Proofs Require RangeInv RangeParse CycleStream.
Open Scope N_scope.

Ltac len := unfold nlen, blen in *; repeat rewrite ?app_length, ?map_length in *; cbn [length] in *; lia.

(* a span inside a text of n bytes *)
Definition inb (n : N) (r : N * N) : Prop := fst r <= snd r /\ snd r <= n.

(* ------------------------------------------------------------------ *)
(* the items lie inside the rendering                                   *)
Definition within (lo hi : N) (x : N * E.item) : Prop := lo <= fst x /\ fst x + nlen (E.r_item (snd x)) <= hi.

Lemma within_weaken lo hi lo' hi' L : lo' <= lo -> hi <= hi' -> Forall (within lo hi) L -> Forall (within lo' hi') L.
Proof. intros H1 H2. apply Forall_impl. intros x [A B0]. split; lia. Qed.

Lemma eitems_list_within cs :
  Forall (fun c => forall p, Forall (within p (p + nlen (E.r_item c))) (eitems_at p c)) cs ->
  forall q, Forall (within q (q + nlen (E.r_items cs))) (eitems_list q cs).
Proof.
  induction 1 as [|c r Hc _ IH]; intros q; [constructor|].
  cbn [eitems_list]. rewrite r_items_cons. apply Forall_app. split.
  - apply (within_weaken q (q + nlen (E.r_item c))); [lia|len|apply Hc].
  - apply (within_weaken (q + nlen (E.r_item c)) (q + nlen (E.r_item c) + nlen (E.r_items r))); [lia|len|apply IH].
Qed.

Lemma eitems_at_within : forall i p, Forall (within p (p + nlen (E.r_item i))) (eitems_at p i).
Proof.
  intros i. induction i as [n a w|n a w cs w2 IH|ps|bs|t s v] using eitem_ind; intros p;
    try (constructor; [split; cbn [fst snd]; lia|constructor]).
  rewrite eitems_at_elem. constructor; [split; cbn [fst snd]; lia|].
  pose proof (eitems_list_within cs IH (p + estart_tag_len n a w)) as H.
  revert H. apply within_weaken; [lia|]. rewrite er_item_elem. unfold estart_tag_len. len.
Qed.

Lemma ebefore_at_within : forall l p, Forall (within p (p + before_len_e l)) (ebefore_at p l).
Proof.
  induction l as [|[i w] r IH]; intros p; [constructor|]. cbn [ebefore_at]. apply Forall_app.
  assert (E : before_len_e ((i, w) :: r) = nlen (E.r_item i) + nlen w + before_len_e r).
  { unfold before_len_e. cbn [flat_map fst snd]. len. }
  rewrite E. split.
  - apply (within_weaken p (p + nlen (E.r_item i))); [lia|lia|apply eitems_at_within].
  - eapply within_weaken; [| |apply (IH (p + nlen (E.r_item i) + nlen w))]; lia.
Qed.

Lemma eafter_at_within : forall l p, Forall (within p (p + pairs_len_e l)) (eafter_at p l).
Proof.
  induction l as [|[w i] r IH]; intros p; [constructor|]. cbn [eafter_at]. apply Forall_app.
  assert (E : pairs_len_e ((w, i) :: r) = nlen w + nlen (E.r_item i) + pairs_len_e r).
  { unfold pairs_len_e. cbn [flat_map fst snd]. len. }
  rewrite E. split.
  - apply (within_weaken (p + nlen w) (p + nlen w + nlen (E.r_item i))); [lia|lia|apply eitems_at_within].
  - eapply within_weaken; [| |apply (IH (p + nlen w + nlen (E.r_item i)))]; lia.
Qed.

Lemma render_len c :
  nlen (E.render c) =
  nlen (E.d_ws0 c) + before_len_e (E.d_before c) + nlen (E.r_dtd (E.d_dtd c)) + pairs_len_e (E.d_mid c) +
  nlen (E.d_ws1 c) + nlen (E.r_item (E.d_root c)) + pairs_len_e (E.d_after c) + nlen (E.d_ws_end c).
Proof. unfold E.render, before_len_e, pairs_len_e. len. Qed.

Lemma edoc_items_within c : Forall (within 0 (nlen (E.render c))) (edoc_items_at c).
Proof.
  unfold edoc_items_at. pose proof (render_len c) as E.
  assert (Em : mid_offset c = nlen (E.d_ws0 c) + before_len_e (E.d_before c) + nlen (E.r_dtd (E.d_dtd c))) by reflexivity.
  assert (Er : eroot_offset c = mid_offset c + pairs_len_e (E.d_mid c) + nlen (E.d_ws1 c)) by reflexivity.
  repeat (apply Forall_app; split).
  - eapply within_weaken; [| |apply (ebefore_at_within (E.d_before c) (nlen (E.d_ws0 c)))]; lia.
  - eapply within_weaken; [| |apply (eafter_at_within (E.d_mid c) (mid_offset c))]; lia.
  - eapply within_weaken; [| |apply (eitems_at_within (E.d_root c) (eroot_offset c))]; lia.
  - eapply within_weaken; [| |apply (eafter_at_within (E.d_after c) (eroot_offset c + nlen (E.r_item (E.d_root c))))]; lia.
Qed.

(* ------------------------------------------------------------------ *)
(* the values of the declarations lie inside the rendering              *)
Definition tb_ok (n : N) (tb : list (bytes * (N * E.evalue))) : Prop :=
  Forall (fun x => fst (snd x) + nlen (E.r_value (snd (snd x))) <= n) tb.

Lemma vtable_ok : forall ds q, tb_ok (q + nlen (flat_map E.r_decl ds)) (vtable_at q ds).
Proof.
  induction ds as [|e r IH]; intros q; [constructor|]. cbn [vtable_at flat_map]. constructor.
  - cbn [fst snd]. unfold decl_value_off, E.r_decl, E.kw_entity. len.
  - specialize (IH (q + nlen (E.r_decl e))). revert IH. apply Forall_impl. intros x Hx. len.
Qed.

Lemma vlookup_ok n tb nm vs v : tb_ok n tb -> vlookup tb nm = Some (vs, v) -> vs + nlen (E.r_value v) <= n.
Proof.
  induction 1 as [|[m [vs0 v0]] r Hx _ IH]; cbn [vlookup]; [discriminate|].
  destruct (E.beq m nm); [|exact IH]. intros [= <- <-]. exact Hx.
Qed.

Lemma evtable_ok c : tb_ok (nlen (E.render c)) (evtable c).
Proof.
  unfold evtable. pose proof (vtable_ok (E.t_decls (E.d_dtd c)) (decls_offset c)) as H.
  revert H. apply Forall_impl. intros x Hx.
  assert (decls_offset c + nlen (flat_map E.r_decl (E.t_decls (E.d_dtd c))) <= nlen (E.render c)); [|lia].
  rewrite render_len. unfold decls_offset, dtd_offset, E.r_dtd, E.kw_doctype. len.
Qed.

(* ------------------------------------------------------------------ *)
(* the fragments                                                        *)
Definition fd_ok (n : N) (f : fdesc) : Prop :=
  inb n (fst f) /\ match snd f with Some sp => inb n sp | None => True end.

Lemma frs_ps_ref0 tb ne nm rest r :
  frs_ps 0 tb ne (E.ERef nm :: rest) r = (if ne then [(r, None)] else []) ++ [] ++ frs_ps 0 tb false rest r.
Proof. reflexivity. Qed.

Lemma frs_ps_ok n tb : tb_ok n tb ->
  forall fuel ne ps r, inb n r -> Forall (fd_ok n) (frs_ps fuel tb ne ps r).
Proof.
  intros Htb. induction fuel as [|fu IHf]; intros ne ps; revert ne;
    induction ps as [|[p|nm] rest IH]; intros ne r Hr.
  - rewrite frs_ps_nil. destruct ne; [constructor; [split; [exact Hr|exact I]|constructor]|constructor].
  - rewrite frs_ps_piece. apply IH. exact Hr.
  - rewrite frs_ps_ref0. apply Forall_app. split; [destruct ne; [constructor; [split; [exact Hr|exact I]|constructor]|constructor]|].
    cbn [app]. apply IH. exact Hr.
  - rewrite frs_ps_nil. destruct ne; [constructor; [split; [exact Hr|exact I]|constructor]|constructor].
  - rewrite frs_ps_piece. apply IH. exact Hr.
  - rewrite frs_ps_ref. apply Forall_app. split; [destruct ne; [constructor; [split; [exact Hr|exact I]|constructor]|constructor]|].
    apply Forall_app. split; [|apply IH; exact Hr].
    destruct (vlookup tb nm) as [[vs [vps|its]]|] eqn:El; try constructor.
    pose proof (vlookup_ok _ _ _ _ _ Htb El) as Hv. cbn [E.r_value] in Hv. cbv zeta.
    assert (Hvr : inb n (vs, vs + nlen (E.r_epieces vps))) by (split; cbn [fst snd]; lia).
    destruct (E.r_epieces vps) as [|x V] eqn:EV; [constructor|].
    destruct (has_amp_cr (x :: V)).
    + apply IHf. exact Hvr.
    + constructor; [split; [exact Hvr|exact Hvr]|constructor].
Qed.

Definition r_rseg (s : rseg) : bytes :=
  match s with RS l => E.r_epieces l | RC bs => E.T.cdata_open ++ bs ++ E.T.cdata_close end.

Lemma rsegs_render ps : flat_map r_rseg (rsegs ps) = E.r_epieces ps.
Proof.
  rewrite rsegs_esegs, <- (esegs_render ps). induction (esegs ps) as [|[l|bs] t IH]; [reflexivity| |];
    cbn [map flat_map rseg_of r_rseg r_eseg]; rewrite IH; reflexivity.
Qed.

Lemma frs_segs_ok n tb : tb_ok n tb ->
  forall L p, p + nlen (flat_map r_rseg L) <= n -> Forall (fd_ok n) (frs_segs tb p L).
Proof.
  intros Htb. induction L as [|[a|bs] t IH]; intros p Hp; [constructor| |]; cbn [frs_segs flat_map r_rseg] in *.
  - assert (Hr : inb n (p, p + nlen (E.r_epieces a))) by (split; cbn [fst snd]; len).
    apply Forall_app. split.
    + destruct (has_amp_cr (E.r_epieces a)); [apply frs_ps_ok; assumption|constructor; [split; exact Hr|constructor]].
    + apply IH. len.
  - change (length E.T.cdata_open) with 9%nat in *. assert (Hl : nlen (E.T.cdata_open ++ bs ++ E.T.cdata_close ++ flat_map r_rseg t) = 9 + nlen bs + 3 + nlen (flat_map r_rseg t)).
    { unfold nlen. rewrite !app_length. change (length E.T.cdata_open) with 9%nat. change (length E.T.cdata_close) with 3%nat. lia. }
    rewrite <- !app_assoc in Hp. rewrite Hl in Hp.
    constructor.
    + split; [split; cbn [fst snd]; lia|]. destruct (has_cr bs); [exact I|]. split; cbn [fst snd]; lia.
    + apply IH. lia.
Qed.

(* ------------------------------------------------------------------ *)
(* the nodes                                                            *)
Definition node_ok (n : N) (y : (N * N) * eshape) : Prop :=
  inb n (fst y) /\ match snd y with ESText (Some sp) => inb n sp | _ => True end.

Lemma enode_of_ok n tb x : tb_ok n tb -> within 0 n x -> Forall (node_ok n) (enode_of tb x).
Proof.
  intros Htb [_ Hx]. destruct x as [p i]. cbn [fst snd] in Hx. unfold enode_of. cbn [fst snd].
  destruct i as [nm a w body|ps|bs|t s v];
    try (constructor; [split; [split; cbn [fst snd]; lia|exact I]|constructor]).
  cbn [E.r_item] in Hx. unfold run_frags.
  pose proof (frs_segs_ok n tb Htb (rsegs ps) p ltac:(rewrite rsegs_render; exact Hx)) as H.
  destruct (frs_segs tb p (rsegs ps)) as [|[r b0] [|f2 fr]]; [constructor| |]; cbn [node_of_frags].
  - inversion H as [|? ? [H1 H2] _]; subst. constructor; [|constructor]. split; [exact H1|]. cbn [snd] in *. destruct b0; [exact H2|exact I].
  - inversion H as [|? ? [H1 H2] _]; subst. constructor; [|constructor]. split; [exact H1|exact I].
Qed.

(* every span of [espans c], and every borrowed span of [eshapes c], lies inside the rendering *)
Theorem enodes_inside c : Forall (node_ok (nlen (E.render c))) (enodes c).
Proof.
  unfold enodes. pose proof (edoc_items_within c) as H. induction H as [|x L Hx _ IH]; [constructor|].
  cbn [flat_map]. apply Forall_app. split; [apply enode_of_ok; [apply evtable_ok|exact Hx]|exact IH].
Qed.

Corollary espans_inside c : Forall (inb (nlen (E.render c))) (espans c).
Proof.
  unfold espans. apply Forall_forall. intros r Hr. apply in_map_iff in Hr. destruct Hr as (y & <- & Hy).
  pose proof (enodes_inside c) as H. rewrite Forall_forall in H. apply (H y Hy).
Qed.
Print Assumptions enodes_inside.

(* ------------------------------------------------------------------ *)
(* (3) C13's validity clause for this fragment, from (1)                *)
Theorem ranges_valid_e : forall (c : E.doc) (opt : options) d,
  E.wf_doc c = true ->
  etext_only c = true ->                                       (* PARTIAL: every declared entity is character data *)
  allow_dtd opt = true ->
  N.of_nat (length (E.sem c)) < nodes_limit opt ->
  N.of_nat (length (E.render c)) <= u32_max ->
  parse (E.render c) opt = Ok d ->
  (* every node range -- of a node of the body or of a node that comes from an entity -- is ordered,
     inside the input and on character boundaries; every Borrowed text is a slice inside the input *)
  (forall nd, In nd (d_nodes d) -> RangeInv.valid_range (E.render c) (nd_range nd)) /\
  (forall nd s, In nd (d_nodes d) -> nd_kind nd = KText (Borrowed (SIn s)) ->
     sl_start s <= sl_end s /\ sl_end s <= tlen (E.render c)).
Proof.
  intros c opt d Hwf Het Hdtd Hlim Hsz H.
  pose proof (erender_asc c Hwf Het) as Hascii.
  destruct (parse_observed_e c opt d Hwf Het Hdtd Hlim Hsz H) as (R0 & (k0 & Hk0 & S0) & _).
  assert (Hv : forall r, inb (nlen (E.render c)) r -> RangeInv.valid_range (E.render c) r).
  { intros r [H1 H2]. unfold RangeInv.valid_range. change (tlen (E.render c)) with (nlen (E.render c)).
    split; [exact H1|]. split; [exact H2|].
    split; apply (CstLex.boundary_ok (E.render c) Hascii); unfold tlen, blen, nlen in *; lia. }
  destruct (d_nodes d) as [|root nodes] eqn:En; [discriminate|]. cbn [map] in R0, Hk0.
  injection R0 as Rroot R. injection Hk0 as Kroot Hk0. rewrite <- Hk0 in S0. clear Hk0.
  assert (S : Forall2 stored_as_e (map nd_kind nodes) (eshapes c)) by exact S0.
  split.
  - intros nd [<-|Hin].
    + rewrite Rroot. apply Hv. split; cbn [fst snd]; unfold nlen, tlen, blen; lia.
    + apply Hv. pose proof (espans_inside c) as HF. rewrite Forall_forall in HF. apply HF.
      rewrite <- R. apply in_map. exact Hin.
  - intros nd s [<-|Hin] Hk.
    + exfalso. congruence.
    + pose proof (enodes_inside c) as HF. unfold eshapes in S.
      assert (G : forall (ks : list node_kind) (ys : list ((N * N) * eshape)),
                 Forall2 stored_as_e ks (map snd ys) -> Forall (node_ok (nlen (E.render c))) ys ->
                 In (KText (Borrowed (SIn s))) ks -> inb (nlen (E.render c)) (sl_start s, sl_end s)).
      { clear. intros ks ys. revert ks. induction ys as [|y ys IH]; intros ks HF2 HFo Hin; cbn [map] in HF2.
        - inversion HF2; subst. destruct Hin.
        - inversion HF2 as [|k0 sh ks' ? Hk Hr]; subst. inversion HFo as [|? ? [_ Hy] HFo']; subst.
          destruct Hin as [->|Hin]; [|apply (IH ks' Hr HFo' Hin)].
          cbn [stored_as_e] in Hk. destruct (snd y) as [|[sp|]| |]; try contradiction. rewrite Hk. exact Hy. }
      apply (G _ _ S HF). rewrite <- Hk. apply in_map. exact Hin.
Qed.
Print Assumptions ranges_valid_e.

(* consistency: the general theorem (for every parsed document, entity-expanded nodes included)
   gives the validity of the same ranges *)
Corollary ranges_valid_e_general : forall (c : E.doc) (opt : options) d,
  E.wf_doc c = true -> etext_only c = true ->
  parse (E.render c) opt = Ok d -> RangeInv.doc_ranges_ok (E.render c) d.
Proof.
  intros c opt d Hwf Het H. apply (RangeParse.parse_ranges_valid _ opt); [|exact H].
  unfold valid_utf8_b. apply CycleStream.valid_utf8_ascii; [|lia].
  pose proof (erender_asc c Hwf Het) as Ha. apply forallb_forall. intros x Hx.
  unfold asc in Ha. rewrite Forall_forall in Ha. specialize (Ha x Hx). lia.
Qed.
Print Assumptions ranges_valid_e_general.

(* ... and, with (1), that every span of [espans c] is a valid range of the rendering: the two
   theorems agree *)
Corollary espans_valid_by_general : forall (c : E.doc) (opt : options) d,
  E.wf_doc c = true -> etext_only c = true -> allow_dtd opt = true ->
  N.of_nat (length (E.sem c)) < nodes_limit opt -> N.of_nat (length (E.render c)) <= u32_max ->
  parse (E.render c) opt = Ok d ->
  Forall (RangeInv.valid_range (E.render c)) (espans c).
Proof.
  intros c opt d Hwf Het Hdtd Hlim Hsz H.
  destruct (ranges_valid_e_general c opt d Hwf Het H) as (G & _).
  destruct (parse_render_ranges_e c opt d Hwf Het Hdtd Hlim Hsz H) as [R _].
  rewrite <- R. apply Forall_forall. intros r Hr. apply in_map_iff in Hr. destruct Hr as (nd & <- & Hin).
  apply G. destruct (d_nodes d); [destruct Hin|right; exact Hin].
Qed.
Print Assumptions espans_valid_by_general.
