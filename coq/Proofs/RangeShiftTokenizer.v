(* Proofs/RangeShiftTokenizer.v -- C13 (shift by prolog whitespace), part 3: the tokenizer run on
   [ws ++ text] from a shifted stream calls its callback with the shifted tokens, for any pair
   of callbacks that are related on shifted tokens. *)
From Coq Require Import Ascii String.
From Coq Require Import List Arith NArith Bool Lia ZifyBool ZifyN ZifyNat.
Import ListNotations.
From RX Require Import Generated.
From RX.Model Require Import Base CharClass Stream Tokenizer.
From RX.Proofs Require Import Tactics NoPanicUtf8 NoPanicStream RangeShiftBase RangeShiftStream.
Open Scope N_scope.

Definition sh_rng (k : N) (r : range) : range := (fst r + k, snd r + k).
Definition sh_ee (k : N) (e : element_end) : element_end :=
  match e with EClose p l => EClose (sh_sl k p) (sh_sl k l) | EOpen => EOpen | EEmpty => EEmpty end.
Definition sh_tok (k : N) (tok : token) : token :=
  match tok with
  | TPI t c r => TPI (sh_sl k t) (option_map (sh_sl k) c) (sh_rng k r)
  | TComment t r => TComment (sh_sl k t) (sh_rng k r)
  | TEntityDecl n v => TEntityDecl (sh_sl k n) (sh_sl k v)
  | TElementStart p l st => TElementStart (sh_sl k p) (sh_sl k l) (st + k)
  | TAttribute r ql el p l v => TAttribute (sh_rng k r) ql el (sh_sl k p) (sh_sl k l) (sh_sl k v)
  | TElementEnd e r => TElementEnd (sh_ee k e) (sh_rng k r)
  | TText t r => TText (sh_sl k t) (sh_rng k r)
  | TCdata t r => TCdata (sh_sl k t) (sh_rng k r)
  end.

(* what the callbacks may assume of a token *)
Definition tok_wf (tok : token) : Prop :=
  match tok with TElementStart p l _ => slice_len l <> 0 /\ sl_start p <> 0 | _ => True end.

Lemma consume_qname_nonempty text s p l s' : consume_qname text s = Ok (p, l, s') -> slice_len l <> 0.
Proof.
  unfold consume_qname. intros H. apply bind_ok in H. destruct H as [[spl s1] [_ H]]. cbv beta iota in H.
  apply bind_ok in H. destruct H as [[p0 l0] [_ H]]. cbv beta iota in H.
  destruct (_ && _). { apply bind_ok in H. destruct H as [? [_ H]]. discriminate. }
  destruct (negb (str_is_name_start (slice_bytes text l0))) eqn:E.
  { apply bind_ok in H. destruct H as [? [_ H]]. discriminate. }
  injection H as <- <- <-. intros Hz. unfold slice_len in Hz. unfold slice_bytes, sub in E.
  rewrite Hz in E. cbn in E. discriminate.
Qed.

Lemma mk_slice_fields text a e sl : mk_slice text a e = Ok sl -> sl_start sl = a /\ sl_end sl = e.
Proof.
  unfold mk_slice. destruct (_ || _); [discriminate|]. destruct (_ && _); [|discriminate].
  intros [= <-]. split; reflexivity.
Qed.

Lemma consume_qname_prefix_start text s p l s' : consume_qname text s = Ok (p, l, s') -> sl_start p = s_pos s.
Proof.
  unfold consume_qname. intros H. apply bind_ok in H. destruct H as [[spl s1] [_ H]]. cbv beta iota in H.
  apply bind_ok in H. destruct H as [[p0 l0] [H2 H]]. cbv beta iota in H.
  assert (Hp : sl_start p0 = s_pos s).
  { destruct spl as [sp|].
    - apply bind_ok in H2. destruct H2 as [pp [Hpp H2]]. apply bind_ok in H2. destruct H2 as [ll [_ H2]].
      injection H2 as <- <-. apply mk_slice_fields in Hpp. tauto.
    - apply bind_ok in H2. destruct H2 as [ll [_ H2]]. apply bind_ok in H2. destruct H2 as [pp [Hpp H2]].
      injection H2 as <- <-. apply mk_slice_fields in Hpp. tauto. }
  destruct (_ && _). { apply bind_ok in H. destruct H as [? [_ H]]. discriminate. }
  destruct (negb _). { apply bind_ok in H. destruct H as [? [_ H]]. discriminate. }
  injection H as <- <- <-. exact Hp.
Qed.

Section Shift.
Variable ws text : bytes.
Hypothesis Hvalid : valid_utf8_b text = true.
Hypothesis Hws : forallb byte_is_space ws = true.
Variable C : Type.
Variable ev1 ev2 : token -> C -> res C.
Variable fc : C -> C.
Notation text2 := (ws ++ text).
Notation k := (blen ws).
Notation shs := (sh_s k).
Notation shl := (sh_sl k).
Hypothesis Hev : forall tok c, tok_wf tok -> rsimf fc (ev1 tok c) (ev2 (sh_tok k tok) (fc c)).

Definition shp (x : stream * C) : stream * C := (shs (fst x), fc (snd x)).
Definition she (x : bool * stream * C) : bool * stream * C := (fst (fst x), shs (snd (fst x)), fc (snd x)).

Lemma sub_kk a b : a + k - (b + k) = a - b.
Proof. lia. Qed.

Ltac sync1 :=
  rewrite ?(at_end_sh ws), ?(starts_with_sh ws), ?(curr_byte_opt_sh ws), ?(starts_with_space_sh ws),
          ?(skip_spaces_sh ws), ?(skip_bytes_sh ws), ?(curr_byte_sh ws), ?(next_byte_sh ws),
          ?(slice_bytes_shift ws), ?(slice_len_shift ws), ?(avail_sh ws), ?s_rest_sh, ?s_pos_sh, ?sub_kk.
Ltac sync := repeat (progress sync1).

Ltac use L := solve [eapply L; try eassumption; try (intros; sync; reflexivity)].
Ltac base :=
  first [ use err_at_sh0 | use err_from_sh0 | use err_at_sh | use err_from_sh
        | use advance_sh | apply id_sim
        | use consume_byte_sh | use skip_string_sh | use slice_back_sh | use consume_bytes_sh
        | use consume_spaces_sh | use advance_until2_sh | use skip_name_sh | use consume_name_sh
        | use consume_qname_sh | use consume_eq_sh | use consume_quote_sh | use is_xml_str_sh
        | use curr_byte_sim | use curr_byte_unchecked_sim
        | use consume_chars_sh | use skip_chars_sh ].

(* destruct the values bound so far, exposing the shifted components *)
Ltac unpack :=
  repeat match goal with
         | x : (_ * _)%type |- _ => destruct x
         end;
  cbn [pmap sh_qn shp she idf fst snd] in *.

Ltac rs spec := sync; rs_core ltac:(first [spec | base]); unpack.
Ltac rs0 := sync; rs_core ltac:(base); unpack.
(* a call of the callback: the token of the second run is the shifted token of the first *)
Ltac evs :=
  sync;
  lazymatch goal with
  | |- rsimf _ (bind (ev1 ?tok ?c) _) (bind (ev2 _ _) _) =>
    eapply rsimf_bind; [ refine (Hev tok c _); exact I | let c1 := fresh "c" in intros c1 _; cbv beta ]
  end.
Ltac go := repeat (first [rs0 | evs]).

Lemma parse_comment_sh s c :
  rsimf shp (parse_comment text C ev1 s c) (parse_comment text2 C ev2 (shs s) (fc c)).
Proof. unfold parse_comment. cbv zeta. go. Qed.

Lemma parse_pi_sh s c :
  rsimf shp (parse_pi text C ev1 s c) (parse_pi text2 C ev2 (shs s) (fc c)).
Proof.
  unfold parse_pi. cbv zeta. go. sync.
  eapply rsimf_bind.
  { destruct (starts_with _ (b "?>")); [apply rsimf_ret; reflexivity | use consume_spaces_sh]. }
  intros s2 _; cbv beta. go. sync.
  match goal with |- context [slice_len ?x =? 0] => destruct (slice_len x =? 0) end; go.
Qed.

Lemma parse_misc_loop_sh : forall fuel s c,
  rsimf shp (parse_misc_loop text C ev1 fuel s c) (parse_misc_loop text2 C ev2 fuel (shs s) (fc c)).
Proof.
  induction fuel as [|fu IH]; intros s c; cbn [parse_misc_loop]; [reflexivity|].
  repeat rs ltac:(first [apply parse_comment_sh | apply parse_pi_sh | apply IH]).
Qed.

Lemma parse_external_literal_sh s :
  rsimf shs (parse_external_literal text s) (parse_external_literal text2 (shs s)).
Proof. unfold parse_external_literal. cbv zeta. go. Qed.

Lemma parse_pubid_literal_sh s :
  rsimf shs (parse_pubid_literal text s) (parse_pubid_literal text2 (shs s)).
Proof. unfold parse_pubid_literal. cbv zeta. go. Qed.

Lemma parse_external_id_sh s :
  rsimf (pmap idf shs) (parse_external_id text s) (parse_external_id text2 (shs s)).
Proof.
  unfold parse_external_id. cbv zeta.
  repeat rs ltac:(first [apply parse_external_literal_sh | apply parse_pubid_literal_sh]).
Qed.

Lemma parse_entity_def_sh s is_ge :
  rsimf (pmap (option_map shl) shs) (parse_entity_def text s is_ge) (parse_entity_def text2 (shs s) is_ge).
Proof.
  unfold parse_entity_def. cbv zeta. repeat rs ltac:(first [apply parse_external_id_sh]).
Qed.

Lemma parse_entity_decl_sh s c :
  rsimf shp (parse_entity_decl text C ev1 s c) (parse_entity_decl text2 C ev2 (shs s) (fc c)).
Proof.
  unfold parse_entity_decl. go.
  match goal with |- context [try_consume_byte 37 (shs ?x)] => rewrite (try_consume_byte_sh ws 37 x);
    destruct (try_consume_byte 37 x) as [pe s2] end. cbn [pmap fst snd idf].
  eapply rsimf_bind with (f := shs). { destruct pe; [base|reflexivity]. }
  intros s3 _. cbv beta. cbv zeta.
  repeat rs ltac:(first [apply parse_entity_def_sh]).
  eapply rsimf_bind with (f := fc).
  { match goal with |- rsimf _ (match ?o with _ => _ end) _ => destruct o as [d|] end;
      cbn [option_map]; [|reflexivity].
    destruct (negb pe); [|reflexivity]. refine (Hev (TEntityDecl _ _) c I). }
  intros c1 _. cbv beta. go.
Qed.

Lemma consume_decl_loop_sh : forall fuel s,
  rsimf shs (consume_decl_loop text fuel s) (consume_decl_loop text2 fuel (shs s)).
Proof.
  induction fuel as [|fu IH]; intros s; cbn [consume_decl_loop]; [reflexivity|].
  cbv zeta. repeat rs ltac:(first [apply IH]).
Qed.

Lemma consume_decl_sh s : rsimf shs (consume_decl text s) (consume_decl text2 (shs s)).
Proof. unfold consume_decl. sync. apply consume_decl_loop_sh. Qed.

Lemma parse_doctype_start_sh s :
  rsimf shs (parse_doctype_start text s) (parse_doctype_start text2 (shs s)).
Proof. unfold parse_doctype_start. cbv zeta. repeat rs ltac:(first [apply parse_external_id_sh]). Qed.

Lemma parse_doctype_loop_sh : forall fuel start start' s c,
  rsimf shp (parse_doctype_loop text C ev1 fuel start s c)
        (parse_doctype_loop text2 C ev2 fuel start' (shs s) (fc c)).
Proof.
  induction fuel as [|fu IH]; intros start start' s c; cbn [parse_doctype_loop]; [reflexivity|].
  cbv zeta. sync. destruct (at_end s); [reflexivity|].
  destruct (starts_with (skip_spaces s) (b "<!ENTITY")).
  { eapply rsimf_bind; [apply parse_entity_decl_sh|]. intros [s1 c1] _. apply IH. }
  destruct (starts_with (skip_spaces s) (b "<!--")).
  { eapply rsimf_bind; [apply parse_comment_sh|]. intros [s1 c1] _. apply IH. }
  destruct (starts_with (skip_spaces s) (b "<?")).
  { eapply rsimf_bind; [apply parse_pi_sh|]. intros [s1 c1] _. apply IH. }
  destruct (starts_with (skip_spaces s) (b "]")).
  { go. }
  destruct (_ || _).
  { pose proof (consume_decl_sh (skip_spaces s)) as H.
    destruct (consume_decl text (skip_spaces s)); cbn -[consume_decl] in H.
    - rewrite H. apply IH.
    - destruct H as [e' ->]. base.
    - rewrite H. reflexivity.
    - rewrite H. reflexivity. }
  base.
Qed.

Lemma parse_doctype_sh s c :
  rsimf shp (parse_doctype text C ev1 s c) (parse_doctype text2 C ev2 (shs s) (fc c)).
Proof.
  unfold parse_doctype. cbv zeta.
  rs ltac:(first [apply parse_doctype_start_sh]). sync.
  match goal with |- rsimf _ (if ?b then _ else _) _ => destruct b end.
  - go.
  - rs0. sync. apply parse_doctype_loop_sh.
Qed.

Lemma parse_element_loop_sh : forall fuel ts ts' s c,
  rsimf she (parse_element_loop text C ev1 fuel ts s c)
        (parse_element_loop text2 C ev2 fuel ts' (shs s) (fc c)).
Proof.
  induction fuel as [|fu IH]; intros ts ts' s c; cbn [parse_element_loop]; [reflexivity|].
  cbv zeta. sync. destruct (at_end s); [apply rsimf_err|].
  go.
  eapply rsimf_bind with (f := shs).
  { destruct (starts_with_space s); [reflexivity|base]. }
  intros s2 _. cbv beta. go. apply IH.
Qed.

Lemma parse_element_sh s c :
  rsimf she (parse_element text C ev1 s c) (parse_element text2 C ev2 (shs s) (fc c)).
Proof.
  unfold parse_element. cbv zeta.
  eapply rsimf_bind; [base|]. intros s1 E1. cbv beta.
  eapply rsimf_bind; [base|]. intros [[p l] s2] Eq. cbn [sh_qn fst snd]. cbv beta iota.
  eapply rsimf_bind.
  { refine (Hev (TElementStart _ _ _) c _). cbn [tok_wf]. split.
    - eapply consume_qname_nonempty; exact Eq.
    - rewrite (consume_qname_prefix_start _ _ _ _ _ Eq). apply advance_pos in E1. lia. }
  intros c1 _. cbv beta. sync. apply parse_element_loop_sh.
Qed.

Lemma parse_cdata_sh s c :
  rsimf shp (parse_cdata text C ev1 s c) (parse_cdata text2 C ev2 (shs s) (fc c)).
Proof. unfold parse_cdata. cbv zeta. go. Qed.

Lemma parse_close_element_sh s c :
  rsimf shp (parse_close_element text C ev1 s c) (parse_close_element text2 C ev2 (shs s) (fc c)).
Proof. unfold parse_close_element. cbv zeta. go. Qed.

Lemma parse_text_sh s c :
  rsimf shp (parse_text text C ev1 s c) (parse_text text2 C ev2 (shs s) (fc c)).
Proof. unfold parse_text. cbv zeta. go. Qed.

Lemma parse_content_loop_sh : forall fuel depth s c,
  rsimf shp (parse_content_loop text C ev1 fuel depth s c)
        (parse_content_loop text2 C ev2 fuel depth (shs s) (fc c)).
Proof.
  induction fuel as [|fu IH]; intros depth s c; cbn [parse_content_loop]; [reflexivity|].
  sync. destruct (at_end s); [reflexivity|].
  rs0. match goal with |- rsimf _ (if ?b then _ else _) _ => destruct b end.
  2:{ eapply rsimf_bind; [apply parse_text_sh|]. intros [s1 c1] _. apply IH. }
  sync. destruct (next_byte s) as [y|e|p|]; [|base|reflexivity|reflexivity].
  destruct (y =? 33).
  { destruct (starts_with s (b "<!--")).
    { eapply rsimf_bind; [apply parse_comment_sh|]. intros [s1 c1] _. apply IH. }
    destruct (starts_with s (b "<![CDATA[")).
    { eapply rsimf_bind; [apply parse_cdata_sh|]. intros [s1 c1] _. apply IH. }
    base. }
  destruct (y =? 63).
  { eapply rsimf_bind; [apply parse_pi_sh|]. intros [s1 c1] _. apply IH. }
  destruct (y =? 47).
  { eapply rsimf_bind; [apply parse_close_element_sh|]. intros [s1 c1] _. cbn [shp fst snd]. cbv beta iota.
    destruct (depth =? 0); [reflexivity|apply IH]. }
  eapply rsimf_bind; [apply parse_element_sh|]. intros [[o s1] c1] _. apply IH.
Qed.

Lemma parse_content_sh s c :
  rsimf shp (parse_content text C ev1 s c) (parse_content text2 C ev2 (shs s) (fc c)).
Proof. unfold parse_content. rewrite s_rest_sh. apply parse_content_loop_sh. Qed.

(* ---- the whole document: the second run starts at offset 0, in the whitespace ---- *)
Lemma parse_misc_loop_fuel : forall fu1 fu2 s c r, (fu1 <= fu2)%nat ->
  parse_misc_loop text C ev1 fu1 s c = Ok r ->
  parse_misc_loop text2 C ev2 fu2 (shs s) (fc c) = Ok (shp r).
Proof.
  induction fu1 as [|fu1 IH]; intros fu2 s c r Hle H; [discriminate|].
  destruct fu2 as [|fu2]; [lia|]. cbn [parse_misc_loop] in *. sync.
  destruct (at_end s); [injection H as <-; reflexivity|]. cbv zeta in *. sync.
  destruct (starts_with (skip_spaces s) (b "<!--")).
  { apply bind_ok in H. destruct H as [[s1 c1] [H1 H]]. cbv beta iota in H.
    rewrite (rsimf_ok _ _ _ _ (parse_comment_sh (skip_spaces s) c) H1). cbn [bind shp fst snd].
    apply IH; [lia|exact H]. }
  destruct (starts_with (skip_spaces s) (b "<?")).
  { apply bind_ok in H. destruct H as [[s1 c1] [H1 H]]. cbv beta iota in H.
    rewrite (rsimf_ok _ _ _ _ (parse_pi_sh (skip_spaces s) c) H1). cbn [bind shp fst snd].
    apply IH; [lia|exact H]. }
  injection H as <-. reflexivity.
Qed.

Lemma scan_ws f : forallb f ws = true -> forall l room,
  scan f (ws ++ l) (length ws + room) = (length ws + scan f l room)%nat.
Proof.
  clear Hws Hvalid Hev. induction ws as [|x r IH]; intros Hf l room; [reflexivity|].
  cbn [forallb] in Hf. apply andb_true_iff in Hf. destruct Hf as [H1 H2].
  cbn [app length Nat.add scan]. rewrite H1. f_equal. apply IH. exact H2.
Qed.

Lemma skip_spaces_init : skip_spaces (stream_new text2) = shs (skip_spaces (stream_new text)).
Proof.
  clear Hvalid Hev. unfold skip_spaces, skip_bytes, stream_new, sh_s. cbn [s_pos s_end s_rest].
  rewrite (tlen_shift ws). unfold tlen, blen.
  replace (N.to_nat (N.of_nat (length text) + N.of_nat (length ws) - 0)) with (length ws + length text)%nat by lia.
  replace (N.to_nat (N.of_nat (length text) - 0)) with (length text) by lia.
  rewrite (scan_ws _ Hws). f_equal.
  - lia.
  - rewrite <- skipn_skipn'. rewrite skipn_len_app. reflexivity.
Qed.

Lemma first_is_space : ws <> [] -> exists w r, ws = w :: r /\ byte_is_space w = true.
Proof.
  clear Hvalid Hev. destruct ws as [|w r]; [congruence|]. intros _. exists w, r. split; [reflexivity|].
  cbn [forallb] in Hws. apply andb_true_iff in Hws. tauto.
Qed.

Lemma space_cases w : byte_is_space w = true -> w = 32 \/ w = 9 \/ w = 10 \/ w = 13.
Proof.
  unfold byte_is_space, in_ranges, byte_space_ranges. cbn [existsb fst snd]. intros H. lia.
Qed.

Lemma parse_document_sh dtd c c' : ws <> [] -> text <> [] ->
  starts_with (stream_new text) [239; 187; 191] = false ->
  starts_with_declaration (stream_new text) = false ->
  parse_document text C ev1 dtd c = Ok c' ->
  parse_document text2 C ev2 dtd (fc c) = Ok (fc c').
Proof.
  intros Hne Hte Hbom Hdecl H. unfold parse_document in *. cbv zeta in *.
  rewrite Hbom in H. cbn [bind] in H. rewrite Hdecl in H. cbn [bind] in H.
  destruct (first_is_space Hne) as (w & r & Ews & Hw). apply space_cases in Hw.
  assert (Hb2 : starts_with (stream_new text2) [239; 187; 191] = false).
  { unfold starts_with, avail, stream_new. cbn [s_pos s_end s_rest]. rewrite Ews.
    unfold tlen, blen. cbn [app length]. rewrite Nat2N.inj_succ, N.sub_0_r, N2Nat.inj_succ.
    cbn [firstn prefix_b]. replace (239 =? w) with false by lia. reflexivity. }
  assert (Hd2 : starts_with_declaration (stream_new text2) = false).
  { unfold starts_with_declaration, starts_with, avail, stream_new. cbn [s_pos s_end s_rest]. rewrite Ews.
    unfold tlen, blen. cbn [app length]. rewrite Nat2N.inj_succ, N.sub_0_r, N2Nat.inj_succ.
    cbn [firstn]. change (b "<?xml") with (60 :: b "?xml"). cbn [prefix_b].
    replace (60 =? w) with false by lia. reflexivity. }
  rewrite Hb2. cbn [bind]. rewrite Hd2. cbn [bind].
  (* the first parse_misc *)
  apply bind_ok in H. destruct H as [[s3 c3] [H3 H]]. cbv beta iota in H.
  assert (E3 : parse_misc text2 C ev2 (stream_new text2) (fc c) = Ok (shp (s3, c3))).
  { unfold parse_misc in *. cbn [stream_new s_rest] in *.
    cbn [parse_misc_loop] in H3. cbn [parse_misc_loop].
    assert (A1 : at_end (stream_new text) = false).
    { unfold at_end, stream_new, tlen, blen. cbn. destruct text; [congruence|]. cbn [length]. lia. }
    assert (A2 : at_end (stream_new text2) = false).
    { unfold at_end, stream_new, tlen, blen. cbn. rewrite Ews. cbn [app length]. lia. }
    cbv zeta in *. fold (stream_new text) in H3. fold (stream_new text2).
    rewrite A1 in H3. rewrite A2. rewrite skip_spaces_init. sync.
    set (s1 := skip_spaces (stream_new text)) in *.
    destruct (starts_with s1 (b "<!--")).
    { apply bind_ok in H3. destruct H3 as [[s4 c4] [H4 H3]]. cbv beta iota in H3.
      rewrite (rsimf_ok _ _ _ _ (parse_comment_sh s1 c) H4). cbn [bind shp fst snd].
      eapply parse_misc_loop_fuel; [|exact H3]; rewrite app_length; lia. }
    destruct (starts_with s1 (b "<?")).
    { apply bind_ok in H3. destruct H3 as [[s4 c4] [H4 H3]]. cbv beta iota in H3.
      rewrite (rsimf_ok _ _ _ _ (parse_pi_sh s1 c) H4). cbn [bind shp fst snd].
      eapply parse_misc_loop_fuel; [|exact H3]; rewrite app_length; lia. }
    injection H3 as <- <-. reflexivity. }
  rewrite E3. cbn [bind shp fst snd]. sync.
  (* from here on the streams are shifted streams *)
  assert (Hmisc : forall s c0, rsimf shp (parse_misc text C ev1 s c0) (parse_misc text2 C ev2 (shs s) (fc c0))).
  { intros s c0. unfold parse_misc. rewrite s_rest_sh. apply parse_misc_loop_sh. }
  apply bind_ok in H. destruct H as [[s5 c5] [H5 H]]. cbv beta iota in H.
  assert (E5 : (if starts_with (skip_spaces s3) (b "<!DOCTYPE")
                then if negb dtd then Err DtdDetected
                     else let! (s, c) := parse_doctype text2 C ev2 (shs (skip_spaces s3)) (fc c3) in
                          parse_misc text2 C ev2 s c
                else Ok (shs (skip_spaces s3), fc c3)) = Ok (shp (s5, c5))).
  { destruct (starts_with (skip_spaces s3) (b "<!DOCTYPE")); [|injection H5 as <- <-; reflexivity].
    destruct (negb dtd); [discriminate|].
    apply bind_ok in H5. destruct H5 as [[s6 c6] [H6 H5]]. cbv beta iota in H5.
    rewrite (rsimf_ok _ _ _ _ (parse_doctype_sh (skip_spaces s3) c3) H6). cbn [bind shp fst snd].
    exact (rsimf_ok _ _ _ _ (Hmisc s6 c6) H5). }
  rewrite E5. cbn [bind shp fst snd]. sync. clear E5.
  apply bind_ok in H. destruct H as [[s7 c7] [H7 H]]. cbv beta iota in H.
  assert (E7 : (if match curr_byte_opt (skip_spaces s5) with Some x => x =? 60 | None => false end
                then let! (open, s, c) := parse_element text2 C ev2 (shs (skip_spaces s5)) (fc c5) in
                     if open then parse_content text2 C ev2 s c else Ok (s, c)
                else Ok (shs (skip_spaces s5), fc c5)) = Ok (shp (s7, c7))).
  { destruct (match curr_byte_opt (skip_spaces s5) with Some x => x =? 60 | None => false end);
      [|injection H7 as <- <-; reflexivity].
    apply bind_ok in H7. destruct H7 as [[[o s8] c8] [H8 H7]]. cbv beta iota in H7.
    rewrite (rsimf_ok _ _ _ _ (parse_element_sh (skip_spaces s5) c5) H8). cbn [bind she fst snd].
    destruct o; [|injection H7 as <- <-; reflexivity].
    exact (rsimf_ok _ _ _ _ (parse_content_sh s8 c8) H7). }
  rewrite E7. cbn [bind shp fst snd]. clear E7.
  apply bind_ok in H. destruct H as [[s9 c9] [H9 H]]. cbv beta iota in H.
  rewrite (rsimf_ok _ _ _ _ (Hmisc s7 c7) H9). cbn [bind shp fst snd]. sync.
  destruct (negb (at_end s9)).
  { exfalso. unfold err_at in H. apply bind_ok in H. destruct H as [? [_ H]]. discriminate. }
  injection H as <-. reflexivity.
Qed.

End Shift.
