(* Proofs/CstEntInline.v -- C07 (no parser): how the inlining function of Spec/CstEnt.v sees a run of
   character data when every declared entity is character data; re-grouping; the expansion of a
   run segment by segment. *)
From Coq Require Import List NArith PeanoNat Wf_nat Bool Lia ZifyBool ZifyN ZifyNat.
Import ListNotations.
From RX Require Import Generated.
From RX.Model Require Import Base Stream Builder Parse.
From RX.Spec Require Cst CstText CstEnt Chars Detector.
From RX.Spec Require Import Text.
From RX.Proofs Require Import TextMachine HoistProofs NoPanicUtf8 CstTree CstTextSem CstTextLex CstTextItems.
From RX.Proofs Require Import CstEntSem CstEntText CstEntAttr CstEntMeaning CstEntRun.
Open Scope N_scope.

(* ------------------------------------------------------------------------------------------ *)
(* re-grouping                                                                                *)
(* ------------------------------------------------------------------------------------------ *)

Definition is_titext (i : T.item) : bool := match i with T.IText _ => true | _ => false end.

Lemma regroup_nontext i r : is_titext i = false -> E.regroup (i :: r) = i :: E.regroup r.
Proof. destruct i; try reflexivity. discriminate. Qed.

Lemma regroup_app a b : match b with [] => True | i :: _ => is_titext i = false end ->
  E.regroup (a ++ b) = E.regroup a ++ E.regroup b.
Proof.
  intros Hb. induction a as [|i a IH]; [reflexivity|]. cbn [app]. destruct (is_titext i) eqn:Ei.
  - destruct i as [| ps| |]; try discriminate. cbn [E.regroup]. rewrite IH.
    destruct (E.regroup a) as [|j ra] eqn:Era.
    + cbn [app]. destruct b as [|i0 b']; [cbn [E.regroup]; destruct (forallb E.is_mark ps); reflexivity|]. rewrite regroup_nontext by exact Hb.
      destruct i0; try discriminate; destruct (forallb E.is_mark ps); reflexivity.
    + cbn [app]. destruct j; try reflexivity; destruct (forallb E.is_mark ps); reflexivity.
  - rewrite !regroup_nontext by exact Ei. cbn [app]. rewrite IH. reflexivity.
Qed.

(* items that are all character data *)
Fixpoint pieces_of (l : list T.item) : list T.piece :=
  match l with [] => [] | T.IText ps :: r => ps ++ pieces_of r | _ :: r => pieces_of r end.

Lemma chunks_marks_r Q M : forallb E.is_mark M = true -> chunks (Q ++ M) = chunks Q.
Proof. intros H. rewrite chunks_app, (marks_chunks M H), app_nil_r. reflexivity. Qed.

Lemma regroup_texts : forall l, forallb is_titext l = true ->
  (forallb E.is_mark (pieces_of l) = true /\ E.regroup l = []) \/
  (forallb E.is_mark (pieces_of l) = false /\
   exists qs M, E.regroup l = [T.IText qs] /\ pieces_of l = qs ++ M /\ forallb E.is_mark M = true).
Proof.
  induction l as [|i l IH]; intros H; [left; auto|]. cbn [forallb] in H. apply andb_true_iff in H. destruct H as [Hi Hl].
  destruct i as [|ps| |]; try discriminate. cbn [pieces_of E.regroup]. rewrite forallb_app.
  destruct (IH Hl) as [[Hm Er]|[Hm (qs & M & Er & Ep & HM)]]; rewrite Er.
  - rewrite Hm, andb_true_r. destruct (forallb E.is_mark ps) eqn:Eps.
    + left. auto.
    + right. split; [reflexivity|]. exists ps, (pieces_of l). auto.
  - right. rewrite Hm, andb_false_r. split; [reflexivity|]. exists (ps ++ qs), M. rewrite Ep, app_assoc. auto.
Qed.

Lemma text_sem_marks Q M : forallb E.is_mark M = true -> T.text_sem (Q ++ M) = T.text_sem Q.
Proof.
  intros H. unfold T.text_sem. rewrite flat_map_app. pose proof (marks_chunks M H) as E0. unfold chunks in E0.
  rewrite E0, app_nil_r. reflexivity.
Qed.

Lemma crlf_ok_marks_r M : forallb E.is_mark M = true -> forall Q pend,
  E.crlf_ok pend Q = true -> E.crlf_ok pend (Q ++ M) = true.
Proof.
  intros HM. induction Q as [|q Q IH]; intros pend H.
  - cbn [app]. rewrite <- (app_nil_r M). rewrite crlf_ok_marks by exact HM. reflexivity.
  - cbn [app E.crlf_ok] in *. destruct (E.is_mark q); [apply IH; exact H|].
    apply andb_true_iff in H. destruct H as [A B0]. rewrite A. apply IH. exact B0.
Qed.

Lemma crlf_split_marks : forall Q M, forallb E.is_mark M = true -> E.crlf_split_ok Q = true -> E.crlf_split_ok (Q ++ M) = true.
Proof.
  intros Q M HM. assert (HMs : forall M', forallb E.is_mark M' = true -> E.crlf_split_ok M' = true).
  { induction M' as [|m M' IH]; intros H; [reflexivity|]. cbn [forallb] in H. apply andb_true_iff in H. destruct H as [H1 H2].
    cbn [E.crlf_split_ok]. rewrite (IH H2), andb_true_r.
    destruct m as [[|x bs]| | |]; try discriminate. reflexivity. }
  induction Q as [|p Q IH]; intros H; [apply HMs; exact HM|].
  cbn [app E.crlf_split_ok] in *. apply andb_true_iff in H. destruct H as [H1 H2]. rewrite (IH H2), andb_true_r.
  destruct (E.ends_cr p); [|reflexivity]. destruct Q as [|m0 Q'].
  - cbn [app]. destruct M as [|m M']; [reflexivity|]. cbn [forallb] in HM. apply andb_true_iff in HM. destruct HM as [Hm HM'].
    rewrite Hm. rewrite <- (app_nil_r M'). rewrite crlf_ok_marks by exact HM'. reflexivity.
  - cbn [app]. destruct (E.is_mark m0); [|reflexivity].
    apply crlf_ok_marks_r; assumption.
Qed.

(* ------------------------------------------------------------------------------------------ *)
(* inlining a run when all entities are character data                                        *)
(* ------------------------------------------------------------------------------------------ *)

Section Flat.
Variable decls : list E.edecl.
Hypothesis Hetext : Forall (fun d => exists vps, E.e_value d = E.EText vps) decls.

(* every value in a table is character data *)
Lemma lookup_etext k n v : E.lookup (E.level decls k) n = Some v ->
  exists qv, E.x_pieces v = Some qv /\ E.x_items v = [T.IText qv].
Proof.
  rewrite lookup_level. destruct k as [|k']; [discriminate|].
  destruct (first_decl decls n) as [d|] eqn:Hf; [|discriminate]. intros H.
  unfold first_decl in Hf. apply find_some in Hf. destruct Hf as [Hin _].
  rewrite Forall_forall in Hetext. destruct (Hetext d Hin) as [vps Ev]. rewrite Ev in H. cbn [E.inline_value] in H.
  destruct (E.inline_ps _ false true vps) as [[a b0]|]; [|discriminate]. cbn [E.obind fst snd] in H. injection H as <-.
  exists a. auto.
Qed.

Lemma inline_run_flat k ie : forall ps its tr, E.inline_run (E.level decls k) ie ps = Some (its, tr) ->
  forallb is_titext its = true /\ E.inline_ps (E.level decls k) false ie ps = Some (pieces_of its, tr).
Proof.
  induction ps as [|p ps IH]; intros its tr H.
  - injection H as <- <-. auto.
  - cbn [E.inline_run] in H. destruct p as [p|n].
    + destruct (E.inline_run (E.level decls k) ie ps) as [[its' tr']|] eqn:Er; [|discriminate].
      cbn [E.obind fst snd] in H. injection H as <- <-. destruct (IH _ _ eq_refl) as [I1 I2].
      cbn [forallb is_titext pieces_of app E.inline_ps andb]. rewrite I2. cbn [E.obind fst snd]. auto.
    + destruct (E.lookup (E.level decls k) n) as [v|] eqn:El; [|discriminate]. cbn [E.obind] in H.
      destruct (E.inline_run (E.level decls k) ie ps) as [[its' tr']|] eqn:Er; [|discriminate].
      cbn [E.obind fst snd] in H. injection H as <- <-. destruct (IH _ _ eq_refl) as [I1 I2].
      destruct (lookup_etext _ _ _ El) as (qv & Ex & Ei). rewrite Ei.
      cbn [E.inline_ps]. rewrite El. cbn [E.obind]. rewrite Ex. cbn [E.obind andb]. rewrite I2. cbn [E.obind fst snd].
      cbn [app forallb is_titext pieces_of]. rewrite I1. split; reflexivity.
Qed.

Lemma inline_ps_app tb fa ie : forall a b q tr, E.inline_ps tb fa ie (a ++ b) = Some (q, tr) ->
  exists qa tra qb trb, E.inline_ps tb fa ie a = Some (qa, tra) /\ E.inline_ps tb fa ie b = Some (qb, trb) /\
                        q = qa ++ qb /\ tr = tra ++ trb.
Proof.
  induction a as [|p a IH]; intros b q tr H.
  - exists [], [], q, tr. auto.
  - cbn [app E.inline_ps] in *. destruct p as [p|n].
    + destruct (fa && ie && E.is_lt_ref p); [discriminate|].
      destruct (E.inline_ps tb fa ie (a ++ b)) as [[q' tr']|] eqn:Er; [|discriminate]. cbn [E.obind fst snd] in H.
      injection H as <- <-. destruct (IH _ _ _ Er) as (qa & tra & qb & trb & E1 & E2 & -> & ->).
      rewrite E1. cbn [E.obind fst snd]. exists (p :: qa), tra, qb, trb. auto.
    + destruct (E.lookup tb n) as [v|]; [|discriminate]. cbn [E.obind] in *.
      destruct (E.x_pieces v) as [qv|]; [|discriminate]. cbn [E.obind] in *.
      destruct (fa && existsb E.is_lt_ref qv); [discriminate|].
      destruct (E.inline_ps tb fa ie (a ++ b)) as [[q' tr']|] eqn:Er; [|discriminate]. cbn [E.obind fst snd] in H.
      injection H as <- <-. destruct (IH _ _ _ Er) as (qa & tra & qb & trb & E1 & E2 & -> & ->).
      rewrite E1. cbn [E.obind fst snd]. eexists. eexists. exists qb, trb. split; [reflexivity|]. split; [exact E2|].
      split; [cbn [app]; rewrite <- app_assoc; reflexivity|cbn [app]; rewrite <- !app_assoc; reflexivity].
Qed.

(* ---- the segments of a run and their expansions ---- *)
Definition seg_pieces (s : eseg) : list E.epiece := match s with ESS l => l | ESC bs => [E.EP (T.PCData bs)] end.

Lemma esegs_flat : forall ps, flat_map seg_pieces (esegs ps) = ps.
Proof.
  induction ps as [|p ps IH]; [reflexivity|]. destruct (is_ecdata p) eqn:Ec.
  - destruct p as [[bs|hex ds|e|bs]|n]; try discriminate. cbn [esegs flat_map seg_pieces app]. rewrite IH. reflexivity.
  - rewrite esegs_cons_plain by exact Ec. rewrite <- IH at 2.
    destruct (esegs ps) as [|[l|b0] t]; reflexivity.
Qed.

Hypothesis Hdecls : Forall decl_ok decls.

Lemma RunExp_of k : forall L Q tr, E.inline_ps (E.level decls k) false false (flat_map seg_pieces L) = Some (Q, tr) ->
  exists FF, RunExp decls L Q tr FF.
Proof.
  induction L as [|s L IH]; intros Q tr H.
  - injection H as <- <-. exists []. constructor.
  - cbn [flat_map] in H. apply inline_ps_app in H. destruct H as (qa & tra & qb & trb & E1 & E2 & -> & ->).
    destruct (IH _ _ E2) as [FF HFF]. destruct s as [l|bs]; cbn [seg_pieces] in E1.
    + destruct (inline_Exp decls _ _ _ _ _ E1 false []) as [F HF]. exists (F :: FF). constructor; assumption.
    + cbn [E.inline_ps andb E.obind fst snd] in E1. injection E1 as <- <-. cbn [app]. exists ([norm_eol bs] :: FF).
      constructor. exact HFF.
Qed.

End Flat.

Lemma eno_adj_cons2 a c r : E.no_adjacent_elit (a :: c :: r) = negb (E.is_elit a && E.is_elit c) && E.no_adjacent_elit (c :: r).
Proof. reflexivity. Qed.

(* the segments of a well-formed run *)
Lemma esegs_wf : forall ps, forallb (E.wf_epiece 60 true true false) ps = true -> E.no_adjacent_elit ps = true ->
  Forall eseg_wf (esegs ps).
Proof.
  assert (Hss : forall l, l <> [] -> forallb (E.wf_epiece 60 true true false) l = true ->
            forallb (fun p => negb (is_ecdata p)) l = true -> E.no_adjacent_elit l = true -> eseg_wf (ESS l)).
  { intros l Hne Hw Hc Ha. cbn [eseg_wf]. split; [exact Hne|]. split; [|split; [exact Ha|]].
    - apply Forall_forall. intros p Hp. rewrite forallb_forall in Hw, Hc. specialize (Hw p Hp). specialize (Hc p Hp).
      apply negb_true_iff in Hc. destruct p as [[bs|hex ds|e|bs]|n]; cbn [E.wf_epiece ep_ok is_ecdata] in *; try discriminate.
      + rewrite !andb_true_iff in Hw. destruct Hw as [[_ H] _]. split; [exact H|discriminate].
      + rewrite !andb_true_iff in Hw. destruct Hw as [[_ H] _]. split; [exact H|discriminate].
      + split; [reflexivity|discriminate].
      + apply andb_true_iff in Hw. destruct Hw as [H1 H2]. split; [exact H1|]. apply negb_true_iff in H2. exact H2.
    - apply estretch_no_cdata_end; [|exact Hc|exact Ha]. apply Forall_forall. intros p Hp. rewrite forallb_forall in Hw. auto. }
  induction ps as [|p ps IH]; intros Hw Ha; [constructor|].
  cbn [forallb] in Hw. apply andb_true_iff in Hw. destruct Hw as [Hw1 Hw2].
  specialize (IH Hw2 (no_adj_etail _ _ Ha)). destruct (is_ecdata p) eqn:Ec.
  - destruct p as [[bs|hex ds|e|bs]|n]; try discriminate. cbn [esegs]. constructor; [|exact IH].
    cbn [eseg_wf E.wf_epiece T.wf_tpiece andb] in *. apply andb_true_iff in Hw1. destruct Hw1 as [H1 H2]. split; [exact H1|].
    apply negb_true_iff in H2. rewrite CstLex.contains_eq in H2. exact H2.
  - rewrite esegs_cons_plain by exact Ec.
    pose proof (esegs_flat ps) as Hflat.
    destruct (esegs ps) as [|[l|b0] t] eqn:Es.
    + constructor; [|constructor]. apply Hss; [discriminate|cbn [forallb]; rewrite Hw1; reflexivity|cbn [forallb]; rewrite Ec; reflexivity|reflexivity].
    + apply Forall_cons_iff in IH. destruct IH as [(Hne & Hok & Hadj & _) IHt].
      constructor; [|exact IHt].
      cbn [flat_map seg_pieces] in Hflat.
      assert (Hl : exists rest, ps = l ++ rest) by (eexists; symmetry; exact Hflat). destruct Hl as [rest ->].
      rewrite forallb_app in Hw2. apply andb_true_iff in Hw2. destruct Hw2 as [Hwl _].
      apply Hss; [discriminate|cbn [forallb]; rewrite Hw1, Hwl; reflexivity| |].
      * cbn [forallb]. rewrite Ec. cbn [negb andb]. clear - Hok. induction Hok as [|q l Hq _ IHl]; [reflexivity|].
        cbn [forallb]. rewrite IHl, andb_true_r. destruct q as [[| | |bs]|]; try reflexivity. destruct Hq as [Hq _]. discriminate.
      * destruct l as [|q l']; [congruence|]. cbn [app] in Ha. rewrite eno_adj_cons2 in Ha |- *.
        apply andb_true_iff in Ha. destruct Ha as [Ha1 _]. rewrite Ha1, Hadj. reflexivity.
    + constructor; [|exact IH]. apply Hss; [discriminate|cbn [forallb]; rewrite Hw1; reflexivity|cbn [forallb]; rewrite Ec; reflexivity|reflexivity].
Qed.

Print Assumptions regroup_texts.
Print Assumptions inline_run_flat.
Print Assumptions RunExp_of.
Print Assumptions esegs_wf.
