(* Proofs/CstFullS9bText.v -- the capstone fragment, stage S9 (Spec/CstFullS9.v):
   Proofs/CstFullS4TText.v (the character-data machine with markup entities) for references named with colons.
   An adapted copy: the statements and proofs are those of that file over the definitions of Proofs/CstFullS9aSem.v. *)
From Coq Require Import Ascii String.
From Coq Require Import List NArith PeanoNat Bool Lia ZifyBool ZifyN ZifyNat.
Import ListNotations.
From RX Require Import Generated.
From RX.Model Require Import Base CharClass Stream Tokenizer Doc Builder Parse.
From RX.Spec Require Cst CstText CstEnt Detector Scope CstU.
From RX.Spec Require Import Text CstFull.
From RX.Proofs Require Import Tactics CstLex CstBuild CstULex TextMachine TextMerge HoistProofs NoPanicUtf8 DetectorProofs.
From RX.Proofs Require Import CstTextSem CstTextLex CstTextBuild CstEntSem CstEntMeaning CstEntRun CstFullLex.
From RX.Proofs Require Import CstFullS2Sem CstFullS2Lex CstFullS2Build CstFullS9aSem CstFullS9aText CstFullS9aAttr CstFullS9bSem.
From RX.Proofs Require CstEntText CstEntAttr CstEntBuild CstNsBuild.
Open Scope N_scope.

Section EntC.
Variable text : bytes.
Variable D : list Scope.binding.
Hypothesis HD : forall l, NoDup l -> incl l D -> N.of_nat (length l) <= 65535.
Variable decls : list E.edecl.
Variable es : list entity.
Hypothesis Henv : Forall2 (uent_ok text) decls es.
Hypothesis Hdecls : Forall udecl_okc decls.

Notation W := (CstLex.W text).
Notation WV := (CstULex.WV text).
Notation CIn := (CstNsBuild.CIn text D).

Lemma TL_u : forall m acc ps q tr F, Exp decls m acc ps q tr F ->
  forall inh e p more c0 c frs fuel lvl r ld',
  Forall (uep_ok m) ps -> WV p (E.r_epieces ps ++ more) -> p + blen (E.r_epieces ps) = e -> e <= tlen text ->
  m = (0 <? ld_depth (c_ld c)) -> acc_ok m acc ->
  c_entities c = es -> ld_run (c_ld c) tr = Some ld' -> N.of_nat lvl + ld_depth (c_ld c) = 12 ->
  CIn inh c0 -> (frs = [] -> F <> [] -> room c0) -> c_after_text c0 = [] -> Run c0 c frs ->
  (length (E.r_epieces ps) < fuel)%nat ->
  exists c' G,
    (let! (b0, c1) := text_loop text (parse_content_lvl text lvl) r fuel (sst e p (E.r_epieces ps ++ more))
                        (push_text_chunks m acc tb_new) c in finish_text r b0 c1) = Ok c' /\
    Run c0 c' (frs ++ G) /\ map (cow_bytes text) G = F /\
    c_ld c' = ld' /\ ld_depth ld' = ld_depth (c_ld c) /\
    c_tag_name c' = c_tag_name c /\ c_entity_floor c' = c_entity_floor c.
Proof.
  intros m acc ps q tr F H.
  induction H as [m acc|m acc pc0 rest q tr F _ IH|m acc n rest d vps qv trv Fv q tr F Hfd Hval Hv IHv Hr IHr];
    intros inh e p more c0 c frs fuel lvl r ld' Hok HW He Hle Hm Hacc Hes Hld Hlvl I R Hat HR Hfu.
  - (* end of the token *)
    cbn [E.r_epieces flat_map app] in *. rewrite blen_nil, N.add_0_r in He. subst p.
    destruct fuel as [|fu]; [lia|]. cbn [text_loop]. rewrite at_end_sst. replace (e <=? e) with true by lia.
    cbn [bind]. cbn [ld_run] in Hld. injection Hld as <-.
    destruct (finish_emit_u text D inh m acc r c0 c frs Hacc HR I R Hat) as (c' & G & E & HR' & HG & L1 & L2 & L3).
    exists c', G. repeat split; auto.
  - (* a piece *)
    apply Forall_cons_iff in Hok. destruct Hok as [Hp Hrest]. cbn [E.r_epieces flat_map E.r_epiece] in *. fold (E.r_epieces rest) in *.
    rewrite <- app_assoc in HW |- *. rewrite blen_app in He.
    pose proof Hp as [Hvp _]. pose proof (chunks_le_piece_u D HD pc0 Hvp) as Hcl. rewrite app_length in Hfu.
    replace fuel with (length (T.piece_chunks pc0) + (fuel - length (T.piece_chunks pc0)))%nat by lia.
    rewrite (loop_piece_u text D HD) by (try assumption; lia). rewrite <- Hm.
    rewrite <- push_text_chunks_app.
    apply (IH inh e _ more c0 c frs _ lvl r ld'); try assumption; try lia.
    + apply (WV_app _ _ _ _ HW (vpiece_valid 60 pc0 Hvp)).
    + apply acc_app; [exact Hacc|apply uep_chunks; exact Hp].
  - (* a reference *)
    apply Forall_cons_iff in Hok. destruct Hok as [Hp Hrest]. destruct Hp as [Hn Hpre].
    cbn [E.r_epieces flat_map E.r_epiece] in *. fold (E.r_epieces rest) in *.
    rewrite <- !app_assoc in HW |- *. rewrite !blen_app in He. change (blen [38]) with 1 in He. change (blen [59]) with 1 in He.
    destruct (pnc_entity_u text D HD decls es Henv e p n (E.r_epieces rest ++ more) d HW Hn Hpre ltac:(lia) Hle Hfd) as (en & Epnc & (Hen & vs & tail & Eval & HWv)).
    destruct (first_decl_u decls Hdecls n d vps Hfd Hval) as (Hvok & Hvn3 & _).
    rewrite Hval in Eval, HWv. cbn [E.r_value] in Eval, HWv.
    destruct fuel as [|fu]; [lia|].
    erewrite text_loop_entity_step; [|rewrite at_end_sst; lia|rewrite Hes; exact Epnc].
    (* flush *)
    destruct (finish_emit_u text D inh m acc r c0 c frs Hacc HR I (fun Z0 Z1 => R Z0 ltac:(intros Z2; apply app_eq_nil in Z2; destruct Z2; contradiction)) Hat) as (c1 & G0 & E0 & HR1 & HG0 & L1 & L2 & L3).
    rewrite E0. cbn [bind].
    (* the detector *)
    cbn [ld_run] in Hld. destruct (ld_enter (c_ld c)) as [ld1|] eqn:Eenter; [|discriminate].
    rewrite ld_run_app in Hld. destruct (ld_run ld1 trv) as [ld1'|] eqn:Erun1; [|discriminate]. cbn [ld_run] in Hld.
    rewrite L1. destruct (CstEntText.enter_model text (sst e (p + 2 + blen n) (E.r_epieces rest ++ more)) _ _ Eenter) as (l0 & Ei1 & Ei2).
    rewrite Ei1. cbn [bind]. rewrite Ei2. cbn [bind]. cbv zeta.
    assert (Hd1 : ld_depth ld1 = ld_depth (c_ld c) + 1 /\ ld_depth (c_ld c) < 10).
    { rewrite (mk_eta (c_ld c)) in Eenter. apply ld_enter_some in Eenter. destruct Eenter as [Hlt [[H0 ->]|[H0 [_ ->]]]].
      - unfold DetectorProofs.mk. cbn. rewrite H0. split; [reflexivity|lia].
      - unfold DetectorProofs.mk. cbn. split; [reflexivity|exact Hlt]. }
    destruct Hd1 as [Hd1 Hd10].
    (* the value *)
    rewrite Eval. cbn [sl sl_start sl_end].
    rewrite (stream_from_substr_W text vs (E.r_epieces vps) tail (WV_W _ _ _ HWv)). cbn [bind].
    destruct lvl as [|lvl']; [lia|].
    assert (Epc : forall s0 cc, parse_content_lvl text (S lvl') s0 cc =
              parse_content_loop text context (token_with text (process_text_with text (parse_content_lvl text lvl')))
                (S (length (s_rest s0))) 0 s0 cc) by reflexivity.
    rewrite Epc. cbn [sst s_rest].
    set (ve := vs + blen (E.r_epieces vps)) in *.
    set (c2 := set_entity_floor (set_tag_name (set_ld c1 ld1) tag_name_null) (len_N (c_parent_prefixes (set_ld c1 ld1)))).
    assert (HR2 : Run c0 c2 (frs ++ G0)) by (eapply Run_frame; [exact HR1|unfold c2; repeat split]).
    destruct (uep_bytes true vps Hvok) as [Hvu Hvb].
    pose proof (W_le _ _ _ (W_app _ _ _ _ (WV_W _ _ _ HWv))) as Hlev. fold ve in Hlev.
    assert (Hinner : exists c2' Gv,
              parse_content_loop text context (token_with text (process_text_with text (parse_content_lvl text lvl')))
                (S (length (E.r_epieces vps ++ tail))) 0 (sst ve vs (E.r_epieces vps ++ tail)) c2 = Ok (sst ve ve tail, c2') /\
              Run c0 c2' ((frs ++ G0) ++ Gv) /\ map (cow_bytes text) Gv = Fv /\
              c_ld c2' = ld1' /\ ld_depth ld1' = ld_depth ld1 /\
              c_tag_name c2' = c_tag_name c2 /\ c_entity_floor c2' = c_entity_floor c2).
    { destruct (list_eq_dec N.eq_dec (E.r_epieces vps) []) as [Ex|Hne].
      - (* an empty value: no token *)
        assert (Evps : vps = []).
        { destruct vps as [|pp vr]; [reflexivity|].
          apply Forall_cons_iff in Hvok. destruct Hvok as [Hq0 _].
          destruct (uep_piece_ne true pp Hq0) as (x1 & r1 & E1).
          rewrite r_epieces_cons, E1 in Ex. discriminate. }
        subst vps. inversion Hv; subst. cbn [E.r_epieces flat_map app length] in *.
        cbn [parse_content_loop]. rewrite at_end_sst. unfold ve. rewrite blen_nil, N.add_0_r.
        replace (vs <=? vs) with true by lia.
        exists c2, []. rewrite app_nil_r. cbn [ld_run] in Erun1. injection Erun1 as <-.
        repeat split; auto.
      - assert (Hlen : (1 <= length (E.r_epieces vps ++ tail))%nat).
        { rewrite app_length. destruct (E.r_epieces vps); [congruence|cbn; lia]. }
        destruct (length (E.r_epieces vps ++ tail)) as [|len'] eqn:El; [lia|].
        rewrite (content_loop_text_ne_u text context _ ve vs (E.r_epieces vps) tail c2 len' HWv eq_refl Hlev Hvu Hvb Hvn3 Hne).
        cbn [token_with].
        rewrite process_text_with_unfold. unfold slice_bytes at 1. cbn [sl sl_start sl_end].
        unfold ve. rewrite (W_sub _ _ _ _ (WV_W _ _ _ HWv)). fold ve.
        destruct (existsb (fun x => (x =? 38) || (x =? 13)) (E.r_epieces vps)) eqn:Efast; cbn [negb].
        + (* through the buffer *)
          cbn [fst snd]. unfold ve. rewrite (stream_from_substr_W text vs (E.r_epieces vps) tail (WV_W _ _ _ HWv)). fold ve. cbn [bind].
          destruct (IHv inh ve vs tail c0 c2 (frs ++ G0) (S (length (s_rest (sst ve vs (E.r_epieces vps ++ tail))))) lvl' (vs, ve) ld1')
            as (c2' & Gv & Ev & HRv & HGv & Lv1 & Lv2 & Lv3 & Lv4); try assumption; try reflexivity.
          * unfold c2. cbn. rewrite Hd1. replace (0 <? ld_depth (c_ld c) + 1) with true by lia. reflexivity.
          * apply acc_nil.
          * rewrite (Run_entities _ _ _ HR2). rewrite <- Hes. symmetry. apply (Run_entities _ _ _ HR).
          * unfold c2. cbn. lia.
          * intros Z0 Z1. apply app_eq_nil in Z0. destruct Z0 as [Z0 _]. apply (R Z0). intros Z2.
            apply app_eq_nil in Z2. destruct Z2 as [_ Z2]. apply app_eq_nil in Z2. destruct Z2 as [Z2 _]. contradiction.
          * cbn [sst s_rest]. rewrite app_length. lia.
          * cbn [push_text_chunks sst s_rest] in Ev |- *. rewrite Ev. cbn [bind]. exists c2', Gv. unfold c2 in Lv2 |- *. cbn in Lv2. repeat split; auto.
        + (* the fast path: the value is appended as it is *)
          destruct (existsb_or_false _ _ _ Efast) as [E38 E13].
          destruct (exp_plain_u decls true vps [] qv trv Fv Hv Hvok E38) as [-> ->]. cbn [app].
          assert (Hemit : emit true ([] ++ map CLit (E.r_epieces vps)) = [E.r_epieces vps]).
          { cbn [app]. unfold emit. rewrite text_chunks_in_entity.
            replace (concat (map chunk_bytes (map CLit (E.r_epieces vps)))) with (E.r_epieces vps)
              by (clear; induction (E.r_epieces vps) as [|z l IHl]; [reflexivity|cbn; rewrite <- IHl; reflexivity]).
            rewrite norm_eol_nocr by exact E13. destruct (E.r_epieces vps); [congruence|reflexivity]. }
          destruct (run_append_n text D inh (CowBorrowed (sl vs ve)) (vs, ve) c0 c2 (frs ++ G0) HR2 I
                      (fun Z0 => R (proj1 (app_eq_nil _ _ Z0)) ltac:(rewrite Hemit; intros Z2; apply app_eq_nil in Z2; destruct Z2 as [_ Z2]; discriminate)) Hat)
            as (c2' & Ea & HRa & La1 & La2 & La3).
          rewrite Ea. cbn [bind]. exists c2', [CowBorrowed (sl vs ve)]. cbn [ld_run] in Erun1. injection Erun1 as <-.
          split; [reflexivity|]. split; [exact HRa|]. split.
          { cbn [map cow_bytes]. unfold slice_bytes, ve. cbn [sl sl_start sl_end]. rewrite (W_sub _ _ _ _ (WV_W _ _ _ HWv)).
            cbn [app] in Hemit. rewrite Hemit. reflexivity. }
          unfold c2 in La1 |- *. cbn in La1. repeat split; auto. }
    destruct Hinner as (c2' & Gv & Ein & HRv & HGv & Lv1 & Lv2 & Lv3 & Lv4).
    rewrite Ein. cbn [bind].
    (* back from the value *)
    rewrite (Run_pp _ _ _ HRv), Lv4. unfold c2 at 1. cbn [c_entity_floor set_entity_floor c_parent_prefixes set_tag_name set_ld].
    rewrite (Run_pp _ _ _ HR1), N.eqb_refl. cbn [negb].
    set (c3 := set_ld (set_entity_floor (set_tag_name c2' (c_tag_name (set_ld c1 ld1))) (c_entity_floor (set_ld c1 ld1)))
                      (dec_depth (c_ld (set_entity_floor (set_tag_name c2' (c_tag_name (set_ld c1 ld1))) (c_entity_floor (set_ld c1 ld1)))))).
    assert (HR3 : Run c0 c3 (frs ++ G0 ++ Gv)).
    { rewrite app_assoc. eapply Run_frame; [exact HRv|unfold c3; repeat split]. }
    assert (Eld3 : c_ld c3 = dec_depth ld1') by (unfold c3; cbn; rewrite Lv1; reflexivity).
    assert (Hdd : ld_depth (dec_depth ld1') = ld_depth (c_ld c)).
    { unfold dec_depth. cbn [ld_depth]. rewrite Lv2, Hd1. replace (0 <? ld_depth (c_ld c) + 1) with true by lia. lia. }
    assert (HWn : WV (p + 2 + blen n) (E.r_epieces rest ++ more)).
    { pose proof (WV_cons _ _ _ _ HW ltac:(lia)) as X1. cbn [app] in X1.
      destruct (uname_bytes n Hn) as (Hun & _). pose proof (WV_app _ _ _ _ X1 (ustr_valid _ Hun)) as X2.
      pose proof (WV_cons _ _ _ _ X2 ltac:(lia)) as X3.
      replace (p + 2 + blen n) with (p + 1 + blen n + 1) by lia. exact X3. }
    destruct (IHr inh e (p + 2 + blen n) more c0 c3 (frs ++ G0 ++ Gv) fu (S lvl') r ld')
      as (c' & G & E' & HR' & HG & K1 & K2 & K3 & K4); try assumption.
    + lia.
    + rewrite Eld3, Hdd. exact Hm.
    + apply acc_nil.
    + rewrite (Run_entities _ _ _ HR3). rewrite <- Hes. symmetry. apply (Run_entities _ _ _ HR).
    + rewrite Eld3. exact Hld.
    + rewrite Eld3, Hdd. exact Hlvl.
    + intros Z0 Z1. apply app_eq_nil in Z0. destruct Z0 as [Z0 _]. apply (R Z0). intros Z2.
      apply app_eq_nil in Z2. destruct Z2 as [_ Z2]. apply app_eq_nil in Z2. destruct Z2 as [_ Z2]. contradiction.
    + rewrite !app_length in Hfu. cbn [length] in Hfu. lia.
    + exists c', (G0 ++ Gv ++ G). split; [exact E'|].
      split; [rewrite <- !app_assoc in HR'; exact HR'|].
      split; [rewrite !map_app, HG0, HGv, HG; reflexivity|].
      split; [exact K1|]. split; [rewrite K2, Eld3; exact Hdd|].
      unfold c3 in K3, K4. cbn in K3, K4. rewrite K3, K4, L2, L3. split; reflexivity.
Qed.


Lemma AL_u : forall m ps t q tr t', AExp decls m ps t q tr t' ->
  forall e p more ld ld' lvl' fuel,
  Forall (uep_ok m) ps -> E.no_adjacent_elit ps = true ->
  WV p (E.r_epieces ps ++ more) -> p + blen (E.r_epieces ps) = e -> e <= tlen text ->
  m = (0 <? ld_depth ld) -> ld_run ld tr = Some ld' -> 11 <= N.of_nat lvl' + ld_depth ld ->
  (length (E.r_epieces ps) < fuel)%nat ->
  attr_loop text lvl' es fuel (sst e p (E.r_epieces ps ++ more)) t ld = Ok (t', ld') /\
  ld_depth ld' = ld_depth ld.
Proof.
  intros m ps t q tr t' H.
  induction H as [m t|m pc0 rest t t1 q tr t' _ Hpush _ IH|m n rest d vps t qv trv t1 q tr t' Hfd Hval Hv IHv Hr IHr];
    intros e p more ld ld' lvl' fuel Hok Hadj HW He Hle Hm Hld Hlvl Hfu.
  - cbn [E.r_epieces flat_map app] in *. rewrite blen_nil, N.add_0_r in He.
    destruct fuel as [|fu]; [lia|]. cbn [attr_loop]. rewrite at_end_sst. replace (e <=? p) with true by lia.
    cbn [ld_run] in Hld. injection Hld as <-. auto.
  - apply Forall_cons_iff in Hok. destruct Hok as [Hp Hrest]. destruct Hp as [Hvp Hcv].
    pose proof (CstEntAttr.no_adj_etail _ _ Hadj) as Hadj'.
    cbn [E.r_epieces flat_map E.r_epiece] in *. fold (E.r_epieces rest) in *.
    rewrite <- app_assoc in HW |- *. rewrite blen_app in He. rewrite app_length in Hfu.
    pose proof (chunks_le_piece_u D HD pc0 Hvp) as Hcl.
    assert (Hstep : attr_loop text lvl' es fuel (sst e p (T.r_piece pc0 ++ E.r_epieces rest ++ more)) t ld =
                    attr_loop text lvl' es (fuel - length (T.piece_chunks pc0))
                      (sst e (p + blen (T.r_piece pc0)) (E.r_epieces rest ++ more)) t1 ld).
    { destruct pc0 as [bs|hex ds|pe|bs]; cbn [bvpiece] in Hvp; try contradiction.
      - cbn [T.r_piece T.piece_chunks] in *. rewrite map_length in *.
        destruct (CstEntAttr.aloop_lit text es lvl' ld e bs p (E.r_epieces rest ++ more) t (fuel - length bs) (blit_not_amp _ _ Hvp) ltac:(lia))
          as (t1' & E1 & E2).
        { destruct (is_elit_next_u bs rest Hadj m Hrest) as [->|[R' ER]].
          - left. cbn [E.r_epieces flat_map] in He. rewrite blen_nil in He. lia.
          - right. rewrite ER. eexists. reflexivity. }
        rewrite <- Hm in E1. rewrite Hpush in E1. injection E1 as <-.
        replace fuel with (length bs + (fuel - length bs))%nat at 1 by lia. exact E2.
      - cbn [T.piece_chunks push_attr_chunks] in Hpush.
        destruct (push_char_bytes_attr (T.utf8 (T.ref_val hex ds)) m t) as [t1'|] eqn:Ep; [|discriminate].
        cbn [push_attr_chunks] in Hpush. injection Hpush as <-.
        pose proof (cref_charref_u text e p hex ds (E.r_epieces rest ++ more) HW Hvp ltac:(lia) Hle) as Ec.
        assert (Hlt : p < e) by (cbn [T.r_piece app] in He; rewrite !blen_cons in He; lia).
        cbn [T.r_piece] in Ec, HW |- *. rewrite <- !app_assoc in *. cbn [app] in Ec |- *.
        cbn [T.piece_chunks length].
        replace fuel with (S (fuel - 1)) at 1 by (cbn [length] in Hcl; lia).
        rewrite (CstEntAttr.aloop_ref text es lvl' ld e p _ _ _ t t1' (fuel - 1) Hlt Ec); [reflexivity|].
        rewrite <- Hm. exact Ep.
      - cbn [T.piece_chunks push_attr_chunks] in Hpush.
        destruct (push_char_bytes_attr [T.predef_char pe] m t) as [t1'|] eqn:Ep; [|discriminate].
        cbn [push_attr_chunks] in Hpush. injection Hpush as <-.
        pose proof (cref_predef_u text e p pe (E.r_epieces rest ++ more) HW ltac:(lia) Hle) as Ec.
        assert (Hlt : p < e) by (cbn [T.r_piece app] in He; rewrite !blen_cons in He; lia).
        cbn [T.r_piece] in Ec, HW |- *. rewrite <- !app_assoc in *. cbn [app] in Ec |- *.
        cbn [T.piece_chunks length].
        replace fuel with (S (fuel - 1)) at 1 by (cbn [length] in Hcl; lia).
        rewrite (CstEntAttr.aloop_ref text es lvl' ld e p _ _ _ t t1' (fuel - 1) Hlt Ec); [reflexivity|].
        rewrite <- Hm. replace (encode_utf8 (T.predef_char pe)) with [T.predef_char pe] by (destruct pe; reflexivity).
        exact Ep. }
    rewrite Hstep. apply (IH e _ more ld ld' lvl'); try assumption; try lia.
    apply (WV_app _ _ _ _ HW (vpiece_valid 60 pc0 Hvp)).
  - apply Forall_cons_iff in Hok. destruct Hok as [Hp Hrest]. destruct Hp as [Hn Hpre].
    pose proof (CstEntAttr.no_adj_etail _ _ Hadj) as Hadj'.
    cbn [E.r_epieces flat_map E.r_epiece] in *. fold (E.r_epieces rest) in *.
    rewrite <- !app_assoc in HW |- *. rewrite !blen_app in He. change (blen [38]) with 1 in He. change (blen [59]) with 1 in He.
    destruct (find_first_u text decls es Henv n d Hfd) as (en & Efind & (Hen & vs & tail & Eval & HWv)).
    destruct (first_decl_u decls Hdecls n d vps Hfd Hval) as (Hvok & _ & Hvadj).
    rewrite Hval in Eval, HWv. cbn [E.r_value] in Eval, HWv.
    destruct fuel as [|fu]; [lia|].
    cbn [ld_run] in Hld. destruct (ld_enter ld) as [ld1|] eqn:Eenter; [|discriminate].
    rewrite ld_run_app in Hld. destruct (ld_run ld1 trv) as [ld1'|] eqn:Erun1; [|discriminate]. cbn [ld_run] in Hld.
    destruct (CstEntText.enter_model text (sst e (p + 2 + blen n) (E.r_epieces rest ++ more)) _ _ Eenter) as (l0 & Ei1 & Ei2).
    assert (Hd1 : ld_depth ld1 = ld_depth ld + 1 /\ ld_depth ld < 10).
    { rewrite (mk_eta ld) in Eenter. apply ld_enter_some in Eenter. destruct Eenter as [Hlt [[H0 ->]|[H0 [_ ->]]]].
      - unfold DetectorProofs.mk. cbn. rewrite H0. split; [reflexivity|lia].
      - unfold DetectorProofs.mk. cbn. split; [reflexivity|exact Hlt]. }
    destruct Hd1 as [Hd1 Hd10].
    pose proof (cref_entity_u text D HD e p n (E.r_epieces rest ++ more) HW Hn Hpre ltac:(lia) Hle) as Ec.
    cbn [app] in Ec, HW |- *.
    erewrite norm_attr_entity_step;
      [|rewrite at_end_sst; lia|reflexivity|exact Ec| |exact Ei1|exact Ei2].
    2:{ pose proof (W_cons _ _ _ _ (WV_W _ _ _ HW)) as HW1. rewrite (W_slice _ _ _ _ HW1). exact Efind. }
    destruct lvl' as [|lvl'']; [lia|].
    rewrite norm_attr_lvl_unfold, Eval. cbn [sl sl_start sl_end].
    rewrite (stream_from_substr_W text vs (E.r_epieces vps) tail (WV_W _ _ _ HWv)). cbn [bind].
    pose proof (W_le _ _ _ (W_app _ _ _ _ (WV_W _ _ _ HWv))) as Hlev.
    destruct (IHv (vs + blen (E.r_epieces vps)) vs tail ld1 ld1' lvl''
                (S (length (s_rest (sst (vs + blen (E.r_epieces vps)) vs (E.r_epieces vps ++ tail))))))
      as [Ev Hdv]; try assumption; try reflexivity.
    { rewrite Hd1. replace (0 <? ld_depth ld + 1) with true by lia. reflexivity. }
    { lia. }
    { cbn [sst s_rest]. rewrite app_length. lia. }
    rewrite Ev. cbn [bind].
    assert (Hdd : ld_depth (dec_depth ld1') = ld_depth ld).
    { unfold dec_depth. cbn [ld_depth]. rewrite Hdv, Hd1. replace (0 <? ld_depth ld + 1) with true by lia. lia. }
    assert (HWn : WV (p + 2 + blen n) (E.r_epieces rest ++ more)).
    { pose proof (WV_cons _ _ _ _ HW ltac:(lia)) as X1.
      destruct (uname_bytes n Hn) as (Hun & _). pose proof (WV_app _ _ _ _ X1 (ustr_valid _ Hun)) as X2.
      pose proof (WV_cons _ _ _ _ X2 ltac:(lia)) as X3.
      replace (p + 2 + blen n) with (p + 1 + blen n + 1) by lia. exact X3. }
    destruct (IHr e (p + 2 + blen n) more (dec_depth ld1') ld' (S lvl'') fu) as [Er Hdr]; try assumption.
    + lia.
    + rewrite Hdd. exact Hm.
    + rewrite Hdd. exact Hlvl.
    + rewrite !app_length in Hfu. cbn [length] in Hfu. lia.
    + split; [exact Er|rewrite Hdr; exact Hdd].
Qed.


End EntC.

Print Assumptions TL_u.
Print Assumptions AL_u.
