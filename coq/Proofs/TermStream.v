(* Proofs/TermStream.v -- termination (OutOfFuel unreachable), part 1: the result calculus
   [good] and the progress lemmas of the Stream primitives. *)
From Coq Require Import List NArith Bool Lia ZifyBool ZifyN ZifyNat.
Import ListNotations.
From RX Require Import Generated.
From RX.Model Require Import Base CharClass Stream.
Open Scope N_scope.

(* ------------------------------------------------------------------ *)
(* [good P r]: r is not OutOfFuel, and if it is Ok a then P a          *)

Definition good {A} (P : A -> Prop) (r : res A) : Prop :=
  match r with Ok a => P a | OutOfFuel => False | _ => True end.

Lemma good_bind {A B} (Q : A -> Prop) (P : B -> Prop) (r : res A) (f : A -> res B) :
  good Q r -> (forall a, Q a -> good P (f a)) -> good P (bind r f).
Proof. destruct r; cbn; auto. Qed.

Lemma good_weaken {A} (Q P : A -> Prop) (r : res A) :
  good Q r -> (forall a, Q a -> P a) -> good P r.
Proof. destruct r; cbn; auto. Qed.

Lemma good_nofuel {A} (P : A -> Prop) (r : res A) : good P r -> r <> OutOfFuel.
Proof. destruct r; cbn; intros; try discriminate; contradiction. Qed.

Lemma nofuel_good {A} (r : res A) : r <> OutOfFuel -> good (fun _ => True) r.
Proof. destruct r; cbn; auto. Qed.

Lemma good_ok_inv {A} (P : A -> Prop) (r : res A) a : good P r -> r = Ok a -> P a.
Proof. intros H E; subst r; exact H. Qed.

Lemma good_true {A} (P : A -> Prop) (r : res A) : good P r -> good (fun _ => True) r.
Proof. intros H; eapply good_weaken; eauto. Qed.

(* ------------------------------------------------------------------ *)
(* [safe l]: no suffix of l starts with a non-'<' byte and decodes to the char '<'.
   True of every valid UTF-8 string (see TermUtf8 below); false e.g. of [192;188], the
   overlong encoding of '<', on which parse_text makes no progress. *)

Definition safe (l : bytes) : Prop :=
  forall k x r c n, skipn k l = x :: r -> decode1 (x :: r) = Some (c, n) -> c = 60 -> x = 60.

Lemma skipn_skipn' {A} (m k : nat) (l : list A) : skipn k (skipn m l) = skipn (m + k) l.
Proof.
  revert l; induction m; intros l; [reflexivity|].
  destruct l; cbn [skipn Nat.add]; [destruct k; reflexivity|apply IHm].
Qed.

Lemma safe_skipn m l : safe l -> safe (skipn m l).
Proof. intros H k x r c n E. rewrite skipn_skipn' in E. eapply H; eauto. Qed.

Section WithText.
Variable text : bytes.
Notation stream := (Stream.stream).

(* the stream invariant: pos <= end, the cached rest covers [pos, end) and is safe *)
Definition wf (s : stream) : Prop :=
  (s_pos s <= s_end s /\ s_end s <= s_pos s + N.of_nat (length (s_rest s))) /\ safe (s_rest s).

(* s' is s moved forward by at least k bytes *)
Definition adv (k : N) (s s' : stream) : Prop :=
  s_end s' = s_end s /\ s_pos s + k <= s_pos s' /\ wf s'.

Ltac nsolve := unfold adv, wf in *; cbn [s_pos s_end s_rest] in *; intuition (auto using safe_skipn; lia).

Lemma adv_wf k s s' : adv k s s' -> wf s'.
Proof. unfold adv; tauto. Qed.

Lemma adv_refl s : wf s -> adv 0 s s.
Proof. nsolve. Qed.

Lemma adv_le k j s s' : j <= k -> adv k s s' -> adv j s s'.
Proof. nsolve. Qed.

Lemma adv_trans k j s s' s'' : adv k s s' -> adv j s' s'' -> adv (k + j) s s''.
Proof. nsolve. Qed.

Lemma adv_trans0 k j s s' s'' : adv k s s' -> adv j s' s'' -> adv 0 s s''.
Proof. nsolve. Qed.

Lemma adv_measure k s s' fuel : 1 <= k -> adv k s s' ->
  s_end s - s_pos s < N.of_nat (S fuel) -> s_end s' - s_pos s' < N.of_nat fuel.
Proof. unfold adv, wf; lia. Qed.

Lemma wf_new : safe text -> wf (stream_new text).
Proof. intros Hs. unfold wf, stream_new, tlen, blen; cbn [s_pos s_end s_rest]. split; [lia|assumption]. Qed.

Lemma from_substr_good a e : safe text -> good wf (stream_from_substr text a e).
Proof.
  intros Hs. unfold stream_from_substr.
  destruct (e <? a) eqn:E1; cbn [orb]; [exact I|].
  destruct (tlen text <? e) eqn:E2; [exact I|].
  cbn [good]. unfold wf, tlen, blen in *; cbn [s_pos s_end s_rest].
  rewrite skipn_length. split; [lia|apply safe_skipn; assumption].
Qed.

(* ---- errors ---- *)
Lemma good_err_at {A} (P : A -> Prop) s mk : good P (err_at text s mk).
Proof.
  unfold err_at, gen_text_pos, gen_text_pos_at. destruct (_ || _); exact I.
Qed.

Lemma good_err_from {A} (P : A -> Prop) p mk : good P (err_from text p mk).
Proof.
  unfold err_from, gen_text_pos_from, gen_text_pos_at. destruct (_ || _); exact I.
Qed.

(* ---- byte-level ---- *)
Lemma curr_byte_unchecked_good s : good (fun _ => True) (curr_byte_unchecked s).
Proof. unfold curr_byte_unchecked. destruct (s_rest s); exact I. Qed.

Lemma curr_byte_good s : good (fun _ => True) (curr_byte s).
Proof. unfold curr_byte. destruct (at_end s); [exact I|apply curr_byte_unchecked_good]. Qed.

Lemma next_byte_good s : good (fun _ => True) (next_byte s).
Proof. unfold next_byte. destruct (_ <=? _); [exact I|]. destruct (s_rest s) as [|? [|? ?]]; exact I. Qed.

Lemma advance_good n s : wf s -> good (adv n s) (advance n s).
Proof.
  intros W. unfold advance. destruct (s_end s <? s_pos s + n) eqn:E; [exact I|].
  cbn [good]. unfold adv, wf in *; cbn [s_pos s_end s_rest]. rewrite skipn_length.
  intuition (auto using safe_skipn; lia).
Qed.

Lemma scan_le f l r : (scan f l r <= r /\ scan f l r <= length l)%nat.
Proof.
  revert r; induction l as [|x l IH]; intros r; destruct r; cbn [scan length]; try lia.
  destruct (f x); [|lia]. specialize (IH r). lia.
Qed.

Lemma skip_bytes_adv f s : wf s -> adv 0 s (skip_bytes f s).
Proof.
  intros W. unfold skip_bytes, adv, wf in *; cbn [s_pos s_end s_rest].
  rewrite skipn_length.
  pose proof (scan_le f (s_rest s) (N.to_nat (s_end s - s_pos s))).
  intuition (auto using safe_skipn; lia).
Qed.

Lemma skip_spaces_adv s : wf s -> adv 0 s (skip_spaces s).
Proof. apply skip_bytes_adv. Qed.

Lemma consume_byte_good c s : wf s -> good (adv 1 s) (consume_byte text c s).
Proof.
  intros W. unfold consume_byte. eapply good_bind; [apply curr_byte_good|]. intros x _.
  destruct (negb _); [apply good_err_at|apply advance_good; assumption].
Qed.

Lemma try_consume_byte_adv c s : wf s ->
  adv (if fst (try_consume_byte c s) then 1 else 0) s (snd (try_consume_byte c s)).
Proof.
  intros W. unfold try_consume_byte.
  destruct (curr_byte_opt s); [|apply adv_refl; assumption].
  destruct (n =? c); [|apply adv_refl; assumption].
  pose proof (advance_good 1 s W) as H.
  destruct (advance 1 s); cbn [fst snd good] in *; try (apply adv_refl; assumption). exact H.
Qed.

Lemma mk_slice_good a e : good (fun _ => True) (mk_slice text a e).
Proof. unfold mk_slice. destruct (_ || _); [exact I|]. destruct (_ && _); exact I. Qed.

Lemma slice_back_good a s : good (fun _ => True) (slice_back text a s).
Proof. apply mk_slice_good. Qed.

Lemma skip_string_good p s : wf s -> good (adv 0 s) (skip_string text p s).
Proof.
  intros W. unfold skip_string. destruct (negb _); [apply good_err_at|].
  eapply good_weaken; [apply advance_good; assumption|].
  intros a H. eapply adv_le; [|exact H]. lia.
Qed.

Lemma consume_bytes_good f s : wf s -> good (fun p => adv 0 s (snd p)) (consume_bytes text f s).
Proof.
  intros W. unfold consume_bytes. eapply good_bind; [apply slice_back_good|].
  intros sl _. cbn [good snd]. apply skip_bytes_adv; assumption.
Qed.

Lemma consume_spaces_good s : wf s -> good (adv 0 s) (consume_spaces text s).
Proof.
  intros W. unfold consume_spaces. destruct (at_end s); [exact I|].
  destruct (negb _).
  - eapply good_bind; [apply curr_byte_unchecked_good|]. intros; apply good_err_at.
  - cbn [good]. apply skip_spaces_adv; assumption.
Qed.

Lemma advance_until2_good n1 n2 s : wf s -> good (adv 0 s) (advance_until2 n1 n2 s).
Proof.
  intros W. unfold advance_until2. destruct (find_idx _ _); [|exact I].
  eapply good_weaken; [apply advance_good; assumption|].
  intros a H. eapply adv_le; [|exact H]. lia.
Qed.

(* ---- char-level ---- *)
Lemma decode1_len l c n : decode1 l = Some (c, n) -> 1 <= n.
Proof.
  unfold decode1. destruct l as [|b0 r]; [discriminate|].
  repeat match goal with
  | |- context [if ?b then _ else _] => destruct b
  | |- context [match ?r with [] => _ | _ :: _ => _ end] => destruct r
  | |- None = Some _ -> _ => discriminate
  | |- Some _ = Some _ -> _ => intros [= <- <-]; lia
  end.
Qed.

Lemma next_char_good s :
  good (fun oc => match oc with Some (c, n) => 1 <= n | None => True end) (next_char s).
Proof.
  unfold next_char. destruct (at_end s); [exact I|].
  destruct (decode1 (s_rest s)) as [[c n]|] eqn:E; [|exact I].
  destruct (_ <? _); [exact I|]. cbn [good]. eapply decode1_len; eauto.
Qed.

Lemma skip_chars_loop_good fuel : forall f s, wf s -> s_end s - s_pos s < N.of_nat fuel ->
  good (adv 0 s) (skip_chars_loop text fuel f s).
Proof.
  induction fuel; intros f s W Hf; [lia|]. cbn [skip_chars_loop].
  eapply good_bind; [apply next_char_good|]. intros [[c n]|] Hn; [|apply adv_refl; assumption].
  destruct (negb _); [apply good_err_at|].
  destruct (f s c); [|apply adv_refl; assumption].
  eapply good_bind; [apply advance_good; assumption|]. intros s' Ha.
  eapply good_weaken; [apply IHfuel|].
  - eapply adv_wf; eauto.
  - eapply adv_measure; eauto.
  - intros s'' H2. eapply adv_trans0; [exact Ha|exact H2].
Qed.

Lemma fuel_enough s : wf s -> s_end s - s_pos s < N.of_nat (S (length (s_rest s))).
Proof. unfold wf; lia. Qed.

(* what parse_text needs: if the current byte is not '<', a char is consumed *)
Lemma next_char_not_lt s x c n : wf s ->
  curr_byte_unchecked s = Ok x -> next_char s = Ok (Some (c, n)) -> x <> 60 -> c <> 60.
Proof.
  intros [_ Hs] Hx Hc Hne Hc60. unfold curr_byte_unchecked in Hx. unfold next_char in Hc.
  destruct (s_rest s) as [|y r] eqn:Er; [discriminate|]. injection Hx as ->.
  destruct (at_end s); [discriminate|].
  destruct (decode1 (x :: r)) as [[c' n']|] eqn:Ed; [|discriminate].
  destruct (_ <? _); [discriminate|]. injection Hc as -> ->.
  apply Hne. eapply (Hs O); eauto. reflexivity.
Qed.

Lemma skip_chars_good f s : wf s -> good (adv 0 s) (skip_chars text f s).
Proof. intros W. apply skip_chars_loop_good; [assumption|apply fuel_enough; assumption]. Qed.

Lemma consume_chars_good f s : wf s -> good (fun p => adv 0 s (snd p)) (consume_chars text f s).
Proof.
  intros W. unfold consume_chars. eapply good_bind; [apply skip_chars_good; assumption|].
  intros s' H. eapply good_bind; [apply slice_back_good|]. intros sl _. exact H.
Qed.

(* parse_text: the current byte is not '<', so at least one char is consumed *)
Lemma skip_chars_progress s x : wf s -> at_end s = false ->
  curr_byte_unchecked s = Ok x -> x <> 60 ->
  good (adv 1 s) (skip_chars text (fun _ ch => negb (ch =? 60)) s).
Proof.
  intros W He Hx Hne. unfold skip_chars. cbn [skip_chars_loop].
  pose proof (next_char_good s) as Hg.
  destruct (next_char s) as [[[c n]|]| | |] eqn:En; cbn [good bind] in *; try exact I; try contradiction.
  - destruct (negb (char_is_char c)); [apply good_err_at|].
    assert (Hc : c <> 60) by (eapply next_char_not_lt; eauto).
    destruct (N.eqb_spec c 60); [contradiction|]. cbn [negb].
    eapply good_bind; [apply advance_good; assumption|]. intros s' Ha.
    eapply good_weaken; [apply skip_chars_loop_good|].
    + eapply adv_wf; eauto.
    + pose proof (fuel_enough s W). eapply adv_measure; eauto.
    + intros s'' H2. cbv beta in H2. unfold adv, wf in *; intuition lia.
  - unfold next_char in En. rewrite He in En.
    destruct (decode1 (s_rest s)) as [[c n]|]; [|discriminate].
    destruct (_ <? _); discriminate.
Qed.

Lemma consume_chars_progress s x : wf s -> at_end s = false ->
  curr_byte_unchecked s = Ok x -> x <> 60 ->
  good (fun p => adv 1 s (snd p)) (consume_chars text (fun _ ch => negb (ch =? 60)) s).
Proof.
  intros W He Hx Hne. unfold consume_chars.
  eapply good_bind; [eapply skip_chars_progress; eassumption|].
  intros s' H. eapply good_bind; [apply slice_back_good|]. intros sl _. exact H.
Qed.

Lemma skip_name_loop_good fuel : forall s, wf s -> s_end s - s_pos s < N.of_nat fuel ->
  good (adv 0 s) (skip_name_loop fuel s).
Proof.
  induction fuel; intros s W Hf; [lia|]. cbn [skip_name_loop].
  eapply good_bind; [apply next_char_good|]. intros [[c n]|] Hn; [|apply adv_refl; assumption].
  destruct (char_is_name c); [|apply adv_refl; assumption].
  eapply good_bind; [apply advance_good; assumption|]. intros s' Ha.
  eapply good_weaken; [apply IHfuel|].
  - eapply adv_wf; eauto.
  - eapply adv_measure; eauto.
  - intros s'' H2. eapply adv_trans0; [exact Ha|exact H2].
Qed.

Lemma skip_name_good s : wf s -> good (adv 0 s) (skip_name text s).
Proof.
  intros W. unfold skip_name.
  eapply good_bind; [apply next_char_good|]. intros [[c n]|] Hn; [|apply adv_refl; assumption].
  destruct (char_is_name_start c); [|apply good_err_from].
  eapply good_bind; [apply advance_good; assumption|]. intros s' Ha.
  eapply good_weaken; [apply skip_name_loop_good|].
  - eapply adv_wf; eauto.
  - apply fuel_enough. eapply adv_wf; eauto.
  - intros s'' H2. eapply adv_trans0; [exact Ha|exact H2].
Qed.

(* a name that was accepted is not empty, so consume_name moves forward *)
Lemma consume_name_good s : wf s -> good (fun p => adv 1 s (snd p)) (consume_name text s).
Proof.
  intros W. unfold consume_name.
  eapply good_bind; [apply skip_name_good; assumption|]. intros s' Ha.
  unfold slice_back, mk_slice.
  destruct (_ || _) eqn:E1; [exact I|]. destruct (_ && _); [|exact I]. cbn [bind].
  unfold slice_len; cbn [sl_start sl_end].
  destruct (s_pos s' - s_pos s =? 0) eqn:E2; [apply good_err_from|].
  cbn [good snd]. nsolve.
Qed.

Lemma consume_qname_loop_good fuel : forall start sp s, wf s -> s_end s - s_pos s < N.of_nat fuel ->
  good (fun p => adv 0 s (snd p)) (consume_qname_loop text fuel start sp s).
Proof.
  induction fuel; intros start sp s W Hf; [lia|]. cbn [consume_qname_loop].
  assert (Hrec : forall n sp' , 1 <= n ->
     good (fun p => adv 0 s (snd p))
       (let! s' := advance n s in consume_qname_loop text fuel start sp' s')).
  { intros n sp' Hn. eapply good_bind; [apply advance_good; assumption|]. intros s' Ha.
    eapply good_weaken; [apply IHfuel|].
    - eapply adv_wf; eauto.
    - eapply adv_measure; eauto.
    - intros s'' H2. eapply adv_trans0; [exact Ha|exact H2]. }
  destruct (at_end s); [cbn [good snd]; apply adv_refl; assumption|].
  eapply good_bind; [apply curr_byte_unchecked_good|]. intros x _.
  destruct (x <? 128).
  - destruct (x =? 58).
    + destruct sp; [apply good_err_from|]. apply Hrec; lia.
    + destruct (byte_is_name x); [apply Hrec; lia|]. cbn [good snd]; apply adv_refl; assumption.
  - eapply good_bind; [apply next_char_good|].
    intros [[c n]|] Hn; [|cbn [good snd]; apply adv_refl; assumption].
    destruct (char_is_name c); [apply Hrec; assumption|].
    cbn [good snd]; apply adv_refl; assumption.
Qed.

Lemma consume_qname_good s : wf s -> good (fun p => adv 0 s (snd p)) (consume_qname text s).
Proof.
  intros W. unfold consume_qname.
  eapply good_bind; [apply consume_qname_loop_good; [assumption|apply fuel_enough; assumption]|].
  intros [sp s'] Ha. cbn [snd] in Ha.
  eapply good_bind with (Q := fun _ => True).
  - destruct sp.
    + eapply good_bind; [apply mk_slice_good|]. intros p _.
      eapply good_bind; [apply slice_back_good|]. intros l _. exact I.
    + eapply good_bind; [apply slice_back_good|]. intros p _.
      eapply good_bind; [apply mk_slice_good|]. intros l _. exact I.
  - intros [p l] _. destruct (_ && _); [apply good_err_from|].
    destruct (negb _); [apply good_err_from|]. exact Ha.
Qed.

Lemma consume_eq_good s : wf s -> good (adv 1 s) (consume_eq text s).
Proof.
  intros W. unfold consume_eq. pose proof (skip_spaces_adv s W) as H0.
  eapply good_bind; [apply consume_byte_good; eapply adv_wf; eauto|]. intros s1 H1.
  cbn [good]. pose proof (skip_spaces_adv s1 (adv_wf _ _ _ H1)) as H2.
  nsolve.
Qed.

Lemma consume_quote_good s : wf s -> good (fun p => adv 1 s (snd p)) (consume_quote text s).
Proof.
  intros W. unfold consume_quote. eapply good_bind; [apply curr_byte_good|]. intros c _.
  destruct (_ || _); [|apply good_err_at].
  eapply good_bind; [apply advance_good; assumption|]. intros s' H. exact H.
Qed.

(* ---- references: a reference that was recognised moved the stream forward ---- *)
Lemma consume_reference_good s : wf s ->
  good (fun o => match o with Some p => adv 1 s (snd p) | None => True end)
       (consume_reference text s).
Proof.
  intros W. unfold consume_reference.
  pose proof (try_consume_byte_adv 38 s W) as H1.
  destruct (try_consume_byte 38 s) as [ok s1]. cbn [fst snd] in H1.
  destruct ok; cbn [negb]; [|exact I].
  pose proof (try_consume_byte_adv 35 s1 (adv_wf _ _ _ H1)) as H2.
  destruct (try_consume_byte 35 s1) as [is_num s2]. cbn [fst snd] in H2.
  assert (H12 : adv 1 s s2) by (destruct is_num; nsolve).
  eapply good_bind with
    (Q := fun r => match r with Some p => adv 1 s (snd p) | None => True end).
  - destruct is_num.
    + pose proof (try_consume_byte_adv 120 s2 (adv_wf _ _ _ H2)) as H3.
      destruct (try_consume_byte 120 s2) as [is_hex s3]. cbn [fst snd] in H3.
      eapply good_bind; [apply consume_bytes_good; eapply adv_wf; eauto|].
      intros [value s4] H4. cbn [snd] in H4.
      destruct (slice_bytes text value); [exact I|].
      destruct (u32_max <? _); [exact I|]. destruct (negb _); [exact I|].
      cbn [good snd]. destruct is_hex; nsolve.
    + pose proof (consume_name_good s2 (adv_wf _ _ _ H2)) as H3.
      destruct (consume_name text s2) as [[name s3]| | |]; cbn [good snd] in *;
        try exact I; try contradiction.
      nsolve.
  - intros [[r s3]|] H3; [|exact I]. cbn [snd] in H3.
    pose proof (consume_byte_good 59 s3 (adv_wf _ _ _ H3)) as H4.
    destruct (consume_byte text 59 s3); cbn [good snd] in *; try exact I; try contradiction.
    nsolve.
Qed.

(* ---- is_xml_str ---- *)
Lemma is_xml_str_ascii_good l : forall i, good (fun _ => True) (is_xml_str_ascii text l i).
Proof.
  induction l; intros i; cbn [is_xml_str_ascii]; [exact I|].
  destruct (negb _); [apply good_err_from|apply IHl].
Qed.

Lemma is_xml_str_unicode_good fuel : forall l i, (length l < fuel)%nat ->
  good (fun _ => True) (is_xml_str_unicode text fuel l i).
Proof.
  induction fuel; intros l i Hf; [lia|]. cbn [is_xml_str_unicode].
  destruct l as [|x r] eqn:El; [exact I|]. rewrite <- El in *.
  destruct (decode1 l) as [[c n]|] eqn:E; [|exact I].
  destruct (negb _); [apply good_err_from|]. apply IHfuel.
  apply decode1_len in E. rewrite skipn_length. subst l. cbn [length] in *. lia.
Qed.

Lemma is_xml_str_good sl p : good (fun _ => True) (is_xml_str text sl p).
Proof.
  unfold is_xml_str. destruct (forallb _ _); [apply is_xml_str_ascii_good|].
  apply is_xml_str_unicode_good. lia.
Qed.

End WithText.

(* the tactics used by the later files *)
Ltac gsimp := cbv beta in *; cbn beta iota delta [fst snd good] in *.

Ltac solve_adv :=
  unfold adv, wf in *; cbn [s_pos s_end s_rest] in *; intuition (auto using safe_skipn; lia).
