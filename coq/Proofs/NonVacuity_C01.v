(* Proofs/NonVacuity_C01.v -- non-vacuity of the hypotheses of the theorems pinned under C01:
   the builder invariant [Core] with the tag protocol [InTag], well-formed tokens [TokOk] / [TokOk2],
   constructible streams [StreamGen], the callbacks of tokenizer_no_panic / tokenizer_terminates,
   [ld_depth = 0], [init_context = Ok c]; on the document of NonVacuity_Doc.v. *)
From Coq Require Import Ascii String List NArith Bool Lia.
Import ListNotations.
From RX Require Import Generated.
From RX.Model Require Import Base CharClass Stream Tokenizer Doc Builder Parse Api.
From RX.Proofs Require Import TermStream TermUtf8 TermParse TermFinal NoPanicUtf8 NoPanicStream NoPanicTokenizer NoPanicBuilder
     NoPanicBuilderCtx NoPanicText NoPanicParse NoPanicFinal StrictModel StrictTok StrictStream StrictBuilder Strict
     NonVacuity_Doc.
Open Scope N_scope.

(* the state of the builder when the start tag <d is open (the last element of the document):
   all earlier nodes are built, r (node 1) is the parent, the entity e is declared *)
Definition cD : context :=
  {| c_opt := opt0; c_ns_start_idx := 2; c_cur_attrs := []; c_awaiting := [5];
     c_parent_prefixes := [empty_slice; empty_slice];
     c_entities := [{| en_name := {| sl_start := 22; sl_end := 23 |}; en_value := {| sl_start := 25; sl_end := 26 |} |}];
     c_after_text := []; c_parent_id := 1;
     c_tag_name := {| tn_prefix := {| sl_start := 92; sl_end := 92 |}; tn_name := {| sl_start := 92; sl_end := 93 |};
                      tn_pos := 91; tn_prefix_pos := 92 |};
     c_entity_floor := 0; c_ld := ld_init;
     c_doc := {| d_nodes := firstn 6 (d_nodes d0); d_attrs := d_attrs d0;
                 d_ns_values := d_ns_values d0; d_ns_tree := d_ns_tree d0 |} |}.

Ltac bd := split; vm_compute; first [reflexivity | discriminate].

Example nv_Core : Core text0 cD /\ InTag cD.
Proof.
  split; [|vm_compute; discriminate].
  split.
  - vm_compute. discriminate.
  - (* parent chain: r -> Root *)
    cbn. eexists. split; [vm_compute; reflexivity|]. eexists. split; [reflexivity|].
    eexists. split; [vm_compute; reflexivity|reflexivity].
  - discriminate.
  - repeat constructor.
  - intros H. exfalso. apply H. reflexivity.
  - vm_compute. discriminate.
  - split.
    + repeat (constructor; [vm_compute; reflexivity|]). constructor.
    + vm_compute. reflexivity.
    + vm_compute d_nodes. repeat (constructor; [cbn; try exact I; repeat split; vm_compute; first [reflexivity|discriminate|exact I]|]).
      constructor.
    + vm_compute d_attrs. repeat (constructor; [split; [exact I|vm_compute; discriminate]|]). constructor.
  - constructor; [repeat split; vm_compute; first [reflexivity|discriminate]|constructor].
  - constructor.
Qed.

(* well-formed tokens: the attribute b='x&e;' of p:c, the text "t&e;", the end of the open tag *)
Definition tokA : Tokenizer.token :=
  TAttribute (56, 64) 1 1 {| sl_start := 56; sl_end := 56 |} {| sl_start := 56; sl_end := 57 |}
             {| sl_start := 59; sl_end := 63 |}.
Definition tokT : Tokenizer.token := TText {| sl_start := 65; sl_end := 69 |} (65, 69).
Definition tokE : Tokenizer.token := TElementEnd EEmpty (92, 95).

Example nv_TokOk : TokOk text0 tokA /\ TokOk text0 tokT /\ TokOk text0 tokE.
Proof.
  split; [|split; [|exact I]].
  - split; [repeat split; vm_compute; first [reflexivity|discriminate]|vm_compute; discriminate].
  - repeat split; vm_compute; first [reflexivity|discriminate].
Qed.

Example nv_TokOk2 : TokOk2 text0 tokA /\ TokOk2 text0 tokT.
Proof.
  destruct nv_TokOk as (HA & HT & _). split; split; auto; try exact I. vm_compute. discriminate.
Qed.

(* token_no_panic / token_preserves_core applied: the three tokens in state cD *)
Example nv_token_no_panic_applied : forall p,
  token text0 tokA cD <> Panic p /\ token text0 tokT cD <> Panic p /\ token text0 tokE cD <> Panic p.
Proof.
  intros p. destruct nv_Core as [Hc Ht]. destruct nv_TokOk as (HA & HT & HE).
  repeat split; apply token_no_panic; auto using valid0.
Qed.

Example nv_token_preserves_core_applied :
  exists c', token text0 tokE cD = Ok c' /\ Core text0 c' /\ len_N (d_nodes (c_doc c')) = 7.
Proof.
  destruct nv_Core as [Hc Ht]. destruct nv_TokOk as (HA & HT & HE).
  assert (E : exists c', token text0 tokE cD = Ok c') by (eexists; vm_compute; reflexivity).
  destruct E as [c' E]. exists c'. split; [exact E|]. split.
  - apply (token_preserves_core text0 tokE cD c' valid0 Hc HE (fun _ => Ht) E).
  - revert E. vm_compute. intros E. inversion E. reflexivity.
Qed.

(* site_ns_range_unreachable / strict_callback_refines *)
Example nv_site_ns_range_applied : resolve_namespaces_s text0 cD = resolve_namespaces text0 cD.
Proof. apply site_ns_range_unreachable. apply nv_Core. Qed.

Example nv_strict_callback_refines_applied :
  token_s text0 tokA cD = token_with text0 (process_text_s text0) tokA cD.
Proof. apply strict_callback_refines; [exact valid0|apply nv_TokOk2|apply nv_Core]. Qed.

(* StreamGen: the stream after the BOM test, advanced over "<!DOCTYPE" and the following space *)
Example nv_StreamGen :
  exists s, StreamGen text0 s /\ s_pos s = 10 /\ In (b "-->") skip_string_literals.
Proof.
  assert (E : exists s1, advance 9 (stream_new text0) = Ok s1) by (eexists; vm_compute; reflexivity).
  destruct E as [s1 E]. exists (skip_bytes byte_is_space s1). split.
  - apply SG_skip. eapply SG_advance; [apply SG_new|exact E].
  - split; [revert E; vm_compute; intros E; inversion E; reflexivity|left; reflexivity].
Qed.

(* the callbacks of the generic tokenizer theorems *)
Example nv_tokenizer_callbacks :
  (forall tok (c0 : nat) q, (fun (_ : Tokenizer.token) c => Ok (S c)) tok c0 <> Panic q) /\
  (forall tok (c0 : nat), (fun (_ : Tokenizer.token) c => Ok (S c)) tok c0 <> OutOfFuel).
Proof. split; intros; discriminate. Qed.

Example nv_tokenizer_no_panic_applied :
  exists n, parse_document text0 nat (fun _ c => Ok (S c)) true 0%nat = Ok n /\ (10 <= n)%nat.
Proof. eexists. split; [vm_compute; reflexivity|]. repeat constructor. Qed.

(* token_terminates / token_preserves_depth0 / parse_document_terminates *)
Example nv_depth0 : ld_depth (c_ld cD) = 0 /\ exists c, init_context text0 opt0 = Ok c.
Proof. split; [reflexivity|eexists; vm_compute; reflexivity]. Qed.
