(* Proofs/CstRangeFS2.v -- C13 / C18 on the capstone fragment, stage S2 (Spec/CstFull.v, [pieces]: qualified
   Unicode names, namespace declarations interleaved with attributes, piece lists for values,
   declaration values and character data): what the stage supplies to CstRangeFMain.v, and the
   theorems [parse_render_ranges_f2], [parse_render_storage_f2] with their corollaries. *)
From Coq Require Import Ascii String.
From Coq Require Import List NArith PeanoNat Bool Lia ZifyBool ZifyN ZifyNat.
Import ListNotations.
From RX Require Import Generated.
From RX.Model Require Import Base CharClass Stream Tokenizer Doc Builder Parse Api.
From RX.Spec Require Cst Scope CstNs CstU CstText.
From RX.Spec Require Import Text CstFull.
From RX.Proofs Require Import Tactics CstLex CstBuild CstNsLex CstNsView CstNsBuild CstULex TextMachine TextMerge.
From RX.Proofs Require Import CstTextSem CstTextLex CstTextBuild CstFullLex CstFullBuild CstFullTree CstFullItems CstFullDoc CstFullMain.
From RX.Proofs Require Import CstFullS2Sem CstFullS2Lex CstFullS2Build CstFullS2.
From RX.Proofs Require CstItems CstNsItems CstTextItems CstEntRun RangeInv RangeParse CstRangeMain.
From RX.Proofs Require Import CstRangeDefs CstRangeBuild CstRangeTDefs CstRangeTBuild CstRangeFDefs CstRangeFBuild CstRangeFItems CstRangeFDoc CstRangeFMain.
Open Scope N_scope.

Notation text_follow := CstTextItems.text_follow.

(* ------------------------------------------------------------------------------------------ *)
(* what is stored for a value                                                                 *)
(* ------------------------------------------------------------------------------------------ *)
Lemma s2_val_norm_r : forall text q v p more, wf_val pieces_meaning q v = true -> q = 39 \/ q = 34 ->
  CstULex.WV text p (r_val pieces v ++ [q] ++ more) ->
  exists stor, norm_ok text [] (sl p (p + blen (r_val pieces v))) stor /\ storage_bytes text stor = val_sem pieces_meaning v /\
               stored stor (vstore2 p v).
Proof.
  intros text q v p more Hv Hq HW. cbn [wf_val pieces_meaning r_val pieces val_sem] in *.
  destruct (uvalue_b q v (quote_lt q Hq) Hv) as [Hb _].
  exists (if needs_norm (T.r_pieces (enc_pieces v)) then Owned (T.value_sem (enc_pieces v))
          else Borrowed (SIn (sl p (p + blen (T.r_pieces (enc_pieces v)))))).
  split; [|split].
  - intros c [_ Hld]. apply (normalize_attribute_ok_u text p _ q more c HW Hb). unfold LD. rewrite Hld. reflexivity.
  - destruct (needs_norm (T.r_pieces (enc_pieces v))) eqn:E; [reflexivity|].
    cbn [storage_bytes str_bytes]. rewrite (W_slice _ _ _ _ (WV_W _ _ _ HW)). symmetry. apply (value_plain_u q _ Hb E).
  - unfold vstore2. cbn [r_val pieces val_sem pieces_meaning].
    change (needs_norm_b (T.r_pieces (enc_pieces v))) with (needs_norm (T.r_pieces (enc_pieces v))).
    destruct (needs_norm (T.r_pieces (enc_pieces v))); reflexivity.
Qed.

(* ------------------------------------------------------------------------------------------ *)
(* what is stored for a run                                                                   *)
(* ------------------------------------------------------------------------------------------ *)
Lemma blit_no_amp q bs : blit q bs -> existsb (fun x => x =? 38) bs = false.
Proof.
  intros (_ & _ & H). induction bs as [|x r IH]; [reflexivity|].
  cbn [forallb existsb] in *. apply andb_true_iff in H. destruct H as [H1 H2]. rewrite IH by exact H2. lia.
Qed.

Lemma ref_amp_u q p : bvpiece q p -> T.is_lit p = false -> exists r, T.r_piece p = 38 :: r.
Proof. destruct p as [bs|hex ds|e|bs]; cbn; intros H N0; try discriminate; try contradiction; eexists; reflexivity. Qed.

Lemma amp_iff_lit_u q ps : Forall (bvpiece q) ps -> T.no_adjacent_lit ps = true ->
  existsb (fun x => x =? 38) (T.r_pieces ps) = negb (lit_or_nil ps).
Proof.
  intros Hv Hadj. destruct ps as [|p r]; [reflexivity|].
  apply Forall_cons_iff in Hv. destruct Hv as [Hp Hr].
  rewrite r_pieces_cons, existsb_app.
  destruct (T.is_lit p) eqn:El.
  - destruct p as [bs| | |]; try discriminate. cbn [bvpiece] in Hp. cbn [T.r_piece].
    rewrite (blit_no_amp q bs Hp). cbn [orb].
    destruct r as [|d r']; [reflexivity|]. cbn [lit_or_nil negb].
    rewrite no_adj_cons2 in Hadj. apply andb_true_iff in Hadj. destruct Hadj as [Hd _].
    cbn [T.is_lit andb] in Hd. apply negb_true_iff in Hd.
    apply Forall_cons_iff in Hr. destruct Hr as [Hd1 _].
    destruct (ref_amp_u q d Hd1 Hd) as [t Et]. rewrite r_pieces_cons, Et. reflexivity.
  - destruct (ref_amp_u q p Hp El) as [t Et]. rewrite Et. cbn [existsb orb N.eqb]. rewrite N.eqb_refl. cbn [orb].
    destruct p; try discriminate; destruct r; reflexivity.
Qed.

Section URunR.
Variable text : bytes.
Variable D : list Scope.binding.
Hypothesis HD : forall l, NoDup l -> incl l D -> N.of_nat (length l) <= 65535.

Notation loop := (parse_content_loop text context (tok_ev text)).
Notation st := (CstLex.st text).
Notation W := (CstLex.W text).
Notation WV := (CstULex.WV text).
Notation CIn := (CstNsBuild.CIn text D).
Notation seg_step_u := (CstFullS2.seg_step_u text D HD).
Notation run_loop_u := (CstFullS2.run_loop_u text D HD).
Notation frags_bytes_u := (CstFullS2.frags_bytes_u text).

Lemma ss_store_u p ps : seg_wf_u (SS ps) -> stored (cow_storage (frag p (SS ps))) (text_store p ps).
Proof.
  intros (Hne & H1 & H2 & H3). pose proof (ss_vpieces_u ps H1 H2) as Hv.
  cbn [frag]. cbv zeta.
  assert (E : existsb (fun y => (y =? 38) || (y =? 13)) (T.r_pieces ps) =
              existsb (fun x => x =? 38) (T.r_pieces ps) || has_cr (T.r_pieces ps))
    by (unfold has_cr; apply existsb_or).
  rewrite E, (amp_iff_lit_u 60 ps Hv H3).
  destruct ps as [|p0 r]; [congruence|].
  destruct p0 as [bs|hex ds|e|bs]; try discriminate.
  - destruct r as [|d r'].
    + cbn [lit_or_nil negb orb text_store]. cbn [T.r_pieces flat_map T.r_piece]. rewrite app_nil_r.
      destruct (has_cr bs); cbn [cow_storage stored]; reflexivity.
    + cbn [lit_or_nil negb orb cow_storage stored text_store]. destruct d; reflexivity.
  - cbn [lit_or_nil negb orb cow_storage stored text_store]. destruct r; reflexivity.
  - cbn [lit_or_nil negb orb cow_storage stored text_store]. destruct r; reflexivity.
Qed.

Lemma sc_store_u p bs : stored (cow_storage (frag p (SC bs))) (text_store p [T.PCData bs]).
Proof.
  cbn [frag text_store]. rewrite mem_b_existsb. fold (has_cr bs).
  destruct (has_cr bs); cbn [cow_storage stored]; [|reflexivity].
  rewrite (CstEntRun.text_sem_any [T.PCData bs]). cbn [segs map seg_sem concat]. rewrite app_nil_r. reflexivity.
Qed.

(* the storage of the Text node of a whole run *)
Lemma run_store_u p ps post stg : Forall btpiece ps -> T.no_adjacent_lit ps = true -> ps <> [] ->
  W p (T.r_pieces ps ++ post) ->
  (match segs ps with
   | [s0] => stg = cow_storage (frag p s0)
   | _ => stg = Owned (concat (map (cow_bytes text) (CstTextItems.frags p (segs ps))))
   end) ->
  stored stg (text_store p ps).
Proof.
  intros H1 H2 Hne HW Hst.
  destruct (segs_wf_u ps H1 H2) as (HF & _).
  destruct (segs ps) as [|s0 [|s1 L]] eqn:Es.
  - exfalso. apply (segs_ne ps); [exact Hne|exact Es].
  - subst stg. inversion HF as [|? ? Hs0 _]; subst. destruct s0 as [l|bs].
    + destruct (segs_single_ss ps l Es) as [-> Hn]. apply ss_store_u; assumption.
    + rewrite (segs_single_sc ps bs Es). apply sc_store_u.
  - subst stg. rewrite <- Es.
    rewrite (frags_bytes_u (segs ps) p post); [|rewrite segs_render; exact HW|rewrite Es; exact HF].
    rewrite <- (CstEntRun.text_sem_any ps).
    assert (Hts : text_store p ps = TOwned (T.text_sem ps)).
    { destruct ps as [|p0 r]; [reflexivity|]. destruct p0 as [bs|hex ds|e|bs]; try (destruct r; reflexivity).
      - destruct r as [|d r']; [rewrite segs_lit in Es; discriminate|reflexivity].
      - destruct r as [|d r']; [rewrite segs_cd in Es; discriminate|reflexivity]. }
    rewrite Hts. reflexivity.
Qed.

(* the reset that ends a run, with the storage made explicit *)
Lemma run_reset_n_r inh c nodes' t0 rest :
  CIn inh c ->
  map abs_nd nodes' = absn (c_doc c) ++ [(Some (c_parent_id c), KText (cow_storage t0))] ->
  exists c2 st,
    reset_after_text text (set_after_text (run_ctx c nodes') (t0 :: rest)) = Ok c2 /\
    Stepn c c2 [(Some (c_parent_id c), KText st)] [] /\ CIn inh c2 /\ c_after_text c2 = [] /\
    c_tag_name c2 = c_tag_name c /\ d_ns_tree (c_doc c2) = d_ns_tree (c_doc c) /\
    storage_bytes text st = concat (map (cow_bytes text) (t0 :: rest)) /\
    match rest with
    | [] => st = cow_storage t0
    | _ => st = Owned (concat (map (cow_bytes text) (t0 :: rest)))
    end.
Proof.
  intros I M.
  assert (Hfin : forall nodes2 st, map abs_nd nodes2 = absn (c_doc c) ++ [(Some (c_parent_id c), KText st)] ->
            let c2 := set_after_text (run_ctx c nodes2) [] in
            Stepn c c2 [(Some (c_parent_id c), KText st)] [] /\ CIn inh c2 /\ c_after_text c2 = [] /\
            c_tag_name c2 = c_tag_name c /\ d_ns_tree (c_doc c2) = d_ns_tree (c_doc c)).
  { intros nodes2 st M2 c2.
    assert (S : Stepn c c2 [(Some (c_parent_id c), KText st)] []).
    { split; [|split; reflexivity]. constructor.
      - repeat split.
      - reflexivity.
      - exact M2.
      - cbn. rewrite app_nil_r. reflexivity.
      - apply NsExt_same; reflexivity. }
    split; [exact S|]. split; [|repeat split].
    eapply (CIn_step text D HD); [exact I|exact S|reflexivity|reflexivity|reflexivity| |cbn; lia].
    cbn. constructor; [|constructor].
    assert (L : length nodes2 = (length (d_nodes (c_doc c)) + 1)%nat).
    { pose proof (f_equal (@length _) M2) as L. rewrite map_length, app_length in L. unfold absn in L.
      rewrite map_length in L. exact L. }
    unfold len_N. lia. }
  destruct rest as [|t1 rest].
  - (* a single fragment: nothing to merge *)
    exists (set_after_text (run_ctx c nodes') []), (cow_storage t0). split; [reflexivity|].
    destruct (Hfin nodes' _ M) as (S & I' & A & Tn & Tr).
    split; [exact S|]. split; [exact I'|]. split; [exact A|]. split; [exact Tn|]. split; [exact Tr|].
    split; [|reflexivity]. cbn [map concat]. rewrite cow_storage_bytes, app_nil_r. reflexivity.
  - (* several fragments: the Text node gets the concatenation *)
    destruct (map_snoc_inv abs_nd _ _ _ M) as (l0 & nd & El & M0 & Mr). subst nodes'.
    unfold abs_nd in Mr. injection Mr as Mp Mk.
    set (joined := concat (map (cow_bytes text) (t0 :: t1 :: rest))).
    exists (set_after_text (run_ctx c (l0 ++ [nd_set_kind nd (KText (Owned joined))])) []), (Owned joined).
    split.
    + unfold reset_after_text. cbn [c_after_text set_after_text].
      unfold merge_text. cbv zeta. cbn [c_doc set_after_text run_ctx set_awaiting set_doc d_nodes set_nodes].
      rewrite rev_unit, Mk. cbn [c_after_text set_after_text]. fold joined.
      unfold upd_node. replace (N.to_nat (len_N (l0 ++ [nd]) - 1)) with (length l0)
        by (unfold len_N; rewrite app_length; cbn; lia).
      rewrite list_upd_snoc. cbn [bind]. reflexivity.
    + assert (M2 : map abs_nd (l0 ++ [nd_set_kind nd (KText (Owned joined))]) =
                   absn (c_doc c) ++ [(Some (c_parent_id c), KText (Owned joined))]).
      { rewrite map_app, M0. cbn [map]. unfold abs_nd at 1. unfold nd_set_kind. cbn [nd_parent nd_kind]. rewrite Mp. reflexivity. }
      destruct (Hfin _ _ M2) as (S & I' & A & Tn & Tr).
      split; [exact S|]. split; [exact I'|]. split; [exact A|]. split; [exact Tn|]. split; [exact Tr|]. split; reflexivity.
Qed.


(* the whole run *)
Lemma run_ok_r inh ps p post c depth fuel :
  ps <> [] -> Forall btpiece ps -> T.no_adjacent_lit ps = true ->
  WV p (T.r_pieces ps ++ post) -> text_follow post ->
  CIn inh c -> LD c -> c_after_text c = [] -> room c ->
  exists c' stg,
    loop (length (segs ps) + fuel) depth (st p (T.r_pieces ps ++ post)) c =
    loop fuel depth (st (p + blen (T.r_pieces ps)) post) c' /\
    Stepn c c' [(Some (c_parent_id c), KText stg)] [] /\ CIn inh c' /\ c_after_text c' = [] /\
    c_tag_name c' = c_tag_name c /\ d_ns_tree (c_doc c') = d_ns_tree (c_doc c) /\
    storage_bytes text stg = T.text_sem ps /\
    stored stg (text_store p ps) /\ rng c' = rng c ++ [(p, p + run_head_len ps)] /\
    d_ns_values (c_doc c') = d_ns_values (c_doc c).
Proof.
  intros Hne H1 H2 HW Hfol I Hld Hat R. pose proof HW as HW00.
  destruct (segs_wf_u ps H1 H2) as (HF & _). pose proof (CstEntRun.alt_segs ps) as A.
  assert (Hne' : segs ps <> []) by (apply segs_ne; exact Hne).
  rewrite <- (segs_render ps) in HW |- *.
  destruct (segs ps) as [|s0 L] eqn:Es; [congruence|]. clear Hne'.
  inversion HF as [|? ? Hs0 HL]; subst. cbn [flat_map] in HW |- *. rewrite <- app_assoc in HW |- *.
  cbn [length Nat.add].
  rewrite seg_step_u; [|exact HW|exact Hs0|exact Hld|intros Hss; eapply alt_stop_u; eassumption].
  destruct (first_frag_n text D inh (frag p s0) (seg_range p s0) c I R Hat) as (nodes' & E1 & M & Ln).
  pose proof (first_frag_rng _ _ _ _ Hat E1) as Rg1. unfold rng in Rg1 at 1.
  cbn [set_after_text run_ctx set_awaiting set_doc set_nodes c_doc d_nodes] in Rg1.
  rewrite E1. cbn [bind].
  rewrite (run_loop_u (run_ctx c nodes') post Hld Hfol L s0); [|discriminate|exact HL|exact A|apply (WV_app _ _ _ _ HW (seg_valid s0 Hs0))].
  cbn [app].
  destruct (run_reset_n_r inh c nodes' (frag p s0) (CstTextItems.frags (p + blen (r_seg s0)) L) I M)
    as (c2 & stg & Er & S & I2 & A2 & Tn & Tr & Hst & Hkind).
  pose proof (W_app _ _ _ _ (W_app _ _ _ _ (WV_W _ _ _ HW))) as HWend.
  rewrite (CstTextItems.loop_reset_eq text _ c2 _ post Er A2 Hfol HWend).
  exists c2, stg. split; [rewrite blen_app, N.add_assoc; reflexivity|].
  split; [exact S|]. split; [exact I2|]. split; [exact A2|]. split; [exact Tn|]. split; [exact Tr|].
  split.
  2:{ split; [|split].
      - apply (run_store_u p ps post stg H1 H2 Hne (WV_W _ _ _ HW00)). rewrite Es.
        destruct L as [|s1 L']; [exact Hkind|]. cbn [CstTextItems.frags] in Hkind |- *. exact Hkind.
      - destruct (reset_after_text_Rsame text _ _ Er) as (Rg2 & _). rewrite Rg2. unfold rng at 1.
        cbn [set_after_text run_ctx set_awaiting set_doc set_nodes c_doc d_nodes]. rewrite Rg1.
        rewrite (run_head_seg ps s0 L Es). reflexivity.
      - destruct (reset_after_text_nsv text _ _ Er) as [V _]. rewrite V. reflexivity. }
  rewrite Hst. change (frag p s0 :: CstTextItems.frags (p + blen (r_seg s0)) L) with (CstTextItems.frags p (s0 :: L)).
  rewrite (frags_bytes_u (s0 :: L) p post); [|cbn [flat_map]; rewrite <- app_assoc; apply (WV_W _ _ _ HW)|exact HF].
  rewrite <- Es. symmetry. apply CstEntRun.text_sem_any.
Qed.

End URunR.

Lemma s2_run_r text D (HD : forall l, NoDup l -> incl l D -> N.of_nat (length l) <= 65535) :
  forall r, PIf_r pieces pieces_meaning steps2 vstore2 run_nodes2 text D [] (IText r).
Proof.
  intros ps inh p post c depth fuel Hwf _ _ HW Hfol I [_ Hld] Hat NR _ _.
  cbn [wf_item wf_run pieces_meaning] in Hwf. destruct (utext_b ps Hwf) as (Hne & Hb & Hadj).
  specialize (Hfol eq_refl). cbn [r_item r_run pieces steps den run_sem pieces_meaning] in *. unfold steps2.
  destruct (run_ok_r text D HD inh (enc_pieces ps) p post c depth fuel Hne Hb Hadj HW Hfol I) as (c' & stg & E & S & I' & A & Tn & Tr & Hst & Hsd & Rg & Vs).
  { unfold LD. rewrite Hld. reflexivity. }
  { exact Hat. }
  { apply (node_room_room _ _ NR). rewrite nsizes_one. apply NT.nsize_pos. }
  exists c', [(Some (c_parent_id c), KText stg)], []. split; [exact E|].
  split; [exact S|]. split; [exact I'|]. split; [exact A|]. split; [apply same_tn; exact Tn|]. split; [discriminate|].
  split; [|split; [reflexivity|split; [rewrite Tr; cbn; lia|]]].
  { cbn [NT.tag_list NT.tag app]. constructor; [|constructor]. split; [reflexivity|]. cbn [snd]. exact Hst. }
  unfold ExtraF. cbn [fitems_at flat_map fnode_of fitem_aspans fitem_decls fst snd app map run_nodes2].
  split; [constructor; [exact Hsd|constructor]|]. split; [constructor|]. split; [exact Rg|].
  apply NsVals_same. exact Vs.
Qed.



(* ------------------------------------------------------------------------------------------ *)
(* the run                                                                                    *)
(* ------------------------------------------------------------------------------------------ *)
Lemma parse_observed_f2 : forall (c : S2.doc) (opt : options) d,
  S2.wf_doc c = true ->
  N.of_nat (length (S2.sem c)) < nodes_limit opt ->
  N.of_nat (length (S2.render c)) <= u32_max ->
  S2.distinct_decls_le c (N.to_nat 65535) ->
  1 + N.of_nat (S2.ns_cost c) <= u32_max ->
  parse (S2.render c) opt = Ok d ->
  map nd_range (d_nodes d) = (0, tlen (S2.render c)) :: fspans2 c /\
  (exists k0, map nd_kind (d_nodes d) = KRoot :: k0 /\ Forall2 fkshape k0 (fshapes2 c)) /\
  Forall2 fattr_obs (d_attrs d) (fattr_spans2 c) /\
  d_ns_values d = xml_ns :: map nsv_of (fns_table2 c).
Proof.
  apply (parse_observed_frame pieces pieces_meaning steps2 vstore2 run_nodes2 s2_val_lex s2_run_valid s2_run_steps
           s2_val_norm_r s2_run_r).
Qed.

(* ---- how a stored node / attribute / namespace matches its description (C18) ---- *)
Definition stored_val (st : storage) (d : tstore) : Prop :=
  match st, d with
  | Borrowed (SIn s), TBorrowed sp => (sl_start s, sl_end s) = sp
  | Owned bs, TOwned bs' => bs = bs'
  | _, _ => False
  end.

(* the kind [k] of a stored node holds exactly the slices [sh]; for an element: the slice of the
   LOCAL part of its name (this is CstRangeFItems.fkshape) *)
Definition stored_as_f (k : node_kind) (sh : tshape) : Prop :=
  match k, sh with
  | KElement _ local _ _, TSElem sp => (sl_start local, sl_end local) = sp
  | KText st, TSText d => stored_val st d
  | KComment s, TSComment sp => (sl_start s, sl_end s) = sp
  | KPI t v, TSPI tsp vsp =>
    (sl_start t, sl_end t) = tsp /\
    match v, vsp with
    | Some s, Some sp => (sl_start s, sl_end s) = sp
    | None, None => True
    | _, _ => False
    end
  | _, _ => False
  end.
Lemma stored_as_f_fkshape k sh : fkshape k sh <-> stored_as_f k sh.
Proof. reflexivity. Qed.

(* an ordinary attribute: the local name is the slice of the written local part; the value is
   Borrowed with the span between the quotes, or Owned with the normalised value *)
Definition attr_stored_f (a : attr_data) (s : faspan) : Prop :=
  (sl_start (ad_local a), sl_end (ad_local a)) = fa_local s /\ stored_val (ad_value a) (fa_store s).

(* an entry of the namespace table: the prefix is the slice of the written prefix, the URI the
   slice of the written value or the normalised value; nothing is static *)
Definition ns_entry_of (d : fnsdesc) : namespace :=
  {| ns_name := match fn_prefix d with
                | Some sp => Some (SIn {| sl_start := fst sp; sl_end := snd sp |})
                | None => None
                end;
     ns_uri := match fn_uri d with
               | TBorrowed sp => Borrowed (SIn {| sl_start := fst sp; sl_end := snd sp |})
               | TOwned bs => Owned bs
               end |}.
Lemma ns_entry_of_nsv d : nsv_of d = ns_entry_of d.
Proof. reflexivity. Qed.

(* ------------------------------------------------------------------------------------------ *)
(* (1) the ranges                                                                             *)
(* ------------------------------------------------------------------------------------------ *)
Theorem parse_render_ranges_f2 : forall (c : S2.doc) (opt : options) d,
  S2.wf_doc c = true ->
  N.of_nat (length (S2.sem c)) < nodes_limit opt ->               (* room for all nodes + the Root *)
  N.of_nat (length (S2.render c)) <= u32_max ->                    (* the input is at most u32::MAX bytes long *)
  S2.distinct_decls_le c (N.to_nat 65535) ->                       (* at most 65535 distinct declared bindings *)
  1 + N.of_nat (S2.ns_cost c) <= u32_max ->                        (* the namespace table fits *)
  parse (S2.render c) opt = Ok d ->
  (* every node below the Root, in document order: the span of its construct in the UTF-8 rendering *)
  map nd_range (tl (d_nodes d)) = fspans2 c /\
  (exists root, nth_N (d_nodes d) 0 = Some root /\ nd_range root = (0, N.of_nat (length (S2.render c)))) /\
  (* all these offsets are on character boundaries *)
  Forall (fun r => is_boundary (S2.render c) (fst r) = true /\ is_boundary (S2.render c) (snd r) = true) (fspans2 c).
Proof.
  intros c opt d Hwf Hlim Hsz Hd Hc H. destruct (parse_observed_f2 c opt d Hwf Hlim Hsz Hd Hc H) as (R & _ & _ & _).
  pose proof (RangeParse.parse_ranges_valid _ opt d (render_valid_utf8_s2 c Hwf) H) as (G & _ & _).
  destruct (d_nodes d) as [|root nodes]; [discriminate|]. cbn [map tl] in *. injection R as R0 R1.
  split; [exact R1|]. split; [exists root; split; [reflexivity|exact R0]|].
  rewrite <- R1. apply Forall_forall. intros r Hr. apply in_map_iff in Hr. destruct Hr as (nd & <- & Hin).
  destruct (G nd (or_intror Hin)) as (_ & _ & B1 & B2). split; assumption.
Qed.
Print Assumptions parse_render_ranges_f2.

(* the ranges of the ORDINARY attributes (a namespace declaration is not an attribute and has no
   entry); range_qname is the whole qualified name prefix:local *)
Definition faspan_ok (s : faspan) : Prop :=
  fst (fa_range s) = fst (fa_qname s) /\ fst (fa_qname s) <= snd (fa_qname s) /\
  snd (fa_qname s) + 2 <= fst (fa_value s) /\ fst (fa_value s) <= snd (fa_value s) /\
  snd (fa_range s) = snd (fa_value s) + 1.

Lemma entries_aspans_ok Sy vs : forall es q, Forall faspan_ok (entries_aspans Sy vs q es).
Proof.
  induction es as [|e es IH]; intros q; cbn [entries_aspans]; [constructor|]. apply Forall_app. split; [|apply IH].
  destruct e as [l n v|l p v]; cbn [entry_aspans]; constructor; [|constructor].
  unfold faspan_ok, e_vend, e_vstart, e_name_end, e_start. cbn [fa_range fa_qname fa_value fst snd]. lia.
Qed.

Lemma fattr_spans_ok Sy vs (c : doc Sy) : Forall faspan_ok (fattr_spans Sy vs c).
Proof.
  unfold fattr_spans. induction (fdoc_items_at Sy c) as [|[p i] L IH]; [constructor|]. cbn [flat_map].
  apply Forall_app. split; [|exact IH]. destruct i; try constructor. apply entries_aspans_ok.
Qed.

Lemma obs_ranges : forall ads sps, Forall2 fattr_obs ads sps -> Forall faspan_ok sps -> Forall faspan_small sps ->
  map (fun a => (ad_range a, attr_range_qname a, attr_range_value a)) ads =
  map (fun s => (fa_range s, fa_qname s, Ok (fa_value s))) sps.
Proof.
  induction 1 as [|a s ads sps (O1 & O2 & O3 & O4 & O5) _ IH]; intros Hok Hsm; [reflexivity|].
  inversion Hok as [|? ? (K1 & K2 & K3 & K4 & K5) Hok']; subst. inversion Hsm as [|? ? [S1 S2] Hsm']; subst.
  cbn [map]. rewrite (IH Hok' Hsm'). f_equal.
  unfold attr_range_qname, attr_range_value. rewrite O1, O3, O4. unfold qname_len_sat, eq_len_sat.
  destruct (fa_range s) as [r1 r2], (fa_qname s) as [q1 q2], (fa_value s) as [v1 v2]. cbn [fst snd] in *. subst r1.
  replace (N.min (q2 - q1) 65535) with (q2 - q1) by lia.
  replace (N.min (v1 - 1 - q2) 255) with (v1 - 1 - q2) by lia.
  replace (r2 =? 0) with false by lia. repeat (f_equal; try lia).
Qed.

Theorem parse_render_attr_ranges_f2 : forall (c : S2.doc) (opt : options) d,
  S2.wf_doc c = true ->
  N.of_nat (length (S2.sem c)) < nodes_limit opt ->
  N.of_nat (length (S2.render c)) <= u32_max ->
  S2.distinct_decls_le c (N.to_nat 65535) ->
  1 + N.of_nat (S2.ns_cost c) <= u32_max ->
  fattrs_small2 c ->                                           (* below the saturation limits *)
  parse (S2.render c) opt = Ok d ->
  map (fun a => (ad_range a, attr_range_qname a, attr_range_value a)) (d_attrs d) =
  map (fun s => (fa_range s, fa_qname s, Ok (fa_value s))) (fattr_spans2 c).
Proof.
  intros c opt d Hwf Hlim Hsz Hd Hc Hsmall H. destruct (parse_observed_f2 c opt d Hwf Hlim Hsz Hd Hc H) as (_ & _ & A & _).
  apply (obs_ranges _ _ A); [apply fattr_spans_ok|exact Hsmall].
Qed.
Print Assumptions parse_render_attr_ranges_f2.

(* ------------------------------------------------------------------------------------------ *)
(* (2) what is stored (C18)                                                                   *)
(* ------------------------------------------------------------------------------------------ *)
Theorem parse_render_storage_f2 : forall (c : S2.doc) (opt : options) d,
  S2.wf_doc c = true ->
  N.of_nat (length (S2.sem c)) < nodes_limit opt ->
  N.of_nat (length (S2.render c)) <= u32_max ->
  S2.distinct_decls_le c (N.to_nat 65535) ->
  1 + N.of_nat (S2.ns_cost c) <= u32_max ->
  parse (S2.render c) opt = Ok d ->
  (* every node holds exactly what [fshapes2] says: a tag name is the slice of the written LOCAL part
     (after the colon); comments, PIs and text as in CstRangeT *)
  Forall2 stored_as_f (map nd_kind (tl (d_nodes d))) (fshapes2 c) /\
  (* every ordinary attribute: the local name is the slice of the written local part; the value is
     Borrowed with the span between the quotes, or Owned with the normalised value *)
  Forall2 attr_stored_f (d_attrs d) (fattr_spans2 c) /\
  (* the namespace table: the built-in xml entry (the only one with static strings), then one entry
     per distinct declared (prefix, URI) pair, the first declaration of the pair in document order:
     the prefix is the slice of the written prefix; the URI is Borrowed with the written span of the
     value when that is written without '&', TAB, LF, CR, otherwise Owned with the normalised value *)
  d_ns_values d = xml_ns :: map ns_entry_of (fns_table2 c).
Proof.
  intros c opt d Hwf Hlim Hsz Hd Hc H.
  destruct (parse_observed_f2 c opt d Hwf Hlim Hsz Hd Hc H) as (_ & (k0 & Hk & HF) & A & V).
  split; [|split; [|exact V]].
  - destruct (d_nodes d) as [|root nodes]; [discriminate|]. cbn [map tl] in *. injection Hk as _ Hk. rewrite Hk. exact HF.
  - clear - A. induction A as [|a s l l' (_ & O2 & _ & _ & O5) _ IH]; constructor; [split; assumption|exact IH].
Qed.
Print Assumptions parse_render_storage_f2.

(* what [vstore2] says of a value that is one literal / empty / contains a reference *)
Lemma has_tlc_norm bs : existsb (fun x => x =? 38) bs = false -> needs_norm_b bs = has_tlc bs.
Proof.
  unfold needs_norm_b, has_tlc. induction bs as [|x r IH]; [reflexivity|]. cbn [existsb]. intros H.
  apply orb_false_iff in H. destruct H as [H1 H2]. rewrite (IH H2). rewrite H1. reflexivity.
Qed.

Lemma vstore2_literal p q cs : q < 128 -> wf_ulit q cs = true ->
  vstore2 p [T.PLit cs] = if has_tlc (utf8s cs) then TOwned (T.value_sem [T.PLit (utf8s cs)])
                          else TBorrowed (p, p + nlen (utf8s cs)).
Proof.
  intros Hq Hw. unfold vstore2. cbn [r_val pieces val_sem pieces_meaning enc_pieces map enc_piece T.r_pieces flat_map T.r_piece].
  rewrite app_nil_r. rewrite (has_tlc_norm _ (blit_no_amp _ _ (ulit_blit q cs Hq Hw))). reflexivity.
Qed.

Lemma vstore2_empty p : vstore2 p [] = TBorrowed (p, p + 0).
Proof. reflexivity. Qed.

Lemma vstore2_reference p v : (exists pre post x, v = pre ++ x :: post /\ T.is_lit x = false /\ (forall bs, x <> T.PCData bs)) ->
  vstore2 p v = TOwned (T.value_sem (enc_pieces v)).
Proof.
  intros (pre & post & x & -> & Hx & Hc). unfold vstore2. cbn [r_val pieces val_sem pieces_meaning].
  replace (needs_norm_b (T.r_pieces (enc_pieces (pre ++ x :: post)))) with true; [reflexivity|].
  symmetry. unfold enc_pieces. rewrite map_app. cbn [map]. unfold T.r_pieces. rewrite flat_map_app. cbn [flat_map].
  unfold needs_norm_b. rewrite existsb_app. apply orb_true_iff. right. rewrite existsb_app. apply orb_true_iff. left.
  destruct x as [bs|hex ds|e|bs]; try discriminate; try (exfalso; apply (Hc bs); reflexivity); reflexivity.
Qed.

(* ------------------------------------------------------------------------------------------ *)
(* (3) consequences: what the slice of a node looks like                                      *)
(* ------------------------------------------------------------------------------------------ *)
Notation occ := CstRangeMain.occ.

Section Occ.
Variable Sy : syntax.
Notation item := (CstFull.item Sy).

Definition foccs (text : bytes) (L : list (N * item)) : Prop :=
  Forall (fun x => occ text (fst x) (r_item (snd x))) L.

Lemma focc_items_list text cs :
  Forall (fun i : item => forall p, occ text p (r_item i) -> foccs text (fitems_at Sy p i)) cs ->
  forall q, occ text q (r_items cs) -> foccs text (fitems_list Sy q cs).
Proof.
  induction 1 as [|i r Hi _ IH]; intros q Hq; cbn [fitems_list]; [constructor|].
  cbn [r_items] in Hq. apply Forall_app. split; [apply Hi; eapply CstRangeMain.occ_l; exact Hq|].
  apply IH. eapply CstRangeMain.occ_r; exact Hq.
Qed.

Lemma focc_items text : forall (i : item) p, occ text p (r_item i) -> foccs text (fitems_at Sy p i).
Proof.
  intros i. induction i as [n a w|n a w cs w2 IH|r|bs|t s v] using fitem_ind; intros p Hp.
  - rewrite fitems_at_elem. constructor; [exact Hp|constructor].
  - rewrite fitems_at_elem. constructor; [exact Hp|].
    apply (focc_items_list text cs IH). rewrite r_item_elem in Hp.
    apply CstRangeMain.occ_r in Hp. apply CstRangeMain.occ_r in Hp. apply CstRangeMain.occ_r in Hp.
    apply CstRangeMain.occ_r in Hp. apply CstRangeMain.occ_r in Hp. apply CstRangeMain.occ_l in Hp.
    replace (p + fstart_tag_len Sy n a w) with (p + nlen [60] + nlen (r_qname n) + nlen (flat_map r_entry a) + nlen w + nlen [62])
      by (unfold fstart_tag_len, nlen; cbn [length]; lia).
    exact Hp.
  - constructor; [exact Hp|constructor].
  - constructor; [exact Hp|constructor].
  - constructor; [exact Hp|constructor].
Qed.

Lemma focc_before text : forall (l : list (item * bytes)) q,
  occ text q (flat_map (fun x => r_item (fst x) ++ snd x) l) -> foccs text (fbefore_at Sy q l).
Proof.
  induction l as [|[i w] r IH]; intros q H; cbn [fbefore_at]; [constructor|].
  cbn [flat_map fst snd] in H. rewrite <- app_assoc in H. apply Forall_app. split.
  - apply focc_items. eapply CstRangeMain.occ_l; exact H.
  - apply IH. apply CstRangeMain.occ_r in H. apply CstRangeMain.occ_r in H. exact H.
Qed.

Lemma focc_after text : forall (l : list (bytes * item)) q,
  occ text q (flat_map (fun x => fst x ++ r_item (snd x)) l) -> foccs text (fafter_at Sy q l).
Proof.
  induction l as [|[w i] r IH]; intros q H; cbn [fafter_at]; [constructor|].
  cbn [flat_map fst snd] in H. rewrite <- app_assoc in H. apply CstRangeMain.occ_r in H. apply Forall_app. split.
  - apply focc_items. eapply CstRangeMain.occ_l; exact H.
  - apply IH. eapply CstRangeMain.occ_r; exact H.
Qed.

Lemma fdoc_occ (c : doc Sy) : foccs (render c) (fdoc_items_at Sy c).
Proof.
  unfold fdoc_items_at, froot_offset, fbefore_len.
  assert (H0 : occ (render c) 0 (render c)).
  { exists [], []. rewrite app_nil_r. split; reflexivity. }
  unfold render in H0 at 2. apply CstRangeMain.occ_r in H0. rewrite N.add_0_l in H0.
  apply Forall_app. split; [apply focc_before; eapply CstRangeMain.occ_l; exact H0|].
  apply CstRangeMain.occ_r in H0. apply Forall_app. split; [apply focc_items; eapply CstRangeMain.occ_l; exact H0|].
  apply CstRangeMain.occ_r in H0. apply focc_after. eapply CstRangeMain.occ_l; exact H0.
Qed.

(* the local part of a qualified name inside its rendering *)
Lemma r_qname_split name : exists pre, r_qname name = pre ++ utf8s (q_local name) /\ nlen pre = fq_off name.
Proof.
  unfold r_qname, CstNs.r_qname, fq_off. cbn [x_qname CstNs.q_prefix CstNs.q_local].
  destruct (q_prefix name) as [|c0 cs] eqn:E.
  - exists []. split; reflexivity.
  - destruct (utf8s (c0 :: cs)) as [|y yr] eqn:Eu; [apply (proj1 (utf8s_nil_iff _)) in Eu; discriminate Eu|].
    exists ((y :: yr) ++ [58]). rewrite <- app_assoc. split; [reflexivity|]. unfold nlen. rewrite app_length. cbn [length]. lia.
Qed.
End Occ.

(* in stage S2 every item has exactly one node *)
Definition fnode1 (x : N * item pieces) : (N * N) * tshape :=
  match fnode_of pieces run_nodes2 x with y :: _ => y | [] => ((0, 0), TSText (TOwned [])) end.

Lemma fnode_of_single x : fnode_of pieces run_nodes2 x = [fnode1 x].
Proof. destruct x as [p [n a w b0|r|cs|t s v]]; reflexivity. Qed.

Lemma fnodes_map (c : S2.doc) : fnodes pieces run_nodes2 c = map fnode1 (fdoc_items_at pieces c).
Proof.
  unfold fnodes. induction (fdoc_items_at pieces c) as [|x L IH]; [reflexivity|].
  cbn [flat_map map]. rewrite fnode_of_single, IH. reflexivity.
Qed.

(* every node but the Root is the k-th item of the document *)
Lemma node_item_f2 (c : S2.doc) (opt : options) d id nd :
  S2.wf_doc c = true -> N.of_nat (length (S2.sem c)) < nodes_limit opt ->
  N.of_nat (length (S2.render c)) <= u32_max -> S2.distinct_decls_le c (N.to_nat 65535) ->
  1 + N.of_nat (S2.ns_cost c) <= u32_max -> parse (S2.render c) opt = Ok d ->
  nth_N (d_nodes d) id = Some nd -> nd_kind nd <> KRoot ->
  exists x, In x (fdoc_items_at pieces c) /\ nd_range nd = fst (fnode1 x) /\ stored_as_f (nd_kind nd) (snd (fnode1 x)) /\
            occ (S2.render c) (fst x) (r_item (snd x)).
Proof.
  intros Hwf Hlim Hsz Hd Hc H Hn Hk. destruct (parse_observed_f2 c opt d Hwf Hlim Hsz Hd Hc H) as (R & (k0 & K0 & HF) & _).
  unfold nth_N in Hn. destruct (len_N (d_nodes d) <=? id); [discriminate|].
  destruct (d_nodes d) as [|root nodes]; [destruct (N.to_nat id); discriminate|].
  cbn [map] in R, K0. injection R as _ R. injection K0 as K00 K0.
  destruct (N.to_nat id) as [|k] eqn:Ek; cbn [nth_error] in Hn.
  { injection Hn as <-. contradiction. }
  unfold fspans2, fshapes2, fspans, fshapes in *. rewrite fnodes_map, map_map in R, HF. subst k0.
  assert (Hx : exists x, nth_error (fdoc_items_at pieces c) k = Some x).
  { destruct (nth_error (fdoc_items_at pieces c) k) eqn:E; [eauto|]. apply nth_error_None in E.
    apply (f_equal (@length _)) in R. rewrite !map_length in R.
    assert (k < length nodes)%nat by (apply nth_error_Some; congruence). lia. }
  destruct Hx as [x Hx]. exists x. split; [eapply nth_error_In; exact Hx|].
  split; [|split].
  - pose proof (map_nth_error nd_range _ _ Hn) as A1. rewrite R in A1.
    pose proof (map_nth_error (fun y => fst (fnode1 y)) _ _ Hx) as A2.
    cbv beta in A2. assert (E : Some (nd_range nd) = Some (fst (fnode1 x))) by (rewrite <- A1, <- A2; reflexivity).
    injection E as E. exact E.
  - pose proof (map_nth_error nd_kind _ _ Hn) as A1. pose proof (map_nth_error (fun y => snd (fnode1 y)) _ _ Hx) as A2.
    cbv beta in A2. revert A1 A2. generalize (nd_kind nd) (snd (fnode1 x)). clear - HF. revert k.
    induction HF as [|a b0 l l' Hab _ IH]; intros k u v A1 A2; destruct k; cbn [nth_error] in *; try discriminate.
    + injection A1 as <-. injection A2 as <-. exact Hab.
    + eapply IH; eauto.
  - pose proof (fdoc_occ pieces c) as HO. unfold foccs in HO. rewrite Forall_forall in HO. apply HO.
    eapply nth_error_In; exact Hx.
Qed.

Section ShapesF2.
Variables (c : S2.doc) (opt : options) (d : document).
Hypothesis Hwf : S2.wf_doc c = true.
Hypothesis Hlim : N.of_nat (length (S2.sem c)) < nodes_limit opt.
Hypothesis Hsz : N.of_nat (length (S2.render c)) <= u32_max.
Hypothesis Hdd : S2.distinct_decls_le c (N.to_nat 65535).
Hypothesis Hcost : 1 + N.of_nat (S2.ns_cost c) <= u32_max.
Hypothesis Hparse : parse (S2.render c) opt = Ok d.
Notation text := (S2.render c).
Notation slice_of_range r := (sub text (fst r) (snd r)).

(* the slice of an element starts with '<' and its qualified name prefix ':' local (local alone if
   there is no prefix), and ends with '>'; the stored tag name is the slice of the local part *)
Corollary element_slice_shape_f2 : forall id nd ns local ar nss,
  nth_N (d_nodes d) id = Some nd -> nd_kind nd = KElement ns local ar nss ->
  exists (name : qname) mid,
    slice_of_range (nd_range nd) = [60] ++ r_qname name ++ mid ++ [62] /\
    r_qname name = (match q_prefix name with [] => [] | p => utf8s p ++ [58] end) ++ utf8s (q_local name) /\
    slice_bytes text local = utf8s (q_local name).
Proof.
  intros id nd ns local ar nss Hn Hk.
  destruct (node_item_f2 c opt d id nd Hwf Hlim Hsz Hdd Hcost Hparse Hn ltac:(congruence)) as ([p i] & _ & Hr & Hs & Ho).
  rewrite Hk in Hs. rewrite Hr.
  destruct i as [name es ws body|r|cs|t s v]; cbn [fnode1 fnode_of snd fst stored_as_f map run_nodes2] in Hs; try contradiction.
  cbn [fnode1 fnode_of fst snd] in *. rewrite (CstRangeMain.occ_sub _ _ _ Ho).
  destruct local as [ls le]. cbn [sl_start sl_end] in Hs. injection Hs as -> ->.
  exists name. rewrite r_item_elem in Ho |- *.
  destruct (r_qname_split name) as (pre & Eq & Lp).
  assert (Hloc : slice_bytes text {| sl_start := p + 1 + fq_off name; sl_end := p + 1 + nlen (r_qname name) |} = utf8s (q_local name)).
  { pose proof Ho as Ho'. apply CstRangeMain.occ_r in Ho'. apply CstRangeMain.occ_l in Ho'. rewrite Eq in Ho'.
    apply CstRangeMain.occ_r in Ho'. unfold slice_bytes. cbn [sl_start sl_end].
    replace (p + 1 + nlen (r_qname name)) with (p + nlen [60] + nlen pre + nlen (utf8s (q_local name)))
      by (rewrite Eq; unfold nlen; rewrite app_length; cbn [length]; lia).
    replace (p + 1 + fq_off name) with (p + nlen [60] + nlen pre) by (rewrite Lp; unfold nlen; cbn [length]; lia).
    apply CstRangeMain.occ_sub. exact Ho'. }
  assert (Hq : r_qname name = (match q_prefix name with [] => [] | p0 => utf8s p0 ++ [58] end) ++ utf8s (q_local name)).
  { unfold r_qname, CstNs.r_qname. cbn [x_qname CstNs.q_prefix CstNs.q_local]. destruct (q_prefix name) as [|c0 cs] eqn:E; [reflexivity|].
    destruct (utf8s (c0 :: cs)) as [|y yr] eqn:Eu; [apply (proj1 (utf8s_nil_iff _)) in Eu; discriminate Eu|].
    rewrite <- app_assoc. reflexivity. }
  destruct body as [[cs ws2]|].
  - exists (flat_map r_entry es ++ ws ++ [62] ++ r_items cs ++ [60; 47] ++ r_qname name ++ ws2).
    split; [rewrite <- !app_assoc; reflexivity|]. split; [exact Hq|exact Hloc].
  - exists (flat_map r_entry es ++ ws ++ [47]).
    split; [rewrite <- !app_assoc; reflexivity|]. split; [exact Hq|exact Hloc].
Qed.

(* the slice of a comment is exactly "<!--" text "-->" *)
Corollary comment_slice_shape_f2 : forall id nd s,
  nth_N (d_nodes d) id = Some nd -> nd_kind nd = KComment s ->
  slice_of_range (nd_range nd) = [60; 33; 45; 45] ++ slice_bytes text s ++ [45; 45; 62].
Proof.
  intros id nd s Hn Hk.
  destruct (node_item_f2 c opt d id nd Hwf Hlim Hsz Hdd Hcost Hparse Hn ltac:(congruence)) as ([p i] & _ & Hr & Hs & Ho).
  rewrite Hk in Hs. rewrite Hr.
  destruct i as [name es ws body|r|cs|t s0 v]; cbn [fnode1 fnode_of snd fst stored_as_f map run_nodes2] in Hs; try contradiction.
  cbn [fnode1 fnode_of fst snd] in *. rewrite (CstRangeMain.occ_sub _ _ _ Ho).
  destruct s as [ls le]. cbn [sl_start sl_end] in Hs. injection Hs as -> ->.
  cbn [r_item Cst.r_item] in Ho |- *. change (p + 4) with (p + nlen [60; 33; 45; 45]).
  rewrite (CstRangeMain.occ_slice _ _ _ _ _ Ho). reflexivity.
Qed.

(* the slice of a processing instruction is "<?" target ... "?>" *)
Corollary pi_slice_shape_f2 : forall id nd target value,
  nth_N (d_nodes d) id = Some nd -> nd_kind nd = KPI target value ->
  exists mid, slice_of_range (nd_range nd) = [60; 63] ++ slice_bytes text target ++ mid ++ [63; 62].
Proof.
  intros id nd target value Hn Hk.
  destruct (node_item_f2 c opt d id nd Hwf Hlim Hsz Hdd Hcost Hparse Hn ltac:(congruence)) as ([p i] & _ & Hr & Hs & Ho).
  rewrite Hk in Hs. rewrite Hr.
  destruct i as [name es ws body|r|cs|t sp v]; cbn [fnode1 fnode_of snd fst stored_as_f map run_nodes2] in Hs; try contradiction.
  cbn [fnode1 fnode_of fst snd] in *. rewrite (CstRangeMain.occ_sub _ _ _ Ho).
  destruct Hs as [Hs _]. destruct target as [ls le]. cbn [sl_start sl_end] in Hs. injection Hs as -> ->.
  cbn [r_item Cst.r_item] in Ho |- *. change (p + 2) with (p + nlen [60; 63]).
  rewrite (CstRangeMain.occ_slice _ _ _ _ _ Ho). exists (sp ++ utf8s v). rewrite <- !app_assoc. reflexivity.
Qed.

End ShapesF2.

Print Assumptions element_slice_shape_f2.

(* ------------------------------------------------------------------------------------------ *)
(* examples (vm_compute): the model against the definitions                                   *)
(* ------------------------------------------------------------------------------------------ *)
Module ExamplesF2.
Import Example2.

Definition obs (c : S2.doc) :=
  match parse (S2.render c) default_options with
  | Ok d => Some (map nd_range (tl (d_nodes d)),
                  map (fun a => (ad_range a, attr_range_qname a, attr_range_value a, (sl_start (ad_local a), sl_end (ad_local a)))) (d_attrs d),
                  tl (d_ns_values d))
  | _ => None
  end.
Definition expd (c : S2.doc) :=
  Some (fspans2 c,
        map (fun s => (fa_range s, fa_qname s, Ok (fa_value s), fa_local s)) (fattr_spans2 c),
        map ns_entry_of (fns_table2 c)).

(* <P:e xmlns:P ='urn:x' P:P="...">...<c /></P:e> with P = U+540D (3 bytes): the element local name
   is 5..7, the attribute P:P has qname 27..34 and local name 31..34, the namespace entry has the
   prefix 14..17 and the Borrowed URI 20..25; the Text node keeps the range of its first segment *)
Example ex_lit_obs : S2.wf_doc ex_lit = true /\ obs ex_lit = expd ex_lit /\
  fspans2 ex_lit = [(0, 97); (53, 62); (83, 88)] /\
  fns_table2 ex_lit = [{| fn_prefix := Some (14, 17); fn_uri := TBorrowed (20, 25) |}].
Proof. vm_compute. repeat split; reflexivity. Qed.

(* the URI written with a character reference: Owned "urn:x" *)
Example ex_ref_obs : obs ex_ref = expd ex_ref /\
  fns_table2 ex_ref = [{| fn_prefix := Some (14, 17); fn_uri := TOwned (b "urn:x") |}].
Proof. vm_compute. repeat split; reflexivity. Qed.

(* one entry per DISTINCT (prefix, URI) pair, the first declaration; xmlns:xml is not stored; the
   second xmlns='&#117;' (= "u", written with a reference) finds the entry of xmlns='u' *)
Definition dups : S2.doc :=
  mk (el [] (b "r") [dc (b "p") [T.PLit (b "u")]; dc [] [T.PLit (b "u")]; dc (b "xml") [T.PLit Scope.xml_uri]]
        [ el (b "p") (b "a") [dc (b "p") [T.PLit (b "u")]; dc (b "q") [T.PLit (b "u")]; dc [] [T.PCharRef false (b "117")]] [] ]).
Example dups_obs : S2.wf_doc dups = true /\ obs dups = expd dups /\
  fns_table2 dups = [{| fn_prefix := Some (9, 10); fn_uri := TBorrowed (13, 14) |};
                     {| fn_prefix := None; fn_uri := TBorrowed (24, 25) |};
                     {| fn_prefix := Some (101, 102); fn_uri := TBorrowed (105, 106) |}].
Proof. vm_compute. repeat split; reflexivity. Qed.
End ExamplesF2.
