(* Proofs/CstFullS9Doc.v -- the capstone fragment, stage S9 (Spec/CstFullS9.v): parse_document on the rendering of a
   well-formed document, with the DOCTYPE of Proofs/CstFullS9Dtd.v and the items of Proofs/CstFullS9Items.v.
   An adapted copy of Proofs/CstFullS7Doc.v (with the DOCTYPE conditions of Proofs/CstFullS8Doc.v). *)
From Coq Require Import Ascii String.
From Coq Require Import List NArith PeanoNat Bool Lia ZifyBool ZifyN ZifyNat.
Import ListNotations.
From RX Require Import Generated.
From RX.Model Require Import Base CharClass Stream Tokenizer Doc Builder Parse.
From RX.Spec Require Cst CstText CstEnt Detector Scope CstU CstNs Chars.
From RX.Spec Require Tree.
From RX.Spec Require Import CstFullS5.
From RX.Spec Require Import Text CstFull CstFullS4.
From RX.Spec Require Import CstFullS6 CstFullS7 CstFullS8 CstFullS9.
From RX.Proofs Require Import Tactics CstLex CstBuild CstNsLex CstNsView CstNsBuild CstULex.
From RX.Proofs Require Import CstTextSem CstEntSem CstEntMeaning CstEntRun CstEntInline DetectorProofs.
From RX.Proofs Require Import CstFullLex CstFullBuild CstFullTree CstFullDoc.
From RX.Proofs Require Import CstFullS2Sem CstFullS9aSem CstFullS9aText CstFullS9aRun CstFullS9aPlug.
From RX.Proofs Require Import CstEntCBuild CstEntCSem.
From RX.Proofs Require Import CstFullS4Sem CstFullS9bSem CstFullS9bText CstFullS4Build CstFullS9bAttr.
From RX.Proofs Require Import CstFullS5Ws CstFullS5Lex CstFullS5Doc CstFullS5Dtd CstFullS5Decl.
From RX.Proofs Require Import CstFullS9Text CstFullS9Items CstFullS7Misc CstFullS7Dtd CstFullS9Ent CstFullS9Dtd.
From RX.Proofs Require CstItems CstNsItems CstNsDoc CstNsMain CstUItems CstUDoc CstDoc CstEntDtd CstEntText CstEntCLex CstFullS7Lex CstEntRejSem CstEntBuild.
From RX.Proofs Require CstFullS3 CstFullS5Items CstFullS5.
Open Scope N_scope.

Ltac clia := repeat match goal with H : @eq bool _ true |- _ => clear H end; lia.

(* ------------------------------------------------------------------------------------------ *)
(* the root element (Proofs/CstFullS4Doc.v)                                                   *)
(* ------------------------------------------------------------------------------------------ *)

Section Root.
Variable text : bytes.
Variable D : list Scope.binding.
Hypothesis HD : forall l, NoDup l -> incl l D -> N.of_nat (length l) <= 65535.
Variable decls : list xdecl.
Variable es : list entity.
Hypothesis Henv : Forall2 (uent_ok text) (map pd decls) es.
Hypothesis Hdecls : Forall udecl_okc (map pd decls).
Hypothesis Hcont : Forall decl_cont decls.

Notation WV := (CstULex.WV text).
Notation CIn := (CstNsBuild.CIn text D).
Notation OR := (CstFullS9Text.OR text D es).
Notation Res := (CstFullS9Text.Res text D es).
Notation tbm := (level decls E.max_level).

(* the root element: parse_element, then parse_content at depth 0 *)
Lemma root_ok_9 name ens ws body p post c its tr ld' :
  wf_uitem9 false (IElem name ens ws body) = true ->
  WV p (r_item (@IElem epieces name ens ws body) ++ post) ->
  CIn [] c -> c_after_text c = [] -> c_ld c = ld_init -> c_entities c = es ->
  inline_item tbm false (IElem name ens ws body) = Some (its, tr) ->
  ld_run ld_init tr = Some ld' ->
  Pok [] its -> Rooms [] c [] its -> NsOk D [] [] its ->
  exists c0' c' frs' K ext,
    (let! (open, s, c) := parse_element text context (CstBuild.tok_ev text)
                            (CstLex.st text p (r_item (@IElem epieces name ens ws body) ++ post)) c in
     if open then parse_content text context (CstBuild.tok_ev text) s c else Ok (s, c)) =
    Ok (CstLex.st text (p + blen (r_item (@IElem epieces name ens ws body))) post, c') /\
    Res [] c c [] its ld' c0' c' frs' K ext.
Proof.
  intros Hwf HW I Hat Hld0 Hes Hin Hld HP HR HN.
  pose proof (cn_floor _ _ _ _ I) as Hfl.
  assert (HO : OR [] c c []) by (constructor; try assumption; apply CstEntText.same_frame_refl).
  pose proof (WV_top _ _ _ HW) as HW'.
  assert (HL : forall cs, ItemsOK text D es tbm cs) by (intros cs; apply (ItemsOK_all text D HD decls es Henv Hdecls Hcont)).
  assert (IHk : forall k', E.max_level = S k' -> forall cs, ItemsOK text D es (level decls k') cs).
  { intros k' _ cs. apply (ItemsOK_all text D HD decls es Henv Hdecls Hcont). }
  rewrite <- !st_top. rewrite evl_top. destruct body as [[cs ws2]|].
  - destruct (wf_elem_parts4 _ _ _ _ _ Hwf) as (_ & _ & _ & _ & _ & Hcs).
    pose proof (usteps_list_le D HD false cs Hcs) as Hst.
    set (post2 := [60; 47] ++ r_qname name ++ ws2 ++ [62] ++ post).
    destruct (elem_open_c text D HD decls es Henv Hdecls E.max_level IHk name ens ws cs ws2 (HL cs)
                [] false (tlen text) [] p post c c [] [] entity_levels 0
                (length (r_uitems cs ++ post2) - usteps_list cs)%nat its tr ld' Hwf HW' HO (SemI_nil text))
      as (c1 & c0' & c' & frs' & K & ext & E1 & E2 & HRes); try assumption.
    { rewrite Hld0. reflexivity. }
    { rewrite Hld0. reflexivity. }
    { rewrite Hld0. apply ld_ok_init. }
    { rewrite Hfl. lia. }
    { rewrite Hld0. exact Hld. }
    rewrite E1. cbn [bind]. unfold parse_content. cbn [CstEntCLex.st s_rest]. rewrite app_nil_r.
    fold post2.
    replace (S (length (r_uitems cs ++ post2)))
      with (usteps_list cs + S (length (r_uitems cs ++ post2) - usteps_list cs))%nat
      by (rewrite app_length in *; clia).
    fold post2 in E2.
    match goal with |- context [parse_content_loop _ _ _ _ 0 ?s c1] =>
      replace s with (CstEntCLex.st (tlen text) [] (p + 1 + blen (r_qname name) + blen (flat_map r_entry ens) + blen ws + 1) (r_uitems cs ++ post2))
        by (unfold CstEntCLex.st; rewrite app_nil_r; reflexivity) end.
    rewrite E2. change (0 =? 0) with true. cbv iota.
    exists c0', c', frs', K, ext. split; [reflexivity|exact HRes].
  - destruct (elem_empty_c text D HD decls es Henv Hdecls E.max_level IHk [] name ens ws
                false (tlen text) [] p post c c [] [] entity_levels its tr ld' Hwf HW' HO (SemI_nil text))
      as (c0' & c' & frs' & K & ext & E1 & HRes); try assumption.
    { rewrite Hld0. reflexivity. }
    { rewrite Hld0. apply ld_ok_init. }
    { rewrite Hld0. exact Hld. }
    rewrite E1. cbn [bind]. exists c0', c', frs', K, ext. split; [reflexivity|exact HRes].
Qed.

End Root.

Print Assumptions root_ok_9.


(* ------------------------------------------------------------------------------------------ *)
(* comments and PIs                                                                           *)
(* ------------------------------------------------------------------------------------------ *)
Notation bden := (den bmeaning).
Notation bdens := (CstFullTree.dens bpieces bmeaning).
Notation doc_tail := CstFullS5.doc_tail.

Lemma misc_den0 (i : uitem) : is_misc epieces i = true -> den M0 i = bden (S4.misc_item i).
Proof. destruct i; try discriminate; reflexivity. Qed.

Lemma dens_misc (l : list uitem) : forallb (is_misc epieces) l = true -> dens0 l = bdens (map S4.misc_item l).
Proof.
  induction l as [|i r IH]; intros H; [reflexivity|]. cbn [forallb] in H. apply andb_true_iff in H. destruct H as [H1 H2].
  cbn [map CstFullTree.dens]. rewrite (misc_den0 i H1), (IH H2). reflexivity.
Qed.

Lemma pairs_misc (l : pairs epieces) : wf_pairs7 l = true -> forallb (is_misc epieces) (map snd l) = true.
Proof.
  induction l as [|[w i] r IH]; intros H; [reflexivity|]. cbn [wf_pairs7 forallb fst snd] in H. rewrite !andb_true_iff in H.
  destruct H as [[[_ Hi] _] Hr]. cbn [map snd forallb]. rewrite Hi, (IH Hr). reflexivity.
Qed.

Notation misc_is := misc7_is.

(* ------------------------------------------------------------------------------------------ *)
(* the subset of a well-formed DOCTYPE                                                        *)
(* ------------------------------------------------------------------------------------------ *)
Lemma ge_decls9_ok t : wf_doctype9 t = true ->
  Forall udecl_okc (map pd (ge_decls6 t)) /\ Forall decl_cont (ge_decls6 t).
Proof.
  unfold wf_doctype9, ge_decls6, subset_decls6. rewrite !andb_true_iff. intros [_ Hsub].
  destruct (z_subset t) as [u|]; cbn [wf_opt] in Hsub; [|split; constructor].
  unfold wf_subset9 in Hsub. rewrite !andb_true_iff in Hsub. destruct Hsub as [[Hds _] _].
  induction (zu_decls u) as [|s ds IH]; [split; constructor|]. cbn [forallb] in Hds. apply andb_true_iff in Hds. destruct Hds as [H1 H2].
  destruct (IH H2) as [I1 I2]. cbn [flat_map]. rewrite map_app. split; apply Forall_app; (split; [|assumption]).
  - destruct s as [e|s]; cbn [map]; [|constructor]. constructor; [apply (xdecl_of9 e H1)|constructor].
  - destruct s as [e|s]; [|constructor]. constructor; [apply (xdecl_of9 e H1)|constructor].
Qed.

Lemma subset_misc9_misc t : wf_doctype9 t = true -> forallb (is_misc epieces) (subset_misc6 t) = true.
Proof.
  unfold wf_doctype9, subset_misc6, subset_decls6. rewrite !andb_true_iff. intros [_ Hsub].
  destruct (z_subset t) as [u|]; cbn [wf_opt] in Hsub; [|reflexivity].
  unfold wf_subset9 in Hsub. rewrite !andb_true_iff in Hsub. destruct Hsub as [[Hds _] _].
  induction (zu_decls u) as [|s ds IH]; [reflexivity|]. cbn [forallb] in Hds. apply andb_true_iff in Hds. destruct Hds as [H1 H2].
  cbn [flat_map]. rewrite forallb_app, (IH H2), andb_true_r.
  destruct s as [e|s]; [reflexivity|]. destruct (wf_other9 s H1) as [_ Hs]. destruct s; try reflexivity.
  cbn [wf_other7] in Hs. apply andb_true_iff in Hs. destruct Hs as [_ Hs]. cbn [forallb]. rewrite andb_true_r. apply misc_is. exact Hs.
Qed.

(* ------------------------------------------------------------------------------------------ *)
(* from the root element to the end of the document                                           *)
(* ------------------------------------------------------------------------------------------ *)
Section Tail9.
Variable text : bytes.
Variable D : list Scope.binding.
Hypothesis HD : forall l, NoDup l -> incl l D -> N.of_nat (length l) <= 65535.
Variable decls : list xdecl.
Variable es : list entity.
Hypothesis Henv : Forall2 (uent_ok text) (map pd decls) es.
Hypothesis Hdecls : Forall udecl_okc (map pd decls).
Hypothesis Hcont : Forall decl_cont decls.

Notation CIn := (CstNsBuild.CIn text D).
Notation WV := (CstULex.WV text).
Notation node_room := CstNsItems.node_room.
Notation attr_room := CstNsItems.attr_room.
Notation ns_room := CstNsItems.ns_room.
Notation tbm := (level decls E.max_level).

Lemma tail_ok9 name ens ws body (A : pairs epieces) wE p3 c3 root' tr :
  let root := IElem name ens ws body in
  wf_uitem9 false root = true -> wf_pairs7 A = true -> wf_s wE = true ->
  inline_item tbm false root = Some ([root'], tr) -> limits_ok tr = true -> provisos_item root' = true ->
  CstFullTree.ns_oks [] (bden root') = true -> incl (NT.items_decls (bden root')) D ->
  WV p3 (r_item root ++ r_pairs A ++ wE ++ []) ->
  CIn [] c3 -> c_after_text c3 = [] -> c_ld c3 = ld_init -> c_entities c3 = es ->
  node_room c3 (NT.nsizes (bden root') + NT.nsizes (dens0 (map snd A))) ->
  attr_room c3 (NT.nattrs_items (bden root')) -> ns_room c3 (NT.ns_costs [] (bden root')) ->
  exists c5 K ext,
    doc_tail text (CstLex.st text p3 (r_item root ++ r_pairs A ++ wE ++ [])) c3 = Ok c5 /\
    Stepn c3 c5 K ext /\
    Forall2 (kmn text (c_doc c5)) K
      (NT.tag_list [] (c_parent_id c3) (len_N (d_nodes (c_doc c3))) (bden root' ++ dens0 (map snd A))).
Proof.
  intros root H5 H6' H2 Hinl Hlim Hprov Hnsr HinD HWg I3 A3 Hld3 Kes3 NR AR SR.
  destruct (wf_elem_parts4 _ _ _ _ _ H5) as (Hn & _).
  destruct (root_starts epieces name ens ws body Hn) as (n & l & El & Hnsp & H33 & H63). fold root in El.
  pose proof (WV_W _ _ _ HWg) as HWg'.
  unfold CstFullS5.doc_tail. cbv zeta.
  assert (Hsp : stops byte_is_space (r_item root ++ r_pairs A ++ wE ++ [])) by (rewrite El; reflexivity).
  rewrite (CstDoc.skip_spaces_none text) by (try exact HWg'; exact Hsp).
  assert (Ecb : match curr_byte_opt (CstLex.st text p3 (r_item root ++ r_pairs A ++ wE ++ [])) with Some x => x =? 60 | None => false end = true).
  { revert HWg'. rewrite El. cbn [app]. intros HWg'. rewrite curr_byte_opt_st by exact HWg'. reflexivity. }
  rewrite Ecb.
  destruct (detector_complete_gen tr 0 0 Hlim) as [ld' Hrun]. change (DetectorProofs.mk 0 0) with ld_init in Hrun.
  assert (Ew : walk [] [root'] = ([root'], [])).
  { assert (Hnt : is_btext root' = false).
    { unfold root in Hinl. rewrite inline_item_elem in Hinl. destruct (inline_entries tbm false ens) as [[a' ta]|]; [|discriminate].
      cbn [E.obind] in Hinl. destruct body as [[cs w2]|].
      - destruct (inline_items tbm false cs) as [[b0 tb0]|]; [|discriminate]. cbn [E.obind] in Hinl. injection Hinl as <- _. reflexivity.
      - injection Hinl as <- _. reflexivity. }
    rewrite walk_single by exact Hnt. reflexivity. }
  destruct (root_ok_9 text D HD decls es Henv Hdecls Hcont name ens ws body p3 (r_pairs A ++ wE ++ []) c3 [root'] tr ld' H5 HWg I3 A3 Hld3 Kes3 Hinl Hrun)
    as (c0r & c4 & frs4 & K2 & e2 & E4 & HRes4).
  { split; rewrite Ew; cbn [fst snd forallb]; [rewrite Hprov; reflexivity|reflexivity]. }
  { split; [|split]; rewrite Ew; cbn [fst snd app flush all_marks forallb CstFullTree.dens]; rewrite ?app_nil_r.
    - unfold CstNsItems.node_room in *. clia.
    - exact AR.
    - exact SR. }
  { split; rewrite Ew; cbn [fst CstFullTree.dens]; rewrite app_nil_r; assumption. }
  fold root in E4. rewrite E4. cbn [bind]. clear E4.
  destruct HRes4 as (S4r & O4 & M4 & F4 & L4r & N4 & D4 & D4' & Fl4 & _). rewrite Ew in M4, F4, L4r, N4. cbn [fst snd] in M4, F4, L4r, N4.
  cbn [CstFullTree.dens] in F4, L4r, N4. rewrite app_nil_r in F4, L4r, N4.
  assert (Efr : frs4 = []) by (apply (proj2 M4); reflexivity). subst frs4.
  destruct O4 as [Or1 Or2 Or3 Or4 Or5 Or6]. cbn [CstEntText.Run] in Or5.
  assert (Efl4 : c_entity_floor c4 = 0) by (rewrite Fl4; apply (cn_floor _ _ _ _ I3)).
  assert (Eld4 : c_ld c4 = ld_init).
  { rewrite D4. apply (CstEntBuild.ld_run_init tr ld' Hrun). rewrite D4', Hld3. reflexivity. }
  assert (I4 : CIn [] c4) by (apply (CIn_frame text D [] c0r c4 Or5 Efl4 Or1)).
  assert (A4 : c_after_text c4 = []) by (destruct Or5 as (_ & _ & _ & _ & _ & _ & X & _); rewrite <- X; exact Or2).
  assert (S4 : Stepn c3 c4 K2 e2) by (apply (Stepn_frame c3 c0r c4 _ _ Or5); [congruence|congruence|exact S4r]).
  assert (Edoc4 : c_doc c4 = c_doc c0r) by (destruct Or5 as (_ & _ & _ & _ & _ & _ & _ & _ & X); symmetry; exact X).
  rewrite <- Edoc4 in F4.
  pose proof (WV_app _ _ _ _ HWg (uitem_valid false _ H5)) as HWh. fold root in HWh.
  set (p4 := p3 + blen (r_item root)) in *.
  pose proof (CstFullS5Items.Stepn_nodes_len _ _ _ _ S4) as Ln4.
  rewrite (CstFullS5Items.Forall2_len_N _ _ _ F4) in Ln4. unfold len_N at 3 in Ln4. rewrite NT.tag_list_len in Ln4.
  pose proof (CstFullS5Items.Stepn_opt _ _ _ _ (proj1 S4)) as Lo4.
  unfold parse_misc. cbn [CstLex.st s_rest]. fold (CstLex.st text p4 (r_pairs A ++ wE ++ [])).
  destruct (misc_loop_ok7 text D HD A p4 wE [] c4 (S (length (r_pairs A ++ wE ++ []))) HWh H6' H2)
    as (c5 & K3 & E5 & S5 & I5 & A5 & Tr5 & F5).
  { split; [exact Logic.I|split; reflexivity]. }
  { pose proof (pairs_len7 A H6'). rewrite app_length. clia. }
  { exact I4. } { exact A4. }
  { unfold CstNsItems.node_room in *. rewrite Ln4, Lo4, <- !N.add_assoc. exact NR. }
  rewrite E5. cbn [bind]. clear E5.
  pose proof (WV_W _ _ _ HWh) as HWh'.
  pose proof (W_app _ _ _ _ HWh') as HWi. pose proof (W_app _ _ _ _ HWi) as HWj.
  rewrite at_end_st by exact HWj. cbn [negb].
  exists c5, (K2 ++ K3), (e2 ++ []). split; [reflexivity|]. split; [apply (Stepn_trans _ _ _ _ _ _ _ S4 S5)|].
  rewrite CstNsDoc.tag_list_app. apply Forall2_app.
  - apply (CstFullS5Items.kmn_Forall2_ext text D HD (c_doc c4)); [apply (Step0n_DocExt _ _ _ _ (proj1 S5))|exact F4].
  - destruct S4 as (_ & P4 & _). rewrite P4, Ln4 in F5. exact F5.
Qed.

End Tail9.

(* ------------------------------------------------------------------------------------------ *)
(* parse_document                                                                             *)
(* ------------------------------------------------------------------------------------------ *)
Section Doc9.
Variable d : S6.doc.
Hypothesis Hwf : S9.wf_doc d = true.

Notation decls := (S6.decls d).
Notation main := (S6.x_main d).
Notation text := (S6.render d).
Notation tbm := (level decls E.max_level).

Definition cI (root' : bitem) : CstFull.doc bpieces :=
  {| d_before := map (fun p => (S4.misc_item (fst p), snd p)) (d_before main);
     d_ws0 := d_ws0 main; d_root := root';
     d_after := map (fun p => (fst p, S4.misc_item (snd p))) (d_after main);
     d_ws_end := d_ws_end main |}.

Record s9_parts_t : Prop := {
  sp_x : wf_opt wf_xmldecl (S6.x_decl d) = true;
  sp_g : wf_opt S9.wf_dtd_part (S6.x_dtd d) = true;
  sp_mws0 : wf_s (d_ws0 main) = true;
  sp_mwsend : wf_s (d_ws_end main) = true;
  sp_mbefore : forallb (fun p => wf_misc7 (fst p) && wf_s (snd p)) (d_before main) = true;
  sp_root : exists name ens ws body, d_root main = IElem name ens ws body;
  sp_rootwf : wf_uitem9 false (d_root main) = true;
  sp_after : wf_pairs7 (d_after main) = true;
  sp_inline : exists root' tr,
      inline_item tbm false (d_root main) = Some ([root'], tr) /\ S4.inline (S6.core d) = Some (cI root', tr) /\
      limits_ok tr = true /\ provisos_item root' = true /\ forallb (ns_ok []) (bden root') = true
}.

Lemma s9_parts : s9_parts_t.
Proof.
  unfold S9.wf_doc in Hwf. rewrite !andb_true_iff in Hwf. destruct Hwf as [[[[[[[H1 H2] H3] H4] H5] H6] H7] H8].
  constructor; try assumption.
  - destruct (d_root main); try discriminate. eauto.
  - destruct (d_root main); try discriminate. exact H6.
  - apply after_wf7. exact H7.
  - unfold S4.inline in *. change (S4.table (S6.core d)) with tbm in *. change (S4.x_main (S6.core d)) with main in *.
    destruct (inline_item tbm false (d_root main)) as [[its tr]|]; [|discriminate].
    cbn [E.obind fst snd] in *. destruct its as [|root' [|x its]]; try discriminate.
    rewrite !andb_true_iff in H8. destruct H8 as [[L P] Nn]. exists root', tr. cbn [d_root] in P, Nn. auto.
Qed.

Lemma dtd_part_parts9 g : S9.wf_dtd_part g = true ->
  wf_s (S6.g_ws0 g) = true /\
  forallb (fun p => wf_misc7 (fst p) && wf_s (snd p)) (S6.g_before g) = true /\
  wf_doctype9 (S6.g_dtd g) = true.
Proof. unfold S9.wf_dtd_part. rewrite !andb_true_iff. tauto. Qed.

Lemma decls_ok9 : Forall udecl_okc (map pd decls) /\ Forall decl_cont decls.
Proof.
  destruct s9_parts as [_ Hg _ _ _ _ _ _ _]. unfold S6.decls. destruct (S6.x_dtd d) as [g|]; [|split; constructor].
  cbn [wf_opt] in Hg. apply ge_decls9_ok. apply (dtd_part_parts9 g Hg).
Qed.

Definition B1 : pairs epieces := regroup (d_ws0 main) (d_before main).
Definition wB1 : bytes := last_ws (d_ws0 main) (d_before main).

(* what the whole document denotes, in document order *)
Definition L9 (root' : bitem) : list CstNs.item :=
  dens0 (S6.prolog_items d) ++ dens0 (map snd B1) ++ bden root' ++ dens0 (map snd (d_after main)).

Definition dtd_bytes9 : bytes := r_opt S6.r_dtd_part (S6.x_dtd d).

Lemma text_eq9 : text = (if S6.x_bom d then S5.bom else []) ++ r_opt r_xmldecl (S6.x_decl d) ++ dtd_bytes9 ++ render main.
Proof. reflexivity. Qed.

Lemma dtd_bytes6_shape g : S6.x_dtd d = Some g ->
  dtd_bytes9 = r_pairs (regroup (S6.g_ws0 g) (S6.g_before g)) ++ last_ws (S6.g_ws0 g) (S6.g_before g) ++ r_doctype6 (S6.g_dtd g).
Proof.
  intros E. unfold dtd_bytes9. rewrite E. cbn [r_opt]. unfold S6.r_dtd_part.
  rewrite app_assoc, (regroup_render epieces), <- app_assoc. reflexivity.
Qed.

Notation pairs_valid0 := pairs_valid7.

Lemma main_valid9 : U8.Valid (render main).
Proof.
  destruct s9_parts as [_ _ H1 H2 H3 _ H5 H6 _].
  destruct (regroup_wf7 _ _ H1 H3) as [R1 R2].
  rewrite (render_shape epieces). repeat apply U8.Valid_app.
  - apply pairs_valid0; exact R1.
  - apply s_valid; exact R2.
  - apply (uitem_valid false); exact H5.
  - apply pairs_valid0. exact H6.
  - apply s_valid; exact H2.
  - constructor.
Qed.

Lemma text_valid9 : U8.Valid text.
Proof.
  destruct s9_parts as [Hx Hg _ _ _ _ _ _ _]. rewrite text_eq9.
  apply U8.Valid_app; [destruct (S6.x_bom d); [apply CstFullS5.bom_valid|constructor]|].
  apply U8.Valid_app; [apply (CstFullS5.xd_valid _ Hx)|]. apply U8.Valid_app; [|apply main_valid9].
  destruct (S6.x_dtd d) as [g|] eqn:Ex; [|unfold dtd_bytes9; rewrite Ex; constructor].
  cbn [wf_opt] in Hg. destruct (dtd_part_parts9 g Hg) as (H0 & Hb & Ht).
  destruct (regroup_wf7 _ _ H0 Hb) as [R1 R2]. rewrite (dtd_bytes6_shape g Ex).
  apply U8.Valid_app; [apply pairs_valid0; exact R1|]. apply U8.Valid_app; [apply s_valid; exact R2|apply doctype_valid9; exact Ht].
Qed.

Variable D : list Scope.binding.
Hypothesis HD : forall l, NoDup l -> incl l D -> N.of_nat (length l) <= 65535.

Notation CIn := (CstNsBuild.CIn text D).
Notation node_room := CstNsItems.node_room.
Notation attr_room := CstNsItems.attr_room.
Notation ns_room := CstNsItems.ns_room.
Notation WV := (CstULex.WV text).

Lemma doctype9_head t rest : exists l, r_doctype6 t ++ rest = 60 :: 33 :: 68 :: l.
Proof. unfold r_doctype6, E.kw_doctype. cbn [app]. eexists. reflexivity. Qed.

Lemma parse_document_ok_9 (dtd : bool) root' tr (c0 : context) :
  (S6.has_dtd d = true -> dtd = true) ->
  inline_item tbm false (d_root main) = Some ([root'], tr) -> limits_ok tr = true -> provisos_item root' = true ->
  CstFullTree.ns_oks [] (bden root') = true -> incl (NT.items_decls (bden root')) D ->
  CIn [] c0 -> c_entities c0 = [] -> c_ld c0 = ld_init -> c_after_text c0 = [] ->
  node_room c0 (NT.nsizes (L9 root')) -> attr_room c0 (NT.nattrs_items (bden root')) ->
  ns_room c0 (NT.ns_costs [] (bden root')) ->
  exists cf K,
    parse_document text context (tok_ev text) dtd c0 = Ok cf /\
    absn (c_doc cf) = absn (c_doc c0) ++ K /\ c_parent_prefixes cf = c_parent_prefixes c0 /\
    Forall2 (kmn text (c_doc cf)) K (NT.tag_list [] (c_parent_id c0) (len_N (d_nodes (c_doc c0))) (L9 root')).
Proof.
  intros Hdtd Hinl Hlim Hprov Hnsr HinD I0 Hes0 Hld0 A0 NR AR SR.
  destruct s9_parts as [Hx Hg H1 H2 H3 (name & ens & ws & body & Er) H5 H6 _].
  destruct decls_ok9 as [Hdk Hcont]. pose proof text_valid9 as Hvalid.
  destruct (regroup_wf7 _ _ H1 H3) as [Q1 Q2]. fold B1 in Q1. fold wB1 in Q2.
  set (A := d_after main) in *. set (wE := d_ws_end main) in *.
  rewrite Er in *. set (root := IElem name ens ws body) in *.
  set (rest1 := r_item root ++ r_pairs A ++ wE ++ []).
  assert (Emain : render main = r_pairs B1 ++ wB1 ++ rest1).
  { rewrite (render_shape epieces main). fold B1 wB1 A wE. rewrite Er. reflexivity. }
  destruct (wf_elem_parts4 _ _ _ _ _ H5) as (Hn & _).
  destruct (root_starts epieces name ens ws body Hn) as (n & l & El & Hnsp & H33 & H63). fold root in El.
  assert (Hstop1 : CstDoc.misc_stop rest1).
  { unfold rest1. rewrite El. cbn [app]. split; [reflexivity|]. cbn [prefix_b].
    replace (33 =? n) with false by clia. replace (63 =? n) with false by clia. split; reflexivity. }
  assert (Hdt1 : prefix_b [60; 33; 68; 79; 67; 84; 89; 80; 69] rest1 = false).
  { unfold rest1. rewrite El. cbn [app prefix_b]. replace (33 =? n) with false by clia. rewrite andb_false_r. reflexivity. }
  destruct (pairs_dens7 B1 Q1) as (_ & Hn1 & _).
  unfold L9 in NR |- *. unfold parse_document.
  destruct (S6.x_dtd d) as [g|] eqn:Ex.
  - (* with a DOCTYPE *)
    cbn [wf_opt] in Hg. destruct (dtd_part_parts9 g Hg) as (H0 & Hb & Ht).
    destruct (regroup_wf7 _ _ H0 Hb) as [R1 R2].
    set (B0 := regroup (S6.g_ws0 g) (S6.g_before g)) in *. set (wB0 := last_ws (S6.g_ws0 g) (S6.g_before g)) in *.
    set (t := S6.g_dtd g) in *.
    assert (Hd : dtd = true) by (apply Hdtd; unfold S6.has_dtd; rewrite Ex; reflexivity). subst dtd.
    assert (Epro : S6.prolog_items d = map snd B0 ++ subset_misc6 t).
    { unfold S6.prolog_items. rewrite Ex. unfold B0. rewrite (regroup_items epieces). reflexivity. }
    assert (Edec : decls = ge_decls6 t) by (unfold S6.decls; rewrite Ex; reflexivity).
    set (rest0 := r_doctype6 t ++ r_pairs B1 ++ wB1 ++ rest1).
    assert (Ebody : dtd_bytes9 ++ render main = r_pairs B0 ++ wB0 ++ rest0).
    { rewrite (dtd_bytes6_shape g Ex), Emain. unfold rest0. rewrite <- !app_assoc. reflexivity. }
    destruct (doctype9_head t (r_pairs B1 ++ wB1 ++ rest1)) as [ld Eld]. fold rest0 in Eld.
    assert (Hstop0 : CstDoc.misc_stop rest0) by (rewrite Eld; split; [reflexivity|split; reflexivity]).
    destruct (head_pairs7 B0 wB0 33 (68 :: ld) R1 R2 ltac:(lia)) as [Hdecl Hhead]. rewrite <- Eld, <- Ebody in Hdecl, Hhead.
    destruct (CstFullS5.prefix_ok text (S6.x_bom d) (S6.x_decl d) (dtd_bytes9 ++ render main) text_eq9 Hvalid Hx Hdecl Hhead) as (P1 & P2 & HWp).
    rewrite P1. cbn [bind]. rewrite P2. cbn [bind]. clear P1 P2.
    set (p0 := CstFullS5.pb (S6.x_bom d) + blen (r_opt r_xmldecl (S6.x_decl d))) in *.
    rewrite Ebody in HWp |- *.
    rewrite Epro in NR |- *. rewrite (dens_app epieces M0) in NR |- *. rewrite <- !app_assoc in NR |- *. rewrite !nsizes_app in NR.
    destruct (pairs_dens7 B0 R1) as (_ & Hn0 & _).
    (* before the DOCTYPE *)
    unfold parse_misc. cbn [CstLex.st s_rest]. fold (CstLex.st text p0 (r_pairs B0 ++ wB0 ++ rest0)).
    destruct (misc_loop_ok7 text D HD B0 p0 wB0 rest0 c0 (S (length (r_pairs B0 ++ wB0 ++ rest0))) HWp R1 R2 Hstop0)
      as (c1 & K0 & E1 & S1 & I1 & A1 & Tr1 & F1).
    { pose proof (pairs_len7 B0 R1). rewrite app_length. clia. }
    { exact I0. } { exact A0. } { unfold CstNsItems.node_room in *. clia. }
    rewrite E1. cbn [bind]. clear E1.
    pose proof (WV_app _ _ _ _ HWp (pairs_valid0 B0 R1)) as HWa.
    pose proof (WV_lit _ _ _ _ HWa (s_lit _ R2)) as HWd. pose proof (WV_W _ _ _ HWd) as HWd'.
    set (p1 := p0 + blen (r_pairs B0) + blen wB0) in *.
    rewrite (CstDoc.skip_spaces_none text) by (try exact HWd'; apply Hstop0).
    rewrite starts_with_st by exact HWd'. change (b "<!DOCTYPE") with E.kw_doctype.
    replace (prefix_b E.kw_doctype rest0) with true by (unfold rest0, r_doctype6; rewrite <- !app_assoc; rewrite prefix_b_app_same; reflexivity).
    cbn [negb bind].
    pose proof (CstFullS5Items.Stepn_nodes_len _ _ _ _ S1) as Ln1.
    rewrite (CstFullS5Items.Forall2_len_N _ _ _ F1) in Ln1. unfold len_N at 3 in Ln1. rewrite NT.tag_list_len in Ln1.
    pose proof (CstFullS5Items.Stepn_opt _ _ _ _ (proj1 S1)) as Lo1.
    pose proof (CstFullS5Items.Stepn_attrs_len _ _ _ _ (proj1 S1)) as La1. change (len_N []) with 0 in La1.
    destruct (sn_keep _ _ _ _ (proj1 S1)) as (_ & Ee1 & _ & Eld1).
    (* the DOCTYPE *)
    unfold rest0 in HWd |- *.
    destruct (doctype_ok9 text D HD p1 t (r_pairs B1 ++ wB1 ++ rest1) c1 HWd Ht I1 A1) as (c2 & Kd & es & E2 & S2 & Henv & I2 & A2 & Tr2 & F2).
    { unfold CstNsItems.node_room in *. rewrite Ln1, Lo1. clia. }
    rewrite E2. cbn [bind]. clear E2.
    rewrite Ee1, Hes0 in S2. cbn [app] in S2. set (c1' := set_entities c1 es) in *.
    pose proof (CstFullS5Items.Stepn_nodes_len _ _ _ _ S2) as Ln2. cbn [c1' c_doc set_entities] in Ln2.
    rewrite (CstFullS5Items.Forall2_len_N _ _ _ F2) in Ln2. unfold len_N at 3 in Ln2. rewrite NT.tag_list_len in Ln2.
    pose proof (CstFullS5Items.Stepn_opt _ _ _ _ (proj1 S2)) as Lo2. cbn [c1' c_opt set_entities] in Lo2.
    pose proof (CstFullS5Items.Stepn_attrs_len _ _ _ _ (proj1 S2)) as La2. change (len_N []) with 0 in La2. cbn [c1' c_doc set_entities] in La2.
    destruct (sn_keep _ _ _ _ (proj1 S2)) as (_ & Ee2 & _ & Eld2). cbn [c1' c_entities c_ld set_entities] in Ee2, Eld2.
    rewrite <- Edec in Henv.
    pose proof (WV_app _ _ _ _ HWd (doctype_valid9 t Ht)) as HWe.
    set (p2 := p1 + blen (r_doctype6 t)) in *.
    (* between the DOCTYPE and the root *)
    unfold parse_misc. cbn [CstLex.st s_rest]. fold (CstLex.st text p2 (r_pairs B1 ++ wB1 ++ rest1)).
    destruct (misc_loop_ok7 text D HD B1 p2 wB1 rest1 c2 (S (length (r_pairs B1 ++ wB1 ++ rest1))) HWe Q1 Q2 Hstop1)
      as (c3 & K1 & E3 & S3 & I3 & A3 & Tr3 & F3).
    { pose proof (pairs_len7 B1 Q1). rewrite app_length. clia. }
    { exact I2. } { exact A2. }
    { unfold CstNsItems.node_room in *. rewrite Ln2, Lo2, Ln1, Lo1. clia. }
    rewrite E3. cbn [bind]. clear E3.
    pose proof (WV_app _ _ _ _ HWe (pairs_valid0 B1 Q1)) as HWf.
    pose proof (WV_lit _ _ _ _ HWf (s_lit _ Q2)) as HWg.
    set (p3 := p2 + blen (r_pairs B1) + blen wB1) in *.
    pose proof (CstFullS5Items.Stepn_nodes_len _ _ _ _ S3) as Ln3.
    rewrite (CstFullS5Items.Forall2_len_N _ _ _ F3) in Ln3. unfold len_N at 3 in Ln3. rewrite NT.tag_list_len in Ln3.
    pose proof (CstFullS5Items.Stepn_opt _ _ _ _ (proj1 S3)) as Lo3.
    pose proof (CstFullS5Items.Stepn_attrs_len _ _ _ _ (proj1 S3)) as La3. change (len_N []) with 0 in La3.
    destruct (sn_keep _ _ _ _ (proj1 S3)) as (_ & Ee3 & _ & Eld3).
    (* the root and the epilog *)
    destruct (tail_ok9 text D HD decls es Henv Hdk Hcont name ens ws body A wE p3 c3 root' tr H5 H6 H2 Hinl Hlim Hprov Hnsr HinD HWg I3 A3)
      as (c5 & K23 & e23 & E5 & S5 & F5).
    { rewrite Eld3, Eld2, Eld1. exact Hld0. }
    { rewrite Ee3. exact Ee2. }
    { unfold CstNsItems.node_room in *. rewrite Ln3, Lo3, Ln2, Lo2, Ln1, Lo1. rewrite <- !N.add_assoc. exact NR. }
    { unfold CstNsItems.attr_room in *. rewrite La3, La2, La1. clia. }
    { unfold CstNsItems.ns_room in *. rewrite Tr3, Tr2, Tr1. exact SR. }
    fold root in E5, F5. fold rest1 in E5.
    match goal with |- exists cf K, ?X = Ok cf /\ _ => change X with (doc_tail text (CstLex.st text p3 rest1) c3) end. rewrite E5.
    exists c5, (K0 ++ Kd ++ K1 ++ K23). split; [reflexivity|].
    destruct S1 as (S1 & P1a & P1b). destruct S2 as (S2 & P2a & P2b). destruct S3 as (S3 & P3a & P3b). destruct S5 as (S5 & P5a & P5b).
    cbn [c1' c_parent_id c_parent_prefixes set_entities] in P2a, P2b.
    split; [|split].
    + rewrite (sn_nodes _ _ _ _ S5), (sn_nodes _ _ _ _ S3), (sn_nodes _ _ _ _ S2). cbn [c1' c_doc set_entities].
      rewrite (sn_nodes _ _ _ _ S1), <- !app_assoc. reflexivity.
    + congruence.
    + assert (X35 : DocExt (c_doc c3) (c_doc c5)) by (apply (Step0n_DocExt _ _ _ _ S5)).
      assert (X25 : DocExt (c_doc c2) (c_doc c5)) by (eapply DocExt_trans; [apply (Step0n_DocExt _ _ _ _ S3)|exact X35]).
      assert (X15 : DocExt (c_doc c1) (c_doc c5)).
      { eapply DocExt_trans; [|exact X25]. pose proof (Step0n_DocExt _ _ _ _ S2) as X. exact X. }
      do 3 rewrite CstNsDoc.tag_list_app.
      apply Forall2_app; [|apply Forall2_app; [|apply Forall2_app]].
      * apply (CstFullS5Items.kmn_Forall2_ext text D HD (c_doc c1)); [exact X15|exact F1].
      * apply (CstFullS5Items.kmn_Forall2_ext text D HD (c_doc c2)); [exact X25|]. rewrite P1a, Ln1 in F2. exact F2.
      * apply (CstFullS5Items.kmn_Forall2_ext text D HD (c_doc c3)); [exact X35|]. rewrite P2a, P1a, Ln2, Ln1 in F3. exact F3.
      * rewrite P3a, P2a, P1a, Ln3, Ln2, Ln1 in F5. exact F5.
  - (* without a DOCTYPE *)
    assert (Epro : S6.prolog_items d = []) by (unfold S6.prolog_items; rewrite Ex; reflexivity).
    assert (Edec : decls = []) by (unfold S6.decls; rewrite Ex; reflexivity).
    assert (Ebody : dtd_bytes9 ++ render main = r_pairs B1 ++ wB1 ++ rest1).
    { unfold dtd_bytes9. rewrite Ex, Emain. reflexivity. }
    assert (Erest : exists l', rest1 = 60 :: n :: l') by (unfold rest1; rewrite El; cbn [app]; eexists; reflexivity).
    destruct Erest as [l' Erest].
    destruct (head_pairs7 B1 wB1 n l' Q1 Q2 H63) as [Hdecl Hhead]. rewrite <- Erest, <- Ebody in Hdecl, Hhead.
    destruct (CstFullS5.prefix_ok text (S6.x_bom d) (S6.x_decl d) (dtd_bytes9 ++ render main) text_eq9 Hvalid Hx Hdecl Hhead) as (P1 & P2 & HWp).
    rewrite P1. cbn [bind]. rewrite P2. cbn [bind]. clear P1 P2.
    set (p0 := CstFullS5.pb (S6.x_bom d) + blen (r_opt r_xmldecl (S6.x_decl d))) in *.
    rewrite Ebody in HWp |- *.
    rewrite Epro in NR |- *. cbn [CstFullTree.dens app] in NR |- *. rewrite !nsizes_app in NR.
    unfold parse_misc. cbn [CstLex.st s_rest]. fold (CstLex.st text p0 (r_pairs B1 ++ wB1 ++ rest1)).
    destruct (misc_loop_ok7 text D HD B1 p0 wB1 rest1 c0 (S (length (r_pairs B1 ++ wB1 ++ rest1))) HWp Q1 Q2 Hstop1)
      as (c3 & K1 & E3 & S3 & I3 & A3 & Tr3 & F3).
    { pose proof (pairs_len7 B1 Q1). rewrite app_length. clia. }
    { exact I0. } { exact A0. } { unfold CstNsItems.node_room in *. clia. }
    rewrite E3. cbn [bind]. clear E3.
    pose proof (WV_app _ _ _ _ HWp (pairs_valid0 B1 Q1)) as HWf.
    pose proof (WV_lit _ _ _ _ HWf (s_lit _ Q2)) as HWg. pose proof (WV_W _ _ _ HWg) as HWg'.
    set (p3 := p0 + blen (r_pairs B1) + blen wB1) in *.
    rewrite (CstDoc.skip_spaces_none text) by (try exact HWg'; apply Hstop1).
    rewrite starts_with_st by exact HWg'. change (b "<!DOCTYPE") with [60; 33; 68; 79; 67; 84; 89; 80; 69]. rewrite Hdt1. cbn [bind].
    pose proof (CstFullS5Items.Stepn_nodes_len _ _ _ _ S3) as Ln3.
    rewrite (CstFullS5Items.Forall2_len_N _ _ _ F3) in Ln3. unfold len_N at 3 in Ln3. rewrite NT.tag_list_len in Ln3.
    pose proof (CstFullS5Items.Stepn_opt _ _ _ _ (proj1 S3)) as Lo3.
    pose proof (CstFullS5Items.Stepn_attrs_len _ _ _ _ (proj1 S3)) as La3. change (len_N []) with 0 in La3.
    destruct (sn_keep _ _ _ _ (proj1 S3)) as (_ & Ee3 & _ & Eld3).
    assert (Henv : Forall2 (uent_ok text) (map pd decls) []) by (rewrite Edec; constructor).
    destruct (tail_ok9 text D HD decls [] Henv Hdk Hcont name ens ws body A wE p3 c3 root' tr H5 H6 H2 Hinl Hlim Hprov Hnsr HinD HWg I3 A3)
      as (c5 & K23 & e23 & E5 & S5 & F5).
    { rewrite Eld3. exact Hld0. }
    { rewrite Ee3. exact Hes0. }
    { unfold CstNsItems.node_room in *. rewrite Ln3, Lo3. rewrite <- !N.add_assoc. exact NR. }
    { unfold CstNsItems.attr_room in *. rewrite La3. clia. }
    { unfold CstNsItems.ns_room in *. rewrite Tr3. exact SR. }
    fold root in E5, F5. fold rest1 in E5.
    match goal with |- exists cf K, ?X = Ok cf /\ _ => change X with (doc_tail text (CstLex.st text p3 rest1) c3) end. rewrite E5.
    exists c5, (K1 ++ K23). split; [reflexivity|].
    destruct S3 as (S3 & P3a & P3b). destruct S5 as (S5 & P5a & P5b).
    split; [|split].
    + rewrite (sn_nodes _ _ _ _ S5), (sn_nodes _ _ _ _ S3), <- !app_assoc. reflexivity.
    + congruence.
    + rewrite CstNsDoc.tag_list_app. apply Forall2_app.
      * apply (CstFullS5Items.kmn_Forall2_ext text D HD (c_doc c3)); [apply (Step0n_DocExt _ _ _ _ S5)|exact F3].
      * rewrite P3a, Ln3 in F5. exact F5.
Qed.

End Doc9.

Print Assumptions parse_document_ok_9.
