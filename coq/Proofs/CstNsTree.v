(* Proofs/CstNsTree.v -- C06, the combinatorial part for Spec/CstNs.v: induction on items, the list
   versions of the nested fixpoints, sizes, and the pre-order list of (parent id, vnode) of an
   item with the fact that the number of entries whose parent is the id of an element is the
   number of its children.  (Proofs/CstTree.v with the inherited scope threaded through.) *)
From Coq Require Import List NArith PeanoNat Bool Lia ZifyBool ZifyN ZifyNat.
Import ListNotations.
From RX.Spec Require Cst Scope.
From RX.Spec Require Import CstNs.
Open Scope N_scope.

(* ---- induction on items ---- *)
Section ItemInd.
Variable P : item -> Prop.
Hypothesis Hempty : forall n a w, P (IElem n a w None).
Hypothesis Helem : forall n a w cs w2, Forall P cs -> P (IElem n a w (Some (cs, w2))).
Hypothesis Htext : forall bs, P (IText bs).
Hypothesis Hcomment : forall bs, P (IComment bs).
Hypothesis Hpi : forall t s v, P (IPI t s v).

Fixpoint item_ind' (i : item) : P i :=
  match i with
  | IElem n a w None => Hempty n a w
  | IElem n a w (Some (cs, w2)) =>
    Helem n a w cs w2
      ((fix go (l : list item) : Forall P l :=
          match l with [] => Forall_nil P | c :: r => Forall_cons c (item_ind' c) (go r) end) cs)
  | IText bs => Htext bs
  | IComment bs => Hcomment bs
  | IPI t s v => Hpi t s v
  end.
End ItemInd.

(* ---- the list versions of the nested fixpoints ---- *)
Definition esc (es : list entry) (inh : list Scope.binding) : list Scope.binding :=
  Scope.scope_of (own_bindings es) inh.

Fixpoint r_items (l : list item) : Cst.bytes :=
  match l with [] => [] | c :: r => r_item c ++ r_items r end.
Fixpoint wf_items (inh : list Scope.binding) (l : list item) : bool :=
  match l with [] => true | c :: r => wf_item inh c && wf_items inh r end.
Fixpoint sem_items (inh : list Scope.binding) (l : list item) : list vnode :=
  match l with [] => [] | c :: r => sem_item inh c ++ sem_items inh r end.
Definition is_text (i : item) : bool := match i with IText _ => true | _ => false end.
Fixpoint no_adj (l : list item) : bool :=
  match l with
  | a :: ((c :: _) as r) => negb (is_text a && is_text c) && no_adj r
  | _ => true
  end.

Lemma r_item_elem name es ws body :
  r_item (IElem name es ws body) =
  [60] ++ r_qname name ++ flat_map r_entry es ++ ws ++
  match body with
  | None => [47; 62]
  | Some (cs, ws2) => [62] ++ r_items cs ++ [60; 47] ++ r_qname name ++ ws2 ++ [62]
  end.
Proof. destruct body as [[cs ws2]|]; reflexivity. Qed.

Lemma wf_items_fix sc : forall cs,
  (fix all (l : list item) : bool := match l with [] => true | c :: r => wf_item sc c && all r end) cs = wf_items sc cs.
Proof. induction cs as [|c r IH]; [reflexivity|]. cbn [wf_items]. rewrite <- IH. reflexivity. Qed.

Lemma no_adj_fix : forall cs,
  (fix adj (l : list item) : bool :=
     match l with
     | a :: ((c :: _) as r) => negb (match a, c with IText _, IText _ => true | _, _ => false end) && adj r
     | _ => true
     end) cs = no_adj cs.
Proof.
  induction cs as [|a r IH]; [reflexivity|]. destruct r as [|c r']; [reflexivity|].
  change (no_adj (a :: c :: r')) with (negb (is_text a && is_text c) && no_adj (c :: r')).
  rewrite <- IH. f_equal. destruct a, c; reflexivity.
Qed.

Lemma wf_item_elem inh name es ws body :
  wf_item inh (IElem name es ws body) =
  let sc := esc es inh in
  wf_qname name && negb (Scope.bytes_eqb (q_prefix name) xmlns_b)
  && forallb wf_entry es
  && Scope.prefixes_unique (own_bindings es)
  && is_bound (Scope.resolve_elem sc (q_prefix name))
  && forallb (fun e => match e with EAttr _ n _ => is_bound (Scope.resolve_attr sc (q_prefix n))
                                   | EDecl _ _ _ => true end) es
  && enames_distinct (map (fun a => (fst (fst a), snd (fst a))) (sem_attrs sc es))
  && Cst.wf_ws ws &&
  match body with
  | None => true
  | Some (cs, ws2) => Cst.wf_ws ws2 && no_adj cs && wf_items sc cs
  end.
Proof.
  destruct body as [[cs ws2]|]; [|reflexivity]. cbn [wf_item]. cbv zeta.
  rewrite wf_items_fix, no_adj_fix. reflexivity.
Qed.

Lemma sem_items_fix sc : forall cs,
  (fix go (l : list item) : list vnode := match l with [] => [] | c :: r => sem_item sc c ++ go r end) cs = sem_items sc cs.
Proof. induction cs as [|c r IH]; [reflexivity|]. cbn [sem_items]. rewrite <- IH. reflexivity. Qed.

Definition elem_v (inh : list Scope.binding) (name : qname) (es : list entry) (n : nat) : vnode :=
  let sc := esc es inh in
  VElem (ns_of (Scope.resolve_elem sc (q_prefix name))) (q_local name) (sem_attrs sc es) sc n.

Lemma sem_item_elem inh name es ws body :
  sem_item inh (IElem name es ws body) =
  match body with
  | None => [elem_v inh name es 0]
  | Some (cs, _) => elem_v inh name es (length cs) :: sem_items (esc es inh) cs
  end.
Proof. destruct body as [[cs ws2]|]; [|reflexivity]. cbn [sem_item]. cbv zeta. rewrite sem_items_fix. reflexivity. Qed.

(* ---- sizes (independent of the scope) ---- *)
Fixpoint isize (i : item) : nat :=
  match i with
  | IElem _ _ _ (Some (cs, _)) =>
    S ((fix go (l : list item) : nat := match l with [] => O | c :: r => isize c + go r end) cs)
  | _ => 1
  end%nat.
Fixpoint isizes (l : list item) : nat := match l with [] => O | c :: r => (isize c + isizes r)%nat end.

Lemma isize_elem n a w cs w2 : isize (IElem n a w (Some (cs, w2))) = S (isizes cs).
Proof. reflexivity. Qed.

Lemma sem_item_len : forall i inh, length (sem_item inh i) = isize i.
Proof.
  intros i. induction i as [n a w|n a w cs w2 IH|bs|bs|t s v] using item_ind'; intros inh; try reflexivity.
  rewrite sem_item_elem, isize_elem. cbn [length]. f_equal. generalize (esc a inh). intros sc.
  induction IH as [|c r Hc _ IHr]; [reflexivity|]. cbn [sem_items isizes]. rewrite app_length, Hc, IHr. reflexivity.
Qed.

Lemma sem_items_len inh : forall l, length (sem_items inh l) = isizes l.
Proof. induction l as [|c r IH]; [reflexivity|]. cbn [sem_items isizes]. rewrite app_length, sem_item_len, IH. reflexivity. Qed.

Definition nsize (i : item) : N := N.of_nat (isize i).
Definition nsizes (l : list item) : N := N.of_nat (isizes l).

Lemma nsizes_cons c r : nsizes (c :: r) = nsize c + nsizes r.
Proof. unfold nsizes, nsize. cbn [isizes]. lia. Qed.

Lemma nsize_elem name es ws cs ws2 : nsize (IElem name es ws (Some (cs, ws2))) = 1 + nsizes cs.
Proof. unfold nsize, nsizes. rewrite isize_elem. lia. Qed.

Lemma nsize_pos i : 1 <= nsize i.
Proof. unfold nsize. destruct i as [n a w [[cs w2]|]| | |]; try rewrite isize_elem; cbn [isize]; lia. Qed.

(* number of ordinary attributes *)
Definition nea (es : list entry) : nat :=
  length (filter (fun e => match e with EAttr _ _ _ => true | EDecl _ _ _ => false end) es).

Lemma sem_attrs_len sc es : length (sem_attrs sc es) = nea es.
Proof.
  unfold sem_attrs, nea. induction es as [|e es IH]; [reflexivity|]. cbn [flat_map filter].
  rewrite app_length, IH. destruct e; reflexivity.
Qed.

Fixpoint nattrs (i : item) : nat :=
  match i with
  | IElem _ es _ body =>
    nea es +
    match body with
    | None => 0
    | Some (cs, _) => (fix go (l : list item) : nat := match l with [] => 0 | c :: r => nattrs c + go r end) cs
    end
  | _ => 0
  end%nat.
Fixpoint nattrs_items (l : list item) : nat :=
  match l with [] => 0 | c :: r => nattrs c + nattrs_items r end%nat.

Lemma nattrs_elem name es ws body :
  nattrs (IElem name es ws body) =
  (nea es + match body with None => 0 | Some (cs, _) => nattrs_items cs end)%nat.
Proof. destruct body as [[cs ws2]|]; reflexivity. Qed.

(* ---- declarations and the cost in the namespace table ---- *)
Fixpoint items_decls (l : list item) : list Scope.binding :=
  match l with [] => [] | c :: r => item_decls c ++ items_decls r end.

Lemma item_decls_elem name es ws body :
  item_decls (IElem name es ws body) =
  own_bindings es ++ match body with None => [] | Some (cs, _) => items_decls cs end.
Proof. destruct body as [[cs ws2]|]; reflexivity. Qed.

Fixpoint ns_costs (inh : list Scope.binding) (l : list item) : nat :=
  match l with [] => O | c :: r => (ns_cost inh c + ns_costs inh r)%nat end.

Lemma ns_costs_fix sc : forall cs,
  (fix go (l : list item) : nat := match l with [] => 0 | c :: r => ns_cost sc c + go r end)%nat cs = ns_costs sc cs.
Proof. induction cs as [|c r IH]; [reflexivity|]. cbn [ns_costs]. rewrite <- IH. reflexivity. Qed.

Lemma ns_cost_elem inh name es ws body :
  ns_cost inh (IElem name es ws body) =
  (match own_bindings es with [] => 0 | _ => length (esc es inh) end +
   match body with None => 0 | Some (cs, _) => ns_costs (esc es inh) cs end)%nat.
Proof. destruct body as [[cs ws2]|]; [|reflexivity]. cbn [ns_cost]. cbv zeta. rewrite ns_costs_fix. reflexivity. Qed.

(* ---- the tagged pre-order list ---- *)
Fixpoint tag (inh : list Scope.binding) (p id : N) (i : item) : list (N * vnode) :=
  match i with
  | IElem name es _ body =>
    match body with
    | None => [(p, elem_v inh name es 0)]
    | Some (cs, _) =>
      (p, elem_v inh name es (length cs)) ::
      (fix go (id' : N) (l : list item) : list (N * vnode) :=
         match l with [] => [] | c :: r => tag (esc es inh) id id' c ++ go (id' + nsize c) r end) (id + 1) cs
    end
  | IText bs => [(p, VText bs)]
  | IComment bs => [(p, VComment bs)]
  | IPI target _ value => [(p, VPI target (match value with [] => None | _ => Some value end))]
  end.
Fixpoint tag_list (inh : list Scope.binding) (p id : N) (l : list item) : list (N * vnode) :=
  match l with [] => [] | c :: r => tag inh p id c ++ tag_list inh p (id + nsize c) r end.

Lemma tag_elem inh p id name es ws cs ws2 :
  tag inh p id (IElem name es ws (Some (cs, ws2))) =
  (p, elem_v inh name es (length cs)) :: tag_list (esc es inh) id (id + 1) cs.
Proof.
  cbn [tag]. f_equal. generalize (id + 1). induction cs as [|c r IH]; intros base; [reflexivity|].
  cbn [tag_list]. f_equal. apply IH.
Qed.

Lemma tag_sem : forall i inh p id, map snd (tag inh p id i) = sem_item inh i.
Proof.
  intros i. induction i as [n a w|n a w cs w2 IH|bs|bs|t s v] using item_ind'; intros inh p id; try reflexivity.
  rewrite tag_elem, sem_item_elem. cbn [map snd]. f_equal. generalize (esc a inh). intros sc.
  generalize (id + 1). induction IH as [|c r Hc _ IHr]; intros base; cbn [tag_list sem_items map]; [reflexivity|].
  rewrite map_app, Hc, IHr. reflexivity.
Qed.

Lemma tag_list_sem inh : forall l p id, map snd (tag_list inh p id l) = sem_items inh l.
Proof.
  induction l as [|c r IH]; intros p id; cbn [tag_list sem_items map]; [reflexivity|].
  rewrite map_app, tag_sem, IH. reflexivity.
Qed.

Lemma tag_len inh i p id : N.of_nat (length (tag inh p id i)) = nsize i.
Proof. unfold nsize. rewrite <- (sem_item_len i inh), <- (tag_sem i inh p id), map_length. reflexivity. Qed.

Lemma tag_list_len inh l p id : N.of_nat (length (tag_list inh p id l)) = nsizes l.
Proof. unfold nsizes. rewrite <- (sem_items_len inh l), <- (tag_list_sem inh l p id), map_length. reflexivity. Qed.

(* ---- counting the entries with a given parent ---- *)
Definition cnt (q : N) (T : list (N * vnode)) : nat := length (filter (fun e => fst e =? q) T).

Lemma cnt_app q T1 T2 : cnt q (T1 ++ T2) = (cnt q T1 + cnt q T2)%nat.
Proof. unfold cnt. rewrite filter_app, app_length. reflexivity. Qed.

Lemma cnt_cons q e T : cnt q (e :: T) = ((if (fst e =? q)%N then 1 else 0) + cnt q T)%nat.
Proof. unfold cnt. cbn [filter]. destruct (fst e =? q); reflexivity. Qed.

Lemma cnt_zero q T : Forall (fun e => fst e <> q) T -> cnt q T = 0%nat.
Proof.
  induction 1 as [|e T He _ IH]; [reflexivity|]. rewrite cnt_cons, IH.
  replace (fst e =? q) with false by lia. reflexivity.
Qed.

Lemma tag_parents : forall i inh p id,
  Forall (fun e => fst e = p \/ (id <= fst e /\ fst e < id + nsize i)) (tag inh p id i).
Proof.
  intros i. induction i as [n a w|n a w cs w2 IH|bs|bs|t s v] using item_ind'; intros inh p id;
    try (constructor; [left; reflexivity|constructor]).
  rewrite tag_elem, nsize_elem. constructor; [left; reflexivity|]. generalize (esc a inh). intros sc.
  assert (G : forall base, id < base ->
            Forall (fun e => id <= fst e /\ fst e < base + nsizes cs) (tag_list sc id base cs)).
  { induction IH as [|c r Hc _ IHr]; intros base Hb; cbn [tag_list]; [constructor|].
    rewrite nsizes_cons. apply Forall_app. split.
    - eapply Forall_impl; [|apply (Hc sc id base)]. cbv beta. intros e [E|E]; lia.
    - eapply Forall_impl; [|apply (IHr (base + nsize c))]; [cbv beta; intros e E; lia|].
      pose proof (nsize_pos c). lia. }
  eapply Forall_impl; [|apply (G (id + 1))]; [cbv beta; intros e E; right; lia|lia].
Qed.

Lemma tag_list_parents inh : forall l p id,
  Forall (fun e => fst e = p \/ (id <= fst e /\ fst e < id + nsizes l)) (tag_list inh p id l).
Proof.
  induction l as [|c r IH]; intros p id; cbn [tag_list]; [constructor|].
  rewrite nsizes_cons. apply Forall_app. split.
  - eapply Forall_impl; [|apply tag_parents]. cbv beta. intros e [E|E]; [left; exact E|right; lia].
  - eapply Forall_impl; [|apply IH]. cbv beta. intros e [E|E]; [left; exact E|right; lia].
Qed.

Lemma cnt_below_list inh l p id q : q < id -> cnt q (tag_list inh p id l) = if q =? p then length l else 0%nat.
Proof.
  intros Hq. revert id Hq. induction l as [|c r IH]; intros id Hq; cbn [tag_list length].
  - destruct (q =? p); reflexivity.
  - rewrite cnt_app. rewrite IH by (pose proof (nsize_pos c); lia).
    destruct (q =? p) eqn:Eqp.
    + apply N.eqb_eq in Eqp. subst q.
      assert (C1 : cnt p (tag inh p id c) = 1%nat).
      { destruct c as [n a w [[cs w2]|]| | |]; try (cbn [tag]; rewrite cnt_cons; cbn [fst]; rewrite N.eqb_refl; reflexivity).
        rewrite tag_elem, cnt_cons. cbn [fst]. rewrite N.eqb_refl.
        rewrite cnt_zero; [reflexivity|].
        eapply Forall_impl; [|apply (tag_list_parents (esc a inh) cs id (id + 1))]. cbv beta. intros e [E1|E1]; lia. }
      rewrite C1. reflexivity.
    + rewrite cnt_zero; [reflexivity|].
      eapply Forall_impl; [|apply (tag_parents c inh p id)]. cbv beta. intros e [E1|E1]; lia.
Qed.

Definition vcount (v : vnode) : nat := match v with VElem _ _ _ _ m => m | _ => 0%nat end.

Lemma nth_error_app_split {A} (l1 l2 : list A) k x : nth_error (l1 ++ l2) k = Some x ->
  (k < length l1 /\ nth_error l1 k = Some x)%nat \/ (length l1 <= k /\ nth_error l2 (k - length l1) = Some x)%nat.
Proof.
  intros H. destruct (Nat.lt_ge_cases k (length l1)) as [L|L].
  - left. split; [exact L|]. rewrite nth_error_app1 in H by exact L. exact H.
  - right. split; [exact L|]. rewrite nth_error_app2 in H by exact L. exact H.
Qed.

Definition counts_ok (i : item) : Prop :=
  forall inh p id, p < id -> forall k q v, nth_error (tag inh p id i) k = Some (q, v) ->
  vcount v = cnt (id + N.of_nat k) (tag inh p id i).

Lemma tag_counts_list (cs : list item) : Forall counts_ok cs ->
  forall inh p base, p < base -> forall k q v, nth_error (tag_list inh p base cs) k = Some (q, v) ->
  vcount v = cnt (base + N.of_nat k) (tag_list inh p base cs).
Proof.
  induction 1 as [|c r Hc _ IHr]; intros inh p base Hb k q v Hk; cbn [tag_list] in *.
  - destruct k; discriminate.
  - rewrite cnt_app. pose proof (tag_len inh c p base) as Lc.
    apply nth_error_app_split in Hk. destruct Hk as [[L Hk]|[L Hk]].
    + rewrite (Hc inh p base Hb k q v Hk).
      rewrite cnt_below_list by lia. replace (base + N.of_nat k =? p) with false by lia. lia.
    + rewrite (IHr inh p (base + nsize c) ltac:(lia) _ q v Hk).
      replace (base + nsize c + N.of_nat (k - length (tag inh p base c))) with (base + N.of_nat k) by lia.
      rewrite (cnt_zero _ (tag inh p base c)); [reflexivity|].
      eapply Forall_impl; [|apply (tag_parents c inh p base)]. cbv beta. intros e [E|E]; lia.
Qed.

Lemma tag_counts : forall i, counts_ok i.
Proof.
  intros i. induction i as [n a w|n a w cs w2 IH|bs|bs|t s v0] using item_ind'; intros inh p id Hp k q v Hk;
    try (destruct k as [|k]; [|destruct k; discriminate]; cbn [tag nth_error] in Hk; injection Hk as <- <-;
         cbn [tag vcount elem_v]; rewrite cnt_cons, N.add_0_r; cbn [fst cnt filter length];
         replace (p =? id) with false by lia; reflexivity).
  rewrite tag_elem in *. destruct k as [|k].
  - cbn [nth_error] in Hk. injection Hk as <- <-. cbn [vcount elem_v]. rewrite N.add_0_r, cnt_cons. cbn [fst].
    replace (p =? id) with false by lia. rewrite cnt_below_list by lia. rewrite N.eqb_refl. reflexivity.
  - cbn [nth_error] in Hk. rewrite cnt_cons. cbn [fst]. replace (p =? id + N.of_nat (S k)) with false by lia.
    rewrite (tag_counts_list cs IH (esc a inh) id (id + 1) ltac:(lia) k q v Hk).
    replace (id + 1 + N.of_nat k) with (id + N.of_nat (S k)) by lia. reflexivity.
Qed.

Lemma tag_list_counts inh l p base : p < base -> forall k q v, nth_error (tag_list inh p base l) k = Some (q, v) ->
  vcount v = cnt (base + N.of_nat k) (tag_list inh p base l).
Proof. apply tag_counts_list. apply Forall_forall. intros i _. apply tag_counts. Qed.

(* ---- shapes of renderings ---- *)
Lemma nontext_starts i : is_text i = false -> exists l, r_item i = 60 :: l.
Proof.
  destruct i as [n a w b| | |]; intros H; try discriminate.
  - rewrite r_item_elem. eexists. reflexivity.
  - eexists. reflexivity.
  - eexists. reflexivity.
Qed.

Print Assumptions tag_list_counts.
