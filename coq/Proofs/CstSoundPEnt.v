(* Proofs/CstSoundPEnt.v -- C08 soundness WITH A PROLOG AND ENTITIES: the literal of a general entity
   declaration that passes the byte-level check [ge_value_ok] of CstSoundP.v (P8) is the rendering
   of a list of entity pieces that is well formed for Spec/CstFullS5.v ([wf_uepieces q false true
   true]): literals of Chars, character references, predefined references, references &n;. *)
From Coq Require Import String.
From Coq Require Import List Arith NArith Bool Lia ZifyBool ZifyN ZifyNat.
Import ListNotations.
From RX Require Import Generated.
From RX.Model Require Import Base CharClass Stream Tokenizer.
From RX.Spec Require Cst Chars CstU CstNs CstText CstEnt.
From RX.Spec Require Import CstFull CstFullS5.
From RX.Proofs Require Import Tactics CstLex CstULex.
From RX.Proofs Require CharTablesProofs CstFullS2Lex.
From RX.Proofs Require Import CstSound CstSoundLex CstSoundULex CstSoundT CstSoundTText CstSoundN CstSoundNLex CstSoundNText CstSoundP.
Open Scope N_scope.

Lemma all_suffixes_app_r P : forall a l, all_suffixes P (a ++ l) = true -> all_suffixes P l = true.
Proof.
  induction a as [|x a IH]; intros l H; [exact H|]. cbn [app all_suffixes] in H. apply andb_true_iff in H. apply IH. tauto.
Qed.
Lemma all_suffixes_hd P l : all_suffixes P l = true -> P l = true.
Proof. destruct l; cbn [all_suffixes]; [auto|]. intros H. apply andb_true_iff in H. tauto. Qed.

Lemma span_eq (f : N -> bool) : forall l, l = fst (span f l) ++ snd (span f l) /\ forallb f (fst (span f l)) = true.
Proof.
  induction l as [|x l IH]; [split; reflexivity|]. cbn [span]. destruct (f x) eqn:E; [|split; reflexivity].
  destruct (span f l) as [a c]. cbn [fst snd] in *. destruct IH as [I1 I2]. split; [cbn [app]; rewrite <- I1; reflexivity|].
  cbn [forallb]. rewrite E, I2. reflexivity.
Qed.

Lemma name_run_split : forall l, l = name_run l ++ skipn (length (name_run l)) l.
Proof.
  induction l as [|x l IH]; [reflexivity|]. cbn [name_run]. destruct (name_byte x); [|reflexivity].
  cbn [length skipn app]. rewrite <- IH. reflexivity.
Qed.
Lemma name_run_bytes : forall l, forallb name_byte (name_run l) = true.
Proof.
  induction l as [|x l IH]; [reflexivity|]. cbn [name_run]. destruct (name_byte x) eqn:E; [|reflexivity].
  cbn [forallb]. rewrite E, IH. reflexivity.
Qed.

Lemma utf8s_ascii_id : forall n, Forall (fun y => y < 128) n -> utf8s n = n.
Proof.
  induction 1 as [|x n Hx _ IH]; [reflexivity|]. rewrite utf8s_cons, (utf8_ascii x Hx), IH. reflexivity.
Qed.

Lemma contains_suffix n a m : contains_b n (a ++ m) = false -> contains_b n m = false.
Proof.
  intros H. destruct (contains_b n m) eqn:E; [|reflexivity]. rewrite (contains_mono_r n a m E) in H. discriminate.
Qed.
Lemma contains_prefix_f n a m : n <> [] -> contains_b n (a ++ m) = false -> contains_b n a = false.
Proof.
  intros Hn H. destruct (contains_b n a) eqn:E; [|reflexivity]. rewrite (contains_mono_l n Hn a m E) in H. discriminate.
Qed.

Lemma predef_dec n : E.is_predef_name n = true -> exists pe, T.predef_name pe = n.
Proof.
  unfold E.is_predef_name. intros H. apply existsb_exists in H. destruct H as (pe & _ & Hb). unfold E.beq in Hb.
  destruct (list_eq_dec N.eq_dec (T.predef_name pe) n); [eauto|discriminate].
Qed.

Lemma charref_val_ok_inv l : charref_val_ok l = true ->
  exists (hex : bool) (d0 : N) (ds0 r'' : list N), l = (if hex then [120] else []) ++ (d0 :: ds0) ++ 59 :: r'' /\
    forallb (T.is_digit hex) (d0 :: ds0) = true /\ Chars.xml_Char (T.ref_val hex (d0 :: ds0)) = true /\
    E.charref_ok_in_value (T.PCharRef hex (d0 :: ds0)) = true.
Proof.
  unfold charref_val_ok. intros H.
  match type of H with (let '(h, r) := ?M in _) = _ => destruct M as [hex r] eqn:EM end.
  assert (El : l = (if hex then [120] else []) ++ r).
  { destruct l as [|t0 tr]; [inversion EM; reflexivity|]. destruct t0 as [|pp]; [inversion EM; reflexivity|].
    do 7 (destruct pp as [pp|pp|]; try (inversion EM; reflexivity)). }
  destruct (span_eq (T.is_digit hex) r) as [Er Hds]. destruct (span (T.is_digit hex) r) as [ds r'] eqn:Esp. cbn [fst snd] in Er, Hds.
  destruct ds as [|d0 ds0]; [discriminate|]. destruct r' as [|z r'']; [discriminate|].
  assert (z = 59) by (destruct z as [|pp]; [discriminate|]; do 6 (destruct pp as [pp|pp|]; try discriminate); reflexivity).
  subst z. apply andb_true_iff in H. destruct H as [Hc Hok].
  exists hex, d0, ds0, r''. split; [rewrite El, Er; reflexivity|]. split; [exact Hds|]. split; [exact Hc|exact Hok].
Qed.

Definition vchar_ok (q : N) (x : N) : Prop := x <> 60 /\ x <> q.

Lemma ge_pieces q : q < 128 -> forall n cs, (length cs <= n)%nat -> uchars cs -> Forall (vchar_ok q) cs ->
  contains_b [93; 93; 62] cs = false -> all_suffixes amp_ok (utf8s cs) = true ->
  exists ps, E.r_epieces (enc_epieces ps) = utf8s cs /\ forallb (wf_uepiece q false true true) ps = true /\
             E.no_adjacent_elit ps = true /\
             match cs with 38 :: _ => match ps with p0 :: _ => E.is_elit p0 = false | [] => True end | _ => True end.
Proof.
  intros Hq. induction n as [|n IH]; intros cs Hn Hu Hv Hc Ha.
  { destruct cs; [|cbn in Hn; lia]. exists []. repeat split. }
  destruct cs as [|c cs0]; [exists []; repeat split|].
  destruct (N.eq_dec c 38) as [->|Hc38].
  - (* a reference *)
    rewrite utf8s_cons, (utf8_ascii 38) in Ha by lia. cbn [app] in Ha. pose proof (all_suffixes_hd _ _ Ha) as Hamp.
    inversion Hu as [|? ? _ Hu0]; subst. inversion Hv as [|? ? _ Hv0]; subst.
    assert (Hc0 : contains_b [93; 93; 62] cs0 = false) by (apply (contains_suffix _ [38] cs0); exact Hc).
    assert (REST : forall r cs3, Forall (fun y => y < 128) r -> utf8s cs0 = r ++ utf8s cs3 -> cs0 = r ++ cs3 ->
              exists ps, E.r_epieces (enc_epieces ps) = utf8s cs3 /\ forallb (wf_uepiece q false true true) ps = true /\
                         E.no_adjacent_elit ps = true).
    { intros r cs3 Hr E1 E2. subst cs0.
      destruct (IH cs3) as (ps & A & B0 & C0 & _).
      - cbn [length] in Hn. rewrite app_length in Hn. lia.
      - apply Forall_app in Hu0. tauto.
      - apply Forall_app in Hv0. tauto.
      - apply (contains_suffix _ r). exact Hc0.
      - rewrite E1 in Ha. apply (all_suffixes_app_r amp_ok (38 :: r)). exact Ha.
      - exists ps. auto. }
    destruct (utf8s cs0) as [|y t] eqn:E0; [cbn in Hamp; discriminate|].
    destruct (N.eq_dec y 35) as [->|Hy].
    + (* &# *)
      cbn [amp_ok] in Hamp. destruct (charref_val_ok_inv _ Hamp) as (hex & d0 & ds0 & r'' & Ehr & Hds & Hchar & Hok).
      set (pre := [35] ++ (if hex then [120] else []) ++ (d0 :: ds0) ++ [59]).
      assert (Et : 35 :: t = pre ++ r'') by (unfold pre; rewrite Ehr, <- !app_assoc; reflexivity).
      assert (Hpre : Forall (fun y => y < 128) pre).
      { unfold pre. apply Forall_app; split; [repeat constructor; lia|]. apply Forall_app; split; [destruct hex; repeat constructor; lia|].
        apply Forall_app; split; [|repeat constructor; lia]. apply CstFullS2Lex.digits_lit in Hds. apply Forall_forall. intros y0 Hy0.
        rewrite forallb_forall in Hds. specialize (Hds y0 Hy0). lia. }
      rewrite Et in E0. destruct (utf8s_ascii_prefix _ _ _ Hpre E0) as (cs3 & E2 & E3).
      destruct (REST pre cs3 Hpre ltac:(rewrite E3; exact Et) E2) as (ps & A & B0 & C0).
      exists (E.EP (T.PCharRef hex (d0 :: ds0)) :: ps).
      split.
      { unfold enc_epieces, E.r_epieces in *. cbn [map flat_map enc_epiece enc_piece E.r_epiece T.r_piece]. rewrite A.
        rewrite utf8s_cons, (utf8_ascii 38) by lia. rewrite E0, <- E3. unfold pre. rewrite <- !app_assoc. reflexivity. }
      split.
      { cbn [forallb wf_uepiece wf_utpiece wf_uvpiece E.charref_ok_in_value]. rewrite B0, andb_true_r.
        assert (Hwf : T.wf_charref hex (d0 :: ds0) = true) by (unfold T.wf_charref; rewrite Hds, Hchar; reflexivity).
        rewrite Hwf. cbn [andb]. exact Hok. }
      split; [|reflexivity].
      destruct ps as [|p1 ps1]; [reflexivity|]. change (negb (false && E.is_elit p1) && E.no_adjacent_elit (p1 :: ps1) = true). exact C0.
    + (* &name; *)
      assert (Hamp' : ref_name_ok (y :: t) = true).
      { cbn [amp_ok] in Hamp. destruct y as [|pp]; [exact Hamp|]. do 6 (destruct pp as [pp|pp|]; try exact Hamp). congruence. }
      unfold ref_name_ok in Hamp'. pose proof (name_run_split (y :: t)) as Esplit. pose proof (name_run_bytes (y :: t)) as Hnb.
      destruct (name_run (y :: t)) as [|x nm] eqn:Enr; [discriminate|].
      repeat (apply andb_true_iff in Hamp'; destruct Hamp' as [Hamp' ?]).
      destruct (skipn (length (x :: nm)) (y :: t)) as [|z r''] eqn:Esk; [discriminate|].
      assert (z = 59) by (destruct (N.eq_dec z 59); [assumption|]; destruct z as [|pp]; [discriminate|]; do 6 (destruct pp as [pp|pp|]; try discriminate); congruence).
      subst z.
      match goal with X : forallb (fun y0 => y0 <? 128) (x :: nm) = true |- _ => rename X into Hasc end.
      match goal with X : negb (mem_b 58 (x :: nm)) = true |- _ => rename X into H58 end.
      assert (Hascf : Forall (fun y0 => y0 < 128) (x :: nm)).
      { apply Forall_forall. intros y0 Hy0. rewrite forallb_forall in Hasc. specialize (Hasc y0 Hy0). lia. }
      set (pre := (x :: nm) ++ [59]).
      assert (Hpre : Forall (fun y0 => y0 < 128) pre) by (unfold pre; apply Forall_app; split; [exact Hascf|repeat constructor; lia]).
      assert (Et : y :: t = pre ++ r'') by (unfold pre; rewrite <- app_assoc; exact Esplit).
      rewrite Et in E0. destruct (utf8s_ascii_prefix _ _ _ Hpre E0) as (cs3 & E2 & E3).
      destruct (REST pre cs3 Hpre ltac:(rewrite E3; exact Et) E2) as (ps & A & B0 & C0).
      assert (Hrend : forall body, body = x :: nm ->
                [38] ++ body ++ [59] ++ utf8s cs3 = utf8s (38 :: cs0)).
      { intros body ->. rewrite utf8s_cons, (utf8_ascii 38) by lia. rewrite E0, <- E3. unfold pre. rewrite <- !app_assoc. reflexivity. }
      destruct (E.is_predef_name (x :: nm)) eqn:Epd.
      * destruct (predef_dec _ Epd) as (pe & Epe).
        exists (E.EP (T.PPredef pe) :: ps). split.
        { unfold enc_epieces, E.r_epieces in *. cbn [map flat_map enc_epiece enc_piece E.r_epiece T.r_piece]. rewrite A.
          rewrite <- (Hrend _ Epe), <- !app_assoc. reflexivity. }
        split; [cbn [forallb wf_uepiece wf_utpiece wf_uvpiece E.charref_ok_in_value andb]; exact B0|].
        split; [|reflexivity].
        destruct ps as [|p1 ps1]; [reflexivity|]. change (negb (false && E.is_elit p1) && E.no_adjacent_elit (p1 :: ps1) = true). exact C0.
      * exists (E.ERef (x :: nm) :: ps). split.
        { unfold enc_epieces, E.r_epieces in *. cbn [map flat_map enc_epiece E.r_epiece]. rewrite A, (utf8s_ascii_id _ Hascf).
          rewrite <- (Hrend _ eq_refl), <- !app_assoc. reflexivity. }
        split.
        { cbn [forallb wf_uepiece]. rewrite B0, Epd, andb_true_r. cbn [negb]. rewrite andb_true_r.
          apply negb_true_iff in H58.
          assert (Hall : forall y0, In y0 (x :: nm) -> y0 < 128 /\ y0 <> 58 /\ byte_is_name y0 = true).
          { intros y0 Hy0. rewrite Forall_forall in Hascf. specialize (Hascf y0 Hy0). split; [exact Hascf|]. split.
            - intros ->. clear - H58 Hy0. induction (x :: nm) as [|a l IHl]; [destruct Hy0|]. cbn [mem_b] in H58.
              apply orb_false_iff in H58. destruct H58 as [H1 H2]. destruct Hy0 as [->|Hy0]; [lia|auto].
            - rewrite forallb_forall in Hnb. specialize (Hnb y0 Hy0). unfold name_byte in Hnb.
              apply orb_true_iff in Hnb. destruct Hnb as [Hb|Hb]; [lia|exact Hb]. }
          cbn [CstU.wf_name]. destruct (Hall x (or_introl eq_refl)) as (X1 & X2 & _).
          match goal with X : byte_is_name_start x = true |- _ => rewrite (uname_start_intro_b x X1 X X2) end. cbn [andb].
          apply forallb_forall. intros y0 Hy0. destruct (Hall y0 (or_intror Hy0)) as (Y1 & Y2 & Y3).
          apply uname_char_intro_b; assumption. }
        split; [|reflexivity].
        destruct ps as [|p1 ps1]; [reflexivity|]. change (negb (false && E.is_elit p1) && E.no_adjacent_elit (p1 :: ps1) = true). exact C0.
  - (* a literal *)
    destruct (span_split (fun x => negb (x =? 38)) (c :: cs0)) as (cs1 & r & Ecs & H1 & Hst).
    assert (Hne : cs1 <> []).
    { intros ->. cbn [app] in Ecs. subst r. cbn [stops] in Hst. lia. }
    assert (Hlen : (length r <= n)%nat).
    { apply (f_equal (@length N)) in Ecs. rewrite app_length in Ecs. cbn [length] in Ecs, Hn. destruct cs1; [congruence|cbn [length] in Ecs; lia]. }
    rewrite Ecs in *. apply Forall_app in Hu. destruct Hu as [Hu1 Hu2]. apply Forall_app in Hv. destruct Hv as [Hv1 Hv2].
    rewrite utf8s_app in Ha.
    assert (PS : exists ps, E.r_epieces (enc_epieces ps) = utf8s r /\ forallb (wf_uepiece q false true true) ps = true /\
                   E.no_adjacent_elit ps = true /\ match ps with p0 :: _ => E.is_elit p0 = false | [] => True end).
    { destruct r as [|z r0]; [exists []; repeat split|].
      destruct (IH (z :: r0) Hlen Hu2 Hv2 (contains_suffix _ cs1 _ Hc) (all_suffixes_app_r _ _ _ Ha)) as (ps & A & B0 & C0 & Dh).
      cbn [stops] in Hst. assert (z = 38) by lia. subst z. exists ps. auto. }
    destruct PS as (ps & A & B0 & C0 & Dh).
    exists (E.EP (T.PLit cs1) :: ps). split.
    { unfold enc_epieces, E.r_epieces in *. cbn [map flat_map enc_epiece enc_piece E.r_epiece T.r_piece]. rewrite A, utf8s_app. reflexivity. }
    assert (Hlit : forall q0, (forall x, In x cs1 -> x <> q0) -> wf_ulit q0 cs1 = true).
    { intros q0 Hq0. unfold wf_ulit. destruct cs1 as [|x0 c1]; [congruence|]. cbn [andb].
      pose proof (uchars_xml _ Hu1) as Hx. apply forallb_forall. intros y Hy. rewrite forallb_forall in Hx, H1.
      rewrite Forall_forall in Hv1. destruct (Hv1 y Hy). rewrite (Hx y Hy). specialize (H1 y Hy). specialize (Hq0 y Hy). cbn [andb]. lia. }
    split.
    { cbn [forallb wf_uepiece wf_utpiece wf_uvpiece E.charref_ok_in_value]. rewrite B0, andb_true_r.
      rewrite (Hlit 60), (Hlit q).
      - rewrite contains_eq. change T.cdata_close with [93; 93; 62].
        rewrite (contains_prefix_f [93; 93; 62] cs1 r ltac:(discriminate) Hc). reflexivity.
      - intros x Hx. rewrite Forall_forall in Hv1. apply (Hv1 x Hx).
      - intros x Hx. rewrite Forall_forall in Hv1. apply (Hv1 x Hx). }
    split.
    { destruct ps as [|p1 ps1]; [reflexivity|]. change (negb (true && E.is_elit p1) && E.no_adjacent_elit (p1 :: ps1) = true).
      rewrite C0, Dh. reflexivity. }
    clear - Hc38. destruct c as [|pp]; [exact I|]. do 6 (destruct pp as [pp|pp|]; try exact I). congruence.
Qed.

(* the literal of a general entity declaration *)
Lemma ge_value_decl q cs : q = 39 \/ q = 34 -> ge_value_ok (utf8s cs) = true -> Forall (fun y => y <> q) (utf8s cs) -> uchars cs ->
  exists ps, E.r_epieces (enc_epieces ps) = utf8s cs /\ wf_uepieces q false true true ps = true /\
             forallb (fun x => negb (x =? q) && negb (x =? 37)) (utf8s cs) = true.
Proof.
  intros Hq Hok Hnq Hu. assert (Hq128 : q < 128) by lia.
  unfold ge_value_ok in Hok. repeat (apply andb_true_iff in Hok; destruct Hok as [Hok ?]).
  repeat match goal with X : negb _ = true |- _ => apply negb_true_iff in X end.
  match goal with X : mem_b 60 _ = false |- _ => apply mem_b_Forall in X; rename X into H60 end.
  match goal with X : mem_b 37 _ = false |- _ => apply mem_b_Forall in X; rename X into H37 end.
  match goal with X : contains_b _ _ = false |- _ => rename X into Hcc end.
  match goal with X : all_suffixes _ _ = true |- _ => rename X into Hamp end.
  rewrite (contains_utf8 [93; 93; 62]) in Hcc by (try discriminate; reflexivity).
  assert (Hv : Forall (vchar_ok q) cs).
  { pose proof (scalars_ne 60 cs ltac:(lia) H60) as A. pose proof (scalars_ne q cs Hq128 Hnq) as B0.
    rewrite Forall_forall in *. intros x Hx. split; auto. }
  destruct (ge_pieces q Hq128 (length cs) cs (le_n _) Hu Hv Hcc Hamp) as (ps & A & B0 & C0 & _).
  exists ps. split; [exact A|]. split; [unfold wf_uepieces; rewrite B0, C0; reflexivity|].
  apply forallb_forall. intros x Hx. rewrite Forall_forall in Hnq, H37. specialize (Hnq x Hx). specialize (H37 x Hx). lia.
Qed.
