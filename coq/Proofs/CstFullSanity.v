(* Proofs/CstFullSanity.v -- the capstone fragment (Spec/CstFull.v): the model on sample documents, by computation. *)
From Coq Require Import Ascii String.
From Coq Require Import List NArith Bool.
Import ListNotations.
From RX.Model Require Import Base Stream Tokenizer Doc Builder Parse.
From RX.Spec Require CstNs CstU.
From RX.Spec Require Import CstFull.
From RX.Proofs Require Import CstNsView.
Open Scope N_scope.

Definition vnode_eq_dec : forall x y : CstNs.vnode, {x = y} + {x <> y}.
Proof. repeat decide equality. Defined.
Definition opt := {| allow_dtd := false; nodes_limit := 1000 |}.

(* ------------------------------------------------------------------------------------------ *)
(* S1                                                                                         *)
(* ------------------------------------------------------------------------------------------ *)
Module Ex1.
Definition lay ws w1 w2 q := {| CstNs.l_ws := b ws; CstNs.l_ws1 := b w1; CstNs.l_ws2 := b w2; CstNs.l_quote := q |}.
Definition qn (p l : scalars) : qname := {| q_prefix := p; q_local := l |}.
Definition at_ p l v : entry plain := EAttr (lay " " "" "" 34) (qn p l) v.
Definition dc p u : entry plain := EDecl (lay " " " " "" 39) p u.
Definition el p l es cs : item plain := IElem (qn p l) es [] (Some (cs, [])).
Definition em p l es : item plain := IElem (qn p l) es (b " ") None.
Definition tx (r : scalars) : item plain := @IText plain r.
Definition mk root : S1.doc := {| d_before := []; d_ws0 := []; d_root := root; d_after := []; d_ws_end := [10] |}.

Definition check (c : S1.doc) : bool * bool * bool :=
  (S1.wf_doc c, valid_utf8_b (S1.render c),
   match parse (S1.render c) opt with
   | Ok d => match view (S1.render c) d with
             | Some v => if list_eq_dec vnode_eq_dec v (S1.sem c) then true else false
             | None => false end
   | _ => false
   end).
Definition rejected (c : S1.doc) : bool * bool :=
  (S1.wf_doc c, match parse (S1.render c) opt with Err _ => true | _ => false end).

Definition eacute := 233. Definition na := 21517. Definition mae := 21069. Definition linb := 65536.  (* e-acute, two CJK, U+10000 *)
Definition urn (x : N) : scalars := b "urn:" ++ [x].

(* Unicode prefixes, local names, URIs and values; default namespace; redeclaration in a child; a
   child that declares nothing; xml:lang; xmlns:xml; p:xmlns as an ordinary attribute; xmlns="" *)
Definition ex1 : S1.doc :=
  {| d_before := [(IComment [na; 45; mae], [10]); (IPI [eacute; 183] [32] [8364; 63], [])];
     d_ws0 := [32];
     d_root := el [] [eacute] [dc [] (urn na); at_ [] [na] [228; 32; 1114111]; dc [na] (urn eacute);
                               at_ [na] [na] [linb]; at_ (b "xml") (b "lang") (b "ja");
                               dc (b "xml") (b "http://www.w3.org/XML/1998/namespace");
                               at_ [na] (b "xmlns") [mae]]
       [ tx [65533; 1114111; 133; 93; 93];
         em [] [na; mae; 183; 45] [];
         el [na] [linb; 120] [dc [na] (urn mae); at_ [na] [mae] (b "v")] [em [] (b "g") [at_ [na] [eacute] []]; tx [97; 128512]];
         em [] (b "c3") [dc [] []];
         em [mae] (b "c4") [at_ [mae] (b "z") (b "w"); dc [mae] (urn eacute); dc [] (urn na)];
         IComment [128512] ];
     d_after := [([32], IPI (b "pi") [] [])]; d_ws_end := [10] |}.
Eval vm_compute in (check ex1).
Eval vm_compute in (S1.sem ex1).

(* not well-formed, and rejected by the parser *)
Definition bad1 := mk (em [na] (b "r") []).                                                   (* N2 element *)
Definition bad2 := mk (em [] (b "r") [at_ [na] (b "a") (b "1")]).                            (* N2 attribute *)
Definition bad3 := mk (em [] (b "r") [dc [na] (urn mae); dc [mae] (urn mae); at_ [na] [eacute] []; at_ [mae] [eacute] []]).  (* N7 *)
Definition bad4 := mk (em [] (b "r") [dc [na] (b "u"); dc [na] (b "v")]).                    (* N6 *)
Definition bad5 := mk (em [] (b "r") [dc (b "xmlns") (b "u")]).                              (* N3 *)
Definition bad6 := mk (em [] (b "r") [dc [na] (b "http://www.w3.org/2000/xmlns/")]).         (* N4 *)
Definition bad7 := mk (em [] (b "r") [dc (b "xml") (urn na)]).                               (* N5 *)
Definition bad8 := mk (em [] (b "r") [dc [] (b "http://www.w3.org/XML/1998/namespace")]).    (* N5 *)
Definition bad9 := mk (em (b "xmlns") (b "r") []).                                           (* N1 *)
Definition bad10 := mk (em [] [183; 97] []).                                                 (* a name starting with U+00B7 *)
Definition bad11 := mk (em [] (b "r") [at_ [] (b "a") [65535]]).                             (* U+FFFF in a value *)
Definition bad12 := mk (el [] (b "r") [] [tx [65534]]).                                   (* U+FFFE is not a Char *)
Definition bad13 := mk (em [183] (b "r") [dc [183] (b "u")]).                                (* a prefix that is no NCName *)
Eval vm_compute in (map rejected [bad1; bad2; bad3; bad4; bad5; bad6; bad7; bad8; bad9; bad10; bad11; bad12; bad13]).
End Ex1.

(* ------------------------------------------------------------------------------------------ *)
(* S2                                                                                         *)
(* ------------------------------------------------------------------------------------------ *)
Module Ex2.
Definition lay ws w1 w2 q := {| CstNs.l_ws := b ws; CstNs.l_ws1 := b w1; CstNs.l_ws2 := b w2; CstNs.l_quote := q |}.
Definition qn (p l : scalars) : qname := {| q_prefix := p; q_local := l |}.
Definition at_ p l v : entry pieces := EAttr (lay " " "" "" 34) (qn p l) v.
Definition dc p u : entry pieces := EDecl (lay " " " " "" 39) p u.
Definition el p l es cs : item pieces := IElem (qn p l) es [] (Some (cs, [])).
Definition em p l es : item pieces := IElem (qn p l) es (b " ") None.
Definition tx (r : list T.piece) : item pieces := @IText pieces r.
Definition mk root : S2.doc := {| d_before := []; d_ws0 := []; d_root := root; d_after := []; d_ws_end := [10] |}.

Definition check (c : S2.doc) : bool * bool * bool :=
  (S2.wf_doc c, valid_utf8_b (S2.render c),
   match parse (S2.render c) opt with
   | Ok d => match view (S2.render c) d with
             | Some v => if list_eq_dec vnode_eq_dec v (S2.sem c) then true else false
             | None => false end
   | _ => false
   end).
Definition rejected (c : S2.doc) : bool * bool :=
  (S2.wf_doc c, match parse (S2.render c) opt with Err _ => true | _ => false end).

Definition na := 21517. Definition eacute := 233.
(* URIs through references (xmlns:p='&#117;rn:x', a Unicode character reference in a URI, CR LF and TAB
   in a URI), references and CR LF in values, Unicode literals + CDATA + references + CR in text *)
Definition ex1 : S2.doc :=
  mk (el [na] [eacute]
        [dc [na] [T.PCharRef false (b "117"); T.PLit (b "rn:x")];
         dc [] [T.PLit (b "urn:"); T.PCharRef true (b "540D"); T.PLit [13; 10; 9; na]];
         at_ [na] [na] [T.PLit [228; 13; 10; 9]; T.PPredef T.Quot; T.PLit [1114111; 13]; T.PCharRef false (b "13"); T.PPredef T.Lt];
         at_ [] (b "e") []]
        [ tx [T.PLit [na; 13; 10; 62]; T.PCData [93; 93; eacute; 13]; T.PLit [13; 128512]; T.PPredef T.Amp; T.PCharRef true (b "1F600"); T.PCData []];
          em [] (b "c") [dc [] [T.PPredef T.Amp]];
          tx [T.PCData []];
          IComment [128512];
          tx [T.PCharRef false (b "60")] ]).
Eval vm_compute in (check ex1).
Eval vm_compute in (S2.sem ex1).

(* the reserved URIs are recognised after normalisation *)
Definition xml_uri_s : scalars := b "http://www.w3.org/XML/1998/namespace".
Definition ex2 : S2.doc :=          (* xmlns:xml with the xml URI spelled with a reference: accepted, binds nothing *)
  mk (em (b "xml") (b "r") [dc (b "xml") [T.PCharRef false (b "104"); T.PLit (tl xml_uri_s)]]).
Eval vm_compute in (check ex2).
Definition bad1 := mk (em [] (b "r") [dc [na] [T.PCharRef false (b "104"); T.PLit (tl xml_uri_s)]]).   (* N5 through a reference *)
Definition bad2 := mk (em [] (b "r") [dc [na] [T.PLit (b "http://www.w3.org/2000/xmlns"); T.PCharRef true (b "2F")]]).  (* N4 through a reference *)
Definition bad3 := mk (em [] (b "r") [dc [na] [T.PLit (b "u")]; dc [eacute] [T.PCharRef false (b "117")];
                                      at_ [na] (b "a") []; at_ [eacute] (b "a") []]).          (* N7: the URIs are equal after decoding *)
Definition bad4 := mk (em [] (b "r") [at_ [] (b "a") [T.PLit [60]]]).                           (* '<' in a value *)
Definition bad5 := mk (el [] (b "r") [] [tx [T.PLit [93; 93; 62]]]).                            (* "]]>" in character data *)
Definition bad6 := mk (el [] (b "r") [] [tx [T.PCharRef false (b "0")]]).                       (* &#0; *)
Definition bad7 := mk (el [] (b "r") [] [tx [T.PLit [65534]]]).                                 (* U+FFFE *)
Definition bad8 := mk (em [] (b "r") [at_ [] (b "a") [T.PCData []]]).                           (* CDATA in a value *)
Eval vm_compute in (map rejected [bad1; bad2; bad3; bad4; bad5; bad6; bad7; bad8]).
End Ex2.

(* ------------------------------------------------------------------------------------------ *)
(* S3                                                                                         *)
(* ------------------------------------------------------------------------------------------ *)
Module Ex3.
Definition lay ws w1 w2 q := {| CstNs.l_ws := b ws; CstNs.l_ws1 := b w1; CstNs.l_ws2 := b w2; CstNs.l_quote := q |}.
Definition qn (p l : scalars) : qname := {| q_prefix := p; q_local := l |}.
Definition at_ p l v : entry epieces := EAttr (lay " " "" "" 34) (qn p l) v.
Definition dc p u : entry epieces := EDecl (lay " " " " "" 39) p u.
Definition el p l es cs : item epieces := IElem (qn p l) es [] (Some (cs, [])).
Definition em p l es : item epieces := IElem (qn p l) es (b " ") None.
Definition tx (r : list E.epiece) : item epieces := @IText epieces r.
Definition lit cs := E.EP (T.PLit cs).
Definition decl n v : E.edecl :=
  {| E.e_ws0 := [10]; E.e_ws1 := [32]; E.e_name := n; E.e_ws2 := [32]; E.e_quote := 34; E.e_value := E.EText v; E.e_ws3 := [] |}.
Definition mk decls root : S3.doc :=
  {| S3.x_ws0 := []; S3.x_before := [(IComment (b "c"), [10])];
     S3.x_dtd := {| E.t_ws1 := [32]; E.t_name := b "r"; E.t_ws2 := [32]; E.t_decls := decls; E.t_ws3 := [10]; E.t_ws4 := [] |};
     S3.x_main := {| d_before := [(IPI (b "p") [] [], [])]; d_ws0 := [10]; d_root := root; d_after := []; d_ws_end := [10] |} |}.
Definition opt3 := {| allow_dtd := true; nodes_limit := 1000 |}.

Definition check (c : S3.doc) : bool * bool * bool :=
  (S3.wf_doc c, valid_utf8_b (S3.render c),
   match parse (S3.render c) opt3 with
   | Ok d => match view (S3.render c) d with
             | Some v => if list_eq_dec vnode_eq_dec v (S3.sem c) then true else false
             | None => false end
   | _ => false
   end).
Definition rejected (c : S3.doc) : bool * bool :=
  (S3.wf_doc c, match parse (S3.render c) opt3 with Err _ => true | _ => false end).

Definition na := 21517. Definition eacute := 233.
(* entities with Unicode names and values, nested references, an empty entity, a second
   declaration of a name (ignored); references in a namespace URI, in an attribute value, in text;
   a run that consists of a reference to an empty entity (no node) *)
Definition decls1 :=
  [ decl [na] [lit (b "rn:"); E.EP (T.PCharRef true (b "540D"))];          (* &U+540D; = "rn:&#x540D;" *)
    decl (b "u") [lit (b "u"); E.ERef [na]];                                (* &u; = "u&U+540D;" *)
    decl (b "e") [];                                                        (* &e; = "" *)
    decl (b "u") [lit (b "ignored")];
    decl [eacute] [lit [eacute; 13]; E.EP (T.PPredef T.Amp); lit [10; 62]] ].
Definition ex1 : S3.doc :=
  mk decls1
     (el [na] [eacute]
        [dc [na] [E.ERef (b "u")]; dc [] [lit (b "x"); E.ERef (b "e"); E.EP (T.PCharRef false (b "33"))];
         at_ [na] (b "a") [E.ERef [eacute]; lit [13; 10]; E.ERef (b "u")]; at_ [] (b "b") [E.ERef (b "e")]]
        [ tx [lit [na]; E.ERef [eacute]; E.EP (T.PCData [93; 93]); E.ERef (b "u")];
          em [] (b "c") [];
          tx [E.ERef (b "e")];
          IComment [128512];
          tx [E.ERef (b "e"); E.EP (T.PCData [])] ]).
Eval vm_compute in (check ex1).
Eval vm_compute in (S3.sem ex1).

Definition bad1 := mk decls1 (el [] (b "r") [] [tx [E.ERef (b "nope")]]).                       (* undeclared *)
Definition bad2 := mk [decl (b "a") [E.ERef (b "a")]] (el [] (b "r") [] [tx [E.ERef (b "a")]]).   (* recursion *)
Definition bad3 := mk [decl (b "l") [E.EP (T.PCharRef false (b "38")); lit (b "#60;")]]
                      (em [] (b "r") [at_ [] (b "a") [E.ERef (b "l")]]).                         (* charref to '&' in a value: (F) *)
Definition bad4 := mk [decl (b "x") [lit (b "http://www.w3.org/2000/xmlns/")]]
                      (em [] (b "r") [dc [na] [E.ERef (b "x")]]).                                (* N4 through an entity *)
Definition bad5 := mk [decl (b "x") [lit [13]]] (el [] (b "r") [] [tx [E.ERef (b "x"); lit [10]]]).  (* (P) CR | LF split by an entity boundary *)
Eval vm_compute in (map rejected [bad1; bad2; bad4]).
Eval vm_compute in (map (fun c => S3.wf_doc c) [bad3; bad5]).
End Ex3.
