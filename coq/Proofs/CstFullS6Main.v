(* Proofs/CstFullS6Main.v -- the capstone fragment, stage S6 (Spec/CstFullS6.v): ONE statement for the whole supported subset.
   The rendering of every well-formed document -- byte order mark, XML declaration, DOCTYPE with external identifier and
   an internal subset with every kind of declaration (general internal entities whose value is character data or
   MARKUP, parameter entities, external / unparsed entities, ELEMENT / ATTLIST / NOTATION, comments, PIs), or no DOCTYPE
   at all; qualified Unicode names, namespaces, references everywhere; CR in markup white space everywhere -- parses
   to exactly the tree the document denotes ([parse_render_sem_full_s6]).  The earlier stages embed
   ([s4_in_s6], [s5_in_s6]). *)
From Coq Require Import Ascii String.
From Coq Require Import List NArith PeanoNat Bool Lia ZifyBool ZifyN ZifyNat.
Import ListNotations.
From RX Require Import Generated.
From RX.Model Require Import Base CharClass Stream Tokenizer Doc Builder Parse.
From RX.Spec Require Cst CstText CstEnt Detector Scope CstU CstNs Chars.
From RX.Spec Require Import CstFullS5.
From RX.Spec Require Import Text CstFull CstFullS4.
From RX.Spec Require Import CstFullS6.
From RX.Proofs Require Import Tactics CstLex CstBuild CstNsLex CstNsView CstNsBuild CstULex.
From RX.Proofs Require Import CstFullLex CstFullBuild CstFullTree CstFullDoc.
From RX.Proofs Require Import CstFullS4Sem.
From RX.Proofs Require Import CstFullS5Ws CstFullS5Doc.
From RX.Proofs Require Import CstFullS6Text CstFullS6Items CstFullS6Dtd CstFullS6Doc.
From RX.Proofs Require CstNsItems CstNsDoc CstNsMain CstFullMain CstFullS3 CstFullS4Main CstFullS5 OptionsMain.
Open Scope N_scope.

Notation finish_g := CstFullS3.finish_g.
Notation init_ctx := CstNsMain.init_ctx.
Notation vattrs := CstFullS4Main.vattrs.

Lemma flat_sem l : flat_map (CstNs.sem_item []) l = NT.sem_items [] l.
Proof. induction l as [|x r IH]; [reflexivity|]. cbn [flat_map NT.sem_items]. rewrite IH. reflexivity. Qed.

Lemma bdens_flat l : flat_map bden l = bdens l.
Proof. induction l as [|x r IH]; [reflexivity|]. cbn [flat_map CstFullTree.dens]. rewrite IH. reflexivity. Qed.

Lemma misc_nattrs (l : list uitem) : forallb (is_misc epieces) l = true -> NT.nattrs_items (dens0 l) = O.
Proof.
  induction l as [|i r IH]; intros H; [reflexivity|]. cbn [forallb] in H. apply andb_true_iff in H. destruct H as [H1 H2].
  cbn [CstFullTree.dens]. rewrite nattrs_items_app, (IH H2). destruct i; try discriminate; reflexivity.
Qed.

Section Sem6.
Variable d : S6.doc.
Hypothesis Hwf : S6.wf_doc d = true.
Notation main := (S6.x_main d).

Lemma prolog_misc : forallb (is_misc epieces) (S6.prolog_items d) = true.
Proof.
  destruct (s6_parts d Hwf) as [_ Hg _ _ _ _ _ _ _]. unfold S6.prolog_items. destruct (S6.x_dtd d) as [g|]; [|reflexivity].
  cbn [wf_opt] in Hg. destruct (dtd_part_parts6 g Hg) as (H0 & Hb & Ht). rewrite forallb_app, (subset_misc6_misc _ Ht), andb_true_r.
  clear - Hb. induction (S6.g_before g) as [|[i w] r IH]; [reflexivity|]. cbn [forallb fst snd map] in *.
  rewrite !andb_true_iff in Hb. destruct Hb as [[[Hi _] _] Hr]. rewrite Hi, (IH Hr). reflexivity.
Qed.

Lemma before_misc (l : list (uitem * bytes)) :
  forallb (fun p => is_misc epieces (fst p) && wf_item_s M0 (fst p) && wf_s (snd p)) l = true ->
  forallb (is_misc epieces) (map fst l) = true.
Proof.
  induction l as [|[i w] r IH]; intros H; [reflexivity|]. cbn [forallb fst snd map] in *.
  rewrite !andb_true_iff in H. destruct H as [[[Hi _] _] Hr]. rewrite Hi, (IH Hr). reflexivity.
Qed.

Lemma sem_all6 root' tr : S4.inline (S6.core d) = Some (cI d root', tr) -> S6.sem d = NT.sem_items [] (L6 d root').
Proof.
  intros Hi. destruct (s6_parts d Hwf) as [_ _ _ _ H3 _ _ H6 _].
  unfold S6.sem, S4.sem. rewrite Hi. cbn [S4.x_before S6.core map flat_map app].
  unfold L6, CstFull.sem, doc_items. cbn [cI d_before d_root d_after].
  rewrite !flat_sem, !bdens_flat, <- CstNsDoc.sem_items_app. f_equal.
  rewrite (dens_misc _ prolog_misc). f_equal.
  rewrite (bdens_app _ (_ :: _)). cbn [CstFullTree.dens]. f_equal; [|f_equal].
  - unfold B1. rewrite (regroup_items epieces). etransitivity; [|symmetry; apply dens_misc; apply (before_misc _ H3)].
    rewrite !map_map. reflexivity.
  - etransitivity; [|symmetry; apply dens_misc; apply (pairs_misc _ H6)]. rewrite !map_map. reflexivity.
Qed.

End Sem6.

(* ------------------------------------------------------------------------------------------ *)
(* the theorems                                                                               *)
(* ------------------------------------------------------------------------------------------ *)
Theorem parse_render_sem_full_s6 : forall (d : S6.doc) (opt : options),
  S6.wf_doc d = true ->
  (S6.has_dtd d = true -> allow_dtd opt = true) ->                (* a DOCTYPE needs the option *)
  N.of_nat (length (S6.sem d)) < nodes_limit opt ->               (* room for all nodes + the Root *)
  N.of_nat (length (S6.sem d)) < u32_max ->                        (* of the MEANING: entities add nodes *)
  N.of_nat (S6.nattrs d) < u32_max ->                              (* the attribute rows of the meaning *)
  S6.distinct_decls_le d (N.to_nat 65535) ->                       (* at most 65535 distinct declared bindings *)
  1 + N.of_nat (S6.ns_cost d) <= u32_max ->                        (* the namespace table fits *)
  exists doc, parse (S6.render d) opt = Ok doc /\ view (S6.render d) doc = Some (S6.sem d).
Proof.
  intros d opt Hwf Hdtd Hlim Hmax Hattr Hdist Hcost. set (text := S6.render d).
  destruct (s6_parts d Hwf) as [_ _ H1 _ H3 (name & ens & ws & body & Er) H5 H6 (root' & tr & Hroot & Hinl & Hl & Hp & Hns)].
  pose proof (sem_all6 d Hwf root' tr Hinl) as Esem.
  unfold S6.distinct_decls_le, S4.distinct_decls_le in Hdist. rewrite Hinl in Hdist.
  unfold S6.ns_cost, S4.ns_cost in Hcost. rewrite Hinl in Hcost.
  unfold CstFull.distinct_decls_le, doc_decls in Hdist. unfold CstFull.ns_cost in Hcost. cbn [d_root cI] in Hdist, Hcost.
  set (D := flat_map CstNs.item_decls (bden root')) in *.
  assert (HD : forall l, NoDup l -> incl l D -> N.of_nat (length l) <= 65535).
  { intros l N1 N2. pose proof (Hdist l N1 N2). lia. }
  assert (Hsz : NT.nsizes (L6 d root') = N.of_nat (length (S6.sem d))).
  { rewrite Esem, CstFullMain.sem_items_len. reflexivity. }
  assert (Hat : NT.nattrs_items (bden root') = S6.nattrs d).
  { unfold S6.nattrs. fold (vattrs (S6.sem d)). rewrite Esem, CstFullS4Main.vattrs_sems. unfold L6.
    destruct (regroup_wf_s epieces M0 _ _ H1 H3) as [Q1 _].
    destruct (pairs_dens_s epieces M0 _ Q1) as (_ & _ & X1 & _). destruct (pairs_dens_s epieces M0 _ H6) as (_ & _ & X2 & _).
    pose proof (misc_nattrs _ (prolog_misc d Hwf)) as X0.
    assert (G : forall x y z w : nat, x = 0%nat -> y = 0%nat -> w = 0%nat -> (x + (y + (z + w)) = z)%nat) by (intros; lia).
    rewrite !nattrs_items_app. symmetry. apply G; [exact X0|exact X1|exact X2]. }
  rewrite ns_oks_forallb in Hns.
  destruct (parse_document_ok_6 d Hwf D HD (allow_dtd opt) root' tr (init_ctx text opt) Hdtd Hroot Hl Hp Hns)
    as (cf & K & E & Habs & Hpp & F).
  { unfold D. rewrite items_decls_flat. apply incl_refl. }
  { apply (CstNsMain.init_ctx_CIn text D opt). }
  { reflexivity. } { reflexivity. } { reflexivity. }
  { unfold CstNsItems.node_room. cbn [CstNsMain.init_ctx c_doc c_opt d_nodes]. rewrite Hsz. unfold len_N. cbn [length]. lia. }
  { unfold CstNsItems.attr_room. cbn [CstNsMain.init_ctx c_doc d_attrs]. rewrite Hat. unfold len_N. cbn [length]. lia. }
  { unfold CstNsItems.ns_room. cbn [CstNsMain.init_ctx c_doc d_ns_tree]. unfold len_N. cbn [length]. rewrite ns_costs_sum. lia. }
  cbn [c_parent_id CstNsMain.init_ctx c_doc d_nodes] in F. change (len_N [_]) with 1 in F.
  destruct (finish_g text opt cf K (L6 d root') E Habs Hpp F) as (doc & P & V).
  { assert (Er' : exists ens' body', root' = @IElem bpieces name ens' ws body').
    { rewrite Er, inline_item_elem in Hroot. destruct (inline_entries (level (S6.decls d) E.max_level) false ens) as [[a' ta]|]; [|discriminate].
      cbn [E.obind fst] in Hroot. destruct body as [[cs0 w2]|].
      - destruct (inline_items (level (S6.decls d) E.max_level) false cs0) as [[b0 tb0]|]; [|discriminate]. cbn [E.obind] in Hroot. injection Hroot as <- _. eauto.
      - injection Hroot as <- _. eauto. }
    destruct Er' as (ens' & body' & ->). unfold L6. rewrite den_elem. cbn [app]. rewrite !app_assoc. eauto 10. }
  { rewrite Hsz. exact Hmax. }
  exists doc. split; [exact P|]. rewrite V, Esem. reflexivity.
Qed.
Print Assumptions parse_render_sem_full_s6.

(* documents with the same meaning -- however the content is distributed over entities (character data or markup),
   literal text, CDATA sections and references, whatever the prolog and whatever the layout -- have the same view *)
Theorem hoist_prolog_insensitive_full_s6 : forall (d1 d2 : S6.doc) opt,
  S6.wf_doc d1 = true -> S6.wf_doc d2 = true -> allow_dtd opt = true -> S6.sem d1 = S6.sem d2 ->
  N.of_nat (length (S6.sem d1)) < nodes_limit opt -> N.of_nat (length (S6.sem d1)) < u32_max ->
  N.of_nat (S6.nattrs d1) < u32_max ->
  S6.distinct_decls_le d1 (N.to_nat 65535) -> S6.distinct_decls_le d2 (N.to_nat 65535) ->
  1 + N.of_nat (S6.ns_cost d1) <= u32_max -> 1 + N.of_nat (S6.ns_cost d2) <= u32_max ->
  exists x1 x2, parse (S6.render d1) opt = Ok x1 /\ parse (S6.render d2) opt = Ok x2 /\
                view (S6.render d1) x1 = view (S6.render d2) x2.
Proof.
  intros d1 d2 opt W1 W2 Hdtd E L Mx At D1 D2 C1 C2.
  assert (At2 : S6.nattrs d2 = S6.nattrs d1) by (unfold S6.nattrs; rewrite E; reflexivity).
  destruct (parse_render_sem_full_s6 d1 opt W1 (fun _ => Hdtd) L Mx At D1 C1) as (x1 & P1 & V1).
  destruct (parse_render_sem_full_s6 d2 opt W2 (fun _ => Hdtd) ltac:(rewrite <- E; exact L) ltac:(rewrite <- E; exact Mx) ltac:(rewrite At2; exact At) D2 C2)
    as (x2 & P2 & V2).
  exists x1, x2. split; [exact P1|]. split; [exact P2|]. rewrite V1, V2, E. reflexivity.
Qed.
Print Assumptions hoist_prolog_insensitive_full_s6.

Theorem render_valid_utf8_s6 : forall d : S6.doc, S6.wf_doc d = true -> valid_utf8_b (S6.render d) = true.
Proof. intros d H. apply U8.valid_iff_Valid. apply text_valid6. exact H. Qed.
Print Assumptions render_valid_utf8_s6.

(* ------------------------------------------------------------------------------------------ *)
(* S4 inside S6                                                                               *)
(* ------------------------------------------------------------------------------------------ *)
Lemma wf_uentry_s_of m e : wf_uentry m e = true -> wf_uentry_s m e = true.
Proof.
  unfold wf_uentry, wf_uentry_s, wf_layout_s, is_quote, CstNs.wf_layout. rewrite !andb_true_iff.
  intros [[[[[L1 L2] L3] L4] Hv] Hq]. repeat split; try assumption; [apply ws1_s1|apply ws_s|apply ws_s]; assumption.
Qed.

Lemma wf_uitem_s_of m : forall i, wf_uitem m i = true -> wf_uitem_s m i = true.
Proof.
  intros i. induction i as [n a w|n a w cs w2 IH|r|bs|t s v] using fitem_ind; intros H.
  - cbn [wf_uitem wf_uitem_s] in *. rewrite !andb_true_iff in H |- *. destruct H as [[[Hn Ha] Hw] _].
    repeat split; try assumption; [|apply ws_s; exact Hw].
    clear - Ha. induction a as [|e a IHa]; [reflexivity|]. cbn [forallb] in *. apply andb_true_iff in Ha. destruct Ha as [He Ha].
    rewrite (wf_uentry_s_of _ _ He), (IHa Ha). reflexivity.
  - rewrite CstFullS4Text.wf_uitem_elem in H. rewrite wf_uitem_elem. rewrite !andb_true_iff in H |- *. destruct H as [[[Hn Ha] Hw] [[Hw2 Hna] Hcs]].
    repeat split; try assumption; [|apply ws_s; exact Hw|apply ws_s; exact Hw2|].
    + clear - Ha. induction a as [|e a IHa]; [reflexivity|]. cbn [forallb] in *. apply andb_true_iff in Ha. destruct Ha as [He Ha].
      rewrite (wf_uentry_s_of _ _ He), (IHa Ha). reflexivity.
    + clear - IH Hcs. induction IH as [|c r Hc _ IHr]; [reflexivity|]. cbn [CstFullS4Text.wf_uitems wf_uitems] in *.
      apply andb_true_iff in Hcs. destruct Hcs as [H1 H2]. rewrite (Hc H1), (IHr H2). reflexivity.
  - exact H.
  - exact H.
  - cbn [wf_uitem CstU.wf_item] in H. cbn [wf_uitem_s wf_misc_s]. unfold wf_pi_s. rewrite !andb_true_iff in H |- *.
    destruct H as [[[[[H1 H2] H3] H4] H5] H6]. repeat split; try assumption; [apply ws_s; exact H2|].
    destruct v as [|x v]; [reflexivity|]. apply andb_true_iff in H6. destruct H6 as [H6 H7]. rewrite H7, andb_true_r.
    unfold Cst.is_ws in H6. unfold Chars.xml_S.
    cbn [forallb] in H3. apply andb_true_iff in H3. destruct H3 as [Hx _]. unfold CstU.is_char in Hx. apply andb_true_iff in Hx. lia.
Qed.

Lemma wf_xdecl_s_of e : wf_xdecl e = true -> wf_xdecl_s e = true.
Proof.
  unfold wf_xdecl, wf_xdecl_s, is_quote, wf_xvalue, wf_xvalue_s. rewrite !andb_true_iff. intros [[[[[[H0 H1] Hn] H2] Hq] [Hv1 Hv2]] H3].
  repeat split; try assumption; try (apply ws_s; assumption); try (apply ws1_s1; assumption).
  destruct (x_value e) as [ps|its]; [exact Hv2|]. apply andb_true_iff in Hv2. destruct Hv2 as [A B0]. rewrite B0, andb_true_r.
  revert A. apply CstLex.forallb_imp. intros i. apply wf_uitem_s_of.
Qed.

Lemma misc_s_of (i : uitem) : is_misc epieces i = true -> wf_uitem false i = true -> wf_misc_s i = true.
Proof. intros Hm Hw. pose proof (wf_uitem_s_of false i Hw) as H. destruct i; try discriminate; exact H. Qed.

Lemma ge6_of_entities l : flat_map (fun s => match s with XEntity e => [e] | _ => [] end) (map XEntity l) = l.
Proof. induction l as [|e r IH]; [reflexivity|]. cbn [map flat_map app]. rewrite IH. reflexivity. Qed.
Lemma misc6_of_entities l : flat_map (fun s => match s with XOther (SMisc _ i) => [i] | _ => [] end) (map XEntity l) = @nil uitem.
Proof. induction l as [|e r IH]; [reflexivity|]. cbn [map flat_map app]. exact IH. Qed.
Lemma xentity_render l : flat_map r_sdecl6 (map XEntity l) = flat_map r_xdecl l.
Proof. induction l as [|e r IH]; [reflexivity|]. cbn [map flat_map r_sdecl6]. rewrite IH. reflexivity. Qed.

Lemma core_of_s4 d : S4.inline (S6.core (S6.of_s4 d)) = S4.inline d.
Proof.
  unfold S4.inline, S4.table, table_of4, S6.core, S6.decls, S6.of_s4, ge_decls6, subset_decls6.
  cbn [S6.x_dtd S6.x_main S6.g_dtd z_subset zu_decls S4.x_dtd S4.x_main t_decls]. rewrite ge6_of_entities. reflexivity.
Qed.

Theorem s4_in_s6 : forall d : S4.doc, S4.wf_doc d = true ->
  S6.wf_doc (S6.of_s4 d) = true /\ S6.render (S6.of_s4 d) = S4.render d /\ S6.sem (S6.of_s4 d) = S4.sem d /\
  S6.has_dtd (S6.of_s4 d) = true.
Proof.
  intros d Hwf. pose proof Hwf as Hwf0. unfold S4.wf_doc in Hwf. rewrite !andb_true_iff in Hwf.
  destruct Hwf as [[[[[[[[H0 Hb] Ht] M1] M2] M3] M4] M5] M6].
  split; [|split; [|split; [|reflexivity]]].
  - unfold S6.wf_doc. rewrite core_of_s4. unfold S6.of_s4. cbn [S6.x_decl S6.x_dtd S6.x_main wf_opt andb].
    rewrite M6, andb_true_r. rewrite !andb_true_iff. repeat split; try (apply ws_s; assumption).
    + unfold S6.wf_dtd_part. cbn [S6.g_ws0 S6.g_before S6.g_dtd]. rewrite !andb_true_iff. split; [split; [apply ws_s; exact H0|]|].
      * clear - Hb. induction (S4.x_before d) as [|[i w] r IH]; [reflexivity|]. cbn [forallb fst snd] in *.
        rewrite !andb_true_iff in Hb. destruct Hb as [[[Hi Hw] Hws] Hr]. rewrite (IH Hr), (misc_s_of i Hi Hw), (ws_s _ Hws). reflexivity.
      * unfold wf_xdtd in Ht. rewrite !andb_true_iff in Ht. destruct Ht as [[[[[T1 Tn] T2] Td] T3] T4].
        unfold wf_doctype6. cbn [z_ws1 z_name z_ws2 z_ext z_subset wf_opt]. rewrite !andb_true_iff.
        split; [split; [split; [split; [apply ws1_s1; exact T1|exact Tn]|apply ws_s; exact T2]|reflexivity]|].
        unfold wf_subset6. cbn [zu_decls zu_ws3 zu_ws4]. rewrite (ws_s _ T3), (ws_s _ T4), !andb_true_r.
        clear - Td. induction (t_decls (S4.x_dtd d)) as [|e r IH]; [reflexivity|]. cbn [forallb map] in *.
        apply andb_true_iff in Td. destruct Td as [He Hr]. rewrite (IH Hr), andb_true_r. cbn [wf_sdecl6]. apply wf_xdecl_s_of. exact He.
    + clear - M3. induction (d_before (S4.x_main d)) as [|[i w] r IH]; [reflexivity|]. cbn [forallb fst snd] in *.
      rewrite !andb_true_iff in M3. destruct M3 as [[[Hi Hw] Hws] Hr]. rewrite (IH Hr), (misc_s_of i Hi Hw), (ws_s _ Hws). reflexivity.
    + destruct (d_root (S4.x_main d)); try discriminate. apply wf_uitem_s_of. exact M4.
    + clear - M5. induction (d_after (S4.x_main d)) as [|[w i] r IH]; [reflexivity|]. cbn [forallb fst snd] in *.
      rewrite !andb_true_iff in M5. destruct M5 as [[[Hws Hi] Hw] Hr]. rewrite (IH Hr), (misc_s_of i Hi Hw), (ws_s _ Hws). reflexivity.
  - unfold S6.render, S4.render, S6.of_s4. cbn [S6.x_bom S6.x_decl S6.x_dtd S6.x_main r_opt app].
    unfold S6.r_dtd_part. cbn [S6.g_ws0 S6.g_before S6.g_dtd]. rewrite <- !app_assoc. f_equal. f_equal. f_equal.
    unfold r_doctype6, r_xdtd, r_subset6.
    cbn [z_ws1 z_name z_ws2 z_ext z_subset r_opt zu_decls zu_ws3 zu_ws4 app].
    rewrite xentity_render, <- !app_assoc. reflexivity.
  - unfold S6.sem. unfold S4.sem at 1. rewrite core_of_s4. unfold S4.sem.
    destruct (S4.inline d) as [[c tr]|]; [|discriminate].
    unfold S6.prolog_items, S6.of_s4, subset_misc6, subset_decls6. cbn [S6.x_dtd S6.g_before S6.g_dtd z_subset zu_decls S4.x_before S6.core map flat_map app].
    rewrite misc6_of_entities, app_nil_r, map_map. reflexivity.
Qed.
Print Assumptions s4_in_s6.
