(* Proofs/CstEntCBuild.v -- C07 with content entities: the builder in ANY context that can occur while an entity value is
   read (entity floor, loop detector and the level of the callback are arbitrary).  The shadow
   [sh c] of a context is c with floor 0 and a fresh loop detector; the invariants and the steps
   of Proofs/CstBuild.v are stated of shadows. *)
From Coq Require Import Ascii String.
From Coq Require Import List NArith PeanoNat Bool Lia ZifyBool ZifyN ZifyNat.
Import ListNotations.
From RX Require Import Generated.
From RX.Model Require Import Base CharClass Stream Tokenizer Doc Builder Parse.
From RX.Spec Require Cst CstText CstEnt Detector.
From RX.Spec Require Import Text.
From RX.Proofs Require Import Tactics CstLex CstBuild CstTree CstItems TextMachine TextMerge HoistProofs NoPanicUtf8 DetectorProofs.
From RX.Proofs Require Import CstTextSem CstTextLex CstTextBuild CstTextItems.
From RX.Proofs Require Import CstEntSem CstEntText CstEntAttr CstEntMeaning CstEntRun CstEntLex CstEntDtd CstEntBuild.
From RX.Proofs Require Import CstEntCFloor CstEntCAttr.
Open Scope N_scope.

(* ------------------------------------------------------------------------------------------ *)
(* shadows                                                                                    *)
(* ------------------------------------------------------------------------------------------ *)
Definition sh (c : context) : context := set_ld (set_entity_floor c 0) ld_init.
(* x with the floor and the detector of c *)
Definition back (c x : context) : context := set_ld (set_entity_floor x (c_entity_floor c)) (c_ld c).

Lemma back_sh c : back c (sh c) = c.
Proof. destruct c. reflexivity. Qed.

Lemma sh_back c x : c_entity_floor x = 0 -> c_ld x = ld_init -> sh (back c x) = x.
Proof. destruct x. cbn. intros -> ->. reflexivity. Qed.

Lemma sh_frame c : same_frame c (sh c).
Proof. repeat split. Qed.

Lemma back_frame c x : same_frame x (back c x).
Proof. repeat split. Qed.

Lemma sh_idem c : sh (sh c) = sh c.
Proof. reflexivity. Qed.

(* invariants and steps only look at the frame, the floor and the detector *)
Lemma CI_frame a b0 : same_frame a b0 -> c_entity_floor b0 = 0 -> CI a -> CI b0.
Proof.
  intros (H1 & H2 & H3 & H4 & H5 & H6 & H7 & H8 & H9) Hf [A1 A2 A3 A4 A5 A6 A7 A8 A9 A10].
  constructor; rewrite <- ?H9, <- ?H8, <- ?H7, <- ?H5, <- ?H4, <- ?H3, <- ?H2; assumption.
Qed.

Lemma Step0_frame a b0 b' K ext : same_frame b0 b' -> c_entity_floor b' = c_entity_floor b0 -> c_ld b' = c_ld b0 ->
  Step0 a b0 K ext -> Step0 a b' K ext.
Proof.
  intros (H1 & H2 & H3 & H4 & H5 & H6 & H7 & H8 & H9) Hf Hl [(K1 & K2 & K3 & K4 & K5 & K6 & K7) S2 S3 S4 S5].
  constructor; [|congruence|rewrite <- H9; assumption|rewrite <- H9; assumption|assumption].
  unfold Keep. rewrite <- H9, <- H1, <- H2, <- H6, Hf, Hl. repeat split; assumption.
Qed.

Lemma Step_frame a b0 b' K ext : same_frame b0 b' -> c_entity_floor b' = c_entity_floor b0 -> c_ld b' = c_ld b0 ->
  Step a b0 K ext -> Step a b' K ext.
Proof.
  intros F Hf Hl [S [P1 P2]]. split; [apply (Step0_frame _ _ _ _ _ F Hf Hl S)|].
  destruct F as (H1 & H2 & H3 & H4 & H5 & H6 & H7 & H8 & H9). split; congruence.
Qed.

Lemma Step0_frame_l a a' b0 K ext : same_frame a a' -> c_entity_floor a' = c_entity_floor a -> c_ld a' = c_ld a ->
  Step0 a b0 K ext -> Step0 a' b0 K ext.
Proof.
  intros (H1 & H2 & H3 & H4 & H5 & H6 & H7 & H8 & H9) Hf Hl [(K1 & K2 & K3 & K4 & K5 & K6 & K7) S2 S3 S4 S5].
  constructor; [|congruence|rewrite <- H9; assumption|rewrite <- H9; assumption|assumption].
  unfold Keep. rewrite <- H9, <- H1, <- H2, <- H6, Hf, Hl. repeat split; assumption.
Qed.

Lemma Step_frame_l a a' b0 K ext : same_frame a a' -> c_entity_floor a' = c_entity_floor a -> c_ld a' = c_ld a ->
  Step a b0 K ext -> Step a' b0 K ext.
Proof.
  intros F Hf Hl [S [P1 P2]]. split; [apply (Step0_frame_l _ _ _ _ _ F Hf Hl S)|].
  destruct F as (H1 & H2 & H3 & H4 & H5 & H6 & H7 & H8 & H9). split; congruence.
Qed.

Section Gen.
Variable text : bytes.

(* the callback at level lvl: Text re-enters the tokenizer with lvl levels left *)
Definition evl (lvl : nat) : Tokenizer.token -> context -> res context :=
  token_with text (process_text_with text (parse_content_lvl text lvl)).

Lemma evl_top : CstBuild.tok_ev text = evl entity_levels.
Proof. reflexivity. Qed.

Lemma parse_content_lvl_S lvl s c :
  parse_content_lvl text (S lvl) s c = parse_content text context (evl lvl) s c.
Proof. reflexivity. Qed.

Definition plain_tok (tk : Tokenizer.token) : Prop :=
  (forall t r, tk <> TText t r) /\ (forall r ql el pr lo v, tk <> TAttribute r ql el pr lo v).

(* a token that is neither Text nor Attribute: as on the shadow *)
Lemma evl_shadow lvl tk c : plain_tok tk ->
  (forall pr lo r, tk = TElementEnd (EClose pr lo) r ->
     c_entity_floor c < len_N (c_parent_prefixes c) /\ 0 < len_N (c_parent_prefixes c)) ->
  evl lvl tk c = rmap (back c) (CstBuild.tok_ev text tk (sh c)).
Proof.
  intros [Hnt Hna] Hcl. rewrite <- (back_sh c) at 1. unfold back, evl.
  fold (sld (c_ld c) (set_entity_floor (sh c) (c_entity_floor c))). rewrite sl_token by assumption.
  fold (fl (c_entity_floor c) (sh c)). rewrite fl_token; [|exact Hnt|].
  - rewrite (token_with_nontext text _ (process_text text) tk (sh c) Hnt).
    unfold CstBuild.tok_ev, Parse.token. destruct (token_with text (process_text text) tk (sh c)); reflexivity.
  - intros e r ->. destruct e as [|pr lo|]; try exact I. cbn [close_agrees].
    destruct (Hcl pr lo r eq_refl) as [H1 H2].
    change (c_parent_prefixes (sh c)) with (c_parent_prefixes c). change (c_entity_floor (sh c)) with 0. lia.
Qed.

(* ---- closing the open run ---- *)
Lemma merge_frame a b0 : same_frame a b0 ->
  match merge_text text a, merge_text text b0 with
  | Ok a', Ok b' => same_frame a' b' /\ c_ld b' = c_ld b0 /\ c_tag_name b' = c_tag_name b0 /\ c_entity_floor b' = c_entity_floor b0
  | Ok _, _ => False
  | _, _ => True
  end.
Proof.
  intros (H1 & H2 & H3 & H4 & H5 & H6 & H7 & H8 & H9). unfold merge_text. cbv zeta. rewrite <- H9, <- H7.
  destruct (rev (d_nodes (c_doc a))) as [|nd l]; [exact I|]. destruct (nd_kind nd); try exact I.
  destruct (upd_node _ _ _) as [nodes| | |]; cbn [bind]; try exact I.
  split; [|repeat split]. unfold same_frame. cbn. repeat split; assumption.
Qed.

Lemma reset_frame a b0 a' : same_frame a b0 -> reset_after_text text a = Ok a' ->
  exists b', reset_after_text text b0 = Ok b' /\ same_frame a' b' /\
             c_ld b' = c_ld b0 /\ c_tag_name b' = c_tag_name b0 /\ c_entity_floor b' = c_entity_floor b0.
Proof.
  intros F E. pose proof F as (H1 & H2 & H3 & H4 & H5 & H6 & H7 & H8 & H9).
  unfold reset_after_text in *. rewrite <- H7. destruct (c_after_text a) as [|x [|y r]].
  - injection E as <-. exists b0. split; [reflexivity|]. split; [exact F|]. repeat split.
  - injection E as <-. eexists. split; [reflexivity|]. split; [|repeat split]. unfold same_frame. cbn. repeat split; assumption.
  - pose proof (merge_frame a b0 F) as M. destruct (merge_text text a) as [a1| | |]; cbn [bind] in E; try discriminate.
    destruct (merge_text text b0) as [b1| | |]; try contradiction. destruct M as (M1 & M2 & M3 & M4).
    injection E as <-. cbn [bind]. eexists. split; [reflexivity|]. split; [|repeat split; assumption].
    destruct M1 as (N1 & N2 & N3 & N4 & N5 & N6 & N7 & N8 & N9). unfold same_frame. cbn. repeat split; assumption.
Qed.

(* c0: the context before the run; K: the Text node of the run if there is one *)
Lemma flush_run c0 c frs : CI c0 -> c_after_text c0 = [] -> c_entity_floor c0 = 0 -> c_ld c0 = ld_init -> Run c0 c frs ->
  exists cr K,
    reset_after_text text c = Ok cr /\ c_after_text cr = [] /\ Step c0 (sh cr) K [] /\ CI (sh cr) /\
    c_ld cr = c_ld c /\ c_tag_name cr = c_tag_name c /\ c_entity_floor cr = c_entity_floor c /\
    match frs with
    | [] => K = []
    | _ => exists st, K = [(Some (c_parent_id c0), KText st)] /\
                     storage_bytes text st = concat (map (cow_bytes text) frs)
    end.
Proof.
  intros I Hat Hf Hl HR. destruct frs as [|t0 rest]; cbn [Run] in HR.
  - pose proof HR as (H1 & H2 & H3 & H4 & H5 & H6 & H7 & H8 & H9).
    assert (Hatc : c_after_text c = []) by (rewrite <- H7; exact Hat).
    exists c, []. split; [unfold reset_after_text; rewrite Hatc; reflexivity|]. split; [exact Hatc|].
    assert (F : same_frame c0 (sh c)) by (eapply same_frame_trans; [exact HR|apply sh_frame]).
    split; [apply (Step_frame c0 c0 (sh c) [] [] F); [rewrite Hf; reflexivity|rewrite Hl; reflexivity|apply Step_refl]|].
    split; [apply (CI_frame c0 (sh c) F eq_refl I)|]. repeat split.
  - destruct HR as (nodes' & M & S).
    destruct (run_reset text c0 nodes' t0 rest I M) as (c2 & stg & E2 & S2 & I2 & A2 & T2 & B2 & _).
    destruct (reset_frame _ c c2 S E2) as (cr & Er & Fr & L1 & L2 & L3).
    assert (F : same_frame c2 (sh cr)) by (eapply same_frame_trans; [exact Fr|apply sh_frame]).
    destruct (s_keep _ _ _ _ (proj1 S2)) as (_ & _ & _ & K4 & K5 & _).
    exists cr, [(Some (c_parent_id c0), KText stg)]. split; [exact Er|].
    split; [destruct Fr as (_ & _ & _ & _ & _ & _ & F7 & _); rewrite <- F7; exact A2|].
    split; [apply (Step_frame c0 c2 (sh cr) _ _ F); [rewrite K4, Hf; reflexivity|rewrite K5, Hl; reflexivity|exact S2]|].
    split; [apply (CI_frame c2 (sh cr) F eq_refl I2)|].
    split; [exact L1|]. split; [exact L2|]. split; [exact L3|].
    exists stg. split; [reflexivity|exact B2].
Qed.

Lemma evl_reset lvl tok c c' : resets tok -> reset_after_text text c = Ok c' -> c_after_text c' = [] ->
  evl lvl tok c = evl lvl tok c'.
Proof.
  intros Ht E A. pose proof (reset_idem text c c' E A) as E'.
  destruct tok; try contradiction; unfold evl; cbn [token_with]; rewrite E, E'; reflexivity.
Qed.

(* ---- comments and processing instructions ---- *)
Lemma leaf_shadow lvl tk kind c :
  plain_tok tk -> (forall pr lo r, tk <> TElementEnd (EClose pr lo) r) ->
  (forall x, CI x -> room x -> exists x', CstBuild.tok_ev text tk x = Ok x' /\ Step x x' [(Some (c_parent_id x), kind)] [] /\ CI x' /\
                                          c_after_text x' = [] /\ c_tag_name x' = c_tag_name x) ->
  CI (sh c) -> room c ->
  exists c', evl lvl tk c = Ok c' /\ Step (sh c) (sh c') [(Some (c_parent_id c), kind)] [] /\ CI (sh c') /\
             c_after_text c' = [] /\ c_tag_name c' = c_tag_name c /\ c_ld c' = c_ld c /\ c_entity_floor c' = c_entity_floor c.
Proof.
  intros Hp Hnc Hx I R. destruct (Hx (sh c) I R) as (x' & E & S & I' & A & T).
  rewrite (evl_shadow lvl tk c Hp) by (intros pr lo r Et; exfalso; apply (Hnc pr lo r Et)).
  rewrite E. cbn [rmap]. exists (back c x').
  destruct (s_keep _ _ _ _ (proj1 S)) as (_ & _ & _ & K4 & K5 & _).
  rewrite (sh_back c x') by (rewrite ?K4, ?K5; reflexivity).
  split; [reflexivity|]. split; [exact S|]. split; [exact I'|]. repeat split; assumption.
Qed.

Lemma tok_comment_g lvl s r c : CI (sh c) -> room c ->
  exists c', evl lvl (TComment s r) c = Ok c' /\ Step (sh c) (sh c') [(Some (c_parent_id c), KComment s)] [] /\ CI (sh c') /\
             c_after_text c' = [] /\ c_tag_name c' = c_tag_name c /\ c_ld c' = c_ld c /\ c_entity_floor c' = c_entity_floor c.
Proof.
  apply leaf_shadow; [split; discriminate|discriminate|]. intros x. apply tok_comment.
Qed.

Lemma tok_pi_g lvl t v r c : CI (sh c) -> room c ->
  exists c', evl lvl (TPI t v r) c = Ok c' /\ Step (sh c) (sh c') [(Some (c_parent_id c), KPI t v)] [] /\ CI (sh c') /\
             c_after_text c' = [] /\ c_tag_name c' = c_tag_name c /\ c_ld c' = c_ld c /\ c_entity_floor c' = c_entity_floor c.
Proof.
  apply leaf_shadow; [split; discriminate|discriminate|]. intros x. apply tok_pi.
Qed.

(* ---- end tags ---- *)
Lemma close_tag_g lvl pfx loc r c opid ns lsl ar nss name pp px :
  CI (sh c) ->
  nth_error (absn (c_doc c)) (N.to_nat (c_parent_id c)) = Some (Some opid, KElement ns lsl ar nss) ->
  slice_bytes text lsl = name -> slice_bytes text loc = name -> slice_bytes text pfx = [] ->
  c_parent_prefixes c = pp ++ [px] -> pp <> [] -> slice_bytes text px = [] ->
  tn_set c -> c_entity_floor c <= len_N pp ->
  opid < len_N (d_nodes (c_doc c)) ->
  (exists par k, nth_error (absn (c_doc c)) (N.to_nat opid) = Some (par, k) /\ par_kind_ok k) ->
  exists c', evl lvl (TElementEnd (EClose pfx loc) r) c = Ok c' /\
    Step0 (sh c) (sh c') [] [] /\ CI (sh c') /\ c_parent_id c' = opid /\ c_parent_prefixes c' = pp /\
    c_after_text c' = [] /\ c_tag_name c' = c_tag_name c /\ c_ld c' = c_ld c /\ c_entity_floor c' = c_entity_floor c.
Proof.
  intros I Erow Hl Hloc Hpfx Hpp Hppne Hpx Htn Hfl Hop Hopar.
  destruct (close_tag_ok text pfx loc r (sh c) opid ns lsl ar nss name pp px I Erow Hl Hloc Hpfx Hpp Hppne Hpx Htn Hop Hopar)
    as (x' & E & S & I' & P1 & P2 & A & T).
  rewrite (evl_shadow lvl _ c); [|split; discriminate|].
  2:{ intros pr lo r0 _. rewrite Hpp, len_N_app. change (len_N [px]) with 1. lia. }
  rewrite E. cbn [rmap]. exists (back c x').
  destruct (s_keep _ _ _ _ S) as (_ & _ & _ & K4 & K5 & _).
  rewrite (sh_back c x') by (rewrite ?K4, ?K5; reflexivity).
  split; [reflexivity|]. split; [exact S|]. split; [exact I'|]. repeat split; assumption.
Qed.

End Gen.

(* ------------------------------------------------------------------------------------------ *)
(* attribute values and start tags at any depth                                               *)
(* ------------------------------------------------------------------------------------------ *)
Lemma ep_ok_of_wf_g quote m p : E.wf_epiece quote false false m p = true -> ep_ok m p.
Proof.
  destruct p as [[bs|hex ds|e|bs]|n]; cbn [E.wf_epiece ep_ok]; intros H; try discriminate.
  - rewrite !andb_true_iff in H. destruct H as [[_ H] H']. split; [apply (vpiece_quote_60 quote); exact H|].
    intros ->. exact H'.
  - rewrite !andb_true_iff in H. destruct H as [[_ H] H']. split; [exact H|]. intros ->. exact H'.
  - split; [reflexivity|]. intros ->. apply andb_true_iff in H. apply H.
  - apply andb_true_iff in H. destruct H as [H1 H2]. split; [exact H1|]. apply negb_true_iff in H2. exact H2.
Qed.

Lemma wf_epiece_drop quote m p : E.wf_epiece quote false false m p = true -> E.wf_epiece quote false false false p = true.
Proof.
  destruct p as [[bs|hex ds|e|bs]|n]; cbn [E.wf_epiece]; intros H; try discriminate; try exact H.
  - rewrite !andb_true_iff in *. destruct H as [[A B0] _]. auto.
  - rewrite !andb_true_iff in *. destruct H as [[A B0] _]. auto.
  - rewrite !andb_true_iff in *. destruct H as [[A B0] _]. auto.
Qed.

Lemma inline_noamp_tr tb fa ie : forall ps q tr, existsb (fun x => x =? 38) (E.r_epieces ps) = false ->
  E.inline_ps tb fa ie ps = Some (q, tr) -> tr = [].
Proof.
  induction ps as [|p ps IH]; intros q tr Hn Hin.
  - injection Hin as _ <-. reflexivity.
  - rewrite r_epieces_cons, existsb_app in Hn. apply orb_false_iff in Hn. destruct Hn as [Hn1 Hn2].
    cbn [E.inline_ps] in Hin. destruct p as [p|n]; [|cbn in Hn1; discriminate].
    destruct (fa && ie && E.is_lt_ref p); [discriminate|].
    destruct (E.inline_ps tb fa ie ps) as [[q' tr']|] eqn:Er; [|discriminate]. cbn [E.obind fst snd] in Hin.
    injection Hin as _ <-. apply (IH _ _ Hn2 eq_refl).
Qed.

Lemma needs_norm_noamp V : needs_norm V = false -> existsb (fun x => x =? 38) V = false.
Proof.
  unfold needs_norm. induction V as [|x l IHl]; [reflexivity|]. cbn [existsb]. intros H.
  apply orb_false_iff in H. destruct H as [H1 H2]. rewrite IHl by exact H2. lia.
Qed.

Section GBuild.
Variable text : bytes.
Hypothesis Hascii : Forall (fun x => x < 128) text.
Variable decls : list E.edecl.
Variable es : list entity.
Hypothesis Henv : Forall2 (ent_ok text) decls es.
Hypothesis Hdecls : Forall decl_ok decls.
Hypothesis Hadjs : Forall decl_adj decls.

Notation W := (CstLex.W text).

Lemma normalize_attribute_g vs ps quote more c k q tr ld' m :
  W vs (E.r_epieces ps ++ [quote] ++ more) -> quote = 39 \/ quote = 34 ->
  forallb (E.wf_epiece quote false false m) ps = true -> E.no_adjacent_elit ps = true ->
  m = (0 <? ld_depth (c_ld c)) ->
  E.inline_ps (E.level decls k) true m ps = Some (q, tr) -> E.crlf_split_ok q = true ->
  ld_run (c_ld c) tr = Some ld' -> c_entities c = es ->
  normalize_attribute text (sl vs (vs + blen (E.r_epieces ps))) c =
  Ok (if needs_norm (E.r_epieces ps) then Owned (T.value_sem q)
      else Borrowed (SIn (sl vs (vs + blen (E.r_epieces ps)))), set_ld c ld') /\
  ld_depth ld' = ld_depth (c_ld c).
Proof.
  intros HW Hq Hwf Hadj Hm Hin Hs Hld Hes.
  assert (Hok : Forall (ep_ok m) ps).
  { apply Forall_forall. intros p Hp. rewrite forallb_forall in Hwf. apply (ep_ok_of_wf_g quote m p (Hwf p Hp)). }
  unfold normalize_attribute. cbv zeta. rewrite (W_slice _ _ _ _ HW).
  fold (needs_norm (E.r_epieces ps)). destruct (needs_norm (E.r_epieces ps)) eqn:E.
  2:{ rewrite (inline_noamp_tr _ _ _ _ _ _ (needs_norm_noamp _ E) Hin) in Hld. cbn [ld_run] in Hld. injection Hld as <-.
      rewrite set_ld_same. split; reflexivity. }
  destruct (inline_AExp decls Hdecls k m ps q tr Hin Hok tb_new eq_refl) as (t' & HA & Hp').
  unfold entity_levels. rewrite norm_attr_lvl_unfold. cbn [sl sl_start sl_end].
  rewrite (stream_from_substr_W text vs (E.r_epieces ps) _ HW). cbn [bind]. rewrite Hes.
  pose proof (W_le _ _ _ (W_app _ _ _ _ HW)) as Hle.
  destruct (AL' text Hascii decls es Henv Hdecls Hadjs m ps tb_new q tr t' HA
              (vs + blen (E.r_epieces ps)) vs ([quote] ++ more) (c_ld c) ld' (S (N.to_nat ld_max_depth))
              (S (length (s_rest (sst (vs + blen (E.r_epieces ps)) vs (E.r_epieces ps ++ [quote] ++ more))))))
    as [Eloop Hd]; try assumption; try reflexivity.
  { change (N.of_nat (S (N.to_nat ld_max_depth))) with 11. lia. }
  { cbn [sst s_rest]. rewrite app_length. lia. }
  rewrite Eloop. cbn [bind].
  destruct (AExp_sem decls Hdecls Hadjs m ps tb_new q tr t' HA Hok Hadj eq_refl Hs) as [Epush _].
  pose proof (attr_chunks_normalise (chunks q) t' Epush) as Hn.
  unfold tb_finish. rewrite Hn.
  assert (Hval : valid_utf8_b (norm_attr_chunks (chunks q)) = true).
  { apply valid_iff_Valid. apply Valid_norm_attr. apply (AExp_chunks decls Hdecls _ _ _ _ _ _ HA Hok). }
  rewrite Hval. cbn [bind]. split; [reflexivity|exact Hd].
Qed.

Lemma ewf_attr_parts_g m a : E.wf_attr m a = true ->
  wf_rattr (raw a) /\ forallb (E.wf_epiece (E.a_quote a) false false m) (E.a_value a) = true /\
  E.no_adjacent_elit (E.a_value a) = true /\ (E.a_quote a = 39 \/ E.a_quote a = 34).
Proof.
  unfold E.wf_attr, E.wf_epieces. rewrite !andb_true_iff. intros (((((H1 & H2) & H3) & H4) & H5) & (H6 & H7)).
  assert (Hq : E.a_quote a = 39 \/ E.a_quote a = 34) by lia.
  split; [|auto]. unfold wf_rattr, raw. cbn [ra_ws ra_name ra_ws1 ra_ws2 ra_quote ra_value].
  destruct (ws1_parts _ H1) as [A B0]. repeat split; try assumption. apply epieces_vbytes; [assumption|].
  revert H6. apply forallb_imp. intros p. apply wf_epiece_drop.
Qed.

Lemma tok_eattr_g lvl q a more c k qv tr ld' m : W q (E.r_attr a ++ more) -> E.wf_attr m a = true -> enot_xmlns a = true ->
  m = (0 <? ld_depth (c_ld c)) ->
  E.inline_ps (E.level decls k) true m (E.a_value a) = Some (qv, tr) -> E.crlf_split_ok qv = true ->
  ld_run (c_ld c) tr = Some ld' -> c_entities c = es ->
  evl text lvl (rattr_tok q (raw a)) c = Ok (set_cur_attrs (set_ld c ld') (c_cur_attrs c ++ [ta_e q a qv])) /\
  ld_depth ld' = ld_depth (c_ld c).
Proof.
  intros HW Hwf Hx Hm Hin Hs Hld Hes. destruct (eattr_slices text _ _ _ HW) as (S1 & S2 & HWv). cbv zeta in S1, S2, HWv.
  destruct (ewf_attr_parts_g _ _ Hwf) as (_ & Hv & Hadj & Hq).
  unfold evl, rattr_tok, ta_e, vlen. cbv zeta. cbn [token_with ra_ws ra_name ra_ws1 ra_ws2 ra_value raw].
  unfold process_attribute.
  destruct (normalize_attribute_g _ _ _ _ c k qv tr ld' m HWv Hq Hv Hadj Hm Hin Hs Hld Hes) as [En Hd].
  rewrite En. cbn [bind].
  rewrite slice_empty, S1.
  change (bytes_eqb [] xmlns_str) with false. cbv iota.
  rewrite bytes_eqb_neq.
  2:{ unfold enot_xmlns, T.is_xmlns in Hx.
      destruct (list_eq_dec N.eq_dec (E.a_name a) [120; 109; 108; 110; 115]); [discriminate|]. exact n. }
  rewrite ?andb_false_r. split; [reflexivity|exact Hd].
Qed.

Lemma eattrs_evs_g lvl more k m : forall attrs attrs' tr q c ld',
  W q (flat_map E.r_attr attrs ++ more) -> forallb (E.wf_attr m) attrs = true ->
  forallb enot_xmlns attrs = true -> m = (0 <? ld_depth (c_ld c)) ->
  E.inline_attrs (E.level decls k) m attrs = Some (attrs', tr) ->
  forallb (fun a => E.crlf_split_ok (T.a_value a)) attrs' = true ->
  ld_run (c_ld c) tr = Some ld' -> c_entities c = es ->
  evs context (evl text lvl) (rattr_toks q (map raw attrs)) c =
    Ok (set_cur_attrs (set_ld c ld') (c_cur_attrs c ++ tas_e q attrs attrs')) /\
  ld_depth ld' = ld_depth (c_ld c) /\ length attrs' = length attrs /\ map T.a_name attrs' = map E.a_name attrs.
Proof.
  induction attrs as [|a attrs IH]; intros attrs' tr q c ld' HW Hwf Hx Hm Hin Hs Hld Hes.
  - cbn [E.inline_attrs] in Hin. injection Hin as <- <-. cbn [map rattr_toks evs tas_e]. rewrite app_nil_r.
    cbn [ld_run] in Hld. injection Hld as <-. split; [destruct c; reflexivity|auto].
  - cbn [forallb] in Hwf, Hx. apply andb_true_iff in Hwf. destruct Hwf as [Hw1 Hw2].
    apply andb_true_iff in Hx. destruct Hx as [Hx1 Hx2].
    cbn [E.inline_attrs] in Hin. unfold E.inline_attr in Hin.
    destruct (E.inline_ps (E.level decls k) true m (E.a_value a)) as [[qv tra]|] eqn:Ea; [|discriminate].
    cbn [E.obind fst snd] in Hin.
    destruct (E.inline_attrs (E.level decls k) m attrs) as [[ar trr]|] eqn:Er; [|discriminate].
    cbn [E.obind fst snd] in Hin. injection Hin as <- <-.
    cbn [forallb T.a_value] in Hs. apply andb_true_iff in Hs. destruct Hs as [Hs1 Hs2].
    rewrite ld_run_app in Hld. destruct (ld_run (c_ld c) tra) as [ld1|] eqn:El1; [|discriminate].
    cbn [flat_map] in HW. rewrite <- app_assoc in HW.
    cbn [map rattr_toks evs tas_e T.a_value].
    destruct (tok_eattr_g lvl q a _ c k qv tra ld1 m HW Hw1 Hx1 Hm Ea Hs1 El1 Hes) as [E1 Hd1].
    rewrite E1. cbn [bind].
    assert (HW' : W (q + blen (r_rattr (raw a))) (flat_map E.r_attr attrs ++ more)).
    { rewrite raw_render. apply (W_app _ _ _ _ HW). }
    destruct (IH ar trr (q + blen (r_rattr (raw a))) (set_cur_attrs (set_ld c ld1) (c_cur_attrs c ++ [ta_e q a qv])) ld'
                HW' Hw2 Hx2 ltac:(cbn [c_ld set_cur_attrs set_ld]; rewrite Hd1; exact Hm) eq_refl Hs2 Hld Hes)
      as (E2 & E3 & E4 & E5).
    rewrite E2. cbn [c_cur_attrs set_cur_attrs set_ld c_ld] in *. rewrite <- app_assoc. rewrite raw_render.
    split; [reflexivity|]. split; [congruence|]. cbn [length map T.a_name]. split; congruence.
Qed.

Lemma tas_e_facts_g more k m : forall attrs attrs' tr q,
  W q (flat_map E.r_attr attrs ++ more) -> forallb (E.wf_attr m) attrs = true ->
  E.inline_attrs (E.level decls k) m attrs = Some (attrs', tr) ->
  map (fun t => slice_bytes text (ta_local t)) (tas_e q attrs attrs') = map E.a_name attrs /\
  map (fun t => storage_bytes text (ta_value t)) (tas_e q attrs attrs') = map (fun a => T.value_sem (T.a_value a)) attrs' /\
  Forall (fun t => slice_bytes text (ta_prefix t) = []) (tas_e q attrs attrs') /\
  len_N (tas_e q attrs attrs') = len_N attrs.
Proof.
  induction attrs as [|a attrs IH]; intros attrs' tr q HW Hwf Hin.
  - cbn [E.inline_attrs] in Hin. injection Hin as <- <-. repeat split; constructor.
  - cbn [forallb] in Hwf. apply andb_true_iff in Hwf. destruct Hwf as [Hw1 Hw2].
    cbn [E.inline_attrs] in Hin. unfold E.inline_attr in Hin.
    destruct (E.inline_ps (E.level decls k) true m (E.a_value a)) as [[qv tra]|] eqn:Ea; [|discriminate].
    cbn [E.obind fst snd] in Hin.
    destruct (E.inline_attrs (E.level decls k) m attrs) as [[ar trr]|] eqn:Er; [|discriminate].
    cbn [E.obind fst snd] in Hin. injection Hin as <- <-.
    cbn [flat_map] in HW. rewrite <- app_assoc in HW.
    destruct (eattr_slices text _ _ _ HW) as (S1 & S2 & _). cbv zeta in S1, S2.
    destruct (IH ar trr _ (W_app _ _ _ _ HW) Hw2 eq_refl) as (I1 & I2 & I3 & I4).
    cbn [tas_e map T.a_value]. unfold ta_e at 1 2 3. cbv zeta. cbn [ta_local ta_value ta_prefix].
    rewrite S1, I1, I2. split; [reflexivity|]. split; [|split; [constructor; [apply slice_empty|exact I3]|]].
    + f_equal. destruct (needs_norm (E.r_epieces (E.a_value a))) eqn:En; cbn [storage_bytes str_bytes]; [reflexivity|].
      rewrite S2.
      destruct (ewf_attr_parts_g _ _ Hw1) as (_ & Hv & _).
      pose proof (needs_norm_noamp _ En) as E38.
      unfold T.value_sem. fold (chunks qv). rewrite (inline_plain _ _ _ _ _ _ E38 ltac:(
        clear - Hv; induction (E.a_value a) as [|p l IHl]; [reflexivity|]; cbn [forallb] in *; apply andb_true_iff in Hv;
        destruct Hv as [Hp Hl]; rewrite IHl by exact Hl; destruct p as [[| | |bs]|]; try reflexivity; discriminate) Ea).
      symmetry. apply norm_attr_lits_plain.
      revert En. unfold needs_norm. generalize (E.r_epieces (E.a_value a)) as l. induction l as [|x l IHl]; [reflexivity|]. cbn [existsb]. intros H.
      apply orb_false_iff in H. destruct H as [H1 H2]. rewrite IHl by exact H2. lia.
    + unfold len_N in *. cbn [length]. lia.
Qed.

Lemma start_tag_g lvl p name attrs attrs' tr k ws_end empty post c ld' m :
  W p ([60] ++ name ++ flat_map E.r_attr attrs ++ ws_end ++ tag_tail empty ++ post) ->
  name <> [] -> forallb (E.wf_attr m) attrs = true -> forallb enot_xmlns attrs = true ->
  Cst.names_distinct (map E.a_name attrs) = true -> m = (0 <? ld_depth (c_ld c)) ->
  E.inline_attrs (E.level decls k) m attrs = Some (attrs', tr) ->
  forallb (fun a => E.crlf_split_ok (T.a_value a)) attrs' = true -> ld_run (c_ld c) tr = Some ld' ->
  CI (sh c) -> c_entities c = es -> room c -> len_N (d_attrs (c_doc c)) + len_N attrs < u32_max ->
  let q' := p + 1 + blen name + blen (flat_map E.r_attr attrs) + blen ws_end in
  let id := len_N (d_nodes (c_doc c)) in
  exists c' ar,
    (let! c1 := evs context (evl text lvl) (rstart_toks p name (map raw attrs)) c in evl text lvl (end_tok q' empty) c1) = Ok c' /\
    Step0 (sh c) (sh c') [(Some (c_parent_id c), KElement None (sl (p + 1) (p + 1 + blen name)) ar (1, 1))]
          (map ad_of (tas_e (p + 1 + blen name) attrs attrs')) /\
    (forall m0, km text (d_attrs (c_doc c')) (Some (c_parent_id c), KElement None (sl (p + 1) (p + 1 + blen name)) ar (1, 1))
       (c_parent_id c, Cst.VElem name (T.eattrs attrs') m0)) /\
    CI (sh c') /\ c_after_text c' = [] /\ tn_set c' /\
    (c_ld c' = ld' /\ ld_depth ld' = ld_depth (c_ld c) /\ c_entity_floor c' = c_entity_floor c) /\
    if empty
    then c_parent_id c' = c_parent_id c /\ c_parent_prefixes c' = c_parent_prefixes c
    else c_parent_id c' = id /\ c_parent_prefixes c' = c_parent_prefixes c ++ [sl (p + 1) (p + 1)] /\
         c_awaiting c' = [].
Proof.
  intros HW Hne Hwf Hx Hnd Hm Hin Hcr Hrun I Hes R Hlim q' id.
  pose proof (W_app _ _ _ _ HW) as HW1. change (blen [60]) with 1 in HW1.
  pose proof (W_app _ _ _ _ HW1) as HW2.
  destruct (tas_e_facts_g _ k m _ _ _ _ HW2 Hwf Hin) as (Tn & Tv & Tp & Tl).
  unfold rstart_toks. cbn [evs].
  (* ElementStart *)
  unfold evl at 1. cbn [token_with].
  rewrite (reset_after_text_ok text) by apply (ci_at _ I). cbn [bind].
  rewrite slice_empty. change (bytes_eqb [] xmlns_str) with false. cbv iota. cbn [bind].
  fold (evl text lvl). fold (tn_of p name).
  (* attributes *)
  destruct (eattrs_evs_g lvl _ k m attrs attrs' tr (p + 1 + blen name)
              (set_tag_name (set_after_text c []) (tn_of p name)) ld' HW2 Hwf Hx Hm Hin Hcr Hrun Hes) as (Eevs & Eld & Elen & Enames).
  rewrite Eevs. cbn [bind].
  cbn [c_cur_attrs set_tag_name set_after_text]. rewrite (ci_cur _ I : c_cur_attrs c = []). cbn [app].
  (* ElementEnd *)
  unfold evl, end_tok. cbn [token_with].
  rewrite (reset_after_text_ok text) by (cbn; lia). cbn [bind].
  unfold process_element.
  cbn [c_tag_name set_after_text set_cur_attrs set_tag_name set_ld tn_name tn_of].
  unfold slice_len at 1. cbn [sl sl_start sl_end].
  replace (p + 1 + blen name - (p + 1) =? 0) with false
    by (destruct name; [congruence|rewrite blen_cons; lia]).
  rewrite (resolve_namespaces_ok text); [|apply (ci_ns _ I)|apply (ci_tree _ I)|apply (ci_pid _ I)|apply (ci_par _ I)].
  cbn [bind].
  rewrite (resolve_attributes_ok text).
  2:{ cbn. exact Tp. }
  2:{ cbn. rewrite Tn. apply names_distinct_NoDup. exact Hnd. }
  2:{ cbn. rewrite Tl. exact Hlim. }
  cbn [bind].
  cbn [c_cur_attrs c_doc set_ns_start_idx set_after_text set_cur_attrs set_tag_name set_doc set_ld c_tag_name tn_of
       tn_prefix tn_prefix_pos tn_name tn_pos].
  rewrite (get_ns_ok text); [|cbn; apply (ci_tree _ I)|apply slice_empty].
  set (A := d_attrs (c_doc c)). set (TT := tas_e (p + 1 + blen name) attrs attrs').
  set (ar := attr_range A TT).
  set (kind := KElement None (sl (p + 1) (p + 1 + blen name)) ar (1, 1)).
  assert (Hkm : forall m0 ext, km text ((A ++ map ad_of TT) ++ ext) (Some (c_parent_id c), kind)
                 (c_parent_id c, Cst.VElem name (T.eattrs attrs') m0)).
  { intros m0 ext. apply km_ext. split; [reflexivity|]. cbn [snd kind].
    split; [reflexivity|]. split; [apply (W_slice _ _ _ _ HW1)|]. split.
    - unfold ar. rewrite attrs_list_new. unfold T.eattrs. rewrite <- Enames in Tn.
      apply combine_names_vals; assumption.
    - unfold ar, attr_range. rewrite len_N_app, len_N_map. destruct TT; cbn [fst snd]; lia. }
  destruct empty; cbv iota; cbn [bind]; fold kind;
  (match goal with |- context [append_node kind ?r ?cc] =>
    destruct (append_node_ok kind r cc) as (nodes' & E & M & Ln);
      [apply (ci_pid _ I)|apply (ci_aw _ I)|exact R|]; rewrite E; clear E end);
  cbn [bind]; cbn in M, Ln.
  - eexists. exists ar. split; [reflexivity|].
    match goal with |- Step0 (sh c) ?c' _ _ /\ _ => assert (S : Step0 (sh c) c' [(Some (c_parent_id c), kind)] (map ad_of TT)) end.
    { constructor.
      - repeat split; cbn; try reflexivity. rewrite (ci_ns _ I : c_ns_start_idx c = 1). apply (ci_tree _ I).
      - cbn. symmetry. apply (ci_cur _ I).
      - exact M.
      - reflexivity.
      - clear. induction TT; constructor; [reflexivity|assumption]. }
    split; [exact S|]. split.
    { intros m0. cbn. rewrite <- (app_nil_r (A ++ map ad_of TT)). apply Hkm. }
    split.
    { eapply CI_intro; [exact I|exact S| | | | |].
      - cbn. apply (ci_pp _ I).
      - cbn. rewrite Ln. pose proof (ci_pid _ I : c_parent_id c < len_N (d_nodes (c_doc c))). lia.
      - cbn. destruct (ci_par _ I : exists par k, nth_error (absn (c_doc c)) (N.to_nat (c_parent_id c)) = Some (par, k) /\ par_kind_ok k) as (par & k0 & Ep & Hk). exists par, k0. split; [|exact Hk].
        unfold absn. cbn. rewrite M. rewrite nth_error_app1; [exact Ep|].
        pose proof (ci_pid _ I : c_parent_id c < len_N (d_nodes (c_doc c))) as Hp. rewrite <- absn_len in Hp. unfold len_N, absn in Hp. lia.
      - cbn. constructor; [|constructor]. rewrite Ln. lia.
      - cbn. lia. }
    split; [reflexivity|]. split.
    { unfold tn_set. cbn. unfold slice_len. cbn. destruct name; [congruence|rewrite blen_cons; lia]. }
    split; [split; [reflexivity|split; [exact Eld|reflexivity]]|]. split; reflexivity.
  - eexists. exists ar. split; [reflexivity|].
    match goal with |- Step0 (sh c) ?c' _ _ /\ _ => assert (S : Step0 (sh c) c' [(Some (c_parent_id c), kind)] (map ad_of TT)) end.
    { constructor.
      - repeat split; cbn; try reflexivity. rewrite (ci_ns _ I : c_ns_start_idx c = 1). apply (ci_tree _ I).
      - cbn. symmetry. apply (ci_cur _ I).
      - exact M.
      - reflexivity.
      - clear. induction TT; constructor; [reflexivity|assumption]. }
    split; [exact S|]. split.
    { intros m0. cbn. rewrite <- (app_nil_r (A ++ map ad_of TT)). apply Hkm. }
    split.
    { eapply CI_intro; [exact I|exact S| | | | |].
      - cbn. destruct (c_parent_prefixes c); discriminate.
      - cbn. rewrite Ln. lia.
      - cbn. exists (Some (c_parent_id c)), kind. split; [|reflexivity].
        unfold absn. cbn. rewrite M.
        replace (N.to_nat (len_N (d_nodes (c_doc c)))) with (length (map abs_nd (d_nodes (c_doc c))))
          by (unfold len_N; rewrite map_length; lia).
        rewrite nth_error_app2 by lia. rewrite Nat.sub_diag. reflexivity.
      - cbn. constructor.
      - cbn. lia. }
    split; [reflexivity|]. split.
    { unfold tn_set. cbn. unfold slice_len. cbn. destruct name; [congruence|rewrite blen_cons; lia]. }
    split; [split; [reflexivity|split; [exact Eld|reflexivity]]|]. repeat split.
Qed.

End GBuild.

Print Assumptions evl_shadow.
Print Assumptions flush_run.
Print Assumptions close_tag_g.
Print Assumptions start_tag_g.
