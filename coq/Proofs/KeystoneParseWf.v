(* Proofs/KeystoneParseWf.v -- a parsed document is a well-formed document tree:
   exactly one element and no text under the root, no adjacent text nodes. *)
From Coq Require Import List PeanoNat NArith Bool Lia ZifyBool ZifyN ZifyNat.
From RX Require Import Generated.
From RX.Model Require Import Base CharClass Stream Tokenizer Doc Builder Parse.
From RX.Spec Require Import Tree.
From RX.Proofs Require Import Tactics KeystoneEnc KeystoneBuilder KeystoneWf KeystoneParse KeystoneProto.
Import ListNotations.
Open Scope N_scope.

Lemma Core_fields e at_ c c' :
  Core e at_ c -> same_tree c c' -> c_after_text c' = c_after_text c -> Core e at_ c'.
Proof.
  intros [k [cs [outer H]]] H1 H2. exists k, cs, outer.
  eapply Inv2_same; [exact H|exact H1|]. intros _. congruence.
Qed.

Section Tokens.
Variable text : bytes.
Variable ptext : slice -> range -> context -> res context.

Notation ev := (token_with text ptext).

Lemma Tk_pi e at_ t v r c c' :
  Core e at_ c -> ev (TPI t v r) c = Ok c' -> Core e true c' /\ lp c' = lp c /\ fl c' = fl c.
Proof.
  intros HC H. cbn [token_with] in H. mbind H c1 H1. mbind H ic H2. destruct ic as [id c2].
  injection H as <-. destruct (K_reset text _ _ _ _ HC H1) as [G1 [G2 [G3 _]]].
  destruct (K_leaf _ _ _ _ _ _ _ G1 H2) as [J1 [J2 J3]]; try reflexivity; try discriminate.
  split; [exact J1|split; congruence].
Qed.

Lemma Tk_comment e at_ t r c c' :
  Core e at_ c -> ev (TComment t r) c = Ok c' -> Core e true c' /\ lp c' = lp c /\ fl c' = fl c.
Proof.
  intros HC H. cbn [token_with] in H. mbind H c1 H1. mbind H ic H2. destruct ic as [id c2].
  injection H as <-. destruct (K_reset text _ _ _ _ HC H1) as [G1 [G2 [G3 _]]].
  destruct (K_leaf _ _ _ _ _ _ _ G1 H2) as [J1 [J2 J3]]; try reflexivity; try discriminate.
  split; [exact J1|split; congruence].
Qed.

Lemma Tk_entity e at_ n v c c' :
  Core e at_ c -> ev (TEntityDecl n v) c = Ok c' -> Core e at_ c' /\ lp c' = lp c /\ fl c' = fl c.
Proof.
  intros HC H. cbn [token_with] in H. injection H as <-.
  split; [|split; reflexivity]. eapply Core_ctx; [exact HC|]. apply same_ctx_nodes; reflexivity.
Qed.

Lemma Tk_start e at_ p l st c c' :
  Core e at_ c -> ev (TElementStart p l st) c = Ok c' ->
  Core e false c' /\ lp c' = lp c /\ fl c' = fl c.
Proof.
  intros HC H. cbn [token_with] in H. mbind H c1 H1. mstep H; [mstep H|]. injection H as <-.
  destruct (K_reset text _ _ _ _ HC H1) as [G1 [G2 [G3 _]]].
  split; [|split; assumption]. eapply Core_ctx; [exact G1|]. apply same_ctx_nodes; reflexivity.
Qed.

Lemma Tk_attr e at_ r ql el p l v c c' :
  Core e at_ c -> ev (TAttribute r ql el p l v) c = Ok c' ->
  Core e at_ c' /\ lp c' = lp c /\ fl c' = fl c.
Proof.
  intros HC H. cbn [token_with] in H. apply process_attribute_ctx in H.
  split; [eapply Core_ctx; eassumption|]. split; [apply same_ctx_lp|apply same_ctx_fl]; exact H.
Qed.

Lemma Tk_end e at_ el r c c' :
  Core e at_ c -> ev (TElementEnd el r) c = Ok c' ->
  match el with
  | EOpen => Core (e + root_inc c) true c' /\ lp c' = S (lp c) /\ fl c' = fl c
  | EEmpty => Core (e + root_inc c) true c' /\ lp c' = lp c /\ fl c' = fl c
  | EClose _ _ => Core e true c' /\ S (lp c') = lp c /\ fl c' = fl c /\ fl c < N.of_nat (lp c)
  end.
Proof.
  intros HC H. cbn [token_with] in H. mbind H c1 H1.
  destruct (K_reset text _ _ _ _ HC H1) as [G1 [G2 [G3 _]]].
  pose proof (process_element_K text _ _ _ _ _ _ G1 H) as HK.
  assert (Hri : root_inc c1 = root_inc c) by (unfold root_inc; rewrite G2; reflexivity).
  rewrite Hri, G2, G3 in HK. destruct el; try exact HK.
  destruct HK as [K1 [K2 [K3 K4]]]. repeat split; try assumption.
  unfold lp in *. unfold len_N in K4. destruct G1 as [k [cs [outer HI]]].
  rewrite <- G2. exact K4.
Qed.

Lemma Tk_cdata e t r c c' :
  Core e true c -> (2 <= lp c)%nat -> ev (TCdata t r) c = Ok c' ->
  Core e true c' /\ lp c' = lp c /\ fl c' = fl c.
Proof. intros HC Hlp H. cbn [token_with] in H. eapply K_cdata; eassumption. Qed.

(* the text callback keeps the state *)
Definition text_ok : Prop := forall t r c c',
  Core 1 true c -> (2 <= lp c)%nat -> ptext t r c = Ok c' ->
  Core 1 true c' /\ lp c' = lp c /\ fl c' = fl c.
Hypothesis HT : text_ok.

(* ---- the content of an entity value: the stack never goes below the floor f >= 2 ---- *)
Definition SN (at_ : bool) (f : N) (c : context) : Prop :=
  Core 1 at_ c /\ fl c = f /\ f <= N.of_nat (lp c).

Lemma root_inc_0 c : (2 <= lp c)%nat -> root_inc c = 0%nat.
Proof. unfold root_inc. intros H. destruct (Nat.eqb_spec (lp c) 1); [lia|reflexivity]. Qed.

Lemma nested_content f s c s' c' :
  2 <= f -> SN true f c ->
  parse_content text context ev s c = Ok (s', c') -> SN true f c'.
Proof.
  intros Hf HS H.
  assert (HF : Fin context (fun _ => SN true f) (SN true f) c').
  { eapply (parse_content_X text context ev (fun _ => SN true f) (fun _ => SN false f) (SN true f));
      [..|exact HS|exact H]; clear s c s' c' HS H.
    - intros _ t v r c c' [H1 [H2 H3]] H. destruct (Tk_pi _ _ _ _ _ _ _ H1 H) as [G1 [G2 G3]].
      split; [exact G1|]. rewrite G2, G3. split; assumption.
    - intros _ t r c c' [H1 [H2 H3]] H. destruct (Tk_comment _ _ _ _ _ _ H1 H) as [G1 [G2 G3]].
      split; [exact G1|]. rewrite G2, G3. split; assumption.
    - intros _ t r c c' [H1 [H2 H3]] H. cbn [token_with] in H.
      destruct (HT _ _ _ _ H1 ltac:(lia) H) as [G1 [G2 G3]].
      split; [exact G1|]. rewrite G2, G3. split; assumption.
    - intros _ t r c c' [H1 [H2 H3]] H.
      destruct (Tk_cdata _ _ _ _ _ H1 ltac:(lia) H) as [G1 [G2 G3]].
      split; [exact G1|]. rewrite G2, G3. split; assumption.
    - intros _ p l st c c' [H1 [H2 H3]] H. destruct (Tk_start _ _ _ _ _ _ _ H1 H) as [G1 [G2 G3]].
      split; [exact G1|]. rewrite G2, G3. split; assumption.
    - intros _ r ql el p l v c c' [H1 [H2 H3]] H.
      destruct (Tk_attr _ _ _ _ _ _ _ _ _ _ H1 H) as [G1 [G2 G3]].
      split; [exact G1|]. rewrite G2, G3. split; assumption.
    - intros _ r c c' [H1 [H2 H3]] H. pose proof (Tk_end _ _ EEmpty _ _ _ H1 H) as [G1 [G2 G3]].
      rewrite root_inc_0 in G1 by lia. rewrite Nat.add_0_r in G1.
      split; [exact G1|]. rewrite G2, G3. split; assumption.
    - intros _ r c c' [H1 [H2 H3]] H. pose proof (Tk_end _ _ EOpen _ _ _ H1 H) as [G1 [G2 G3]].
      rewrite root_inc_0 in G1 by lia. rewrite Nat.add_0_r in G1.
      split; [exact G1|]. rewrite G2, G3. split; [assumption|lia].
    - intros p l r c c' [H1 [H2 H3]] H.
      pose proof (Tk_end _ _ (EClose p l) _ _ _ H1 H) as [G1 [G2 [G3 G4]]].
      split; [exact G1|]. rewrite G3. split; [assumption|lia].
    - intros _ p l r c c' _ [H1 [H2 H3]] H.
      pose proof (Tk_end _ _ (EClose p l) _ _ _ H1 H) as [G1 [G2 [G3 G4]]].
      split; [exact G1|]. rewrite G3. split; [assumption|lia]. }
  destruct HF as [HF|[_ HF]]; exact HF.
Qed.
End Tokens.

Section Entities.
Variable text : bytes.

Definition content_ok (pc : Stream.stream -> context -> res (Stream.stream * context)) : Prop :=
  forall f s c s' c', 2 <= f -> SN true f c -> pc s c = Ok (s', c') -> SN true f c'.

Lemma process_text_with_ok pc : content_ok pc -> text_ok (process_text_with text pc).
Proof.
  intros Hpc t r c c' HC Hlp H. unfold process_text_with in H.
  destruct (negb _); [eapply K_append_text; eassumption|].
  mbind H s0 Hs0.
  match type of H with bind ?x _ = _ => destruct x as [[buf c1]|e|p|] eqn:Hloop; try discriminate end.
  cbn [bind] in H.
  assert (HP1 : Core 1 true c1 /\ lp c1 = lp c /\ fl c1 = fl c).
  { clear H.
    match type of Hloop with context [?f (length (s_rest s0))] =>
      assert (Hgen : forall fuel s b0 c0, Core 1 true c0 -> (2 <= lp c0)%nat ->
                forall b1 c1, f fuel s b0 c0 = Ok (b1, c1) ->
                Core 1 true c1 /\ lp c1 = lp c0 /\ fl c1 = fl c0);
      [|apply (Hgen (S (length (s_rest s0))) s0 tb_new c HC Hlp buf c1); exact Hloop]
    end.
    clear - Hpc. intros fuel. induction fuel as [|fu IH]; intros s b0 c HC Hlp b1 c1 H;
      cbv beta match fix in H; [discriminate|].
    mstep H; [injection H as <- <-; repeat split; exact HC|].
    mbind H chs Hch. destruct chs as [ch s1]. destruct ch as [x|cp|value].
    - eapply IH; eassumption.
    - eapply IH; eassumption.
    - mbind H c2 H2.
      assert (HC2 : Core 1 true c2 /\ lp c2 = lp c /\ fl c2 = fl c).
      { destruct (negb (tb_is_empty b0)).
        - mbind H2 bs Hbs. eapply K_append_text; eassumption.
        - injection H2 as <-. repeat split. exact HC. }
      destruct HC2 as [HC2 [Hlp2 Hfl2]].
      mbind H ld1 Hld1. mbind H ld2 Hld2. mbind H es Hes. mbind H sc3 H3. destruct sc3 as [s3 c3].
      eapply (Hpc (N.of_nat (lp c2))) in H3; [|lia|].
      2:{ split; [|split].
          - eapply Core_fields; [exact HC2| |reflexivity]. apply same_tree_nodes; reflexivity.
          - reflexivity.
          - unfold lp. cbn [c_parent_prefixes set_entity_floor set_tag_name set_ld]. lia. }
      destruct H3 as [HC3 [Hfl3 Hlp3]].
      mstep H; [discriminate|].
      apply negb_false_iff in E0. apply N.eqb_eq in E0.
      assert (Hlp3' : lp c3 = lp c2).
      { unfold fl in Hfl3. rewrite Hfl3 in E0. unfold len_N in E0. unfold lp in *. lia. }
      eapply IH in H.
      + destruct H as [J1 [J2 J3]]. split; [exact J1|]. rewrite J2, J3.
        unfold lp, fl in *.
        cbn [c_parent_prefixes c_entity_floor set_ld set_entity_floor set_tag_name] in *.
        split; congruence.
      + eapply Core_fields; [exact HC3| |reflexivity]. apply same_tree_nodes; reflexivity.
      + unfold lp in *. cbn [c_parent_prefixes set_ld set_entity_floor set_tag_name]. lia. }
  destruct HP1 as [HC1 [Hlp1 Hfl1]].
  destruct (negb (tb_is_empty buf)).
  - mbind H bs Hbs. destruct (K_append_text _ _ _ _ _ HC1 ltac:(lia) H) as [G1 [G2 G3]].
    split; [exact G1|split; congruence].
  - injection H as <-. repeat split; assumption.
Qed.

Lemma parse_content_lvl_ok lvl : content_ok (parse_content_lvl text lvl).
Proof.
  induction lvl as [|lvl IH]; intros f s c s' c' Hf HS H; cbn [parse_content_lvl] in H;
    [discriminate|].
  eapply nested_content; [|exact Hf|exact HS|exact H].
  apply process_text_with_ok. exact IH.
Qed.

Lemma process_text_ok : text_ok (process_text text).
Proof. apply process_text_with_ok. apply parse_content_lvl_ok. Qed.
End Entities.

(* ------------------------------------------------------------------ *)
(** * The document level *)

Section Top.
Variable text : bytes.
Notation ev := (token text).

Definition SP (at_ : bool) (c : context) : Prop := Core 0 at_ c /\ lp c = 1%nat.
Definition SC (at_ : bool) (d : N) (c : context) : Prop :=
  Core 1 at_ c /\ (2 + N.to_nat d <= lp c)%nat.
Definition SE (c : context) : Prop := Core 1 false c.

Lemma ev_unfold tk c : ev tk c = token_with text (process_text text) tk c.
Proof. reflexivity. Qed.

Lemma misc_SP s c s' c' :
  SP true c -> parse_misc text context ev s c = Ok (s', c') -> SP true c'.
Proof.
  apply (parse_misc_X text context ev (SP true)).
  - intros t v r c0 c1 [H1 H2] H. destruct (Tk_pi text (process_text text) _ _ _ _ _ _ _ H1 H) as [G1 [G2 G3]].
    split; [exact G1|congruence].
  - intros t r c0 c1 [H1 H2] H. destruct (Tk_comment text (process_text text) _ _ _ _ _ _ H1 H) as [G1 [G2 G3]].
    split; [exact G1|congruence].
Qed.

Lemma doctype_SP s c s' c' :
  SP true c -> parse_doctype text context ev s c = Ok (s', c') -> SP true c'.
Proof.
  apply (parse_doctype_X text context ev (SP true)).
  - intros t v r c0 c1 [H1 H2] H. destruct (Tk_pi text (process_text text) _ _ _ _ _ _ _ H1 H) as [G1 [G2 G3]].
    split; [exact G1|congruence].
  - intros t r c0 c1 [H1 H2] H. destruct (Tk_comment text (process_text text) _ _ _ _ _ _ H1 H) as [G1 [G2 G3]].
    split; [exact G1|congruence].
  - intros n v c0 c1 [H1 H2] H. destruct (Tk_entity text (process_text text) _ _ _ _ _ _ H1 H) as [G1 [G2 G3]].
    split; [exact G1|congruence].
Qed.

Lemma misc_SE s c s' c' :
  SE c -> parse_misc text context ev s c = Ok (s', c') -> SE c'.
Proof.
  apply (parse_misc_X text context ev SE).
  - intros t v r c0 c1 H1 H. destruct (Tk_pi text (process_text text) _ _ _ _ _ _ _ H1 H) as [G1 _].
    eapply Core_weaken. exact G1.
  - intros t r c0 c1 H1 H. destruct (Tk_comment text (process_text text) _ _ _ _ _ _ H1 H) as [G1 _].
    eapply Core_weaken. exact G1.
Qed.

Lemma root_inc_1 c : lp c = 1%nat -> root_inc c = 1%nat.
Proof. unfold root_inc. intros ->. reflexivity. Qed.

Lemma element_top s c o s' c' :
  SP true c -> parse_element text context ev s c = Ok (o, s', c') ->
  if o then SC true 0 c' else SE c'.
Proof.
  apply (parse_element_X text context ev (SP true) (SP false) SE (SC true 0)).
  - intros p l st c0 c1 [H1 H2] H. destruct (Tk_start text (process_text text) _ _ _ _ _ _ _ H1 H) as [G1 [G2 G3]].
    split; [exact G1|congruence].
  - intros r ql el p l v c0 c1 [H1 H2] H.
    destruct (Tk_attr text (process_text text) _ _ _ _ _ _ _ _ _ _ H1 H) as [G1 [G2 G3]].
    split; [exact G1|congruence].
  - intros r c0 c1 [H1 H2] H. pose proof (Tk_end text (process_text text) _ _ EEmpty _ _ _ H1 H) as [G1 _].
    rewrite root_inc_1 in G1 by exact H2. eapply Core_weaken. exact G1.
  - intros r c0 c1 [H1 H2] H. pose proof (Tk_end text (process_text text) _ _ EOpen _ _ _ H1 H) as [G1 [G2 _]].
    rewrite root_inc_1 in G1 by exact H2. split; [exact G1|]. rewrite G2, H2. cbn. lia.
Qed.

Lemma content_top s c s' c' :
  SC true 0 c -> parse_content text context ev s c = Ok (s', c') -> SE c'.
Proof.
  intros HS H.
  assert (HF : Fin context (SC true) SE c').
  { eapply (parse_content_X text context ev (SC true) (SC false) SE); [..|exact HS|exact H];
      clear s c s' c' HS H.
    - intros d t v r c c' [H1 H2] H. destruct (Tk_pi text (process_text text) _ _ _ _ _ _ _ H1 H) as [G1 [G2 G3]].
      split; [exact G1|]. rewrite G2. exact H2.
    - intros d t r c c' [H1 H2] H. destruct (Tk_comment text (process_text text) _ _ _ _ _ _ H1 H) as [G1 [G2 G3]].
      split; [exact G1|]. rewrite G2. exact H2.
    - intros d t r c c' [H1 H2] H. rewrite ev_unfold in H. cbn [token_with] in H.
      destruct (process_text_ok text _ _ _ _ H1 ltac:(lia) H) as [G1 [G2 G3]].
      split; [exact G1|]. rewrite G2. exact H2.
    - intros d t r c c' [H1 H2] H.
      destruct (Tk_cdata text (process_text text) _ _ _ _ _ H1 ltac:(lia) H) as [G1 [G2 G3]].
      split; [exact G1|]. rewrite G2. exact H2.
    - intros d p l st c c' [H1 H2] H. destruct (Tk_start text (process_text text) _ _ _ _ _ _ _ H1 H) as [G1 [G2 G3]].
      split; [exact G1|]. rewrite G2. exact H2.
    - intros d r ql el p l v c c' [H1 H2] H.
      destruct (Tk_attr text (process_text text) _ _ _ _ _ _ _ _ _ _ H1 H) as [G1 [G2 G3]].
      split; [exact G1|]. rewrite G2. exact H2.
    - intros d r c c' [H1 H2] H. pose proof (Tk_end text (process_text text) _ _ EEmpty _ _ _ H1 H) as [G1 [G2 G3]].
      rewrite root_inc_0 in G1 by lia. rewrite Nat.add_0_r in G1.
      split; [exact G1|]. rewrite G2. exact H2.
    - intros d r c c' [H1 H2] H. pose proof (Tk_end text (process_text text) _ _ EOpen _ _ _ H1 H) as [G1 [G2 G3]].
      rewrite root_inc_0 in G1 by lia. rewrite Nat.add_0_r in G1.
      split; [exact G1|]. rewrite G2. lia.
    - intros p l r c c' [H1 H2] H.
      pose proof (Tk_end text (process_text text) _ _ (EClose p l) _ _ _ H1 H) as [G1 _].
      eapply Core_weaken. exact G1.
    - intros d p l r c c' Hd [H1 H2] H.
      pose proof (Tk_end text (process_text text) _ _ (EClose p l) _ _ _ H1 H) as [G1 [G2 _]].
      split; [exact G1|]. lia. }
  destruct HF as [HF|[d [HF _]]]; [exact HF|]. eapply Core_weaken. exact HF.
Qed.

Definition FS (c : context) : Prop := SP true c \/ SE c.

Lemma misc_FS s c s' c' :
  FS c -> parse_misc text context ev s c = Ok (s', c') -> FS c'.
Proof. intros [H|H] Hm; [left; eapply misc_SP|right; eapply misc_SE]; eassumption. Qed.

Lemma parse_document_FS dtd c c' :
  SP true c -> parse_document text context ev dtd c = Ok c' -> FS c'.
Proof.
  unfold parse_document. intros HQ H.
  mbind H s1 Hs1. mbind H s2 Hs2. mbind H sc3 H3. destruct sc3 as [s3 c3].
  apply misc_SP in H3; [|assumption].
  mbind H sc4 H4. destruct sc4 as [s4 c4].
  assert (Q4 : SP true c4).
  { minv H4; [|assumption]. eapply misc_SP; [|eassumption]. eapply doctype_SP; eassumption. }
  mbind H sc5 H5. destruct sc5 as [s5 c5].
  assert (Q5 : FS c5).
  { minv H5.
    - right. eapply content_top; [|eassumption].
      eapply (element_top _ _ true); eassumption.
    - right. eapply (element_top _ _ false); eassumption.
    - left. assumption. }
  minv H. eapply misc_FS; eassumption.
Qed.
End Top.

(* ------------------------------------------------------------------ *)
(** * parse *)

Lemma init_context_SP text opt c : init_context text opt = Ok c -> SP true c.
Proof.
  intros H. apply init_context_Inv in H. split.
  - exists KdRoot, [], []. constructor; try reflexivity. exact H.
  - exact (inv_pp _ _ _ _ H).
Qed.

Theorem parse_wf_doc_tree : forall (text : bytes) (opt : options) (d : document),
  parse text opt = Ok d ->
  exists t : tree, links_of_nodes (d_nodes d) = encode t /\ wf_doc_tree t.
Proof.
  intros text opt d H. unfold parse in H.
  mbind H c0 H0. apply init_context_SP in H0.
  mbind H c Hc. apply (parse_document_FS text _ _ _ H0) in Hc.
  mbind H it Hit. mbind H he Hhe.
  destruct he; cbn [negb] in H; [|discriminate].
  destruct (1 <? len_N (c_parent_prefixes c)) eqn:Epp; [discriminate|].
  injection H as <-.
  assert (HC : exists e, Core e false c) by
    (destruct Hc as [[Hc _]|Hc]; [exists 0%nat; eapply Core_weaken; exact Hc|exists 1%nat; exact Hc]).
  assert (He : forall k cs outer, Inv2 0 false k cs outer c -> SE c) .
  { intros k cs outer HI. exfalso.
    pose proof (i2_inv _ _ _ _ _ _ HI) as HI1.
    assert (Ho : outer = []).
    { pose proof (inv_pp _ _ _ _ HI1) as Hpp. unfold len_N in Epp. destruct outer; [reflexivity|].
      cbn [length] in Hpp. lia. }
    subst outer. pose proof (inv_kinds _ _ _ _ HI1) as Hk. cbn [kinds_ok] in Hk. subst k.
    pose proof (inv_rows _ _ _ _ HI1) as Hrows. unfold ztree in Hrows. cbn [plug] in Hrows.
    pose proof (i2_elem _ _ _ _ _ _ HI) as Hel. unfold ztree in Hel. cbn [plug tchildren] in Hel.
    assert (1 <= count_kind KdElem cs)%nat.
    { eapply (children_any_element_count (c_doc c) cs Hrows); [|exact Hhe].
      eapply children_good; eassumption. }
    lia. }
  assert (HSE : SE c).
  { destruct Hc as [[Hc _]|Hc]; [|exact Hc].
    apply Core_weaken in Hc. destruct Hc as [k [cs [outer HI]]]. eapply He. exact HI. }
  clear Hc HC He. destruct HSE as [k [cs [outer HI]]].
  pose proof (i2_inv _ _ _ _ _ _ HI) as HI1.
  assert (Ho : outer = []).
  { pose proof (inv_pp _ _ _ _ HI1) as Hpp. unfold len_N in Epp. destruct outer; [reflexivity|].
    cbn [length] in Hpp. lia. }
  subst outer. pose proof (inv_kinds _ _ _ _ HI1) as Hk. cbn [kinds_ok] in Hk. subst k.
  pose proof (inv_rows _ _ _ _ HI1) as Hrows. unfold ztree in Hrows. cbn [plug] in Hrows.
  destruct (closed_ok_forall _ (inv_cs _ _ _ _ HI1)) as [Hc1 Hc2].
  pose proof (i2_elem _ _ _ _ _ _ HI) as Hel. unfold ztree in Hel. cbn [plug tchildren] in Hel.
  pose proof (i2_text _ _ _ _ _ _ HI) as Htx. unfold ztree in Htx. cbn [plug tchildren] in Htx.
  exists (T KdRoot cs). split; [exact Hrows|]. unfold wf_doc_tree. cbn [tkind tchildren].
  repeat split.
  - cbn [no_root_below]. exact Hc1.
  - cbn [only_containers_have_children is_container orb andb]. exact Hc2.
  - exact Hel.
  - exact Htx.
  - rewrite no_adjacent_text_T. exact (i2_nat _ _ _ _ _ _ HI).
Qed.

Print Assumptions parse_wf_doc_tree.

Theorem parse_no_adjacent_text : forall (text : bytes) (opt : options) (d : document),
  parse text opt = Ok d ->
  exists t : tree, links_of_nodes (d_nodes d) = encode t /\ no_adjacent_text t = true.
Proof.
  intros text opt d H. destruct (parse_wf_doc_tree _ _ _ H) as [t [H1 [_ [_ [_ [_ [_ H2]]]]]]].
  exists t. split; assumption.
Qed.

Print Assumptions parse_no_adjacent_text.

Theorem parse_single_root_element : forall (text : bytes) (opt : options) (d : document),
  parse text opt = Ok d ->
  exists t : tree, links_of_nodes (d_nodes d) = encode t /\
                   count_kind KdElem (tchildren t) = 1%nat.
Proof.
  intros text opt d H. destruct (parse_wf_doc_tree _ _ _ H) as [t [H1 [_ [_ [_ [H2 _]]]]]].
  exists t. split; assumption.
Qed.

Print Assumptions parse_single_root_element.

Theorem parse_no_text_under_root : forall (text : bytes) (opt : options) (d : document),
  parse text opt = Ok d ->
  exists t : tree, links_of_nodes (d_nodes d) = encode t /\
                   count_kind KdText (tchildren t) = 0%nat.
Proof.
  intros text opt d H. destruct (parse_wf_doc_tree _ _ _ H) as [t [H1 [_ [_ [_ [_ [H2 _]]]]]]].
  exists t. split; assumption.
Qed.

Print Assumptions parse_no_text_under_root.
