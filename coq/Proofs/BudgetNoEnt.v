(* BudgetNoEnt.v -- C09, the case without a DOCTYPE: no entity is ever declared, no text is
   ever expanded, every node is paid by a byte of the input:  nodes <= len + 1. *)
From Coq Require Import Ascii String.
From Coq Require Import Lia ZifyBool ZifyN ZifyNat.
From RX Require Import Generated.
From RX.Model Require Import Base CharClass Stream Tokenizer Doc Builder Parse.
From RX.Proofs Require Import Tactics OptionsParam OptionsBuild OptionsMain OptionsDtd
  BudgetStream BudgetTok BudgetBuild.

(* same entities, at most one node more *)
Definition e1 (c c' : context) : Prop := c_entities c' = c_entities c /\ cnt c' <= cnt c + 1.

Section WithText.
Variable text : bytes.

Ltac ke := cproj; try reflexivity; try congruence.

Lemma ke_append_node k r c id c' : append_node k r c = Ok (id, c') -> c_entities c' = c_entities c.
Proof. unfold append_node. intros H. usteps. ke. Qed.

Lemma ke_append_text t r c c' : append_text t r c = Ok c' -> c_entities c' = c_entities c.
Proof. unfold append_text. intros H. usteps; repeat fw1 ke_append_node; ke. Qed.

Lemma ke_merge_text c c' : merge_text text c = Ok c' -> c_entities c' = c_entities c.
Proof. unfold merge_text. intros H. usteps. ke. Qed.

Lemma ke_reset_after_text c c' : reset_after_text text c = Ok c' -> c_entities c' = c_entities c.
Proof. unfold reset_after_text. intros H. usteps; repeat fw1 ke_merge_text; ke. Qed.

Lemma ke_resolve_namespaces c x c' :
  resolve_namespaces text c = Ok (x, c') -> c_entities c' = c_entities c.
Proof. unfold resolve_namespaces. intros H. usteps; ke. Qed.

Lemma ke_resolve_attributes nss c x c' :
  resolve_attributes text nss c = Ok (x, c') -> c_entities c' = c_entities c.
Proof. unfold resolve_attributes. intros H. usteps; ke. Qed.

Lemma ke_normalize_attribute v c x c' :
  normalize_attribute text v c = Ok (x, c') -> c_entities c' = c_entities c.
Proof. unfold normalize_attribute. intros H. usteps; ke. Qed.

Lemma ke_process_attribute r q e p l v c c' :
  process_attribute text r q e p l v c = Ok c' -> c_entities c' = c_entities c.
Proof. unfold process_attribute. intros H. usteps; repeat fw1 ke_normalize_attribute; ke. Qed.

Lemma ke_process_element e r c c' :
  process_element text e r c = Ok c' -> c_entities c' = c_entities c.
Proof.
  unfold process_element. intros H. usteps;
  repeat first [fw1 ke_resolve_namespaces | fw1 ke_resolve_attributes | fw1 ke_append_node]; ke.
Qed.

Lemma ke_process_cdata t r c c' : process_cdata text t r c = Ok c' -> c_entities c' = c_entities c.
Proof. unfold process_cdata. intros H. usteps; fw1 ke_append_text; assumption. Qed.

Lemma cnt_normalize_attribute v c x c' :
  normalize_attribute text v c = Ok (x, c') -> cnt c' = cnt c.
Proof. unfold normalize_attribute. intros H. usteps; unfold cnt; cproj; reflexivity. Qed.

Lemma cnt_process_attribute r q e p l v c c' :
  process_attribute text r q e p l v c = Ok c' -> cnt c' = cnt c.
Proof.
  unfold process_attribute. intros H. usteps; fw1 cnt_normalize_attribute;
  repeat fw1 push_ns_nodes; unfold cnt in *; cproj; congruence.
Qed.

(* without entities the text loop does not touch the context *)
Lemma pt_loop_noent pc r fuel : forall s buf c buf' c',
  pt_loop text pc r fuel s buf c = Ok (buf', c') -> c_entities c = [] -> c' = c.
Proof.
  induction fuel; intros s buf c buf' c' H He; [discriminate|].
  cbn [pt_loop] in H. destruct (at_end s); [inversion H; reflexivity|].
  apply bind_ok in H. destruct H as [[ch s1] [Hch H]]. cbv beta iota in H.
  destruct ch as [x|cp|value]; try (eapply IHfuel; eassumption).
  exfalso. clear H. rewrite He in Hch. unfold parse_next_chunk in Hch.
  usteps; cbn [find_entity] in *; discriminate.
Qed.

Lemma process_text_noent pc t r c c' :
  process_text_with text pc t r c = Ok c' -> c_entities c = [] ->
  c_entities c' = [] /\ cnt c' <= cnt c + 1.
Proof.
  rewrite process_text_with_eq. intros H He.
  assert (Hat : forall x c2, append_text x r c = Ok c2 -> c_entities c2 = [] /\ cnt c2 <= cnt c + 1).
  { intros x c2 Ha. pose proof (ke_append_text _ _ _ _ Ha). apply b1_append_text in Ha.
    destruct Ha as (_ & _ & ?). split; [congruence|assumption]. }
  destruct (negb (existsb _ _)); [eapply Hat; eassumption|].
  apply bind_ok in H. destruct H as [s0 [_ H]]. cbv beta in H.
  apply bind_ok in H. destruct H as [[buf c1] [Hloop H]]. cbv beta iota in H.
  apply pt_loop_noent in Hloop; [|assumption]. subst c1.
  destruct (negb (tb_is_empty buf)).
  - apply bind_ok in H. destruct H as [bs [_ H]]. eapply Hat; eassumption.
  - inversion H; subst. split; [assumption|lia].
Qed.

(* no entities declared; the nodes since (p0, c0) are paid by the bytes since p0 *)
Definition NE (p0 : N) (c0 : context) (p : N) (c : context) : Prop :=
  c_entities c = [] /\ p0 <= p /\ cnt c + p0 <= cnt c0 + p.

Lemma token_noent_r p0 c0 tk r c c' p :
  tok_range tk = Some r -> token text tk c = Ok c' ->
  NE p0 c0 p c -> p <= fst r -> fst r < snd r -> NE p0 c0 (snd r) c'.
Proof.
  intros Htr H (He & Hp0 & Hn) Hp Hr.
  assert (Hfin : c_entities c' = c_entities c -> cnt c' <= cnt c + 1 -> NE p0 c0 (snd r) c').
  { intros H1 H2. unfold NE. rewrite H1. repeat split; try assumption; lia. }
  unfold token in H.
  destruct tk; cbn [tok_range] in Htr; inversion Htr; subst; cbn [token_with] in H.
  - usteps. pose proof (ke_reset_after_text _ _ Hb). pose proof (ke_append_node _ _ _ _ _ Hb0).
    apply b0_reset_after_text in Hb. apply b1_append_node in Hb0.
    destruct Hb as (_ & ?), Hb0 as (_ & _ & ?). apply Hfin; [congruence|lia].
  - usteps. pose proof (ke_reset_after_text _ _ Hb). pose proof (ke_append_node _ _ _ _ _ Hb0).
    apply b0_reset_after_text in Hb. apply b1_append_node in Hb0.
    destruct Hb as (_ & ?), Hb0 as (_ & _ & ?). apply Hfin; [congruence|lia].
  - usteps. pose proof (ke_reset_after_text _ _ Hb). pose proof (ke_process_element _ _ _ _ H).
    apply b0_reset_after_text in Hb. apply b1_process_element in H.
    destruct Hb as (_ & ?), H as (_ & _ & ?). apply Hfin; [congruence|lia].
  - apply process_text_noent in H; [|assumption]. destruct H as [H1 H2].
    apply Hfin; [congruence|assumption].
  - pose proof (ke_process_cdata _ _ _ _ H). apply b1_process_cdata in H.
    destruct H as (_ & _ & ?). apply Hfin; assumption.
Qed.

Lemma token_noent_0 p0 c0 tk c c' p :
  tok_range tk = None -> is_decl tk = false -> token text tk c = Ok c' ->
  NE p0 c0 p c -> NE p0 c0 p c'.
Proof.
  intros Htr Hdecl H (He & Hp0 & Hn).
  assert (Hfin : c_entities c' = c_entities c -> cnt c' = cnt c -> NE p0 c0 p c').
  { intros H1 H2. unfold NE. rewrite H1, H2. auto. }
  unfold token in H.
  destruct tk; cbn [tok_range is_decl] in *; try discriminate; cbn [token_with] in H.
  - usteps. pose proof (ke_reset_after_text _ _ Hb). apply b0_reset_after_text in Hb.
    destruct Hb as (_ & Hc). apply Hfin; unfold cnt in *; cproj; assumption.
  - pose proof (ke_process_attribute _ _ _ _ _ _ _ _ H).
    apply Hfin; [assumption|]. eapply cnt_process_attribute; eassumption.
Qed.

End WithText.

Theorem budget_no_entities : forall text opt d,
  parse text opt = Ok d -> contains_b (b "<!DOCTYPE") text = false ->
  len_N (d_nodes d) <= tlen text + 1.
Proof.
  intros text opt d H Hc. rewrite parse_prun in H.
  assert (H' : prun text false opt = Ok d).
  { destruct (allow_dtd opt); [rewrite prun_noflag by exact Hc|]; exact H. }
  clear H. unfold prun in H'.
  apply bind_ok in H'. destruct H' as [c0 [H0 H]].
  apply bind_ok in H. destruct H as [c [Hpd H]].
  apply fin_doc in H. subst d. fold (cnt c).
  assert (Hc0 : cnt c0 = 1 /\ c_entities c0 = []).
  { pose proof (init_cnt _ _ _ H0) as [Hn _]. split; [exact Hn|].
    unfold init_context in H0. usteps. reflexivity. }
  destruct Hc0 as [Hn He].
  eapply (tp_parse_document_nodtd text context (token text) (NE 0 c0)) in Hpd.
  - destruct Hpd as [p [Hp (_ & _ & Hb)]]. lia.
  - intros p p' x Hpp (? & ? & ?). unfold NE. repeat split; try assumption; lia.
  - intros tok r x x' p. apply token_noent_r.
  - intros tok x x' p. apply token_noent_0.
  - unfold NE. repeat split; try assumption; lia.
Qed.
Print Assumptions budget_no_entities.
