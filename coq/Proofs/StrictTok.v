(* Proofs/StrictTok.v -- the generic tokenizer theorem of NoPanicTokenizer.v once more, with a
   stronger well-formedness of the tokens handed to the callback ([TokOk2]): in addition, the
   local name of an attribute is not empty and the text of a CDATA section is a slice of the
   input between two char boundaries.  (Same proofs; NoPanicTokenizer.v is registered and is
   not edited.) *)
From Coq Require Import Ascii String.
From Coq Require Import List Arith NArith Bool Lia ZifyBool ZifyN ZifyNat.
Import ListNotations.
From RX Require Import Generated.
From RX.Model Require Import Base CharClass Stream Tokenizer.
From RX.Proofs Require Import Tactics NoPanicUtf8 NoPanicStream NoPanicTokenizer PubidChar.
Open Scope N_scope.

Definition TokOk2 (text : bytes) (tok : token) : Prop :=
  TokOk text tok /\
  match tok with
  | TAttribute _ _ _ _ local _ => slice_bytes text local <> []
  | TCdata t _ => SliceOk text t
  | _ => True
  end.

Lemma safeP_bind_eq {A B} allow (r : res A) (f : A -> res B) (Q : A -> Prop) (R : B -> Prop) :
  safeP allow r Q -> (forall a, r = Ok a -> Q a -> safeP allow (f a) R) -> safeP allow (bind r f) R.
Proof. destruct r; cbn; auto. Qed.

(* the local part of a qualified name is never the empty string *)
Lemma consume_qname_local_ne text s p l s' :
  consume_qname text s = Ok (p, l, s') -> slice_bytes text l <> [].
Proof.
  unfold consume_qname. intros H.
  apply bind_ok in H as ([spl s1] & _ & H). apply bind_ok in H as ([p0 l0] & _ & H).
  destruct (_ && _); [apply bind_ok in H as (? & _ & H); discriminate|].
  destruct (negb (str_is_name_start (slice_bytes text l0))) eqn:E;
    [apply bind_ok in H as (? & _ & H); discriminate|].
  inversion H; subst. intros Hn. rewrite Hn in E. discriminate.
Qed.

Section Tok.
Variable text : bytes.
Hypothesis Hvalid : valid_utf8_b text = true.
Variable C : Type.
Variable ev : token -> C -> res C.
Variable allow : panic_site -> Prop.
Variables Iout Iin : C -> Prop.

Notation St := (St C Iout Iin).

Hypothesis Hev : forall tok c, TokOk2 text tok -> St (tok_pre tok) c ->
  safeP allow (ev tok c) (St (tok_post tok)).

Notation stream := Stream.stream.
Notation SInv := (SInv text).
Notation Ext := (Ext text).
Notation Bd := (Boundary text).
Notation safeA := (safeP allow).

Local Hint Resolve Ext_SInv Ext_refl : core.

(* chain of extensions *)
Ltac ext :=
  repeat first [ eassumption
               | apply (Ext_refl text); solve [eauto]
               | eapply (Ext_trans text); [eassumption|] ].

(* bind step using a (strict) stream lemma L for the first computation *)
Ltac sb L := eapply safeP_bind; [ apply safe_safeP; eapply L; eauto; try reflexivity | ].
(* bind step using a tokenizer-level lemma *)
Ltac sbp L := eapply safeP_bind; [ eapply L; eauto; try reflexivity | ].
(* bind step for the callback *)
Ltac sbev := eapply safeP_bind; [ apply Hev; [split|]; cbn [TokOk tok_pre NoPanicTokenizer.St fst snd]; auto | ].

Lemma err_atP {A} s mk (Q : A -> Prop) : SInv s -> safeA (err_at text s mk) Q.
Proof. intros. apply safe_safeP, err_at_safe; auto. Qed.
Lemma err_fromP {A} p mk (Q : A -> Prop) : safeA (err_from text p mk) Q.
Proof. apply safe_safeP, err_from_safe; auto. Qed.

Definition PostS (s : stream) (r : stream * C) : Prop := Ext s (fst r) /\ Iout (snd r).
Definition PostE (s : stream) (r : bool * stream * C) : Prop := Ext s (snd (fst r)) /\ Iout (snd r).

Lemma PostS_trans s s1 r : Ext s s1 -> PostS s1 r -> PostS s r.
Proof. unfold PostS. intros H [H1 H2]. split; auto. eapply Ext_trans; eauto. Qed.

Lemma PostS_intro s s1 c : Ext s s1 -> Iout c -> PostS s (s1, c).
Proof. unfold PostS; cbn; auto. Qed.

Lemma parse_comment_safe s c : SInv s -> Iout c -> starts_with s (b "<!--") = true ->
  safeA (parse_comment text C ev s c) (PostS s).
Proof.
  intros Hs Hc Hsw. unfold parse_comment.
  sb (advance_kw text Hvalid (b "<!--")). intros s1 H1. cbv beta.
  sb consume_chars_safe. intros [txt s2] [H2 _]. cbv beta iota.
  sb skip_string_safe. intros s3 H3. cbv beta.
  destruct (contains_b _ _); [apply err_fromP; auto|].
  destruct (ends_with_byte _ _); [apply err_fromP; auto|].
  sbev. intros c1 Hc1. cbn in Hc1. cbn. apply PostS_intro; auto. ext.
Qed.

Lemma parse_pi_safe s c : SInv s -> Iout c -> ascii_ahead 2 s ->
  safeA (parse_pi text C ev s c) (PostS s).
Proof.
  intros Hs Hc Ha. unfold parse_pi.
  destruct (starts_with s _); [apply err_atP; auto|].
  sb (advance_ascii text Hvalid 2). intros s1 H1. cbv beta.
  sb consume_name_safe. intros [target s2] [H2 _]. cbv beta iota zeta.
  eapply safeP_bind with (Q := Ext s2).
  { apply safe_safeP. destruct (starts_with s2 _); [cbn; eauto|]. eapply consume_spaces_safe; eauto. }
  intros s3 H3. cbv beta.
  sb consume_chars_safe. intros [content s4] [H4 _]. cbv beta iota.
  sb skip_string_safe. intros s5 H5. cbv beta.
  sbev. intros c1 Hc1. cbn in Hc1. cbn. apply PostS_intro; auto. ext.
Qed.

Lemma parse_misc_loop_safe : forall fu s c, SInv s -> Iout c ->
  safeA (parse_misc_loop text C ev fu s c) (PostS s).
Proof.
  induction fu; intros s c Hs Hc; cbn [parse_misc_loop]; [exact I|].
  destruct (at_end s). { cbn. apply PostS_intro; auto. }
  cbv zeta. pose proof (skip_spaces_safe text Hvalid s Hs) as H1.
  destruct (starts_with (skip_spaces s) (b "<!--")) eqn:E1.
  { sbp parse_comment_safe. intros [s2 c2] [H2 Hc2]. cbn [fst snd] in *. cbv beta iota.
    eapply safeP_mono; [apply IHfu; eauto|]. intros r Hr. eapply PostS_trans; [|exact Hr]. ext. }
  destruct (starts_with (skip_spaces s) (b "<?")) eqn:E2.
  { sbp parse_pi_safe. { apply (starts_with_ascii_ahead text _ (b "<?")); eauto. }
    intros [s2 c2] [H2 Hc2]. cbn [fst snd] in *. cbv beta iota.
    eapply safeP_mono; [apply IHfu; eauto|]. intros r Hr. eapply PostS_trans; [|exact Hr]. ext. }
  cbn. apply PostS_intro; auto.
Qed.

Lemma parse_misc_safe s c : SInv s -> Iout c -> safeA (parse_misc text C ev s c) (PostS s).
Proof. apply parse_misc_loop_safe. Qed.

Lemma parse_attribute_safe s : SInv s -> safe (parse_attribute text s) (fun r => Ext s (snd r)).
Proof.
  intros Hs. unfold parse_attribute.
  eapply safe_bind; [eapply consume_qname_safe; eauto|]. intros [[p l] s1] [H1 _]. cbv beta iota.
  eapply safe_bind; [eapply consume_eq_safe; eauto|]. intros s2 H2. cbv beta.
  eapply safe_bind; [eapply consume_quote_safe; eauto|]. intros [q s3] (H3 & Hq & _). cbv beta iota.
  eapply safe_bind; [eapply skip_chars_safe; eauto|]. intros s4 H4. cbv beta.
  eapply safe_bind; [eapply slice_back_safe; eauto; [apply H4|lia]|]. intros sl _.
  eapply safe_bind; [eapply consume_byte_safe; eauto|]. intros s5 H5. cbn. ext.
Qed.

Lemma parse_pseudo_attribute_safe name s : SInv s -> safe (parse_pseudo_attribute text name s) (Ext s).
Proof.
  intros Hs. unfold parse_pseudo_attribute. cbv zeta.
  eapply safe_bind; [eapply parse_attribute_safe; eauto|]. intros [[p l] s1] H1. cbn [snd] in H1. cbv beta iota.
  destruct (negb (slice_len p =? 0) || _); [apply err_from_safe; auto|]. cbn. exact H1.
Qed.

Lemma decl_consume_spaces_safe s : SInv s -> safe (decl_consume_spaces text s) (Ext s).
Proof.
  intros Hs. unfold decl_consume_spaces.
  destruct (starts_with_space s). { cbn. apply skip_spaces_safe; auto. }
  destruct (starts_with s _); cbn [negb andb]. { cbn. auto. }
  destruct (at_end s) eqn:E; cbn [negb]. { cbn. auto. }
  eapply safe_bind; [eapply curr_byte_unchecked_safe; eauto; apply Hs|].
  intros x _. apply err_at_safe; auto.
Qed.

Lemma parse_declaration_safe s : SInv s -> starts_with s (b "<?xml") = true ->
  safe (parse_declaration text s) (Ext s).
Proof.
  intros Hs Hsw. unfold parse_declaration.
  eapply safe_bind; [eapply (advance_kw text Hvalid (b "<?xml")); eauto; reflexivity|].
  intros s1 H1. cbv beta.
  eapply safe_bind; [eapply decl_consume_spaces_safe; eauto|]. intros s2 H2. cbv beta.
  destruct (starts_with s2 (b "version")); cbn [negb].
  2:{ eapply safe_mono; [eapply skip_string_safe; eauto; reflexivity|]. intros s3 H3. ext. }
  eapply safe_bind; [eapply parse_pseudo_attribute_safe; eauto|]. intros s3 H3. cbv beta.
  eapply safe_bind; [eapply decl_consume_spaces_safe; eauto|]. intros s4 H4. cbv beta.
  eapply safe_bind with (Q := Ext s4).
  { destruct (starts_with s4 (b "encoding")); [|cbn; eauto].
    eapply safe_bind; [eapply parse_pseudo_attribute_safe; eauto|]. intros s5 H5.
    eapply safe_mono; [eapply decl_consume_spaces_safe; eauto|]. intros s6 H6. ext. }
  intros s5 H5. cbv beta.
  eapply safe_bind with (Q := Ext s5).
  { destruct (starts_with s5 (b "standalone")); [|cbn; eauto].
    eapply parse_pseudo_attribute_safe; eauto. }
  intros s6 H6. cbv beta zeta.
  pose proof (skip_spaces_safe text Hvalid s6 ltac:(eauto)) as H7.
  eapply safe_mono; [eapply skip_string_safe; eauto; reflexivity|]. intros s8 H8. ext.
Qed.

Lemma consume_bytes_not_sl q s : ascii q = true -> SInv s ->
  safe (consume_bytes text (fun x => negb (x =? q)) s)
       (fun '(sl, s') => Ext s s' /\ sl = {| sl_start := s_pos s; sl_end := s_pos s' |}).
Proof.
  intros Hq Hs. unfold consume_bytes. pose proof (skip_bytes_not text s q Hq Hs) as HE.
  eapply safe_bind; [apply slice_back_safe; try apply HE; apply Hs|].
  intros sl ->. cbn. auto.
Qed.

Lemma parse_external_literal_safe s : SInv s -> safe (parse_external_literal text s) (Ext s).
Proof.
  intros Hs. unfold parse_external_literal.
  eapply safe_bind; [eapply consume_quote_safe; eauto|]. intros [q s3] (H3 & Hq & _). cbv beta iota zeta.
  eapply safe_bind; [eapply consume_bytes_not_sl; eauto|]. intros [value s4] [H4 ->]. cbv beta iota.
  eapply safe_bind; [eapply is_xml_str_safe; eauto; [apply H3|apply H4|apply H4]|]. intros _ _.
  eapply safe_mono; [eapply consume_byte_safe; eauto|]. intros s5 H5. ext.
Qed.

Lemma parse_pubid_literal_safe s : SInv s -> safe (parse_pubid_literal text s) (Ext s).
Proof.
  intros Hs. unfold parse_pubid_literal.
  eapply safe_bind; [eapply consume_quote_safe; eauto|]. intros [q s3] (H3 & Hq & _). cbv beta iota zeta.
  assert (H4 : Ext s3 (skip_bytes (fun x => negb (x =? q) && pubid_char x) s3)).
  { apply (skip_bytes_ascii text Hvalid); [|eauto]. intros x Hx. unfold ascii.
    apply pubid_char_ltb128. cbv beta in Hx. apply andb_true_iff in Hx. apply Hx. }
  set (s4 := skip_bytes _ s3) in *.
  eapply safe_bind; [apply (curr_byte_safe text); apply H4|]. intros x (r & Hr & Hlt). cbv beta.
  destruct (negb (x =? q)) eqn:E; [apply err_at_safe; eauto|].
  assert (x = q) by lia. subst x.
  eapply safe_mono; [eapply (advance1_safe text Hvalid); eauto|]. intros s5 H5. ext.
Qed.

Lemma parse_external_id_safe s : SInv s ->
  safe (parse_external_id text s) (fun r => Ext s (snd r)).
Proof.
  intros Hs. unfold parse_external_id.
  destruct (starts_with s (b "SYSTEM") || starts_with s (b "PUBLIC")) eqn:E.
  2:{ cbn. auto. }
  cbv zeta.
  eapply safe_bind with (Q := Ext s).
  { apply orb_true_iff in E as [E|E].
    - eapply (advance_kw text Hvalid (b "SYSTEM")); eauto.
    - eapply (advance_kw text Hvalid (b "PUBLIC")); eauto. }
  intros s1 H1. cbv beta.
  eapply safe_bind; [eapply slice_back_safe; eauto; [apply Hs|apply H1]|]. intros id _.
  eapply safe_bind; [eapply consume_spaces_safe; eauto|]. intros s2 H2. cbv beta.
  destruct (bytes_eqb _ _).
  { eapply safe_bind; [eapply parse_external_literal_safe; eauto|]. intros s3 H3. cbn. ext. }
  eapply safe_bind; [eapply parse_pubid_literal_safe; eauto|]. intros s3 H3. cbv beta.
  eapply safe_bind; [eapply consume_spaces_safe; eauto|]. intros s6 H6. cbv beta.
  eapply safe_bind; [eapply parse_external_literal_safe; eauto|]. intros s9 H9. cbn. ext.
Qed.

Lemma parse_entity_def_safe s is_ge : SInv s ->
  safe (parse_entity_def text s is_ge)
       (fun r => Ext s (snd r) /\ match fst r with Some v => SliceOk text v | None => True end).
Proof.
  intros Hs. unfold parse_entity_def.
  eapply safe_bind; [eapply curr_byte_safe; eauto; apply Hs|]. intros x _. cbv beta.
  destruct ((x =? 34) || (x =? 39)).
  { eapply safe_bind; [eapply consume_quote_safe; eauto|]. intros [q s1] (H1 & Hq & _). cbv beta iota zeta.
    pose proof (skip_bytes_not text s1 q Hq ltac:(eauto)) as H2.
    eapply safe_bind; [eapply slice_back_safe; eauto; [apply H1|apply H2]|]. intros value ->.
    eapply safe_bind; [eapply is_xml_str_safe; eauto; [apply H1|apply H2|apply H2]|]. intros _ _.
    eapply safe_bind; [eapply consume_byte_safe; eauto|]. intros s3 H3. cbn. split; [ext|].
    split; [apply H1|]. split; [apply H2|]. cbn. apply H2. }
  destruct ((x =? 83) || (x =? 80)).
  2:{ apply err_at_safe; auto. }
  eapply safe_bind; [eapply parse_external_id_safe; eauto|].
  intros [found s1] H1. cbn [snd] in H1. cbv beta iota.
  destruct found; [|apply err_at_safe; eauto].
  destruct is_ge; [|cbn; auto].
  cbv zeta. pose proof (skip_spaces_safe text Hvalid s1 ltac:(eauto)) as H2.
  destruct (starts_with (skip_spaces s1) (b "NDATA")) eqn:E; [|cbn; split; [ext|exact I]].
  destruct (negb (starts_with_space s1)); [apply err_at_safe; eauto|].
  eapply safe_bind; [eapply (advance_kw text Hvalid (b "NDATA")); eauto; reflexivity|].
  intros s3 H3. cbv beta.
  eapply safe_bind; [eapply consume_spaces_safe; eauto|]. intros s4 H4. cbv beta.
  eapply safe_bind; [eapply skip_name_safe; eauto|]. intros s5 H5. cbn. split; [ext|exact I].
Qed.

Lemma parse_entity_decl_safe s c : SInv s -> Iout c -> starts_with s (b "<!ENTITY") = true ->
  safeA (parse_entity_decl text C ev s c) (PostS s).
Proof.
  intros Hs Hc Hsw. unfold parse_entity_decl.
  sb (advance_kw text Hvalid (b "<!ENTITY")). intros s1 H1. cbv beta.
  sb consume_spaces_safe. intros s2 H2. cbv beta.
  pose proof (try_consume_byte_safe text Hvalid 37 s2 ltac:(eauto) eq_refl) as H3.
  destruct (try_consume_byte 37 s2) as [pe s3]. cbn [snd] in H3. cbv zeta.
  eapply safeP_bind with (Q := Ext s3).
  { apply safe_safeP. destruct pe; [|cbn; eauto]. eapply consume_spaces_safe; eauto. }
  intros s4 H4. cbv beta.
  sb consume_name_safe. intros [name s5] [H5 _]. cbv beta iota.
  sb consume_spaces_safe. intros s6 H6. cbv beta.
  sb parse_entity_def_safe. intros [def s7] [H7 Hdef]. cbn [fst snd] in H7, Hdef. cbv beta iota.
  eapply safeP_bind with (Q := Iout).
  { destruct def; [|exact Hc]. destruct (negb pe); [|exact Hc].
    eapply safeP_mono; [apply Hev; [split|]; cbn; auto|]. cbn. auto. }
  intros c1 Hc1. cbv beta.
  pose proof (skip_spaces_safe text Hvalid s7 ltac:(eauto)) as H8.
  sb consume_byte_safe. intros s9 H9. cbn. apply PostS_intro; auto. ext.
Qed.

Lemma consume_decl_loop_safe fuel : forall s, SInv s -> safe (consume_decl_loop text fuel s) (Ext s).
Proof.
  induction fuel as [|fu IH]; intros s Hs; [exact I|]. cbn [consume_decl_loop]. cbv zeta.
  assert (H1 : Ext s (skip_bytes (fun x => negb (x =? 62) && negb (x =? 34) && negb (x =? 39)) s)).
  { apply (skip_bytes_stop text); [|apply Hs]. intros x Hx. unfold is_cont. lia. }
  set (f := fun x => negb (x =? 62) && negb (x =? 34) && negb (x =? 39)) in *.
  eapply safe_bind; [apply (curr_byte_safe text); apply H1|]. intros c (r & Hr & Hlt). cbv beta.
  pose proof (skip_bytes_curr f s c r Hr Hlt) as Hc. unfold f in Hc.
  assert (Ha : ascii c = true) by (unfold ascii; lia).
  eapply safe_bind; [eapply (advance1_safe text Hvalid); eauto; apply H1|]. intros s2 H2. cbv beta.
  destruct (c =? 62); [cbn; ext|]. cbv zeta.
  pose proof (skip_bytes_not text s2 c Ha ltac:(eauto)) as H3.
  eapply safe_bind; [eapply (consume_byte_safe text Hvalid); eauto|]. intros s4 H4. cbv beta.
  eapply safe_mono; [apply IH; eauto|]. intros s5 H5. ext.
Qed.

Lemma consume_decl_safe s : SInv s -> safe (consume_decl text s) (Ext s).
Proof. intros Hs. unfold consume_decl. apply consume_decl_loop_safe. exact Hs. Qed.

Lemma parse_doctype_start_safe s : SInv s -> starts_with s (b "<!DOCTYPE") = true ->
  safe (parse_doctype_start text s)
       (fun s' => Ext s s' /\ exists x r, s_rest s' = x :: r /\ s_pos s' < s_end s' /\ ascii x = true
                                          /\ byte_is_space x = false).
Proof.
  intros Hs Hsw. unfold parse_doctype_start.
  eapply safe_bind; [eapply (advance_kw text Hvalid (b "<!DOCTYPE")); eauto; reflexivity|].
  intros s1 H1. cbv beta.
  eapply safe_bind; [eapply consume_spaces_safe; eauto|]. intros s2 H2. cbv beta.
  eapply safe_bind; [eapply skip_name_safe; eauto|]. intros s3 H3. cbv beta zeta.
  pose proof (skip_spaces_safe text Hvalid s3 ltac:(eauto)) as H4.
  eapply safe_bind; [eapply parse_external_id_safe; eauto|].
  intros [found s5] H5. cbn [snd] in H5. cbv beta iota.
  pose proof (skip_spaces_safe text Hvalid s5 ltac:(eauto)) as H6.
  eapply safe_bind; [eapply curr_byte_safe; eauto; apply H6|]. intros x (r & Hr & Hlt). cbv beta.
  destruct (negb (x =? 91) && negb (x =? 62)) eqn:E; [apply err_at_safe; eauto|].
  cbn. split; [ext|]. exists x, r. repeat split; auto.
  - unfold ascii. lia.
  - assert (x = 91 \/ x = 62) as [->| ->] by lia; reflexivity.
Qed.

Lemma skip_bytes_nop f (s : stream) x r : s_rest s = x :: r -> f x = false ->
  s_rest (skip_bytes f s) = x :: r /\ s_pos (skip_bytes f s) = s_pos s /\
  s_end (skip_bytes f s) = s_end s.
Proof.
  clear Hvalid Hev. intros Hr Hx. unfold skip_bytes. cbn [s_rest s_pos s_end]. rewrite Hr.
  assert (E : scan f (x :: r) (N.to_nat (s_end s - s_pos s)) = 0%nat).
  { destruct (N.to_nat (s_end s - s_pos s)); cbn; auto. rewrite Hx. reflexivity. }
  rewrite E. cbn [skipn]. repeat split; auto. lia.
Qed.

Lemma parse_doctype_loop_safe start : forall fu s c, SInv s -> Iout c ->
  safeA (parse_doctype_loop text C ev fu start s c) (PostS s).
Proof.
  induction fu; intros s c Hs Hc; cbn [parse_doctype_loop]; [exact I|].
  destruct (at_end s). { cbn. apply PostS_intro; auto. }
  cbv zeta. pose proof (skip_spaces_safe text Hvalid s Hs) as H1.
  set (s1 := skip_spaces s) in *.
  assert (Hloop : forall r, PostS s1 r ->
            safeA (parse_doctype_loop text C ev fu start (fst r) (snd r)) (PostS s)).
  { intros [s2 c2] [H2 Hc2]. cbn [fst snd] in *. eapply safeP_mono; [apply IHfu; eauto|].
    intros r Hr. eapply PostS_trans; [|exact Hr]. ext. }
  destruct (starts_with s1 (b "<!ENTITY")) eqn:E1.
  { sbp parse_entity_decl_safe. intros [s2 c2] H2. cbv beta iota. apply (Hloop _ H2). }
  destruct (starts_with s1 (b "<!--")) eqn:E2.
  { sbp parse_comment_safe. intros [s2 c2] H2. cbv beta iota. apply (Hloop _ H2). }
  destruct (starts_with s1 (b "<?")) eqn:E3.
  { sbp parse_pi_safe. { apply (starts_with_ascii_ahead text _ (b "<?")); eauto. }
    intros [s2 c2] H2. cbv beta iota. apply (Hloop _ H2). }
  destruct (starts_with s1 (b "]")) eqn:E4.
  { sb (advance_kw text Hvalid (b "]")). intros s2 H2. cbv beta.
    pose proof (skip_spaces_safe text Hvalid s2 ltac:(eauto)) as H3.
    destruct (curr_byte_opt (skip_spaces s2)) as [x|] eqn:Ec; [|exact I].
    destruct (x =? 62) eqn:Ex; [|apply err_atP; eauto].
    apply curr_byte_opt_some in Ec as (r & Hr & Hlt). assert (x = 62) by lia. subst x.
    sb advance1_safe. intros s4 H4. cbn. apply PostS_intro; auto. ext. }
  destruct (_ || _).
  { pose proof (consume_decl_safe s1 ltac:(eauto)) as Hd.
    destruct (consume_decl text s1) as [s2|e|p|]; cbn in Hd.
    - apply (Hloop (s2, c)). split; auto.
    - apply err_fromP; auto.
    - contradiction.
    - exact I. }
  apply err_atP; eauto.
Qed.

Lemma parse_doctype_safe s c : SInv s -> Iout c -> starts_with s (b "<!DOCTYPE") = true ->
  safeA (parse_doctype text C ev s c) (PostS s).
Proof.
  intros Hs Hc Hsw. unfold parse_doctype. cbv zeta.
  sb parse_doctype_start_safe. intros s1 (H1 & x & r & Hr & Hlt & Hx & Hsp). cbv beta.
  pose proof (skip_spaces_safe text Hvalid s1 ltac:(eauto)) as H2.
  destruct (skip_bytes_nop byte_is_space s1 x r Hr Hsp) as (Hr2 & Hp2 & He2).
  fold (skip_spaces s1) in *.
  assert (Hadv : safe (advance 1 (skip_spaces s1)) (Ext (skip_spaces s1))).
  { eapply advance1_safe; eauto. lia. }
  match goal with |- safeP _ (if ?c then _ else _) _ => destruct c end.
  - eapply safeP_bind; [apply safe_safeP; exact Hadv|]. intros s3 H3. cbn.
    apply PostS_intro; auto. ext.
  - eapply safeP_bind; [apply safe_safeP; exact Hadv|]. intros s3 H3. cbv beta.
    eapply safeP_mono; [apply parse_doctype_loop_safe; eauto|].
    intros r' Hr'. eapply PostS_trans; [|exact Hr']. ext.
Qed.

Lemma parse_element_loop_safe tag_start : forall fu s c, SInv s -> Iin c ->
  safeA (parse_element_loop text C ev fu tag_start s c) (PostE s).
Proof.
  induction fu; intros s c Hs Hc; cbn [parse_element_loop]; [exact I|].
  destruct (at_end s); [exact I|]. cbv zeta.
  pose proof (skip_spaces_safe text Hvalid s Hs) as H1. set (s1 := skip_spaces s) in *.
  sb curr_byte_safe. { apply H1. } intros x (r & Hr & Hlt). cbv beta.
  destruct (x =? 47) eqn:E47.
  { assert (x = 47) by lia. subst x.
    sb advance1_safe. intros s2 H2. cbv beta.
    sb consume_byte_safe. intros s3 H3. cbv beta.
    sbev. intros c1 Hc1. cbn in Hc1. cbn. split; cbn [fst snd]; auto. ext. }
  destruct (x =? 62) eqn:E62.
  { assert (x = 62) by lia. subst x.
    sb advance1_safe. intros s2 H2. cbv beta.
    sbev. intros c1 Hc1. cbn in Hc1. cbn. split; cbn [fst snd]; auto. ext. }
  eapply safeP_bind with (Q := Ext s1).
  { apply safe_safeP. destruct (starts_with_space s); [cbn; eauto|]. eapply consume_spaces_safe; eauto. }
  intros s2 H2. cbv beta.
  eapply safeP_bind_eq; [apply safe_safeP; eapply consume_qname_safe; eauto|].
  intros [[prefix local] s3] Eq [H3 _]. apply consume_qname_local_ne in Eq. cbv beta iota.
  sb consume_eq_safe. intros s4 H4. cbv beta.
  sb consume_quote_safe. intros [q s5] (H5 & Hq & Hlt5). cbv beta iota.
  sb advance_until2_safe. intros s6 H6. cbv beta.
  sb slice_back_safe. { apply H5. } { apply H6. } intros value ->.
  sb is_xml_str_safe. { apply H5. } { apply H6. } { apply H6. } intros _ _.
  sb consume_byte_safe. intros s7 H7. cbv beta.
  sbev.
  { split; [split; [apply H5|split; [apply H6|cbn; apply H6]]|].
    destruct H6 as (_ & H6 & _). destruct H7 as (_ & H7 & _). lia. }
  intros c1 Hc1. cbn in Hc1.
  eapply safeP_mono; [apply IHfu; eauto|]. intros r' [Hr' Hc']. split; auto. ext.
Qed.

Lemma parse_element_safe s c : SInv s -> Iout c -> ascii_ahead 1 s ->
  safeA (parse_element text C ev s c) (PostE s).
Proof.
  intros Hs Hc Ha. unfold parse_element. cbv zeta.
  sb (advance_ascii text Hvalid 1). intros s1 H1. cbv beta.
  sb consume_qname_safe. intros [[prefix local] s2] [H2 Hl]. cbv beta iota.
  sbev. intros c1 Hc1. cbn in Hc1.
  eapply safeP_mono; [apply parse_element_loop_safe; eauto|].
  intros r' [Hr' Hc']. split; auto. ext.
Qed.

Lemma parse_cdata_safe s c : SInv s -> Iout c -> starts_with s (b "<![CDATA[") = true ->
  safeA (parse_cdata text C ev s c) (PostS s).
Proof.
  intros Hs Hc Hsw. unfold parse_cdata. cbv zeta.
  sb (advance_kw text Hvalid (b "<![CDATA[")). intros s1 H1. cbv beta.
  sb consume_chars_safe. intros [txt s2] [H2 ->]. cbv beta iota.
  sb skip_string_safe. intros s3 H3. cbv beta.
  sbev. { split; [apply H1|]. split; [apply H2|]. cbn. apply H2. }
  intros c1 Hc1. cbn in Hc1. cbn. apply PostS_intro; auto. ext.
Qed.

Lemma parse_close_element_safe s c : SInv s -> Iout c -> ascii_ahead 2 s ->
  safeA (parse_close_element text C ev s c) (PostS s).
Proof.
  intros Hs Hc Ha. unfold parse_close_element. cbv zeta.
  sb (advance_ascii text Hvalid 2). intros s1 H1. cbv beta.
  sb consume_qname_safe. intros [[prefix local] s2] [H2 _]. cbv beta iota.
  pose proof (skip_spaces_safe text Hvalid s2 ltac:(eauto)) as H3.
  sb consume_byte_safe. intros s4 H4. cbv beta.
  sbev. intros c1 Hc1. cbn in Hc1. cbn. apply PostS_intro; auto. ext.
Qed.

Lemma parse_text_safe s c : SInv s -> Iout c -> safeA (parse_text text C ev s c) (PostS s).
Proof.
  intros Hs Hc. unfold parse_text. cbv zeta.
  sb consume_chars_safe. intros [txt s1] [H1 ->]. cbv beta iota.
  destruct (_ && _); [apply err_atP; eauto|].
  sbev. { split; [apply Hs|]. split; [apply H1|]. split; [apply H1|reflexivity]. }
  intros c1 Hc1. cbn in Hc1. cbn. apply PostS_intro; auto.
Qed.

Lemma parse_content_loop_safe : forall fu depth s c, SInv s -> Iout c ->
  safeA (parse_content_loop text C ev fu depth s c) (PostS s).
Proof.
  induction fu; intros depth s c Hs Hc; cbn [parse_content_loop]; [exact I|].
  destruct (at_end s) eqn:Eend. { cbn. apply PostS_intro; auto. }
  assert (Hloop : forall d r, PostS s r ->
            safeA (parse_content_loop text C ev fu d (fst r) (snd r)) (PostS s)).
  { intros d [s2 c2] [H2 Hc2]. cbn [fst snd] in *. eapply safeP_mono; [apply IHfu; eauto|].
    intros r Hr. eapply PostS_trans; [|exact Hr]. ext. }
  sb curr_byte_unchecked_safe. { apply Hs. } intros x (r & Hr & Hlt). cbv beta.
  destruct (x =? 60) eqn:E60.
  2:{ sbp parse_text_safe. intros [s2 c2] H2. cbv beta iota. apply (Hloop _ _ H2). }
  assert (x = 60) by lia. subst x.
  pose proof (next_byte_safe text s ltac:(apply Hs)) as Hnb.
  destruct (next_byte s) as [y|e|p|]; cbn in Hnb; [|apply err_atP; auto|contradiction|exact I].
  destruct Hnb as (x' & r' & Hr' & Hlt'). rewrite Hr in Hr'. inversion Hr'; subst x' r. clear Hr'.
  destruct (y =? 33) eqn:E33.
  { destruct (starts_with s (b "<!--")) eqn:E1.
    { sbp parse_comment_safe. intros [s2 c2] H2. cbv beta iota. apply (Hloop _ _ H2). }
    destruct (starts_with s (b "<![CDATA[")) eqn:E2.
    { sbp parse_cdata_safe. intros [s2 c2] H2. cbv beta iota. apply (Hloop _ _ H2). }
    apply err_atP; auto. }
  destruct (y =? 63) eqn:E63.
  { assert (y = 63) by lia. subst y.
    sbp parse_pi_safe. { eapply ascii_ahead_2; eauto. }
    intros [s2 c2] H2. cbv beta iota. apply (Hloop _ _ H2). }
  destruct (y =? 47) eqn:E47.
  { assert (y = 47) by lia. subst y.
    sbp parse_close_element_safe. { eapply ascii_ahead_2; eauto. }
    intros [s2 c2] H2. cbv beta iota.
    destruct (depth =? 0); [cbn; exact H2|]. apply (Hloop _ _ H2). }
  sbp parse_element_safe. { eapply ascii_ahead_1; eauto. }
  intros [[open s2] c2] H2. cbv beta iota. apply (Hloop _ (s2, c2) H2).
Qed.

(* the form used for the re-entry of the tokenizer on an entity value *)
Lemma parse_content_safe s c : SInv s -> Iout c -> safeA (parse_content text C ev s c) (PostS s).
Proof. apply parse_content_loop_safe. Qed.

Lemma bom_safe : safe (if starts_with (stream_new text) [239; 187; 191]
                      then advance 3 (stream_new text) else Ok (stream_new text))
                     (Ext (stream_new text)).
Proof.
  pose proof (SInv_new text) as Hn.
  destruct (starts_with (stream_new text) [239; 187; 191]) eqn:E; [|cbn; auto].
  apply starts_with_split in E as [Hle [r Hr]]; [|apply Hn].
  change (blen [239; 187; 191]) with 3 in Hle.
  apply advance_safe; auto; [apply Hn|].
  destruct Hn as [(_ & _ & _ & Hbe) Hb0]. cbn [stream_new s_pos s_end s_rest] in *.
  destruct (char_step text Hvalid 0 (tlen text) Hb0 Hbe ltac:(lia)) as (c & n & Hd & _ & _ & Hb & _).
  cbn [N.to_nat skipn] in Hd. rewrite Hr in Hd.
  assert (Hc : exists c', decode1 ([239; 187; 191] ++ r) = Some (c', 3)) by (eexists; reflexivity).
  destruct Hc as [c' Hc]. rewrite Hc in Hd. inversion Hd; subst. exact Hb.
Qed.

Lemma parse_document_safe dtd c : Iout c -> safeA (parse_document text C ev dtd c) Iout.
Proof.
  intros Hc. unfold parse_document. cbv zeta.
  eapply safeP_bind; [apply safe_safeP, bom_safe|]. intros s1 H1. cbv beta.
  eapply safeP_bind with (Q := Ext s1).
  { apply safe_safeP. destruct (starts_with_declaration s1) eqn:E; [|cbn; eauto].
    unfold starts_with_declaration in E. apply andb_true_iff in E as [E _].
    eapply parse_declaration_safe; eauto. }
  intros s2 H2. cbv beta.
  sbp parse_misc_safe. intros [s3 c3] [H3 Hc3]. cbn [fst snd] in H3, Hc3. cbv beta iota.
  pose proof (skip_spaces_safe text Hvalid s3 ltac:(eauto)) as H4. set (s4 := skip_spaces s3) in *.
  eapply safeP_bind with (Q := PostS s4).
  { destruct (starts_with s4 (b "<!DOCTYPE")) eqn:E; [|cbn; apply PostS_intro; eauto].
    destruct (negb dtd); [exact I|].
    sbp parse_doctype_safe. intros [s5 c5] [H5 Hc5]. cbn [fst snd] in H5, Hc5. cbv beta iota.
    eapply safeP_mono; [apply parse_misc_safe; eauto|].
    intros r Hr. eapply PostS_trans; eauto. }
  intros [s5 c5] [H5 Hc5]. cbn [fst snd] in H5, Hc5. cbv beta iota.
  pose proof (skip_spaces_safe text Hvalid s5 ltac:(eauto)) as H6. set (s6 := skip_spaces s5) in *.
  eapply safeP_bind with (Q := PostS s6).
  { destruct (curr_byte_opt s6) as [x|] eqn:Ec; [|cbn; apply PostS_intro; eauto].
    destruct (x =? 60) eqn:Ex; [|cbn; apply PostS_intro; eauto].
    apply curr_byte_opt_some in Ec as (r & Hr & Hlt). assert (x = 60) by lia. subst x.
    sbp parse_element_safe. { eapply ascii_ahead_1; eauto. }
    intros [[open s7] c7] [H7 Hc7]. cbn [fst snd] in H7, Hc7. cbv beta iota.
    destruct open; [|cbn; apply PostS_intro; auto].
    eapply safeP_mono; [apply parse_content_safe; eauto|].
    intros r' Hr'. eapply PostS_trans; eauto. }
  intros [s7 c7] [H7 Hc7]. cbn [fst snd] in H7, Hc7. cbv beta iota.
  sbp parse_misc_safe. intros [s8 c8] [H8 Hc8]. cbn [fst snd] in H8, Hc8. cbv beta iota.
  destruct (negb (at_end s8)); [apply err_atP; eauto|exact Hc8].
Qed.

End Tok.

